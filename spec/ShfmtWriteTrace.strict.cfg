SPECIFICATION TraceSpec
CONSTANTS InPlace = FALSE
  Scenarios <- TinyScenarios
  Names <- Names2
  FDs <- FDs1
INVARIANTS TypeOK Atomic Durable Untouched NoTemps ExitOK EmitPos
