SPECIFICATION Spec
CONSTANTS MaxLen = 6
INVARIANTS EnvReadOnly TreeIsProg EmitVec
