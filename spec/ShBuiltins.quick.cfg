SPECIFICATION Spec
CONSTANTS
  Modes = {"getopts", "count", "breadth", "params", "syntax", "slice", "arith"}
  GMaxHist = 2
  GMaxArgs = 2
  GWordIds = {1, 2, 3, 4, 5, 6}
  GOptIds = {1, 2, 3}
  BMaxArgs = 2
  BMaxArgsCtx = 1
  PMaxArgs = 2
  SMaxLen = 1
INVARIANTS GInRange GOutsLen ShiftLaw StatusLaw EmitVec
