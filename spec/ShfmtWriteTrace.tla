--------------------------- MODULE ShfmtWriteTrace ---------------------------
(* C35 trace validation: strace logs of the real `shfmt -w` (complete runs and
   runs killed by SIGKILL at a chosen system call) are replayed through the
   actions of ShfmtWrite.  The log is ndjson in $VERIF_TRACE; many runs are
   concatenated, each introduced by a "reset" event that carries the scenario.

   A log line is accepted only if the ShfmtWrite action for that call is enabled
   with the logged arguments (strict configuration, InPlace = FALSE): an open of
   a scenario file with write/truncate/create flags, a write/fchmod through a
   descriptor that refers to one, a chmod/unlink/rename-away of one, a rename of a
   temp file over one that violates G0..G5, an exit that leaves temp files or has
   the wrong status -- none of these has an action, the replay stops there and the
   position is reported.  At every "exit"/"crash" event the abstract file system
   is emitted (VEC) and compared by the driver with the real directory.
   With InPlace = TRUE every call is given its kernel effect, so that for a rejected
   trace TLC names the invariant that breaks (diagnosis only). *)
EXTENDS ShfmtWrite, IOUtils

Trace == ndJsonDeserialize(IOEnv.VERIF_TRACE)

VARIABLES i,      \* index of the next event
          tid     \* id of the run being replayed
tvars == <<scn, pc, exitst, tgt, tmps, used, fdt, i, tid>>

SeqSet(s) == {s[k] : k \in 1..Len(s)}

MkFiles(fs) == [p \in {fs[k].path : k \in 1..Len(fs)} |->
                 LET f == fs[CHOOSE k \in 1..Len(fs) : fs[k].path = p] IN
                 File(f.path, f.kind, Bits(f.mode), f.status, f.fmtlen, f.arg, f.to)]

NoScn == [umask |-> {}, files |-> <<>>]

TraceInit == /\ i = 1 /\ tid = 0
             /\ scn = NoScn /\ pc = "done" /\ exitst = 0
             /\ tgt = <<>> /\ tmps = {} /\ used = {} /\ fdt = {}

ResetTo(e) ==
  /\ pc \in {"done", "crashed"}
  /\ LET s == [umask |-> Bits(e.umask), files |-> MkFiles(e.files)] IN
     /\ scn' = s /\ tgt' = InitTgt(s)
  /\ pc' = "run" /\ exitst' = 0 /\ tmps' = {} /\ used' = {} /\ fdt' = {}
  /\ tid' = e.t

EmitEnd(kind, st) ==
  PrintT(<<"VEC", ToJson([t |-> tid, end |-> kind, exit |-> st, at |-> i, tgt |-> tgt, tmps |-> tmps])>>)

Step(e) ==
  CASE e.call = "reset"   -> ResetTo(e)
    [] e.call = "observe" -> Observe /\ UNCHANGED tid
    [] e.call = "open"    -> /\ \/ OpenRd(e.ret, e.path, SeqSet(e.flags))
                                \/ CreateTmp(e.ret, e.path, SeqSet(e.flags), Bits(e.mode))
                                \/ OpenTmpWr(e.ret, e.path, SeqSet(e.flags))
                                \/ OpenTgtWr(e.ret, e.path, SeqSet(e.flags))
                             /\ UNCHANGED tid
    [] e.call = "write"   -> WriteFd(e.fd, e.n) /\ UNCHANGED tid
    [] e.call = "fchmod"  -> FchmodFd(e.fd, Bits(e.mode)) /\ UNCHANGED tid
    [] e.call = "chmod"   -> ChmodPath(e.path, Bits(e.mode)) /\ UNCHANGED tid
    [] e.call = "fsync"   -> FsyncFd(e.fd) /\ UNCHANGED tid
    [] e.call = "close"   -> CloseFd(e.fd) /\ UNCHANGED tid
    [] e.call = "rename"  -> RenamePath(e.from, e.to) /\ UNCHANGED tid
    [] e.call = "unlink"  -> UnlinkPath(e.path) /\ UNCHANGED tid
    [] e.call = "exit"    -> Exit(e.status) /\ EmitEnd("done", e.status) /\ UNCHANGED tid
    [] e.call = "crash"   -> Crash /\ EmitEnd("crashed", 137) /\ UNCHANGED tid
    [] OTHER              -> FALSE          \* "other": a call the contract has no action for

TraceNext == /\ i <= Len(Trace)
             /\ i' = i + 1
             /\ Step(Trace[i])

TraceSpec == TraceInit /\ [][TraceNext]_tvars

\* progress report: the driver takes the largest i seen; Len(Trace)+1 = accepted
EmitPos == PrintT(<<"STAT", ToJson([i |-> i, t |-> tid, n |-> Len(Trace)])>>)
=============================================================================
