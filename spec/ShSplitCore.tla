---------------------------- MODULE ShSplitCore ----------------------------
(* Field splitting proper (POSIX 2.6.5 as bash implements it), shared by ShShellApi (C25).
   The same definitions are part of ShFields (C22), where they are checked against a second,
   independent definition and against bash on every vector.
   Items: [k |-> "c", c, s] a character (s: it comes from an unquoted expansion and may be split),
          [k |-> "nul"] a quoted null string, [k |-> "brk"] a hard field boundary. *)
EXTENDS Integers, Sequences, FiniteSets

IsWs(c) == c \in {" ", "TAB", "NL"}
Range(s) == { s[i] : i \in 1..Len(s) }
IfsChars(ifs) == IF ifs.set THEN Range(ifs.val) ELSE {" ", "TAB", "NL"}

Ch(c, s) == [k |-> "c", c |-> c, s |-> s]
NUL == [k |-> "nul", c |-> "", s |-> FALSE]
BRK == [k |-> "brk", c |-> "", s |-> FALSE]
Chars(t, s) == [i \in 1..Len(t) |-> Ch(t[i], s)]

(* mode: "N" no field open, "O" field open (cur), and inside a delimiter run: "Rc" only white
   space so far and the run closed a field, "Rn" only white space so far and nothing was open,
   "R1" at least one non-white-space delimiter seen. *)
RECURSIVE Fold(_, _, _, _, _, _)
Fold(items, IC, allws, fields, cur, mode) ==
  IF items = <<>> THEN (IF mode = "O" THEN Append(fields, cur) ELSE fields)
  ELSE LET it == Head(items)  rest == Tail(items) IN
    IF it.k = "nul" THEN Fold(rest, IC, allws, fields, IF mode = "O" THEN cur ELSE <<>>, "O")
    ELSE IF it.k = "brk" THEN
      (IF mode = "O" THEN Fold(rest, IC, allws, Append(fields, cur), <<>>, "N")
       ELSE Fold(rest, IC, allws, fields, <<>>, "N"))
    ELSE IF ~(it.s /\ it.c \in IC) THEN
      Fold(rest, IC, allws, fields, (IF mode = "O" THEN cur ELSE <<>>) \o <<it.c>>, "O")
    ELSE IF IsWs(it.c) \/ allws THEN
      (CASE mode = "O" -> Fold(rest, IC, allws, Append(fields, cur), <<>>, "Rc")
         [] mode = "N" -> Fold(rest, IC, allws, fields, <<>>, "Rn")
         [] OTHER      -> Fold(rest, IC, allws, fields, <<>>, mode))
    ELSE
      (CASE mode = "O"  -> Fold(rest, IC, allws, Append(fields, cur), <<>>, "R1")
         [] mode = "Rc" -> Fold(rest, IC, allws, fields, <<>>, "R1")
         [] OTHER       -> Fold(rest, IC, allws, Append(fields, <<>>), <<>>, "R1"))
SplitItems(items, ifs) == Fold(items, IfsChars(ifs), FALSE, <<>>, <<>>, "N")
=============================================================================
