SPECIFICATION Spec
POSTCONDITION Accepted
