SPECIFICATION Spec
CONSTANT MaxLen = 4
INVARIANTS MapIsScan SortedUniq NoInvalid UnsettableUnset EmitInv
