SPECIFICATION Spec
CONSTANTS
  MaxNodes = 4
  Forget = TRUE
INVARIANTS TypeOK EnteredOnce StackIsPath PruneSkips Complete
