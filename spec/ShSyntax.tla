---------------------------- MODULE ShSyntax ----------------------------
(* Abstract grammar of the shell language as parsed by mvdan.cc/sh/v3/syntax (Style G).

   State: a choice sequence `ch`.  Decode(ch) is a derivation of the abstract grammar:
   choice i selects the production used at the i-th choice point met in a left-to-right,
   depth-first derivation; choice points beyond the end of `ch` take production 0 (the
   simplest one), so EVERY state denotes a complete program.  Next appends one choice
   (only values smaller than the arity of the next choice point).  Breadth-first search
   therefore enumerates every derivation whose non-default choices lie within the first
   MaxLen choice points, each exactly once; -simulate gives random deep derivations.

   A derivation yields
     t  the abstract syntax tree the parser must build: records with k = Go type name and
        the exported field names of syntax/nodes.go; positions/comments/zero values omitted
     n  the tree after the printer's documented cosmetic rewrites (Norm), Minify off
     m  the same with Minify on (additionally ${x} -> $x where the name cannot be extended)
     r  the concrete syntax: a sequence of tokens; layout tokens <SP> <SEP> <BGSEP> and the
        here-document marker <HDOC> are instantiated by a Layout (see Layouts)
     v  the language variants in which the program is valid and must parse to t
     x  the variants in which it must be rejected
   Variants in neither v nor x are unspecified (the construct parses differently there).  *)
EXTENDS Integers, Sequences, FiniteSets, TLC, Json

CONSTANTS MaxLen,     \* bound on Len(ch)
          MaxDepth,   \* nesting budget for compound commands / substitutions
          EmitAt      \* emit vectors only for states with Len(ch) >= EmitAt (simulation: = MaxLen)

VARIABLE ch
vars == <<ch>>

All      == {"bash", "posix", "mksh", "bats", "zsh"}
BashLike == {"bash", "bats"}
Ksh      == {"bash", "bats", "mksh"}          \* bash-like plus mksh
NoPosix  == {"bash", "bats", "mksh", "zsh"}
None     == {}

------------------------------------------------------------------------
\* Choice access
Ch(p)    == IF p <= Len(ch) THEN ch[p] ELSE 0
Nd(p, k) == IF p = Len(ch) + 1 THEN k ELSE 0
Need2(a, b) == IF a # 0 THEN a ELSE b

\* Tree constructors (zero-valued fields are omitted, as Abs does)
Flag(name, b) == IF b THEN name :> TRUE ELSE <<>>
Fld(name, val, present) == IF present THEN name :> val ELSE <<>>
Lit(v)    == [k |-> "Lit", Value |-> v]
W(parts)  == [k |-> "Word", Parts |-> parts]
LW(v)     == W(<<Lit(v)>>)
Tri(t)    == [t |-> t, n |-> t, m |-> t]
L1(F(_), a)          == [t |-> F(a.t), n |-> F(a.n), m |-> F(a.m)]
L2(F(_, _), a, b)    == [t |-> F(a.t, b.t), n |-> F(a.n, b.n), m |-> F(a.m, b.m)]
L3(F(_, _, _), a, b, c) == [t |-> F(a.t, b.t, c.t), n |-> F(a.n, b.n, c.n), m |-> F(a.m, b.m, c.m)]

Res(pos, need, tr, r, v, x) ==
  [pos |-> pos, need |-> need, t |-> tr.t, n |-> tr.n, m |-> tr.m, r |-> r, v |-> v, x |-> x]

SP == <<"<SP>">>
\* An opening token directly followed by `(` could be read as the start of arithmetic: keep a blank.
Open(tok, r) == IF r # <<>> /\ Head(r) \in {"(", "(("} THEN <<tok, " ">> ELSE <<tok>>

------------------------------------------------------------------------
\* Arithmetic expressions
PE(name) == [k |-> "ParamExp", Param |-> Lit(name)]
PEShort(name) == PE(name) @@ ("Short" :> TRUE)
BinA(op, a, b) == [k |-> "BinaryArithm", Op |-> op, X |-> a, Y |-> b]
NArith == 18
RECURSIVE DArith(_, _)
DArith(p, d) ==
  LET c == IF d = 0 THEN Ch(p) % 3 ELSE Ch(p)
      nd == Nd(p, IF d = 0 THEN 3 ELSE NArith) IN
  CASE c = 0 -> Res(p + 1, nd, Tri(LW("1")), <<"1">>, All, None)
    [] c = 1 -> Res(p + 1, nd, Tri(LW("i")), <<"i">>, All, None)
    [] c = 2 -> Res(p + 1, nd, Tri(W(<<[k |-> "ParamExp", Short |-> TRUE, Param |-> Lit("x")]>>)),
                    <<"$x">>, All, None)
    [] c \in {3, 4, 5, 6} ->         \* binary operators; minimal spacing and explicit spacing
         LET op == CASE c = 3 -> "+" [] c = 4 -> "*" [] c = 5 -> "<" [] c = 6 -> "&&"
             a == DArith(p + 1, d - 1)
             b == DArith(a.pos, 0) IN
         Res(b.pos, Need2(nd, Need2(a.need, b.need)),
             L2(LAMBDA u, w : BinA(op, u, w), a, b),
             a.r \o (IF c = 6 THEN <<" ", op, " ">> ELSE <<op>>) \o b.r, a.v \cap b.v, a.x \cup b.x)
    [] c = 7 ->                       \* (a+b)*c : parentheses are a node
         LET a == DArith(p + 1, d - 1) IN
         Res(a.pos, Need2(nd, a.need),
             L1(LAMBDA u : BinA("*", [k |-> "ParenArithm", X |-> BinA("+", u, LW("2"))], LW("3")), a),
             <<"(">> \o a.r \o <<"+", "2", ")", "*", "3">>, a.v, a.x)
    [] c = 8 -> Res(p + 1, nd, Tri([k |-> "UnaryArithm", Op |-> "-", X |-> LW("i")]), <<"-", "i">>, All, None)
    [] c = 9 -> Res(p + 1, nd, Tri([k |-> "UnaryArithm", Op |-> "++", Post |-> TRUE, X |-> LW("i")]),
                    <<"i", "++">>, All, None)
    [] c = 10 -> LET a == DArith(p + 1, d - 1) IN
         Res(a.pos, Need2(nd, a.need), L1(LAMBDA u : BinA("=", LW("i"), u), a),
             <<"i", "=">> \o a.r, a.v, a.x)
    [] c = 15 -> Res(p + 1, nd, Tri(BinA("**", LW("i"), LW("2"))), <<"i", "**", "2">>, All, None)
    [] c = 16 -> Res(p + 1, nd, Tri(BinA("+=", LW("i"), BinA("<<", LW("1"), LW("2")))), <<"i", "+=", "1", "<<", "2">>, All, None)
    [] c = 17 -> Res(p + 1, nd, Tri([k |-> "UnaryArithm", Op |-> "!", X |-> [k |-> "UnaryArithm", Op |-> "~", X |-> LW("i")]]),
                     <<"!", "~", "i">>, All, None)
    [] c = 13 ->   \* ($x) : redundant parentheses directly around a simple parameter (two Simplify rules meet here)
         Res(p + 1, nd, Tri([k |-> "ParenArithm", X |-> W(<<PEShort("x")>>)]), <<"(", "$x", ")">>, All, None)
    [] c = 14 ->   \* (${x}) + 1
         Res(p + 1, nd, [t |-> BinA("+", [k |-> "ParenArithm", X |-> W(<<PE("x")>>)], LW("1")),
                         n |-> BinA("+", [k |-> "ParenArithm", X |-> W(<<PE("x")>>)], LW("1")),
                         m |-> BinA("+", [k |-> "ParenArithm", X |-> W(<<PEShort("x")>>)], LW("1"))],
             <<"(", "${x}", ")", "+", "1">>, All, None)
    [] c = 12 ->   \* i - -1 : a binary minus followed by a unary minus must not be glued into --
         Res(p + 1, nd, Tri(BinA("-", LW("i"), [k |-> "UnaryArithm", Op |-> "-", X |-> LW("1")])),
             <<"i", " ", "-", " ", "-", "1">>, All, None)
    [] c = 11 -> LET a == DArith(p + 1, d - 1) IN   \* ternary: ? with a nested : node
         Res(a.pos, Need2(nd, a.need),
             L1(LAMBDA u : BinA("?", u, BinA(":", LW("1"), LW("2"))), a),
             a.r \o <<" ", "?", " ", "1", " ", ":", " ", "2">>, a.v, a.x)

------------------------------------------------------------------------
\* Words.  DWord needs statements (command substitution) and DStmts needs words.
RECURSIVE DWord(_, _), DStmts(_, _, _), DStmt(_, _), DCmd(_, _)

NWord == 35

\* Parameter expansion operators with a word argument: <<spelling, valid langs, must-reject langs>>
ExpOps == << <<":-", All, None>>, <<"-", All, None>>, <<":=", All, None>>, <<"=", All, None>>,
             <<":?", All, None>>, <<"?", All, None>>, <<":+", All, None>>, <<"+", All, None>>,
             <<"#", All, None>>, <<"##", All, None>>, <<"%", All, None>>, <<"%%", All, None>>,
             <<"^", BashLike, {"posix", "mksh"}>>, <<"^^", BashLike, {"posix", "mksh"}>>,
             <<",", BashLike, {"posix", "mksh"}>>, <<",,", BashLike, {"posix", "mksh"}>> >>

CmdSubstNode(stmts, bq) == [k |-> "CmdSubst", Stmts |-> stmts] @@ Flag("Backquotes", bq)

DWord(p, d) ==
  LET c  == IF d = 0 THEN Ch(p) % 12 ELSE Ch(p)
      nd == Nd(p, IF d = 0 THEN 12 ELSE NWord) IN
  CASE c = 0 -> Res(p + 1, nd, Tri(LW("foo")), <<"foo">>, All, None)
    [] c = 1 -> Res(p + 1, nd, Tri(W(<<Lit("bar"), PEShort("x")>>)), <<"bar", "$x">>, All, None)
    [] c = 2 -> Res(p + 1, nd, Tri(W(<<[k |-> "SglQuoted", Value |-> "s q"]>>)), <<"'s q'">>, All, None)
    [] c = 3 -> Res(p + 1, nd, Tri(W(<<[k |-> "DblQuoted", Parts |-> <<Lit("d q "), PEShort("x")>>]>>)),
                    <<"\"d q $x\"">>, All, None)
    [] c = 4 ->   \* ${x} alone: Minify shortens it
         Res(p + 1, nd, [t |-> W(<<PE("x")>>), n |-> W(<<PE("x")>>), m |-> W(<<PEShort("x")>>)],
             <<"${x}">>, All, None)
    [] c = 5 ->   \* ${x}y : the following literal would extend the name, so it stays braced
         Res(p + 1, nd, Tri(W(<<PE("x"), Lit("y")>>)), <<"${x}", "y">>, All, None)
    [] c = 6 ->   \* ${x}-z : Minify shortens
         Res(p + 1, nd, [t |-> W(<<PE("x"), Lit("-z")>>), n |-> W(<<PE("x"), Lit("-z")>>),
                         m |-> W(<<PEShort("x"), Lit("-z")>>)], <<"${x}", "-z">>, All, None)
    [] c = 7 -> Res(p + 1, nd, Tri(W(<<PE("x") @@ ("Length" :> TRUE)>>)), <<"${#x}">>, All, None)
    [] c = 8 -> Res(p + 1, nd, Tri(W(<<[k |-> "DblQuoted"]>>)), <<"\"\"">>, All, None)
    [] c = 9 -> Res(p + 1, nd, Tri(LW("a\\ b")), <<"a\\ b">>, All, None)
    [] c = 10 -> Res(p + 1, nd, Tri(W(<<PEShort("1"), PEShort("@"), PEShort("?")>>)), <<"$1", "$@", "$?">>, All, None)
    [] c = 11 -> Res(p + 1, nd, Tri(LW("{a,b}")), <<"{a,b}">>, All, None)
    [] c = 12 ->  \* ${x OP word}
         LET o  == Ch(p + 1) % Len(ExpOps)
             w  == DWord(p + 2, d - 1)
             op == ExpOps[o + 1] IN
         Res(w.pos, Need2(nd, Need2(Nd(p + 1, Len(ExpOps)), w.need)),
             L1(LAMBDA u : W(<<PE("x") @@ ("Exp" :> [k |-> "Expansion", Op |-> op[1], Word |-> u])>>), w),
             <<"${x", op[1]>> \o w.r \o <<"}">>, w.v \cap op[2], w.x \cup op[3])
    [] c = 13 -> Res(p + 1, nd, Tri(W(<<PE("x") @@ ("Index" :> LW("1"))>>)), <<"${x[1]}">>, Ksh, {"posix"})
    [] c = 14 -> Res(p + 1, nd, Tri(W(<<PE("x") @@ ("Slice" :> [k |-> "Slice", Offset |-> LW("1"), Length |-> LW("2")])>>)),
                     <<"${x:1:2}">>, Ksh, {"posix"})
    [] c = 15 -> Res(p + 1, nd, Tri(W(<<PE("x") @@ ("Repl" :> [k |-> "Replace", Orig |-> LW("a"), With |-> LW("b")])>>)),
                     <<"${x/a/b}">>, Ksh, {"posix"})
    [] c = 16 -> Res(p + 1, nd, Tri(W(<<PE("x") @@ ("Repl" :> [k |-> "Replace", All |-> TRUE, Orig |-> LW("a")])>>)),
                     <<"${x//a}">>, Ksh, {"posix"})
    [] c = 17 -> Res(p + 1, nd, Tri(W(<<PE("x") @@ ("Excl" :> TRUE)>>)), <<"${!x}">>, Ksh, {"posix"})
    [] c = 18 ->  \* $( stmts )
         LET s == DStmts(p + 1, d - 1, "paren") IN
         Res(s.pos, Need2(nd, s.need), L1(LAMBDA u : W(<<CmdSubstNode(u, FALSE)>>), s),
             Open("$(", s.r) \o s.r \o <<")">>, s.v, s.x)
    [] c = 19 ->  \* ` stmt ` : Norm clears Backquotes.  Only a simple call inside (no nesting of `).
         Res(p + 1, nd,
             [t |-> W(<<CmdSubstNode(<<[k |-> "Stmt", Cmd |-> [k |-> "CallExpr", Args |-> <<LW("bq"), LW("arg")>>]]>>, TRUE)>>),
              n |-> W(<<CmdSubstNode(<<[k |-> "Stmt", Cmd |-> [k |-> "CallExpr", Args |-> <<LW("bq"), LW("arg")>>]]>>, FALSE)>>),
              m |-> W(<<CmdSubstNode(<<[k |-> "Stmt", Cmd |-> [k |-> "CallExpr", Args |-> <<LW("bq"), LW("arg")>>]]>>, FALSE)>>)],
             <<"`", "bq", "<SP>", "arg", "`">>, All, None)
    [] c = 20 ->  \* $(( arith ))
         LET a == DArith(p + 1, d - 1) IN
         Res(a.pos, Need2(nd, a.need), L1(LAMBDA u : W(<<[k |-> "ArithmExp", X |-> u]>>), a),
             <<"$((">> \o a.r \o <<"))">>, a.v, a.x)
    [] c = 21 ->  \* $[ arith ] : deprecated bash form, Norm clears Bracket
         LET a == DArith(p + 1, 0) IN
         Res(a.pos, Need2(nd, a.need),
             [t |-> W(<<[k |-> "ArithmExp", Bracket |-> TRUE, X |-> a.t]>>),
              n |-> W(<<[k |-> "ArithmExp", X |-> a.n]>>), m |-> W(<<[k |-> "ArithmExp", X |-> a.m]>>)],
             <<"$[">> \o a.r \o <<"]">>, a.v \cap BashLike, a.x)
    [] c = 22 ->  \* <( stmts )
         LET s == DStmts(p + 1, d - 1, "paren") IN
         Res(s.pos, Need2(nd, s.need),
             L1(LAMBDA u : W(<<[k |-> "ProcSubst", Op |-> "<(", Stmts |-> u]>>), s),
             Open("<(", s.r) \o s.r \o <<")">>, s.v \cap (BashLike \cup {"zsh"}), s.x \cup {"posix"})
    [] c = 23 -> Res(p + 1, nd, Tri(W(<<[k |-> "SglQuoted", Dollar |-> TRUE, Value |-> "a\\tb"]>>)), <<"$'a\\tb'">>,
                     NoPosix, None)
    [] c = 24 -> Res(p + 1, nd, Tri(W(<<[k |-> "DblQuoted", Dollar |-> TRUE, Parts |-> <<Lit("loc")>>]>>)), <<"$\"loc\"">>,
                     BashLike, None)
    [] c = 25 -> Res(p + 1, nd, Tri(W(<<Lit("g"), [k |-> "ExtGlob", Op |-> "@(", Pattern |-> Lit("a|b")]>>)),
                     <<"g", "@(a|b)">>, Ksh, None)
    [] c = 26 -> Res(p + 1, nd, Tri(W(<<Lit("~/"), PEShort("x"), [k |-> "SglQuoted", Value |-> "q"], Lit("*.c")>>)),
                     <<"~/", "$x", "'q'", "*.c">>, All, None)
    [] c = 27 ->  \* "pre $(stmts) post" : substitution inside double quotes
         LET s == DStmts(p + 1, d - 1, "paren") IN
         Res(s.pos, Need2(nd, s.need),
             L1(LAMBDA u : W(<<[k |-> "DblQuoted", Parts |-> <<Lit("pre "), CmdSubstNode(u, FALSE), Lit(" post")>>]>>), s),
             Open("\"pre $(", s.r) \o s.r \o <<") post\"">>, s.v, s.x)
    [] c = 28 -> Res(p + 1, nd, Tri(W(<<PE("x") @@ ("Exp" :> [k |-> "Expansion", Op |-> "@", Word |-> LW("Q")])>>)),
                     <<"${x@Q}">>, BashLike, {"posix"})
    [] c = 29 -> Res(p + 1, nd, Tri(W(<<PE("x") @@ ("Excl" :> TRUE) @@ ("Names" :> "*")>>)), <<"${!x*}">>, BashLike, {"posix"})
    [] c = 34 ->  \* "$[1+2]" : the deprecated arithmetic form inside double quotes (lexed at a different site)
         Res(p + 1, nd, [t |-> W(<<[k |-> "DblQuoted", Parts |-> <<[k |-> "ArithmExp", Bracket |-> TRUE, X |-> BinA("+", LW("1"), LW("2"))]>>]>>),
                         n |-> W(<<[k |-> "DblQuoted", Parts |-> <<[k |-> "ArithmExp", X |-> BinA("+", LW("1"), LW("2"))]>>]>>),
                         m |-> W(<<[k |-> "DblQuoted", Parts |-> <<[k |-> "ArithmExp", X |-> BinA("+", LW("1"), LW("2"))]>>]>>)],
             <<"\"$[1+2]\"">>, BashLike, None)
    [] c = 32 ->  \* ${x/} : a replacement with empty pattern and empty replacement (an all-zero Replace node)
         Res(p + 1, nd, Tri(W(<<PE("x") @@ ("Repl" :> [k |-> "Replace"])>>)), <<"${x/}">>, Ksh, {"posix"})
    [] c = 33 ->  \* zsh subscript flags spanning a line: tree left unspecified (no verdict on it), only parsed/cut
         Res(p + 1, nd, Tri(LW("unspecified")), <<"$x[(r\n)1]">>, {}, {})
    [] c = 30 ->  \* ${x}1 : a digit would extend the name too, so Minify must keep the braces
         Res(p + 1, nd, Tri(W(<<PE("x"), Lit("1")>>)), <<"${x}", "1">>, All, None)
    [] c = 31 ->  \* "`echo \"x\" y`" : backquotes inside double quotes, with escaped double quotes inside
         LET inner(bq) == W(<<[k |-> "DblQuoted", Parts |-> <<CmdSubstNode(<<[k |-> "Stmt", Cmd |-> [k |-> "CallExpr", Args |->
                              <<LW("echo"), W(<<[k |-> "DblQuoted", Parts |-> <<Lit("x")>>]>>), LW("y")>>]]>>, bq)>>]>>) IN
         Res(p + 1, nd, [t |-> inner(TRUE), n |-> inner(FALSE), m |-> inner(FALSE)],
             <<"\"`", "echo", " ", "\\\"x\\\"", " ", "y", "`\"">>, All, None)

------------------------------------------------------------------------
\* Test expressions for [[ ]]
NTest == 8
RECURSIVE DTest(_, _)
DTest(p, d) ==
  LET c  == IF d = 0 THEN Ch(p) % 3 ELSE Ch(p)
      nd == Nd(p, IF d = 0 THEN 3 ELSE NTest) IN
  CASE c = 0 -> LET w == DWord(p + 1, 0) IN
         Res(w.pos, Need2(nd, w.need), L1(LAMBDA u : [k |-> "UnaryTest", Op |-> "-n", X |-> u], w),
             <<"-n", "<SP>">> \o w.r, w.v, w.x)
    [] c = 1 -> LET w == DWord(p + 1, 0) IN
         Res(w.pos, Need2(nd, w.need), L1(LAMBDA u : [k |-> "BinaryTest", Op |-> "==", X |-> LW("a"), Y |-> u], w),
             <<"a", "<SP>", "==", "<SP>">> \o w.r, w.v, w.x)
    [] c = 2 -> LET w == DWord(p + 1, 0) IN
         Res(w.pos, Need2(nd, w.need), w, w.r, w.v, w.x)
    [] c = 3 -> LET a == DTest(p + 1, d - 1) IN
         Res(a.pos, Need2(nd, a.need), L1(LAMBDA u : [k |-> "UnaryTest", Op |-> "!", X |-> u], a),
             <<"!", "<SP>">> \o a.r, a.v, a.x)
    [] c \in {4, 5} -> LET op == IF c = 4 THEN "&&" ELSE "||"
                           a == DTest(p + 1, d - 1)
                           b == DTest(a.pos, 0) IN
         Res(b.pos, Need2(nd, Need2(a.need, b.need)),
             L2(LAMBDA u, w : [k |-> "BinaryTest", Op |-> op, X |-> u, Y |-> w], a, b),
             a.r \o <<"<SP>", op, "<SP>">> \o b.r, a.v \cap b.v, a.x \cup b.x)
    [] c = 6 -> LET a == DTest(p + 1, d - 1) IN
         Res(a.pos, Need2(nd, a.need), L1(LAMBDA u : [k |-> "ParenTest", X |-> u], a),
             <<"(", "<SP>">> \o a.r \o <<"<SP>", ")">>, a.v, a.x)
    [] c = 7 -> Res(p + 1, nd, Tri([k |-> "BinaryTest", Op |-> "=~", X |-> LW("a"), Y |-> LW("^b.*c")]),
                    <<"a", "<SP>", "=~", "<SP>", "^b.*c">>, BashLike \cup {"zsh"}, None)

------------------------------------------------------------------------
\* Redirections (a modifier of a statement).  <<tree, rendering, valid, reject>>
Redir(op, word) == [k |-> "Redirect", Op |-> op, Word |-> word]
HdocBody == "line $x\nend\n"
Redirs == <<
  [t |-> Redir(">", LW("f")), r |-> <<">", "f">>, v |-> All, x |-> None],
  [t |-> Redir(">>", LW("f")), r |-> <<">>", "f">>, v |-> All, x |-> None],
  [t |-> Redir("<", LW("f")), r |-> <<"<", "f">>, v |-> All, x |-> None],
  [t |-> Redir(">&", LW("1")) @@ ("N" :> Lit("2")), r |-> <<"2", ">&", "1">>, v |-> All, x |-> None],
  [t |-> Redir("<<", LW("EOF")) @@ ("Hdoc" :> W(<<Lit("line "), PEShort("x"), Lit("\nend\n")>>)),
     r |-> <<"<<", "EOF", "<HDOC>", "line $x\nend", "EOF">>, v |-> All, x |-> None],
  [t |-> Redir("<<", W(<<[k |-> "SglQuoted", Value |-> "EOF"]>>)) @@ ("Hdoc" :> LW(HdocBody)),
     r |-> <<"<<", "'EOF'", "<HDOC>", "line $x\nend", "EOF">>, v |-> All, x |-> None],
  [t |-> Redir("<<-", LW("EOF")) @@ ("Hdoc" :> LW("body\n")),
     r |-> <<"<<-", "EOF", "<HDOC>", "body", "EOF">>, v |-> All, x |-> None],
  [t |-> Redir("<<<", LW("str")), r |-> <<"<<<", "str">>, v |-> NoPosix, x |-> {"posix"}],
  [t |-> Redir("&>", LW("f")), r |-> <<"&>", "f">>, v |-> BashLike, x |-> None],
  [t |-> Redir(">|", LW("f")), r |-> <<">|", "f">>, v |-> All, x |-> None],
  [t |-> Redir("<>", LW("f")), r |-> <<"<>", "f">>, v |-> All, x |-> None],
  [t |-> Redir(">", LW("f")) @@ ("N" :> Lit("{fd}")), r |-> <<"{fd}", ">", "f">>, v |-> BashLike, x |-> None],
  \* a here-document whose body holds a command substitution that starts with a comment
  [t |-> Redir("<<", LW("EOF")) @@ ("Hdoc" :> W(<<CmdSubstNode(<<[k |-> "Stmt", Cmd |-> [k |-> "CallExpr", Args |-> <<LW("inner")>>]]>>, FALSE), Lit("\n")>>)),
     r |-> <<"<<", "EOF", "<HDOC>", "$( # hc\ninner)", "EOF">>, v |-> All, x |-> None] >>

------------------------------------------------------------------------
\* Commands
CallOf(args) == [k |-> "CallExpr", Args |-> args]
StmtOf(cmd)  == [k |-> "Stmt", Cmd |-> cmd]
Assign(name, w) == [k |-> "Assign", Name |-> Lit(name), Value |-> w]
NCmd == 36

\* Commands allowed without nesting budget: 0..5
DCmd(p, d) ==
  LET c  == IF d = 0 THEN Ch(p) % 6 ELSE Ch(p)
      nd == Nd(p, IF d = 0 THEN 6 ELSE NCmd) IN
  CASE c = 0 ->    \* cmd word
         LET w == DWord(p + 1, d) IN
         Res(w.pos, Need2(nd, w.need), L1(LAMBDA u : CallOf(<<LW("cmd"), u>>), w),
             <<"cmd", "<SP>">> \o w.r, w.v, w.x)
    [] c = 1 ->    \* single word command
         Res(p + 1, nd, Tri(CallOf(<<LW("true")>>)), <<"true">>, All, None)
    [] c = 2 ->    \* a=word cmd word
         LET w == DWord(p + 1, d) IN
         Res(w.pos, Need2(nd, w.need),
             L1(LAMBDA u : [k |-> "CallExpr", Assigns |-> <<Assign("a", u)>>, Args |-> <<LW("cmd")>>], w),
             <<"a=">> \o w.r \o <<"<SP>", "cmd">>, w.v, w.x)
    [] c = 3 ->    \* a=word  (assignment only)
         LET w == DWord(p + 1, d) IN
         Res(w.pos, Need2(nd, w.need), L1(LAMBDA u : [k |-> "CallExpr", Assigns |-> <<Assign("a", u)>>], w),
             <<"a=">> \o w.r, w.v, w.x)
    [] c = 4 ->    \* three arguments
         LET w == DWord(p + 1, d)
             u == DWord(w.pos, 0) IN
         Res(u.pos, Need2(nd, Need2(w.need, u.need)),
             L2(LAMBDA a, b : CallOf(<<LW("echo"), a, b>>), w, u),
             <<"echo", "<SP>">> \o w.r \o <<"<SP>">> \o u.r, w.v \cap u.v, w.x \cup u.x)
    [] c = 5 ->    \* a= (empty value) and b=1 c=2
         Res(p + 1, nd, Tri([k |-> "CallExpr", Assigns |-> <<[k |-> "Assign", Name |-> Lit("a")], Assign("b", LW("1"))>>]),
             <<"a=", "<SP>", "b=1">>, All, None)
    [] c \in {6, 7, 8, 9} ->   \* and-or lists and pipelines: X op Y
         LET op == CASE c = 6 -> "&&" [] c = 7 -> "||" [] c = 8 -> "|" [] c = 9 -> "|&"
             \* && and || are left associative and bind less tightly than pipes: their left
             \* operand may be any statement, a pipe's operands are simple commands here.
             a  == DStmt(p + 1, IF c \in {6, 7} THEN d - 1 ELSE 0)
             b  == DStmt(a.pos, 0)
             \* `fn() { ..; } | cmd` is deliberately left unspecified (the parser attaches the
             \* pipe to the function body; see DESIGN.md, C12 notes)
             \* `!` negates a whole pipeline, so a negated operand of | is not generated
             IsNeg(st) == "Negated" \in DOMAIN st
             unspec == a.t.Cmd.k = "FuncDecl" \/ (c \in {8, 9} /\ (IsNeg(a.t) \/ IsNeg(b.t))) IN
         Res(b.pos, Need2(nd, Need2(a.need, b.need)),
             L2(LAMBDA u, w : [k |-> "BinaryCmd", Op |-> op, X |-> u, Y |-> w], a, b),
             a.r \o <<"<SP>", op, "<SP>">> \o b.r,
             IF unspec THEN {} ELSE a.v \cap b.v \cap (IF c = 9 THEN BashLike \cup {"zsh"} ELSE All),
             IF unspec THEN {} ELSE a.x \cup b.x)
    [] c = 10 ->   \* { stmts; }
         LET s == DStmts(p + 1, d - 1, "brace") IN
         Res(s.pos, Need2(nd, s.need), L1(LAMBDA u : [k |-> "Block", Stmts |-> u], s),
             <<"{", "<SP>">> \o s.r \o <<"}">>, s.v, s.x)
    [] c = 11 ->   \* ( stmts )
         LET s == DStmts(p + 1, d - 1, "paren") IN
         Res(s.pos, Need2(nd, s.need), L1(LAMBDA u : [k |-> "Subshell", Stmts |-> u], s),
             \* `((` would start an arithmetic command: nested subshells are written `( (`
             (IF Head(s.r) \in {"(", "(("} THEN <<"(", " ">> ELSE <<"(">>) \o s.r \o <<")">>, s.v, s.x)
    [] c = 12 ->   \* if C; then T; fi
         LET a == DStmts(p + 1, d - 1, "kw")
             b == DStmts(a.pos, d - 1, "kw") IN
         Res(b.pos, Need2(nd, Need2(a.need, b.need)),
             L2(LAMBDA u, w : [k |-> "IfClause", Cond |-> u, Then |-> w], a, b),
             <<"if", "<SP>">> \o a.r \o <<"then", "<SP>">> \o b.r \o <<"fi">>, a.v \cap b.v, a.x \cup b.x)
    [] c = 13 ->   \* if C; then T; else E; fi
         LET a == DStmts(p + 1, d - 1, "kw")
             b == DStmts(a.pos, 0, "kw")
             e == DStmts(b.pos, 0, "kw") IN
         Res(e.pos, Need2(nd, Need2(a.need, Need2(b.need, e.need))),
             L3(LAMBDA u, w, z : [k |-> "IfClause", Cond |-> u, Then |-> w, Else |-> [k |-> "IfClause", Then |-> z]], a, b, e),
             <<"if", "<SP>">> \o a.r \o <<"then", "<SP>">> \o b.r \o <<"else", "<SP>">> \o e.r \o <<"fi">>,
             a.v \cap b.v \cap e.v, a.x \cup b.x \cup e.x)
    [] c = 14 ->   \* if C; then T; elif C2; then T2; else E; fi
         LET a == DStmts(p + 1, d - 1, "kw")
             b == DStmts(a.pos, 0, "kw") IN
         Res(b.pos, Need2(nd, Need2(a.need, b.need)),
             L2(LAMBDA u, w : [k |-> "IfClause", Cond |-> u, Then |-> w,
                              Else |-> [k |-> "IfClause", Cond |-> <<StmtOf(CallOf(<<LW("c2")>>))>>,
                                        Then |-> <<StmtOf(CallOf(<<LW("t2")>>))>>,
                                        Else |-> [k |-> "IfClause", Then |-> <<StmtOf(CallOf(<<LW("e")>>))>>]]], a, b),
             <<"if", "<SP>">> \o a.r \o <<"then", "<SP>">> \o b.r \o
             <<"elif", "<SP>", "c2", "<SEP>", "then", "<SP>", "t2", "<SEP>", "else", "<SP>", "e", "<SEP>", "fi">>,
             a.v \cap b.v, a.x \cup b.x)
    [] c \in {15, 16} ->   \* while / until
         LET a == DStmts(p + 1, d - 1, "kw")
             b == DStmts(a.pos, d - 1, "kw") IN
         Res(b.pos, Need2(nd, Need2(a.need, b.need)),
             L2(LAMBDA u, w : [k |-> "WhileClause", Cond |-> u, Do |-> w] @@ Flag("Until", c = 16), a, b),
             <<IF c = 15 THEN "while" ELSE "until", "<SP>">> \o a.r \o <<"do", "<SP>">> \o b.r \o <<"done">>,
             a.v \cap b.v, a.x \cup b.x)
    [] c = 17 ->   \* for i in W1 W2; do B; done
         LET w == DWord(p + 1, d - 1)
             b == DStmts(w.pos, d - 1, "kw") IN
         Res(b.pos, Need2(nd, Need2(w.need, b.need)),
             L2(LAMBDA u, z : [k |-> "ForClause", Loop |-> [k |-> "WordIter", Name |-> Lit("i"), Items |-> <<u, LW("w2")>>], Do |-> z], w, b),
             <<"for", "<SP>", "i", "<SP>", "in", "<SP>">> \o w.r \o <<"<SP>", "w2", "<SEP>", "do", "<SP>">> \o b.r \o <<"done">>,
             w.v \cap b.v, w.x \cup b.x)
    [] c = 18 ->   \* for i; do B; done   (no "in": iterates the positional parameters)
         LET b == DStmts(p + 1, d - 1, "kw") IN
         Res(b.pos, Need2(nd, b.need),
             L1(LAMBDA z : [k |-> "ForClause", Loop |-> [k |-> "WordIter", Name |-> Lit("i")], Do |-> z], b),
             <<"for", "<SP>", "i", "<SEP>", "do", "<SP>">> \o b.r \o <<"done">>, b.v, b.x)
    [] c = 19 ->   \* for ((i=0; i<3; i++)); do B; done
         LET a == DArith(p + 1, d - 1)
             b == DStmts(a.pos, d - 1, "kw") IN
         Res(b.pos, Need2(nd, Need2(a.need, b.need)),
             L2(LAMBDA u, z : [k |-> "ForClause", Loop |-> [k |-> "CStyleLoop", Init |-> BinA("=", LW("i"), LW("0")),
                                Cond |-> u, Post |-> [k |-> "UnaryArithm", Op |-> "++", Post |-> TRUE, X |-> LW("i")]], Do |-> z], a, b),
             <<"for", "<SP>", "((", "i", "=", "0", ";", "<SP>">> \o a.r \o <<";", "<SP>", "i", "++", "))", "<SEP>", "do", "<SP>">> \o b.r \o <<"done">>,
             a.v \cap b.v \cap (BashLike \cup {"zsh"}), a.x \cup b.x \cup {"posix", "mksh"})
    [] c = 20 ->   \* select i in W; do B; done
         LET b == DStmts(p + 1, d - 1, "kw") IN
         Res(b.pos, Need2(nd, b.need),
             L1(LAMBDA z : [k |-> "ForClause", Select |-> TRUE, Loop |-> [k |-> "WordIter", Name |-> Lit("i"), Items |-> <<LW("w1")>>], Do |-> z], b),
             <<"select", "<SP>", "i", "<SP>", "in", "<SP>", "w1", "<SEP>", "do", "<SP>">> \o b.r \o <<"done">>,
             b.v \cap NoPosix, b.x \cap NoPosix)
    [] c = 21 ->   \* case W in p1|p2) S ;; *) S2 ;& esac  -- three item terminators
         LET w  == DWord(p + 1, d - 1)
             o  == Ch(w.pos) % 3
             s  == DStmts(w.pos + 1, d - 1, "case")
             op == CASE o = 0 -> ";;" [] o = 1 -> ";&" [] o = 2 -> ";;&" IN
         Res(s.pos, Need2(nd, Need2(w.need, Need2(Nd(w.pos, 3), s.need))),
             L2(LAMBDA u, z : [k |-> "CaseClause", Word |-> u, Items |-> <<
                   [k |-> "CaseItem", Op |-> op, Patterns |-> <<LW("p1"), LW("p2")>>, Stmts |-> z],
                   [k |-> "CaseItem", Op |-> ";;", Patterns |-> <<LW("*")>>, Stmts |-> <<StmtOf(CallOf(<<LW("dflt")>>))>>] >>], w, s),
             <<"case", "<SP>">> \o w.r \o <<"<SP>", "in", "<SP>", "p1", "|", "p2)", "<SP>">> \o s.r \o
             <<op, "<SP>", "(*)", "<SP>", "dflt", "<SEP>", ";;", "<SP>", "esac">>,
             w.v \cap s.v \cap \* ;& is in bash, mksh and zsh; ;;& is bash only (mksh and zsh spell it ;|)
             (IF o = 0 THEN All ELSE IF o = 1 THEN NoPosix ELSE BashLike),
             w.x \cup s.x)
    [] c = 22 ->   \* case with an empty item and no terminator on the last item
         Res(p + 1, nd, Tri([k |-> "CaseClause", Word |-> W(<<PEShort("x")>>), Items |-> <<
               [k |-> "CaseItem", Op |-> ";;", Patterns |-> <<LW("a")>>],
               [k |-> "CaseItem", Op |-> ";;", Patterns |-> <<LW("b")>>, Stmts |-> <<StmtOf(CallOf(<<LW("last")>>))>>] >>]),
             <<"case", "<SP>", "$x", "<SP>", "in", "<SP>", "a)", "<SP>", ";;", "<SP>", "b)", "<SP>", "last", "<SEP>", "esac">>,
             All, None)
    [] c = 23 ->   \* f() { S; }
         LET s == DStmts(p + 1, d - 1, "brace") IN
         Res(s.pos, Need2(nd, s.need),
             L1(LAMBDA u : [k |-> "FuncDecl", Parens |-> TRUE, Name |-> Lit("fn"), Body |-> StmtOf([k |-> "Block", Stmts |-> u])], s),
             <<"fn", "()", "<SP>", "{", "<SP>">> \o s.r \o <<"}">>, s.v, s.x)
    [] c = 24 ->   \* function f { S; }
         LET s == DStmts(p + 1, d - 1, "brace") IN
         Res(s.pos, Need2(nd, s.need),
             L1(LAMBDA u : [k |-> "FuncDecl", RsrvWord |-> TRUE, Name |-> Lit("fn"), Body |-> StmtOf([k |-> "Block", Stmts |-> u])], s),
             <<"function", "<SP>", "fn", "<SP>", "{", "<SP>">> \o s.r \o <<"}">>, s.v \cap NoPosix, s.x \cap NoPosix)
    [] c = 25 ->   \* f() ( S )  : a subshell body
         LET s == DStmts(p + 1, d - 1, "paren") IN
         Res(s.pos, Need2(nd, s.need),
             L1(LAMBDA u : [k |-> "FuncDecl", Parens |-> TRUE, Name |-> Lit("fn"), Body |-> StmtOf([k |-> "Subshell", Stmts |-> u])], s),
             <<"fn", "()", "<SP>">> \o (IF Head(s.r) \in {"(", "(("} THEN <<"(", " ">> ELSE <<"(">>) \o s.r \o <<")">>, s.v, s.x)
    [] c = 26 ->   \* (( arith ))
         LET a == DArith(p + 1, d - 1) IN
         Res(a.pos, Need2(nd, a.need), L1(LAMBDA u : [k |-> "ArithmCmd", X |-> u], a),
             <<"((">> \o a.r \o <<"))">>, a.v \cap NoPosix, a.x \cap NoPosix)
    [] c = 27 ->   \* [[ test ]]
         LET a == DTest(p + 1, d - 1) IN
         Res(a.pos, Need2(nd, a.need), L1(LAMBDA u : [k |-> "TestClause", X |-> u], a),
             <<"[[", "<SP>">> \o a.r \o <<"<SP>", "]]">>, a.v \cap NoPosix, a.x \cap NoPosix)
    [] c = 28 ->   \* declare -r a=W b   (also local/export/readonly/typeset/nameref)
         LET o == Ch(p + 1) % 5
             w == DWord(p + 2, d - 1)
             variant == <<"declare", "local", "export", "readonly", "typeset">>[o + 1] IN
         Res(w.pos, Need2(nd, Need2(Nd(p + 1, 5), w.need)),
             L1(LAMBDA u : [k |-> "DeclClause", Variant |-> Lit(variant), Args |-> <<
                  [k |-> "Assign", Naked |-> TRUE, Value |-> LW("-r")], Assign("a", u),
                  [k |-> "Assign", Naked |-> TRUE, Name |-> Lit("b")] >>], w),
             <<variant, "<SP>", "-r", "<SP>", "a=">> \o w.r \o <<"<SP>", "b">>, w.v \cap BashLike, w.x \cap BashLike)
    [] c = 29 ->   \* let i++ j=2
         Res(p + 1, nd, Tri([k |-> "LetClause", Exprs |-> <<[k |-> "UnaryArithm", Op |-> "++", Post |-> TRUE, X |-> LW("i")],
                                                           BinA("=", LW("j"), LW("2"))>>]),
             <<"let", "<SP>", "i++", "<SP>", "j=2">>, BashLike, None)
    [] c = 30 ->   \* time S
         LET a == DStmt(p + 1, d - 1)
             \* `time` applies to a pipeline: `time a && b` is (time a) && b, not generated here
             andor == a.t.Cmd.k = "BinaryCmd" /\ a.t.Cmd.Op \in {"&&", "||"} IN
         Res(a.pos, Need2(nd, a.need), L1(LAMBDA u : [k |-> "TimeClause", Stmt |-> u], a),
             <<"time", "<SP>">> \o a.r, IF andor THEN {} ELSE a.v \cap NoPosix, IF andor THEN {} ELSE a.x \cap NoPosix)
    [] c = 31 ->   \* a=(w1 [2]=w2) b+=w c[1]=w
         LET w == DWord(p + 1, d - 1) IN
         Res(w.pos, Need2(nd, w.need),
             L1(LAMBDA u : [k |-> "CallExpr", Assigns |-> <<
                  [k |-> "Assign", Name |-> Lit("a"), Array |-> [k |-> "ArrayExpr", Elems |-> <<
                       [k |-> "ArrayElem", Value |-> u], [k |-> "ArrayElem", Index |-> LW("2"), Value |-> LW("w2")]>>]],
                  [k |-> "Assign", Append |-> TRUE, Name |-> Lit("b"), Value |-> LW("w")],
                  [k |-> "Assign", Name |-> Lit("c"), Index |-> LW("1"), Value |-> LW("w")] >>], w),
             <<"a=(">> \o w.r \o <<"<SP>", "[2]=w2", ")", "<SP>", "b+=w", "<SP>", "c[1]=w">>,
             w.v \cap BashLike, w.x \cup {"posix"})
    [] c = 32 ->   \* coproc cmd W   (bash reads `coproc NAME compound`; only the simple-command form here)
         LET w == DWord(p + 1, 0) IN
         Res(w.pos, Need2(nd, w.need),
             L1(LAMBDA u : [k |-> "CoprocClause", Stmt |-> StmtOf(CallOf(<<LW("cmd"), u>>))], w),
             <<"coproc", "<SP>", "cmd", "<SP>">> \o w.r, w.v \cap BashLike, w.x \cap BashLike)
    [] c = 35 ->   \* case $x in (esac) cmd ;; esac : a pattern that spells a reserved word needs its opening parenthesis
         Res(p + 1, nd, Tri([k |-> "CaseClause", Word |-> W(<<PEShort("x")>>), Items |-> <<
               [k |-> "CaseItem", Op |-> ";;", Patterns |-> <<LW("esac")>>, Stmts |-> <<StmtOf(CallOf(<<LW("cmd")>>))>>] >>]),
             <<"case", "<SP>", "$x", "<SP>", "in", "<SP>", "(esac)", "<SP>", "cmd", "<SEP>", ";;", "<SP>", "esac">>, All, None)
    [] c = 34 ->   \* { }  : an empty compound list is valid in mksh and zsh only
         Res(p + 1, nd, Tri([k |-> "Block"]), <<"{", "<SP>", "}">>, {"mksh", "zsh"}, {"bash", "bats", "posix"})
    [] c = 33 ->   \* for i in W; { B; }  : deprecated brace form, Norm clears Braces
         LET b == DStmts(p + 1, d - 1, "brace")
             F(z, br) == [k |-> "ForClause", Loop |-> [k |-> "WordIter", Name |-> Lit("i"), Items |-> <<LW("w1")>>], Do |-> z] @@ Flag("Braces", br) IN
         Res(b.pos, Need2(nd, b.need), [t |-> F(b.t, TRUE), n |-> F(b.n, FALSE), m |-> F(b.m, FALSE)],
             <<"for", "<SP>", "i", "<SP>", "in", "<SP>", "w1", "<SEP>", "{", "<SP>">> \o b.r \o <<"}">>,
             b.v \cap Ksh, b.x \cap Ksh)

------------------------------------------------------------------------
\* Statements: a command plus a modifier (negation, one redirection, both).
NMod == 6 + Len(Redirs)      \* none, negated, negated+redirect, each redirection, here-document + another redirection,
                             \* and two redirections written BEFORE the command name (<<-EOF cmd ; >f cmd)
IsBinary(t) == t.k = "BinaryCmd"
NoModifier(t) == t.k \in {"BinaryCmd", "FuncDecl", "TimeClause", "CoprocClause"}

DStmt(p, d) ==
  LET c == DCmd(p, d)
      mo == Ch(c.pos) % NMod
      nd == Nd(c.pos, NMod) IN
  IF NoModifier(c.t) THEN
       Res(c.pos, c.need, L1(StmtOf, c), c.r, c.v, c.x)
  ELSE IF mo = 0 THEN
       Res(c.pos + 1, Need2(c.need, nd), L1(StmtOf, c), c.r, c.v, c.x)
  ELSE IF mo = 1 THEN
       Res(c.pos + 1, Need2(c.need, nd), L1(LAMBDA u : StmtOf(u) @@ ("Negated" :> TRUE), c),
           <<"!", "<SP>">> \o c.r, c.v, c.x)
  ELSE IF mo = 2 THEN   \* negated with a redirection
       Res(c.pos + 1, Need2(c.need, nd),
           L1(LAMBDA u : StmtOf(u) @@ ("Negated" :> TRUE) @@ ("Redirs" :> <<Redirs[1].t>>), c),
           <<"!", "<SP>">> \o c.r \o <<"<SP>">> \o Redirs[1].r,
           IF c.t.k = "LetClause" THEN {} ELSE c.v, IF c.t.k = "LetClause" THEN {} ELSE c.x)
  ELSE IF mo \in {NMod - 3, NMod - 2} THEN   \* a redirection before the command name; only simple commands take one there
       LET rd == IF mo = NMod - 3 THEN Redirs[7] ELSE Redirs[1]
           unspec == c.t.k # "CallExpr" IN
       Res(c.pos + 1, Need2(c.need, nd), L1(LAMBDA u : StmtOf(u) @@ ("Redirs" :> <<rd.t>>), c),
           rd.r \o <<"<SP>">> \o c.r, IF unspec THEN {} ELSE c.v \cap rd.v, IF unspec THEN {} ELSE c.x \cup rd.x)
  ELSE IF mo = NMod - 1 THEN   \* cmd <<EOF >f : a here-document operator followed by another redirection
       LET h == Redirs[5]
           o == Redirs[1]
           unspec == c.t.k = "LetClause" IN
       Res(c.pos + 1, Need2(c.need, nd), L1(LAMBDA u : StmtOf(u) @@ ("Redirs" :> <<h.t, o.t>>), c),
           c.r \o <<"<SP>">> \o SubSeq(h.r, 1, 2) \o <<"<SP>">> \o o.r \o SubSeq(h.r, 3, Len(h.r)),
           IF unspec THEN {} ELSE c.v, IF unspec THEN {} ELSE c.x)
  ELSE LET rd == Redirs[mo - 2]
           \* `let` takes the rest of the line as arithmetic, so `let e >f` is left unspecified
           unspec == c.t.k = "LetClause" IN
       Res(c.pos + 1, Need2(c.need, nd), L1(LAMBDA u : StmtOf(u) @@ ("Redirs" :> <<rd.t>>), c),
           c.r \o <<"<SP>">> \o rd.r, IF unspec THEN {} ELSE c.v \cap rd.v, IF unspec THEN {} ELSE c.x \cup rd.x)

\* Statement lists: 1 or 2 statements, the first may run in the background.
\* ctx says what closes the list (only used by the layout: nothing in the tree).
DStmts(p, d, ctx) ==
  \* the first statement is decoded first, then the choice of what follows it:
  \* 0: nothing   1: a second statement   2: first in the background, then a second
  LET a  == DStmt(p, d)
      k  == Ch(a.pos) % 3
      nd == Nd(a.pos, 3) IN
  IF k = 0 THEN
       Res(a.pos + 1, Need2(a.need, nd), L1(LAMBDA u : <<u>>, a), a.r \o <<"<SEP>">>, a.v, a.x)
  ELSE LET b == DStmt(a.pos + 1, 0) IN
       IF k = 1 THEN
         Res(b.pos, Need2(a.need, Need2(nd, b.need)), L2(LAMBDA u, w : <<u, w>>, a, b),
             a.r \o <<"<SEP>">> \o b.r \o <<"<SEP>">>, a.v \cap b.v, a.x \cup b.x)
       ELSE
         Res(b.pos, Need2(a.need, Need2(nd, b.need)),
             L2(LAMBDA u, w : <<u @@ ("Background" :> TRUE), w>>, a, b),
             a.r \o <<"<SP>", "&", "<BGSEP>">> \o b.r \o <<"<SEP>">>, a.v \cap b.v, a.x \cup b.x)

Decode == LET s == DStmts(1, MaxDepth, "file") IN
          [t |-> [k |-> "File", Stmts |-> s.t], n |-> [k |-> "File", Stmts |-> s.n],
           m |-> [k |-> "File", Stmts |-> s.m], r |-> s.r, v |-> s.v, x |-> s.x,
           need |-> s.need, used |-> s.pos - 1]

------------------------------------------------------------------------
Init == ch = <<>>
Next == /\ Len(ch) < MaxLen
        /\ LET dd == Decode IN
           /\ dd.need > 0
           /\ \E c \in 0..(dd.need - 1) : ch' = Append(ch, c)
Spec == Init /\ [][Next]_vars

\* A state is canonical when its last choice is not the default (the same program is also
\* denoted by the shorter sequence) -- only canonical states are emitted.
Canonical == ch = <<>> \/ ch[Len(ch)] # 0

\* ---- invariants on the grammar itself
RECURSIVE Balance(_, _, _, _)
Balance(r, i, open, close) ==   \* number of `open` tokens minus `close` tokens in r[i..]
  IF i > Len(r) THEN 0
  ELSE (IF r[i] \in open THEN 1 ELSE IF r[i] \in close THEN 0 - 1 ELSE 0) + Balance(r, i + 1, open, close)

WellFormed ==
  LET dd == Decode IN
  /\ dd.v \cap dd.x = {}                                 \* never both valid and rejected
  /\ ("bash" \in dd.v) <=> ("bats" \in dd.v)             \* Bats extends Bash
  /\ Balance(dd.r, 1, {"if"}, {"fi"}) = 0
  /\ Balance(dd.r, 1, {"case"}, {"esac"}) = 0
  /\ Balance(dd.r, 1, {"{", "${x"}, {"}"}) = 0
  /\ Balance(dd.r, 1, {"do"}, {"done"}) = 0
  /\ Balance(dd.r, 1, {"[["}, {"]]"}) = 0
  /\ Balance(dd.r, 1, {"(", "$(", "<(", "a=(", "\"pre $("}, {")", ") post\""}) = 0
  /\ dd.used >= Len(ch) \/ dd.need = 0                   \* every given choice was consumed

Emit ==
  LET dd == Decode IN
  IF Canonical /\ (Len(ch) >= EmitAt \/ dd.need = 0)     \* simulation: only finished behaviours
  THEN PrintT(<<"VEC", ToJson([ch |-> ch, t |-> dd.t, n |-> dd.n, m |-> dd.m, r |-> dd.r,
                               v |-> dd.v, x |-> dd.x])>>)
  ELSE TRUE

\* Layouts: how the layout tokens of a rendering are instantiated (emitted once, as data).
\* sep: statement separator; sp: blank between tokens; bg: separator after `&`;
\* comment: put a distinct comment at every separator (C05).
Layouts == <<
  [name |-> "oneline",  sep |-> "; ",    sp |-> " ",     bg |-> " ",  comment |-> FALSE, final |-> "\n"],
  [name |-> "lines",    sep |-> "\n",    sp |-> " ",     bg |-> "\n", comment |-> FALSE, final |-> ""],
  [name |-> "wide",     sep |-> " ;\n\n", sp |-> "  ",   bg |-> "\n\n", comment |-> FALSE, final |-> "\n\n"],
  [name |-> "tabs",     sep |-> "\n",    sp |-> "\t",    bg |-> " ",  comment |-> FALSE, final |-> "\n"],
  [name |-> "bsnl",     sep |-> "\n",    sp |-> " \\\n", bg |-> "\n", comment |-> FALSE, final |-> "\n"],
  [name |-> "comments", sep |-> "\n",    sp |-> " ",     bg |-> "\n", comment |-> TRUE,  final |-> "\n"],
  \* like "comments", but every comment stands on a line of its own after the separator
  [name |-> "owncomments", sep |-> "\n", sp |-> " ",     bg |-> "\n", comment |-> TRUE,  final |-> "\n"],
  [name |-> "crlf",     sep |-> "\r\n",  sp |-> " ",     bg |-> "\r\n", comment |-> FALSE, final |-> "\r\n"],
  [name |-> "bscrlf",   sep |-> "\r\n",  sp |-> " \\\r\n", bg |-> "\r\n", comment |-> FALSE, final |-> "\r\n"] >>
=========================================================================
