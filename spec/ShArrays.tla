---------------------------- MODULE ShArrays ----------------------------
(* C33: indexed arrays behave like a map from indices to values.
   Style S.  Two levels are kept side by side and TLC checks the refinement:
     m          -- the contract: a function from a finite set of indices to values
     list, ix   -- the representation used by expand.Variable (List, Indexes) as
                   maintained by internal.SetIndexedElem / DeleteIndexedElem /
                   CanonicalIndexes;  ix = <<>> models Go's nil ("dense").
   Every edge of the state graph is emitted (EDGE) and replayed on the real helper
   functions; every state is emitted (VEC) with the expansions bash defines on it,
   and random walks over the emitted graph are rendered as shell programs for
   interp and bash. *)
EXTENDS Integers, Sequences, FiniteSets, TLC, Json

CONSTANTS MaxIdx,    \* indices 0..MaxIdx
          Vals       \* element values (texts as strings: "x", "y", "" ...)

Idx == 0..MaxIdx
VARIABLES m, list, ix
vars == <<m, list, ix>>

Dense(i)   == i = <<>>
IndexAt(l, i, p) == IF Dense(i) THEN p - 1 ELSE i[p]
Denotes    == /\ DOMAIN m = { IndexAt(list, ix, p) : p \in 1..Len(list) }
              /\ \A p \in 1..Len(list) : m[IndexAt(list, ix, p)] = list[p]
Canonical  == /\ (~Dense(ix)) => Len(ix) = Len(list)
              /\ \A p, q \in 1..Len(ix) : p < q => ix[p] < ix[q]          \* sorted, unique
              /\ (~Dense(ix)) => \E p \in 1..Len(ix) : ix[p] # p - 1     \* nil iff dense
Canon(i)   == IF \A p \in 1..Len(i) : i[p] = p - 1 THEN <<>> ELSE i
Iota(n)    == [p \in 1..n |-> p - 1]
Pos(i, k)  == 1 + Cardinality({p \in 1..Len(i) : i[p] < k})
Has(i, k)  == \E p \in 1..Len(i) : i[p] = k
InsertAt(s, p, x) == SubSeq(s, 1, p - 1) \o <<x>> \o SubSeq(s, p, Len(s))
RemoveAt(s, p)    == SubSeq(s, 1, p - 1) \o SubSeq(s, p + 1, Len(s))

Init == m = <<>> /\ list = <<>> /\ ix = <<>>

\* --- representation level: what the helper functions must compute
SetRepOf(l, i, k, v) ==
  IF Dense(i) /\ k < Len(l) THEN [list |-> [l EXCEPT ![k + 1] = v], ix |-> i]
  ELSE IF Dense(i) /\ k = Len(l) THEN [list |-> Append(l, v), ix |-> i]
  ELSE LET i0 == IF Dense(i) THEN Iota(Len(l)) ELSE i
           p  == Pos(i0, k)
       IN IF Has(i0, k) THEN [list |-> [l EXCEPT ![p] = v], ix |-> Canon(i0)]
          ELSE [list |-> InsertAt(l, p, v), ix |-> Canon(InsertAt(i0, p, k))]
DelRepOf(l, i, k) ==
  LET i0 == IF Dense(i) THEN Iota(Len(l)) ELSE i IN
  IF ~Has(i0, k) THEN [list |-> l, ix |-> i]
  ELSE LET p == Pos(i0, k) IN [list |-> RemoveAt(l, p), ix |-> Canon(RemoveAt(i0, p))]

\* --- contract level
MapSet(f, k, v) == [j \in (DOMAIN f) \cup {k} |-> IF j = k THEN v ELSE f[j]]
MapDel(f, k)    == [j \in (DOMAIN f) \ {k} |-> f[j]]
MaxIndex == IF Len(list) = 0 THEN -1 ELSE IndexAt(list, ix, Len(list))
MapMax(f) == IF DOMAIN f = {} THEN -1 ELSE CHOOSE k \in DOMAIN f : \A j \in DOMAIN f : j <= k

Rep(l, i) == [list |-> l, ix |-> i]
Edge(name, args, r) ==
  PrintT(<<"EDGE", ToJson([from |-> Rep(list, ix), act |-> name, args |-> args, to |-> r])>>)

Set(k, v) ==                                   \* a[k]=v
  LET r == SetRepOf(list, ix, k, v) IN
  /\ m' = MapSet(m, k, v) /\ list' = r.list /\ ix' = r.ix
  /\ Edge("set", <<k, v>>, r)
Unset(k) ==                                    \* unset 'a[k]'
  LET r == DelRepOf(list, ix, k) IN
  /\ m' = MapDel(m, k) /\ list' = r.list /\ ix' = r.ix
  /\ Edge("unset", <<k>>, r)
SetNeg(n, v) ==                                \* a[-n]=v : index counted back from max+1
  /\ MaxIndex + 1 - n >= 0
  /\ LET k == MaxIndex + 1 - n
         r == SetRepOf(list, ix, k, v) IN
     /\ m' = MapSet(m, k, v) /\ list' = r.list /\ ix' = r.ix
     /\ Edge("setneg", <<n, v>>, r)
AppendElem(v) ==                               \* a+=(v) : index max+1
  /\ MaxIndex + 1 <= MaxIdx
  /\ LET k == MaxIndex + 1
         r == SetRepOf(list, ix, k, v) IN
     /\ m' = MapSet(m, k, v) /\ list' = r.list /\ ix' = r.ix
     /\ Edge("append", <<v>>, r)
UnsetAll ==                                    \* unset a ; or a=()
  /\ m' = <<>> /\ list' = <<>> /\ ix' = <<>>
  /\ Edge("clear", <<>>, Rep(<<>>, <<>>))
AssignTwo(v, w) ==                             \* a=(v w)
  /\ m' = (0 :> v) @@ (1 :> w) /\ list' = <<v, w>> /\ ix' = <<>>
  /\ Edge("assign2", <<v, w>>, Rep(<<v, w>>, <<>>))

\* a+=v with a plain string: appends to element 0, creating it if unset.  TLA+ strings are atomic, so
\* concatenation is a table; only element 0 can ever hold a two-character value.
Cat(a, b) == CASE a = "" -> b [] b = "" -> a
               [] a = "x" /\ b = "x" -> "xx" [] a = "x" /\ b = "y" -> "xy"
               [] a = "y" /\ b = "x" -> "yx" [] a = "y" /\ b = "y" -> "yy"
AppendStr(v) ==
  LET cur == IF 0 \in DOMAIN m THEN m[0] ELSE "" IN
  /\ cur \in Vals /\ v # ""
  /\ DOMAIN m # {}            \* on an unset name, a+=v creates a scalar, which is outside this model
  /\ LET nv == Cat(cur, v)
         r  == SetRepOf(list, ix, 0, nv) IN
     /\ m' = MapSet(m, 0, nv) /\ list' = r.list /\ ix' = r.ix
     /\ Edge("appendstr", <<v>>, r)

Next == \/ \E v \in Vals : AppendStr(v)
        \/ \E k \in Idx, v \in Vals : Set(k, v)
        \/ \E k \in Idx : Unset(k)
        \/ \E n \in 1..2, v \in Vals : SetNeg(n, v)
        \/ \E v \in Vals : AppendElem(v)
        \/ UnsetAll
        \/ \E v, w \in Vals : AssignTwo(v, w)
Spec == Init /\ [][Next]_vars

Refines == Denotes /\ Canonical
MaxAgree == MaxIndex = MapMax(m)

\* --- the expansions bash defines on an indexed array, as functions of the map
RECURSIVE SortedKeys(_)
SortedKeys(S) == IF S = {} THEN <<>>
                 ELSE LET k == CHOOSE x \in S : \A y \in S : x <= y IN <<k>> \o SortedKeys(S \ {k})
Keys   == SortedKeys(DOMAIN m)                        \* ${!a[@]}
Values == LET ks == Keys IN [p \in 1..Len(ks) |-> m[ks[p]]]   \* "${a[@]}"
Count  == Cardinality(DOMAIN m)                       \* ${#a[@]}
Elem(k) == IF k \in DOMAIN m THEN m[k] ELSE ""        \* "${a[k]}"
Last   == IF DOMAIN m = {} THEN "" ELSE m[MapMax(m)]  \* "${a[-1]}" (only asked when non-empty)
\* "${a[@]:o:n}": the first n elements whose index is >= o
Slice(o, n) == LET ks == SelectSeq(Keys, LAMBDA k : k >= o)
                   t  == IF Len(ks) < n THEN Len(ks) ELSE n
               IN [p \in 1..t |-> m[ks[p]]]

EmitState == PrintT(<<"VEC", ToJson([
    rep |-> Rep(list, ix), keys |-> Keys, values |-> Values, count |-> Count,
    elems |-> [k \in Idx |-> Elem(k)], last |-> Last,
    slices |-> [ o \in 0..2 |-> [ n \in 1..2 |-> Slice(o, n) ] ],
    sparse |-> ~Dense(ix) ])>>)
=========================================================================
