SPECIFICATION Spec
CONSTANTS Family = "esc"
  MaxUnits = 2
  MaxFlags = 0
  MaxTail = 5
  MaxArgs = 0
  Rich = TRUE
INVARIANTS IdentityLaw WidthLaw EchoPlainLaw EmitInv
