SPECIFICATION Spec
CONSTANT MaxLen = 3
CONSTANT Cap = 300
CONSTANT Alphabet <- AlphaFull
INVARIANT CheckAndEmit
