SPECIFICATION Spec
CONSTANTS MaxIdx = 3
  Vals = {"x", "y", ""}
INVARIANTS Refines MaxAgree EmitState
