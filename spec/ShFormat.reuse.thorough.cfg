SPECIFICATION Spec
CONSTANTS Family = "reuse"
  MaxUnits = 3
  MaxFlags = 0
  MaxTail = 0
  MaxArgs = 3
  Rich = TRUE
INVARIANTS IdentityLaw WidthLaw EchoPlainLaw EmitInv
