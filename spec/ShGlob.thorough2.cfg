SPECIFICATION Spec
CONSTANTS TokBoost = 0
  SubjBoost = 1
  Fams = {"core", "unanch", "brk", "cls", "clsall", "nocase", "utf", "extoff", "ext", "extbr", "fnbrk", "fncase"}
INVARIANTS ModeIrrelevance LiteralLaw EmitInv
VIEW StateKey
