SPECIFICATION Spec
CONSTANTS TokBoost = 0
  SubjBoost = 1
  Fams = {"core", "brk", "cls", "clsall", "nocase", "utf", "extoff", "ext", "extbr", "fncase"}
INVARIANTS ModeIrrelevance LiteralLaw EmitInv
VIEW StateKey
