SPECIFICATION Spec
CONSTANT MaxLen = 3
INVARIANTS TrackerAgrees Monotone Emit EmitTable
