SPECIFICATION Spec
CONSTANTS InPlace = FALSE
  Scenarios <- TinyScenarios
  Names <- Names2
  FDs <- FDs1
CONSTRAINT LenBound
INVARIANTS NeverCompletes
