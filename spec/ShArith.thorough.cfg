SPECIFICATION Spec
CONSTANT Families = {1, 2, 4, 5}
CONSTANT MaxDepth = 2
CONSTANT Fuel = 6
CONSTANT NLit1 = 9
CONSTANT EnvSel <- EnvAll
INVARIANT CheckAndEmit
