SPECIFICATION Spec
CONSTANTS Family = "dir"
  MaxUnits = 1
  MaxFlags = 2
  MaxTail = 0
  MaxArgs = 1
  Rich = TRUE
INVARIANTS IdentityLaw WidthLaw EchoPlainLaw EmitInv
