SPECIFICATION Spec
CONSTANTS
  MaxLen = 5
  IfsSet = {1,2,3,5,6,7,8,9}
  ModeSet = {"reply","n1","n2","n3","n4","array"}
  AlphaN = 5
INVARIANTS Laws EmitInv
