SPECIFICATION Spec
CONSTANT Wide = TRUE
INVARIANTS Inv
