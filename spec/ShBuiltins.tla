----------------------------- MODULE ShBuiltins -----------------------------
(* C28: the interpreter never panics.  Builtin state machines with TOTAL transition functions.

   Four families of vectors are enumerated by one choice-sequence state machine (`mode` is
   picked at Init, `hist` grows by one step per action; BFS = every history up to the bound):

   "getopts"  the getopts option cursor (ai = index of the argument being scanned = OPTIND,
              ci = characters of that argument already consumed) driven by histories of calls
              with changing optstring / argument lists and assignments to OPTIND.  The contract
              function GNext is total: before every use the cursor is re-validated against the
              CURRENT argument list (GNorm), and TLC checks on every reachable state that the
              cursor indexes inside the current argument list (GInRange) -- an implementation
              that keeps a stale character index panics exactly where GNorm acts.  For
              histories that POSIX defines (same arguments until OPTIND is reset to 1) the
              spec also fixes status, option letter, OPTARG and OPTIND after every call.
   "count"    shift / break / continue / return / exit with one argument vector from the word
              alphabet in contexts (0..3 positional parameters; loop depth 0..2; inside or
              outside a function; subshell).  Total in the argument: every word is classified
              by NumVal (integer or not a number); for integer arguments the spec fixes bash's
              status and effect, rendered as the exact text the program prints.
   "breadth"  every builtin name x argument vectors over the word alphabet x context; the spec
              only enumerates (expected: returns normally).
   "params"   argument vectors for interp.Params / the `set` builtin.
   "syntax"   a library of statements that parse in at least one language variant, many of them
              constructs the interpreter does not implement (zsh / mksh / bats syntax, file
              descriptors other than 0-2, coprocesses, unsupported builtin flags) or edge values
              of expansions (negative slices, bad subscripts, division by zero, bad patterns),
              each in every context and (thorough) every ordered pair at top level.
   "slice"    substring / slice expansions ${X:offset:length} enumerated as offset x length over the
              edge-value alphabet {0 1 3 -1 -4 99 -99 empty $unset} (length also absent) on subjects of several
              lengths: scalars of length 0/1/5, a positional parameter, an array element, ${a[@]:o:l},
              ${a[*]:o:l}, ${@:o:l}, ${*:o:l}; quoted and unquoted.  The spec renders the program.
   The verdict of C28 is a panic (or a call that does not return); status/output expectations
   are cross-checked against bash to keep the spec honest and reported as notes. *)
EXTENDS Integers, Sequences, FiniteSets, TLC, Json

CONSTANTS Modes,          \* subset of {"getopts", "count", "breadth", "params", "syntax", "slice", "arith"}
          GMaxHist,       \* getopts: steps per history
          GMaxArgs,       \* getopts: arguments per call
          GWordIds,       \* getopts: indices into GWordTable
          GOptIds,        \* getopts: indices into GOptTable
          BMaxArgs,       \* breadth: arguments per call in context "top"
          BMaxArgsCtx,    \* breadth: arguments per call in the other contexts
          PMaxArgs,       \* params: arguments
          SMaxLen         \* syntax: constructs per program (1 = each construct in every context; 2 = also all ordered pairs at top level)

VARIABLES mode, hist, g
vars == <<mode, hist, g>>

-----------------------------------------------------------------------------
(* ---------------- getopts ---------------- *)
GWordTable == << <<"-", "a">>, <<"-", "a", "b">>, <<"-", "b">>, <<"-", "b", "v">>, <<"x">>, <<"-", "-">>,
                 <<"-">>, <<>>, <<"-", "c">>, <<"v">> >>
GOptTable  == << <<"a", "b">>, <<"a", "b", ":">>, <<":", "a", "b", ":">> >>
GOptindVals == <<"1", "0", "2", "5", "-1", "x", "">>      \* values assigned to OPTIND between calls
GOptindNum  == [v \in {"1", "0", "2", "5", "-1", "x", ""} |->
                  CASE v = "1" -> 1 [] v = "0" -> 0 [] v = "2" -> 2 [] v = "5" -> 5 [] v = "-1" -> -1 [] OTHER -> 0]

RECURSIVE SeqsUpTo(_, _)
SeqsUpTo(S, n) == IF n = 0 THEN {<<>>}
                  ELSE LET r == SeqsUpTo(S, n - 1) IN r \cup { Append(q, x) : q \in r, x \in S }
GArgLists == SeqsUpTo(GWordIds, GMaxArgs)
ArgsOf(ids) == [i \in 1..Len(ids) |-> GWordTable[ids[i]]]

Silent(os)   == Len(os) > 0 /\ os[1] = ":"
HasOpt(os, c) == c # ":" /\ \E i \in 1..Len(os) : os[i] = c
NeedsArg(os, c) == \E i \in 1..Len(os) : os[i] = c /\ i < Len(os) /\ os[i + 1] = ":"
Rest(w, p)   == SubSeq(w, p + 1, Len(w))

(* The cursor is valid for an argument list iff it points inside it. *)
GValid(c, args) == /\ c.ai >= 1
                   /\ (c.ci > 0 => (c.ai <= Len(args) /\ c.ci < Len(args[c.ai]) /\ c.ci >= 1))
(* Re-validation against the CURRENT arguments: a pending cluster position that does not exist
   any more is dropped (scanning restarts at argument ai). *)
GNorm(c, args) == IF GValid(c, args) THEN c
                  ELSE [ai |-> IF c.ai < 1 THEN 1 ELSE c.ai, ci |-> 0]

GDone(c)     == [c |-> c, st |-> 1, o |-> "?", arg |-> <<"U">>]
(* take option character number p (p >= 2) of argument c.ai *)
GTake(c, os, args, p) ==
  LET w    == args[c.ai]
      ch   == w[p]
      last == p = Len(w)
      adv  == IF last THEN [ai |-> c.ai + 1, ci |-> 0] ELSE [ai |-> c.ai, ci |-> p]
      n    == Len(args)
  IN IF ~HasOpt(os, ch)
     THEN [c |-> adv, st |-> 0, o |-> "?", arg |-> IF Silent(os) THEN <<"S", ch>> ELSE <<"U">>]
     ELSE IF NeedsArg(os, ch)
     THEN IF ~last THEN [c |-> [ai |-> c.ai + 1, ci |-> 0], st |-> 0, o |-> ch, arg |-> <<"S">> \o Rest(w, p)]
          ELSE IF c.ai + 1 <= n
               THEN [c |-> [ai |-> c.ai + 2, ci |-> 0], st |-> 0, o |-> ch, arg |-> <<"S">> \o args[c.ai + 1]]
               ELSE [c |-> [ai |-> c.ai + 1, ci |-> 0], st |-> 0,
                     o |-> IF Silent(os) THEN ":" ELSE "?",
                     arg |-> IF Silent(os) THEN <<"S", ch>> ELSE <<"U">>]
     ELSE [c |-> adv, st |-> 0, o |-> ch, arg |-> <<"U">>]

(* One getopts call: total for every cursor, optstring and argument list. *)
GNext(c0, os, args) ==
  LET c == GNorm(c0, args)
      n == Len(args)
  IN IF c.ci > 0 THEN GTake(c, os, args, c.ci + 1)
     ELSE IF c.ai > n THEN GDone(c)
     ELSE LET w == args[c.ai] IN
          IF w = <<"-", "-">> THEN GDone([ai |-> c.ai + 1, ci |-> 0])
          ELSE IF Len(w) < 2 \/ w[1] # "-" THEN GDone(c)
          ELSE GTake(c, os, args, 2)

(* history steps:  [k |-> "call", os, ids] | [k |-> "optind", v] *)
GInit == [cur |-> [ai |-> 1, ci |-> 0], args |-> <<>>, scope |-> TRUE, outs |-> <<>>, fresh |-> TRUE]
GCall(s, osid, ids) ==
  LET args == ArgsOf(ids)
      r    == GNext(s.cur, GOptTable[osid], args)
      \* POSIX defines the result only while the arguments stay the same (or OPTIND was reset to 1)
      sc   == s.scope /\ (s.fresh \/ args = s.args)
  IN [cur |-> r.c, args |-> args, scope |-> sc, fresh |-> FALSE,
      outs |-> Append(s.outs, [st |-> r.st, o |-> r.o, arg |-> r.arg, optind |-> r.c.ai])]
GSetOptind(s, v) ==
  \* assigning OPTIND=1 restarts the scan; any other assignment is outside what POSIX defines
  LET n == GOptindNum[v] IN
  [s EXCEPT !.cur = [ai |-> IF n < 1 THEN 1 ELSE n, ci |-> 0],
            !.fresh = (v = "1"), !.scope = s.scope /\ v = "1",
            !.outs = Append(s.outs, [st |-> 0, o |-> "", arg |-> <<"U">>, optind |-> 0])]

GInRange == mode = "getopts" => GValid(g.cur, g.args)
GOutsLen == mode = "getopts" => Len(g.outs) = Len(hist)

-----------------------------------------------------------------------------
(* ---------------- word alphabet shared by count / breadth / params ---------------- *)
Words == <<"", "0", "1", "2", "-1", "99999999999999999999", "x", "-x", "--", "-n", "+x", "a=b",
           "g1", "g0", "%d", "\\", "-", "+2", "007", "4", "256", "-p", "[", "]", "=", "!", "(", "*", "-o", "-a">>
NWords == Len(Words)
IntWords == {"0", "1", "2", "-1", "+2", "007", "4", "256"}
NumVal(w) == CASE w = "0" -> 0 [] w = "1" -> 1 [] w = "2" -> 2 [] w = "-1" -> -1 [] w = "+2" -> 2
               [] w = "007" -> 7 [] w = "4" -> 4 [] w = "256" -> 256 [] OTHER -> 0
WordsOf(ids) == [i \in 1..Len(ids) |-> Words[ids[i]]]

(* ---------------- count builtins ---------------- *)
CountBuiltins == {"shift", "break", "continue", "return", "exit"}
ParamNames == <<"a", "b", "c">>
RECURSIVE JoinWords(_)
JoinWords(q) == IF q = <<>> THEN "" ELSE IF Len(q) = 1 THEN q[1] ELSE q[1] \o " " \o JoinWords(Tail(q))
Mod256(n) == n % 256

(* In scope for an exact prediction: no argument, or one integer word ("--" is also the end
   of options followed by nothing). *)
CountScope(argv) == argv = <<>> \/ (Len(argv) = 1 /\ (argv[1] \in IntWords \/ argv[1] = "--"))
CountN(argv, dflt) == IF argv = <<>> \/ argv[1] = "--" THEN dflt ELSE NumVal(argv[1])

(* shift with P positional parameters: prints "s=<status> n=<count> <params>" *)
ShiftExp(P, argv) ==
  LET n   == CountN(argv, 1)
      ok  == n >= 0 /\ n <= P
      k   == IF ok THEN P - n ELSE P
      rem == SubSeq(ParamNames, P - k + 1, P)
  IN << "s=" \o (IF ok THEN "0" ELSE "1") \o " n=" \o ToString(k) \o " " \o JoinWords(rem) >>

(* break / continue inside `for i in 1 2; do for j in 1 2; do echo $i$j; B n; echo after; done; echo o$i; done; echo s=$?` *)
LoopExp(b, argv) ==
  LET n == CountN(argv, 1) IN
  IF n <= 0 THEN <<"11", "s=1">>                      \* loop count out of range: leaves all loops, status 1
  ELSE IF b = "break" THEN (IF n = 1 THEN <<"11", "o1", "21", "o2", "s=0">> ELSE <<"11", "s=0">>)
  ELSE (IF n = 1 THEN <<"11", "12", "o1", "21", "22", "o2", "s=0">> ELSE <<"11", "21", "s=0">>)
(* outside any loop: a message, status 0, execution continues *)
NoLoopExp == <<"s=0">>
(* return n in `f() { return n; echo after; }; f; echo s=$?`; exit n in `(exit n; echo after); echo s=$?` *)
StatusExp(argv) == << "s=" \o ToString(Mod256(CountN(argv, 0))) >>

-----------------------------------------------------------------------------
(* ---------------- breadth ---------------- *)
BuiltinNames == <<
  "alias", "bg", "cd", "command", "false", "fc", "fg", "getopts", "hash", "jobs", "kill", "newgrp", "pwd",
  "read", "true", "umask", "unalias", "wait", "break", ":", "continue", ".", "eval", "exec", "exit", "export",
  "readonly", "return", "set", "shift", "times", "trap", "unset", "source", "bind", "builtin", "caller",
  "compgen", "complete", "compopt", "declare", "typeset", "dirs", "disown", "echo", "enable", "history",
  "help", "let", "local", "logout", "mapfile", "readarray", "popd", "printf", "pushd", "shopt", "suspend",
  "test", "[", "type", "ulimit", "nameref" >>
Contexts == <<"top", "func", "subshell", "loop", "cmdsubst", "pipeL", "pipeR", "bg", "cond">>
(* context templates: program = prelude, then prefix \o command \o suffix *)
Prelude == "set -- a b"
CtxTemplate == [c \in {"top", "func", "subshell", "loop", "cmdsubst", "pipeL", "pipeR", "bg", "cond"} |->
  CASE c = "top"      -> <<"", "">>
    [] c = "func"     -> <<"ctxfn() { ", "\n}; ctxfn 1 2 3">>
    [] c = "subshell" -> <<"( ", "\n)">>
    [] c = "loop"     -> <<"for i in 1 2; do ", "\ndone">>
    [] c = "cmdsubst" -> <<"echo \"$(", "\n)\"">>
    [] c = "pipeL"    -> <<"{ ", "\n} | while read -r l; do echo \"$l\"; done">>
    [] c = "pipeR"    -> <<"echo in | { ", "\n}">>
    [] c = "bg"       -> <<"{ ", "\n} & wait">>
    [] c = "cond"     -> <<"if ", "\nthen echo t; else echo e; fi">>]

-----------------------------------------------------------------------------
(* ---------------- syntax: statements that parse in some variant ---------------- *)
Constructs == <<
  "foo=(a b); echo ${foo[1]} ${#foo}",
  "echo ${(U)x} ${x:u} ${x:h}",
  "() { echo anon; }",
  "function f g { echo multi; }; f; g",
  "echo =(echo tmp)",
  "repeat 2 echo r",
  "echo *(.) **/*(/) <1-10>",
  "print -l a b; print -p x",
  "echo ${x:=1} $[1+2] $[x",
  "foreach x (1 2); echo $x; end",
  "echo ${|REPLY=x;} ${ echo y;}",
  "echo x |& cat; echo y |& while read -p l; do echo $l; done",
  "typeset -i n=1; typeset -Z3 z=1; typeset -f",
  "select x in a b; do break; done",
  "function f { echo ksh; }; f",
  "x=aBc",
  "echo ${x@Q} ${!x*} ${x^^} ${x,,} ${x@U} ${x@a} ${x@A} ${x@E} ${x@P} ${x@K}",
  "time -p echo x; time; time { :; }",
  "coproc cat; echo ${COPROC[0]}",
  "coproc NAME { echo x; }; wait",
  "exec {fd}>out; echo hi >&$fd; exec {fd}>&-",
  "echo hi >&3; echo hi 3>&1; exec 3</dev/null; read x <&3; echo x 9>&2",
  "echo x <> f; echo x >| f; echo x &> f; echo x &>> f; echo y >&f; echo z 2>&1 1>&2",
  "read x <<< a; read -u 3 x; read x <<-EOF\n\tt\n\tEOF",
  "wait -n; wait -p v; kill -9 $$; kill -l; fg; bg; jobs -l; disown -a; suspend -f",
  "trap 'echo x' INT TERM; trap -p; trap -l; ulimit -n; ulimit -n 10; umask 022; umask -S; times",
  "declare -n r=r; echo $r; r=1; declare -n q=x; q=1; declare -n; unset -n q",
  "declare -i n=1+1; declare -l s=ABC; declare -u t=abc; declare -a a=([5]=x [2]=y); echo $n $s $t ${a[@]}",
  "local x; readonly -f f; export -f f; export -n x; export -p; readonly -p; declare -F; declare -f nosuch",
  "a=(1 2)",
  "echo ${a[-3]} ${a[99999999999]} ${a[x]} ${a[@]:(-5)} ${a[@]:1:-1}",
  "a=(1 2); a[-3]=x; a[99999999999]=y; a[-1]+=z; unset 'a[-9]'; echo ${#a[@]}",
  "x=abc; echo ${x:1:-5} ${x: -1} ${x:99} ${x:a} ${x:1:99} ${x: -9} ${x:-1:2} ${x:0:-3} ${x:3:-1}",
  "echo ${#} ${#@} ${#*} ${##} ${#-} ${#?} ${#x[@]} ${#1} ${10} ${99999999999999999999}",
  "x=abc; echo ${x/} ${x//} ${x/#/a} ${x/%} ${x/[} ${x//[/]} ${x%%*} ${x##*[} ${x#[} ${x%\\\\} ${x/\\\\}",
  "x=y; y=z; echo ${!x} ${!x@} ${!1} ${!#} ${!@} ${!nosuch} ${!x[@]} ${!-} ${!?}",
  "echo ${x?msg}; echo ${x:?}; echo ${x+a} ${x:+} ${x-} ${x=}; echo ${1=a} ${@=b} ${#=c}",
  "echo $((1/0)); echo $((1%0)); echo $((2**-1)) $((1<<64)) $((1<<-1)) $((9223372036854775807+1)) $((-9223372036854775808/-1))",
  "echo $((08)) $((16#zz)) $((65#1)) $((1#1)) $((0x)) $((1.5))",
  "((a[1]++))",
  "echo $((a[0]++))",
  "echo $((b[0]--)) $((++c[x]))",
  "echo $((d[-1]=1)) $((e[0]+=2))",
  "let; let ''; let 1/0; let a[0]++",
  "x='y+1'; y='x+1'; echo $((x)); z=z; echo $((z)); echo $((x[1]))",
  "for ((;;)); do break; done; for ((i=0;i<1;i++)) { echo brace; }; for ((i=0;;i++)); do ((i>1)) && break; done",
  "case x in x) echo a;;& x) echo b;& y) echo c;; esac; case x in esac; case $x in [) ;; *\\\\) ;; esac",
  "[[ -v x[1] ]]; [[ a -ef b ]]; [[ -t 99999999999999999999 ]]; [[ -o nosuch ]]; [[ x -eq y ]]; [[ 1 -lt 99999999999999999999 ]]",
  "test -t x; [ -v ]; [ ! ]; [ ( ]; [ a -a ]; [ -o ]; test a -o; test ! ! !; [ 1 -eq x ]; test x -nt; [ ( a ) ]",
  "echo \"${@:0}\" \"${@:1:-1}\" \"${*:5}\" \"${@: -1}\" \"${@:-1:0}\" \"${@:2:99}\" \"${@:x}\" \"${@:0:1}\"",
  "printf '%*d' x 1; printf '%.*s' -1 x; printf '%c' ''; printf '%b' '\\x'; printf %s; printf '%5$s'; printf '%'; printf '%-'; printf '%l'",
  "printf '%99999999d' 1 | wc; printf '%(%Y)T' -1; printf '%(%Y)T' x; printf '%q' ''; printf '%d' 0x 1e 99999999999999999999 -; printf -v v x; printf -v 1x y; printf --; printf -x",
  "echo -e '\\x' '\\0777' '\\u' '\\U110000' '\\c' '\\'; echo -ne; echo -- -n",
  "read -n x v; read -t -1 v; read -d '' v; read -a; read -N 1 v; read -p; read 1x; read -r; read a b c <<< x",
  "mapfile -n x -s y; mapfile -C f -c 0; mapfile -t a <<< x; mapfile -d; mapfile -O -1 a; readarray -u 9 a",
  "source /dev/null x; .; source nonexistent; source .; . /; source /dev/null/x",
  "eval; eval ''; eval ';'; eval '('; eval 'eval eval :'; eval 'return 1'; eval 'break'; eval exit",
  "alias x=; x; alias 'a b'=c; alias -p; alias =; alias ==; unalias -a; unalias; shopt -s expand_aliases; alias e=e; e; alias l='l '; l l",
  "cd -; cd ~nonexistent; cd -P .; cd a b; cd ''; cd //; cd ../../../../../../../..; cd -L; cd --",
  "pushd +1; popd +0; dirs -c; dirs -v; dirs -p -l; pushd -n; popd -n; popd -n; popd; pushd; pushd /; pushd; popd -x; dirs +9",
  "set -o nosuch; set -o; set +o; set -; set +; set --; set -euxo pipefail; set -z; set -o-; set +o errexit x; set -- -e",
  "shopt -s nosuch; shopt -po; shopt -q x; shopt -su; shopt -o -s errexit; shopt -u -o; shopt extglob nosuch",
  "exec; exec >/dev/null 2>&1 <&-; echo x; read y; exec 2>&-; exec 1>&-; echo z",
  "unset 'a[' 'a[]' 'a[x]' 'a[-1]' 1 @ - -f -v -n -fv; unset",
  "getopts; getopts a; getopts a 1x; getopts : x; getopts a x --; getopts '' x -a; getopts a: x -a; getopts ab x -ab; getopts ab x -a; getopts ab x",
  "OPTIND=99999999999999999999; getopts a x -a; OPTIND=-5; getopts a x -a; OPTIND=3; getopts a x -a; OPTIND=; getopts a x; unset OPTIND; getopts a x -a",
  "type; type -t; type -P; type -a x; command; command -v; command -p x; command -V x; builtin; builtin nosuch; builtin builtin builtin; hash -r x; help nosuch; help -s cd; help -x",
  "wait x; wait -1; wait g0; wait g99999999999999999999; wait %1; wait $!; wait g; wait g1 g2",
  "trap; trap -; trap x; trap ''; trap 'echo' 0; trap -- EXIT; trap 'exit 3' EXIT; trap 'return' ERR; false",
  "true & wait $!; echo $!; { sleep 0; } & wait g1; false & wait g2; echo $?",
  "echo $(</dev/null)",
  "x=1 y=2 z; a=1 b=$a env; x=1 :; a[0]=1 true; x+=1 true",
  "f() { f2() { return 99999; }; f2; }; f; return; f() { f; }; g() { unset -f g; }; g; h() h2; h",
  "while :; do break 2; done; until true; do :; done; while false; do :; done; for i; do :; done; for i in; do :; done",
  "echo ~+ ~- ~nosuchuser ~/x ~root ~: x=~ y=~/a:~",
  "echo <(echo a) >(true)",
  "@test \"x\" { true; }",
  "f() echo hi; f; ! true; { }; ( ); else :",
  "echo $(< /nonexistent) $(</dev/null) `echo bq`",
  "if true; then :; fi; if false; then :; elif :; then :; else :; fi; ! true; { :; }; ( : )",
  "unset ''; unset -v ''; unset -f ''",
  "declare ''; export ''; readonly ''; local ''",
  "read ''; getopts a ''; mapfile ''; printf -v '' x",
  "x=; echo $((x++)) ${x:=} $(($x))" >>
NConstructs == Len(Constructs)

-----------------------------------------------------------------------------
(* ---------------- slice: ${X:offset:length} over edge values ---------------- *)
\* offsets and lengths: edge integers, the empty expression (${v::2}; rejected by the parser where bash
\* accepts it, then the vector is only counted) and an expression that is empty at run time ($z is unset)
SliceVals    == <<"0", "1", "3", "-1", "-4", "99", "-99", "", "$z">>
SliceNoLen   == Len(SliceVals) + 1                                 \* index meaning "no :length part"
\* subjects: what stands before the first colon (lengths 0, 1, 5, 6; 3 array elements; 2 parameters)
SliceSubjects == <<"e", "s", "v", "1", "a[1]", "a[@]", "a[*]", "@", "*", "a[9]", "nosuch">>
SlicePrelude  == "e=; s=a; v=abcde; a=(abcde fg hij); set -- abcdef xy"
SliceForms    == <<"quoted", "unquoted">>
\* the offset is always preceded by a blank so that negative offsets are not read as ${X:-word}
SliceWord(subj, oi, li) ==
  "${" \o subj \o (IF SliceVals[oi] = "" THEN ":" ELSE ": ") \o SliceVals[oi] \o (IF li = SliceNoLen THEN "" ELSE ":" \o SliceVals[li]) \o "}"
SliceProg(subj, form, oi, li) ==
  << SlicePrelude,
     IF form = "quoted" THEN "echo \"<" \o SliceWord(subj, oi, li) \o ">\"" ELSE "echo x" \o SliceWord(subj, oi, li) \o "y" >>

-----------------------------------------------------------------------------
(* ---------------- arith: every operator over edge operands ---------------- *)
\* Binary and assignment operators of shell arithmetic crossed with edge operands (zero, negative
\* and out-of-range shift counts, the 64-bit limits, an empty and an unset operand, a name whose
\* value is an expression, an array element, an invalid octal literal).  Only "no panic" is claimed.
ArithBinOps == <<"+", "-", "*", "/", "%", "**", "<<", ">>", "&", "|", "^", "&&", "||", "<", "==", ",", "?1:">>
ArithAsgOps == <<"=", "+=", "-=", "*=", "/=", "%=", "<<=", ">>=", "&=", "|=", "^=">>
ArithVals   == <<"0", "1", "-1", "64", "-64", "9223372036854775807", "-9223372036854775808", "", "$z", "e", "a[0]", "08">>
ArithPrelude == "e='1+'; a=(3); unset z"
\* forms: a binary operator in $(( )), and an assignment operator on a scalar, on an array element,
\* in (( )), in let, and in the step of a for (( )) loop
ArithForms  == <<"bin", "asg", "elem", "cmd", "let", "for">>
ArithNOps(form) == IF form = "bin" THEN Len(ArithBinOps) ELSE Len(ArithAsgOps)
ArithProg(form, oi, li, ri) ==
  LET l == ArithVals[li]
      r == ArithVals[ri]
      op == IF form = "bin" THEN ArithBinOps[oi] ELSE ArithAsgOps[oi]
  IN CASE form = "bin"  -> << ArithPrelude, "echo $(( " \o l \o " " \o op \o " " \o r \o " ))" >>
       [] form = "asg"  -> << ArithPrelude, "x=" \o (IF l = "$z" THEN "" ELSE l), "echo $(( x " \o op \o " " \o r \o " )) $x" >>
       [] form = "elem" -> << ArithPrelude, "b=(7 " \o (IF l \in {"", "$z"} THEN "''" ELSE l) \o ")", "echo $(( b[1] " \o op \o " " \o r \o " )) ${b[1]}" >>
       [] form = "cmd"  -> << ArithPrelude, "x=" \o (IF l = "$z" THEN "" ELSE l), "(( x " \o op \o " " \o r \o " )); echo $? $x" >>
       [] form = "let"  -> << ArithPrelude, "x=" \o (IF l = "$z" THEN "" ELSE l), "let \"x " \o op \o " " \o r \o "\"; echo $? $x" >>
       [] form = "for"  -> << ArithPrelude, "x=" \o (IF l = "$z" THEN "" ELSE l), "for ((i = 0; i < 2; i++, x " \o op \o " " \o r \o ")); do :; done; echo $x" >>

-----------------------------------------------------------------------------
(* ---------------- the enumerating state machine ---------------- *)
Init == /\ mode \in Modes /\ hist = <<>> /\ g = GInit

GetoptsStep ==
  /\ mode = "getopts" /\ Len(hist) < GMaxHist
  /\ \/ \E osid \in GOptIds, ids \in GArgLists :
          /\ hist' = Append(hist, [k |-> "call", os |-> GOptTable[osid], args |-> ArgsOf(ids)])
          /\ g' = GCall(g, osid, ids)
     \/ \E i \in 1..Len(GOptindVals) :
          /\ Len(hist) > 0 /\ hist[Len(hist)].k = "call"
          /\ hist' = Append(hist, [k |-> "optind", v |-> GOptindVals[i]])
          /\ g' = GSetOptind(g, GOptindVals[i])
  /\ UNCHANGED mode

(* count / breadth / params: hist = <<[name, ctx], word ids...>>, one word per step *)
CountStart ==
  /\ mode = "count" /\ hist = <<>>
  /\ \E b \in CountBuiltins, c \in 0..3 :
        \* c = number of positional parameters (shift), loop depth (break/continue: 0 or 2),
        \* 0 = inside a function / 1 = top level (return), unused for exit
        /\ (b \in {"break", "continue"} => c \in {0, 2})
        /\ (b \in {"return", "exit"} => c \in {0, 1})
        /\ hist' = <<[name |-> b, ctx |-> c]>>
  /\ UNCHANGED <<mode, g>>
BreadthStart ==
  /\ mode = "breadth" /\ hist = <<>>
  /\ \E i \in 1..Len(BuiltinNames), c \in 1..Len(Contexts) :
        hist' = <<[name |-> BuiltinNames[i], ctx |-> Contexts[c]]>>
  /\ UNCHANGED <<mode, g>>
ParamsStart ==
  /\ mode = "params" /\ hist = <<>>
  /\ hist' = <<[name |-> "Params", ctx |-> ""]>>
  /\ UNCHANGED <<mode, g>>
SyntaxStart ==
  /\ mode = "syntax" /\ hist = <<>>
  /\ \E i \in 1..NConstructs, c \in 1..Len(Contexts) :
        hist' = <<[name |-> "construct", ctx |-> Contexts[c]], i>>
  /\ UNCHANGED <<mode, g>>
SyntaxAdd ==
  /\ mode = "syntax" /\ Len(hist) >= 2 /\ Len(hist) - 1 < SMaxLen /\ hist[1].ctx = "top"
  /\ \E i \in 1..NConstructs : hist' = Append(hist, i)
  /\ UNCHANGED <<mode, g>>
SliceStart ==
  /\ mode = "slice" /\ hist = <<>>
  /\ \E i \in 1..Len(SliceSubjects), f \in 1..Len(SliceForms) :
        hist' = <<[name |-> SliceSubjects[i], ctx |-> SliceForms[f]]>>
  /\ UNCHANGED <<mode, g>>
ArithStart ==                  \* hist = <<[form], operator index, left index, right index>>
  /\ mode = "arith" /\ hist = <<>>
  /\ \E f \in 1..Len(ArithForms) : hist' = <<[name |-> ArithForms[f], ctx |-> ""]>>
  /\ UNCHANGED <<mode, g>>
ArithAdd ==
  /\ mode = "arith" /\ Len(hist) \in {1, 2, 3}
  /\ \E i \in 1..(IF Len(hist) = 1 THEN ArithNOps(hist[1].name) ELSE Len(ArithVals)) : hist' = Append(hist, i)
  /\ UNCHANGED <<mode, g>>
SliceAdd ==                    \* hist = <<[subject, form], offset index, length index>>
  /\ mode = "slice" /\ Len(hist) \in {1, 2}
  /\ \E i \in 1..(IF Len(hist) = 1 THEN Len(SliceVals) ELSE SliceNoLen) : hist' = Append(hist, i)
  /\ UNCHANGED <<mode, g>>
MaxArgsHere == IF mode = "count" THEN 2
               ELSE IF mode = "params" THEN PMaxArgs
               ELSE IF hist[1].ctx = "top" THEN BMaxArgs ELSE BMaxArgsCtx
AddWord ==
  /\ mode \in {"count", "breadth", "params"} /\ Len(hist) >= 1 /\ Len(hist) - 1 < MaxArgsHere
  /\ \E w \in 1..NWords : hist' = Append(hist, w)
  /\ UNCHANGED <<mode, g>>

Next == GetoptsStep \/ CountStart \/ BreadthStart \/ ParamsStart \/ AddWord \/ SyntaxStart \/ SyntaxAdd \/ SliceStart \/ SliceAdd \/ ArithStart \/ ArithAdd
Spec == Init /\ [][Next]_vars

-----------------------------------------------------------------------------
(* Emission *)
Argv == IF Len(hist) <= 1 THEN <<>> ELSE WordsOf(SubSeq(hist, 2, Len(hist)))
(* the program of a count vector; @ARGS@ is replaced by the quoted argument words *)
CountLines(b, c) ==
  IF b = "shift" THEN << IF c = 0 THEN "set --" ELSE "set -- " \o JoinWords(SubSeq(ParamNames, 1, c)),
                         "shift @ARGS@", "echo \"s=$? n=$# $*\"" >>
  ELSE IF b \in {"break", "continue"} THEN
       (IF c = 0 THEN << b \o " @ARGS@", "echo s=$?" >>
        ELSE << "for i in 1 2; do for j in 1 2; do echo $i$j; " \o b \o " @ARGS@; echo after; done; echo o$i; done",
                "echo s=$?" >>)
  ELSE IF b = "return" THEN
       (IF c = 0 THEN << "f() { return @ARGS@; echo after; }", "f", "echo s=$?" >>
        ELSE << "return @ARGS@", "echo s=$?" >>)
  ELSE (IF c = 0 THEN << "(exit @ARGS@; echo after)", "echo s=$?" >>
        ELSE << "exit @ARGS@", "echo after" >>)
CountVec ==
  LET b == hist[1].name
      c == hist[1].ctx
      argv == Argv
      \* `return` / `exit` at top level: only "no panic" is claimed
      sc == CountScope(argv) /\ ~(b \in {"return", "exit"} /\ c = 1)
  IN [fam |-> "count", name |-> b, ctx |-> c, argv |-> argv, scope |-> sc, prog |-> CountLines(b, c),
      exp |-> IF ~sc THEN <<>>
              ELSE IF b = "shift" THEN ShiftExp(c, argv)
              ELSE IF b \in {"break", "continue"} THEN (IF c = 0 THEN NoLoopExp ELSE LoopExp(b, argv))
              ELSE StatusExp(argv)]
EmitVec ==
  \/ /\ hist = <<>>
     /\ PrintT(<<"STAT", ToJson([mode |-> mode, prelude |-> Prelude, ctx |-> CtxTemplate])>>)
  \/ /\ mode = "arith"
     /\ (Len(hist) < 4 \/
         PrintT(<<"VEC", ToJson([fam |-> "arith", form |-> hist[1].name,
                                 prog |-> ArithProg(hist[1].name, hist[2], hist[3], hist[4])])>>))
  \/ /\ mode = "slice"
     /\ (Len(hist) < 3 \/
         PrintT(<<"VEC", ToJson([fam |-> "slice", subj |-> hist[1].name, form |-> hist[1].ctx,
                                 off |-> SliceVals[hist[2]],
                                 len |-> IF hist[3] = SliceNoLen THEN "none" ELSE SliceVals[hist[3]],
                                 prog |-> SliceProg(hist[1].name, hist[1].ctx, hist[2], hist[3])])>>))
  \/ /\ mode = "syntax"
     /\ PrintT(<<"VEC", ToJson([fam |-> "syntax", ctx |-> hist[1].ctx,
                                cons |-> [i \in 1..(Len(hist) - 1) |-> Constructs[hist[i + 1]]]])>>)
  \/ /\ mode = "getopts"
     /\ PrintT(<<"VEC", ToJson([fam |-> "getopts", hist |-> hist, scope |-> g.scope, outs |-> g.outs])>>)
  \/ /\ mode = "count"
     /\ PrintT(<<"VEC", ToJson(CountVec)>>)
  \/ /\ mode \in {"breadth", "params"}
     /\ PrintT(<<"VEC", ToJson([fam |-> mode, name |-> hist[1].name, ctx |-> hist[1].ctx, argv |-> Argv])>>)

(* Laws of the contract itself (vacuity / typo guards) *)
\* every out-of-range shift count behaves alike: status 1, parameters unchanged
ShiftLaw == \A P \in 0..3 : \A w \in IntWords :
              LET n == NumVal(w) IN (n < 0 \/ n > P) => ShiftExp(P, <<w>>) = ShiftExp(P, <<"256">>)
\* statuses are bytes
StatusLaw == \A w \in IntWords : Mod256(NumVal(w)) \in 0..255
=============================================================================
