---------------------------- MODULE ShConc ----------------------------
(* C32: concurrent shell features are race-free; `wait <job>` returns that job's status.
   Style S.  Goroutines: main (index 0) and one per job.  A job is spawned by one of the
   concurrent contexts

       bg       { job; } &                      procin   main-op < <( job )
       pipe     { job; } | { main-op; }         procout  main-op > >( job )
       api      r2 := r.Subshell(); go r2.Run(job); r.Run(main-op)       (exported Go API)
       bgcmdsub { : "$(job)"; } &               (the job's operation runs in a command substitution inside a background job)

   The shell state is a set of CELLS, one per class of state that looks shared at the shell level:
   a scalar variable, the storage of an indexed array, the storage of an associative array, the function table, the alias table, the option
   table, the working directory, the positional parameters, standard output.  The contract says
   for every class what a spawned child gets:

       own      its own copy, made by the parent before the child starts (var, func, alias, opt, cwd, params)
       cow      the very same storage, read-only: whoever wants to write while it is shared must first
                take a private copy (storage of indexed and associative arrays -- the C27 discipline, now with real concurrency)
       safe     the same object, whose own implementation must tolerate concurrent use (stdout:
                interp documents that the io.Writer given to StdIO must be safe for concurrent use)
       sync     the same cell, accesses ordered by a blocking operation (a job's exit status: written
                before done is closed, read after `wait` received from done)

   NoRace (checked by TLC in every reachable state, i.e. for every interleaving): there are never two
   goroutines whose NEXT steps are both enabled accesses to the same cell instance, at least one of
   them a write.  Blocking steps (wait, the pipeline's wg.Wait) are not enabled until their wake
   condition holds, which is how happens-before enters the model.
   Job table: every spawn of a kind that has a job id appends to the table, `$!` names the last entry,
   `wait id` is enabled once that job is done and yields the status that job exited with
   (WaitCorrect), in every completion order; plain `wait` needs all jobs done and yields 0.

   With Buggy = TRUE the write `a+=x` ("wip") on shared array storage is done in place (what
   interp.Runner.assignVal did before commit 6880309): NoRace must then fail (self-test, ShConc.buggy.cfg),
   and it fails exactly on the shapes of the predicate Trigger (second self-test of the model).

   Every terminal state is one (shape, schedule): hist is the total order of the events of that
   interleaving.  It is emitted as a VEC; the engine renders the shape as a script, turns hist into a
   table of time slots enforced by time.Sleep at the H12 yield points (never by channels, mutexes or
   atomics, which would add happens-before edges), and runs it in a -race build. *)
EXTENDS Integers, Sequences, FiniteSets, TLC, Json

CONSTANTS Family,      \* "share": one job, every kind x job op x main op x position;  "jobs": 2..MaxJobs jobs
                       \* without operations;  "share2": two jobs and main all touching the variable / the array
          MaxJobs,
          Buggy

VARIABLES shape,       \* [jobs: Seq([kind, op, st]), mop, mpos, worder]   (constant after Init)
          mpc,         \* index of main's next step
          jpc,         \* job -> "none" | "op" | "exit" | "done"
          inst,        \* goroutine -> class -> cell instance
          ninst,       \* number of instances allocated
          table,       \* job table of main: sequence of job indices in spawn order (kinds with an id)
          got,         \* sequence of <<what, status>> that main's waits returned
          hist,        \* the schedule: sequence of events
          raced        \* history: a racing pair was enabled in some state passed (Buggy runs only)
vars == <<shape, mpc, jpc, inst, ninst, table, got, hist, raced>>

\* ---------------------------------------------------------------- operations on shared-looking state
\* txt: shell text; cls: cell class; mode: r read, w write (copy first if shared), wip write that the
\* known defect does in place
Op(txt, cls, mode) == [txt |-> txt, cls |-> cls, mode |-> mode]
Nop == Op(":", "none", "r")
Ops == { Op(": \"$v\"", "var", "r"),          Op("v=x", "var", "w"),
         Op(": \"${a[@]}\"", "arr", "r"),     Op("a[1]=x", "arr", "w"),   Op("a+=x", "arr", "wip"),
         Op(": \"${m[k]}\"", "map", "r"),     Op("m[k]=x", "map", "w"),
         Op("f", "func", "r"),                Op("f() { :; }", "func", "w"),
         Op("alias q >/dev/null", "alias", "r"), Op("alias q=z", "alias", "w"),
         Op("[ -o noglob ]", "opt", "r"),     Op("set -f", "opt", "w"),
         Op(": \"$PWD\"", "cwd", "r"),        Op("cd d1", "cwd", "w"),
         Op(": \"$@\"", "params", "r"),       Op("shift", "params", "w"),
         Op("echo o", "out", "w") }
HotOps == {o \in Ops : o.cls \in {"var", "arr", "map"}}
Classes == {"var", "arr", "map", "func", "alias", "opt", "cwd", "params", "out"}
Discipline == [var |-> "own", func |-> "own", alias |-> "own", opt |-> "own", cwd |-> "own",
               params |-> "own", arr |-> "cow", map |-> "cow", out |-> "safe"]

ShareKinds == {"bg", "pipe", "procin", "procout", "api", "bgcmdsub"}
HasId(k) == k \in {"bg", "procin", "procout", "bgcmdsub"}       \* `$!` / wait id (a pipeline stage and an API copy have none)
Job(k, o, s) == [kind |-> k, op |-> o, st |-> s]

RECURSIVE Perms(_)
Perms(S) == IF S = {} THEN {<<>>} ELSE UNION { { <<x>> \o p : p \in Perms(S \ {x}) } : x \in S }

Shapes ==
  IF Family = "share"
  THEN { [jobs |-> <<Job(k, o, 3)>>, mop |-> m, mpos |-> pos, worder |-> IF HasId(k) THEN <<1>> ELSE <<>>] :
           k \in ShareKinds, o \in Ops, m \in Ops, pos \in {"during", "after"} }
  ELSE IF Family = "share2"
  THEN { [jobs |-> <<Job(k1, o1, 3), Job(k2, o2, 5)>>, mop |-> m, mpos |-> "during", worder |-> <<1, 2>>] :
           k1 \in {"bg", "procout"}, k2 \in {"bg", "procout"}, o1 \in HotOps, o2 \in HotOps, m \in HotOps }
  ELSE UNION { { [jobs |-> [j \in 1..n |-> Job(ks[j], Nop, 2 * j + 1)], mop |-> Nop, mpos |-> "after", worder |-> w] :
                   ks \in [1..n -> {"bg", "procout"}], w \in Perms(1..n) } : n \in 2..MaxJobs }

N == Len(shape.jobs)

\* ---------------------------------------------------------------- main's program
\* steps: <<"spawn", j>>, <<"op">>, <<"wait", j>>, <<"pipewait", j>>, <<"waitall">>
MainProg(sh) ==
  LET n == Len(sh.jobs)
      k1 == sh.jobs[1].kind
      during == IF sh.mpos = "during" THEN << <<"op">> >> ELSE <<>>
      after  == IF sh.mpos = "after" THEN << <<"op">> >> ELSE <<>>
  IN IF Family = "share"
     THEN << <<"spawn", 1>> >> \o during
          \o (IF k1 = "pipe" THEN << <<"pipewait", 1>> >>
              ELSE IF k1 = "api" THEN << <<"wait", 1>> >>      \* the caller joins r2.Run and gets its status
              ELSE << <<"wait", 1>>, <<"waitall">> >>)
          \o after
     ELSE IF Family = "share2"
     THEN << <<"spawn", 1>>, <<"spawn", 2>>, <<"op">>, <<"wait", 1>>, <<"wait", 2>>, <<"waitall">> >>
     ELSE [j \in 1..n |-> <<"spawn", j>>] \o [i \in 1..n |-> <<"wait", sh.worder[i]>>] \o << <<"waitall">> >>
Prog == MainProg(shape)
MainStep == IF mpc <= Len(Prog) THEN Prog[mpc] ELSE <<"end">>

\* ---------------------------------------------------------------- cells
\* A cell instance is a number.  Main starts with instance i for the i-th class; a spawned child gets
\* new numbers for the classes it owns and the parent's instance for the cow / safe classes.
ClassSeq == <<"var", "arr", "map", "func", "alias", "opt", "cwd", "params", "out">>
NC == Len(ClassSeq)
MainInst == [i \in 1..NC |-> i]
ChildInst(parent, base) ==
  [i \in 1..NC |-> IF Discipline[ClassSeq[i]] = "own" THEN base + i ELSE parent[i]]
ClassIdx(c) == CHOOSE i \in 1..NC : ClassSeq[i] = c
\* goroutine g (0 = main, j = job j) is alive, i.e. may still touch its cells
Alive(g) == IF g = 0 THEN TRUE ELSE jpc[g] \in {"op", "exit"}
Shared(g, i) == \E h \in 0..N : h # g /\ Alive(h) /\ inst[h][i] = inst[g][i]

\* The physical access an operation of goroutine g performs: [cell, w] -- or none.
\* A write to cow storage that is shared goes to a private copy (so it only READS the shared cell).
Access(g, op) ==
  IF op.cls = "none" \/ Discipline[op.cls] = "safe" THEN [cell |-> 0, w |-> FALSE]
  ELSE LET i == ClassIdx(op.cls) IN
       IF op.mode = "r" THEN [cell |-> inst[g][i], w |-> FALSE]
       ELSE IF Discipline[op.cls] = "cow" /\ Shared(g, i)
            THEN [cell |-> inst[g][i], w |-> (Buggy /\ op.mode = "wip")]
            ELSE [cell |-> inst[g][i], w |-> TRUE]
\* the instance g uses after the operation (copy on write)
AfterOp(g, op) ==
  IF op.cls # "none" /\ Discipline[op.cls] = "cow" /\ op.mode # "r" /\ Shared(g, ClassIdx(op.cls))
     /\ ~(Buggy /\ op.mode = "wip")
  THEN [inst EXCEPT ![g][ClassIdx(op.cls)] = ninst + 1]
  ELSE inst

\* ---------------------------------------------------------------- steps
Ev(e) == hist' = Append(hist, e)
JobExitCell(j) == 1000 + j            \* the sync cell holding job j's exit status

\* the next access of each goroutine, if its next step is an enabled access
NextAcc(g) ==
  IF g = 0
  THEN (IF MainStep[1] = "op" THEN Access(0, shape.mop)
        ELSE IF MainStep[1] = "wait" /\ jpc[MainStep[2]] = "done" THEN [cell |-> JobExitCell(MainStep[2]), w |-> FALSE]
        ELSE [cell |-> 0, w |-> FALSE])
  ELSE (IF jpc[g] = "op" THEN Access(g, shape.jobs[g].op)
        ELSE IF jpc[g] = "exit" THEN [cell |-> JobExitCell(g), w |-> TRUE]
        ELSE [cell |-> 0, w |-> FALSE])
RacingPair == \E g, h \in 0..N : g < h /\ LET a == NextAcc(g) b == NextAcc(h) IN
                                           a.cell # 0 /\ a.cell = b.cell /\ (a.w \/ b.w)

Spawn(j) ==
  /\ MainStep = <<"spawn", j>>
  /\ jpc' = [jpc EXCEPT ![j] = IF shape.jobs[j].op = Nop THEN "exit" ELSE "op"]   \* (a job without operation only exits)
  /\ inst' = [inst EXCEPT ![j] = ChildInst(inst[0], ninst)]
  /\ ninst' = ninst + NC
  /\ table' = IF HasId(shape.jobs[j].kind) THEN Append(table, j) ELSE table
  /\ mpc' = mpc + 1 /\ Ev(<<"spawn", j>>) /\ UNCHANGED <<shape, got>>
MainOp ==
  /\ MainStep = <<"op">>
  /\ inst' = AfterOp(0, shape.mop)
  /\ ninst' = ninst + 1
  /\ mpc' = mpc + 1 /\ Ev(<<"op", 0>>) /\ UNCHANGED <<shape, jpc, table, got>>
\* `wait $id` where id was `$!` right after spawning job j: blocks until the job is done
Wait(j) ==
  /\ MainStep = <<"wait", j>>
  /\ jpc[j] = "done"
  /\ got' = Append(got, <<j, shape.jobs[j].st>>)
  /\ mpc' = mpc + 1 /\ Ev(<<"wait", j>>) /\ UNCHANGED <<shape, jpc, inst, ninst, table>>
PipeWait(j) ==                                   \* wg.Wait of a pipeline
  /\ MainStep = <<"pipewait", j>>
  /\ jpc[j] = "done"
  /\ mpc' = mpc + 1 /\ Ev(<<"pipewait", j>>) /\ UNCHANGED <<shape, jpc, inst, ninst, table, got>>
WaitAll ==
  /\ MainStep = <<"waitall">>
  /\ \A j \in 1..N : jpc[j] = "done"
  /\ got' = Append(got, <<0, 0>>)
  /\ mpc' = mpc + 1 /\ Ev(<<"waitall">>) /\ UNCHANGED <<shape, jpc, inst, ninst, table>>
JobOp(j) ==
  /\ jpc[j] = "op"
  /\ inst' = AfterOp(j, shape.jobs[j].op)
  /\ ninst' = ninst + 1
  /\ jpc' = [jpc EXCEPT ![j] = "exit"]
  /\ Ev(<<"op", j>>) /\ UNCHANGED <<shape, mpc, table, got>>
JobExit(j) ==                                    \* store the status, then close(done)
  /\ jpc[j] = "exit"
  /\ jpc' = [jpc EXCEPT ![j] = "done"]
  /\ Ev(<<"exit", j>>) /\ UNCHANGED <<shape, mpc, inst, ninst, table, got>>

Step == \/ \E j \in 1..N : Spawn(j) \/ Wait(j) \/ PipeWait(j) \/ JobOp(j) \/ JobExit(j)
        \/ MainOp \/ WaitAll
Next == Step /\ raced' = (raced \/ RacingPair)

Init == /\ shape \in Shapes
        /\ mpc = 1
        /\ jpc = [j \in 1..Len(shape.jobs) |-> "none"]
        /\ inst = [g \in 0..Len(shape.jobs) |-> MainInst]
        /\ ninst = NC
        /\ table = <<>> /\ got = <<>> /\ hist = <<>> /\ raced = FALSE
Spec == Init /\ [][Next]_vars

\* ---------------------------------------------------------------- what TLC checks
NoRace == ~RacingPair
\* every wait returned the status its job exited with; `wait` alone returns 0
WaitCorrect == \A i \in 1..Len(got) :
                 IF got[i][1] = 0 THEN got[i][2] = 0 ELSE got[i][2] = shape.jobs[got[i][1]].st
\* `$!` names the last job: ids are positions in the table, in spawn order, only for kinds with an id
TableWF == /\ \A p, q \in 1..Len(table) : p < q => table[p] < table[q]
           /\ \A p \in 1..Len(table) : HasId(shape.jobs[table[p]].kind) /\ jpc[table[p]] # "none"
\* an owned class is never shared between two live goroutines
OwnDisjoint == \A g, h \in 0..N : (g # h /\ Alive(g) /\ Alive(h)) =>
                 \A i \in 1..NC : Discipline[ClassSeq[i]] = "own" => inst[g][i] # inst[h][i]
\* the model does not deadlock before main is through, and a job cannot be waited for before it ends
Terminal == mpc > Len(Prog) /\ \A j \in 1..N : jpc[j] = "done"
NoStuck == Terminal \/ ENABLED Step

\* Trigger class of the Buggy self-test model, as a predicate on the shape: two
\* goroutines that are not ordered by a wait both operate on the array and one of them is `a+=x`.
\* With Buggy = TRUE a racing pair only ever shows up on such shapes (TriggerSound, checked by TLC),
\* and every such shape has an interleaving with a racing pair (checked on the emitted vectors).
OpOf(g) == IF g = 0 THEN shape.mop ELSE shape.jobs[g].op
Unordered(g, h) == IF g = 0 THEN shape.mpos = "during" ELSE TRUE
Trigger == \E g, h \in 0..N : g < h /\ Unordered(g, h) /\ OpOf(g).cls = "arr" /\ OpOf(h).cls = "arr"
                               /\ (OpOf(g).mode = "wip" \/ OpOf(h).mode = "wip")
TriggerSound == raced => Trigger

\* ---------------------------------------------------------------- emission
\* where a job's standard output goes: the stdout of the shell for & , >( ) and an API copy; the
\* pipe for a pipeline's left side and the FIFO for <( ) (nobody reads them in these programs)
OutVisible(k) == k \in {"bg", "procout", "api"}
\* main's operation runs with its stdout redirected into the FIFO when it is the command of `> >( )`
MainOutVisible == ~(Family = "share" /\ shape.jobs[1].kind = "procout" /\ shape.mpos = "during")
Outs == (IF shape.mop.cls = "out" /\ MainOutVisible THEN 1 ELSE 0)
        + Cardinality({j \in 1..N : shape.jobs[j].op.cls = "out" /\ OutVisible(shape.jobs[j].kind)})
EmitVec == Terminal =>
  PrintT(<<"VEC", ToJson([family |-> Family,
      jobs |-> [j \in 1..N |-> [kind |-> shape.jobs[j].kind, op |-> shape.jobs[j].op.txt,
                                 cls |-> shape.jobs[j].op.cls, mode |-> shape.jobs[j].op.mode,
                                 st |-> shape.jobs[j].st]],
      mop |-> shape.mop.txt, mcls |-> shape.mop.cls, mmode |-> shape.mop.mode, mpos |-> shape.mpos,
      worder |-> shape.worder, hist |-> hist,
      waits |-> got,                         \* <<job (0 = all), status>> in the order main waits
      outs  |-> Outs,                        \* number of lines `o` that reach the program's stdout
      raced |-> raced, trigger |-> Trigger ])>>)
=============================================================================
