SPECIFICATION Spec
CONSTANT Files <- Files2
INVARIANTS NeverWrites
