SPECIFICATION Spec
CONSTANTS
  Fams = {"rem", "case", "at", "ind", "names", "plain", "len"}
  MaxPat = 2
  Wide = FALSE
INVARIANTS Inv
