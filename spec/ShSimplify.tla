---------------------------- MODULE ShSimplify ----------------------------
(* C04: syntax.Simplify preserves behaviour.

   Simp(t, dv) is the contract of syntax.Simplify on abstract trees (the shape of ShInterp's trees):
   one top-down pass applying the DOCUMENTED rewrites
       Remove clearly useless parentheses       $(( (expr) ))
       Remove dollars from vars in exprs        (($var))
       Remove duplicate subshells               $( (stmts) )
       Remove redundant quotes                  [[ "$var" == str ]]
       Merge negations with unary operators     [[ ! -n $var ]]
       Use single quotes to shorten literals    "\$foo"
   with the exceptions the implementation documents in its comments (indices are never inlined,
   `a[i]` vs `a[$i]` differ for associative arrays; only simple named parameters are inlined; the
   right-hand side of == != =~ keeps its quotes) and, where the documentation is silent, the sites
   are pinned to what is observed (operands of unary arithmetic operators are left alone; only the
   leading double-quoted parts of a word are rewritten; `=` becomes `==`) -- those pins are a
   regression oracle, not a correctness claim.  What makes the contract a contract is checked by TLC
   on every generated program:  Meaning(Simp(p)) = Meaning(p)  with ShInterp's evaluator (SimpSound),
   Simp(Simp(p)) = Simp(p) (Idempotent), and the rewrites that would be
   unsound are NOT part of Simp: they are the named deviations of the code (set dv):
     Dev_SimpDollarDq         $"a\\b" becomes $'a\b' (the $ is kept, so the text is now ANSI-C quoted)
     Dev_SimpQuoteInDq        "${i:-"\$x"}" becomes "${i:-'$x'}": inside double quotes ' is literal
     Dev_SimpInlineWritten    $(( x++ - $x )) becomes $(( x++ - x )): bash substitutes $x before evaluating
   and one harmless one: the code looks at each negation once, so [[ ! ! ! -n $x ]], [[ ! ! ( a ) ]] and
   [[ ! a = b ]] need a second Simplify to reach what the contract gives at once (Dev_SimpOnePass).
   TLC reports for each program whether a deviation changes the meaning IN THE MODEL (field `unsound`
   of the vector), which is how these were found before any code ran.  (A third candidate, (( $x = 1 )) becoming
   (( x = 1 )), cannot arise: the parser rejects `$x =` inside arithmetic.) *)
EXTENDS ShInterp

SimpDevs == {"Dev_SimpDollarDq", "Dev_SimpQuoteInDq", "Dev_SimpOnePass", "Dev_SimpInlineWritten"}
AssignOps == {"=", "+=", "-=", "*="}
NameChars == {"x", "y", "z", "i", "l", "a"}

------------------------------------------------------------------------
(* The contract *)
RECURSIVE RmParA(_)
RmParA(e) == IF e.k = "ParenArithm" THEN RmParA(e.X) ELSE e
SimpleParam(pe) == pe.k = "ParamExp" /\ (DOMAIN pe) \subseteq {"k", "Param", "Short"} /\ pe.Param.Value \in NameChars
\* $v may lose its $ only if the expression does not assign to v: bash substitutes $v before it evaluates
\* anything, so in  x++ - $x  the $x is the OLD value while  x++ - x  reads the new one.  W = the names the
\* whole expression writes.  The code inlines regardless (Dev_SimpInlineWritten).
InlineA(e, W) == IF e.k = "Word" /\ Len(e.Parts) = 1 /\ SimpleParam(e.Parts[1]) /\ e.Parts[1].Param.Value \notin W
                 THEN Wd(<<Lit(<<e.Parts[1].Param.Value>>)>>) ELSE e
RECURSIVE AWrites(_)
AWrites(e) ==
  CASE e.k = "Word" -> {}
    [] e.k = "BinaryArithm" ->
         (IF e.Op \in AssignOps /\ e.X.k = "Word" /\ Len(e.X.Parts) = 1 /\ e.X.Parts[1].k = "Lit" /\ Len(e.X.Parts[1].Value) = 1
          THEN {e.X.Parts[1].Value[1]} ELSE {}) \cup AWrites(e.X) \cup AWrites(e.Y)
    [] e.k = "UnaryArithm" ->
         (IF e.Op \in {"++", "--"} /\ e.X.k = "Word" /\ Len(e.X.Parts) = 1 /\ e.X.Parts[1].k = "Lit" /\ Len(e.X.Parts[1].Value) = 1
          THEN {e.X.Parts[1].Value[1]} ELSE {}) \cup AWrites(e.X)
    [] OTHER -> AWrites(e.X)
WSet(e, dv) == IF "Dev_SimpInlineWritten" \in dv THEN {} ELSE AWrites(e)

\* the literal of "..." as it is written between single quotes: [ok, v]; ok = every backslash quotes
\* one of $ " \ ` and there is no single quote
RECURSIVE Unesc(_)
Unesc(v) ==
  IF v = <<>> THEN [ok |-> TRUE, v |-> <<>>]
  ELSE IF Head(v) = "'" THEN [ok |-> FALSE, v |-> <<>>]
  ELSE IF Head(v) = "\\" THEN
       IF Len(v) >= 2 /\ v[2] \in {"$", "\"", "\\", "`"}
       THEN LET r == Unesc(SubSeq(v, 3, Len(v))) IN [ok |-> r.ok, v |-> <<v[2]>> \o r.v]
       ELSE [ok |-> FALSE, v |-> <<>>]
  ELSE LET r == Unesc(Tail(v)) IN [ok |-> r.ok, v |-> <<Head(v)>> \o r.v]

RECURSIVE SW(_, _, _), SParts(_, _, _, _), SPart(_, _, _), SA(_, _, _), ST(_, _), SStmt(_, _), SStmts(_, _), SCmd(_, _)

TopA(e, dv) == LET W == WSet(e, dv) IN SA(InlineA(RmParA(e), W), dv, W)       \* $(( )), (( )), slice bounds
\* indices: parentheses only at the top -- but operands of binary operators and parenthesised
\* expressions INSIDE an index are inlined like anywhere else
IdxA(e, dv) == SA(RmParA(e), dv, WSet(e, dv))

SA(e, dv, W) ==
  CASE e.k = "Word" -> SW(e, dv, FALSE)
    [] e.k = "ParenArithm" -> [e EXCEPT !.X = SA(InlineA(RmParA(e.X), W), dv, W)]
    [] e.k = "BinaryArithm" ->
         \* (the parser refuses `$x = 1`, so the left operand of an assignment is always a name already)
         [e EXCEPT !.X = SA(InlineA(e.X, W), dv, W), !.Y = SA(InlineA(e.Y, W), dv, W)]
    [] e.k = "UnaryArithm" -> [e EXCEPT !.X = SA(e.X, dv, W)]

\* leading double-quoted literal parts of a word; i = next part to look at
SParts(ps, i, dv, indq) ==
  IF i > Len(ps) THEN ps
  ELSE LET p == ps[i] IN
       IF ~(p.k = "DblQuoted" /\ Has(p, "Parts") /\ Len(p.Parts) = 1 /\ p.Parts[1].k = "Lit") THEN ps
       ELSE LET u == Unesc(p.Parts[1].Value)
                allowed == (~Has(p, "Dollar") \/ "Dev_SimpDollarDq" \in dv) /\ (~indq \/ "Dev_SimpQuoteInDq" \in dv) IN
            IF ~u.ok \/ ~allowed THEN SParts(ps, i + 1, dv, indq)
            ELSE IF u.v = p.Parts[1].Value THEN ps
            ELSE SParts([ps EXCEPT ![i] = [k |-> "SglQuoted", Value |-> u.v] @@ (IF Has(p, "Dollar") THEN "Dollar" :> TRUE ELSE <<>>)],
                        i + 1, dv, indq)

SW(w, dv, indq) ==
  LET ps == SParts(w.Parts, 1, dv, indq) IN
  [w EXCEPT !.Parts = [i \in 1..Len(ps) |-> SPart(ps[i], dv, indq)]]

RECURSIVE InlineSub(_)
InlineSub(ss) ==
  IF Len(ss) = 1 /\ (DOMAIN ss[1]) = {"k", "Cmd"} /\ ss[1].Cmd.k = "Subshell" /\ Has(ss[1].Cmd, "Stmts")
  THEN InlineSub(ss[1].Cmd.Stmts) ELSE ss

SPart(p, dv, indq) ==
  CASE p.k \in {"Lit", "SglQuoted"} -> p
    [] p.k = "DblQuoted" -> IF Has(p, "Parts") THEN [p EXCEPT !.Parts = [i \in 1..Len(p.Parts) |-> SPart(p.Parts[i], dv, TRUE)]] ELSE p
    [] p.k = "ParamExp" ->
         LET p1 == IF Has(p, "Index") THEN [p EXCEPT !.Index = IdxA(p.Index, dv)] ELSE p
             p2 == IF Has(p, "Slice")
                   THEN [p1 EXCEPT !.Slice = IF Has(p.Slice, "Length")
                                            THEN [p.Slice EXCEPT !.Offset = TopA(p.Slice.Offset, dv), !.Length = TopA(p.Slice.Length, dv)]
                                            ELSE [p.Slice EXCEPT !.Offset = TopA(p.Slice.Offset, dv)]]
                   ELSE p1 IN
         IF Has(p, "Exp") /\ Has(p.Exp, "Word") THEN [p2 EXCEPT !.Exp = [p.Exp EXCEPT !.Word = SW(p.Exp.Word, dv, indq)]] ELSE p2
    [] p.k = "CmdSubst" -> IF Has(p, "Stmts") THEN [p EXCEPT !.Stmts = SStmts(InlineSub(p.Stmts), dv)] ELSE p
    [] p.k = "ArithmExp" -> [p EXCEPT !.X = TopA(p.X, dv)]

\* ---- [[ ]]
RECURSIVE RmParT(_)
RmParT(x) == IF x.k = "ParenTest" THEN RmParT(x.X) ELSE x
\* one step of merging a negation into what it negates.  one = the code's single look (Dev_SimpOnePass),
\* which also does not know yet that `=` is going to be `==`
RmNeg(x, one) ==
  IF x.k = "UnaryTest" /\ x.Op = "!" THEN
       LET y == x.X IN
       IF y.k = "UnaryTest" /\ y.Op = "-n" THEN [y EXCEPT !.Op = "-z"]
       ELSE IF y.k = "UnaryTest" /\ y.Op = "-z" THEN [y EXCEPT !.Op = "-n"]
       ELSE IF y.k = "UnaryTest" /\ y.Op = "!" THEN y.X
       ELSE IF y.k = "BinaryTest" /\ (y.Op = "==" \/ (y.Op = "=" /\ ~one)) THEN [y EXCEPT !.Op = "!="]
       ELSE IF y.k = "BinaryTest" /\ y.Op = "!=" THEN [y EXCEPT !.Op = "=="]
       ELSE x
  ELSE x
\* the contract merges negations (and, at the top of [[ ]] and of ( ), drops parentheses) until nothing changes
RECURSIVE FixN(_, _), FixT(_, _)
FixN(x, one) == LET y == RmNeg(x, one) IN IF one \/ y = x THEN y ELSE FixN(y, one)
FixT(x, one) == LET y == RmNeg(RmParT(x), one) IN IF one \/ y = x THEN y ELSE FixT(y, one)
Unq(x) == IF x.k = "Word" /\ Len(x.Parts) = 1 /\ x.Parts[1].k = "DblQuoted" /\ Has(x.Parts[1], "Parts")
             /\ Len(x.Parts[1].Parts) = 1 /\ x.Parts[1].Parts[1].k = "ParamExp"
          THEN Wd(x.Parts[1].Parts) ELSE x
ST(x, dv) ==
  LET one == "Dev_SimpOnePass" \in dv IN
  CASE x.k = "Word" -> SW(x, dv, FALSE)
    [] x.k = "ParenTest" -> [x EXCEPT !.X = ST(FixT(x.X, one), dv)]
    [] x.k = "UnaryTest" -> [x EXCEPT !.X = ST(Unq(x.X), dv)]
    [] x.k = "BinaryTest" ->
         LET op == IF x.Op = "=" THEN "==" ELSE x.Op
             y1 == IF op \in {"==", "!=", "=~"} THEN x.Y ELSE Unq(x.Y) IN
         [x EXCEPT !.Op = op, !.X = ST(FixN(Unq(x.X), one), dv), !.Y = ST(FixN(y1, one), dv)]
TopT(x, dv) == ST(FixT(x, "Dev_SimpOnePass" \in dv), dv)

\* ---- statements
SAssign(a, dv) ==
  LET a1 == IF Has(a, "Index") THEN [a EXCEPT !.Index = IdxA(a.Index, dv)] ELSE a IN
  IF Has(a, "Value") THEN [a1 EXCEPT !.Value = SW(a.Value, dv, FALSE)]
  ELSE IF Has(a, "Array") /\ Has(a.Array, "Elems")
  THEN [a1 EXCEPT !.Array = [a.Array EXCEPT !.Elems = [i \in 1..Len(a.Array.Elems) |->
                                 [a.Array.Elems[i] EXCEPT !.Value = SW(a.Array.Elems[i].Value, dv, FALSE)]]]]
  ELSE a1
SCmd(c, dv) ==
  CASE c.k = "CallExpr" ->
         LET c1 == IF Has(c, "Assigns") THEN [c EXCEPT !.Assigns = [i \in 1..Len(c.Assigns) |-> SAssign(c.Assigns[i], dv)]] ELSE c IN
         IF Has(c, "Args") THEN [c1 EXCEPT !.Args = [i \in 1..Len(c.Args) |-> SW(c.Args[i], dv, FALSE)]] ELSE c1
    [] c.k = "Subshell" -> IF Has(c, "Stmts") THEN [c EXCEPT !.Stmts = SStmts(InlineSub(c.Stmts), dv)] ELSE c
    [] c.k = "Block" -> [c EXCEPT !.Stmts = SStmts(c.Stmts, dv)]
    [] c.k = "BinaryCmd" -> [c EXCEPT !.X = SStmt(c.X, dv), !.Y = SStmt(c.Y, dv)]
    [] c.k = "TestClause" -> [c EXCEPT !.X = TopT(c.X, dv)]
    [] c.k = "ArithmCmd" -> [c EXCEPT !.X = TopA(c.X, dv)]
SRedir(r, dv) == LET r1 == [r EXCEPT !.Word = SW(r.Word, dv, FALSE)] IN
                 IF Has(r, "Hdoc") THEN [r1 EXCEPT !.Hdoc = SW(r.Hdoc, dv, TRUE)] ELSE r1
SStmt(st, dv) ==
  LET s1 == [st EXCEPT !.Cmd = SCmd(st.Cmd, dv)] IN
  IF Has(st, "Redirs") THEN [s1 EXCEPT !.Redirs = [i \in 1..Len(st.Redirs) |-> SRedir(st.Redirs[i], dv)]] ELSE s1
SStmts(ss, dv) == [i \in 1..Len(ss) |-> SStmt(ss[i], dv)]

Simp(t, dv) == [t EXCEPT !.Stmts = SStmts(t.Stmts, dv)]

------------------------------------------------------------------------
(* The generator: programs rich in what Simplify rewrites.
   x=3; y=-2; z=abcdef; l=.; a=(4 5 6 7); set -- 5; ITEM; echo "end $? $x"  *)
RECURSIVE GAr(_, _), GTest(_, _)

APrec(op) == CASE op = "," -> 0 [] op \in {"=", "+=", "-=", "*="} -> 1 [] op \in {"?", ":"} -> 2 [] op = "==" -> 4 [] op = "<" -> 5
               [] op \in {"+", "-"} -> 6 [] op = "*" -> 7 [] op = "**" -> 8
NArLeaf == 8
NAr == 24
GAr(p, d) ==
  LET c == IF d = 0 THEN Ch(p) % NArLeaf ELSE Ch(p)
      nd == Nd(p, IF d = 0 THEN NArLeaf ELSE NAr)
      leaf(t, r) == Res(p + 1, nd, t, r)
      \* the operand is parenthesised where the grammar needs it (those parentheses are not useless)
      Par(a, need) == IF need THEN [t |-> [k |-> "ParenArithm", X |-> a.t], r |-> <<"(">> \o a.r \o <<")">>] ELSE [t |-> a.t, r |-> a.r]
      IsBin(t) == t.k = "BinaryArithm"
      un(op, post) == LET a0 == GAr(p + 1, d - 1)
                          a == Par(a0, IsBin(a0.t)) IN
                      Res(a0.pos, Need2(nd, a0.need), [k |-> "UnaryArithm", Op |-> op, X |-> a.t] @@ (IF post THEN "Post" :> TRUE ELSE <<>>),
                          IF post THEN a.r \o <<op>> ELSE <<op, " ">> \o a.r)
      bin(op) == LET a0 == GAr(p + 1, d - 1)
                     a == Par(a0, IsBin(a0.t) /\ APrec(a0.t.Op) < APrec(op))
                     b == GAr(a0.pos, 0) IN
                 \* + and - are written with blanks: `x-$y` with y=-2 is the TEXT x--2 for bash (a post-decrement and a
                 \* syntax error), which is about how the text is lexed, not about what Simplify does
                 Res(b.pos, Need2(nd, Need2(a0.need, b.need)), BinA(op, a.t, b.t),
                     a.r \o (IF op \in {"+", "-"} THEN <<" ", op, " ">> ELSE <<op>>) \o b.r) IN
  CASE c = 0 -> leaf(Wd(<<PES("x")>>), <<"$x">>)
    [] c = 1 -> leaf(LW(<<"x">>), <<"x">>)
    [] c = 2 -> leaf(LW(<<"2">>), <<"2">>)
    [] c = 3 -> leaf(Wd(<<PE("x")>>), <<"${x}">>)
    [] c = 4 -> leaf(Wd(<<PES("y")>>), <<"$y">>)
    [] c = 5 -> leaf(Wd(<<PE("a") @@ ("Index" :> LW(<<"1">>))>>), <<"${a[1]}">>)
    [] c = 6 -> leaf(Wd(<<PE("x") @@ ("Length" :> TRUE)>>), <<"${#x}">>)
    [] c = 7 -> leaf(Wd(<<PES("1")>>), <<"$1">>)
    [] c = 8 -> LET a == GAr(p + 1, d - 1) IN
                Res(a.pos, Need2(nd, a.need), [k |-> "ParenArithm", X |-> a.t], <<"(">> \o a.r \o <<")">>)
    [] c = 9 -> LET a == GAr(p + 1, d - 1) IN
                Res(a.pos, Need2(nd, a.need), [k |-> "ParenArithm", X |-> [k |-> "ParenArithm", X |-> a.t]],
                    <<"(", "(">> \o a.r \o <<")", ")">>)
    [] c = 10 -> bin("+")
    [] c = 11 -> bin("*")
    [] c = 12 -> LET a0 == GAr(p + 1, d - 1)
                     a == Par(a0, a0.t.k \in {"BinaryArithm", "UnaryArithm"}) IN
                 Res(a0.pos, Need2(nd, a0.need), BinA("**", a.t, LW(<<"2">>)), a.r \o <<"**", "2">>)
    [] c = 13 -> un("-", FALSE)
    [] c = 14 -> un("!", FALSE)
    [] c = 15 -> bin("<")
    [] c = 16 -> LET a0 == GAr(p + 1, d - 1)
                     a == Par(a0, IsBin(a0.t) /\ APrec(a0.t.Op) <= 2)
                     b == GAr(a0.pos, 0) IN
                 Res(b.pos, Need2(nd, Need2(a0.need, b.need)), BinA("?", a.t, BinA(":", b.t, LW(<<"2">>))),
                     a.r \o <<"?">> \o b.r \o <<":", "2">>)
    [] c = 17 -> bin(",")
    [] c = 18 -> LET a0 == GAr(p + 1, d - 1)
                     a == Par(a0, IsBin(a0.t) /\ a0.t.Op = ",") IN
                 Res(a0.pos, Need2(nd, a0.need), BinA("=", LW(<<"x">>), a.t), <<"x", "=">> \o a.r)
    [] c = 19 -> LET a == GAr(p + 1, 0) IN
                 Res(a.pos, Need2(nd, a.need), BinA("+=", LW(<<"x">>), a.t), <<"x", "+=">> \o a.r)
    [] c = 20 -> LET a == GAr(p + 1, 0) IN
                 Res(a.pos, Need2(nd, a.need), BinA("-=", LW(<<"x">>), a.t), <<"x", "-=">> \o a.r)
    [] c = 21 -> leaf([k |-> "UnaryArithm", Op |-> "++", Post |-> TRUE, X |-> LW(<<"x">>)], <<"x", "++">>)
    [] c = 22 -> bin("-")
    [] c = 23 -> bin("==")

\* [[ ]] expressions
DQP(n) == Wd(<<DQ(<<PES(n)>>)>>)          \* "$n"
NTestLeaf == 15
NTest == 21
GTest(p, d) ==
  LET c == IF d = 0 THEN Ch(p) % NTestLeaf ELSE Ch(p)
      nd == Nd(p, IF d = 0 THEN NTestLeaf ELSE NTest)
      leaf(t, r) == Res(p + 1, nd, t, r)
      B(op, x, y) == [k |-> "BinaryTest", Op |-> op, X |-> x, Y |-> y]
      U(op, x) == [k |-> "UnaryTest", Op |-> op, X |-> x]
      IsLogic(t) == t.k = "BinaryTest" /\ t.Op \in {"&&", "||"}
      TPar(a, need) == IF need THEN [t |-> [k |-> "ParenTest", X |-> a.t], r |-> <<"(", SP>> \o a.r \o <<SP, ")">>] ELSE [t |-> a.t, r |-> a.r] IN
  CASE c = 0 -> leaf(B("==", DQP("x"), LW(<<"3">>)), <<"\"$x\"", SP, "==", SP, "3">>)
    [] c = 1 -> leaf(B("==", LW(<<"3">>), DQP("x")), <<"3", SP, "==", SP, "\"$x\"">>)
    [] c = 2 -> leaf(B("=", DQP("x"), DQP("y")), <<"\"$x\"", SP, "=", SP, "\"$y\"">>)
    [] c = 3 -> leaf(B("!=", DQP("x"), LW(<<"4">>)), <<"\"$x\"", SP, "!=", SP, "4">>)
    [] c = 4 -> leaf(B("-eq", DQP("x"), DQP("x")), <<"\"$x\"", SP, "-eq", SP, "\"$x\"">>)
    [] c = 5 -> leaf(U("-n", DQP("x")), <<"-n", SP, "\"$x\"">>)
    [] c = 6 -> leaf(U("-z", DQP("i")), <<"-z", SP, "\"$i\"">>)
    [] c = 7 -> leaf(DQP("x"), <<"\"$x\"">>)
    [] c = 8 -> leaf(B("==", Wd(<<DQ(<<PES("x"), PES("y")>>)>>), LW(<<"3", "-", "2">>)), <<"\"$x$y\"", SP, "==", SP, "3-2">>)
    [] c = 9 -> leaf(B("=~", LW(<<"b">>), DQP("l")), <<"b", SP, "=~", SP, "\"$l\"">>)
    [] c = 10 -> leaf(B("==", Wd(<<DQ(<<PE("x")>>)>>), LW(<<"3">>)), <<"\"${x}\"", SP, "==", SP, "3">>)
    [] c = 11 -> leaf(B("==", Wd(<<DQ(<<PE("i") @@ ("Exp" :> ExpOp(":-", LW(<<"d">>)))>>)>>), LW(<<"d">>)),
                      <<"\"${i:-d}\"", SP, "==", SP, "d">>)
    [] c = 12 -> leaf(B("==", LW(<<"z", "b">>), Wd(<<DQ(<<Lit(<<"z", "*">>)>>)>>)), <<"zb", SP, "==", SP, "\"z*\"">>)
    [] c = 13 -> leaf(B("==", LW(<<"a">>), LW(<<"b">>)), <<"a", SP, "==", SP, "b">>)
    [] c = 14 -> leaf(B("=", LW(<<"a">>), LW(<<"b">>)), <<"a", SP, "=", SP, "b">>)
    [] c = 15 -> LET a0 == GTest(p + 1, d - 1)
                     a == TPar(a0, IsLogic(a0.t)) IN
                 Res(a0.pos, Need2(nd, a0.need), U("!", a.t), <<"!", SP>> \o a.r)
    [] c = 16 -> LET a == GTest(p + 1, d - 1) IN
                 Res(a.pos, Need2(nd, a.need), [k |-> "ParenTest", X |-> a.t], <<"(", SP>> \o a.r \o <<SP, ")">>)
    [] c = 17 -> LET a == GTest(p + 1, d - 1) IN
                 Res(a.pos, Need2(nd, a.need), [k |-> "ParenTest", X |-> [k |-> "ParenTest", X |-> a.t]],
                     <<"(", SP, "(", SP>> \o a.r \o <<SP, ")", SP, ")">>)
    [] c \in {18, 19} ->
                 \* the left operand is parenthesised when it starts with `!` (see Dev_TestBangPrecedence in ShInterp)
                 LET a == GTest(p + 1, d - 1)
                     b == GTest(a.pos, 0)
                     op == IF c = 18 THEN "&&" ELSE "||"
                     neg == (a.t.k = "UnaryTest" /\ a.t.Op = "!") \/ (c = 18 /\ a.t.k = "BinaryTest" /\ a.t.Op = "||")
                     at == IF neg THEN [k |-> "ParenTest", X |-> a.t] ELSE a.t
                     ar == IF neg THEN <<"(", SP>> \o a.r \o <<SP, ")">> ELSE a.r IN
                 Res(b.pos, Need2(nd, Need2(a.need, b.need)), B(op, at, b.t), ar \o <<SP, op, SP>> \o b.r)
    [] c = 20 -> LET a0 == GTest(p + 1, d - 1)
                     a == TPar(a0, IsLogic(a0.t)) IN
                 Res(a0.pos, Need2(nd, a0.need), U("!", U("!", a.t)), <<"!", SP, "!", SP>> \o a.r)

\* words that the quote rewrite looks at
NQ == 22
BS == "\\"
GQuote(c) ==
  LET dq(v) == DQ(<<Lit(v)>>)
      ddq(v) == DQ(<<Lit(v)>>) @@ ("Dollar" :> TRUE) IN
  CASE c = 0 -> [t |-> Wd(<<dq(<<BS, "$", "f">>)>>), r |-> <<"\"\\$f\"">>]
    [] c = 1 -> [t |-> Wd(<<dq(<<"a", BS, "\"", "b">>)>>), r |-> <<"\"a\\\"b\"">>]
    [] c = 2 -> [t |-> Wd(<<dq(<<"a", BS, BS, "b">>)>>), r |-> <<"\"a\\\\b\"">>]
    [] c = 3 -> [t |-> Wd(<<dq(<<"a", BS, "`", "b">>)>>), r |-> <<"\"a\\`b\"">>]
    [] c = 4 -> [t |-> Wd(<<dq(<<BS, "a">>)>>), r |-> <<"\"\\a\"">>]
    [] c = 5 -> [t |-> Wd(<<dq(<<"i", "'", "s", " ", BS, "$", "x">>)>>), r |-> <<"\"i's \\$x\"">>]
    [] c = 6 -> [t |-> Wd(<<dq(<<"p", "l">>)>>), r |-> <<"\"pl\"">>]
    [] c = 7 -> [t |-> Wd(<<dq(<<BS, "$", "x">>), Lit(<<"y">>)>>), r |-> <<"\"\\$x\"", "y">>]
    [] c = 8 -> [t |-> Wd(<<Lit(<<"y">>), dq(<<BS, "$", "x">>)>>), r |-> <<"y", "\"\\$x\"">>]
    [] c = 9 -> [t |-> Wd(<<ddq(<<BS, "$", "f">>)>>), r |-> <<"$\"\\$f\"">>]
    [] c = 10 -> [t |-> Wd(<<ddq(<<"a", BS, BS, "b">>)>>), r |-> <<"$\"a\\\\b\"">>]
    [] c = 11 -> [t |-> Wd(<<ddq(<<"a", BS, "\"", "b">>)>>), r |-> <<"$\"a\\\"b\"">>]
    [] c = 12 -> [t |-> Wd(<<ddq(<<"p", "l">>)>>), r |-> <<"$\"pl\"">>]
    [] c = 13 -> [t |-> Wd(<<DQ(<<PE("i") @@ ("Exp" :> ExpOp(":-", Wd(<<dq(<<BS, "$", "x">>)>>)))>>)>>), r |-> <<"\"${i:-\"\\$x\"}\"">>]
    [] c = 14 -> [t |-> Wd(<<PE("i") @@ ("Exp" :> ExpOp(":-", Wd(<<dq(<<BS, "$", "x">>)>>)))>>), r |-> <<"${i:-\"\\$x\"}">>]
    [] c = 15 -> [t |-> Wd(<<dq(<<BS, BS>>)>>), r |-> <<"\"\\\\\"">>]
    [] c = 16 -> [t |-> Wd(<<ddq(<<BS, BS>>)>>), r |-> <<"$\"\\\\\"">>]
    [] c = 17 -> [t |-> Wd(<<dq(<<"a", BS, "$", "b", BS, "\"", "c", BS, BS, "d">>)>>), r |-> <<"\"a\\$b\\\"c\\\\d\"">>]
    [] c = 18 -> [t |-> Wd(<<dq(<<BS, BS, "n">>)>>), r |-> <<"\"\\\\n\"">>]
    [] c = 19 -> [t |-> Wd(<<dq(<<"p">>), dq(<<BS, "$", "x">>)>>), r |-> <<"\"p\"", "\"\\$x\"">>]
    [] c = 20 -> [t |-> Wd(<<dq(<<"i", "'">>), dq(<<BS, "$", "x">>)>>), r |-> <<"\"i'\"", "\"\\$x\"">>]
    [] c = 21 -> [t |-> Wd(<<ddq(<<"a", BS, BS, "t">>)>>), r |-> <<"$\"a\\\\t\"">>]

\* inner statement of the subshell items
NInner == 4
GInner(c) ==
  CASE c = 0 -> [t |-> SCall(<<LW(W_echo), LW(<<"s">>)>>), r |-> <<"echo", SP, "s">>]
    [] c = 1 -> [t |-> SCall(<<LW(W_exit), LW(<<"3">>)>>), r |-> <<"exit", SP, "3">>]
    [] c = 2 -> [t |-> SAsg("x", LW(<<"9">>)), r |-> <<"x=9">>]
    [] c = 3 -> [t |-> SCall(<<LW(W_false)>>), r |-> <<"false">>]

Sub(ss) == [k |-> "Subshell", Stmts |-> ss]
EchoV(pre, nm) == SCall(<<LW(W_echo), Wd(<<DQ(<<Lit(pre), PES(nm)>>)>>)>>)
NItem == 17
\* an item = a list of statements  [t, r, pos, need]
GItem(c, p) ==
  LET ar == GAr(p, MaxDepth)
      ts == GTest(p, MaxDepth)
      q == GQuote(Ch(p) % NQ)
      inn == GInner(Ch(p) % NInner)
      I(t, r, x) == [t |-> t, r |-> r, pos |-> x.pos, need |-> x.need]
      Iq(t, r) == [t |-> t, r |-> r, pos |-> p + 1, need |-> Nd(p, NQ)]
      Ii(t, r) == [t |-> t, r |-> r, pos |-> p + 1, need |-> Nd(p, NInner)]
      after == EchoV(<<"a">>, "?") IN
  CASE c = 0 -> I(<<SCall(<<LW(W_echo), Wd(<<[k |-> "ArithmExp", X |-> ar.t]>>)>>)>>, <<"echo", SP, "$((">> \o ar.r \o <<"))", SEP>>, ar)
    [] c = 1 -> I(<<Stm([k |-> "ArithmCmd", X |-> ar.t]), EchoV(<<"s">>, "?")>>,
                  <<"((">> \o ar.r \o <<"))", SEP, "echo", SP, "\"s$?\"", SEP>>, ar)
    [] c = 2 -> I(<<SCall(<<LW(W_echo), Wd(<<PE("a") @@ ("Index" :> ar.t)>>)>>)>>, <<"echo", SP, "${a[">> \o ar.r \o <<"]}", SEP>>, ar)
    [] c = 3 -> I(<<Stm([k |-> "CallExpr", Assigns |-> <<[k |-> "Assign", Name |-> Nm("a"), Index |-> ar.t, Value |-> LW(<<"v">>)]>>]),
                    SCall(<<LW(W_echo), Wd(<<DQ(<<PE("a") @@ ("Index" :> LW(<<"@">>))>>)>>)>>)>>,
                  <<"a[">> \o ar.r \o <<"]=v", SEP, "echo", SP, "\"${a[@]}\"", SEP>>, ar)
    [] c = 4 -> I(<<SCall(<<LW(W_echo), Wd(<<PE("z") @@ ("Slice" :> [k |-> "Slice", Offset |-> ar.t, Length |-> LW(<<"2">>)])>>)>>)>>,
                  <<"echo", SP, "${z:">> \o (IF Head(ar.r) = "-" THEN <<" ">> ELSE <<>>) \o ar.r \o <<":2}", SEP>>, ar)
    [] c = 5 -> I(<<SCall(<<LW(W_echo), Wd(<<PE("z") @@ ("Slice" :> [k |-> "Slice", Offset |-> LW(<<"1">>), Length |-> ar.t])>>)>>)>>,
                  <<"echo", SP, "${z:1:">> \o ar.r \o <<"}", SEP>>, ar)
    [] c = 6 -> I(<<Stm([k |-> "TestClause", X |-> ts.t]), EchoV(<<"t">>, "?")>>,
                  <<"[[", SP>> \o ts.r \o <<SP, "]]", SEP, "echo", SP, "\"t$?\"", SEP>>, ts)
    [] c = 7 -> Iq(<<SCall(<<LW(W_echo), q.t>>)>>, <<"echo", SP>> \o q.r \o <<SEP>>)
    [] c = 8 -> Iq(<<SAsg("l", q.t), SCall(<<LW(W_echo), Wd(<<DQ(<<PES("l")>>)>>)>>)>>, <<"l=">> \o q.r \o <<SEP, "echo", SP, "\"$l\"", SEP>>)
    [] c = 9 -> Ii(<<Stm(Sub(<<Stm(Sub(<<inn.t>>))>>)), after>>, <<"(", " ", "(">> \o inn.r \o <<SEP, ")", SEP, ")", SEP, "echo", SP, "\"a$?\"", SEP>>)
    [] c = 10 -> Ii(<<Stm(Sub(<<Stm(Sub(<<Stm(Sub(<<inn.t>>))>>))>>)), after>>,
                    <<"(", " ", "(", " ", "(">> \o inn.r \o <<SEP, ")", SEP, ")", SEP, ")", SEP, "echo", SP, "\"a$?\"", SEP>>)
    [] c = 11 -> Ii(<<SCall(<<LW(W_echo), Wd(<<DQ(<<Lit(<<"<">>), CS(<<Stm(Sub(<<inn.t>>))>>), Lit(<<">">>)>>)>>)>>), after>>,
                    <<"echo", SP, "\"<$(", " ", "(">> \o inn.r \o <<SEP, ")", SEP, ")>\"", SEP, "echo", SP, "\"a$?\"", SEP>>)
    [] c = 12 -> Ii(<<Stm(Sub(<<Stm(Sub(<<inn.t>>)) @@ ("Negated" :> TRUE)>>)), after>>,
                    <<"(", "!", SP, "(">> \o inn.r \o <<SEP, ")", SEP, ")", SEP, "echo", SP, "\"a$?\"", SEP>>)
    [] c = 13 -> Ii(<<Stm(Sub(<<Stm(Sub(<<SCall(<<LW(W_read), LW(<<"l">>)>>), EchoV(<<"r">>, "l"), inn.t>>)) @@
                                 ("Redirs" :> <<[k |-> "Redirect", Op |-> "<<<", Word |-> LW(<<"w">>)]>>)>>)), after>>,
                    <<"(", " ", "(", "read", SP, "l", SEP, "echo", SP, "\"r$l\"", SEP>> \o inn.r \o <<SEP, ")", SP, "<<<", "w", SEP, ")", SEP,
                      "echo", SP, "\"a$?\"", SEP>>)
    [] c = 14 -> Ii(<<Stm(Sub(<<Stm(Sub(<<inn.t>>)) @@ ("Background" :> TRUE), SCall(<<LW(W_wait)>>)>>)), after>>,
                    <<"(", " ", "(">> \o inn.r \o <<SEP, ")", SP, "&", "<BGSEP>", "wait", SEP, ")", SEP, "echo", SP, "\"a$?\"", SEP>>)
    [] c = 15 -> Ii(<<Stm(Sub(<<Stm(Sub(<<inn.t>>)), SCall(<<LW(W_echo), LW(<<"t">>)>>)>>)), after>>,
                    <<"(", " ", "(">> \o inn.r \o <<SEP, ")", SEP, "echo", SP, "t", SEP, ")", SEP, "echo", SP, "\"a$?\"", SEP>>)
    [] c = 16 -> Ii(<<Stm(Sub(<<Stm(Blk(<<Stm(Sub(<<inn.t>>))>>))>>)), after>>,
                    <<"(", "{", SP, "(">> \o inn.r \o <<SEP, ")", SEP, "}", SEP, ")", SEP, "echo", SP, "\"a$?\"", SEP>>)

SPre ==
  [t |-> <<SAsg("x", LW(<<"3">>)), SAsg("y", LW(<<"-", "2">>)), SAsg("z", LW(<<"a", "b", "c", "d", "e", "f">>)), SAsg("l", LW(<<".">>)),
           Stm([k |-> "CallExpr", Assigns |-> <<[k |-> "Assign", Name |-> Nm("a"), Array |-> [k |-> "ArrayExpr", Elems |->
                  <<[k |-> "ArrayElem", Value |-> LW(<<"4">>)], [k |-> "ArrayElem", Value |-> LW(<<"5">>)],
                    [k |-> "ArrayElem", Value |-> LW(<<"6">>)], [k |-> "ArrayElem", Value |-> LW(<<"7">>)]>>]]>>]),
           SCall(<<LW(W_set), LW(<<"-", "-">>), LW(<<"5">>)>>)>>,
   r |-> <<"x=3", SEP, "y=-2", SEP, "z=abcdef", SEP, "l=.", SEP, "a=(", "4", SP, "5", SP, "6", SP, "7", ")", SEP, "set", SP, "--", SP, "5", SEP>>]

SDecode ==
  LET it == GItem(Ch(1) % NItem, 2)
      fin == SCall(<<LW(W_echo), Wd(<<DQ(<<Lit(<<"e", "n", "d", " ">>), PES("?"), Lit(<<" ">>), PES("x")>>)>>)>>) IN
  [t |-> [k |-> "File", Stmts |-> SPre.t \o it.t \o <<fin>>],
   r |-> SPre.r \o it.r \o <<"echo", SP, "\"end $? $x\"", SEP>>,
   need |-> IF Len(ch) = 0 THEN NItem ELSE it.need]

------------------------------------------------------------------------
SInit == ch = <<>>
SNext == /\ Len(ch) < MaxLen
         /\ LET dd == SDecode IN
            /\ dd.need > 0
            /\ \E c \in 0..(dd.need - 1) : ch' = Append(ch, c)
SSpec == SInit /\ [][SNext]_vars

Same(m1, m2) == m1.out = m2.out /\ m1.st = m2.st
SCheck ==
  LET dd == SDecode IN
  IF ~Canonical THEN TRUE
  ELSE LET t == dd.t
           s == Simp(t, {})
           m == Meaning(t, {})
           ms == Meaning(s, {})
           sd == Simp(t, Devs \cap SimpDevs)
           msd == IF sd = s THEN ms ELSE Meaning(sd, {})
           \* the same programs under the interpreter's known deviations (ShInterp): what interp prints
           idevs == Devs \ SimpDevs
           mi == IF idevs = {} THEN m ELSE Meaning(t, idevs)
           msi == IF idevs = {} THEN msd ELSE Meaning(sd, idevs) IN
       \* SimpSound: the contract preserves the meaning of every program the model defines
       /\ (m.bad = "" /\ ms.bad = "") => Same(m, ms)
       /\ (m.bad = "") => (ms.bad = "")
       \* Idempotent
       /\ Simp(s, {}) = s
       /\ Devs \subseteq (AllDevs \cup SimpDevs)
       /\ IF Len(ch) >= EmitAt \/ dd.need = 0
          THEN PrintT(<<"VEC", ToJson([ch |-> ch, r |-> dd.r, t |-> t, s |-> s, sd |-> sd, changed |-> s # t, dchanged |-> sd # t,
                                       sdtrig |-> IF sd = s THEN {} ELSE {d \in Devs \cap SimpDevs : Simp(t, {d}) # s},
                                       out |-> m.out, st |-> m.st, bad |-> m.bad,
                                       unsound |-> m.bad = "" /\ (msd.bad # "" \/ ~Same(m, msd)), sdbad |-> msd.bad,
                                       sdout |-> msd.out, sdst |-> msd.st,
                                       iout |-> mi.out, ist |-> mi.st, ibad |-> mi.bad,
                                       siout |-> msi.out, sist |-> msi.st, sibad |-> msi.bad])>>)
          ELSE TRUE
=========================================================================
