SPECIFICATION Spec
CONSTANTS
  MaxLen = 4
  IfsSet = {1,2,3,5,6,7,9}
  ModeSet = {"reply","n1","n2","n3","array"}
  AlphaN = 5
INVARIANTS Laws EmitInv
