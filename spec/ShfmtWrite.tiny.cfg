SPECIFICATION Spec
CONSTANTS InPlace = FALSE
  Scenarios <- TinyScenarios
  Names <- QuickNames
  FDs <- QuickFDs
CONSTRAINT LenBound
INVARIANTS TypeOK Atomic Durable Untouched NoTemps ExitOK EmitScn
