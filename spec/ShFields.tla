------------------------------ MODULE ShFields ------------------------------
(* C22: field splitting and quote removal (POSIX 2.6.5 / 2.6.7 as bash 5.2 implements them).

   Style F.  The state is an *input under construction*: a word (sequence of tokens), then an
   environment for it (IFS, the values of v and w, the positional parameters).  Every complete
   state is one test vector; the required result is the state function Fields(...).

   The contract is written the way the shell manual describes it, in two stages:
     1. Items(word, env): expansion + quote marking.  The word becomes a sequence of items:
        characters that are *splittable* (they come from an unquoted expansion) or not
        (literal / quoted), NUL marks (a quoted null string: '' "" "$empty"), and BRK marks
        (the boundary between two elements of "$@").
     2. Split(items, IFS): a delimiter is a maximal run of splittable IFS characters; a run of
        IFS white space only separates fields, every non-white-space IFS character in a run
        terminates a field (so adjacent ones create empty fields, a leading one opens an empty
        field, a trailing one does not).
   A second, independent definition SplitValue (recursive descent on one string, as in the POSIX
   text) is compared with stage 1+2 on every single-expansion word (law L_SingleVar).

   Known deviations of mvdan/sh are *named* here (set dv of deviation names); FieldsD(dv) is what
   the code is known to compute instead.  The engine accepts impl = FieldsD(dv) # FieldsD({})
   only under the known-finding key of exactly that deviation set. *)
EXTENDS Integers, Sequences, FiniteSets, TLC, Json, ShText, ShSplitCore

CONSTANTS
  MaxTok,      \* tokens per word (a general "..." group costs 2 + its content)
  MaxDqInner,  \* tokens inside a general "..." group
  MaxExp,      \* expansion tokens per word
  TokSet,      \* token menu of this tier
  IfsSet,      \* indices into IfsMenu used for menu-valued (family B) vectors
  ShapeSet,    \* indices into ShapeMenu for v
  WShapeSet,   \* indices into ShapeMenu for w (the second variable)
  MixShapeSet, \* indices into ShapeMenu for v when the word also uses the positional parameters
  MixParamSet, \* indices into ParamMenu in that case
  CSMaxLen,    \* words containing a command substitution have at most this many tokens
  SimMinTok,   \* 0 for exhaustive runs; in -simulate runs a word is closed only at this weight
  ParamSet,    \* indices into ParamMenu
  RawMaxTok,   \* words with one expansion of v and at most this many tokens get *raw* values
  MaxRaw,      \* length of raw values (family A), all strings over Alpha(ifs)
  MaxRawCS,    \* the same when the word contains a command substitution (bash forks for each)
  AlphaN       \* size of the raw alphabet (2..4)

VARIABLES toks, phase, ifsI, vv, ww, pp
vars == <<toks, phase, ifsI, vv, ww, pp>>

-----------------------------------------------------------------------------
(* Menus *)

\* IFS choices.  d1/d2/d3 are the characters used to instantiate value shapes and the raw
\* alphabet for this IFS: d1 is always an IFS character when there is one.
IfsMenu == <<
  [set |-> FALSE, val |-> <<>>,                 d1 |-> " ",      d2 |-> "NL",     d3 |-> ":"],
  [set |-> TRUE,  val |-> <<>>,                 d1 |-> " ",      d2 |-> ":",      d3 |-> "NL"],
  [set |-> TRUE,  val |-> <<" ">>,              d1 |-> " ",      d2 |-> "TAB",    d3 |-> ":"],
  [set |-> TRUE,  val |-> <<" ", "TAB", "NL">>, d1 |-> " ",      d2 |-> "TAB",    d3 |-> "NL"],
  [set |-> TRUE,  val |-> <<":">>,              d1 |-> ":",      d2 |-> " ",      d3 |-> "NL"],
  [set |-> TRUE,  val |-> <<":", " ">>,         d1 |-> ":",      d2 |-> " ",      d3 |-> "TAB"],
  [set |-> TRUE,  val |-> <<":", ":">>,         d1 |-> ":",      d2 |-> " ",      d3 |-> "x"],
  [set |-> TRUE,  val |-> <<"x">>,              d1 |-> "x",      d2 |-> " ",      d3 |-> ":"],
  [set |-> TRUE,  val |-> <<"eacute">>,         d1 |-> "eacute", d2 |-> " ",      d3 |-> ":"],
  [set |-> TRUE,  val |-> <<" ", "eacute">>,    d1 |-> " ",      d2 |-> "eacute", d3 |-> ":"],
  [set |-> TRUE,  val |-> <<" ", ":">>,         d1 |-> " ",      d2 |-> ":",      d3 |-> "TAB"],
  [set |-> TRUE,  val |-> <<"NL", "x">>,        d1 |-> "NL",     d2 |-> "x",      d3 |-> " "] >>
NIfs == Len(IfsMenu)

Alpha(i) == SubSeq(<<"a", IfsMenu[i].d1, IfsMenu[i].d2, IfsMenu[i].d3>>, 1, AlphaN)

\* Value shapes: D = d1, E = d2.  Index 1 is "unset".
ShapeMenu == <<
  <<"UNSET">>, <<>>, <<"a">>, <<"D">>, <<"a","D","b">>, <<"D","a">>, <<"a","D">>,
  <<"a","D","D","b">>, <<"a","E","b">>, <<"a","D","E","b">>, <<"a","E","D","b">>, <<"D","D">>,
  <<"E">>, <<"D","a","D">>, <<"a","D","b","D","D">>, <<"E","a","E","D">> >>

\* Positional parameter lists (each element a shape; never UNSET).
ParamMenu == <<
  <<>>, << <<>> >>, << <<"a">> >>, << <<"a">>, <<"b">> >>, << <<"a","D","b">> >>,
  << <<>>, <<"a">> >>, << <<"a">>, <<>> >>, << <<>>, <<>> >>,
  << <<"a","D">>, <<"D","b">> >>, << <<"a">>, <<>>, <<"b">> >>,
  << <<"D","a","E">>, <<"b">> >>, << <<"a">>, <<"b","E","a">>, <<"D">> >> >>

InstC(c, i) == IF c = "D" THEN IfsMenu[i].d1 ELSE IF c = "E" THEN IfsMenu[i].d2 ELSE c
Inst(sh, i) == [k \in 1..Len(sh) |-> InstC(sh[k], i)]
Unset == [set |-> FALSE, val |-> <<>>]
ShapeVal(s, i) == IF ShapeMenu[s] = <<"UNSET">> THEN Unset
                  ELSE [set |-> TRUE, val |-> Inst(ShapeMenu[s], i)]
ParamVal(p, i) == [k \in 1..Len(ParamMenu[p]) |-> Inst(ParamMenu[p][k], i)]

-----------------------------------------------------------------------------
(* Tokens.
   outside quotes: LIT x | ESP \<space> | EBS \\ | EDL \$ | SQE '' | SQ 'c<ifs>d' | V ${v} | W ${w}
                   CS $(printf %s "$v") | AT $@ | STAR $* | DQ (opens "...")
   one-token quoted forms: DQE "" | DQL "c<d1>d" | QV "${v}" | QW "${w}" | QCS "$(...)" | QAT "$@"
                   | QSTAR "$*"
   inside a general "...": LIT ESP EBS EDL DLIT(c<d1>d) V W CS AT STAR, DQ closes (>= 2 inside) *)
OutTok == {"LIT","ESP","EBS","EDL","SQE","SQ","V","W","CS","AT","STAR","DQ",
           "DQE","DQL","QV","QW","QCS","QAT","QSTAR"}
InTok  == {"LIT","ESP","EBS","EDL","DLIT","V","W","CS","AT","STAR"}
ExpTok == {"V","W","CS","AT","STAR","QV","QW","QCS","QAT","QSTAR"}
QInner(t) == CASE t = "DQE" -> <<>> [] t = "DQL" -> <<"DLIT">> [] t = "QV" -> <<"V">>
               [] t = "QW" -> <<"W">> [] t = "QCS" -> <<"CS">> [] t = "QAT" -> <<"AT">>
               [] t = "QSTAR" -> <<"STAR">>
AtomicQ == {"DQE","DQL","QV","QW","QCS","QAT","QSTAR"}

Count(ts, S) == Cardinality({ i \in 1..Len(ts) : ts[i] \in S })
InDq(ts)     == Count(ts, {"DQ"}) % 2 = 1
LastDq(ts)   == CHOOSE i \in 1..Len(ts) : ts[i] = "DQ" /\ \A j \in (i+1)..Len(ts) : ts[j] # "DQ"
InnerLen(ts) == Len(ts) - LastDq(ts)
UsesV(ts) == \E i \in 1..Len(ts) : ts[i] \in {"V","QV","CS","QCS"}
UsesW(ts) == \E i \in 1..Len(ts) : ts[i] \in {"W","QW"}
UsesP(ts) == \E i \in 1..Len(ts) : ts[i] \in {"AT","STAR","QAT","QSTAR"}
UsesCS(ts) == \E i \in 1..Len(ts) : ts[i] \in {"CS","QCS"}

Weight(ts) == Count(ts, (OutTok \cup InTok) \ {"DQ"})     \* the quotes of a "..." group are free
CanAdd(ts, t) ==
  /\ t \in TokSet
  /\ (t \in ExpTok => Count(ts, ExpTok) < MaxExp)
  /\ (t \in {"W","QW"} => UsesV(ts))            \* v is the first variable used (symmetry)
  /\ ((t \in {"CS","QCS"} \/ UsesCS(ts)) => Len(ts) < CSMaxLen)
  /\ IF InDq(ts)
     THEN \/ t \in InTok /\ InnerLen(ts) < MaxDqInner /\ Weight(ts) < MaxTok
          \/ t = "DQ" /\ InnerLen(ts) >= 2      \* 0 and 1 inside are the one-token forms
     ELSE /\ t \in OutTok
          /\ IF t = "DQ" THEN Weight(ts) + 2 <= MaxTok ELSE Weight(ts) < MaxTok
Complete(ts) == Len(ts) >= 1 /\ ~InDq(ts)

\* parts: [k, inner]; k = "dq" for a quoted group
RECURSIVE Parts(_)
Parts(ts) ==
  IF ts = <<>> THEN <<>>
  ELSE IF Head(ts) = "DQ" THEN
    LET j == CHOOSE j \in 2..Len(ts) : ts[j] = "DQ" /\ \A m \in 2..(j-1) : ts[m] # "DQ" IN
    <<[k |-> "dq", inner |-> SubSeq(ts, 2, j-1)]>> \o Parts(SubSeq(ts, j+1, Len(ts)))
  ELSE IF Head(ts) \in AtomicQ THEN <<[k |-> "dq", inner |-> QInner(Head(ts))]>> \o Parts(Tail(ts))
  ELSE <<[k |-> Head(ts), inner |-> <<>>]>> \o Parts(Tail(ts))

-----------------------------------------------------------------------------
(* Stage 1: expansion and quote marking *)
\* separator of "$*" (and of unquoted $* / $@ before they are split)
StarSep(ifs) == IF ~ifs.set THEN <<" ">> ELSE IF ifs.val = <<>> THEN <<>> ELSE <<ifs.val[1]>>

RECURSIVE JoinT(_, _)
JoinT(ts, sep) == IF ts = <<>> THEN <<>> ELSE IF Len(ts) = 1 THEN ts[1]
                  ELSE ts[1] \o sep \o JoinT(Tail(ts), sep)

RECURSIVE StripNL(_)
StripNL(t) == IF t # <<>> /\ t[Len(t)] = "NL" THEN StripNL(SubSeq(t, 1, Len(t)-1)) ELSE t

SqContent(ifs) == <<"c">> \o (IF ~ifs.set THEN <<" ">> ELSE IF ifs.val = <<>> THEN <<":">> ELSE ifs.val) \o <<"d">>
DlContent(i)   == <<"c", IfsMenu[i].d1, "d">>

\* env: [ifs, i (menu index), v, w, p]
\* "$@": one quoted element per parameter, BRK between; an empty element is a quoted null
RECURSIVE AtElems(_)
AtElems(ps) == IF ps = <<>> THEN <<>>
               ELSE (IF ps[1] = <<>> THEN <<NUL>> ELSE Chars(ps[1], FALSE))
                    \o (IF Len(ps) > 1 THEN <<BRK>> \o AtElems(Tail(ps)) ELSE <<>>)
\* unquoted $@ / $* with IFS = "": every parameter is a field of its own, empty ones vanish
RECURSIVE BrkElems(_)
BrkElems(ps) == IF ps = <<>> THEN <<>>
                ELSE Chars(ps[1], TRUE) \o (IF Len(ps) > 1 THEN <<BRK>> \o BrkElems(Tail(ps)) ELSE <<>>)

InDqItems(t, e, glue) ==
  CASE t = "LIT"  -> <<Ch("x", FALSE)>>
    [] t = "ESP"  -> <<Ch("\\", FALSE), Ch(" ", FALSE)>>     \* \<space> keeps the backslash in "..."
    [] t = "EBS"  -> <<Ch("\\", FALSE)>>
    [] t = "EDL"  -> <<Ch("$", FALSE)>>
    [] t = "DLIT" -> Chars(DlContent(e.i), FALSE)
    [] t = "V"    -> Chars(e.v.val, FALSE)
    [] t = "W"    -> Chars(e.w.val, FALSE)
    [] t = "CS"   -> Chars(StripNL(e.v.val), FALSE)
    [] t = "STAR" -> Chars(JoinT(e.p, StarSep(e.ifs)), FALSE)
    [] t = "AT"   -> IF glue THEN Chars(JoinT(e.p, <<" ">>), FALSE)   \* Dev "atglue"
                     ELSE AtElems(e.p)

RECURSIVE InnerItems(_, _, _)
InnerItems(inner, e, glue) ==
  IF inner = <<>> THEN <<>> ELSE InDqItems(Head(inner), e, glue) \o InnerItems(Tail(inner), e, glue)

HasTok(seq, t) == \E i \in 1..Len(seq) : seq[i] = t

DqItems(inner, e, dv) ==
  LET glue == "atglue" \in dv /\ Len(inner) # 1
      body == InnerItems(inner, e, glue)
  IN IF body # <<>> THEN body
     ELSE IF inner = <<>> /\ "dqe" \in dv THEN <<>>           \* Dev "dqe": "" marks nothing
     ELSE IF HasTok(inner, "AT") /\ e.p = <<>> /\ ~glue THEN <<>>  \* "$@" of no parameters: no field
     ELSE <<NUL>>

PartItems(p, e, dv) ==
  CASE p.k = "dq"   -> DqItems(p.inner, e, dv)
    [] p.k = "LIT"  -> <<Ch("x", FALSE)>>
    [] p.k = "ESP"  -> <<Ch(" ", FALSE)>>
    [] p.k = "EBS"  -> <<Ch("\\", FALSE)>>
    [] p.k = "EDL"  -> <<Ch("$", FALSE)>>
    [] p.k = "SQE"  -> <<NUL>>
    [] p.k = "SQ"   -> Chars(SqContent(e.ifs), FALSE)
    [] p.k = "V"    -> Chars(e.v.val, TRUE)
    [] p.k = "W"    -> Chars(e.w.val, TRUE)
    [] p.k = "CS"   -> Chars(StripNL(e.v.val), TRUE)
    [] p.k \in {"AT", "STAR"} ->
         IF e.ifs.set /\ e.ifs.val = <<>> THEN BrkElems(e.p)
         ELSE Chars(JoinT(e.p, StarSep(e.ifs)), TRUE)

RECURSIVE ItemsOf(_, _, _)
ItemsOf(ps, e, dv) == IF ps = <<>> THEN <<>> ELSE PartItems(Head(ps), e, dv) \o ItemsOf(Tail(ps), e, dv)

-----------------------------------------------------------------------------
(* Stage 2: splitting is ShSplitCore!Fold (shared with ShShellApi, C25). *)
HasEmptyDq(ps) == \E i \in 1..Len(ps) : ps[i].k = "dq" /\ ps[i].inner = <<>>

\* What the word must expand to (dv = {}), or what the code is known to produce (dv # {}).
FieldsD(ts, e, dv) ==
  LET ps == Parts(ts)
      fs == Fold(ItemsOf(ps, e, dv), IfsChars(e.ifs), "nws" \in dv, <<>>, <<>>, "N")
  IN IF "dqe" \in dv /\ fs = <<>> /\ HasEmptyDq(ps) THEN << <<>> >> ELSE fs
Fields(ts, e) == FieldsD(ts, e, {})

\* Three defects of bash 5.2 (two with multi-byte IFS characters, one with IFS=""); vectors that
\* hit one are compared with the specification only, not with bash:
\*  (1) IFS white space *before* a multi-byte IFS character is not absorbed into the delimiter
\*      ("b é c" -> <b><><c>, but IFS=" x", "b x c" -> <b><c>);
\*  (2) a *quoted* multi-byte IFS character is split in the middle of its bytes when the word
\*      undergoes splitting ('c éd'$v -> <c \303><d>).
\*  (3) with IFS="" a backslash-space inside double quotes that also contain $@ loses its space
\*      and splits the word (IFS=; set -- a; "\ $@" -> <\><a>, while "\ $*" -> <\ a>).
BashQuirk(ts, e) ==
  LET ps == Parts(ts)  its == ItemsOf(ps, e, {})  IC == IfsChars(e.ifs) IN
  \/ /\ e.ifs.set /\ e.ifs.val = <<>>
     /\ \E i \in 1..Len(ps) : ps[i].k = "dq" /\ HasTok(ps[i].inner, "ESP") /\ HasTok(ps[i].inner, "AT")
  \/ \E i \in 1..(Len(its)-1) :
       /\ its[i].k = "c" /\ its[i].s /\ its[i].c \in IC /\ IsWs(its[i].c)
       /\ its[i+1].k = "c" /\ its[i+1].s /\ its[i+1].c \in IC /\ its[i+1].c = "eacute"
  \/ /\ "eacute" \in IC
     /\ \E i \in 1..Len(its) : its[i].k = "c" /\ ~its[i].s /\ its[i].c = "eacute"

-----------------------------------------------------------------------------
(* Second definition, for one unquoted expansion: the POSIX text read as a recursive descent. *)
RECURSIVE DropWs(_, _)
DropWs(t, IC) == IF t # <<>> /\ t[1] \in IC /\ IsWs(t[1]) THEN DropWs(Tail(t), IC) ELSE t
RECURSIVE FieldLen(_, _)
FieldLen(t, IC) == IF t = <<>> \/ t[1] \in IC THEN 0 ELSE 1 + FieldLen(Tail(t), IC)
RECURSIVE Split1(_, _)
Split1(t, IC) ==
  IF t = <<>> THEN <<>>
  ELSE LET n == FieldLen(t, IC)
           f == SubSeq(t, 1, n)
           r == SubSeq(t, n+1, Len(t))
       IN IF r = <<>> THEN <<f>>
          ELSE LET r1 == DropWs(r, IC)
                   r2 == IF r1 # <<>> /\ r1[1] \in IC THEN DropWs(Tail(r1), IC) ELSE r1
               IN <<f>> \o Split1(r2, IC)
SplitValue(val, ifs) == LET IC == IfsChars(ifs) IN Split1(DropWs(val, IC), IC)

-----------------------------------------------------------------------------
(* Rendering of the word as shell source (the harness only concatenates). *)
TokSrc(t, e, indq) ==
  CASE t = "LIT"   -> <<"x">>
    [] t = "ESP"   -> <<"\\", " ">>
    [] t = "EBS"   -> <<"\\", "\\">>
    [] t = "EDL"   -> <<"\\", "$">>
    [] t = "SQE"   -> <<"'", "'">>
    [] t = "SQ"    -> <<"'">> \o SqContent(e.ifs) \o <<"'">>
    [] t = "DLIT"  -> DlContent(e.i)
    [] t = "V"     -> <<"$", "{", "v", "}">>
    [] t = "W"     -> <<"$", "{", "w", "}">>
    [] t = "CS"    -> <<"$","(","p","r","i","n","t","f"," ","%","s"," ","\"","$","v","\"",")">>
    [] t = "AT"    -> <<"$", "@">>
    [] t = "STAR"  -> <<"$", "*">>
    [] t = "DQ"    -> <<"\"">>
    [] t \in AtomicQ -> <<"\"">> \o (IF QInner(t) = <<>> THEN <<>> ELSE
                          (IF QInner(t)[1] = "DLIT" THEN DlContent(e.i)
                           ELSE IF QInner(t)[1] = "V" THEN <<"$", "{", "v", "}">>
                           ELSE IF QInner(t)[1] = "W" THEN <<"$", "{", "w", "}">>
                           ELSE IF QInner(t)[1] = "AT" THEN <<"$", "@">>
                           ELSE IF QInner(t)[1] = "STAR" THEN <<"$", "*">>
                           ELSE <<"$","(","p","r","i","n","t","f"," ","%","s"," ","\"","$","v","\"",")">>))
                        \o <<"\"">>
RECURSIVE Src(_, _)
Src(ts, e) == IF ts = <<>> THEN <<>> ELSE TokSrc(Head(ts), e, FALSE) \o Src(Tail(ts), e)

-----------------------------------------------------------------------------
(* The input builder *)
Init == toks = <<>> /\ phase = "word" /\ ifsI = 0 /\ vv = Unset /\ ww = Unset /\ pp = <<>>

AddTok == /\ phase = "word"
          /\ \E t \in TokSet : CanAdd(toks, t) /\ toks' = Append(toks, t)
          /\ UNCHANGED <<phase, ifsI, vv, ww, pp>>

\* raw family: exactly one expansion, of v, nothing else variable
RawWord(ts) == /\ Len(ts) <= RawMaxTok /\ Count(ts, ExpTok) = 1 /\ UsesV(ts)
RawBound(ts) == IF UsesCS(ts) THEN MaxRawCS ELSE MaxRaw

\* The menu environment is chosen in stages (IFS, v, w, parameters; unused ones are skipped) so
\* that every step has few successors (this matters for -simulate).
After(ph, ts) ==
  IF ph = "ifs" /\ UsesV(ts) THEN "v"
  ELSE IF ph \in {"ifs", "v"} /\ UsesW(ts) THEN "w"
  ELSE IF ph \in {"ifs", "v", "w"} /\ UsesP(ts) THEN "p"
  ELSE "done"
ChooseIfs ==
  /\ phase = "word" /\ Complete(toks) /\ ~RawWord(toks) /\ Weight(toks) >= SimMinTok
  /\ \E i \in IfsSet : ifsI' = i
  /\ phase' = After("ifs", toks) /\ UNCHANGED <<toks, vv, ww, pp>>
ChooseV ==
  /\ phase = "v"
  /\ \E s \in (IF UsesP(toks) THEN MixShapeSet ELSE ShapeSet) : vv' = ShapeVal(s, ifsI)
  /\ phase' = After("v", toks) /\ UNCHANGED <<toks, ifsI, ww, pp>>
ChooseW ==
  /\ phase = "w"
  /\ \E s \in WShapeSet : ww' = ShapeVal(s, ifsI)
  /\ phase' = After("w", toks) /\ UNCHANGED <<toks, ifsI, vv, pp>>
ChooseP ==
  /\ phase = "p"
  /\ \E q \in (IF UsesV(toks) THEN MixParamSet ELSE ParamSet) : pp' = ParamVal(q, ifsI)
  /\ phase' = "done" /\ UNCHANGED <<toks, ifsI, vv, ww>>
ChooseEnvMenu == ChooseIfs \/ ChooseV \/ ChooseW \/ ChooseP

ChooseEnvRaw ==
  /\ phase = "word" /\ Complete(toks) /\ RawWord(toks)
  /\ \E i \in 1..NIfs : ifsI' = i
  /\ \E st \in {TRUE, FALSE} : vv' = [set |-> st, val |-> <<>>]
  /\ phase' = "raw" /\ UNCHANGED <<toks, ww, pp>>

AddRaw ==
  /\ phase = "raw" /\ vv.set /\ Len(vv.val) < RawBound(toks)
  /\ \E k \in 1..AlphaN : vv' = [set |-> TRUE, val |-> Append(vv.val, Alpha(ifsI)[k])]
  /\ UNCHANGED <<toks, phase, ifsI, ww, pp>>

Next == AddTok \/ ChooseEnvMenu \/ ChooseEnvRaw \/ AddRaw
Spec == Init /\ [][Next]_vars

-----------------------------------------------------------------------------
(* State functions, laws, emission *)
IsVec == phase \in {"raw", "done"}
Env == [ifs |-> [set |-> IfsMenu[ifsI].set, val |-> IfsMenu[ifsI].val], i |-> ifsI,
        v |-> vv, w |-> ww, p |-> pp]

OutsideExp(ts) == LET ps == Parts(ts) IN \E i \in 1..Len(ps) : ps[i].k \in {"V","W","CS","AT","STAR"}
DqAt(ts) == LET ps == Parts(ts) IN \E i \in 1..Len(ps) : ps[i].k = "dq" /\ HasTok(ps[i].inner, "AT")

RECURSIVE ItemText(_)
ItemText(its) == IF its = <<>> THEN <<>>
                 ELSE (IF Head(its).k = "c" THEN <<Head(its).c>> ELSE <<>>) \o ItemText(Tail(its))
RECURSIVE Without(_, _)
Without(t, S) == IF t = <<>> THEN <<>> ELSE (IF t[1] \in S THEN <<>> ELSE <<t[1]>>) \o Without(Tail(t), S)

\* L1: stage 1+2 agree with the recursive-descent reading on a lone unquoted expansion
L_SingleVar == (IsVec /\ toks \in {<<"V">>}) => Fields(toks, Env) = SplitValue(vv.val, Env.ifs)
\* L2: without unquoted expansions and "$@" a word is exactly one field: its text, quotes removed
L_QuoteRemoval == (IsVec /\ ~OutsideExp(toks) /\ ~DqAt(toks)) =>
                    Fields(toks, Env) = << ItemText(ItemsOf(Parts(toks), Env, {})) >>
\* L3: IFS="" never splits an expansion of a variable
L_EmptyIfs == (IsVec /\ Env.ifs.set /\ Env.ifs.val = <<>> /\ ~UsesP(toks)) => Len(Fields(toks, Env)) <= 1
\* L4: "$@" alone is the parameter list; "$*" alone is exactly one field
L_QuotedAt == (IsVec /\ toks = <<"QAT">>) => Fields(toks, Env) = pp
L_QuotedStar == (IsVec /\ toks = <<"QSTAR">>) => Len(Fields(toks, Env)) = 1
\* L5: fields of a lone $v contain no IFS character and lose nothing else
L_NoIfsInFields == (IsVec /\ toks = <<"V">>) =>
     LET fs == Fields(toks, Env)  IC == IfsChars(Env.ifs) IN
     /\ \A i \in 1..Len(fs) : \A j \in 1..Len(fs[i]) : fs[i][j] \notin IC
     /\ Flatten(fs) = Without(vv.val, IC)
\* L6: joining with the first IFS character and splitting again is the identity when no
\*     field is empty (an empty last field, or any empty field under a white-space separator, is lost)
L_JoinSplit == (IsVec /\ toks = <<"V">> /\ StarSep(Env.ifs) # <<>>) =>
     LET fs == Fields(toks, Env) IN
     (\A i \in 1..Len(fs) : fs[i] # <<>>) => SplitValue(JoinT(fs, StarSep(Env.ifs)), Env.ifs) = fs
\* L7: unquoted $@ and $* are interchangeable
SwapAt(ts) == [i \in 1..Len(ts) |-> IF ts[i] = "AT" /\ ~InDq(SubSeq(ts, 1, i-1)) THEN "STAR" ELSE ts[i]]
L_AtStar == (IsVec /\ HasTok(toks, "AT")) => Fields(toks, Env) = Fields(SwapAt(toks), Env)
\* L8: the named deviations only ever lose fields or glue them, never invent text
L_DevText == IsVec => \A dv \in {{"nws"}, {"dqe"}} : Flatten(FieldsD(toks, Env, dv)) = Flatten(Fields(toks, Env))

Laws == L_SingleVar /\ L_QuoteRemoval /\ L_EmptyIfs /\ L_QuotedAt /\ L_QuotedStar /\ L_NoIfsInFields
        /\ L_JoinSplit /\ L_AtStar /\ L_DevText

RECURSIVE SortedIdx(_)
SortedIdx(S) == IF S = {} THEN <<>> ELSE LET m == CHOOSE x \in S : \A y \in S : x <= y IN <<m>> \o SortedIdx(S \ {m})
DevSets == << {"nws"}, {"dqe"}, {"atglue"}, {"nws","dqe"}, {"nws","atglue"}, {"dqe","atglue"},
              {"nws","dqe","atglue"} >>
DevName(dv) == (IF "nws" \in dv THEN <<"nws">> ELSE <<>>) \o (IF "dqe" \in dv THEN <<"dqe">> ELSE <<>>)
               \o (IF "atglue" \in dv THEN <<"atglue">> ELSE <<>>)

Emit ==
  IF ~IsVec THEN TRUE ELSE
  LET e == Env
      exp == Fields(toks, e)
      dres == [k \in 1..Len(DevSets) |-> FieldsD(toks, e, DevSets[k])]
      didx == { k \in 1..Len(DevSets) : dres[k] # exp }
      dseq == SortedIdx(didx)
  IN PrintT(<<"VEC", ToJson([
       toks |-> toks, src |-> Src(toks, e), fam |-> phase,
       ifs |-> e.ifs, v |-> vv, w |-> ww, params |-> pp,
       exp |-> exp,
       devs |-> [k \in 1..Len(dseq) |-> [n |-> DevName(DevSets[dseq[k]]), exp |-> dres[dseq[k]]]],
       bashquirk |-> BashQuirk(toks, e),
       nontrivial |-> (Len(exp) # 1) ])>>)

EmitInv == Emit
=============================================================================
