SPECIFICATION Spec
CONSTANTS InPlace = FALSE
  Scenarios <- RunScenarios
  Names <- Names2
  FDs <- FDs1
CONSTRAINT QuickScope
INVARIANTS TypeOK Atomic Durable Untouched NoTemps ExitOK EmitScn
