---------------------------- MODULE ShAssoc ----------------------------
(* C33 (extension): associative arrays behave like a map from key strings to values.
   Style S.  The contract is the map h itself plus the variable's kind:
     kind = "assoc"  after  declare -A h   (possibly with no elements)
     kind = "none"   after  unset h        (the name is gone; the only modelled way back
                                            is another declare -A h)
   Every edge of the state graph is emitted (EDGE) and rendered as one shell program
   `declare -A h=(<from>); OP; dump` for interp and bash; every state is emitted (VEC)
   with the expansions bash defines on it.  Random walks over the emitted graph give
   longer histories in three contexts (top level, function with local -A, subshell).
   bash lists the elements of an associative array in hash order, so the value and key
   lists are compared as multisets; everything else is compared exactly. *)
EXTENDS Integers, Sequences, FiniteSets, TLC, Json

CONSTANTS Keys,      \* key strings
          Vals       \* values that can be written ("x", "y", "")

VARIABLES kind, h
vars == <<kind, h>>

\* TLA+ strings are atomic, so concatenation is a table over the values that can arise
Cat(a, b) == CASE a = "" -> b [] b = "" -> a
               [] a = "x" /\ b = "x" -> "xx" [] a = "x" /\ b = "y" -> "xy"
               [] a = "y" /\ b = "x" -> "yx" [] a = "y" /\ b = "y" -> "yy"
AllVals == Vals \cup {Cat(a, b) : a, b \in Vals}
Short(v) == v \in Vals                       \* h[k]+=v is only taken from a short value

MapSet(f, k, v) == [j \in (DOMAIN f) \cup {k} |-> IF j = k THEN v ELSE f[j]]
MapDel(f, k)    == [j \in (DOMAIN f) \ {k} |-> f[j]]
Empty == [j \in {} |-> ""]

St(kd, f) == [kind |-> kd, keys |-> [k \in Keys |-> k \in DOMAIN f], vals |-> [k \in Keys |-> IF k \in DOMAIN f THEN f[k] ELSE ""]]
Edge(name, args, kd, f) ==
  PrintT(<<"EDGE", ToJson([from |-> St(kind, h), act |-> name, args |-> args, to |-> St(kd, f)])>>)

Init == kind = "assoc" /\ h = Empty

SetK(k, v) ==                                  \* h[k]=v
  /\ kind = "assoc" /\ h' = MapSet(h, k, v) /\ kind' = kind
  /\ Edge("set", <<k, v>>, kind, h')
AppendK(k, v) ==                               \* h[k]+=v : concatenates, an unset element counts as empty
  /\ kind = "assoc" /\ v # ""
  /\ (k \in DOMAIN h => Short(h[k]))
  /\ h' = MapSet(h, k, Cat(IF k \in DOMAIN h THEN h[k] ELSE "", v)) /\ kind' = kind
  /\ Edge("appendk", <<k, v>>, kind, h')
UnsetK(k) ==                                   \* unset 'h[k]' (also when the key is absent)
  /\ kind = "assoc" /\ h' = MapDel(h, k) /\ kind' = kind
  /\ Edge("unset", <<k>>, kind, h')
Clear ==                                       \* h=() : empties, stays associative
  /\ kind = "assoc" /\ h' = Empty /\ kind' = kind
  /\ Edge("clear", <<>>, kind, h')
AssignPairs(k1, v1, k2, v2) ==                 \* h=([k1]=v1 [k2]=v2) : replaces; a repeated key keeps the last value
  /\ kind = "assoc" /\ h' = MapSet(MapSet(Empty, k1, v1), k2, v2) /\ kind' = kind
  /\ Edge("assign2", <<k1, v1, k2, v2>>, kind, h')
AppendPair(k, v) ==                            \* h+=([k]=v) : adds or overwrites one element, keeps the others
  /\ kind = "assoc" /\ h' = MapSet(h, k, v) /\ kind' = kind
  /\ Edge("appendpair", <<k, v>>, kind, h')
UnsetAll ==                                    \* unset h : the name and its associative attribute are gone
  /\ kind = "assoc" /\ h' = Empty /\ kind' = "none"
  /\ Edge("unsetall", <<>>, "none", h')
Declare ==                                     \* declare -A h on a name that does not exist
  /\ kind = "none" /\ h' = Empty /\ kind' = "assoc"
  /\ Edge("declare", <<>>, "assoc", h')
Redeclare ==                                   \* declare -A h on an existing associative array keeps its elements
  /\ kind = "assoc" /\ UNCHANGED vars
  /\ Edge("redeclare", <<>>, kind, h)

Next == \/ \E k \in Keys, v \in Vals : SetK(k, v) \/ AppendK(k, v) \/ AppendPair(k, v)
        \/ \E k \in Keys : UnsetK(k)
        \/ Clear \/ UnsetAll \/ Declare \/ Redeclare
        \/ \E k1, k2 \in Keys, v1, v2 \in Vals : v1 # "" /\ AssignPairs(k1, v1, k2, v2)
Spec == Init /\ [][Next]_vars

TypeOK == /\ kind \in {"assoc", "none"}
          /\ DOMAIN h \subseteq Keys
          /\ \A k \in DOMAIN h : h[k] \in AllVals
          /\ (kind = "none" => h = Empty)
\* laws of the contract, checked in every reachable state for every key and value
MapLaws == \A k \in Keys, v \in AllVals :
             /\ MapSet(h, k, v)[k] = v
             /\ k \notin DOMAIN MapDel(h, k)
             /\ MapDel(MapSet(h, k, v), k) = MapDel(h, k)
             /\ Cardinality(DOMAIN MapSet(h, k, v)) = Cardinality(DOMAIN h) + (IF k \in DOMAIN h THEN 0 ELSE 1)
             /\ \A j \in Keys \ {k} : (j \in DOMAIN h) = (j \in DOMAIN MapSet(h, k, v)) /\ (j \in DOMAIN h) = (j \in DOMAIN MapDel(h, k))

\* --- the expansions bash defines on an associative array, as functions of the map
Count   == Cardinality(DOMAIN h)                        \* ${#h[@]}
Elem(k) == IF k \in DOMAIN h THEN h[k] ELSE ""          \* "${h[k]}"
IsSet(k) == k \in DOMAIN h                              \* ${h[k]+set},  [[ -v h[k] ]]
EmitState == PrintT(<<"VEC", ToJson([
    st |-> St(kind, h), count |-> Count,
    elems |-> [k \in Keys |-> Elem(k)], isset |-> [k \in Keys |-> IsSet(k)],
    nonempty |-> (DOMAIN h # {}) ])>>)
=========================================================================
