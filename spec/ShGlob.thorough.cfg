SPECIFICATION Spec
CONSTANTS TokBoost = 1
  SubjBoost = 0
  Fams = {"core1", "extop", "extmix", "fname", "fnext", "path"}
INVARIANTS ModeIrrelevance LiteralLaw EmitInv
VIEW StateKey
