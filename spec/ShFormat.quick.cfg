SPECIFICATION Spec
CONSTANTS Families = {"dir", "reuse", "esc", "echo"}
  MaxFlags = 1
  MaxTail = 3
  ReuseUnits = 2
  ReuseArgs = 3
  ReuseSum = 4
  EchoMaxWords = 3
  MixUnits = 4
  MixArgs = 3
  Rich = FALSE
INVARIANTS IdentityLaw WidthLaw EchoPlainLaw EmitInv
