SPECIFICATION Spec
CONSTANTS MaxLen = 2
  MaxDepth = 2
  EmitAt = 0
INVARIANTS WellFormed Emit
