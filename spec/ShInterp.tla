---------------------------- MODULE ShInterp ----------------------------
(* C26 / C03 (and, through ShSimplify, C04): what a shell program MEANS.

   Part 1  text helpers (text = sequence of one-character strings).
   Part 2  a big-step evaluator WITH FUEL for a core of the shell language, written from
           bash 5.2's behaviour (DESIGN.md Appendix C "errexit" and the probes recorded in
           design_notes/C26.md), over abstract syntax trees that have the shape of
           mvdan.cc/sh/v3/syntax nodes (k = Go type name, exported field names, zero values
           omitted; literal text is a sequence of characters, names are one-character strings).
           Meaning(prog, dev) = [out |-> stdout, st |-> exit status, bad |-> "" or the reason why
           the program is outside the model (the InScope / Deterministic predicate), trig].
           The evaluator has NAMED DEVIATION switches (the set `dev`, a subset of AllDevs): with a
           switch on, the evaluator computes at that point what the current code of interp is
           known to do instead of what bash does; `trig` records the switches that can have
           changed the run.  The contract is Meaning(prog, {}).
   Part 3  a program generator: choice sequences (see spec/ShSyntax.tla for the technique:
           Ch, Nd, need) decoded into  prelude ; f() { BODY; echo "inf $?"; } ; MAIN ;
           echo "end $?"  where BODY and MAIN come from one recursive command menu whose
           holes default to `false` (in f) / a call of f (in MAIN), so that the first three
           choices span the interaction matrix  options/traps x failing thing x context.
           The generator also yields the concrete syntax as a token list with layout tokens
           <SP> <SEP> <BGSEP> <HDOC> (instantiated by the Layouts at the end of the module).
   Part 4  Init/Next, laws checked by TLC on every generated program, vector emission. *)
EXTENDS Integers, Sequences, FiniteSets, TLC, Json

CONSTANTS MaxLen,     \* bound on Len(ch)
          MaxDepth,   \* nesting budget of the command menu
          EmitAt,     \* emit only states with Len(ch) >= EmitAt or complete (simulation)
          Fuel,       \* evaluation steps per program
          EmitTree    \* TRUE: vectors carry the abstract tree (parser self-check)

VARIABLE ch
vars == <<ch>>

------------------------------------------------------------------------
(* Part 1: text *)
Digits == <<"0", "1", "2", "3", "4", "5", "6", "7", "8", "9">>
DigitSet == {"0", "1", "2", "3", "4", "5", "6", "7", "8", "9"}
DigitVal == [c \in DigitSet |-> CASE c = "0" -> 0 [] c = "1" -> 1 [] c = "2" -> 2 [] c = "3" -> 3 [] c = "4" -> 4
                                  [] c = "5" -> 5 [] c = "6" -> 6 [] c = "7" -> 7 [] c = "8" -> 8 [] c = "9" -> 9]
RECURSIVE DecN(_)
DecN(n) == IF n < 10 THEN <<Digits[n + 1]>> ELSE DecN(n \div 10) \o <<Digits[(n % 10) + 1]>>
Dec(n) == IF n < 0 THEN <<"-">> \o DecN(0 - n) ELSE DecN(n)

IsDigits(t) == t # <<>> /\ \A i \in 1..Len(t) : t[i] \in DigitSet
\* TLC has 32-bit integers: texts of more than 9 digits are not numbers of the model (BigNum marks them, callers leave the scope)
IsNum(t) == (IsDigits(t) /\ Len(t) <= 9) \/ (Len(t) > 1 /\ Len(t) <= 10 /\ t[1] = "-" /\ IsDigits(Tail(t)))
BigNum(t) == (IsDigits(t) /\ Len(t) > 9) \/ (Len(t) > 10 /\ t[1] = "-" /\ IsDigits(Tail(t)))
RECURSIVE DigitsVal(_, _)
DigitsVal(t, acc) == IF t = <<>> THEN acc ELSE DigitsVal(Tail(t), acc * 10 + DigitVal[Head(t)])
NumVal(t) == IF t[1] = "-" THEN 0 - DigitsVal(Tail(t), 0) ELSE DigitsVal(t, 0)

NL == "\n"
Blank == {" ", "\n", "\t"}
RECURSIVE StripNL(_)
StripNL(t) == IF t # <<>> /\ t[Len(t)] = NL THEN StripNL(SubSeq(t, 1, Len(t) - 1)) ELSE t
RECURSIVE TrimL(_)
TrimL(t) == IF t # <<>> /\ Head(t) \in Blank THEN TrimL(Tail(t)) ELSE t
RECURSIVE TrimR(_)
TrimR(t) == IF t # <<>> /\ t[Len(t)] \in Blank THEN TrimR(SubSeq(t, 1, Len(t) - 1)) ELSE t
\* index of the first newline in t, or 0
FirstNL(t) == IF \E i \in 1..Len(t) : t[i] = NL THEN CHOOSE i \in 1..Len(t) : t[i] = NL /\ \A j \in 1..(i - 1) : t[j] # NL ELSE 0
RECURSIVE JoinSp(_)
JoinSp(l) == IF l = <<>> THEN <<>> ELSE IF Len(l) = 1 THEN l[1] ELSE l[1] \o <<" ">> \o JoinSp(Tail(l))
Mod256(n) == ((n % 256) + 256) % 256
RECURSIVE Pow(_, _)
Pow(b, e) == IF e <= 0 THEN 1 ELSE b * Pow(b, e - 1)

\* Sorted sequence of a finite set of naturals
RECURSIVE SortNat(_)
SortNat(S) == IF S = {} THEN <<>> ELSE LET m == CHOOSE x \in S : \A y \in S : x <= y IN <<m>> \o SortNat(S \ {m})

\* words the evaluator must recognise (command names, option words)
W_echo == <<"e", "c", "h", "o">>
W_printf == <<"p", "r", "i", "n", "t", "f">>
W_true == <<"t", "r", "u", "e">>
W_false == <<"f", "a", "l", "s", "e">>
W_colon == <<":">>
W_exit == <<"e", "x", "i", "t">>
W_return == <<"r", "e", "t", "u", "r", "n">>
W_break == <<"b", "r", "e", "a", "k">>
W_continue == <<"c", "o", "n", "t", "i", "n", "u", "e">>
W_set == <<"s", "e", "t">>
W_shift == <<"s", "h", "i", "f", "t">>
W_unset == <<"u", "n", "s", "e", "t">>
W_read == <<"r", "e", "a", "d">>
W_trap == <<"t", "r", "a", "p">>
W_test == <<"t", "e", "s", "t">>
W_lbr == <<"[">>
W_rbr == <<"]">>
W_EXIT == <<"E", "X", "I", "T">>
W_ERR == <<"E", "R", "R">>
W_pipefail == <<"p", "i", "p", "e", "f", "a", "i", "l">>
W_wait == <<"w", "a", "i", "t">>

------------------------------------------------------------------------
(* Part 2: the evaluator *)
VarNames == {"x", "y", "z", "i", "l", "a"}     \* `a` is the array variable
FnNames  == {"f", "g"}
Unset    == [t |-> "u"]
Str(v)   == [t |-> "s", v |-> v]
Arr(m)   == [t |-> "a", m |-> m]               \* m: function from a finite set of naturals to texts
NoTrap   == [set |-> FALSE]
NoFn     == [def |-> FALSE]

\* Known deviations of the code (see known_findings.d/C26.jsonl, proposed_fixes/C26-*.md)
AllDevs == {"Dev_LastPipeInParent", "Dev_ErrCheckEveryStmt", "Dev_ErrexitNegated", "Dev_ErrexitSubshellCtx",
            "Dev_ErrexitCmdSubst", "Dev_ExitInTrapIgnored", "Dev_ExitTrapSubshell", "Dev_ErrTrapInherited",
            "Dev_ReturnTopLevel", "Dev_ReturnSubshell", "Dev_LocalSubshell", "Dev_BreakDeferred",
            "Dev_BreakZero", "Dev_WhileStatus", "Dev_ShiftRange", "Dev_ReturnNoArg", "Dev_NounsetArith",
            "Dev_NounsetElem", "Dev_NegatedExit", "Dev_TestBangPrecedence", "Dev_ArithLazyExpansion"}

S0(dev) == [vars |-> [n \in VarNames |-> Unset], loc |-> <<>>, pos |-> <<>>,
            fn |-> [n \in FnNames |-> NoFn],
            e |-> FALSE, pf |-> FALSE, u |-> FALSE,
            tx |-> NoTrap, te |-> NoTrap, efun |-> FALSE, esub |-> FALSE, intrap |-> FALSE,
            out |-> <<>>, inp |-> <<>>, eof |-> FALSE, bg |-> FALSE,
            st |-> 0, cs |-> 0 - 1, ctl |-> "n", n |-> 0, aerr |-> FALSE,
            fuel |-> Fuel, bad |-> "", ign |-> FALSE, ld |-> 0, ldi |-> 0, pb |-> 0, pc |-> 0, fd |-> 0, sub |-> 0, fsub |-> 0,
            dev |-> dev, trig |-> {}]

Live(s) == s.ctl = "n" /\ s.bad = ""
Bad(s, why) == IF s.bad = "" THEN [s EXCEPT !.bad = why] ELSE s
D(s, name) == name \in s.dev
Trig(s, name) == [s EXCEPT !.trig = @ \cup {name}]
Has(r, f) == f \in DOMAIN r
St(s, n) == [s EXCEPT !.st = n]
\* While a background job may still be running, anything written to stdout races with it
Out(s, t) == IF s.bg THEN Bad(s, "output while a background job may be running") ELSE [s EXCEPT !.out = @ \o t]

\* ---- pieces of an expanded word
PL(v) == [k |-> "l", v |-> v]   \* unquoted literal text (pattern characters active, never split)
PQ(v) == [k |-> "q", v |-> v]   \* quoted text
PX(v) == [k |-> "x", v |-> v]   \* unquoted result of an expansion: split at blanks
PA(l) == [k |-> "a", l |-> l]   \* "$@" / "${a[@]}": one field per element

RECURSIVE FSplit(_, _, _)
FSplit(v, i, acc) ==
  IF i > Len(v) THEN acc
  ELSE IF v[i] \in Blank
       THEN FSplit(v, i + 1, IF acc.has THEN [fs |-> Append(acc.fs, acc.cur), cur |-> <<>>, has |-> FALSE] ELSE acc)
       ELSE FSplit(v, i + 1, [acc EXCEPT !.cur = Append(@, v[i]), !.has = TRUE])
RECURSIVE FAt(_, _, _)
FAt(l, j, acc) ==
  IF j > Len(l) THEN acc
  ELSE FAt(l, j + 1, [fs |-> Append(acc.fs, acc.cur), cur |-> l[j], has |-> TRUE])
RECURSIVE FPieces(_, _, _)
FPieces(ps, i, acc) ==
  IF i > Len(ps) THEN acc
  ELSE LET p == ps[i] IN
       FPieces(ps, i + 1,
         CASE p.k = "l" -> [acc EXCEPT !.cur = @ \o p.v, !.has = @ \/ p.v # <<>>]
           [] p.k = "q" -> [acc EXCEPT !.cur = @ \o p.v, !.has = TRUE]
           [] p.k = "x" -> FSplit(p.v, 1, acc)
           [] p.k = "a" -> IF p.l = <<>> THEN acc
                           ELSE FAt(p.l, 2, [acc EXCEPT !.cur = @ \o p.l[1], !.has = TRUE]))
FieldsOf(ps) == LET a == FPieces(ps, 1, [fs |-> <<>>, cur |-> <<>>, has |-> FALSE])
                IN IF a.has THEN Append(a.fs, a.cur) ELSE a.fs
RECURSIVE JoinOf(_)
JoinOf(ps) == IF ps = <<>> THEN <<>>
              ELSE (IF Head(ps).k = "a" THEN JoinSp(Head(ps).l) ELSE Head(ps).v) \o JoinOf(Tail(ps))

\* ---- patterns (case, [[ == ]]): * and ? are active in unquoted pieces only
RECURSIVE PatOf(_)
PatOf(ps) ==
  IF ps = <<>> THEN <<>>
  ELSE LET p == Head(ps)
           v == IF p.k = "a" THEN JoinSp(p.l) ELSE p.v
           act == p.k \in {"l", "x"} IN
       [i \in 1..Len(v) |-> [c |-> v[i], w |-> act /\ v[i] \in {"*", "?"}]] \o PatOf(Tail(ps))
RECURSIVE PMatch(_, _, _, _)
PMatch(pat, i, t, j) ==
  IF i > Len(pat) THEN j > Len(t)
  ELSE IF pat[i].w /\ pat[i].c = "*"
       THEN PMatch(pat, i + 1, t, j) \/ (j <= Len(t) /\ PMatch(pat, i, t, j + 1))
       ELSE j <= Len(t) /\ (pat[i].w \/ pat[i].c = t[j]) /\ PMatch(pat, i + 1, t, j + 1)
Matches(ps, t) == PMatch(PatOf(ps), 1, t, 1)
\* =~ with the regular expressions the generators use: an unquoted . matches any character, everything else
\* (and everything quoted) itself; the match may start anywhere
RECURSIVE ReOf(_)
ReOf(ps) ==
  IF ps = <<>> THEN <<>>
  ELSE LET p == Head(ps)
           v == IF p.k = "a" THEN JoinSp(p.l) ELSE p.v IN
       [i \in 1..Len(v) |-> [c |-> v[i], w |-> p.k \in {"l", "x"} /\ v[i] = "."]] \o ReOf(Tail(ps))
ReAt(re, t, j) == j + Len(re) - 1 <= Len(t) /\ \A i \in 1..Len(re) : re[i].w \/ re[i].c = t[j + i - 1]
ReMatches(ps, t) == LET re == ReOf(ps) IN \E j \in 1..(Len(t) + 1) : ReAt(re, t, j)
ReOK(ps) == \A i \in 1..Len(ps) : ps[i].k = "q" \/
              (\A j \in 1..Len(IF ps[i].k = "a" THEN <<>> ELSE ps[i].v) : ps[i].v[j] \notin {"*", "+", "?", "[", "]", "(", ")", "|", "^", "$", "\\", "{", "}"})

\* ---- $'...' escapes (only those the generators use)
RECURSIVE Ansi(_)
Ansi(v) ==
  IF v = <<>> THEN <<>>
  ELSE IF Head(v) = "\\" /\ Len(v) >= 2
       THEN (CASE v[2] = "n" -> <<NL>> [] v[2] = "t" -> <<"\t">> [] v[2] = "\\" -> <<"\\">>
               [] v[2] = "'" -> <<"'">> [] v[2] = "\"" -> <<"\"">>
               [] v[2] = "a" -> <<"BEL">> [] v[2] = "b" -> <<"BS">>
               [] OTHER -> <<"\\", v[2]>>) \o Ansi(SubSeq(v, 3, Len(v)))
       ELSE <<Head(v)>> \o Ansi(Tail(v))

\* ---- inside double quotes a backslash quotes only $ ` " \ (and newline); otherwise it stays
RECURSIVE DqUnescape(_)
DqUnescape(v) ==
  IF v = <<>> THEN <<>>
  ELSE IF Head(v) = "\\" /\ Len(v) >= 2 /\ v[2] \in {"$", "`", "\"", "\\"} THEN <<v[2]>> \o DqUnescape(SubSeq(v, 3, Len(v)))
  ELSE IF Head(v) = "\\" /\ Len(v) >= 2 THEN <<"\\", v[2]>> \o DqUnescape(SubSeq(v, 3, Len(v)))
  ELSE <<Head(v)>> \o DqUnescape(Tail(v))

\* ---- variables
MaxKeyOf(m) == IF DOMAIN m = {} THEN 0 - 1 ELSE CHOOSE x \in DOMAIN m : \A y \in DOMAIN m : y <= x
ArrVals(m) == LET ks == SortNat(DOMAIN m) IN [i \in 1..Len(ks) |-> m[ks[i]]]
\* scalar view of a variable: [set, v]
Look(s, nm) ==
  IF nm \in VarNames
  THEN LET x == s.vars[nm] IN
       CASE x.t = "u" -> [set |-> FALSE, v |-> <<>>]
         [] x.t = "s" -> [set |-> TRUE, v |-> x.v]
         [] x.t = "a" -> IF 0 \in DOMAIN x.m THEN [set |-> TRUE, v |-> x.m[0]] ELSE [set |-> FALSE, v |-> <<>>]
  ELSE IF nm \in {"1", "2", "3"}
  THEN LET k == DigitVal[nm] IN IF k <= Len(s.pos) THEN [set |-> TRUE, v |-> s.pos[k]] ELSE [set |-> FALSE, v |-> <<>>]
  ELSE IF nm = "?" THEN [set |-> TRUE, v |-> Dec(s.st)]
  ELSE IF nm = "#" THEN [set |-> TRUE, v |-> Dec(Len(s.pos))]
  ELSE [set |-> FALSE, v |-> <<>>]
SetVar(s, nm, val) == IF nm \in VarNames THEN [s EXCEPT !.vars[nm] = val] ELSE Bad(s, "assign to " \o nm)
\* A reference to an unset variable under `set -u` is fatal for the (sub)shell: status 127 at the
\* top level of a script, 1 inside a subshell environment (the oracle runs programs in one).
Unbound(s) == [s EXCEPT !.ctl = "x", !.st = IF s.sub = 0 THEN 127 ELSE 1]   \* a program itself runs at sub = 1

RECURSIVE ATop(_, _)
RECURSIVE XStmts(_, _, _), XStmt(_, _), XCmd(_, _), XParts(_, _, _, _), XPart(_, _, _), XParam(_, _, _),
          XWords(_, _, _), XArith(_, _), XTest(_, _), XWhile(_, _, _), XFor(_, _, _, _, _), XCaseItems(_, _, _, _, _),
          XAssigns(_, _, _, _), RunSub(_, _), XCall(_, _), XBuiltin(_, _, _), XFn(_, _, _), RunTrap(_, _), XPipe(_, _),
          XArrElems(_, _, _, _)

\* ---- arithmetic:  [v |-> integer, s |-> state]
AVarVal(s, nm) ==
  LET x == Look(s, nm) IN
  IF ~x.set /\ s.u /\ ~D(s, "Dev_NounsetArith") THEN [v |-> 0, s |-> Unbound(s)]
  ELSE IF ~x.set /\ s.u THEN [v |-> 0, s |-> Trig(s, "Dev_NounsetArith")]
  ELSE IF x.v = <<>> THEN [v |-> 0, s |-> s]
  ELSE IF IsNum(x.v) THEN [v |-> NumVal(x.v), s |-> s]
  ELSE [v |-> 0, s |-> Bad(s, "arithmetic on non-integer text")]
IsNameWord(w) == w.k = "Word" /\ Len(w.Parts) = 1 /\ w.Parts[1].k = "Lit" /\ Len(w.Parts[1].Value) = 1
                 /\ w.Parts[1].Value[1] \in VarNames
ASet(s, nm, n) == SetVar(s, nm, Str(Dec(n)))
AErr(s) == [s EXCEPT !.aerr = TRUE]      \* the expression is in error (e.g. assignment to a non-variable)
XArith(e, s) ==
  IF ~Live(s) \/ s.aerr THEN [v |-> 0, s |-> s]
  ELSE CASE e.k = "Word" ->
         IF IsNameWord(e) THEN AVarVal(s, e.Parts[1].Value[1])
         ELSE LET r == XParts(e.Parts, 1, s, FALSE)
                  t == JoinOf(r.p) IN
              IF ~Live(r.s) THEN [v |-> 0, s |-> r.s]
              ELSE IF t = <<>> THEN [v |-> 0, s |-> r.s]
              ELSE IF IsNum(t) THEN [v |-> NumVal(t), s |-> r.s]
              ELSE IF Len(t) = 1 /\ t[1] \in VarNames THEN AVarVal(r.s, t[1])
              ELSE [v |-> 0, s |-> Bad(r.s, "arithmetic on non-integer text")]
    [] e.k = "ParenArithm" -> XArith(e.X, s)
    [] e.k = "UnaryArithm" ->
         IF e.Op \in {"++", "--"} THEN
           IF ~IsNameWord(e.X) THEN
                \* `++5` is two unary pluses; `5++` and `++$x` with a post operator are errors
                IF ~Has(e, "Post") THEN LET a == XArith(e.X, s) IN [v |-> a.v, s |-> a.s]
                ELSE LET a == XArith(e.X, s) IN [v |-> 0, s |-> AErr(a.s)]
           ELSE LET nm == e.X.Parts[1].Value[1]
                    a == AVarVal(s, nm)
                    nv == IF e.Op = "++" THEN a.v + 1 ELSE a.v - 1 IN
                IF ~Live(a.s) THEN a
                ELSE [v |-> IF Has(e, "Post") THEN a.v ELSE nv, s |-> ASet(a.s, nm, nv)]
         ELSE LET a == XArith(e.X, s) IN
              [v |-> CASE e.Op = "-" -> 0 - a.v [] e.Op = "+" -> a.v [] e.Op = "!" -> IF a.v = 0 THEN 1 ELSE 0, s |-> a.s]
    [] e.k = "BinaryArithm" ->
         IF e.Op \in {"=", "+=", "-=", "*="} THEN
           IF ~IsNameWord(e.X) THEN LET a == XArith(e.X, s) IN [v |-> 0, s |-> AErr(a.s)]     \* "attempted assignment to non-variable"
           ELSE LET nm == e.X.Parts[1].Value[1]
                    b == XArith(e.Y, s)
                    old == IF e.Op = "=" THEN [v |-> 0, s |-> b.s] ELSE AVarVal(b.s, nm)
                    nv == CASE e.Op = "=" -> b.v [] e.Op = "+=" -> old.v + b.v [] e.Op = "-=" -> old.v - b.v [] e.Op = "*=" -> old.v * b.v IN
                IF ~Live(old.s) THEN [v |-> 0, s |-> old.s] ELSE [v |-> nv, s |-> ASet(old.s, nm, nv)]
         ELSE IF e.Op = "&&" THEN
           LET a == XArith(e.X, s) IN
           IF a.v = 0 \/ ~Live(a.s) THEN [v |-> 0, s |-> a.s]
           ELSE LET b == XArith(e.Y, a.s) IN [v |-> IF b.v # 0 THEN 1 ELSE 0, s |-> b.s]
         ELSE IF e.Op = "||" THEN
           LET a == XArith(e.X, s) IN
           IF a.v # 0 \/ ~Live(a.s) THEN [v |-> 1, s |-> a.s]
           ELSE LET b == XArith(e.Y, a.s) IN [v |-> IF b.v # 0 THEN 1 ELSE 0, s |-> b.s]
         ELSE IF e.Op = "?" THEN     \* X ? Y.X : Y.Y
           LET a == XArith(e.X, s) IN
           IF ~Live(a.s) THEN a ELSE IF a.v # 0 THEN XArith(e.Y.X, a.s) ELSE XArith(e.Y.Y, a.s)
         ELSE LET a == XArith(e.X, s)
                  b == XArith(e.Y, a.s)
                  B(c) == IF c THEN 1 ELSE 0 IN
              IF e.Op \in {"/", "%"} /\ b.v = 0 THEN [v |-> 0, s |-> Bad(b.s, "division by zero")]
              ELSE IF e.Op = "**" /\ (b.v < 0 \/ b.v > 8) THEN [v |-> 0, s |-> Bad(b.s, "exponent out of model range")]
              ELSE [v |-> CASE e.Op = "+" -> a.v + b.v [] e.Op = "-" -> a.v - b.v [] e.Op = "*" -> a.v * b.v
                            [] e.Op = "**" -> Pow(a.v, b.v)
                            [] e.Op = "/" -> (IF (a.v < 0) = (b.v < 0) THEN 1 ELSE 0 - 1) *
                                             ((IF a.v < 0 THEN 0 - a.v ELSE a.v) \div (IF b.v < 0 THEN 0 - b.v ELSE b.v))
                            [] e.Op = "%" -> (IF a.v < 0 THEN 0 - 1 ELSE 1) *
                                             ((IF a.v < 0 THEN 0 - a.v ELSE a.v) % (IF b.v < 0 THEN 0 - b.v ELSE b.v))
                            [] e.Op = "<" -> B(a.v < b.v) [] e.Op = ">" -> B(a.v > b.v)
                            [] e.Op = "<=" -> B(a.v <= b.v) [] e.Op = ">=" -> B(a.v >= b.v)
                            [] e.Op = "==" -> B(a.v = b.v) [] e.Op = "!=" -> B(a.v # b.v)
                            [] e.Op = "," -> b.v,
                    s |-> b.s]

\* bash expands every $parameter, $(command) ... of an arithmetic expression FIRST (left to right) and evaluates the
\* resulting text afterwards: in $(( x++ - $x )) the $x is the value before the increment.
RECURSIVE PreX(_, _), AHasExp(_), AHasWrite(_)
AHasExp(e) == CASE e.k = "Word" -> \E i \in 1..Len(e.Parts) : e.Parts[i].k # "Lit"
                [] e.k = "BinaryArithm" -> AHasExp(e.X) \/ AHasExp(e.Y)
                [] OTHER -> AHasExp(e.X)
AHasWrite(e) == CASE e.k = "Word" -> FALSE
                  [] e.k = "BinaryArithm" -> e.Op \in {"=", "+=", "-=", "*="} \/ AHasWrite(e.X) \/ AHasWrite(e.Y)
                  [] e.k = "UnaryArithm" -> e.Op \in {"++", "--"} \/ AHasWrite(e.X)
                  [] OTHER -> AHasWrite(e.X)
PreX(e, s) ==
  IF ~Live(s) THEN [e |-> e, s |-> s]
  ELSE CASE e.k = "Word" ->
         IF ~AHasExp(e) THEN [e |-> e, s |-> s]
         ELSE LET r == XParts(e.Parts, 1, s, FALSE) IN [e |-> [k |-> "Word", Parts |-> <<[k |-> "Lit", Value |-> JoinOf(r.p)]>>], s |-> r.s]
    [] e.k = "BinaryArithm" -> LET a == PreX(e.X, s) b == PreX(e.Y, a.s) IN [e |-> [e EXCEPT !.X = a.e, !.Y = b.e], s |-> b.s]
    [] OTHER -> LET a == PreX(e.X, s) IN [e |-> [e EXCEPT !.X = a.e], s |-> a.s]
\* an arithmetic expression where it starts ($(( )), (( )), index, slice bound).  The code expands when the
\* evaluation reaches the word (Dev_ArithLazyExpansion).
ATop(e, s) ==
  IF D(s, "Dev_ArithLazyExpansion") THEN XArith(e, IF AHasExp(e) /\ AHasWrite(e) THEN Trig(s, "Dev_ArithLazyExpansion") ELSE s)
  ELSE LET p == PreX(e, s) IN XArith(p.e, p.s)

\* ---- word expansion:  [p |-> pieces, s |-> state]
XParts(parts, i, s, q) ==
  IF i > Len(parts) \/ ~Live(s) THEN [p |-> <<>>, s |-> s]
  ELSE LET one == XPart(parts[i], s, q)
           rest == XParts(parts, i + 1, one.s, q) IN
       [p |-> one.p \o rest.p, s |-> rest.s]

IsAtParam(pe) == pe.k = "ParamExp" /\ ~Has(pe, "Exp") /\ ~Has(pe, "Length") /\
                 ((pe.Param.Value = "@" /\ ~Has(pe, "Index")) \/
                  (Has(pe, "Index") /\ pe.Index.k = "Word" /\ pe.Index.Parts[1].k = "Lit" /\ pe.Index.Parts[1].Value = <<"@">>))

\* command substitution: a subshell whose stdout is captured; bash switches errexit off in it
XSubst(stmts, s) ==
  LET keepE == s.e /\ D(s, "Dev_ErrexitCmdSubst")
      s1 == IF keepE THEN Trig(s, "Dev_ErrexitCmdSubst") ELSE s
      r == RunSub(stmts, [s1 EXCEPT !.out = <<>>, !.e = keepE]) IN
  [v |-> StripNL(r.out),
   s |-> [s EXCEPT !.fuel = r.fuel, !.bad = r.bad, !.inp = r.inp, !.eof = r.eof, !.cs = r.st, !.trig = r.trig]]

XPart(part, s, q) ==
  LET mk(v) == <<IF q THEN PQ(v) ELSE PX(v)>> IN
  CASE part.k = "Lit" ->
         IF ~q /\ \E i \in 1..Len(part.Value) : part.Value[i] = "\\" THEN [p |-> <<>>, s |-> Bad(s, "backslash in an unquoted literal")]
         ELSE [p |-> <<IF q THEN PQ(DqUnescape(part.Value)) ELSE PL(part.Value)>>, s |-> s]
    [] part.k = "SglQuoted" ->
         LET v == IF Has(part, "Value") THEN part.Value ELSE <<>> IN
         \* inside double quotes (a word nested in "${x:-...}") bash takes ' as an ordinary character and goes on
         \* expanding between them: such trees only arise from rewrites and are outside the model
         IF q THEN [p |-> <<>>, s |-> Bad(s, "single quotes inside a double-quoted expansion")]
         ELSE [p |-> <<PQ(IF Has(part, "Dollar") THEN Ansi(v) ELSE v)>>, s |-> s]
    [] part.k = "DblQuoted" ->
         IF ~Has(part, "Parts") THEN [p |-> <<PQ(<<>>)>>, s |-> s]
         ELSE IF Len(part.Parts) = 1 /\ IsAtParam(part.Parts[1]) THEN XParts(part.Parts, 1, s, TRUE)
         ELSE LET r == XParts(part.Parts, 1, s, TRUE) IN [p |-> <<PQ(<<>>)>> \o r.p, s |-> r.s]
    [] part.k = "ParamExp" -> XParam(part, s, q)
    [] part.k = "CmdSubst" ->
         LET r == XSubst(IF Has(part, "Stmts") THEN part.Stmts ELSE <<>>, s) IN [p |-> mk(r.v), s |-> r.s]
    [] part.k = "ArithmExp" ->
         LET r == ATop(part.X, s) IN
         \* bash abandons the rest of the current LINE after an expansion error: layout-dependent
         IF r.s.aerr THEN [p |-> <<>>, s |-> Bad(r.s, "arithmetic error inside an expansion")]
         ELSE [p |-> mk(Dec(r.v)), s |-> r.s]

XParam(pe, s, q) ==
  LET nm == pe.Param.Value
      mk(v) == <<IF q THEN PQ(v) ELSE PX(v)>>
      isArr == nm \in VarNames /\ s.vars[nm].t = "a" IN
  IF IsAtParam(pe) THEN
       IF ~q THEN [p |-> <<>>, s |-> Bad(s, "unquoted $@")]
       ELSE IF nm = "@" THEN [p |-> <<PA(s.pos)>>, s |-> s]
       ELSE [p |-> <<PA(IF isArr THEN ArrVals(s.vars[nm].m) ELSE IF Look(s, nm).set THEN <<Look(s, nm).v>> ELSE <<>>)>>, s |-> s]
  ELSE IF Has(pe, "Index") THEN
       IF Has(pe, "Length") THEN     \* ${#a[@]}
            IF pe.Index.Parts[1].Value = <<"@">>
            THEN IF nm \in VarNames /\ s.vars[nm].t = "u" /\ s.u THEN [p |-> <<>>, s |-> Unbound(s)]     \* (unlike "${a[@]}")
                 ELSE [p |-> mk(Dec(IF isArr THEN Cardinality(DOMAIN s.vars[nm].m) ELSE IF Look(s, nm).set THEN 1 ELSE 0)), s |-> s]
            ELSE [p |-> <<>>, s |-> Bad(s, "length of an element")]
       ELSE LET ix0 == ATop(pe.Index, s)
                \* a negative index counts back from one past the largest index
                isA2 == nm \in VarNames /\ ix0.s.vars[nm].t = "a"
                ix == IF ix0.v < 0 /\ isA2 THEN [ix0 EXCEPT !.v = MaxKeyOf(ix0.s.vars[nm].m) + 1 + ix0.v] ELSE ix0
                set == IF isArr THEN ix.v \in DOMAIN ix.s.vars[nm].m ELSE ix.v = 0 /\ Look(ix.s, nm).set
                v == IF ~set THEN <<>> ELSE IF isArr THEN ix.s.vars[nm].m[ix.v] ELSE Look(ix.s, nm).v IN
            IF ~Live(ix.s) THEN [p |-> <<>>, s |-> ix.s]
            ELSE IF ix.s.aerr THEN [p |-> <<>>, s |-> Bad(ix.s, "arithmetic error inside an expansion")]
            ELSE IF ix.v < 0 THEN [p |-> <<>>, s |-> Bad(ix.s, "negative index")]
            ELSE IF Has(pe, "Exp") THEN [p |-> <<>>, s |-> Bad(ix.s, "operator on an element")]
            ELSE IF ~set /\ ix.s.u /\ ~D(s, "Dev_NounsetElem") THEN [p |-> <<>>, s |-> Unbound(ix.s)]
            ELSE [p |-> mk(v), s |-> IF ~set /\ ix.s.u THEN Trig(ix.s, "Dev_NounsetElem") ELSE ix.s]
  ELSE IF nm \in {"@", "*"} THEN [p |-> <<>>, s |-> Bad(s, "$* or $@ with an operator")]
  ELSE IF Has(pe, "Slice") THEN       \* ${x:off:len} with non-negative bounds
       LET x == Look(s, nm)
           o == ATop(pe.Slice.Offset, s)
           n == IF Has(pe.Slice, "Length") THEN ATop(pe.Slice.Length, o.s) ELSE [v |-> Len(x.v), s |-> o.s]
           hi == IF o.v + n.v > Len(x.v) THEN Len(x.v) ELSE o.v + n.v IN
       IF ~Live(n.s) THEN [p |-> <<>>, s |-> n.s]
       ELSE IF n.s.aerr THEN [p |-> <<>>, s |-> Bad(n.s, "arithmetic error inside an expansion")]
       ELSE IF o.v < 0 \/ n.v < 0 \/ Has(pe, "Exp") \/ Has(pe, "Length") THEN [p |-> <<>>, s |-> Bad(n.s, "slice outside the model")]
       ELSE IF ~x.set /\ s.u THEN [p |-> <<>>, s |-> Unbound(n.s)]
       ELSE [p |-> mk(SubSeq(x.v, o.v + 1, hi)), s |-> n.s]
  ELSE LET x == Look(s, nm) IN
       IF Has(pe, "Length") THEN
            IF ~x.set /\ s.u THEN [p |-> <<>>, s |-> Unbound(s)] ELSE [p |-> mk(Dec(Len(x.v))), s |-> s]
       ELSE IF Has(pe, "Exp") THEN
            LET op == pe.Exp.Op
                colon == op \in {":-", ":=", ":+", ":?"}
                null == ~x.set \/ (colon /\ x.v = <<>>)
                wparts == IF Has(pe.Exp, "Word") THEN pe.Exp.Word.Parts ELSE <<>> IN
            IF op \in {":-", "-"} THEN IF null THEN XParts(wparts, 1, s, q) ELSE [p |-> mk(x.v), s |-> s]
            ELSE IF op \in {":+", "+"} THEN IF null THEN [p |-> <<>>, s |-> s] ELSE XParts(wparts, 1, s, q)
            ELSE IF op \in {":=", "="} THEN
                 IF ~null THEN [p |-> mk(x.v), s |-> s]
                 ELSE LET r == XParts(wparts, 1, s, q)
                          v == JoinOf(r.p) IN
                      IF ~Live(r.s) THEN r ELSE [p |-> mk(v), s |-> SetVar(r.s, nm, Str(v))]
            ELSE [p |-> <<>>, s |-> Bad(s, "parameter operator outside the model")]
       ELSE IF ~x.set /\ s.u THEN [p |-> <<>>, s |-> Unbound(s)]
       ELSE [p |-> mk(x.v), s |-> s]

\* all words of a command, left to right:  [f |-> fields, s]
XWords(ws, i, s) ==
  IF i > Len(ws) \/ ~Live(s) THEN [f |-> <<>>, s |-> s]
  ELSE LET one == XParts(ws[i].Parts, 1, s, FALSE)
           rest == XWords(ws, i + 1, one.s) IN
       [f |-> FieldsOf(one.p) \o rest.f, s |-> rest.s]
\* one word without splitting (assignment value, case word, here-string, [[ ]] operand)
XJoin(w, s) == LET r == XParts(w.Parts, 1, s, FALSE) IN [v |-> JoinOf(r.p), p |-> r.p, s |-> r.s]

\* ---- [[ ]]:  [v |-> BOOLEAN, s]
XTest(x, s) ==
  IF ~Live(s) THEN [v |-> FALSE, s |-> s]
  ELSE CASE x.k = "Word" -> LET r == XJoin(x, s) IN [v |-> r.v # <<>>, s |-> r.s]
    [] x.k = "ParenTest" -> XTest(x.X, s)
    [] x.k = "UnaryTest" ->
         IF x.Op = "!" THEN LET r == XTest(x.X, s) IN [v |-> ~r.v, s |-> r.s]
         ELSE LET r == XJoin(x.X, s) IN
              IF x.Op = "-n" THEN [v |-> r.v # <<>>, s |-> r.s]
              ELSE IF x.Op = "-z" THEN [v |-> r.v = <<>>, s |-> r.s]
              ELSE [v |-> FALSE, s |-> Bad(r.s, "unary test outside the model")]
    [] x.k = "BinaryTest" ->
         IF x.Op \in {"&&", "||"} /\ x.X.k = "UnaryTest" /\ x.X.Op = "!" /\ D(s, "Dev_TestBangPrecedence") THEN
              \* the code's parser reads `! a && b` as `! (a && b)`
              LET r == XTest([x EXCEPT !.X = x.X.X], Trig(s, "Dev_TestBangPrecedence")) IN [v |-> ~r.v, s |-> r.s]
         ELSE IF x.Op = "&&" THEN LET a == XTest(x.X, s) IN IF ~a.v \/ ~Live(a.s) THEN a ELSE XTest(x.Y, a.s)
         ELSE IF x.Op = "||" THEN LET a == XTest(x.X, s) IN IF a.v \/ ~Live(a.s) THEN a ELSE XTest(x.Y, a.s)
         ELSE LET a == XJoin(x.X, s)
                  b == XJoin(x.Y, a.s) IN
              IF ~Live(b.s) THEN [v |-> FALSE, s |-> b.s]
              ELSE IF x.Op \in {"==", "="} THEN [v |-> Matches(b.p, a.v), s |-> b.s]
              ELSE IF x.Op = "!=" THEN [v |-> ~Matches(b.p, a.v), s |-> b.s]
              ELSE IF x.Op = "=~" THEN
                   IF ~ReOK(b.p) THEN [v |-> FALSE, s |-> Bad(b.s, "regular expression outside the model")]
                   ELSE [v |-> ReMatches(b.p, a.v), s |-> b.s]
              ELSE IF x.Op \in {"-eq", "-ne", "-lt", "-le", "-gt", "-ge"} THEN
                   IF ~IsNum(a.v) \/ ~IsNum(b.v) THEN [v |-> FALSE, s |-> Bad(b.s, "numeric test on non-integer text")]
                   ELSE LET m == NumVal(a.v) n == NumVal(b.v) IN
                        [v |-> CASE x.Op = "-eq" -> m = n [] x.Op = "-ne" -> m # n [] x.Op = "-lt" -> m < n
                                 [] x.Op = "-le" -> m <= n [] x.Op = "-gt" -> m > n [] x.Op = "-ge" -> m >= n, s |-> b.s]
              ELSE [v |-> FALSE, s |-> Bad(b.s, "binary test outside the model")]

\* ---- test / [ : POSIX algorithm by number of arguments; 0 true, 1 false, 2 error
IsUnOp(a) == a \in {<<"-", "n">>, <<"-", "z">>}
IsBinOp(a) == a \in {<<"=">>, <<"=", "=">>, <<"!", "=">>, <<"-", "e", "q">>, <<"-", "n", "e">>, <<"-", "l", "t">>,
                     <<"-", "l", "e">>, <<"-", "g", "t">>, <<"-", "g", "e">>}
Test1(a) == IF a # <<>> THEN 0 ELSE 1
Test2(a, b) == IF a = <<"!">> THEN 1 - Test1(b)
               ELSE IF a = <<"-", "n">> THEN Test1(b) ELSE IF a = <<"-", "z">> THEN 1 - Test1(b) ELSE 2
Test3(a, o, b) ==
  IF o \in {<<"=">>, <<"=", "=">>} THEN IF a = b THEN 0 ELSE 1
  ELSE IF o = <<"!", "=">> THEN IF a # b THEN 0 ELSE 1
  ELSE IF IsBinOp(o) THEN
       IF ~IsNum(a) \/ ~IsNum(b) THEN 2
       ELSE LET m == NumVal(a) n == NumVal(b)
                r == CASE o = <<"-", "e", "q">> -> m = n [] o = <<"-", "n", "e">> -> m # n [] o = <<"-", "l", "t">> -> m < n
                       [] o = <<"-", "l", "e">> -> m <= n [] o = <<"-", "g", "t">> -> m > n [] o = <<"-", "g", "e">> -> m >= n IN
            IF r THEN 0 ELSE 1
  ELSE IF a = <<"!">> THEN LET r == Test2(o, b) IN IF r = 2 THEN 2 ELSE 1 - r
  ELSE 2
TestArgs(a) ==
  CASE Len(a) = 0 -> 1
    [] Len(a) = 1 -> Test1(a[1])
    [] Len(a) = 2 -> Test2(a[1], a[2])
    [] Len(a) = 3 -> Test3(a[1], a[2], a[3])
    [] Len(a) = 4 -> IF a[1] = <<"!">> THEN LET r == Test3(a[2], a[3], a[4]) IN IF r = 2 THEN 2 ELSE 1 - r ELSE 2
    [] OTHER -> 2

\* ---- printf with the formats the generator uses: %s, \n, other characters literally; the
\* format is reused while arguments remain
RECURSIVE Fmt1(_, _, _)      \* one pass: [o |-> text, used |-> number of arguments consumed]
Fmt1(f, args, k) ==
  IF f = <<>> THEN [o |-> <<>>, used |-> k]
  ELSE IF Len(f) >= 2 /\ f[1] = "%" /\ f[2] = "s"
       THEN LET r == Fmt1(SubSeq(f, 3, Len(f)), args, k + 1) IN
            [o |-> (IF k + 1 <= Len(args) THEN args[k + 1] ELSE <<>>) \o r.o, used |-> r.used]
       ELSE IF Len(f) >= 2 /\ f[1] = "\\" /\ f[2] = "n"
       THEN LET r == Fmt1(SubSeq(f, 3, Len(f)), args, k) IN [o |-> <<NL>> \o r.o, used |-> r.used]
       ELSE LET r == Fmt1(Tail(f), args, k) IN [o |-> <<Head(f)>> \o r.o, used |-> r.used]
RECURSIVE FmtAll(_, _)
FmtAll(f, args) ==
  LET r == Fmt1(f, args, 0) IN
  IF r.used = 0 \/ r.used >= Len(args) THEN r.o ELSE r.o \o FmtAll(f, SubSeq(args, r.used + 1, Len(args)))
FmtOK(f) == \A i \in 1..Len(f) : (f[i] = "%" => (i < Len(f) /\ f[i + 1] = "s")) /\
                                   (f[i] = "\\" => (i < Len(f) /\ f[i + 1] = "n"))

\* ---- traps: the action is shell text; the evaluator knows the text of the actions it can run
TrapActions == <<
  [txt |-> <<"e", "c", "h", "o", " ", "T", "$", "?">>,
   body |-> <<[k |-> "Stmt", Cmd |-> [k |-> "CallExpr", Args |-> <<[k |-> "Word", Parts |-> <<[k |-> "Lit", Value |-> W_echo]>>],
               [k |-> "Word", Parts |-> <<[k |-> "Lit", Value |-> <<"T">>], [k |-> "ParamExp", Short |-> TRUE, Param |-> [k |-> "Lit", Value |-> "?"]]>>]>>]]>>],
  [txt |-> <<"e", "c", "h", "o", " ", "E", "$", "?">>,
   body |-> <<[k |-> "Stmt", Cmd |-> [k |-> "CallExpr", Args |-> <<[k |-> "Word", Parts |-> <<[k |-> "Lit", Value |-> W_echo]>>],
               [k |-> "Word", Parts |-> <<[k |-> "Lit", Value |-> <<"E">>], [k |-> "ParamExp", Short |-> TRUE, Param |-> [k |-> "Lit", Value |-> "?"]]>>]>>]]>>],
  [txt |-> <<"e", "c", "h", "o", " ", "T", "$", "?", ";", " ", "e", "x", "i", "t", " ", "9">>,
   body |-> <<[k |-> "Stmt", Cmd |-> [k |-> "CallExpr", Args |-> <<[k |-> "Word", Parts |-> <<[k |-> "Lit", Value |-> W_echo]>>],
               [k |-> "Word", Parts |-> <<[k |-> "Lit", Value |-> <<"T">>], [k |-> "ParamExp", Short |-> TRUE, Param |-> [k |-> "Lit", Value |-> "?"]]>>]>>]],
              [k |-> "Stmt", Cmd |-> [k |-> "CallExpr", Args |-> <<[k |-> "Word", Parts |-> <<[k |-> "Lit", Value |-> W_exit]>>],
               [k |-> "Word", Parts |-> <<[k |-> "Lit", Value |-> <<"9">>]>>]>>]]>>] >>
TrapKnown(t) == \E i \in 1..Len(TrapActions) : TrapActions[i].txt = t
TrapBody(t) == TrapActions[CHOOSE i \in 1..Len(TrapActions) : TrapActions[i].txt = t].body

\* Run a trap action: $? is the status that triggered it and is restored afterwards
RunTrap(body, s) ==
  LET r == XStmts(body, 1, [s EXCEPT !.intrap = TRUE]) IN
  IF r.bad # "" THEN r
  ELSE IF Live(r) THEN [r EXCEPT !.st = s.st, !.intrap = s.intrap]
  ELSE IF D(s, "Dev_ExitInTrapIgnored") THEN [Trig(r, "Dev_ExitInTrapIgnored") EXCEPT !.st = s.st, !.intrap = s.intrap, !.ctl = "n"]
  ELSE [r EXCEPT !.intrap = s.intrap]

\* ERR trap, then errexit.  Called where bash checks: see XStmt.
\* The ERR trap is not inherited by functions (efun) nor by subshell environments (esub).
ErrAction(s) ==
  LET can == s.te.set /\ ~s.esub /\ ~s.intrap
      devOn == can /\ s.efun /\ D(s, "Dev_ErrTrapInherited")
      s1 == IF devOn THEN Trig(s, "Dev_ErrTrapInherited") ELSE s
      t0 == IF (can /\ ~s.efun) \/ devOn THEN RunTrap(s.te.body, [s1 EXCEPT !.ctl = "n"]) ELSE s1
      t == IF Live(t0) THEN [t0 EXCEPT !.ctl = s.ctl] ELSE t0 IN     \* (s.ctl # "n" only under Dev_ErrCheckEveryStmt)
  IF t.bad = "" /\ t.ctl \in {"n", "r"} /\ s.e THEN [t EXCEPT !.ctl = "x"] ELSE t

\* ---- a subshell environment: runs stmts in a copy; returns the copy at its exit (after its
\* EXIT trap).  The caller decides what flows back (out, inp, fuel, bad, st, trig).
RunSub(stmts, s) ==
  LET lost == D(s, "Dev_ErrexitSubshellCtx") /\ s.ign
      s1 == [s EXCEPT !.tx = NoTrap, !.ld = 0, !.ldi = 0, !.pb = 0, !.pc = 0, !.sub = @ + 1, !.ctl = "n", !.cs = 0 - 1,
                      !.esub = s.sub >= 1,          \* the program itself (sub = 0 -> 1) owns its traps
                      !.ign = IF lost THEN FALSE ELSE @,
                      !.trig = IF lost THEN @ \cup {"Dev_ErrexitSubshellCtx"} ELSE @]
      r == XStmts(stmts, 1, s1)
      \* return/break/continue do not leave a subshell: they end it with the current status
      r1 == IF r.bad # "" THEN r
            ELSE IF r.bg THEN Bad(r, "shell ends while a background job may be running")
            ELSE [r EXCEPT !.ctl = "n"]
      skip == D(s, "Dev_ExitTrapSubshell") /\ s.sub >= 1
      runx == r1.tx.set /\ r1.bad = "" /\ ~skip
      r1t == IF r1.tx.set /\ r1.bad = "" /\ skip THEN Trig(r1, "Dev_ExitTrapSubshell") ELSE r1
      t == IF runx THEN XStmts(r1.tx.body, 1, [r1 EXCEPT !.tx = NoTrap, !.intrap = TRUE]) ELSE r1t IN
  IF ~runx THEN t
  ELSE IF t.ctl = "x" /\ t.bad = "" /\ ~D(s, "Dev_ExitInTrapIgnored") THEN [t EXCEPT !.ctl = "n"]   \* the trap action called exit
  ELSE IF t.ctl = "x" /\ t.bad = "" THEN [Trig(t, "Dev_ExitInTrapIgnored") EXCEPT !.ctl = "n", !.st = r1.st]
  ELSE [t EXCEPT !.st = r1.st, !.ctl = IF t.bad = "" THEN "n" ELSE @]

\* What flows back from a subshell environment into the parent state
Back(s, r) == [s EXCEPT !.fuel = r.fuel, !.bad = r.bad, !.inp = r.inp, !.eof = r.eof, !.st = r.st, !.trig = r.trig]

\* ---- pipelines: every stage in its own subshell environment; stdout of X is stdin of Y
XPipe(c, s) ==
  LET L == RunSub(<<c.X>>, [s EXCEPT !.out = <<>>])
      sR == [s EXCEPT !.fuel = L.fuel, !.bad = L.bad, !.trig = L.trig, !.inp = L.out, !.eof = FALSE]
      lastInParent == D(s, "Dev_LastPipeInParent")
      R == IF lastInParent THEN XStmt(c.Y, sR) ELSE RunSub(<<c.Y>>, [sR EXCEPT !.out = <<>>])
      \* (with the deviation the last stage may have switched pipefail in the shell itself before the status is computed)
      pf == IF lastInParent THEN R.pf ELSE s.pf
      st == IF pf /\ R.st = 0 THEN L.st ELSE R.st
      \* bash: a writer whose reader is gone may be killed by SIGPIPE (status 141), depending on timing;
      \* the code's writer just gets an error that nothing looks at
      race == s.pf /\ L.out # <<>> /\ ~R.eof /\ ~lastInParent IN
  IF L.bad # "" THEN Bad(s, L.bad)
  ELSE IF lastInParent THEN
       \* the last stage ran in the shell itself: everything it did stays (variables, exit, break ...)
       LET R1 == [R EXCEPT !.inp = L.inp, !.eof = s.eof, !.st = IF R.ctl = "n" THEN st ELSE @] IN
       IF race THEN Bad(R1, "pipefail with an unread writer")
       ELSE Trig(R1, "Dev_LastPipeInParent")       \* (whether it matters depends on what the stage does: always flagged)
  ELSE LET b == [Back(s, R) EXCEPT !.out = s.out \o R.out, !.inp = L.inp, !.eof = s.eof, !.st = st] IN
       IF race THEN Bad(b, "pipefail with an unread writer") ELSE b

\* ---- assignments
XArrElems(es, i, s, acc) ==      \* acc: [m |-> map, nx |-> next index]
  IF i > Len(es) \/ ~Live(s) THEN [m |-> acc.m, s |-> s]
  ELSE IF Has(es[i], "Index") THEN
       LET ix == ATop(es[i].Index, s)
           v == XJoin(es[i].Value, ix.s) IN
       IF ix.v < 0 THEN [m |-> acc.m, s |-> Bad(ix.s, "negative index")]
       ELSE XArrElems(es, i + 1, v.s, [m |-> (ix.v :> v.v) @@ acc.m, nx |-> ix.v + 1])
  ELSE LET r == XParts(es[i].Value.Parts, 1, s, FALSE)
           fs == FieldsOf(r.p)
           m2 == [j \in (DOMAIN acc.m) \cup (acc.nx..(acc.nx + Len(fs) - 1)) |->
                    IF j >= acc.nx /\ j < acc.nx + Len(fs) THEN fs[j - acc.nx + 1] ELSE acc.m[j]] IN
       XArrElems(es, i + 1, r.s, [m |-> m2, nx |-> acc.nx + Len(fs)])

MaxKey(m) == IF DOMAIN m = {} THEN 0 - 1 ELSE CHOOSE x \in DOMAIN m : \A y \in DOMAIN m : y <= x
EmptyMap == [j \in {} |-> <<>>]

\* `loc` is the stack of function-call frames; a frame maps the names made local by that call to
\* the value they had before (restored when the call returns: dynamic scoping)
MakeLocal(s, nm) ==
  LET top == s.loc[Len(s.loc)] IN
  IF nm \in DOMAIN top THEN s ELSE [s EXCEPT !.loc[Len(s.loc)] = (nm :> s.vars[nm]) @@ top]

XAssign(as, s, local) ==
  LET nm == as.Name.Value
      s0 == IF local THEN MakeLocal(s, nm) ELSE s
      cur == s0.vars[nm] IN
  IF nm \notin VarNames THEN Bad(s, "assignment to a name outside the model")
  ELSE IF Has(as, "Naked") THEN IF local /\ nm \notin DOMAIN s.loc[Len(s.loc)] THEN SetVar(s0, nm, Unset) ELSE s0
  ELSE IF Has(as, "Array") THEN
       LET base == IF Has(as, "Append") /\ cur.t = "a" THEN cur.m
                   ELSE IF Has(as, "Append") /\ cur.t = "s" THEN (0 :> cur.v) ELSE EmptyMap
           es == IF Has(as.Array, "Elems") THEN as.Array.Elems ELSE <<>>
           r == XArrElems(es, 1, s0, [m |-> base, nx |-> MaxKey(base) + 1]) IN
       IF ~Live(r.s) THEN r.s ELSE SetVar(r.s, nm, Arr(r.m))
  ELSE IF Has(as, "Index") THEN
       LET ix0 == ATop(as.Index, s0)
           base == IF cur.t = "a" THEN cur.m ELSE IF cur.t = "s" THEN (0 :> cur.v) ELSE EmptyMap
           ix == IF ix0.v < 0 THEN [ix0 EXCEPT !.v = MaxKeyOf(base) + 1 + ix0.v] ELSE ix0
           v == IF Has(as, "Value") THEN XJoin(as.Value, ix.s) ELSE [v |-> <<>>, s |-> ix.s]
           old == IF Has(as, "Append") /\ ix.v \in DOMAIN base THEN base[ix.v] ELSE <<>> IN
       IF ~Live(v.s) THEN v.s
       ELSE IF ix.v < 0 THEN Bad(v.s, "negative index")
       ELSE SetVar(v.s, nm, Arr((ix.v :> (old \o v.v)) @@ base))
  ELSE LET v == IF Has(as, "Value") THEN XJoin(as.Value, s0) ELSE [v |-> <<>>, s |-> s0] IN
       IF ~Live(v.s) THEN v.s
       ELSE IF cur.t = "a" THEN
            LET old == IF Has(as, "Append") /\ 0 \in DOMAIN cur.m THEN cur.m[0] ELSE <<>> IN
            SetVar(v.s, nm, Arr((0 :> (old \o v.v)) @@ cur.m))
       ELSE SetVar(v.s, nm, Str((IF Has(as, "Append") /\ cur.t = "s" THEN cur.v ELSE <<>>) \o v.v))

XAssigns(as, i, s, local) ==
  IF i > Len(as) \/ ~Live(s) THEN s ELSE XAssigns(as, i + 1, XAssign(as[i], s, local), local)

\* ---- function call
XFn(nm, args, s) ==
  LET f == s.fn[nm]
      s1 == [s EXCEPT !.pos = args, !.fd = @ + 1, !.fsub = s.sub, !.loc = Append(@, <<>>), !.ld = 0, !.efun = TRUE]
      r == XStmt(f.body, s1)
      top == r.loc[Len(r.loc)]
      vars2 == [n \in VarNames |-> IF n \in DOMAIN top THEN top[n] ELSE r.vars[n]] IN
  IF r.bad # "" THEN r
  ELSE [r EXCEPT !.pos = s.pos, !.fd = s.fd, !.fsub = s.fsub, !.loc = SubSeq(@, 1, Len(@) - 1), !.ld = s.ld, !.efun = s.efun,
                 !.vars = vars2, !.ctl = IF @ = "r" THEN "n" ELSE @]

\* ---- builtins.  a = arguments (texts) after the command name
XRead(a, s) ==
  IF Len(a) # 1 \/ Len(a[1]) # 1 \/ a[1][1] \notin VarNames THEN Bad(s, "read outside the model")
  ELSE LET k == FirstNL(s.inp)
           line == IF k = 0 THEN s.inp ELSE SubSeq(s.inp, 1, k - 1)
           rest == IF k = 0 THEN <<>> ELSE SubSeq(s.inp, k + 1, Len(s.inp))
           v == TrimR(TrimL(line)) IN
       IF \E j \in 1..Len(line) : line[j] = "\\" THEN Bad(s, "read of a backslash")
       ELSE [SetVar(s, a[1][1], Str(v)) EXCEPT !.inp = rest, !.eof = @ \/ k = 0, !.st = IF k = 0 THEN 1 ELSE 0]

\* `IFS= read -r NAME`: no field splitting and no backslash processing, the variable receives the whole line
RawLitWord(v) == [k |-> "Word", Parts |-> <<[k |-> "Lit", Value |-> v]>>]
RawReadCmd(nm) == [k |-> "CallExpr", Assigns |-> <<[k |-> "Assign", Name |-> [k |-> "Lit", Value |-> "IFS"]]>>,
                   Args |-> <<RawLitWord(W_read), RawLitWord(<<"-", "r">>), RawLitWord(nm)>>]
IsRawRead(c) == \E nm \in {<<"l">>, <<"x">>} : c = RawReadCmd(nm)
XReadRaw(nm, s) ==
  LET k == FirstNL(s.inp)
      line == IF k = 0 THEN s.inp ELSE SubSeq(s.inp, 1, k - 1)
      rest == IF k = 0 THEN <<>> ELSE SubSeq(s.inp, k + 1, Len(s.inp)) IN
  [SetVar(s, nm[1], Str(line)) EXCEPT !.inp = rest, !.eof = @ \/ k = 0, !.st = IF k = 0 THEN 1 ELSE 0]

CountArg(a, s) ==     \* optional numeric argument of exit/return/break/continue/shift: [ok, n]
  IF a = <<>> THEN [ok |-> TRUE, given |-> FALSE, n |-> 0]
  ELSE IF Len(a) = 1 /\ IsNum(a[1]) /\ Len(a[1]) <= 4 THEN [ok |-> TRUE, given |-> TRUE, n |-> NumVal(a[1])]
  ELSE [ok |-> FALSE, given |-> TRUE, n |-> 0]

XSet(a, s) ==
  IF a = <<>> THEN Bad(s, "set without arguments")
  ELSE IF a[1] = <<"-", "-">> THEN St([s EXCEPT !.pos = Tail(a)], 0)
  ELSE IF a = <<<<"-", "e">>>> THEN St([s EXCEPT !.e = TRUE], 0)
  ELSE IF a = <<<<"+", "e">>>> THEN St([s EXCEPT !.e = FALSE], 0)
  ELSE IF a = <<<<"-", "u">>>> THEN St([s EXCEPT !.u = TRUE], 0)
  ELSE IF a = <<<<"+", "u">>>> THEN St([s EXCEPT !.u = FALSE], 0)
  ELSE IF a = <<<<"-", "o">>, W_pipefail>> THEN St([s EXCEPT !.pf = TRUE], 0)
  ELSE IF a = <<<<"+", "o">>, W_pipefail>> THEN St([s EXCEPT !.pf = FALSE], 0)
  ELSE Bad(s, "set option outside the model")

XTrap(a, s) ==
  IF Len(a) # 2 THEN Bad(s, "trap outside the model")
  ELSE LET act == IF a[1] = <<"-">> THEN NoTrap
                  ELSE IF TrapKnown(a[1]) THEN [set |-> TRUE, body |-> TrapBody(a[1])] ELSE [set |-> FALSE, unknown |-> TRUE] IN
       IF Has(act, "unknown") THEN Bad(s, "trap action outside the model")
       ELSE IF a[2] = W_EXIT THEN St([s EXCEPT !.tx = act], 0)
       ELSE IF a[2] = W_ERR THEN
            \* an ERR trap set inside a function or subshell interacts with the save/restore of the
            \* inherited trap: only top-level ERR traps are modelled
            IF s.fd # 0 \/ s.sub # 1 THEN Bad(s, "ERR trap set in a function or subshell") ELSE St([s EXCEPT !.te = act], 0)
       ELSE Bad(s, "trap condition outside the model")

XBuiltin(nm, a, s) ==
  CASE nm = W_echo -> St(Out(s, JoinSp(a) \o <<NL>>), 0)
    [] nm = W_printf ->
         IF a = <<>> \/ ~FmtOK(a[1]) THEN Bad(s, "printf format outside the model")
         ELSE St(Out(s, FmtAll(a[1], Tail(a))), 0)
    [] nm \in {W_true, W_colon} -> St(s, 0)
    [] nm = W_false -> St(s, 1)
    [] nm = W_exit ->
         LET c == CountArg(a, s) IN
         IF ~c.ok THEN Bad(s, "exit argument outside the model")
         ELSE IF s.intrap /\ D(s, "Dev_ExitInTrapIgnored")     \* the code: only sets $? for the next command of the action
         THEN Trig(St(s, IF c.given THEN Mod256(c.n) ELSE s.st), "Dev_ExitInTrapIgnored")
         ELSE [s EXCEPT !.ctl = "x", !.st = IF c.given THEN Mod256(c.n) ELSE @]
    [] nm = W_return ->
         LET c == CountArg(a, s) IN
         IF ~c.ok THEN Bad(s, "return argument outside the model")
         ELSE IF s.fd = 0 THEN
              \* not in a function: an error, status 2 (the code: 1); the shell continues
              IF D(s, "Dev_ReturnTopLevel") THEN Trig(St(s, 1), "Dev_ReturnTopLevel") ELSE St(s, 2)
         ELSE IF s.sub > s.fsub /\ D(s, "Dev_ReturnSubshell") THEN Trig(St(s, 1), "Dev_ReturnSubshell")
         ELSE IF ~c.given /\ D(s, "Dev_ReturnNoArg") THEN [Trig(s, "Dev_ReturnNoArg") EXCEPT !.ctl = "r", !.st = 0]
         ELSE [s EXCEPT !.ctl = "r", !.st = IF c.given THEN Mod256(c.n) ELSE @]
    [] nm \in {W_break, W_continue} ->
         LET c == CountArg(a, s)
             n == IF c.given THEN c.n ELSE 1 IN
         IF ~c.ok THEN Bad(s, "break argument outside the model")
         ELSE IF D(s, "Dev_BreakDeferred") THEN
              \* the code: break/continue only leave a counter behind that the innermost loop looks at after
              \* each statement of its body; the loop nesting is not reset by a function call
              IF s.ldi = 0 THEN St(s, 0)
              ELSE IF n <= 0 /\ D(s, "Dev_BreakZero") THEN Trig(St(s, 0), "Dev_BreakZero")
              ELSE IF n <= 0 THEN Bad(s, "break 0 under deferred break")
              ELSE LET s1 == IF s.ld = 0 THEN Trig(s, "Dev_BreakDeferred") ELSE s IN
                   IF nm = W_break THEN [s1 EXCEPT !.pb = n, !.st = 0] ELSE [s1 EXCEPT !.pc = n, !.st = 0]
         ELSE IF s.ld = 0 THEN St(s, 0)                  \* "only meaningful in a loop": status 0, no effect
         ELSE IF n <= 0 THEN
              \* break 0: error status 1 and the loop is left (the code: ignored)
              IF D(s, "Dev_BreakZero") THEN Trig(St(s, 0), "Dev_BreakZero")
              ELSE [s EXCEPT !.ctl = "b", !.n = s.ld, !.st = 1]
         \* a count larger than the number of enclosing loops acts on the outermost loop
         ELSE [s EXCEPT !.ctl = IF nm = W_break THEN "b" ELSE "c", !.n = IF n > s.ld THEN s.ld ELSE n, !.st = 0]
    [] nm = W_set -> XSet(a, s)
    [] nm = W_shift ->
         LET c == CountArg(a, s)
             n == IF c.given THEN c.n ELSE 1 IN
         IF ~c.ok \/ n < 0 THEN Bad(s, "shift argument outside the model")
         ELSE IF n > Len(s.pos) THEN
              IF D(s, "Dev_ShiftRange") THEN Trig(St([s EXCEPT !.pos = <<>>], 0), "Dev_ShiftRange") ELSE St(s, 1)
         ELSE St([s EXCEPT !.pos = SubSeq(@, n + 1, Len(@))], 0)
    [] nm = W_unset ->
         IF Len(a) # 1 \/ Len(a[1]) # 1 \/ a[1][1] \notin VarNames THEN Bad(s, "unset outside the model")
         ELSE LET v == a[1][1] IN
              \* unsetting a variable that is local to a calling function uncovers the outer one (not modelled)
              IF \E j \in 1..(Len(s.loc) - 1) : v \in DOMAIN s.loc[j] THEN Bad(s, "unset of a caller's local")
              ELSE St(SetVar(s, v, Unset), 0)
    [] nm = W_read -> XRead(a, s)
    [] nm = W_trap -> XTrap(a, s)
    [] nm = W_wait -> IF a = <<>> THEN St([s EXCEPT !.bg = FALSE], 0) ELSE Bad(s, "wait with arguments")
    [] (nm = W_test \/ nm = W_lbr) /\ (\E i \in 1..Len(a) : BigNum(a[i])) -> Bad(s, "integer outside the model's range")
    [] nm = W_test -> St(s, TestArgs(a))
    [] nm = W_lbr ->
         IF a = <<>> \/ a[Len(a)] # W_rbr THEN St(s, 2) ELSE St(s, TestArgs(SubSeq(a, 1, Len(a) - 1)))
    [] OTHER ->
         IF Len(nm) = 1 /\ nm[1] \in FnNames /\ s.fn[nm[1]].def THEN XFn(nm[1], a, s)
         ELSE Bad(s, "command outside the model")

XCall(c, s) ==
  IF ~Has(c, "Args") THEN
       LET r == XAssigns(c.Assigns, 1, [s EXCEPT !.cs = 0 - 1], FALSE) IN
       IF ~Live(r) THEN r ELSE St(r, IF r.cs >= 0 THEN r.cs ELSE 0)
  ELSE IF Has(c, "Assigns") THEN
       \* the one temporary environment in the model: `IFS= read -r NAME` takes the line as it is
       IF IsRawRead(c) THEN XReadRaw(c.Args[3].Parts[1].Value, s) ELSE Bad(s, "temporary environment")
  ELSE LET e == XWords(c.Args, 1, [s EXCEPT !.cs = 0 - 1]) IN
       IF ~Live(e.s) THEN e.s
       ELSE IF e.f = <<>> THEN St(e.s, IF e.s.cs >= 0 THEN e.s.cs ELSE 0)
       ELSE XBuiltin(e.f[1], Tail(e.f), e.s)

\* ---- loops
\* Apply the control flag left by a loop body: [stop |-> leave this loop, s]
AfterBody(b) ==
  IF b.bad # "" THEN [stop |-> TRUE, s |-> b]
  ELSE IF b.ctl = "b" THEN [stop |-> TRUE, s |-> IF b.n > 1 THEN [b EXCEPT !.n = @ - 1] ELSE [b EXCEPT !.ctl = "n"]]
  ELSE IF b.ctl = "c" THEN IF b.n > 1 THEN [stop |-> TRUE, s |-> [b EXCEPT !.n = @ - 1]]
                           ELSE [stop |-> FALSE, s |-> [b EXCEPT !.ctl = "n"]]
  ELSE IF b.ctl = "n" THEN [stop |-> FALSE, s |-> b]
  ELSE [stop |-> TRUE, s |-> b]

\* The code's loop body (Dev_BreakDeferred): the counters are looked at after each statement of the body
RECURSIVE XBodyDev(_, _, _)
XBodyDev(ss, i, s) ==
  IF i > Len(ss) THEN [stop |-> FALSE, s |-> s]
  ELSE LET r == XStmt(ss[i], s) IN
       IF ~Live(r) THEN [stop |-> TRUE, s |-> r]
       ELSE IF r.pc > 0 THEN [stop |-> r.pc > 1, s |-> [r EXCEPT !.pc = @ - 1]]
       ELSE IF r.pb > 0 THEN [stop |-> TRUE, s |-> [r EXCEPT !.pb = @ - 1]]
       ELSE XBodyDev(ss, i + 1, r)
Body(ss, s) == IF D(s, "Dev_BreakDeferred") THEN XBodyDev(ss, 1, s) ELSE AfterBody(XStmts(ss, 1, s))

\* last = status of the last body execution (0 if none): the status of the loop
XWhile(c, s, last) ==
  IF s.fuel = 0 THEN Bad(s, "fuel")
  ELSE LET c0 == XStmts(c.Cond, 1, [s EXCEPT !.fuel = @ - 1, !.ign = TRUE])
           cnd == IF c0.bad = "" THEN [c0 EXCEPT !.ign = s.ign] ELSE c0 IN
       IF ~Live(cnd) THEN
            \* break/continue in the condition act on this loop as well
            LET a == AfterBody(cnd) IN IF a.stop THEN a.s ELSE XWhile(c, a.s, last)
       ELSE IF (cnd.st = 0) = Has(c, "Until") THEN
            IF D(s, "Dev_WhileStatus") THEN (IF last # 0 THEN Trig(St(cnd, 0), "Dev_WhileStatus") ELSE St(cnd, 0))
            ELSE St(cnd, last)
       ELSE LET a == Body(c.Do, cnd) IN
            IF a.stop THEN a.s ELSE XWhile(c, a.s, a.s.st)

XFor(c, items, i, s, last) ==
  IF i > Len(items) THEN St(s, last)
  ELSE IF s.fuel = 0 THEN Bad(s, "fuel")
  ELSE LET s1 == SetVar([s EXCEPT !.fuel = @ - 1], c.Loop.Name.Value, Str(items[i]))
           a == Body(c.Do, s1) IN
       IF a.stop THEN a.s ELSE XFor(c, items, i + 1, a.s, a.s.st)

XCaseItems(items, i, t, s, fall) ==
  IF i > Len(items) THEN s
  ELSE LET it == items[i]
           m == IF fall THEN [v |-> TRUE, s |-> s]
                ELSE LET pr == XJoin(it.Patterns[1], s) IN [v |-> Matches(pr.p, t), s |-> pr.s] IN
       IF Len(it.Patterns) # 1 THEN Bad(s, "several patterns")
       ELSE IF ~Live(m.s) THEN m.s
       ELSE IF ~m.v THEN XCaseItems(items, i + 1, t, m.s, FALSE)
       ELSE LET b == IF Has(it, "Stmts") THEN XStmts(it.Stmts, 1, m.s) ELSE St(m.s, 0) IN
            IF ~Live(b) THEN b
            ELSE IF it.Op = ";&" THEN XCaseItems(items, i + 1, t, b, TRUE)
            ELSE IF it.Op = ";;&" THEN XCaseItems(items, i + 1, t, b, FALSE)
            ELSE b

RECURSIVE XIf(_, _)
XIf(c, s) ==
  IF ~Has(c, "Cond") THEN XStmts(c.Then, 1, s)          \* the `else` branch
  ELSE LET c0 == XStmts(c.Cond, 1, [s EXCEPT !.ign = TRUE])
           cnd == IF c0.bad = "" THEN [c0 EXCEPT !.ign = s.ign] ELSE c0 IN
       IF ~Live(cnd) THEN cnd
       ELSE IF cnd.st = 0 THEN XStmts(c.Then, 1, cnd)
       ELSE IF Has(c, "Else") THEN XIf(c.Else, cnd)
       ELSE St(cnd, 0)

\* a loop is over: `break 5` inside two loops ends with the outermost loop of the function or subshell
LoopEnd(r, s) == [r EXCEPT !.ld = s.ld, !.ldi = s.ldi, !.ctl = IF @ \in {"b", "c"} /\ s.ld = 0 THEN "n" ELSE @]

\* ---- commands
XCmd(c, s) ==
  CASE c.k = "CallExpr" -> XCall(c, s)
    [] c.k = "Block" -> XStmts(c.Stmts, 1, s)
    [] c.k = "Subshell" ->
         LET r == RunSub(IF Has(c, "Stmts") THEN c.Stmts ELSE <<>>, [s EXCEPT !.out = <<>>]) IN
         [Back(s, r) EXCEPT !.out = s.out \o r.out]
    [] c.k = "IfClause" -> XIf(c, s)
    [] c.k = "WhileClause" -> LET r == XWhile(c, [s EXCEPT !.ld = @ + 1, !.ldi = @ + 1], 0) IN
                              IF r.bad = "" THEN LoopEnd(r, s) ELSE r
    [] c.k = "ForClause" ->
         LET w == XWords(c.Loop.Items, 1, s)
             r == XFor(c, w.f, 1, [w.s EXCEPT !.ld = @ + 1, !.ldi = @ + 1], 0) IN
         IF ~Live(w.s) THEN w.s ELSE IF r.bad = "" THEN LoopEnd(r, s) ELSE r
    [] c.k = "CaseClause" ->
         LET w == XJoin(c.Word, s) IN
         IF ~Live(w.s) THEN w.s ELSE XCaseItems(IF Has(c, "Items") THEN c.Items ELSE <<>>, 1, w.v, St(w.s, 0), FALSE)
    [] c.k = "FuncDecl" ->
         IF c.Name.Value \in FnNames THEN St([s EXCEPT !.fn[c.Name.Value] = [def |-> TRUE, body |-> c.Body]], 0)
         ELSE Bad(s, "function name outside the model")
    [] c.k = "BinaryCmd" -> XPipe(c, s)          \* only | reaches here (&& and || are handled in XStmt)
    [] c.k = "TestClause" -> LET r == XTest(c.X, s) IN IF Live(r.s) THEN St(r.s, IF r.v THEN 0 ELSE 1) ELSE r.s
    [] c.k = "ArithmCmd" ->
         LET r == ATop(c.X, s) IN
         IF r.s.aerr /\ r.s.bad = "" THEN
              \* (( )) with an expression in error: status 1 and the shell goes on.  (The code's parser already rejects
              \* `5++` and `$x = 1`, so no generated program gets here.)
              St([r.s EXCEPT !.aerr = FALSE], 1)
         ELSE IF Live(r.s) THEN St(r.s, IF r.v # 0 THEN 0 ELSE 1) ELSE r.s
    [] c.k = "DeclClause" ->
         IF c.Variant.Value # "local" THEN Bad(s, "declaration outside the model")
         ELSE IF s.fd = 0 THEN St(s, 1)                 \* "can only be used in a function"
         ELSE IF s.sub > s.fsub /\ D(s, "Dev_LocalSubshell") THEN Trig(St(s, 1), "Dev_LocalSubshell")
         ELSE LET r == XAssigns(c.Args, 1, [s EXCEPT !.cs = 0 - 1], TRUE) IN IF Live(r) THEN St(r, 0) ELSE r

\* Commands after which bash checks for ERR/errexit itself.  Groups, conditionals, loops and case do
\* not: the commands inside them are checked one by one.
Checked(c) == c.k \in {"CallExpr", "Subshell", "TestClause", "ArithmCmd", "DeclClause", "BinaryCmd"}

\* here-documents and here-strings: the only redirections of the model
RECURSIVE XRedirs(_, _, _)
XRedirs(rs, i, s) ==
  IF i > Len(rs) \/ ~Live(s) THEN s
  ELSE LET rd == rs[i] IN
       IF rd.Op \in {"<<", "<<-"} THEN
            LET r == IF Has(rd, "Hdoc") THEN XParts(rd.Hdoc.Parts, 1, s, TRUE) ELSE [p |-> <<>>, s |-> s] IN
            XRedirs(rs, i + 1, [r.s EXCEPT !.inp = JoinOf(r.p), !.eof = FALSE])
       ELSE IF rd.Op = "<<<" THEN
            LET r == XJoin(rd.Word, s) IN XRedirs(rs, i + 1, [r.s EXCEPT !.inp = r.v \o <<NL>>, !.eof = FALSE])
       ELSE Bad(s, "redirection outside the model")

XStmt(st, s) ==
  IF ~Live(s) THEN s
  ELSE IF s.fuel = 0 THEN Bad(s, "fuel")
  ELSE LET s0 == [s EXCEPT !.fuel = @ - 1, !.trig = IF s.pb > 0 \/ s.pc > 0 THEN @ \cup {"Dev_BreakDeferred"} ELSE @]
           c == st.Cmd
           neg == Has(st, "Negated") IN
       IF Has(st, "Background") THEN
            \* the job is a subshell environment of its own; the model lets it run to its end at once and
            \* only accepts programs that write nothing until they have waited for it
            IF Has(st, "Negated") \/ Has(st, "Redirs") THEN Bad(s, "background job with ! or redirections")
            ELSE LET fg == [x \in (DOMAIN st) \ {"Background"} |-> st[x]]
                     r == RunSub(<<fg>>, [s0 EXCEPT !.out = <<>>]) IN
                 IF s0.bg THEN Bad(s0, "two background jobs")
                 ELSE [Back(s0, r) EXCEPT !.out = s0.out \o r.out, !.st = 0, !.bg = TRUE]
       ELSE IF c.k = "BinaryCmd" /\ c.Op \in {"&&", "||"} THEN
            LET a0 == XStmt(c.X, [s0 EXCEPT !.ign = TRUE])
                a == IF a0.bad = "" THEN [a0 EXCEPT !.ign = s0.ign] ELSE a0 IN
            IF ~Live(a) THEN a
            ELSE IF (a.st = 0) = (c.Op = "&&") THEN XStmt(c.Y, a) ELSE a
       ELSE LET negIgn == neg /\ ~D(s, "Dev_ErrexitNegated")
                lostNeg == neg /\ D(s, "Dev_ErrexitNegated") /\ ~s0.ign
                s1 == IF Has(st, "Redirs") THEN XRedirs(st.Redirs, 1, [s0 EXCEPT !.ign = @ \/ negIgn])
                      ELSE [s0 EXCEPT !.ign = @ \/ negIgn]
                r0 == IF Live(s1) THEN XCmd(c, s1) ELSE s1
                \* the statement's own stdin ends with it
                r1 == IF r0.bad # "" THEN r0
                      ELSE [r0 EXCEPT !.ign = s0.ign,
                                      !.inp = IF Has(st, "Redirs") THEN s0.inp ELSE @,
                                      !.eof = IF Has(st, "Redirs") THEN s0.eof ELSE @,
                                      \* the code turns the status 0 of an exit or return passing through into 1
                                      \* (break and continue are commands that succeed: `! break` leaves the loop with status 1;
                                      \*  the status of an exit or return is not inverted)
                                      !.st = IF neg /\ r0.ctl \in {"n", "b", "c"} THEN (IF @ = 0 THEN 1 ELSE 0)
                                             ELSE IF neg /\ r0.ctl \in {"x", "r"} /\ D(s, "Dev_NegatedExit") /\ @ = 0 THEN 1 ELSE @,
                                      !.trig = (IF lostNeg THEN @ \cup {"Dev_ErrexitNegated"} ELSE @) \cup
                                               (IF neg /\ r0.ctl \in {"x", "r"} /\ r0.st = 0 /\ D(s, "Dev_NegatedExit") THEN {"Dev_NegatedExit"} ELSE {})]
                \* the code checks after EVERY statement, also while an exit or return is unwinding
                every == D(s, "Dev_ErrCheckEveryStmt")
                extra == every /\ (~Checked(c) \/ r1.ctl # "n") IN
            IF r1.bad = "" /\ (r1.ctl = "n" \/ (every /\ r1.ctl \in {"x", "r"})) /\ ~neg /\ ~s0.ign /\ r1.st # 0
               /\ (Checked(c) \/ every)
            THEN ErrAction(IF extra /\ (r1.e \/ r1.te.set) THEN Trig(r1, "Dev_ErrCheckEveryStmt") ELSE r1)
            ELSE r1

XStmts(ss, i, s) ==
  IF i > Len(ss) \/ ~Live(s) THEN s ELSE XStmts(ss, i + 1, XStmt(ss[i], s))

\* The meaning of a program: it runs as a (sub)shell of its own (the oracle runs it as `( eval prog )`)
Meaning(prog, dev) ==
  LET r == RunSub(IF Has(prog, "Stmts") THEN prog.Stmts ELSE <<>>, S0(dev)) IN
  [out |-> r.out, st |-> r.st, bad |-> r.bad, trig |-> r.trig, fuel |-> r.fuel]

------------------------------------------------------------------------
(* Part 3: the program generator *)
Ch(p)    == IF p <= Len(ch) THEN ch[p] ELSE 0
Nd(p, k) == IF p = Len(ch) + 1 THEN k ELSE 0
Need2(a, b) == IF a # 0 THEN a ELSE b
Res(pos, need, t, r) == [pos |-> pos, need |-> need, t |-> t, r |-> r]

Lit(v)   == [k |-> "Lit", Value |-> v]
Nm(n)    == [k |-> "Lit", Value |-> n]             \* a name: one-character string
Wd(ps)   == [k |-> "Word", Parts |-> ps]
LW(v)    == Wd(<<Lit(v)>>)
PE(n)    == [k |-> "ParamExp", Param |-> Nm(n)]
PES(n)   == PE(n) @@ ("Short" :> TRUE)
DQ(ps)   == [k |-> "DblQuoted", Parts |-> ps]
SQ(v)    == [k |-> "SglQuoted", Value |-> v]
DQ2      == [k |-> "DblQuoted"]                    \* ""
CS(ss)   == [k |-> "CmdSubst", Stmts |-> ss]
Call(as) == [k |-> "CallExpr", Args |-> as]
Stm(c)   == [k |-> "Stmt", Cmd |-> c]
SCall(as) == Stm(Call(as))
Asg(n, w) == [k |-> "Assign", Name |-> Nm(n), Value |-> w]
SAsg(n, w) == Stm([k |-> "CallExpr", Assigns |-> <<Asg(n, w)>>])
Blk(ss)  == [k |-> "Block", Stmts |-> ss]
BinC(op, x, y) == [k |-> "BinaryCmd", Op |-> op, X |-> x, Y |-> y]
BinA(op, x, y) == [k |-> "BinaryArithm", Op |-> op, X |-> x, Y |-> y]
ExpOp(op, w) == [k |-> "Expansion", Op |-> op, Word |-> w]
C1(c) == <<c>>
SP == "<SP>"
SEP == "<SEP>"

\* A statement that can take a `!`, be a pipeline stage or the right operand of && / || as it is
IsAndOr(st) == st.Cmd.k = "BinaryCmd" /\ st.Cmd.Op \in {"&&", "||"}
Plain(st) == ~IsAndOr(st) /\ ~Has(st, "Negated")
IsPipe(st) == st.Cmd.k = "BinaryCmd" /\ st.Cmd.Op = "|"
\* wrap in { } when the grammar needs a command: [t, r]
AsCmd(a) == IF Plain(a.t) /\ ~IsPipe(a.t) /\ a.t.Cmd.k # "FuncDecl" THEN [t |-> a.t, r |-> a.r]
            ELSE [t |-> Stm(Blk(<<a.t>>)), r |-> <<"{", SP>> \o a.r \o <<SEP, "}">>]
AsPipeline(a) == IF Plain(a.t) /\ a.t.Cmd.k # "FuncDecl" THEN [t |-> a.t, r |-> a.r]
                 ELSE [t |-> Stm(Blk(<<a.t>>)), r |-> <<"{", SP>> \o a.r \o <<SEP, "}">>]
Open(tok, r) == IF r # <<>> /\ Head(r) \in {"(", "(("} THEN <<tok, " ">> ELSE <<tok>>

RECURSIVE DWord(_, _, _), DCmd(_, _, _), DCmdK(_, _, _, _), DStmts(_, _, _)

\* ---- words
NWord0 == 19
NWord  == 21
DWord(p, d, inF) ==
  LET c  == IF d = 0 THEN Ch(p) % NWord0 ELSE Ch(p)
      nd == Nd(p, IF d = 0 THEN NWord0 ELSE NWord)
      leaf(t, r) == Res(p + 1, nd, t, r) IN
  CASE c = 0 -> leaf(LW(<<"a">>), <<"a">>)
    [] c = 1 -> leaf(Wd(<<DQ(<<PES("x")>>)>>), <<"\"$x\"">>)
    [] c = 2 -> leaf(Wd(<<PES("x")>>), <<"$x">>)
    [] c = 3 -> leaf(Wd(<<SQ(<<"b", " ", "c">>)>>), <<"'b c'">>)
    [] c = 4 -> leaf(Wd(<<PES("?")>>), <<"$?">>)
    [] c = 5 -> leaf(Wd(<<DQ(<<PES("y"), Lit(<<".">>)>>)>>), <<"\"$y.\"">>)
    [] c = 6 -> leaf(Wd(<<PE("x") @@ ("Exp" :> ExpOp(":-", LW(<<"d">>)))>>), <<"${x:-d}">>)
    [] c = 7 -> leaf(Wd(<<PES("#")>>), <<"$#">>)
    [] c = 8 -> leaf(Wd(<<DQ(<<PES("@")>>)>>), <<"\"$@\"">>)
    [] c = 9 -> leaf(Wd(<<PES("1")>>), <<"$1">>)
    [] c = 10 -> leaf(Wd(<<[k |-> "ArithmExp", X |-> BinA("+", LW(<<"x">>), LW(<<"1">>))]>>), <<"$((x+1))">>)
    [] c = 11 -> leaf(Wd(<<DQ(<<PE("a") @@ ("Index" :> LW(<<"@">>))>>)>>), <<"\"${a[@]}\"">>)
    [] c = 12 -> leaf(Wd(<<PE("a") @@ ("Length" :> TRUE) @@ ("Index" :> LW(<<"@">>))>>), <<"${#a[@]}">>)
    [] c = 13 -> leaf(Wd(<<PE("a") @@ ("Index" :> LW(<<"1">>))>>), <<"${a[1]}">>)
    [] c = 14 -> leaf(Wd(<<PE("x") @@ ("Length" :> TRUE)>>), <<"${#x}">>)
    [] c = 15 -> leaf(Wd(<<PE("y") @@ ("Exp" :> ExpOp(":=", LW(<<"d">>)))>>), <<"${y:=d}">>)
    [] c = 16 -> leaf(Wd(<<PE("x") @@ ("Exp" :> ExpOp(":+", LW(<<"s">>)))>>), <<"${x:+s}">>)
    [] c = 17 -> leaf(Wd(<<[k |-> "ArithmExp", X |-> BinA("-", LW(<<"1">>), [k |-> "UnaryArithm", Op |-> "-", X |-> LW(<<"x">>)])]>>),
                      <<"$((1 - -x))">>)
    \* ${x}1 : the braces keep the digit out of the name (a formatter that drops them reads $x1)
    [] c = 18 -> leaf(Wd(<<PE("x"), Lit(<<"1">>)>>), <<"${x}1">>)
    [] c = 19 -> LET s == DStmts(p + 1, d - 1, inF) IN
                 Res(s.pos, Need2(nd, s.need), Wd(<<CS(s.t)>>), Open("$(", s.r) \o s.r \o <<")">>)
    [] c = 20 -> LET s == DStmts(p + 1, d - 1, inF) IN
                 Res(s.pos, Need2(nd, s.need), Wd(<<DQ(<<CS(s.t)>>)>>), Open("\"$(", s.r) \o s.r \o <<")\"">>)

\* ---- commands (each menu entry is a statement)
NLeaf == 36
NCmd  == 62
EchoQ(pre, nm) == SCall(<<LW(W_echo), Wd(<<DQ(<<Lit(pre), PES(nm)>>)>>)>>)     \* echo "pre$nm"
TrapT == <<"e", "c", "h", "o", " ", "T", "$", "?">>
TrapE == <<"e", "c", "h", "o", " ", "E", "$", "?">>
TrapX == <<"e", "c", "h", "o", " ", "T", "$", "?", ";", " ", "e", "x", "i", "t", " ", "9">>
HdocT == Wd(<<Lit(<<"p", " ">>), PES("x"), Lit(<<NL, "q", NL>>)>>)

DCmd(p, d, inF) ==
  LET c == IF d = 0 THEN Ch(p) % NLeaf ELSE Ch(p)
      r == DCmdK(c, p + 1, d, inF) IN
  Res(r.pos, Need2(Nd(p, IF d = 0 THEN NLeaf ELSE NCmd), r.need), r.t, r.r)

\* kind c chosen; its own choice points start at p
DCmdK(c, p, d, inF) ==
  LET leaf(t, r) == Res(p, 0, t, r)
      w1(F(_), R(_)) == LET w == DWord(p, d, inF) IN Res(w.pos, w.need, F(w.t), R(w.r)) IN
  CASE c = 0 -> IF inF THEN leaf(SCall(<<LW(W_false)>>), <<"false">>) ELSE leaf(SCall(<<LW(<<"f">>)>>), <<"f">>)
    [] c = 1 -> IF inF THEN leaf(SCall(<<LW(W_colon)>>), <<":">>) ELSE leaf(SCall(<<LW(W_false)>>), <<"false">>)
    [] c = 2 -> leaf(SCall(<<LW(W_true)>>), <<"true">>)
    [] c = 3 -> w1(LAMBDA w : SCall(<<LW(W_echo), w>>), LAMBDA r : <<"echo", SP>> \o r)
    [] c = 4 -> leaf(SCall(<<LW(W_exit), LW(<<"3">>)>>), <<"exit", SP, "3">>)
    [] c = 5 -> leaf(SCall(<<LW(W_exit)>>), <<"exit">>)
    [] c = 6 -> leaf(SCall(<<LW(W_return), LW(<<"3">>)>>), <<"return", SP, "3">>)
    [] c = 7 -> leaf(SCall(<<LW(W_return)>>), <<"return">>)
    [] c = 8 -> leaf(SCall(<<LW(W_break)>>), <<"break">>)
    [] c = 9 -> leaf(SCall(<<LW(W_continue)>>), <<"continue">>)
    [] c = 10 -> leaf(SCall(<<LW(W_break), LW(<<"2">>)>>), <<"break", SP, "2">>)
    [] c = 11 -> leaf(SCall(<<LW(W_continue), LW(<<"2">>)>>), <<"continue", SP, "2">>)
    [] c = 12 -> w1(LAMBDA w : SAsg("x", w), LAMBDA r : <<"x=">> \o r)
    [] c = 13 -> leaf(SAsg("x", Wd(<<CS(<<SCall(<<LW(W_false)>>)>>)>>)), <<"x=$(false)">>)
    [] c = 14 -> leaf(SCall(<<LW(W_set), LW(<<"-", "e">>)>>), <<"set", SP, "-e">>)
    [] c = 15 -> leaf(SCall(<<LW(W_set), LW(<<"+", "e">>)>>), <<"set", SP, "+e">>)
    [] c = 16 -> leaf(SCall(<<LW(W_set), LW(<<"-", "o">>), LW(W_pipefail)>>), <<"set", SP, "-o", SP, "pipefail">>)
    [] c = 17 -> leaf(SCall(<<LW(W_set), LW(<<"-", "u">>)>>), <<"set", SP, "-u">>)
    [] c = 18 -> leaf(SCall(<<LW(W_shift)>>), <<"shift">>)
    [] c = 19 -> leaf(SCall(<<LW(W_set), LW(<<"-", "-">>), LW(<<"p">>), LW(<<"q">>)>>), <<"set", SP, "--", SP, "p", SP, "q">>)
    [] c = 20 -> leaf(SCall(<<LW(W_unset), LW(<<"x">>)>>), <<"unset", SP, "x">>)
    [] c = 21 -> w1(LAMBDA w : Stm([k |-> "DeclClause", Variant |-> [k |-> "Lit", Value |-> "local"], Args |-> <<Asg("x", w)>>]),
                    LAMBDA r : <<"local", SP, "x=">> \o r)
    [] c = 22 -> leaf(Stm([k |-> "DeclClause", Variant |-> [k |-> "Lit", Value |-> "local"],
                           Args |-> <<[k |-> "Assign", Naked |-> TRUE, Name |-> Nm("x")]>>]), <<"local", SP, "x">>)
    [] c = 23 -> w1(LAMBDA w : SCall(<<LW(W_read), LW(<<"x">>)>>) @@ ("Redirs" :> <<[k |-> "Redirect", Op |-> "<<<", Word |-> w]>>),
                    LAMBDA r : <<"read", SP, "x", SP, "<<<">> \o r)
    [] c = 24 -> leaf(SCall(<<LW(W_read), LW(<<"l">>)>>), <<"read", SP, "l">>)
    [] c = 25 -> leaf(SCall(<<LW(W_trap), Wd(<<SQ(TrapT)>>), LW(W_EXIT)>>), <<"trap", SP, "'echo T$?'", SP, "EXIT">>)
    [] c = 26 -> w1(LAMBDA w : SCall(<<LW(W_lbr), w, LW(<<"=">>), LW(<<"a">>), LW(W_rbr)>>),
                    LAMBDA r : <<"[", SP>> \o r \o <<SP, "=", SP, "a", SP, "]">>)
    [] c = 27 -> w1(LAMBDA w : Stm([k |-> "TestClause", X |-> [k |-> "BinaryTest", Op |-> "==", X |-> w, Y |-> LW(<<"a", "*">>)]]),
                    LAMBDA r : <<"[[", SP>> \o r \o <<SP, "==", SP, "a*", SP, "]]">>)
    [] c = 28 -> leaf(Stm([k |-> "ArithmCmd", X |-> [k |-> "UnaryArithm", Op |-> "++", Post |-> TRUE, X |-> LW(<<"x">>)]]),
                      <<"((", "x++", "))">>)
    [] c = 29 -> w1(LAMBDA w : SCall(<<LW(W_printf), Wd(<<SQ(<<"%", "s", "\\", "n">>)>>), w, LW(<<"b">>)>>),
                    LAMBDA r : <<"printf", SP, "'%s\\n'", SP>> \o r \o <<SP, "b">>)
    [] c = 30 -> leaf(SCall(<<LW(W_echo), Wd(<<PES("y")>>)>>), <<"echo", SP, "$y">>)
    [] c = 31 -> leaf(Stm([k |-> "CallExpr", Assigns |-> <<[k |-> "Assign", Name |-> Nm("a"),
                       Array |-> [k |-> "ArrayExpr", Elems |-> <<[k |-> "ArrayElem", Value |-> LW(<<"p">>)],
                                                               [k |-> "ArrayElem", Value |-> Wd(<<DQ(<<PES("x")>>)>>)]>>]]>>]),
                      <<"a=(", "p", SP, "\"$x\"", ")">>)
    [] c = 32 -> w1(LAMBDA w : Stm([k |-> "CallExpr", Assigns |-> <<[k |-> "Assign", Name |-> Nm("a"), Index |-> LW(<<"2">>), Value |-> w]>>]),
                    LAMBDA r : <<"a[2]=">> \o r)
    [] c = 33 -> w1(LAMBDA w : Stm([k |-> "CallExpr", Assigns |-> <<[k |-> "Assign", Append |-> TRUE, Name |-> Nm("x"), Value |-> w]>>]),
                    LAMBDA r : <<"x+=">> \o r)
    [] c = 34 -> IF inF THEN leaf(SCall(<<LW(W_echo), Wd(<<DQ(<<PES("#"), Lit(<<":">>), PES("1")>>)>>)>>), <<"echo", SP, "\"$#:$1\"">>)
                 ELSE leaf(SCall(<<LW(<<"f">>), LW(<<"p">>), LW(<<"q">>)>>), <<"f", SP, "p", SP, "q">>)
    [] c = 35 -> leaf(Stm([k |-> "Subshell", Stmts |-> <<SCall(<<LW(W_exit), LW(<<"2">>)>>)>>]), <<"(", "exit", SP, "2", SEP, ")">>)
    \* ---- compound commands
    [] c = 36 -> LET s == DStmts(p, d - 1, inF) IN
                 Res(s.pos, s.need, Stm([k |-> "Subshell", Stmts |-> s.t]), Open("(", s.r) \o s.r \o <<")">>)
    [] c = 37 -> LET s == DStmts(p, d - 1, inF) IN
                 Res(s.pos, s.need, Stm(Blk(s.t)), <<"{", SP>> \o s.r \o <<"}">>)
    [] c = 38 -> LET a == DStmts(p, d - 1, inF)
                     b == DStmts(a.pos, 0, inF) IN
                 Res(b.pos, Need2(a.need, b.need),
                     Stm([k |-> "IfClause", Cond |-> a.t, Then |-> <<SCall(<<LW(W_echo), LW(<<"t">>)>>)>> \o b.t]),
                     <<"if", SP>> \o a.r \o <<"then", SP, "echo", SP, "t", SEP>> \o b.r \o <<"fi">>)
    [] c = 39 -> LET a == DStmts(p, d - 1, inF)
                     b == DStmts(a.pos, 0, inF) IN
                 Res(b.pos, Need2(a.need, b.need),
                     Stm([k |-> "IfClause", Cond |-> a.t, Then |-> <<SCall(<<LW(W_echo), LW(<<"t">>)>>)>>,
                          Else |-> [k |-> "IfClause", Then |-> b.t]]),
                     <<"if", SP>> \o a.r \o <<"then", SP, "echo", SP, "t", SEP, "else", SP>> \o b.r \o <<"fi">>)
    [] c = 40 -> LET a == DStmts(p, d - 1, inF)
                     b == DStmts(a.pos, 0, inF) IN
                 Res(b.pos, Need2(a.need, b.need),
                     Stm([k |-> "IfClause", Cond |-> <<SCall(<<LW(W_false)>>)>>, Then |-> <<SCall(<<LW(W_echo), LW(<<"t">>)>>)>>,
                          Else |-> [k |-> "IfClause", Cond |-> a.t, Then |-> <<SCall(<<LW(W_echo), LW(<<"u">>)>>)>>,
                                    Else |-> [k |-> "IfClause", Then |-> b.t]]]),
                     <<"if", SP, "false", SEP, "then", SP, "echo", SP, "t", SEP, "elif", SP>> \o a.r \o
                     <<"then", SP, "echo", SP, "u", SEP, "else", SP>> \o b.r \o <<"fi">>)
    [] c \in {41, 42} ->
                 LET a == DStmts(p, d - 1, inF)
                     b == DStmts(a.pos, 0, inF) IN
                 Res(b.pos, Need2(a.need, b.need),
                     Stm([k |-> "WhileClause", Cond |-> a.t, Do |-> b.t \o <<SCall(<<LW(W_break)>>)>>] @@
                         (IF c = 42 THEN "Until" :> TRUE ELSE <<>>)),
                     <<IF c = 41 THEN "while" ELSE "until", SP>> \o a.r \o <<"do", SP>> \o b.r \o <<"break", SEP, "done">>)
    [] c = 43 -> \* a counted loop:  { i=; while [ "$i" != aa ]; do i=a$i; S; done; }
                 LET s == DStmts(p, d - 1, inF) IN
                 Res(s.pos, s.need,
                     Stm(Blk(<<Stm([k |-> "CallExpr", Assigns |-> <<[k |-> "Assign", Name |-> Nm("i")]>>]),
                              Stm([k |-> "WhileClause",
                                   Cond |-> <<SCall(<<LW(W_lbr), Wd(<<DQ(<<PES("i")>>)>>), LW(<<"!", "=">>), LW(<<"a", "a">>), LW(W_rbr)>>)>>,
                                   Do |-> <<SAsg("i", Wd(<<Lit(<<"a">>), PES("i")>>))>> \o s.t])>>)),
                     <<"{", SP, "i=", SEP, "while", SP, "[", SP, "\"$i\"", SP, "!=", SP, "aa", SP, "]", SEP, "do", SP,
                       "i=a$i", SEP>> \o s.r \o <<"done", SEP, "}">>)
    [] c = 44 -> LET s == DStmts(p, d - 1, inF) IN
                 Res(s.pos, s.need,
                     Stm([k |-> "ForClause", Loop |-> [k |-> "WordIter", Name |-> Nm("i"), Items |-> <<LW(<<"1">>), LW(<<"2">>)>>], Do |-> s.t]),
                     <<"for", SP, "i", SP, "in", SP, "1", SP, "2", SEP, "do", SP>> \o s.r \o <<"done">>)
    [] c = 45 -> LET s == DStmts(p, d - 1, inF) IN
                 Res(s.pos, s.need,
                     Stm([k |-> "ForClause", Loop |-> [k |-> "WordIter", Name |-> Nm("i"), Items |-> <<LW(<<"1">>), LW(<<"2">>)>>],
                          Do |-> <<Stm([k |-> "ForClause", Loop |-> [k |-> "WordIter", Name |-> Nm("z"), Items |-> <<LW(<<"p">>), LW(<<"q">>)>>],
                                        Do |-> s.t \o <<EchoQ(<<"i">>, "z")>>]),
                                   EchoQ(<<"o">>, "i")>>]),
                     <<"for", SP, "i", SP, "in", SP, "1", SP, "2", SEP, "do", SP, "for", SP, "z", SP, "in", SP, "p", SP, "q", SEP, "do", SP>>
                     \o s.r \o <<"echo", SP, "\"i$z\"", SEP, "done", SEP, "echo", SP, "\"o$i\"", SEP, "done">>)
    [] c = 46 -> LET w == DWord(p, d - 1, inF)
                     a == DStmts(w.pos, d - 1, inF) IN
                 Res(a.pos, Need2(w.need, a.need),
                     Stm([k |-> "CaseClause", Word |-> w.t, Items |-> <<
                            [k |-> "CaseItem", Op |-> ";;", Patterns |-> <<LW(<<"a">>)>>, Stmts |-> a.t],
                            [k |-> "CaseItem", Op |-> ";;", Patterns |-> <<LW(<<"*">>)>>, Stmts |-> <<SCall(<<LW(W_echo), LW(<<"o">>)>>)>>]>>]),
                     <<"case", SP>> \o w.r \o <<SP, "in", SP, "a)", SP>> \o a.r \o <<";;", SP, "*)", SP, "echo", SP, "o", SEP, ";;", SP, "esac">>)
    [] c = 59 ->      \* case a in a) echo one ;& b) echo two ;;& c) echo three ;; a) echo four ;; esac
                      \* ;& runs the next item unconditionally, ;;& goes back to matching
                 LET e(t) == <<SCall(<<LW(W_echo), LW(t)>>)>> IN
                 leaf(Stm([k |-> "CaseClause", Word |-> LW(<<"a">>), Items |-> <<
                            [k |-> "CaseItem", Op |-> ";&", Patterns |-> <<LW(<<"a">>)>>, Stmts |-> e(<<"1">>)],
                            [k |-> "CaseItem", Op |-> ";;&", Patterns |-> <<LW(<<"b">>)>>, Stmts |-> e(<<"2">>)],
                            [k |-> "CaseItem", Op |-> ";;", Patterns |-> <<LW(<<"c">>)>>, Stmts |-> e(<<"3">>)],
                            [k |-> "CaseItem", Op |-> ";;", Patterns |-> <<LW(<<"a">>)>>, Stmts |-> e(<<"4">>)]>>]),
                      <<"case", SP, "a", SP, "in", SP, "a)", SP, "echo", SP, "1", SP, ";&", SP, "b)", SP, "echo", SP, "2", SP, ";;&", SP,
                        "c)", SP, "echo", SP, "3", SP, ";;", SP, "a)", SP, "echo", SP, "4", SEP, ";;", SP, "esac">>)
    [] c \in {47, 48} ->
                 LET a == DCmd(p, d - 1, inF)
                     b0 == DCmd(a.pos, 0, inF)
                     b == AsCmd(b0)
                     a1 == IF a.t.Cmd.k = "FuncDecl" THEN AsCmd(a) ELSE [t |-> a.t, r |-> a.r]
                     op == IF c = 47 THEN "&&" ELSE "||" IN
                 Res(b0.pos, Need2(a.need, b0.need), Stm(BinC(op, a1.t, b.t)), a1.r \o <<SP, op, SP>> \o b.r)
    [] c = 49 -> LET a0 == DCmd(p, d - 1, inF)
                     a == AsPipeline(a0) IN
                 Res(a0.pos, a0.need, a.t @@ ("Negated" :> TRUE), <<"!", SP>> \o a.r)
    [] c = 50 -> LET a0 == DCmd(p, d - 1, inF)
                     b0 == DCmd(a0.pos, 0, inF)
                     a == AsCmd(a0)
                     b == AsCmd(b0) IN
                 Res(b0.pos, Need2(a0.need, b0.need), Stm(BinC("|", a.t, b.t)), a.r \o <<SP, "|", SP>> \o b.r)
    [] c = 51 -> LET s == DStmts(p, d - 1, inF) IN
                 Res(s.pos, s.need,
                     Stm(Blk(<<SAsg("x", Wd(<<CS(s.t)>>)),
                              SCall(<<LW(W_echo), Wd(<<DQ(<<PES("?"), Lit(<<":">>), PES("x")>>)>>)>>)>>)),
                     <<"{", SP>> \o Open("x=$(", s.r) \o s.r \o <<")", SEP, "echo", SP, "\"$?:$x\"", SEP, "}">>)
    [] c = 52 -> LET s == DStmts(p, d - 1, inF) IN
                 Res(s.pos, s.need,
                     SCall(<<LW(W_echo), Wd(<<DQ(<<Lit(<<"<">>), CS(s.t), Lit(<<">">>)>>)>>)>>),
                     <<"echo", SP>> \o Open("\"<$(", s.r) \o s.r \o <<")>\"">>)
    [] c = 53 -> LET s == DStmts(p, d - 1, inF) IN     \* while read l; do echo "r$l"; S; done <<EOF
                 Res(s.pos, s.need,
                     Stm([k |-> "WhileClause", Cond |-> <<SCall(<<LW(W_read), LW(<<"l">>)>>)>>,
                          Do |-> <<EchoQ(<<"r">>, "l")>> \o s.t]) @@
                       ("Redirs" :> <<[k |-> "Redirect", Op |-> "<<", Word |-> LW(<<"E", "O", "F">>), Hdoc |-> HdocT]>>),
                     <<"while", SP, "read", SP, "l", SEP, "do", SP, "echo", SP, "\"r$l\"", SEP>> \o s.r \o
                     <<"done", SP, "<<", "EOF", "<HDOC>", "p $x\nq", "EOF">>)

    [] c = 61 ->      \* { local x=3; local x; echo "l$x"; } : declaring an already local name again keeps its value
                 LET lcl(a) == Stm([k |-> "DeclClause", Variant |-> [k |-> "Lit", Value |-> "local"], Args |-> <<a>>]) IN
                 leaf(Stm(Blk(<<lcl(Asg("x", LW(<<"3">>))), lcl([k |-> "Assign", Naked |-> TRUE, Name |-> Nm("x")]),
                               EchoQ(<<"l">>, "x")>>)),
                      <<"{", SP, "local", SP, "x=3", SEP, "local", SP, "x", SEP, "echo", SP, "\"l$x\"", SEP, "}">>)

    [] c = 60 ->      \* while IFS= read -r l; do echo "r$l"; done <<-EOF : a body line of blanks only must stay as it is
                 leaf(Stm([k |-> "WhileClause", Cond |-> <<Stm(RawReadCmd(<<"l">>))>>, Do |-> <<EchoQ(<<"r">>, "l")>>]) @@
                       ("Redirs" :> <<[k |-> "Redirect", Op |-> "<<-", Word |-> LW(<<"E", "O", "F">>),
                                       Hdoc |-> LW(<<"p", NL, " ", " ", NL, "q", NL>>)]>>),
                      <<"while", SP, "IFS=", SP, "read", SP, "-r", SP, "l", SEP, "do", SP, "echo", SP, "\"r$l\"", SEP,
                        "done", SP, "<<-", "EOF", "<HDOC>", "\tp\n\t  \n\tq", "EOF">>)

    [] c = 54 -> LET a0 == DCmd(p, d - 1, inF)         \* { if true; then S & fi; wait; echo "w$?"; }
                     a == IF a0.t.Cmd.k = "FuncDecl" \/ Has(a0.t, "Negated") \/ Has(a0.t, "Redirs") THEN [t |-> Stm(Blk(<<a0.t>>)), r |-> <<"{", SP>> \o a0.r \o <<SEP, "}">>]
                          ELSE [t |-> a0.t, r |-> a0.r] IN
                 Res(a0.pos, a0.need,
                     Stm(Blk(<<Stm([k |-> "IfClause", Cond |-> <<SCall(<<LW(W_true)>>)>>, Then |-> <<a.t @@ ("Background" :> TRUE)>>]),
                              SCall(<<LW(W_wait)>>), EchoQ(<<"w">>, "?")>>)),
                     <<"{", SP, "if", SP, "true", SEP, "then", SP>> \o a.r \o <<SP, "&", "<BGSEP>", "fi", SEP, "wait", SEP,
                       "echo", SP, "\"w$?\"", SEP, "}">>)

    [] c = 55 -> LET w == DWord(p, d - 1, inF) IN      \* [[ ! -n W && -n "" ]] : ! binds tighter than && and ||
                 Res(w.pos, w.need,
                     Stm([k |-> "TestClause", X |-> [k |-> "BinaryTest", Op |-> "&&",
                            X |-> [k |-> "UnaryTest", Op |-> "!", X |-> [k |-> "UnaryTest", Op |-> "-n", X |-> w.t]],
                            Y |-> [k |-> "UnaryTest", Op |-> "-n", X |-> Wd(<<DQ2>>)]]]),
                     <<"[[", SP, "!", SP, "-n", SP>> \o w.r \o <<SP, "&&", SP, "-n", SP, "\"\"", SP, "]]">>)

    [] c = 56 ->      \* { x=3; echo $((x++ - $x)) $x; } : $x is substituted before anything is evaluated
                 leaf(Stm(Blk(<<SAsg("x", LW(<<"3">>)),
                               SCall(<<LW(W_echo), Wd(<<[k |-> "ArithmExp", X |-> BinA("-", [k |-> "UnaryArithm", Op |-> "++", Post |-> TRUE, X |-> LW(<<"x">>)],
                                                                                  Wd(<<PES("x")>>))]>>), Wd(<<PES("x")>>)>>)>>)),
                      <<"{", SP, "x=3", SEP, "echo", SP, "$((x++-$x))", SP, "$x", SEP, "}">>)

    [] c = 58 ->      \* { x=3; echo ${x}1 "${x}2"; } : the braces keep the digit out of the name
                 leaf(Stm(Blk(<<SAsg("x", LW(<<"3">>)),
                               SCall(<<LW(W_echo), Wd(<<PE("x"), Lit(<<"1">>)>>), Wd(<<DQ(<<PE("x"), Lit(<<"2">>)>>)>>)>>)>>)),
                      <<"{", SP, "x=3", SEP, "echo", SP, "${x}1", SP, "\"${x}2\"", SEP, "}">>)

    [] c = 57 ->      \* S | { while read l; do echo "p$l"; done; (exit 4); } : the reader takes everything and fails differently
                 LET a0 == DCmd(p, d - 1, inF)
                     a == AsCmd(a0) IN
                 Res(a0.pos, a0.need,
                     Stm(BinC("|", a.t, Stm(Blk(<<Stm([k |-> "WhileClause", Cond |-> <<SCall(<<LW(W_read), LW(<<"l">>)>>)>>, Do |-> <<EchoQ(<<"p">>, "l")>>]),
                                                 Stm([k |-> "Subshell", Stmts |-> <<SCall(<<LW(W_exit), LW(<<"4">>)>>)>>])>>)))),
                     a.r \o <<SP, "|", SP, "{", SP, "while", SP, "read", SP, "l", SEP, "do", SP, "echo", SP, "\"p$l\"", SEP, "done", SEP,
                             "(", "exit", SP, "4", SEP, ")", SEP, "}">>)

\* statement lists: one statement, optionally followed by a second (simple) one
DStmts(p, d, inF) ==
  LET a == DCmd(p, d, inF)
      k == Ch(a.pos) % 2
      nd == Nd(a.pos, 2) IN
  IF k = 0 THEN Res(a.pos + 1, Need2(a.need, nd), <<a.t>>, a.r \o <<SEP>>)
  ELSE LET b == DCmd(a.pos + 1, 0, inF) IN
       Res(b.pos, Need2(a.need, Need2(nd, b.need)), <<a.t, b.t>>, a.r \o <<SEP>> \o b.r \o <<SEP>>)

\* ---- preludes
NPre == 9
Prelude(c) ==
  LET sete == SCall(<<LW(W_set), LW(<<"-", "e">>)>>)        re == <<"set", SP, "-e", SEP>>
      pf == SCall(<<LW(W_set), LW(<<"-", "o">>), LW(W_pipefail)>>)  rpf == <<"set", SP, "-o", SP, "pipefail", SEP>>
      setu == SCall(<<LW(W_set), LW(<<"-", "u">>)>>)        ru == <<"set", SP, "-u", SEP>>
      terr == SCall(<<LW(W_trap), Wd(<<SQ(TrapE)>>), LW(W_ERR)>>)   rterr == <<"trap", SP, "'echo E$?'", SP, "ERR", SEP>>
      tex == SCall(<<LW(W_trap), Wd(<<SQ(TrapT)>>), LW(W_EXIT)>>)   rtex == <<"trap", SP, "'echo T$?'", SP, "EXIT", SEP>>
      tex9 == SCall(<<LW(W_trap), Wd(<<SQ(TrapX)>>), LW(W_EXIT)>>)  rtex9 == <<"trap", SP, "'echo T$?; exit 9'", SP, "EXIT", SEP>> IN
  CASE c = 0 -> [t |-> <<>>, r |-> <<>>]
    [] c = 1 -> [t |-> <<sete>>, r |-> re]
    [] c = 2 -> [t |-> <<terr>>, r |-> rterr]
    [] c = 3 -> [t |-> <<sete, terr>>, r |-> re \o rterr]
    [] c = 4 -> [t |-> <<tex>>, r |-> rtex]
    [] c = 5 -> [t |-> <<sete, tex>>, r |-> re \o rtex]
    [] c = 6 -> [t |-> <<sete, pf>>, r |-> re \o rpf]
    [] c = 7 -> [t |-> <<setu>>, r |-> ru]
    [] c = 8 -> [t |-> <<sete, tex9>>, r |-> re \o rtex9]

\* ---- the program:  prelude; f() { BODY; [echo "inf $?";] }; MAIN; [POST;] echo "end $?"
Decode ==
  LET pre == Prelude(Ch(1) % NPre)
      B == DCmdK(Ch(2) % NCmd, 4, MaxDepth, TRUE)
      C == DCmdK(Ch(3) % NCmd, B.pos, MaxDepth, FALSE)
      tail == Ch(C.pos) % 2
      post == Ch(C.pos + 1) % (NLeaf + 1)
      P == IF post = 0 THEN [t |-> <<>>, r |-> <<>>]
           ELSE LET q == DCmdK(post - 1, C.pos + 2, 0, FALSE) IN [t |-> <<q.t>>, r |-> q.r \o <<SEP>>]
      inf == SCall(<<LW(W_echo), Wd(<<DQ(<<Lit(<<"i", "n", "f", " ">>), PES("?")>>)>>)>>)
      fin == SCall(<<LW(W_echo), Wd(<<DQ(<<Lit(<<"e", "n", "d", " ">>), PES("?")>>)>>)>>)
      fbody == IF tail = 0 THEN <<B.t, inf>> ELSE <<B.t>>
      fdef == Stm([k |-> "FuncDecl", Parens |-> TRUE, Name |-> Nm("f"), Body |-> Stm(Blk(fbody))])
      need == IF Len(ch) = 0 THEN NPre ELSE IF Len(ch) < 3 THEN NCmd
              ELSE Need2(B.need, Need2(C.need, Need2(Nd(C.pos, 2), Nd(C.pos + 1, NLeaf + 1)))) IN
  [t |-> [k |-> "File", Stmts |-> pre.t \o <<fdef, C.t>> \o P.t \o <<fin>>],
   r |-> pre.r \o <<"f()", SP, "{", SP>> \o B.r \o <<SEP>> \o (IF tail = 0 THEN <<"echo", SP, "\"inf $?\"", SEP>> ELSE <<>>) \o <<"}", SEP>>
         \o C.r \o <<SEP>> \o P.r \o <<"echo", SP, "\"end $?\"", SEP>>,
   need |-> need]

------------------------------------------------------------------------
(* Part 4: state machine, laws, emission *)
CONSTANT Devs          \* the deviations the current code is known to have (subset of AllDevs)

Init == ch = <<>>
Next == /\ Len(ch) < MaxLen
        /\ LET dd == Decode IN
           /\ dd.need > 0
           /\ \E c \in 0..(dd.need - 1) : ch' = Append(ch, c)
Spec == Init /\ [][Next]_vars
Canonical == ch = <<>> \/ ch[Len(ch)] # 0

RECURSIVE Balance(_, _, _, _)
Balance(r, i, open, close) ==
  IF i > Len(r) THEN 0
  ELSE (IF r[i] \in open THEN 1 ELSE IF r[i] \in close THEN 0 - 1 ELSE 0) + Balance(r, i + 1, open, close)

\* Laws of the contract, checked on every generated program; every canonical state is emitted as one
\* vector.  (One invariant, so that TLC evaluates each program once.)
Laws(dd, m, md) ==
  /\ Devs \subseteq AllDevs
  /\ Balance(dd.r, 1, {"if"}, {"fi"}) = 0
  /\ Balance(dd.r, 1, {"do"}, {"done"}) = 0
  /\ Balance(dd.r, 1, {"case"}, {"esac"}) = 0
  /\ m.st \in 0..255
  /\ m.fuel <= Fuel
  /\ m.trig = {}                                            \* no deviation without its switch
  \* a deviation that did not trigger changes nothing
  /\ (md.trig = {} /\ md.bad = "" /\ m.bad = "") => (md.out = m.out /\ md.st = m.st)
  \* whatever happens before the shell ends, an EXIT trap set at the top runs exactly once, last
  /\ (m.bad = "" /\ Len(dd.t.Stmts) > 0 /\ dd.t.Stmts[1].Cmd.k = "CallExpr" /\ Has(dd.t.Stmts[1].Cmd, "Args")
      /\ Len(dd.t.Stmts[1].Cmd.Args) = 3 /\ dd.t.Stmts[1].Cmd.Args[3] = LW(W_EXIT) /\ dd.t.Stmts[1].Cmd.Args[2] = Wd(<<SQ(TrapT)>>))
     => (Len(m.out) >= 3 /\ m.out[Len(m.out)] = NL /\ m.out[Len(m.out) - 1] \in DigitSet)

Check ==
  LET dd == Decode IN
  IF ~Canonical THEN TRUE       \* the same program as the state without the trailing default choice
  ELSE LET m == Meaning(dd.t, {})
           md == IF Devs = {} THEN m ELSE Meaning(dd.t, Devs) IN
       /\ Laws(dd, m, md)
       /\ IF Len(ch) >= EmitAt \/ dd.need = 0
          THEN PrintT(<<"VEC", ToJson([ch |-> ch, r |-> dd.r, out |-> m.out, st |-> m.st, bad |-> m.bad,
                                       dout |-> md.out, dst |-> md.st, dbad |-> md.bad, trig |-> md.trig]
                                      @@ (IF EmitTree THEN "t" :> dd.t ELSE <<>>))>>)
          ELSE TRUE

\* Layouts: how the layout tokens are instantiated (C03 runs every program under each of them)
Layouts == <<
  [name |-> "oneline",  sep |-> "; ",    sp |-> " ",     bg |-> " ",  comment |-> FALSE, final |-> "\n"],
  [name |-> "lines",    sep |-> "\n",    sp |-> " ",     bg |-> "\n", comment |-> FALSE, final |-> ""],
  [name |-> "wide",     sep |-> " ;\n\n", sp |-> "  ",   bg |-> "\n\n", comment |-> FALSE, final |-> "\n\n"],
  [name |-> "tabs",     sep |-> "\n",    sp |-> "\t",    bg |-> " ",  comment |-> FALSE, final |-> "\n"],
  [name |-> "bsnl",     sep |-> "\n",    sp |-> " \\\n", bg |-> "\n", comment |-> FALSE, final |-> "\n"],
  [name |-> "comments", sep |-> "\n",    sp |-> " ",     bg |-> "\n", comment |-> TRUE,  final |-> "\n"] >>
=========================================================================
