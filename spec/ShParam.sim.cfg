SPECIFICATION Spec
CONSTANTS
  Fams = {"plain", "test", "len", "sub", "rem", "repl", "case", "at", "ind", "names", "keys"}
  MaxPat = 4
  MaxPatRepl = 3
  Wide = TRUE
INVARIANTS Inv
