--------------------------- MODULE ShInteractive ---------------------------
(* C08 (b): the callback protocol of Parser.InteractiveSeq.   Style S.

   The object specified is the conversation between an interactive parser and its two
   neighbours: the input (a blocking reader that hands over exactly one line per Read) and the
   consumer (the callback that prints a prompt and runs statements).  The observable events are
     FeedLine       the parser asked for more input and received the next line
     FeedEOF        the parser asked for more input and received end of input
     CallbackStmts(n)       the consumer is called with n finished statements, Incomplete() = FALSE
     CallbackIncomplete(n)  the consumer is called while Incomplete() = TRUE (it prints "> "); the
                            n statements shown are NOT handed over yet
     CallbackEmpty          the consumer is called with nothing (it prints another "$ ")
   What was typed is described line by line (this is the only thing the contract needs to know
   about the shell language):
     lines[i].done   number of top-level statements that are complete after line i (cumulative)
     lines[i].open   a statement is unfinished after line i (open quote / here-document /
                     compound command / operator or backslash at the end of the line)
     lines[i].nl     line i ends in a newline (only the last line may lack it)

   Contract (from the doc comment of InteractiveSeq and the property statement of C08):
     * every line gets exactly one callback, and it comes BEFORE the parser asks for the next
       line (an interactive shell must run `cd /tmp` before it reads what follows); for a last
       line without newline the parser cannot know that the line is over until it has seen the
       end of input, so there the callback follows FeedEOF;
     * a callback says Incomplete exactly when a statement is open after the line; what it shows
       is not handed over;
     * otherwise it hands over ALL finished statements not handed over before (none: empty call);
     * statements are handed over in order, each once; at the end all have been handed over.

   The module is used twice:
   (1) model checking (Spec): the user types every line script up to MaxLines lines with up to
       MaxPerLine statements finishing per line; TLC checks the laws below on every behaviour
       and that the protocol never gets stuck (Progress).  `Defect` switches one rule off so
       that the self-test configuration can show that the laws notice (ShInteractive.selftest*.cfg).
   (2) trace validation (ShInteractiveTrace): event sequences recorded from the real
       InteractiveSeq must be behaviours of these actions under the annotation computed for the
       fed source.  *)
EXTENDS Naturals, Sequences, FiniteSets, TLC

CONSTANTS MaxLines, MaxPerLine,
          Defect      \* "none" | "drop_unterminated" | "read_before_callback" | "incomplete_when_closed" | "partial_delivery"

VARIABLES lines,      \* the lines fed so far (model) / the whole annotation (trace validation)
          fed,        \* number of lines the parser has received
          ndel,       \* number of statements handed over so far
          prompted,   \* the callback for line `fed` has happened
          eof,        \* the parser has received end of input
          phase,      \* "run" | "end"
          hist        \* model only: the events so far, for the laws
vars == <<lines, fed, ndel, prompted, eof, phase, hist>>

\* ---------------------------------------------------------------- state functions (shared)
DoneAt(i) == IF i = 0 THEN 0 ELSE lines[i].done
OpenAt(i) == IF i = 0 THEN FALSE ELSE lines[i].open
NlAt(i)   == IF i = 0 THEN TRUE ELSE lines[i].nl
Pending   == DoneAt(fed) - ndel

\* The parser may ask for more input: nothing fed yet, or the current line has had its callback,
\* or the current line has no newline (its end is only known at end of input).
ReadOK      == ~eof /\ (fed = 0 \/ prompted \/ ~NlAt(fed))
\* A callback for the current line is due (and allowed) now.
CallbackDue == fed > 0 /\ ~prompted /\ (NlAt(fed) \/ eof)

StmtsOK(n)      == CallbackDue /\ ~OpenAt(fed) /\ n > 0 /\ n = Pending
\* (the statements shown with an Incomplete callback are not handed over; how many of the pending
\* group the parser already shows is not constrained: with `a <<EOF & b` both a and b are parsed
\* before the here-document body has been read)
IncompleteOK(n) == CallbackDue /\ OpenAt(fed) /\ n >= 0
EmptyOK         == CallbackDue /\ ~OpenAt(fed) /\ Pending = 0
\* Nothing more is owed: end of input seen, and the last line had its callback -- except that a
\* last line without newline that finished nothing need not get an (empty) callback.
Finished        == eof /\ (fed = 0 \/ prompted \/ (~NlAt(fed) /\ Pending = 0 /\ ~OpenAt(fed)))

\* ---------------------------------------------------------------- model: the user types lines
Init == /\ lines = <<>> /\ fed = 0 /\ ndel = 0 /\ prompted = FALSE /\ eof = FALSE
        /\ phase = "run" /\ hist = <<>>

FeedLine(c, o, nl) ==
  /\ phase = "run" /\ fed < MaxLines /\ NlAt(fed)
  /\ IF Defect = "read_before_callback" THEN ~eof ELSE ReadOK
  /\ (OpenAt(fed) /\ ~o) => c >= 1          \* closing the open statement finishes it
  /\ (~nl \/ fed + 1 = MaxLines) => ~o      \* scope: programs that parse (the last line closes everything)
  /\ lines' = Append(lines, [done |-> DoneAt(fed) + c, open |-> o, nl |-> nl])
  /\ fed' = fed + 1 /\ prompted' = FALSE
  /\ hist' = Append(hist, [e |-> "read", pending |-> Pending, open |-> OpenAt(fed), prompted |-> prompted, fed |-> fed])
  /\ UNCHANGED <<ndel, eof, phase>>

FeedEOF ==
  /\ phase = "run" /\ ReadOK
  /\ ~OpenAt(fed)                            \* scope: programs that parse
  /\ eof' = TRUE
  /\ hist' = Append(hist, [e |-> "eof", pending |-> Pending, open |-> FALSE, prompted |-> prompted, fed |-> fed])
  /\ UNCHANGED <<lines, fed, ndel, prompted, phase>>

CallbackStmts(n) ==
  /\ phase = "run"
  /\ IF Defect = "partial_delivery" THEN CallbackDue /\ ~OpenAt(fed) /\ n > 0 /\ n <= Pending ELSE StmtsOK(n)
  /\ ndel' = ndel + n /\ prompted' = TRUE
  /\ hist' = Append(hist, [e |-> "stmts", n |-> n, first |-> ndel + 1, open |-> OpenAt(fed), fed |-> fed])
  /\ UNCHANGED <<lines, fed, eof, phase>>

CallbackIncomplete(n) ==
  /\ phase = "run"
  /\ IF Defect = "incomplete_when_closed" THEN CallbackDue ELSE IncompleteOK(n)
  /\ prompted' = TRUE
  /\ hist' = Append(hist, [e |-> "incomplete", n |-> 0, first |-> ndel + 1, open |-> OpenAt(fed), fed |-> fed])
  /\ UNCHANGED <<lines, fed, ndel, eof, phase>>

CallbackEmpty ==
  /\ phase = "run" /\ EmptyOK
  /\ prompted' = TRUE
  /\ hist' = Append(hist, [e |-> "empty", n |-> 0, first |-> ndel + 1, open |-> FALSE, fed |-> fed])
  /\ UNCHANGED <<lines, fed, ndel, eof, phase>>

Finish ==
  /\ phase = "run"
  /\ IF Defect = "drop_unterminated" THEN eof /\ (prompted \/ fed = 0 \/ ~NlAt(fed)) ELSE Finished
  /\ phase' = "end"
  /\ UNCHANGED <<lines, fed, ndel, prompted, eof, hist>>

Next == \/ \E c \in 0..MaxPerLine, o \in BOOLEAN, nl \in BOOLEAN : FeedLine(c, o, nl)
        \/ FeedEOF
        \/ \E n \in 0..(MaxLines * MaxPerLine) : CallbackStmts(n)
        \/ \E n \in {0, Pending} : CallbackIncomplete(n)    \* what it shows does not matter (not recorded)
        \/ CallbackEmpty
        \/ Finish
Spec == Init /\ [][Next]_vars

\* ---------------------------------------------------------------- laws (checked by TLC)
TypeOK == /\ fed = Len(lines) /\ ndel \in Nat /\ prompted \in BOOLEAN /\ eof \in BOOLEAN

\* Only finished statements are handed over, in order, each once (the k-th hand-over starts at
\* the statement after the last one handed over).
DeliveredIsPrefix ==
  /\ ndel <= DoneAt(fed)
  /\ \A i \in DOMAIN hist : hist[i].e = "stmts" =>
        hist[i].first = 1 + (LET S == {j \in 1..(i - 1) : hist[j].e = "stmts"} IN
                             IF S = {} THEN 0
                             ELSE LET j == CHOOSE j \in S : \A k \in S : k <= j IN hist[j].first + hist[j].n - 1)

\* At the end everything the user typed has been handed over.
NothingLost == phase = "end" => ndel = DoneAt(fed)

\* Incomplete is reported only while a statement is unfinished ...
IncompleteOnlyWhileOpen == \A i \in DOMAIN hist : hist[i].e = "incomplete" => hist[i].open
\* ... and whenever one is: the parser never asks for the next line of an open statement without
\* having told the consumer (it would not print the "> " prompt).
IncompleteWheneverOpen ==
  \A i \in DOMAIN hist : (hist[i].e = "read" /\ hist[i].open) =>
      \E j \in 1..(i - 1) : hist[j].e = "incomplete" /\ hist[j].fed = hist[i].fed

\* Finished statements are handed over before the next line is requested.
RunBeforeRead ==
  \A i \in DOMAIN hist : (hist[i].e = "read" /\ ~hist[i].open) => hist[i].pending = 0

\* Exactly one callback per line that ends in a newline.
OneCallbackPerLine ==
  \A i \in DOMAIN hist : hist[i].e = "read" /\ hist[i].fed > 0 =>
      Cardinality({j \in 1..(i - 1) : hist[j].e \in {"stmts", "incomplete", "empty"} /\ hist[j].fed = hist[i].fed}) = 1

\* The protocol is implementable: whatever the user types, some action is possible until the end.
Progress == phase = "end" \/ ENABLED Next
=============================================================================
