--------------------------- MODULE ShParserReuse ---------------------------
(* C08 (c): a Parser or Printer that was used before on any other input gives the same result
   as a fresh one.   Style S.

   The object is a long-lived syntax.Parser (Obj = "parser") or syntax.Printer (Obj = "printer").
   The state is the HISTORY of what was done with it, drawn from a library of *exit kinds*: each
   kind is one use of the object (an entry point + an input + how the caller left it) that
   leaves the object in a particular internal condition when it returns -- finished normally,
   stopped by an error in the middle of a quoted string / backquotes inside quotes / a regular
   expression with an open parenthesis / a here-document / arithmetic / a case clause ..., an
   iterator that the caller abandoned, a different entry point (Document, Arithmetic, Words),
   a reader or writer that failed, or an option applied to the existing object.

   Contract.  Options are the only thing a use may leave behind:
       Outcome(history ; probe)  =  Outcome(fresh object with EffectiveOptions(history) ; probe)
   for every probe (any non-option kind of the library, and the generated programs of ShSyntax,
   which the driver appends).  The driver replays every emitted history on ONE real object,
   then the probe, and compares with a fresh object built with the emitted options.

   What TLC does here: it enumerates every history up to MaxHist uses (breadth first, each once),
   maintains the abstract condition of the object -- which *components* are left non-initial --
   and the options in force, checks the laws below, and emits each history with
     opts     the options in force after it (so the driver does not interpret option kinds)
     dirty    the components a careless reset would leak into the next use, given `NotReset`,
              the set of components the code's reset() was seen not to restore (read off
              Parser.reset / Printer.reset; it only ranks histories as suspects in the evidence,
              it is never a verdict).  *)
EXTENDS Naturals, Sequences, FiniteSets, TLC, Json

CONSTANTS Obj,        \* "parser" | "printer"
          MaxHist     \* histories of up to this many uses

VARIABLES hist,       \* sequence of kind indices
          opts,       \* options in force (maintained incrementally)
          dirty       \* components left non-initial and not restored by reset (see NotReset)
vars == <<hist, opts, dirty>>

\* ---------------------------------------------------------------- the parser library
\* components of the parser's condition
PComponents == {"mode",      \* lexer mode: inside quotes / here-doc body / arithmetic / test / case ...
                "open",      \* counters of open statements and words (what Incomplete() reports)
                "bquote",    \* backquote nesting and how often the last backquote was escaped
                "regexp",    \* open parentheses / first part of a [[ =~ ]] regular expression
                "heredocs",  \* pending here-document redirections and their stop words
                "docmode",   \* Document(): parsing a here-document body without delimiter
                "err",       \* a lexer/parser error is recorded
                "reader",    \* buffered unread bytes, read error, EOF seen
                "comments",  \* comments collected but not yet attached
                "recovered", \* how much of the RecoverErrors budget is used
                "token"}     \* current token, its value and position, "spaced"
\* e: entry point; src: input; k: after how many items the caller abandons the iterator (0 = runs
\* to the end) or the option's argument; leaves: components that are non-initial when it returns
PKind(name, e, src, k, leaves) == [name |-> name, e |-> e, src |-> src, k |-> k, leaves |-> leaves]
PLib == <<
  PKind("ok",          "Parse", "a; b\n", 0, {"token", "reader"}),
  PKind("ok-big",      "Parse", "BIG", 0, {"token", "reader"}),                 \* > 2 read buffers (driver expands BIG)
  PKind("comments",    "Parse", "# c\na # d\n# e\n", 0, {"token", "reader", "comments"}),
  PKind("err-dquote",  "Parse", "echo \"foo", 0, {"mode", "open", "err", "token", "reader"}),
  PKind("err-bq-in-dq", "Parse", "echo \"a `b \\\"c", 0, {"mode", "open", "bquote", "err", "token", "reader"}),
  PKind("err-bq-esc",  "Parse", "echo `a \\`b c` `d", 0, {"mode", "open", "bquote", "err", "token", "reader"}),
  PKind("err-regexp",  "Parse", "[[ a =~ (b", 0, {"mode", "open", "regexp", "err", "token", "reader"}),
  PKind("err-regexp2", "Parse", "[[ a =~ ((b) ", 0, {"mode", "open", "regexp", "err", "token", "reader"}),
  PKind("err-heredoc", "Parse", "cat <<EOF\nbody\n", 0, {"mode", "open", "heredocs", "err", "token", "reader"}),
  PKind("err-heredoc2", "Parse", "cat <<-A <<B; $(cat <<C\nx\n", 0, {"mode", "open", "heredocs", "err", "token", "reader"}),
  PKind("err-heredoc-arith", "Parse", "<<-((", 0, {"mode", "open", "heredocs", "err", "token", "reader"}),   \* (with RecoverErrors: found by C06)
  PKind("err-heredoc-bare", "Parse", "<<a", 0, {"mode", "open", "heredocs", "err", "token", "reader"}),
  PKind("err-arith",   "Parse", "echo $((1 +", 0, {"mode", "open", "err", "token", "reader"}),
  PKind("err-arithcmd", "Parse", "((a[1", 0, {"mode", "open", "err", "token", "reader"}),
  PKind("err-case",    "Parse", "case x in a) foo", 0, {"mode", "open", "err", "token", "reader"}),
  PKind("err-param",   "Parse", "echo ${x:-a b", 0, {"mode", "open", "err", "token", "reader"}),
  PKind("err-array",   "Parse", "a=(b [1]=c", 0, {"mode", "open", "err", "token", "reader"}),
  PKind("err-subst",   "Parse", "echo $(foo <(bar", 0, {"mode", "open", "err", "token", "reader"}),
  PKind("err-hdocword", "Parse", "cat <<$(a)\n", 0, {"mode", "open", "err", "token", "reader"}),
  PKind("err-sglquote", "Parse", "echo 'foo\nbar", 0, {"mode", "open", "err", "token", "reader"}),
  PKind("err-utf8",    "Parse", "echo BADUTF8 x", 0, {"err", "token", "reader"}),        \* driver expands BADUTF8 to byte 0xff
  PKind("err-reader",  "ParseReadErr", "echo foo; echo \"bar", 12, {"mode", "open", "err", "token", "reader"}), \* reader fails after k bytes
  PKind("seq-abandoned", "StmtsSeq", "a; b; c\nd\n", 1, {"open", "token", "reader"}),
  PKind("seq-abandoned-big", "StmtsSeq", "BIG", 2, {"open", "token", "reader"}),
  PKind("seq-abandoned-heredoc", "StmtsSeq", "cat <<EOF; b", 1, {"open", "heredocs", "token", "reader"}),   \* body never given
  PKind("seq-error",   "StmtsSeq", "a; b; (c", 0, {"mode", "open", "err", "token", "reader"}),
  PKind("words-abandoned", "WordsSeq", "a \"b c\" d\n e", 1, {"token", "reader"}),
  PKind("words-error", "WordsSeq", "a b; c", 0, {"err", "token", "reader"}),
  PKind("words",       "WordsSeq", "a $b 'c'\n", 0, {"token", "reader"}),
  PKind("inter-abandoned", "InteractiveSeq", "a\nif b\nthen c; fi\nd\n", 2, {"open", "token", "reader"}),
  PKind("inter",       "InteractiveSeq", "a; b\n\nc <<E\nx\nE\n", 0, {"token", "reader"}),
  PKind("document",    "Document", "foo $x `bar` \\$ \"q\"\n", 0, {"mode", "heredocs", "docmode", "token", "reader"}),
  PKind("document-error", "Document", "foo ${x", 0, {"mode", "heredocs", "docmode", "open", "err", "token", "reader"}),
  PKind("arithmetic",  "Arithmetic", "1 + x * (2 - y)", 0, {"mode", "token", "reader"}),
  PKind("arithmetic-error", "Arithmetic", "1 + (2", 0, {"mode", "open", "err", "token", "reader"}),
  PKind("stopat-hit",  "Parse", "a; b $$ c 'd", 0, {"token", "reader"}),        \* only stops when StopAt("$$") is in force
  PKind("recovered",   "Parse", "(a | ; if b; then c", 0, {"recovered", "err", "token", "reader", "open"}),
  PKind("opt-comments-on",  "opt", "KeepComments", 1, {}),
  PKind("opt-comments-off", "opt", "KeepComments", 0, {}),
  PKind("opt-posix",   "opt", "Variant", 2, {}),
  PKind("opt-bash",    "opt", "Variant", 1, {}),
  PKind("opt-mksh",    "opt", "Variant", 4, {}),
  PKind("opt-zsh",     "opt", "Variant", 16, {}),
  PKind("opt-stopat",  "opt", "StopAt", 1, {}),
  PKind("opt-recover3", "opt", "RecoverErrors", 3, {}),
  PKind("opt-recover0", "opt", "RecoverErrors", 0, {}) >>
POpts0 == [KeepComments |-> 0, Variant |-> 1, StopAt |-> 0, RecoverErrors |-> 0]   \* NewParser()
\* read off Parser.reset: lastBquoteEsc, rxOpenParens, rxFirstPart, spaced and pos are not assigned there
PNotReset == {"bquote", "regexp", "token"}

\* ---------------------------------------------------------------- the printer library
RComponents == {"space",    \* whether a blank is wanted / was written
                "newline",  \* a newline is wanted / required
                "semi",     \* a ';' was written for the current statement
                "comments", \* comments waiting for the end of the line
                "line",     \* current source line, first-line flag
                "level",    \* indentation level, last level, pending increments
                "binary",   \* inside a nested binary command
                "heredocs", \* here-document bodies waiting for the next newline
                "cols",     \* column counter of KeepPadding
                "tabs",     \* the sub-printer used for <<- bodies
                "writer"}   \* buffered writer state, sticky write error
\* e: which node of the parse of src is printed ("File", "Stmt", "Command", "Word", "WordPart",
\* "Assign"), or "Unsupported" (a node type Print refuses), or "FailWriter" (the writer fails after
\* k bytes), or "opt"
RLib == <<
  PKind("file",        "File", "a; b\n", 0, {"space", "newline", "line", "writer"}),
  PKind("file-nested", "File", "if a; then\n{ b && c ||\n d; } | (e; f)\nfi # x\nfor i in 1; do case $i in 1) g;; esac; done\n", 0,
        {"space", "newline", "semi", "line", "level", "binary", "writer"}),
  PKind("file-heredoc", "File", "cat <<EOF; b <<-T\nx\nEOF\n\ty\n\tT\nc\n", 0, {"space", "newline", "line", "heredocs", "tabs", "writer"}),
  PKind("file-comments", "File", "# a\nb # c\n# d\n\n# e\n", 0, {"space", "newline", "line", "comments", "writer"}),
  PKind("file-padding", "File", "a    b   # c\nfoo  bar\n", 0, {"space", "newline", "line", "cols", "writer"}),
  PKind("stmt",        "Stmt", "! a >f &\n", 0, {"space", "newline", "semi", "writer"}),
  PKind("stmt-heredoc", "Stmt", "a <<-E\n\tb\nE\n", 0, {"space", "newline", "heredocs", "tabs", "writer"}),
  PKind("command",     "Command", "{ a; b; }\n", 0, {"space", "newline", "semi", "level", "writer"}),
  PKind("command-binary", "Command", "a && b | c\n", 0, {"space", "binary", "writer"}),
  PKind("word",        "Word", "echo \"a $b\"'c'$(d; e)\n", 0, {"space", "line", "writer"}),
  PKind("wordpart",    "WordPart", "echo $(a; b <<E\nx\nE\n)\n", 0, {"space", "line", "heredocs", "writer"}),
  PKind("assign",      "Assign", "a=(b c [3]=d) b=\"x $y\"\n", 0, {"space", "line", "writer"}),
  PKind("err-unsupported", "Unsupported", "a\n", 0, {}),
  PKind("err-writer",  "FailWriter", "if a; then b <<E\nx\nE\nfi # c\n", 5, {"space", "newline", "line", "level", "heredocs", "comments", "writer"}),
  PKind("err-writer-big", "FailWriter", "BIG", 5000, {"space", "newline", "line", "writer"}),
  PKind("opt-indent4", "opt", "Indent", 4, {}),
  PKind("opt-indent0", "opt", "Indent", 0, {}),
  PKind("opt-minify-on", "opt", "Minify", 1, {}),
  PKind("opt-minify-off", "opt", "Minify", 0, {}),
  PKind("opt-singleline-on", "opt", "SingleLine", 1, {}),
  PKind("opt-singleline-off", "opt", "SingleLine", 0, {}),
  PKind("opt-padding-on", "opt", "KeepPadding", 1, {}),
  PKind("opt-padding-off", "opt", "KeepPadding", 0, {}),
  PKind("opt-binarynextline", "opt", "BinaryNextLine", 1, {}),
  PKind("opt-switchcaseindent", "opt", "SwitchCaseIndent", 1, {}),
  PKind("opt-spaceredirects", "opt", "SpaceRedirects", 1, {}),
  PKind("opt-functionnextline", "opt", "FunctionNextLine", 1, {}) >>
ROpts0 == [Indent |-> 0, Minify |-> 0, SingleLine |-> 0, KeepPadding |-> 0, BinaryNextLine |-> 0,
           SwitchCaseIndent |-> 0, SpaceRedirects |-> 0, FunctionNextLine |-> 0]     \* NewPrinter()
\* read off Printer.reset: wroteSemi, cols, tabsPrinter and the buffered writer are not assigned there
RNotReset == {"semi", "cols", "tabs", "writer"}

\* ---------------------------------------------------------------- the machine
Lib        == IF Obj = "parser" THEN PLib ELSE RLib
Components == IF Obj = "parser" THEN PComponents ELSE RComponents
Opts0      == IF Obj = "parser" THEN POpts0 ELSE ROpts0
NotReset   == IF Obj = "parser" THEN PNotReset ELSE RNotReset
IsOpt(k)   == Lib[k].e = "opt"

ApplyOpt(o, k) == [o EXCEPT ![Lib[k].src] = Lib[k].k]

Init == hist = <<>> /\ opts = Opts0 /\ dirty = {}

\* One use of the object.  Every entry point begins by re-initialising the object; what the code's
\* reset() was seen not to restore survives into the use, which then leaves its own marks.
Use(k) ==
  /\ Len(hist) < MaxHist
  /\ hist' = Append(hist, k)
  /\ IF IsOpt(k)
     THEN opts' = ApplyOpt(opts, k) /\ dirty' = dirty
     ELSE opts' = opts /\ dirty' = (dirty \cap NotReset) \cup Lib[k].leaves

Next == \E k \in DOMAIN Lib : Use(k)
Spec == Init /\ [][Next]_vars

\* ---------------------------------------------------------------- laws
\* options in force = left fold of the option kinds over the constructor's defaults
RECURSIVE Fold(_, _)
Fold(h, i) == IF i = 0 THEN Opts0 ELSE LET o == Fold(h, i - 1) IN IF IsOpt(h[i]) THEN ApplyOpt(o, h[i]) ELSE o
OptionsLaw == opts = Fold(hist, Len(hist))

\* the library is well formed: unique names, components from the component set, and every
\* component of the object is left non-initial by at least one kind (so that every field of the
\* object is put at risk by some history)
LibraryOK ==
  /\ \A i, j \in DOMAIN Lib : Lib[i].name = Lib[j].name => i = j
  /\ \A i \in DOMAIN Lib : Lib[i].leaves \subseteq Components /\ (IsOpt(i) => Lib[i].src \in DOMAIN Opts0)
  /\ \A c \in Components : \E i \in DOMAIN Lib : c \in Lib[i].leaves
  /\ NotReset \subseteq Components

\* under the CONTRACT (a reset that restores everything) nothing survives: the abstract machine
\* with NotReset = {} has dirty = marks of the last non-option use only
ContractClean ==
  LET last == {i \in DOMAIN hist : ~IsOpt(hist[i])} IN
  (dirty \ NotReset) \subseteq (IF last = {} THEN {} ELSE Lib[hist[CHOOSE i \in last : \A j \in last : j <= i]].leaves)

\* what would leak into the NEXT use
Suspect == dirty \cap NotReset

Emit == PrintT(<<"VEC", ToJson([hist |-> [i \in DOMAIN hist |-> Lib[hist[i]].name], opts |-> opts,
                                 suspect |-> Suspect])>>)

\* the library itself, emitted once (initial state) so that the driver has a single source of truth
EmitLib == IF hist = <<>>
           THEN PrintT(<<"STAT", ToJson([obj |-> Obj, lib |-> Lib, opts0 |-> Opts0])>>)
           ELSE TRUE
=============================================================================
