SPECIFICATION Spec
CONSTANTS Keys = {"a", "0", "k k"}
  Vals = {"x", "y", ""}
INVARIANTS TypeOK MapLaws EmitState
