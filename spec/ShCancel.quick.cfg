SPECIFICATION Spec
CONSTANTS FifoCancellable = TRUE
  WaitCancellable = TRUE
  MaxCancel = 8
  Mode = "mc"
INVARIANTS TypeOK NoStuck WakeSound EmitShape
PROPERTIES Live
