SPECIFICATION Spec
CONSTANTS MaxLen = 2
INVARIANTS EnvReadOnly TreeIsProg EmitVec
PROPERTY Untouched
