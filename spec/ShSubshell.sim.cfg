SPECIFICATION Spec
CONSTANTS MaxLen = 3
  Buggy = FALSE
  Wide = TRUE
  Replay = FALSE
INVARIANTS Isolation HeapWF EmitPD EmitVec
