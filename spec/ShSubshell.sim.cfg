SPECIFICATION Spec
CONSTANTS MaxLen = 3
  Buggy = FALSE
  Wide = TRUE
INVARIANTS Isolation HeapWF EmitPD EmitVec
