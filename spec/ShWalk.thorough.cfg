SPECIFICATION Spec
CONSTANTS
  MaxNodes = 7
  Forget = FALSE
INVARIANTS TypeOK EnteredOnce StackIsPath PruneSkips Complete Prefix PreorderLaw
