---------------------------- MODULE ShRunnerTree ----------------------------
(* C29: Runner.Run leaves the syntax tree and the user's Environ untouched.  Style S.

   The object is a Runner together with the two things the caller owns: `tree` (the parsed
   program handed to Run) and `userEnv` (the expand.Environ handed to interp.Env).  The
   program is built by a choice sequence over a library of statements that exercise every
   place where the interpreter rewrites or re-uses syntax nodes or writes variables
   (assignments, arrays, `declare $x` with expanded arguments, aliases incl. blank ones, brace
   expansion in arguments/loops/arrays/here-documents, functions, traps, eval, namerefs,
   assignments to variables that live in the user's Env).  Once the program is complete the
   caller makes the calls of Schedule on ONE tree and ONE runner:
        Run(tree); Run(tree); Reset; Run(tree)
   The contract:
     * no call changes `tree` or `userEnv`               (action property Untouched)
     * events on the user's Environ are reads only        (EnvReadOnly, used for trace validation:
                                                          a recorded `set` event matches no action)
     * after Reset the tree still denotes the same program, so the third Run is a first Run
       again (checked on the implementation: output of call 4 == output of call 1).
   TLC enumerates every program up to MaxLen statements (BFS) and random longer ones
   (-simulate) and emits one vector per complete program. *)
EXTENDS Integers, Sequences, FiniteSets, TLC, Json

CONSTANTS MaxLen       \* statements per program

VARIABLES prog,        \* choice sequence: indices into Rich
          calls,       \* API calls made so far on the finished program
          envlog,      \* kinds of events seen on the user's Environ
          tree, userEnv
vars == <<prog, calls, envlog, tree, userEnv>>

(* Statement library; the entry IS the shell source (NL = newline inside a statement). *)
Rich == <<
  "echo {a,b}{1,2}",
  "echo x{1..3}y {z..x} {1..10..4}",
  "for i in {1..3} p{x,y}; do echo $i; done",
  "a=(1 2 {3,4})",
  "a+=(5 {6,7})",
  "a+=x",
  "a[1]=z",
  "unset 'a[0]'",
  "declare -A m=([k]=v [j]=w)",
  "m[k]+=2; echo ${m[k]} ${#m[@]}",
  "x='b=1 c=2'",
  "declare $x; echo $b $c",
  "y='-x d=3'; declare $y; declare -p d",
  "export b=1 c=$x",
  "f() { local l=1 $x; echo \"f:$*\" {p,q} $l $b; }",
  "f 1 {2,3}",
  "declare -f f",
  "unset -f f",
  "alias e='echo al'; shopt -s expand_aliases",
  "e 1 {2,3}",
  "alias b1='e '; alias w='word {4,5}'",
  "b1 w w",
  "unalias e",
  "while read -r l; do echo \"<$l>\"; done <<EOF\nhello $x {a,b}\n$(echo sub)\nEOF",
  "while read -r l; do echo \"<$l>\"; done <<-EOF\n\thello $x\n\t\ttabs ${a[@]}\n\tEOF",
  "while read -r l; do echo \"<$l>\"; done <<'EOF'\nraw $x {a,b}\nEOF",
  "read q <<<\"s{1,2} $x\"; echo $q",
  "trap 'echo bye {1,2} $x' EXIT",
  "trap 'echo err' ERR",
  "false",
  "echo ${x:=dflt} ${z:-{a,b}} ${z:=zz}",
  "echo ${a[@]/1/one} ${#a[@]} ${!a[@]} ${a[@]:1:2}",
  "((n++)); echo $n $((n+=2)) $((a[0]++))",
  "let n+=2 'k = n * 2'; echo $n $k",
  "for ((i=0;i<2;i++)); do echo $i; done",
  "case $x in b*) echo {m,n};; *) echo other;; esac",
  "[[ $x == b* && -n $x ]] && echo yes",
  "eval 'echo {e,f}$x; v=ev'",
  "echo $(echo {s,t}; f 2>/dev/null) `echo bq`",
  "unset x a",
  "readonly r=1",
  "r=2",
  "set -- {u,v} \"$@\"; echo $#",
  "shift; echo \"$@\"",
  "IFS=: read p1 p2 <<<\"a:b\"; echo $p2",
  "(x=sub; a[0]=s; echo $x {1,2})",
  "{ echo grp {1,2}; } >/dev/null",
  "echo {1..3} | while read l; do echo \"<$l>\"; done",
  "echo ~ ~/x \"${x^^}\" \"${x:1:2}\"",
  "E=changed; echo $E",
  "unset E HOME; echo ${E-unset}",
  "export E=again PATH=/p; E+=more",
  "declare -n ref=x; ref=viaref; echo $x",
  "declare -r E; E=no",
  "x={1,2}; y=$x{3,4}; echo $y",
  "select s in {a,b}; do echo $s; break; done </dev/null",
  "time echo {t1,t2}",
  "echo *{1,2} $BASE/sub1/*",
  "g() { g2() { echo inner {1,2}; }; g2; }; g; g2" >>
NRich == Len(Rich)

Schedule == <<"run", "run", "reset", "run">>

UserEnvInit == [E |-> "e0", BASE |-> "D0", HOME |-> "D0", TMPDIR |-> "D0",
                PATH |-> "/nonexistent", LC_ALL |-> "C.UTF-8"]

Src(p) == [i \in 1..Len(p) |-> Rich[p[i]]]

Init == /\ prog = <<>> /\ calls = <<>> /\ envlog = {}
        /\ tree = <<>>
        /\ userEnv = UserEnvInit

(* Building the program: the tree is not yet in the runner's hands. *)
Extend(i) == /\ calls = <<>> /\ Len(prog) < MaxLen
             /\ prog' = Append(prog, i)
             /\ tree' = Src(prog')
             /\ UNCHANGED <<calls, envlog, userEnv>>

(* The calls.  A Run may read the user's environment (Get/Each); nothing else. *)
Call == /\ Len(prog) > 0 /\ Len(calls) < Len(Schedule)
        /\ calls' = Append(calls, Schedule[Len(calls) + 1])
        /\ envlog' = IF Schedule[Len(calls) + 1] = "run" THEN envlog \cup {"get", "each"} ELSE envlog
        /\ UNCHANGED <<prog, tree, userEnv>>

Next == (\E i \in 1..NRich : Extend(i)) \/ Call
Spec == Init /\ [][Next]_vars

Untouched   == [][calls' # <<>> => (tree' = tree /\ userEnv' = userEnv)]_vars
EnvReadOnly == envlog \subseteq {"get", "each"}
TreeIsProg  == tree = Src(prog)

EmitVec == calls # <<>> \/ prog = <<>> \/
  PrintT(<<"VEC", ToJson([prog |-> prog, src |-> tree, schedule |-> Schedule, env |-> userEnv])>>)
=============================================================================
