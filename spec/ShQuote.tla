---------------------------- MODULE ShQuote ----------------------------
(* C13: syntax.Quote produces a word that expands back to the string.

   The contract does not say how to quote; it specifies the *reader*: what a shell of the
   given variant makes of a word that consists of unquoted-safe bytes, '...', "..." and
   $'...' parts (POSIX sh 2.2 Quoting; bash manual 3.1.2; mksh(1) for the greedy \x), and
   when Quote is allowed to fail.  Bytes are integers 1..255 (a word never contains NUL).

     Unquote(q, lang) = [ok, s, plain]   ok: q is one word made only of literal and quoted parts
                                         s: the string the word expands to
                                         plain: no quoting at all was used
     FailAllowed(s, cls, lang)           Quote may return an error for s

   The module is used by ShQuoteTrace, which validates the events recorded from the real
   syntax.Quote, and has a small input builder of its own (Spec) on which TLC checks laws of
   the reader: single quotes are the identity, the three quoting styles agree on what they
   can all express, and concatenation of parts concatenates their values. *)
EXTENDS Integers, Sequences, FiniteSets, TLC

SQ == 39   DQ == 34   BSL == 92   DOLLAR == 36   BQ == 96   NL == 10

IsDigit(b) == b >= 48 /\ b <= 57
IsAlnum(b) == IsDigit(b) \/ (b >= 65 /\ b <= 90) \/ (b >= 97 /\ b <= 122)
IsHexB(b)  == IsDigit(b) \/ (b >= 65 /\ b <= 70) \/ (b >= 97 /\ b <= 102)
IsOctB(b)  == b >= 48 /\ b <= 55
HexV(b)    == IF IsDigit(b) THEN b - 48 ELSE IF b >= 97 THEN b - 87 ELSE b - 55

\* Bytes that stand for themselves outside quotes anywhere in a word, in every variant:
\* letters, digits, _ - . / : , + @ % ^ ] } ! and the bytes of non-ASCII characters.
\* (Everything else is either special somewhere - blanks, ; & | < > ( ) $ ` \ " ' # ~ * ? [ { = -
\* or simply never needed unquoted.)
SafeUnquoted(b) == IsAlnum(b) \/ b \in {95, 45, 46, 47, 58, 44, 43, 64, 37, 94, 93, 125, 33} \/ b >= 128

\* Reserved words: a word spelled like one of these without any quoting is not a plain word
\* where a command may start.
RW_if == <<105,102>>          RW_then == <<116,104,101,110>>   RW_else == <<101,108,115,101>>
RW_elif == <<101,108,105,102>> RW_fi == <<102,105>>            RW_do == <<100,111>>
RW_done == <<100,111,110,101>> RW_case == <<99,97,115,101>>    RW_esac == <<101,115,97,99>>
RW_while == <<119,104,105,108,101>> RW_until == <<117,110,116,105,108>> RW_for == <<102,111,114>>
RW_in == <<105,110>>          RW_bang == <<33>>               RW_lbrace == <<123>>
RW_rbrace == <<125>>          RW_dlbrack == <<91,91>>         RW_drbrack == <<93,93>>
RW_function == <<102,117,110,99,116,105,111,110>>             RW_select == <<115,101,108,101,99,116>>
RW_time == <<116,105,109,101>> RW_coproc == <<99,111,112,114,111,99>>
PosixReserved == {RW_if, RW_then, RW_else, RW_elif, RW_fi, RW_do, RW_done, RW_case, RW_esac,
                  RW_while, RW_until, RW_for, RW_in, RW_bang, RW_lbrace, RW_rbrace}
Reserved(lang) == IF lang = "posix" THEN PosixReserved
                  ELSE PosixReserved \cup {RW_dlbrack, RW_drbrack, RW_function, RW_select, RW_time}
                       \cup (IF lang \in {"bash", "bats"} THEN {RW_coproc} ELSE {})

Bad == [ok |-> FALSE, s |-> <<>>, plain |-> FALSE]

\* first index >= i with q[index] = b, or 0
RECURSIVE IndexFrom(_, _, _)
IndexFrom(q, i, b) == IF i > Len(q) THEN 0 ELSE IF q[i] = b THEN i ELSE IndexFrom(q, i + 1, b)

RECURSIVE HexRun(_, _, _)      \* index after at most n hex digits starting at i
HexRun(q, i, n) == IF n > 0 /\ i <= Len(q) /\ IsHexB(q[i]) THEN HexRun(q, i + 1, n - 1) ELSE i
RECURSIVE OctRun(_, _, _)
OctRun(q, i, n) == IF n > 0 /\ i <= Len(q) /\ IsOctB(q[i]) THEN OctRun(q, i + 1, n - 1) ELSE i
RECURSIVE HexNum(_, _, _)
HexNum(q, i, j) == IF j < i THEN 0 ELSE HexNum(q, i, j - 1) * 16 + HexV(q[j])
RECURSIVE OctNum(_, _, _)
OctNum(q, i, j) == IF j < i THEN 0 ELSE OctNum(q, i, j - 1) * 8 + (q[j] - 48)

Utf8(cp) ==
  IF cp < 128 THEN <<cp>>
  ELSE IF cp < 2048 THEN <<192 + (cp \div 64), 128 + (cp % 64)>>
  ELSE IF cp < 65536 THEN <<224 + (cp \div 4096), 128 + ((cp \div 64) % 64), 128 + (cp % 64)>>
  ELSE <<240 + (cp \div 262144), 128 + ((cp \div 4096) % 64), 128 + ((cp \div 64) % 64), 128 + (cp % 64)>>

CSimple == [b \in {97, 98, 101, 69, 102, 110, 114, 116, 118, 92, 39, 34, 63} |->
   CASE b = 97 -> 7 [] b = 98 -> 8 [] b \in {101, 69} -> 27 [] b = 102 -> 12 [] b = 110 -> 10
     [] b = 114 -> 13 [] b = 116 -> 9 [] b = 118 -> 11 [] OTHER -> b]

\* One escape inside $'...'; q[i] = backslash.  Result [ok, bytes, nx].
CEscape(q, i, lang) ==
  IF i >= Len(q) THEN [ok |-> FALSE, bytes |-> <<>>, nx |-> i]
  ELSE LET c == q[i + 1] IN
    IF c \in DOMAIN CSimple THEN [ok |-> TRUE, bytes |-> <<CSimple[c]>>, nx |-> i + 2]
    ELSE IF c = 120 THEN       \* \xH[H]; mksh goes on reading hex digits, so a third one is ambiguous there
      LET e == HexRun(q, i + 2, 2)
          v == HexNum(q, i + 2, e - 1) IN
      [ok |-> e > i + 2 /\ v # 0 /\ ~(lang = "mksh" /\ e <= Len(q) /\ IsHexB(q[e])),
       bytes |-> <<v>>, nx |-> e]
    ELSE IF c \in {117, 85} THEN  \* \uH[HHH]  \UH[HHHHHHH]
      LET e == HexRun(q, i + 2, IF c = 117 THEN 4 ELSE 8)
          big == e - (i + 2) = 8 /\ HexV(q[i + 2]) > 7           \* would overflow; certainly invalid
          v == IF big THEN 0 ELSE HexNum(q, i + 2, e - 1) IN
      [ok |-> e > i + 2 /\ ~big /\ v # 0 /\ v <= 1114111 /\ ~(v >= 55296 /\ v <= 57343)
              /\ ~(lang = "mksh" /\ v > 65533),
       bytes |-> Utf8(v), nx |-> e]
    ELSE IF IsOctB(c) THEN
      LET e == OctRun(q, i + 1, 3)
          v == OctNum(q, i + 1, e - 1) % 256 IN
      [ok |-> v # 0, bytes |-> <<v>>, nx |-> e]
    ELSE [ok |-> FALSE, bytes |-> <<>>, nx |-> i]          \* \cX and unknown escapes: not needed

RECURSIVE CBody(_, _, _, _)    \* inside $'...' from index i; result [ok, s, nx] with nx after the closing quote
CBody(q, i, acc, lang) ==
  IF i > Len(q) THEN [ok |-> FALSE, s |-> acc, nx |-> i]
  ELSE IF q[i] = SQ THEN [ok |-> TRUE, s |-> acc, nx |-> i + 1]
  ELSE IF q[i] = BSL THEN
    LET e == CEscape(q, i, lang) IN
    IF e.ok THEN CBody(q, e.nx, acc \o e.bytes, lang) ELSE [ok |-> FALSE, s |-> acc, nx |-> i]
  ELSE CBody(q, i + 1, Append(acc, q[i]), lang)

RECURSIVE DBody(_, _, _)       \* inside "..." from index i
DBody(q, i, acc) ==
  IF i > Len(q) THEN [ok |-> FALSE, s |-> acc, nx |-> i]
  ELSE IF q[i] = DQ THEN [ok |-> TRUE, s |-> acc, nx |-> i + 1]
  ELSE IF q[i] \in {DOLLAR, BQ} THEN [ok |-> FALSE, s |-> acc, nx |-> i]     \* an expansion, not a literal
  ELSE IF q[i] = BSL THEN
    IF i = Len(q) THEN [ok |-> FALSE, s |-> acc, nx |-> i]
    ELSE IF q[i + 1] \in {BSL, DQ, DOLLAR, BQ} THEN DBody(q, i + 2, Append(acc, q[i + 1]))
    ELSE IF q[i + 1] = NL THEN DBody(q, i + 2, acc)                           \* line continuation
    ELSE DBody(q, i + 2, acc \o <<BSL, q[i + 1]>>)                            \* the backslash stays
  ELSE DBody(q, i + 1, Append(acc, q[i]))

RECURSIVE Parts(_, _, _, _, _)
Parts(q, i, acc, plain, lang) ==
  IF i > Len(q) THEN [ok |-> TRUE, s |-> acc, plain |-> plain]
  ELSE LET b == q[i] IN
    IF b = SQ THEN
      LET e == IndexFrom(q, i + 1, SQ) IN
      IF e = 0 THEN Bad ELSE Parts(q, e + 1, acc \o SubSeq(q, i + 1, e - 1), FALSE, lang)
    ELSE IF b = DQ THEN
      LET d == DBody(q, i + 1, <<>>) IN
      IF d.ok THEN Parts(q, d.nx, acc \o d.s, FALSE, lang) ELSE Bad
    ELSE IF b = DOLLAR /\ i < Len(q) /\ q[i + 1] = SQ /\ lang # "posix" THEN
      LET c == CBody(q, i + 2, <<>>, lang) IN
      IF c.ok THEN Parts(q, c.nx, acc \o c.s, FALSE, lang) ELSE Bad
    ELSE IF b = BSL THEN
      IF i < Len(q) /\ q[i + 1] # NL THEN Parts(q, i + 2, Append(acc, q[i + 1]), FALSE, lang) ELSE Bad
    ELSE IF SafeUnquoted(b) THEN Parts(q, i + 1, Append(acc, b), plain, lang)
    ELSE Bad

Unquote(q, lang) == IF q = <<>> THEN Bad ELSE Parts(q, 1, <<>>, TRUE, lang)

\* The word may stand where a command starts
NotReserved(q, lang) == ~(Unquote(q, lang).plain /\ q \in Reserved(lang))

\* ----------------------------------------------------------------------
\* When Quote may fail.  cls: one entry per character of s as decoded by Go,
\* <<size, class, big>> with class "print" | "nonprint" | "invalid", big = code point > U+FFFD.
HasNul(s) == \E k \in 1..Len(s) : s[k] = 0
FailAllowed(s, cls, lang) ==
  \/ HasNul(s)
  \/ lang = "posix" /\ \E k \in 1..Len(cls) : cls[k][2] \in {"nonprint", "invalid"}
  \/ lang = "mksh" /\ \E k \in 1..Len(cls) : cls[k][3]

\* the classification handed over by the harness is consistent with s where the spec can tell:
\* sizes add up, and ASCII characters are printable exactly from 32 to 126
RECURSIVE SumSizes(_, _)
SumSizes(cls, k) == IF k = 0 THEN 0 ELSE cls[k][1] + SumSizes(cls, k - 1)
RECURSIVE Offsets(_, _, _)
Offsets(cls, k, off) == IF k > Len(cls) THEN <<>> ELSE <<off>> \o Offsets(cls, k + 1, off + cls[k][1])
ClassSane(s, cls) ==
  /\ SumSizes(cls, Len(cls)) = Len(s)
  /\ LET offs == Offsets(cls, 1, 1) IN
     \A k \in 1..Len(cls) :
       LET b == s[offs[k]] IN
       /\ (b < 128 => cls[k][1] = 1 /\ cls[k][2] = (IF b >= 32 /\ b <= 126 THEN "print" ELSE "nonprint"))
       /\ (cls[k][2] = "invalid" => cls[k][1] = 1 /\ b >= 128)
       /\ (cls[k][3] => cls[k][1] >= 3)

\* ----------------------------------------------------------------------
\* A small builder of words, to check laws of the reader itself with TLC.
CONSTANTS Alphabet,   \* bytes used to build strings
          MaxLen      \* bound on the string length
VARIABLES str
Init == str = <<>>
Next == Len(str) < MaxLen /\ \E b \in Alphabet : str' = Append(str, b)
Spec == Init /\ [][Next]_str

Langs == {"bash", "posix", "mksh", "bats", "zsh"}
Has(s, b) == \E k \in 1..Len(s) : s[k] = b
\* single quotes: identity on strings without '
SglLaw == ~Has(str, SQ) => \A l \in Langs : Unquote(<<SQ>> \o str \o <<SQ>>, l) = [ok |-> TRUE, s |-> str, plain |-> FALSE]
\* double quotes with the four specials escaped: identity
RECURSIVE DqEsc(_)
DqEsc(s) == IF s = <<>> THEN <<>>
            ELSE (IF Head(s) \in {BSL, DQ, DOLLAR, BQ} THEN <<BSL, Head(s)>> ELSE <<Head(s)>>) \o DqEsc(Tail(s))
DblLaw == \A l \in Langs : Unquote(<<DQ>> \o DqEsc(str) \o <<DQ>>, l) = [ok |-> TRUE, s |-> str, plain |-> FALSE]
\* $'...' with every byte written as \xHH (two digits, upper or lower case): identity, except in POSIX
HexD(v) == IF v < 10 THEN 48 + v ELSE 87 + v
RECURSIVE XEsc(_)
XEsc(s) == IF s = <<>> THEN <<>> ELSE <<BSL, 120, HexD(Head(s) \div 16), HexD(Head(s) % 16)>> \o XEsc(Tail(s))
CLaw == \A l \in Langs \ {"posix"} :
          Unquote(<<DOLLAR, SQ>> \o XEsc(str) \o <<SQ>>, l) = [ok |-> TRUE, s |-> str, plain |-> FALSE]
\* an unquoted word is accepted only if all its bytes are safe, and then it is itself
PlainLaw == \A l \in Langs : LET u == Unquote(str, l) IN
              (u.ok /\ u.plain) => u.s = str /\ \A k \in 1..Len(str) : SafeUnquoted(str[k])
\* concatenating two quoted words concatenates their values
ConcatLaw == ~Has(str, SQ) =>
               LET w == <<SQ>> \o str \o <<SQ>> IN
               Unquote(w \o <<DQ>> \o DqEsc(str) \o <<DQ>>, "bash").s = str \o str
==========================================================================
