SPECIFICATION Spec
CONSTANTS Alphabet = {39, 34, 92, 36, 96, 97, 32, 10, 200, 49}
  MaxLen = 3
INVARIANTS SglLaw DblLaw CLaw PlainLaw ConcatLaw
