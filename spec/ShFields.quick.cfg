SPECIFICATION Spec
CONSTANTS
  MaxTok = 3
  MaxDqInner = 2
  MaxExp = 2
  TokSet = {"LIT","ESP","SQE","SQ","V","W","CS","QCS","AT","STAR","DQE","DQL","QV","QAT","QSTAR","DQ"}
  IfsSet = {1,2,5,6,10}
  ShapeSet = {1,2,3,5,6,7,8}
  WShapeSet = {2,6,13}
  MixShapeSet = {2,6,7}
  MixParamSet = {1,2,4,6}
  ParamSet = {1,2,3,4,5,6}
  CSMaxLen = 1
  SimMinTok = 0
  RawMaxTok = 1
  MaxRaw = 5
  MaxRawCS = 3
  AlphaN = 3
INVARIANTS Laws EmitInv
