---------------------------- MODULE ShArith ----------------------------
(* C20: arithmetic evaluation matches bash.   Style F, choice-sequence builder.

   State = a sequence of small integers (choices).  Decode(ch) reads it as an arithmetic
   expression tree; Next appends one choice that is allowed at the open position, so TLC's BFS
   enumerates every tree of the family exactly once and -simulate draws random deep trees.
   Families (first choice):
     1  one operator over the leaf menu (all operators x all leaves: literal forms, variables,
        ++/--), and the bare leaves
     2  two operators: every pairing of an operator with an operator child, in every position,
        over fixed leaves 7, 3, 2 and the variable x  (precedence and associativity)
     3  free: any tree up to MaxDepth over the full menus (simulation)
     4  every literal of the full menu, bare and under a unary minus (the digit-set rules of base#n)

   The contract is bash's evaluator (expr.c), written from the manual and observed behaviour:
     Eval(t, env, ne, M, fuel) = [v, env, err, oos, used]
   one left-to-right pass with C precedence given by the tree; assignment and ++/-- update the
   environment; && || ?: evaluate the branch that is not taken in no-evaluation mode (ne): no
   variable is read or written and a division by zero is ignored, but a malformed literal or a
   negative exponent is still an error; a variable holds text that is evaluated as an
   expression (recursively, at most Fuel levels); errors keep the assignments made so far.
   oos = outside the property (shift count outside 0..63, magnitude beyond Big).
   M = TRUE evaluates the same tree the way mvdan/sh is known to (named deviations, see DevNames);
   used = which of them mattered.

   Render(t, full) gives the token list with minimal or with full parentheses: the concrete
   syntax belongs to the contract, the binding only joins tokens.  Each complete tree is emitted
   with, for every environment of EnvMenu that matters, the results and the outcome in the five
   contexts $(( )), (( )), let "", ${a[ ]}, for (( )). *)
EXTENDS Integers, Sequences, FiniteSets, TLC, Json

CONSTANTS Families,   \* set of family numbers allowed as first choice
          NLit1,      \* family 1 uses the first NLit1 literals of the menu
          EnvSel,     \* sequence of indices into EnvMenu: the environments each tree with a variable is run in
          MaxDepth,   \* depth bound of family 3
          Fuel        \* recursion bound for variables holding expression text

VARIABLE ch
vars == <<ch>>

Big == 1000000
Abs(n) == IF n < 0 THEN 0 - n ELSE n

(* ------------------------------------------------------------------ menus *)
Num(s, v)  == [k |-> "lit", s |-> s, v |-> v, ok |-> TRUE]
BadNum(s)  == [k |-> "lit", s |-> s, v |-> 0, ok |-> FALSE]
(* base#n literals (bash manual, ARITHMETIC EVALUATION): base 2..64; the digits are 0-9, a-z, A-Z, @, _
   in that order; up to base 36 upper and lower case letters are the same digits 10..35; every digit
   must be smaller than the base.  The value and the validity of a literal are computed from its
   base and digit list by this rule (the text s is the same literal written out). *)
DigitChars == <<"0","1","2","3","4","5","6","7","8","9",
                "a","b","c","d","e","f","g","h","i","j","k","l","m","n","o","p","q","r","s","t","u","v","w","x","y","z",
                "A","B","C","D","E","F","G","H","I","J","K","L","M","N","O","P","Q","R","S","T","U","V","W","X","Y","Z",
                "@","_">>
DigitOf(c, base) ==
  LET i == CHOOSE k \in 1..64 : DigitChars[k] = c IN
  IF base <= 36 /\ i >= 37 /\ i <= 62 THEN i - 27 ELSE i - 1
RECURSIVE DigitsVal(_, _, _)
DigitsVal(ds, base, acc) == IF ds = <<>> THEN acc ELSE DigitsVal(Tail(ds), base, acc * base + DigitOf(Head(ds), base))
BaseNum(s, base, ds) ==
  LET ok == base >= 2 /\ base <= 64 /\ ds # <<>> /\ \A k \in 1..Len(ds) : DigitOf(ds[k], base) < base IN
  [k |-> "lit", s |-> s, v |-> IF ok THEN DigitsVal(ds, base, 0) ELSE 0, ok |-> ok]
LitFull == <<
  Num("0", 0), Num("2", 2), Num("3", 3), BadNum("08"), Num("0x1F", 31), BaseNum("2#101", 2, <<"1","0","1">>),
  Num("1", 1), Num("7", 7), Num("017", 15), BaseNum("64#_", 64, <<"_">>),
  BaseNum("2#2", 2, <<"2">>), BaseNum("1#0", 1, <<"0">>), BaseNum("65#1", 65, <<"1">>),
  BaseNum("10#08", 10, <<"0","8">>), BaseNum("16#fF", 16, <<"f","F">>), BaseNum("8#8", 8, <<"8">>),
  BaseNum("36#z", 36, <<"z">>), BaseNum("36#Z", 36, <<"Z">>), BaseNum("36#1Z", 36, <<"1","Z">>),
  BaseNum("36#A", 36, <<"A">>), BaseNum("36#10", 36, <<"1","0">>), BaseNum("36#@", 36, <<"@">>),
  BaseNum("35#y", 35, <<"y">>), BaseNum("35#Y", 35, <<"Y">>), BaseNum("35#z", 35, <<"z">>), BaseNum("35#Z", 35, <<"Z">>),
  BaseNum("37#a", 37, <<"a">>), BaseNum("37#z", 37, <<"z">>), BaseNum("37#A", 37, <<"A">>), BaseNum("37#B", 37, <<"B">>),
  BaseNum("37#Z", 37, <<"Z">>), BaseNum("37#1A", 37, <<"1","A">>),
  BaseNum("62#Z", 62, <<"Z">>), BaseNum("62#@", 62, <<"@">>), BaseNum("63#@", 63, <<"@">>), BaseNum("63#_", 63, <<"_">>),
  BaseNum("64#@", 64, <<"@">>), BaseNum("64#1_", 64, <<"1","_">>), BaseNum("64#a", 64, <<"a">>), BaseNum("64#A", 64, <<"A">>),
  BaseNum("64#Z9", 64, <<"Z","9">>),
  Num("0X1f", 31), Num("00", 0), BadNum("019"), BadNum("0x1G") >>
NLit == Len(LitFull)
\* family 1 uses the first NLit1 literals

Vars == <<"x", "y", "z">>
Var(v) == [k |-> "var", v |-> v]
UnOps  == <<"-", "+", "!", "~">>
BinOps == <<"+", "-", "*", "/", "%", "**", "<<", ">>", "<", ">", "<=", ">=", "==", "!=",
            "&", "^", "|", "&&", "||", ",">>
AsgOps == <<"=", "+=", "-=", "*=", "/=", "%=", "<<=", ">>=", "&=", "^=", "|=">>
Un(op, a)      == [k |-> "un", op |-> op, a |-> a]
Bin(op, a, b)  == [k |-> "bin", op |-> op, a |-> a, b |-> b]
Asg(op, v, a)  == [k |-> "asg", op |-> op, v |-> v, a |-> a]
Inc(op, post, v) == [k |-> "inc", op |-> op, post |-> post, v |-> v]
Tern(c, a, b)  == [k |-> "tern", c |-> c, a |-> a, b |-> b]

(* Text a variable can hold.  tree = its meaning as an expression ("empty" and "bad" are not
   trees: empty text counts as 0, bad text is a syntax error).  dv = what mvdan/sh's atoi makes
   of the text (the whole text must be one literal, else 0). *)
TextMenu == <<
  [s |-> "",      kind |-> "empty", tree |-> Num("0", 0),                        dv |-> 0],
  [s |-> "y",     kind |-> "tree",  tree |-> Var("y"),                           dv |-> 0],
  [s |-> "z",     kind |-> "tree",  tree |-> Var("z"),                           dv |-> 0],
  [s |-> "x",     kind |-> "tree",  tree |-> Var("x"),                           dv |-> 0],
  [s |-> "1+2",   kind |-> "tree",  tree |-> Bin("+", Num("1", 1), Num("2", 2)), dv |-> 0],
  [s |-> "x*2",   kind |-> "tree",  tree |-> Bin("*", Var("x"), Num("2", 2)),    dv |-> 0],
  [s |-> "0x10",  kind |-> "tree",  tree |-> Num("0x10", 16),                    dv |-> 16],
  [s |-> "017",   kind |-> "tree",  tree |-> Num("017", 15),                     dv |-> 15],
  [s |-> "08",    kind |-> "tree",  tree |-> BadNum("08"),                       dv |-> 0],
  [s |-> "1 +",   kind |-> "bad",   tree |-> Num("0", 0),                        dv |-> 0],
  [s |-> " 7 ",   kind |-> "tree",  tree |-> Num("7", 7),                        dv |-> 7],
  [s |-> "z=6",   kind |-> "tree",  tree |-> Asg("=", "z", Num("6", 6)),         dv |-> 0],
  [s |-> "y++",   kind |-> "tree",  tree |-> Inc("++", TRUE, "y"),               dv |-> 0] >>
Unset  == [k |-> "unset", n |-> 0, t |-> 0]
IntV(n) == [k |-> "int", n |-> n, t |-> 0]
Txt(i) == [k |-> "txt", n |-> 0, t |-> i]
MkEnv(a, b, c) == [v \in {"x", "y", "z"} |-> IF v = "x" THEN a ELSE IF v = "y" THEN b ELSE c]
EnvMenu == <<
  MkEnv(IntV(5), IntV(2), Unset),
  MkEnv(Txt(1), Unset, IntV(3)),          \* x empty
  MkEnv(Txt(2), IntV(4), IntV(9)),         \* x holds the name y
  MkEnv(Txt(5), Txt(6), IntV(1)),         \* x="1+2"  y="x*2"
  MkEnv(Txt(7), Txt(8), Txt(9)),         \* literal forms, z="08" malformed
  MkEnv(Txt(2), Txt(3), Unset),          \* x -> y -> z -> unset
  MkEnv(Txt(4), Txt(10), IntV(2)),        \* x="x" (cycle)  y="1 +" (syntax error)
  MkEnv(Txt(11), Txt(12), IntV(1)),       \* x=" 7 "  y="z=6" (text with a side effect)
  MkEnv(IntV(0 - 3), IntV(0), IntV(1)),     \* negative, zero
  MkEnv(Txt(13), IntV(1), IntV(0)) >>      \* x="y++"

EnvQuick == <<1, 2, 4, 7, 9>>
EnvAll   == <<1, 2, 3, 4, 5, 6, 7, 8, 9, 10>>

(* ------------------------------------------------------------------ integer operations *)
\* C semantics: truncating division
CDiv(a, b) == LET q == Abs(a) \div Abs(b) IN IF (a < 0) = (b < 0) THEN q ELSE 0 - q
CRem(a, b) == a - b * CDiv(a, b)
\* two's complement bit operations on unbounded integers (floor \div and % keep the sign bits)
RECURSIVE BitAnd(_, _), BitOr(_, _), BitXor(_, _)
BitAnd(a, b) == IF a = 0 \/ b = 0 THEN 0 ELSE IF a = 0 - 1 THEN b ELSE IF b = 0 - 1 THEN a
                ELSE (a % 2) * (b % 2) + 2 * BitAnd(a \div 2, b \div 2)
BitOr(a, b)  == IF a = 0 THEN b ELSE IF b = 0 THEN a ELSE IF a = 0 - 1 \/ b = 0 - 1 THEN 0 - 1
                ELSE (IF a % 2 = 1 \/ b % 2 = 1 THEN 1 ELSE 0) + 2 * BitOr(a \div 2, b \div 2)
BitXor(a, b) == IF a = 0 THEN b ELSE IF b = 0 THEN a ELSE IF a = 0 - 1 THEN 0 - b - 1
                ELSE IF b = 0 - 1 THEN 0 - a - 1
                ELSE (IF (a % 2) # (b % 2) THEN 1 ELSE 0) + 2 * BitXor(a \div 2, b \div 2)
RECURSIVE Pow2(_)
Pow2(n) == IF n = 0 THEN 1 ELSE 2 * Pow2(n - 1)
B01(b) == IF b THEN 1 ELSE 0

AOk(v)  == [v |-> v, err |-> FALSE, oos |-> Abs(v) > Big]
AErr    == [v |-> 0, err |-> TRUE, oos |-> FALSE]
AOos    == [v |-> 0, err |-> FALSE, oos |-> TRUE]
RECURSIVE PowR(_, _)
PowR(a, b) ==       \* b >= 0
  IF b = 0 THEN AOk(1)
  ELSE IF a = 0 \/ a = 1 THEN AOk(a)
  ELSE IF a = 0 - 1 THEN AOk(IF b % 2 = 0 THEN 1 ELSE 0 - 1)
  ELSE IF b > 25 THEN AOos
  ELSE LET p == PowR(a, b - 1) IN
       IF p.oos \/ Abs(p.v) > 30000 \/ Abs(a) > 30000 THEN AOos ELSE AOk(p.v * a)
\* ne: no-evaluation mode (a zero divisor is ignored there)
Arith(op, a, b, ne, M) ==
  CASE op = "+"  -> AOk(a + b)
    [] op = "-"  -> AOk(a - b)
    [] op = "*"  -> IF Abs(a) > 30000 \/ Abs(b) > 30000 THEN (IF a = 0 \/ b = 0 THEN AOk(0) ELSE AOos) ELSE AOk(a * b)
    [] op = "/"  -> IF b = 0 THEN (IF ne THEN AOk(a) ELSE AErr) ELSE AOk(CDiv(a, b))
    [] op = "%"  -> IF b = 0 THEN (IF ne THEN AOk(0) ELSE AErr) ELSE AOk(CRem(a, b))
    [] op = "**" -> IF b < 0 THEN AErr ELSE PowR(a, b)
    [] op = "<<" -> IF b < 0 \/ b > 63 THEN (IF M THEN AOk(0) ELSE AOos)      \* Go: x << uint(y)
                    ELSE IF a = 0 THEN AOk(0)
                    ELSE IF b > 20 \/ Abs(a) > 1000 THEN AOos ELSE AOk(a * Pow2(b))
    [] op = ">>" -> IF b < 0 \/ b > 63 THEN (IF M THEN AOk(IF a < 0 THEN 0 - 1 ELSE 0) ELSE AOos)
                    ELSE IF b > 30 THEN AOk(IF a < 0 THEN 0 - 1 ELSE 0) ELSE AOk(a \div Pow2(b))
    [] op = "<"  -> AOk(B01(a < b))
    [] op = ">"  -> AOk(B01(a > b))
    [] op = "<=" -> AOk(B01(a <= b))
    [] op = ">=" -> AOk(B01(a >= b))
    [] op = "==" -> AOk(B01(a = b))
    [] op = "!=" -> AOk(B01(a # b))
    [] op = "&"  -> AOk(BitAnd(a, b))
    [] op = "^"  -> AOk(BitXor(a, b))
    [] op = "|"  -> AOk(BitOr(a, b))
    [] op = ","  -> AOk(b)
\* the arithmetic operator of a compound assignment
AsgArith(op) == CASE op = "+=" -> "+" [] op = "-=" -> "-" [] op = "*=" -> "*" [] op = "/=" -> "/"
                  [] op = "%=" -> "%" [] op = "<<=" -> "<<" [] op = ">>=" -> ">>" [] op = "&=" -> "&"
                  [] op = "^=" -> "^" [] op = "|=" -> "|"

(* ------------------------------------------------------------------ evaluation *)
\* M is the set of deviations in force ({} = bash).  The first four act inside Eval, the last two
\* on the contexts (see CtxOutcome).
DevNames == {"BadLiteralIsZero", "VarTextNotEvaluated", "AssignOpNoDeref", "UntakenBranchNotParsed",
             "ExpansionErrorStatus0", "LetQuotedNotEvaluated"}
R(v, env, u)     == [v |-> v, env |-> env, err |-> FALSE, oos |-> FALSE, used |-> u]
RErr(env, u)     == [v |-> 0, env |-> env, err |-> TRUE,  oos |-> FALSE, used |-> u]
ROos(env, u)     == [v |-> 0, env |-> env, err |-> FALSE, oos |-> TRUE,  used |-> u]
Stop(r) == r.err \/ r.oos
FromA(a, env, u) == IF a.oos THEN ROos(env, u) ELSE IF a.err THEN RErr(env, u) ELSE R(a.v, env, u)
Store(env, v, n) == [env EXCEPT ![v] = IntV(n)]

\* mvdan/sh: the value of a name = follow names while the value is itself a name, then atoi
RECURSIVE DevFollow(_, _, _)
DevFollow(v, env, depth) ==
  LET val == env[v] IN
  IF val.k = "unset" THEN 0
  ELSE IF val.k = "int" THEN val.n
  ELSE LET tm == TextMenu[val.t] IN
       IF tm.kind = "tree" /\ tm.tree.k = "var" /\ depth > 0 THEN DevFollow(tm.tree.v, env, depth - 1)
       ELSE tm.dv
\* mvdan/sh: the old value in x op= e and x++ : atoi of the text itself
DevDirect(v, env) ==
  LET val == env[v] IN
  IF val.k = "unset" THEN 0 ELSE IF val.k = "int" THEN val.n ELSE TextMenu[val.t].dv
\* does reading v involve anything but plain numbers (so that the deviations can matter)?
PlainText(val) ==
  val.k \in {"unset", "int"} \/ TextMenu[val.t].kind = "empty"
  \/ (TextMenu[val.t].kind = "tree" /\ TextMenu[val.t].tree.k = "lit" /\ TextMenu[val.t].tree.ok)

RECURSIVE Eval(_, _, _, _, _), ReadVar(_, _, _, _, _)
\* value of variable v in evaluation mode
ReadVar(v, env, ne, M, fuel) ==
  IF ne THEN R(0, env, {})
  ELSE IF "VarTextNotEvaluated" \in M THEN R(DevFollow(v, env, 100), env, IF PlainText(env[v]) THEN {} ELSE {"VarTextNotEvaluated"})
  ELSE LET val == env[v] IN
       IF val.k = "unset" THEN R(0, env, {})
       ELSE IF val.k = "int" THEN R(val.n, env, {})
       ELSE LET tm == TextMenu[val.t] IN
            IF tm.kind = "empty" THEN R(0, env, {})
            ELSE IF tm.kind = "bad" THEN RErr(env, {})
            ELSE IF fuel = 0 THEN RErr(env, {})          \* expression recursion level exceeded
            ELSE Eval(tm.tree, env, FALSE, M, fuel - 1)

Eval(t, env, ne, M, fuel) ==
  CASE t.k = "lit" ->
         IF t.ok THEN R(t.v, env, {})
         ELSE IF "BadLiteralIsZero" \in M THEN R(0, env, {"BadLiteralIsZero"}) ELSE RErr(env, {})
    [] t.k = "var" -> ReadVar(t.v, env, ne, M, fuel)
    [] t.k = "inc" ->
         LET old == IF ne THEN R(0, env, {})
                    ELSE IF "AssignOpNoDeref" \in M THEN R(DevDirect(t.v, env), env,
                                     IF PlainText(env[t.v]) THEN {} ELSE {"AssignOpNoDeref"})
                    ELSE ReadVar(t.v, env, ne, M, fuel) IN
         IF Stop(old) THEN old
         ELSE LET new == IF t.op = "++" THEN old.v + 1 ELSE old.v - 1 IN
              R(IF t.post THEN old.v ELSE new, IF ne THEN old.env ELSE Store(old.env, t.v, new), old.used)
    [] t.k = "un" ->
         LET a == Eval(t.a, env, ne, M, fuel) IN
         IF Stop(a) THEN a
         ELSE R(CASE t.op = "-" -> 0 - a.v [] t.op = "+" -> a.v [] t.op = "!" -> B01(a.v = 0)
                  [] t.op = "~" -> 0 - a.v - 1, a.env, a.used)
    [] t.k = "bin" /\ t.op \in {"&&", "||"} ->
         LET a == Eval(t.a, env, ne, M, fuel) IN
         IF Stop(a) THEN a
         ELSE LET skip == (t.op = "&&" /\ a.v = 0) \/ (t.op = "||" /\ a.v # 0) IN
              IF skip /\ "UntakenBranchNotParsed" \in M THEN
                \* mvdan/sh does not look at the right operand at all
                LET b == Eval(t.b, a.env, TRUE, {}, fuel) IN
                R(B01(t.op = "||"), a.env, a.used \cup (IF b.err THEN {"UntakenBranchNotParsed"} ELSE {}))
              ELSE LET b == Eval(t.b, a.env, ne \/ skip, M, fuel) IN
                   IF Stop(b) THEN [b EXCEPT !.used = a.used \cup b.used]
                   ELSE R(IF skip THEN B01(t.op = "||") ELSE B01(b.v # 0), b.env, a.used \cup b.used)
    [] t.k = "bin" /\ t.op \notin {"&&", "||"} ->
         LET a == Eval(t.a, env, ne, M, fuel) IN
         IF Stop(a) THEN a
         ELSE LET b == Eval(t.b, a.env, ne, M, fuel) IN
              IF Stop(b) THEN [b EXCEPT !.used = a.used \cup b.used]
              ELSE FromA(Arith(t.op, a.v, b.v, ne, M # {}), b.env, a.used \cup b.used)
    [] t.k = "tern" ->
         LET c == Eval(t.c, env, ne, M, fuel) IN
         IF Stop(c) THEN c
         ELSE IF "UntakenBranchNotParsed" \in M THEN
           LET taken == IF c.v # 0 THEN t.a ELSE t.b
               other == IF c.v # 0 THEN t.b ELSE t.a
               r == Eval(taken, c.env, ne, M, fuel)
               o == Eval(other, c.env, TRUE, {}, fuel) IN
           [r EXCEPT !.used = c.used \cup r.used \cup (IF o.err THEN {"UntakenBranchNotParsed"} ELSE {})]
         ELSE
           \* both branches are read, in order; the one not taken in no-evaluation mode
           LET a == Eval(t.a, c.env, ne \/ c.v = 0, M, fuel) IN
           IF Stop(a) THEN a
           ELSE LET b == Eval(t.b, a.env, ne \/ c.v # 0, M, fuel) IN
                IF Stop(b) THEN b
                ELSE R(IF c.v # 0 THEN a.v ELSE b.v, b.env, c.used \cup a.used \cup b.used)
    [] t.k = "asg" ->
         \* the old value is read before the right-hand side is evaluated (not for plain =)
         LET old == IF t.op = "=" \/ ne THEN R(0, env, {})
                    ELSE IF "AssignOpNoDeref" \in M THEN R(DevDirect(t.v, env), env,
                                     IF PlainText(env[t.v]) THEN {} ELSE {"AssignOpNoDeref"})
                    ELSE ReadVar(t.v, env, ne, M, fuel) IN
         IF Stop(old) THEN old
         ELSE LET a == Eval(t.a, old.env, ne, M, fuel) IN
              IF Stop(a) THEN [a EXCEPT !.used = old.used \cup a.used]
              ELSE LET n == IF t.op = "=" THEN AOk(a.v) ELSE Arith(AsgArith(t.op), old.v, a.v, ne, M # {}) IN
                   IF n.oos \/ n.err THEN FromA(n, a.env, old.used \cup a.used)
                   ELSE R(n.v, IF ne THEN a.env ELSE Store(a.env, t.v, n.v), old.used \cup a.used)

(* ------------------------------------------------------------------ concrete syntax
   Precedence (bash manual, highest first): post ++ --, pre ++ --, unary - + ! ~, **, * / %, + -,
   << >>, < > <= >=, == !=, &, ^, |, &&, ||, ?:, assignment, comma. *)
Prec(t) ==
  CASE t.k \in {"lit", "var", "inc"} -> 20
    [] t.k = "un" -> 14
    [] t.k = "tern" -> 2
    [] t.k = "asg" -> 1
    [] t.k = "bin" ->
         CASE t.op = "**" -> 13
           [] t.op \in {"*", "/", "%"} -> 12
           [] t.op \in {"+", "-"} -> 11
           [] t.op \in {"<<", ">>"} -> 10
           [] t.op \in {"<", ">", "<=", ">="} -> 9
           [] t.op \in {"==", "!="} -> 8
           [] t.op = "&" -> 7
           [] t.op = "^" -> 6
           [] t.op = "|" -> 5
           [] t.op = "&&" -> 4
           [] t.op = "||" -> 3
           [] t.op = "," -> 0
\* A token: s = the strings glued together without blanks; lo / ro = its left / right edge is an
\* operator character (two such edges must be kept apart by a blank: "- -x", "x++ + 1").
\* ra = the token ends in < or >, lp = it is "(" : "<(" and ">(" would be process substitutions in a
\* subscript, so they are kept apart too.
Word(s) == [s |-> <<s>>, lo |-> FALSE, ro |-> FALSE, ra |-> FALSE, lp |-> s = "("]
Op(s)   == [s |-> <<s>>, lo |-> TRUE, ro |-> TRUE, ra |-> s \in {"<", ">", "<<", ">>"}, lp |-> FALSE]
RECURSIVE Render(_, _)
\* full = every operand that is not a leaf gets parentheses; else only where the grammar needs them
Render(t, full) ==
  LET P(c, need) == IF (full /\ Prec(c) < 20) \/ Prec(c) < need
                    THEN <<Word("(")>> \o Render(c, full) \o <<Word(")")>> ELSE Render(c, full) IN
  CASE t.k = "lit" -> <<Word(t.s)>>
    [] t.k = "var" -> <<Word(t.v)>>
    [] t.k = "inc" -> IF t.post THEN <<[s |-> <<t.v, t.op>>, lo |-> FALSE, ro |-> TRUE, ra |-> FALSE, lp |-> FALSE]>>
                      ELSE <<[s |-> <<t.op, t.v>>, lo |-> TRUE, ro |-> FALSE, ra |-> FALSE, lp |-> FALSE]>>
    [] t.k = "un"  -> <<Op(t.op)>> \o P(t.a, 14)
    [] t.k = "bin" ->
         IF t.op = "**" THEN P(t.a, 14) \o <<Op("**")>> \o P(t.b, 13)        \* right associative
         ELSE IF t.op = "," THEN P(t.a, 0) \o <<Op(",")>> \o P(t.b, 1)
         ELSE P(t.a, Prec(t)) \o <<Op(t.op)>> \o P(t.b, Prec(t) + 1)        \* left associative
    [] t.k = "tern" -> P(t.c, 3) \o <<Op("?")>> \o P(t.a, 0) \o <<Op(":")>> \o P(t.b, 2)
    [] t.k = "asg" -> <<Word(t.v), Op(t.op)>> \o P(t.a, 1)

(* ------------------------------------------------------------------ decoding choice sequences
   choice numbers:  1..NLit literal | 100+v variable | 110+3(k-1)+v  ++/-- (k: 1 ++v 2 --v 3 v++ 4 v--)
                    200+i unary | 300+i binary | 400+3(i-1)+v assignment | 500 ternary *)
IncOf(k, v) == Inc(IF k \in {1, 3} THEN "++" ELSE "--", k > 2, Vars[v])
PosLeaf == <<Num("7", 7), Num("3", 3), Num("2", 2), Num("5", 5)>>
\* family 5: the same shapes for ** alone over small literals, so that both groupings of a ** b ** c stay inside the
\* model's number range (7 ** (3 ** 2) does not): 2 ** 3 ** 2 is 512, (2 ** 3) ** 2 is 64
PosLeaf5 == <<Num("2", 2), Num("3", 3), Num("2", 2), Num("1", 1)>>
\* choices allowed for an expression at depth d in family f, given the number nl of leaves and no of
\* operators placed so far
LeafChoices(f, nl) ==
  IF f = 1 THEN (1..NLit1) \cup {101, 102} \cup {117, 115}       \* x y  x++ --y
  ELSE IF f \in {2, 5} THEN {1}                \* 1 = the literal of this leaf position (PosLeaf)
  ELSE (1..NLit) \cup {101, 102, 103} \cup (111..122)
OpChoices(f) ==
  IF f = 5 THEN {306, 202}                     \* ** and unary minus
  ELSE IF f = 2 THEN (201..204) \cup (301..320) \cup {400 + 3 * (i - 1) + 1 : i \in 1..11} \cup {500}
  ELSE (201..204) \cup (301..320) \cup (401..433) \cup {500}
Allowed(f, d, nl, no) ==
  IF f = 1 THEN (IF d = 0 THEN OpChoices(1) \cup LeafChoices(1, nl) ELSE LeafChoices(1, nl))
  ELSE IF f \in {2, 5} THEN (IF d = 0 THEN OpChoices(f)
                      ELSE IF d = 1 /\ no < 2 THEN OpChoices(f) \cup LeafChoices(f, nl)
                      ELSE LeafChoices(f, nl))
  ELSE IF f = 4 THEN (IF d = 0 THEN (1..NLit) \cup {201} ELSE 1..NLit)
  ELSE (IF d < MaxDepth THEN OpChoices(3) \cup LeafChoices(3, nl) ELSE LeafChoices(3, nl))
LeafOf(f, c, nl) ==
  IF c >= 111 THEN IncOf(((c - 111) \div 3) + 1, ((c - 111) % 3) + 1)
  ELSE IF c >= 101 THEN Var(Vars[c - 100])
  ELSE IF f = 2 THEN PosLeaf[IF nl < 4 THEN nl + 1 ELSE 4]
  ELSE IF f = 5 THEN PosLeaf5[IF nl < 4 THEN nl + 1 ELSE 4]
  ELSE LitFull[c]

(* Parse(i, f, d, nl, no): read one expression starting at ch[i].
   Result [st |-> "ok", t, i (next index), nl, no]  or  [st |-> "need", allowed]  *)
RECURSIVE Parse(_, _, _, _, _, _)
Parse(s, i, f, d, nl, no) ==
  IF i > Len(s) THEN [st |-> "need", allowed |-> Allowed(f, d, nl, no)]
  ELSE LET c == s[i] IN
    IF c < 200 THEN [st |-> "ok", t |-> LeafOf(f, c, nl), i |-> i + 1, nl |-> nl + 1, no |-> no]
    ELSE IF c < 300 THEN
      LET a == Parse(s, i + 1, f, d + 1, nl, no + 1) IN
      IF a.st = "need" THEN a ELSE [a EXCEPT !.t = Un(UnOps[c - 200], a.t)]
    ELSE IF c < 400 THEN
      LET a == Parse(s, i + 1, f, d + 1, nl, no + 1) IN
      IF a.st = "need" THEN a
      ELSE LET b == Parse(s, a.i, f, d + 1, a.nl, a.no) IN
           IF b.st = "need" THEN b ELSE [b EXCEPT !.t = Bin(BinOps[c - 300], a.t, b.t)]
    ELSE IF c < 500 THEN
      LET a == Parse(s, i + 1, f, d + 1, nl, no + 1) IN
      IF a.st = "need" THEN a
      ELSE [a EXCEPT !.t = Asg(AsgOps[((c - 401) \div 3) + 1], Vars[((c - 401) % 3) + 1], a.t)]
    ELSE
      LET c0 == Parse(s, i + 1, f, d + 1, nl, no + 1) IN
      IF c0.st = "need" THEN c0
      ELSE LET a == Parse(s, c0.i, f, d + 1, c0.nl, c0.no) IN
           IF a.st = "need" THEN a
           ELSE LET b == Parse(s, a.i, f, d + 1, a.nl, a.no) IN
                IF b.st = "need" THEN b ELSE [b EXCEPT !.t = Tern(c0.t, a.t, b.t)]
Decode(s) ==
  IF s = <<>> THEN [st |-> "need", allowed |-> Families]
  ELSE Parse(s, 2, s[1], 0, 0, 0)

Init == ch = <<>>
Next == LET dcd == Decode(ch) IN
        /\ dcd.st = "need"
        /\ \E c \in dcd.allowed : ch' = Append(ch, c)
Spec == Init /\ [][Next]_vars

(* ------------------------------------------------------------------ contexts
   What each context shows for a result r:  print = the numbers written to stdout (one per line),
   rc = exit status, i = value left in the loop variable of for (( )).  inscope = FALSE when the
   context cannot show the value (subscript outside the array). *)
Ctxs == <<"echo", "paren", "let", "sub", "for">>
Outcome(c, r) ==
  CASE c = "echo"  -> [inscope |-> TRUE, print |-> IF r.err THEN <<>> ELSE <<r.v>>, rc |-> B01(r.err), i |-> <<>>]
    [] c \in {"paren", "let"} ->
                      [inscope |-> TRUE, print |-> <<>>, rc |-> B01(r.err \/ r.v = 0), i |-> <<>>]
    [] c = "sub"   -> \* a=(10 .. 19): a[v] for -10 <= v <= 9, an empty line beyond the end; below -10 bash
                      \* reports a bad subscript (not modelled: inscope = FALSE)
                      [inscope |-> r.err \/ r.v >= 0 - 10,
                       print |-> IF r.err THEN <<>> ELSE IF r.v > 9 THEN <<"">> ELSE <<10 + (r.v % 10)>>,
                       rc |-> B01(r.err), i |-> <<>>]
    [] c = "for"   -> [inscope |-> TRUE, print |-> <<>>, rc |-> B01(r.err), i |-> IF r.err THEN <<>> ELSE <<r.v>>]
(* mvdan/sh, per context:
   ExpansionErrorStatus0: an arithmetic error inside a word expansion ($(( )), ${a[ ]}) or in the
   for (( )) header is reported on stderr but leaves status 0.
   LetQuotedNotEvaluated: let "e" takes the quoted text like a variable value that is not evaluated:
   only a lone literal or name has a value, anything else is 0 and has no effect. *)
LetDev(t, env) ==
  IF t.k = "lit" THEN R(IF t.ok THEN t.v ELSE 0, env, {})
  ELSE IF t.k = "var" THEN R(DevFollow(t.v, env, 100), env, {})
  ELSE R(0, env, {})
\* outcome of context c under the deviations M, given rd = Eval(t, env, FALSE, M, Fuel):
\* what is shown, the final variables, and the names of the deviations that mattered
CtxOutcome(c, t, env, rd, M) ==
  LET res == IF c = "let" /\ "LetQuotedNotEvaluated" \in M THEN LetDev(t, env) ELSE rd
      o   == Outcome(c, res)
      st0 == c \in {"echo", "sub", "for"} /\ res.err /\ "ExpansionErrorStatus0" \in M
  IN [inscope |-> o.inscope, print |-> o.print, rc |-> IF st0 THEN 0 ELSE o.rc, i |-> o.i,
      oos |-> res.oos, err |-> res.err, env |-> res.env,
      names |-> IF c = "let" /\ "LetQuotedNotEvaluated" \in M THEN {"LetQuotedNotEvaluated"}
                ELSE res.used \cup (IF st0 THEN {"ExpansionErrorStatus0"} ELSE {})]
\* the deviation sets the binding tries, in this order: everything known today; what is left when
\* the evaluator fixes (proposed_fixes/C20-1..3) are applied; what is inherent
DevSets == << DevNames,
              {"UntakenBranchNotParsed", "ExpansionErrorStatus0"},
              {"UntakenBranchNotParsed"} >>

(* ------------------------------------------------------------------ laws and emission *)
RECURSIVE UsesVar(_)
UsesVar(t) ==
  CASE t.k = "lit" -> FALSE
    [] t.k \in {"var", "inc", "asg"} -> TRUE
    [] t.k = "un" -> UsesVar(t.a)
    [] t.k = "bin" -> UsesVar(t.a) \/ UsesVar(t.b)
    [] t.k = "tern" -> UsesVar(t.c) \/ UsesVar(t.a) \/ UsesVar(t.b)
EnvShow(env) == [i \in 1..3 |-> LET val == env[Vars[i]] IN
                   IF val.k = "txt" THEN [k |-> "txt", n |-> 0, s |-> TextMenu[val.t].s]
                   ELSE [k |-> val.k, n |-> val.n, s |-> ""]]
Show(o) == [o EXCEPT !.env = EnvShow(o.env)]
Case(t, e) ==
  LET env == EnvMenu[e]
      r   == Eval(t, env, FALSE, {}, Fuel)
      rd  == Eval(t, env, FALSE, DevSets[1], Fuel)
      rn  == Eval(t, env, TRUE, {}, Fuel)
  IN [e |-> e, env |-> EnvShow(env), err |-> r.err, oos |-> r.oos,
      out |-> [c \in 1..Len(Ctxs) |-> Show(CtxOutcome(Ctxs[c], t, env, r, {}))],
      devs |-> [d \in 1..Len(DevSets) |->
                 \* when nothing triggered under the full set, nothing can under a subset
                 LET rx == IF d = 1 THEN rd ELSE IF rd.used = {} THEN r ELSE Eval(t, env, FALSE, DevSets[d], Fuel) IN
                 [c \in 1..Len(Ctxs) |-> Show(CtxOutcome(Ctxs[c], t, env, rx, DevSets[d]))]],
      \* laws of the contract itself
      law |-> /\ rn.env = env                              \* no-evaluation mode never writes
              /\ (r.err \/ r.oos \/ \A v \in {"x", "y", "z"} : r.env[v] = env[v] \/ r.env[v].k = "int")
              /\ (rd.used = {} => (rd.v = r.v /\ rd.err = r.err /\ rd.env = r.env) \/ r.oos \/ rd.oos)
              /\ rd.used \subseteq DevNames]
\* short-circuit law: the right operand of a decided && / || and the branch of ?: not taken
\* leave no trace (checked on the tree of the state for every environment)
LazyLaw(t, env) ==
  t.k = "bin" /\ t.op \in {"&&", "||"} =>
    LET a == Eval(t.a, env, FALSE, {}, Fuel)
        r == Eval(t, env, FALSE, {}, Fuel) IN
    (~Stop(a) /\ ~Stop(r) /\ ((t.op = "&&" /\ a.v = 0) \/ (t.op = "||" /\ a.v # 0))) => r.env = a.env

Vec(t) ==
  LET es == IF UsesVar(t) THEN EnvSel ELSE <<1>>
      cases == [i \in 1..Len(es) |-> Case(t, es[i])]
  IN [ch |-> ch, fam |-> ch[1], min |-> Render(t, FALSE), full |-> Render(t, TRUE),
      cases |-> cases,
      lawok |-> \A i \in 1..Len(es) : cases[i].law /\ LazyLaw(t, EnvMenu[es[i]])]

CheckAndEmit ==
  LET dcd == Decode(ch) IN
  dcd.st = "ok" => LET v == Vec(dcd.t) IN v.lawok /\ PrintT(<<"VEC", ToJson(v)>>)
==========================================================================
