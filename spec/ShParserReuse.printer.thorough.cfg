SPECIFICATION Spec
CONSTANTS Obj = "printer"
  MaxHist = 3
INVARIANTS OptionsLaw LibraryOK ContractClean Emit EmitLib
