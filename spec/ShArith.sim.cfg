SPECIFICATION Spec
CONSTANT Families = {3}
CONSTANT MaxDepth = 3
CONSTANT Fuel = 6
CONSTANT NLit1 = 9
CONSTANT EnvSel <- EnvAll
INVARIANT CheckAndEmit
