SPECIFICATION Spec
CONSTANTS MaxLen = 4
  MaxDepth = 2
  EmitAt = 0
INVARIANTS WellFormed Emit
