SPECIFICATION Spec
CONSTANTS MaxLen = 3
  MaxDepth = 2
  EmitAt = 0
INVARIANTS WellFormed Emit
