SPECIFICATION Spec
CONSTANTS
  MaxTok = 4
  TokSet = {"A","SP","DQ","SQ","V","VD","VU","VL","VE","AR","AO","BD","BB","BA","BQ","BR","TI","SL","OB","OA"}
  VSet = {1,2,3,4,5,6}
  NSet = {1,2}
  ISet = {1,2}
INVARIANTS Laws EmitInv
