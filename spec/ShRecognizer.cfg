SPECIFICATION Spec
INVARIANTS WellFormed BaseNotExcused ExcusesAreOneSided
