SPECIFICATION Spec
CONSTANTS InPlace = FALSE
  Scenarios <- RunScenarios
  Names <- Names2
  FDs <- FDs2
CONSTRAINT ThoroughScope
INVARIANTS TypeOK Atomic Durable Untouched NoTemps ExitOK EmitScn
