------------------------------ MODULE ShGlob ------------------------------
(* C17 / C18: shell pattern matching ("glob") -- the reference semantics.

   Style F.  The state machine is an input builder: the state is a pattern under
   construction (a sequence of tokens, each token a short text over the
   metacharacter alphabet of the family being explored) together with the matching
   mode; Next appends one token.  TLC's breadth-first search therefore enumerates
   every pattern up to the family's token bound exactly once per (family, mode).

   The contract is written from bash's documented rules (manual "Pattern Matching",
   POSIX 2.13, and lib/glob/sm_loop.c behaviour observed with bash 5.2.15):

     ParsePat(p, X)      pattern text -> sequence of elements
                         (lit c | any | star | gstar | set | ext-group)
     Match(els, s, X)    structural recursion over the elements and the subject
     Malformed(els)      which POSIX-undefined constructs the pattern contains
     Devs(els, X)        named, documented deviations of mvdan/sh that apply
     QuoteMeta, HasMeta, Unescape  and the two laws of C18 as invariants.

   For every state the set of matching subjects among ALL subjects up to the
   family's length bound is computed and emitted as one test vector; the Go
   harness compiles pattern.Regexp(p, mode) with regexp and must accept exactly
   that set, and bash must agree with it as well (three-way verdict). *)
EXTENDS Integers, Sequences, FiniteSets, TLC, Json, ShText

CONSTANTS Fams,        \* the families explored in this run (subset of DOMAIN FamDef)
          TokBoost,    \* added to every family's bound on the number of tokens in a pattern
          SubjBoost    \* added to every family's bounds on the subject lengths

VARIABLES fam, mode, toks,
          tab      \* the family's tables [alpha, maxt, subj]: constant along a behaviour; carried in
                   \* the state only because TLC re-evaluates constant definitions on every reference
vars == <<fam, mode, toks, tab>>
StateKey == <<fam, mode, toks>>     \* VIEW: tab is a function of fam

\* ------------------------------------------------------------------------
\* Families: token alphabet for patterns, character alphabet and length bound
\* for subjects, the mode sets explored.  A token is a text (sequence of
\* one-character strings); multi-character tokens make the POSIX classes and the
\* two-character extended operators reachable within a small token bound.

Singles(cs) == [i \in 1..Len(cs) |-> <<cs[i]>>]
E == "EntireString"

ClsAlpha == <<"[", ":", "a", "l", "p", "h", "a", ":", "]">>
ClsDigit == <<"[", ":", "d", "i", "g", "i", "t", ":", "]">>
ClsUpper == <<"[", ":", "u", "p", "p", "e", "r", ":", "]">>
ClsLower == <<"[", ":", "l", "o", "w", "e", "r", ":", "]">>
ClsPunct == <<"[", ":", "p", "u", "n", "c", "t", ":", "]">>
ClsSpace == <<"[", ":", "s", "p", "a", "c", "e", ":", "]">>
ClsBlank == <<"[", ":", "b", "l", "a", "n", "k", ":", "]">>
ClsAlnum == <<"[", ":", "a", "l", "n", "u", "m", ":", "]">>
ClsXdigit == <<"[", ":", "x", "d", "i", "g", "i", "t", ":", "]">>
ClsWord  == <<"[", ":", "w", "o", "r", "d", ":", "]">>
ClsGraph == <<"[", ":", "g", "r", "a", "p", "h", ":", "]">>
ClsPrint == <<"[", ":", "p", "r", "i", "n", "t", ":", "]">>
ClsCntrl == <<"[", ":", "c", "n", "t", "r", "l", ":", "]">>
ClsAscii == <<"[", ":", "a", "s", "c", "i", "i", ":", "]">>
ClsBogus == <<"[", ":", "f", "o", "o", ":", "]">>
ClsOpen  == <<"[", ":">>
ClsClose == <<":", "]">>
CollA    == <<"[", ".", "a", ".", "]">>
EquivA   == <<"[", "=", "a", "=", "]">>

\* alpha: pattern tokens; maxt: token bound;  subjects: every string over `sa` up to
\* length sn, then every string over the smaller alphabet `la` of length sn+1..ln.
AllClasses == <<ClsAlpha, ClsDigit, ClsUpper, ClsLower, ClsPunct, ClsSpace, ClsBlank, ClsAlnum, ClsXdigit,
                ClsWord, ClsGraph, ClsPrint, ClsCntrl, ClsAscii>>

FamDef == [
  \* literals, ? * [ ] with negation, ranges, leading ], escapes, unmatched [
  core  |-> [ alpha |-> Singles(<<"a", "b", "*", "?", "[", "]", "!", "-", "\\", "^">>), maxt |-> 3,
              sa |-> <<"a", "b", "]", "-", "\\", "[", "!", "NL">>, sn |-> 2, la |-> <<"a", "b", "]">>, ln |-> 3,
              modes |-> { {E}, {E, "Shortest"}, {E, "NoGlobStar", "GlobLeadingDot"} } ],
  \* the same in the default mode only (used with TokBoost in the thorough tier)
  core1 |-> [ alpha |-> Singles(<<"a", "b", "*", "?", "[", "]", "!", "-", "\\", "^">>), maxt |-> 3,
              sa |-> <<"a", "b", "]", "-", "\\", "[", "!", "NL">>, sn |-> 2, la |-> <<"a", "b", "]">>, ln |-> 3,
              modes |-> { {E} } ],
  \* patterns of literals that are regular-expression metacharacters, also used unanchored (search): see SearchSetOf
  unanch |-> [ alpha |-> Singles(<<"a", "$", ".", "^", "*", "+">>), maxt |-> 3,
              sa |-> <<"a", "$", ".", "^", "b">>, sn |-> 2, la |-> <<"a", "$">>, ln |-> 3,
              modes |-> { {E}, {E, "Shortest"} } ],
  \* bracket expressions, exhaustively up to five symbols
  brk   |-> [ alpha |-> Singles(<<"[", "]", "-", "!", "a">>), maxt |-> 5,
              sa |-> <<"a", "A", "-", "]", "!", "[", "^", "0">>, sn |-> 1, la |-> <<"a", "-", "]">>, ln |-> 2,
              modes |-> { {E} } ],
  \* bracket expressions with POSIX classes, bad classes, collating/equivalence
  cls   |-> [ alpha |-> Singles(<<"a", "[", "]", "!", "-", ":">>)
                        \o <<ClsAlpha, ClsUpper, ClsBogus, ClsOpen, CollA, EquivA>>, maxt |-> 3,
              sa |-> <<"a", "A", "1", "-", ":", "[", "]", ".">>, sn |-> 1, la |-> <<"a", ":", "]", "[">>, ln |-> 2,
              modes |-> { {E} } ],
  \* every class name: one token is a whole bracket expression [[:name:]] or [![:name:]]
  clsall |-> [ alpha |-> [n \in 1..(2 * Len(AllClasses)) |->
                            IF n <= Len(AllClasses) THEN <<"[">> \o AllClasses[n] \o <<"]">>
                            ELSE <<"[", "!">> \o AllClasses[n - Len(AllClasses)] \o <<"]">>], maxt |-> 1,
              sa |-> <<"a", "A", "f", "g", "1", "_", "-", " ", "TAB", "NL", "DEL", "eacute", "euro">>, sn |-> 1,
              la |-> <<"a">>, ln |-> 1,
              modes |-> { {E}, {E, "NoGlobCase"} } ],
  \* case-insensitive matching
  nocase |-> [ alpha |-> Singles(<<"a", "B", "[", "]", "!", "-", "*", "\\">>) \o <<ClsUpper, ClsLower>>, maxt |-> 3,
              sa |-> <<"a", "A", "b", "B", "c", "-">>, sn |-> 2, la |-> <<"a", "B">>, ln |-> 2,
              modes |-> { {E, "NoGlobCase"} } ],
  \* multi-byte characters
  utf   |-> [ alpha |-> Singles(<<"a", "eacute", "?", "*", "[", "]", "-", "\\">>), maxt |-> 3,
              sa |-> <<"a", "eacute", "euro", "z">>, sn |-> 2, la |-> <<"a", "eacute">>, ln |-> 2,
              modes |-> { {E} } ],
  \* extended operators
  ext   |-> [ alpha |-> Singles(<<"a", "b", "*", "?", "+", "@", "!", "(", ")", "|">>), maxt |-> 3,
              sa |-> <<"a", "b", "(", ")", "|", "!", "@">>, sn |-> 2, la |-> <<"a", "b">>, ln |-> 3,
              modes |-> { {E, "ExtendedOperators"} } ],
  extop |-> [ alpha |-> Singles(<<"a", "b", "*", ")", "|">>) \o <<<<"?", "(">>, <<"*", "(">>, <<"+", "(">>, <<"@", "(">>, <<"!", "(">>>>, maxt |-> 3,
              sa |-> <<"a", "b", ")">>, sn |-> 3, la |-> <<"a", "b">>, ln |-> 4,
              modes |-> { {E, "ExtendedOperators"} } ],
  extmix |-> [ alpha |-> Singles(<<"a", ")", "|">>) \o <<<<"@", "(">>, <<"!", "(">>, <<"*", "(">>>>, maxt |-> 4,
              sa |-> <<"a", ")", "|">>, sn |-> 3, la |-> <<"a">>, ln |-> 4,
              modes |-> { {E, "ExtendedOperators"} } ],
  extbr |-> [ alpha |-> Singles(<<"a", "[", "]", ")", "|", "\\", "!">>) \o <<<<"@", "(">>, <<"!", "(">>, <<"*", "(">>>>, maxt |-> 3,
              sa |-> <<"a", "[", "]", ")", "|", "!", "\\">>, sn |-> 2, la |-> <<"a", "]">>, ln |-> 3,
              modes |-> { {E, "ExtendedOperators"} } ],
  \* the same metacharacters with the operators switched off are ordinary
  extoff |-> [ alpha |-> Singles(<<"a", "*", "?", "+", "@", "!", "(", ")", "|">>), maxt |-> 3,
              sa |-> <<"a", "(", ")", "|", "!", "@", "+">>, sn |-> 2, la |-> <<"a", "(", ")">>, ln |-> 3,
              modes |-> { {E} } ],
  \* file names: one path component (what the interpreter passes per component)
  fname |-> [ alpha |-> Singles(<<"a", ".", "*", "?", "[", "]", "!", "\\">>), maxt |-> 3,
              sa |-> <<"a", ".", "b">>, sn |-> 3, la |-> <<"a", ".">>, ln |-> 3,
              modes |-> { {E, "Filenames"}, {E, "Filenames", "NoGlobStar"}, {E, "Filenames", "NoGlobStar", "GlobLeadingDot"} } ],
  \* file names: bracket expressions with slashes and escapes (`[\/]`, `a[/]`, `[a\]/]`)
  fnbrk |-> [ alpha |-> Singles(<<"[", "]", "\\", "/", "a">>), maxt |-> 4,
              sa |-> <<"a", "/", "[", "]", "\\">>, sn |-> 2, la |-> <<"a", "/">>, ln |-> 3,
              modes |-> { {E, "Filenames", "NoGlobStar"} } ],
  \* file names, case-insensitive (shopt nocaseglob), as the interpreter passes them
  fncase |-> [ alpha |-> Singles(<<"a", "B", "*", "?", "[", "]", "-">>), maxt |-> 3,
              sa |-> <<"a", "A", "b", "B">>, sn |-> 2, la |-> <<"a", "B">>, ln |-> 3,
              modes |-> { {E, "Filenames", "NoGlobStar", "NoGlobCase"} } ],
  \* file names with extended operators (shopt extglob)
  fnext |-> [ alpha |-> Singles(<<"a", ".", "*", ")", "|">>) \o <<<<"@", "(">>, <<"!", "(">>, <<"?", "(">>>>, maxt |-> 3,
              sa |-> <<"a", ".", "b">>, sn |-> 2, la |-> <<"a", ".">>, ln |-> 3,
              modes |-> { {E, "Filenames", "NoGlobStar", "ExtendedOperators"},
                          {E, "Filenames", "NoGlobStar", "ExtendedOperators", "GlobLeadingDot"} } ],
  \* paths: slashes and **
  path  |-> [ alpha |-> Singles(<<"a", ".", "/", "*", "?", "[", "]", "\\">>), maxt |-> 3,
              sa |-> <<"a", ".", "/">>, sn |-> 4, la |-> <<"a", "/">>, ln |-> 4,
              modes |-> { {E, "Filenames"}, {E, "Filenames", "NoGlobStar"},
                          {E, "Filenames", "GlobLeadingDot"} } ],
  \* C18: strings over the documented metacharacters plus multi-byte characters
  meta  |-> [ alpha |-> Singles(<<"a", "*", "?", "[", "]", "\\", "eacute">>), maxt |-> 4,
              sa |-> <<"a", "*", "?", "[", "]", "\\", "-", "!", "eacute">>, sn |-> 2, la |-> <<"a", "\\">>, ln |-> 2,
              modes |-> { {E} } ]
]

\* All subjects of a family, shortest first, in alphabet order (a sequence, so that
\* a subject is identified by its index in vectors).
RECURSIVE SeqsOfLen(_, _)
SeqsOfLen(A, n) ==
  IF n = 0 THEN << <<>> >>
  ELSE LET prev == SeqsOfLen(A, n - 1) IN
       [idx \in 1..(Len(prev) * Len(A)) |->
          Append(prev[((idx - 1) \div Len(A)) + 1], A[((idx - 1) % Len(A)) + 1])]
\* all strings over A of the lengths lo..hi
RECURSIVE SeqsBetween(_, _, _)
SeqsBetween(A, lo, hi) == IF lo > hi THEN <<>> ELSE SeqsOfLen(A, lo) \o SeqsBetween(A, lo + 1, hi)

\* constant-level table, computed once by TLC
SubjTab == [f \in DOMAIN FamDef |->
              SeqsBetween(FamDef[f].sa, 0, FamDef[f].sn + SubjBoost)
              \o SeqsBetween(FamDef[f].la, FamDef[f].sn + SubjBoost + 1, FamDef[f].ln + SubjBoost)]

\* ------------------------------------------------------------------------
\* Matching options derived from the mode set
Opt(m) == [ ext    |-> "ExtendedOperators" \in m,
            fn     |-> "Filenames" \in m,
            nocase |-> "NoGlobCase" \in m,
            gstar  |-> "Filenames" \in m /\ "NoGlobStar" \notin m,
            dot    |-> "GlobLeadingDot" \in m,
            dev    |-> {} ]      \* named deviations switched on (see Devs below)
WithDev(X, D) == [X EXCEPT !.dev = D]

At(p, i) == IF i >= 1 /\ i <= Len(p) THEN p[i] ELSE "END"
ExtOps == {"?", "*", "+", "@", "!"}

\* ------------------------------------------------------------------------
\* Characters: folding and classes (byte/code point order from ShText!Ord)
Lower(c) == IF IsUpper(c) THEN AsciiPrintable[Ord(c) + 1] ELSE c
EqCh(a, b, X) == IF X.nocase THEN Lower(a) = Lower(b) ELSE a = b

ClassNames == { <<"a","l","p","h","a">>, <<"d","i","g","i","t">>, <<"u","p","p","e","r">>,
                <<"l","o","w","e","r">>, <<"a","l","n","u","m">>, <<"p","u","n","c","t">>,
                <<"s","p","a","c","e">>, <<"b","l","a","n","k">>, <<"c","n","t","r","l">>,
                <<"g","r","a","p","h">>, <<"p","r","i","n","t">>, <<"x","d","i","g","i","t">>,
                <<"w","o","r","d">>, <<"a","s","c","i","i">> }

\* Characters outside ASCII: bash asks the locale (C.UTF-8 here), which classifies
\* by Unicode properties.
WideClass(name, c) ==
  CASE c = "eacute" -> name \in { <<"a","l","p","h","a">>, <<"l","o","w","e","r">>, <<"a","l","n","u","m">>,
                                  <<"w","o","r","d">>, <<"g","r","a","p","h">>, <<"p","r","i","n","t">> }
    [] c = "euro"   -> name \in { <<"p","u","n","c","t">>, <<"g","r","a","p","h">>, <<"p","r","i","n","t">> }
    [] OTHER -> FALSE

InClass(name, c, X) ==
  LET o == Ord(c) IN
  IF o >= 128 THEN ("asciiclass" \notin X.dev) /\ WideClass(name, c)
  ELSE
  CASE name = <<"a","l","p","h","a">> -> IsAlpha(c)
    [] name = <<"d","i","g","i","t">> -> IsDigit(c)
    [] name = <<"u","p","p","e","r">> -> IsUpper(c)
    [] name = <<"l","o","w","e","r">> -> IsLower(c)
    [] name = <<"a","l","n","u","m">> -> IsAlnum(c)
    [] name = <<"w","o","r","d">>     -> IsAlnum(c) \/ c = "_"
    [] name = <<"x","d","i","g","i","t">> -> IsDigit(c) \/ (o >= 65 /\ o <= 70) \/ (o >= 97 /\ o <= 102)
    [] name = <<"s","p","a","c","e">> -> o = 32 \/ (o >= 9 /\ o <= 13)
    [] name = <<"b","l","a","n","k">> -> o = 32 \/ o = 9
    [] name = <<"c","n","t","r","l">> -> o < 32 \/ o = 127
    [] name = <<"g","r","a","p","h">> -> o > 32 /\ o < 127
    [] name = <<"p","r","i","n","t">> -> o >= 32 /\ o < 127
    [] name = <<"p","u","n","c","t">> -> o > 32 /\ o < 127 /\ ~IsAlnum(c)
    [] name = <<"a","s","c","i","i">> -> o < 128
    [] OTHER -> FALSE

\* ------------------------------------------------------------------------
\* Bracket expressions.  BrScan(p, j, first) scans the members of a bracket
\* expression starting at p[j]; `first` says that a "]" here is an ordinary member.
\* Result: [ok, next, items, bad] -- ok = a closing "]" was found (otherwise the
\* "[" that opened it is an ordinary character and the text is read again).
\*   items: [t |-> "ch", c] | [t |-> "range", lo, hi] | [t |-> "class", name]
\*          | [t |-> "coll"] (collating symbol / equivalence class)
\*   bad:   set of POSIX-undefined constructs met on the way

\* position of the first occurrence of the two characters <<a, "]">> at or after j, or 0
RECURSIVE FindClose(_, _, _)
FindClose(p, j, a) ==
  IF j + 1 > Len(p) THEN 0
  ELSE IF p[j] = a /\ p[j + 1] = "]" THEN j
  ELSE FindClose(p, j + 1, a)

NoBr   == [ok |-> FALSE, dead |-> FALSE, why |-> "", next |-> 0, items |-> <<>>, bad |-> {}]
\* bash gives up on the whole match (not only on the bracket) when the pattern ends
\* right after a backslash or after the "-" of a range inside a bracket expression.
\* why = "bs" | "dash";  items = the members scanned before that point.  bash tests members
\* in order, so when an earlier member matches "[" the dead end after a "-" is never reached
\* and the "[" is an ordinary character after all (`[[!-` matches the text "[[!-").
DeadBr(why) == [ok |-> FALSE, dead |-> TRUE, why |-> why, next |-> 0, items |-> <<>>, bad |-> {}]
\* prepend a scanned member to the result of the rest of the scan
Pre(rest, item) == IF rest.dead THEN [rest EXCEPT !.items = <<item>> \o @] ELSE rest

\* One end point of a range / one ordinary member at p[j]: [ok, next, c]
\* (a backslash quotes the next character; at the end of the pattern there is none).
Endpoint(p, j) ==
  IF At(p, j) = "\\" THEN
       IF j + 1 > Len(p) THEN [ok |-> FALSE, next |-> 0, c |-> "END", esc |-> TRUE]
       ELSE [ok |-> TRUE, next |-> j + 2, c |-> p[j + 1], esc |-> TRUE]
  ELSE [ok |-> TRUE, next |-> j + 1, c |-> At(p, j), esc |-> FALSE]

RECURSIVE BrScan(_, _, _, _)
BrScan(p, j, first, fn) ==
  LET c == At(p, j) IN
  IF c = "END" THEN NoBr
  \* file names: the pattern is cut into path components first, so a bracket
  \* expression never extends over a slash
  ELSE IF fn /\ (c = "/" \/ (c = "\\" /\ At(p, j + 1) = "/")) THEN NoBr
  ELSE IF c = "]" /\ ~first THEN [ok |-> TRUE, dead |-> FALSE, why |-> "", next |-> j + 1, items |-> <<>>, bad |-> {}]
  ELSE IF c = "[" /\ At(p, j + 1) = ":" /\ FindClose(p, j + 2, ":") > 0 THEN
       \* character class [:name:]; an unknown name matches nothing
       LET e    == FindClose(p, j + 2, ":")
           name == SubSeq(p, j + 2, e - 1)
           rest == BrScan(p, e + 2, FALSE, fn) IN
       IF ~rest.ok THEN Pre(rest, [t |-> "class", name |-> name])
       ELSE [rest EXCEPT !.items = <<[t |-> "class", name |-> name]>> \o @,
                         !.bad = IF name \in ClassNames THEN @ ELSE @ \cup {"bad-class"}]
  ELSE IF c = "[" /\ At(p, j + 1) \in {".", "="} /\ FindClose(p, j + 2, At(p, j + 1)) > 0 THEN
       \* collating symbol [.x.] / equivalence class [=x=]
       LET e    == FindClose(p, j + 2, At(p, j + 1))
           rest == BrScan(p, e + 2, FALSE, fn) IN
       IF ~rest.ok THEN Pre(rest, [t |-> "coll", name |-> SubSeq(p, j + 2, e - 1)])
       ELSE [rest EXCEPT !.items = <<[t |-> "coll", name |-> SubSeq(p, j + 2, e - 1)]>> \o @]
  ELSE
       LET m == Endpoint(p, j) IN
       IF ~m.ok THEN DeadBr("bs")
       ELSE IF At(p, m.next) = "-" /\ At(p, m.next + 1) # "]" THEN
            \* range lo-hi; hi is taken as it stands (even "["), a backslash quotes it
            IF At(p, m.next + 1) = "[" /\ At(p, m.next + 2) = "." /\ FindClose(p, m.next + 3, ".") > 0 THEN
                 \* the end point is a collating symbol
                 LET e    == FindClose(p, m.next + 3, ".")
                     rest == BrScan(p, e + 2, FALSE, fn) IN
                 IF ~rest.ok THEN Pre(rest, [t |-> "collrange", lo |-> m.c, name |-> SubSeq(p, m.next + 3, e - 1)])
                 ELSE [rest EXCEPT !.items = <<[t |-> "collrange", lo |-> m.c, name |-> SubSeq(p, m.next + 3, e - 1)]>> \o @]
            ELSE
            LET h == Endpoint(p, m.next + 1) IN
            IF ~h.ok THEN DeadBr("bs")
            ELSE IF h.c = "END" THEN DeadBr("dash")
            ELSE IF fn /\ h.c = "/" THEN NoBr
            ELSE LET rest == BrScan(p, h.next, FALSE, fn) IN
                 IF ~rest.ok THEN Pre(rest, [t |-> "range", lo |-> m.c, hi |-> h.c, hiclass |-> FALSE])
                 ELSE [rest EXCEPT !.items = <<[t |-> "range", lo |-> m.c, hi |-> h.c,
                                                hiclass |-> h.c = "[" /\ At(p, m.next + 1) = "[" /\ At(p, m.next + 2) \in {":", ".", "="}]>> \o @,
                                   !.bad = IF Ord(m.c) > Ord(h.c) THEN @ \cup {"reversed-range"} ELSE @]
       ELSE LET rest == BrScan(p, m.next, FALSE, fn) IN
            IF ~rest.ok THEN Pre(rest, [t |-> "ch", c |-> m.c, esc |-> m.esc])
            ELSE [rest EXCEPT !.items = <<[t |-> "ch", c |-> m.c, esc |-> m.esc]>> \o @,
                              !.bad = IF c = "[" /\ At(p, j + 1) \in {":", ".", "="}
                                      THEN @ \cup {"unterminated-class"} ELSE @]

\* Bracket(p, i): p[i] = "[".  [ok, dead, next, neg, items, bad]
Bracket(p, i, fn) ==
  LET neg == At(p, i + 1) \in {"!", "^"}
      j   == IF neg THEN i + 2 ELSE i + 1
      r   == BrScan(p, j, TRUE, fn) IN
  [ok |-> r.ok, dead |-> r.dead, why |-> r.why, next |-> r.next, neg |-> neg, items |-> r.items, bad |-> r.bad]

\* ------------------------------------------------------------------------
\* Extended operators: op( alt | alt ... ).  The closing parenthesis is the first
\* unquoted ")" at nesting depth 0 that is not inside a bracket expression
\* (bash scans "[" ... "]" spans first; a "[" without "]" hides the rest), every "("
\* on the way opens a nesting level.
\* GScan(p, j, b, depth, br, po, X, bars): scan p[j..b].
\*   br = 0 outside brackets, else the index of the first member position of the open
\*        bracket (a "]" there does not close it)
\*   po = the previous character was an unquoted operator character
\*   bars = FALSE: result is the index of the closing ")" or 0
\*   bars = TRUE : result is the sequence of the indices of the "|" at depth 0
\* Under the named deviation "groupscan" (what the code does instead) an unmatched "["
\* hides nothing and only an operator's "(" opens a nesting level.
RECURSIVE GScan(_, _, _, _, _, _, _, _)
GScan(p, j, b, depth, br, po, X, bars) ==
  IF j > b THEN (IF bars THEN <<>> ELSE 0)
  ELSE LET c == p[j] IN
    IF c = "\\" THEN GScan(p, j + 2, b, depth, br, FALSE, X, bars)
    ELSE IF br > 0 THEN
         IF c = "]" /\ j # br THEN GScan(p, j + 1, b, depth, 0, FALSE, X, bars)
         ELSE IF c = "[" /\ At(p, j + 1) \in {":", ".", "="}
                 /\ FindClose(p, j + 2, At(p, j + 1)) > 0
              THEN GScan(p, FindClose(p, j + 2, At(p, j + 1)) + 2, b, depth, br, FALSE, X, bars)
         ELSE GScan(p, j + 1, b, depth, br, FALSE, X, bars)
    ELSE IF c = "[" /\ ~("groupscan" \in X.dev /\ ~Bracket(p, j, X.fn).ok) THEN
         GScan(p, j + 1, b, depth, IF At(p, j + 1) \in {"!", "^"} THEN j + 2 ELSE j + 1, FALSE, X, bars)
    ELSE IF c = "(" /\ ~("groupscan" \in X.dev /\ ~po) THEN GScan(p, j + 1, b, depth + 1, 0, FALSE, X, bars)
    ELSE IF c = ")" THEN
         IF depth = 0 THEN (IF bars THEN <<>> ELSE j)
         ELSE GScan(p, j + 1, b, depth - 1, 0, FALSE, X, bars)
    ELSE IF c = "|" /\ depth = 0 /\ bars THEN <<j>> \o GScan(p, j + 1, b, depth, 0, FALSE, X, bars)
    ELSE GScan(p, j + 1, b, depth, 0, c \in ExtOps, X, bars)

\* index of the ")" closing the group whose body starts at p[j], or 0
CloseParen(p, j, X) == GScan(p, j, Len(p), 0, 0, FALSE, X, FALSE)

\* the alternatives of a group whose body is p[a..b]
AltTexts(p, a, b, X) ==
  LET bars == GScan(p, a, b, 0, 0, FALSE, X, TRUE)
      cuts == <<a - 1>> \o bars \o <<b + 1>> IN
  [k \in 1..(Len(cuts) - 1) |-> SubSeq(p, cuts[k] + 1, cuts[k + 1] - 1)]

\* ------------------------------------------------------------------------
\* ParsePat: pattern text -> elements.
\*   [k |-> "lit", c, bad]   one character, taken literally
\*   [k |-> "any"]           ?
\*   [k |-> "star"]          *  (a run of * is one star)
\*   [k |-> "gstar", slash]  ** alone in a path component (Filenames without NoGlobStar);
\*                           slash: it was written "**/"
\*   [k |-> "set", neg, items, bad]
\*   [k |-> "ext", op, alts] op( alts ), alts = sequence of element sequences
\*   [k |-> "never"]         nothing can match from here on (see DeadBr)
\*   [k |-> "raw", txt]      the rest of the subject must be exactly txt
\* membership of a character in one item of a bracket expression
ItemHas(it, c, X) ==
  CASE it.t = "ch"    -> EqCh(it.c, c, X)
    [] it.t = "range" -> IF X.nocase
                         THEN \/ (Ord(it.lo) <= Ord(Lower(c)) /\ Ord(Lower(c)) <= Ord(it.hi))
                              \/ (Ord(Lower(it.lo)) <= Ord(Lower(c)) /\ Ord(Lower(c)) <= Ord(Lower(it.hi)))
                         ELSE Ord(it.lo) <= Ord(c) /\ Ord(c) <= Ord(it.hi)
    [] it.t = "class" -> \* bash tests the character as it stands, also when matching case-insensitively
                         \/ InClass(it.name, c, X)
                         \/ /\ "nocaseclass" \in X.dev /\ X.nocase /\ IsAlpha(c)
                            /\ it.name \in {<<"u","p","p","e","r">>, <<"l","o","w","e","r">>}
    [] it.t = "coll"  -> it.name = <<c>>
    [] it.t = "collrange" -> Len(it.name) = 1 /\ Ord(it.lo) <= Ord(c) /\ Ord(c) <= Ord(it.name[1])
InSet(e, c, X) == (\E n \in 1..Len(e.items) : ItemHas(e.items[n], c, X)) # e.neg

\* After an unmatched "[": is there, later in the pattern, a "[:" "[." or "[=" that is
\* not a complete valid class?  (trigger of the named deviation "openclass")
ValidClassAt(p, q) == /\ At(p, q + 1) = ":" /\ FindClose(p, q + 2, ":") > 0
                      /\ SubSeq(p, q + 2, FindClose(p, q + 2, ":") - 1) \in ClassNames
OpenClassAfter(p, j) ==
  \E q \in j..Len(p) : p[q] = "[" /\ At(p, q + 1) \in {":", ".", "="} /\ ~ValidClassAt(p, q)

RECURSIVE ParseFrom(_, _, _)
ParseFrom(p, i, X) ==
  IF i > Len(p) THEN <<>>
  ELSE LET c == p[i] IN
    IF X.ext /\ c \in ExtOps /\ At(p, i + 1) = "(" THEN
         LET e == CloseParen(p, i + 2, X) IN
         IF e > 0 THEN
              LET txts == AltTexts(p, i + 2, e - 1, X) IN
              <<[k |-> "ext", op |-> c, alts |-> [a \in 1..Len(txts) |-> ParseFrom(txts[a], 1, X)]]>>
                \o ParseFrom(p, e + 1, X)
         ELSE \* the parenthesis is never closed: bash compares the rest of the pattern
              \* text and the rest of the subject as plain strings
              <<[k |-> "raw", txt |-> SubSeq(p, i, Len(p)), bad |-> {"unclosed-group"}]>>
    ELSE IF c = "\\" THEN
         IF i = Len(p) THEN <<[k |-> "lit", c |-> "\\", bad |-> {"trailing-backslash"}, oc |-> FALSE, esc |-> TRUE]>>
         ELSE <<[k |-> "lit", c |-> p[i + 1], bad |-> {}, oc |-> FALSE, esc |-> TRUE]>> \o ParseFrom(p, i + 2, X)
    ELSE IF c = "*" THEN
         IF X.gstar /\ At(p, i + 1) = "*" /\ (i = 1 \/ p[i - 1] = "/") /\ At(p, i + 2) \in {"/", "END"}
         THEN IF At(p, i + 2) = "/"
              THEN <<[k |-> "gstar", slash |-> TRUE]>> \o ParseFrom(p, i + 3, X)
              ELSE <<[k |-> "gstar", slash |-> FALSE]>>
         ELSE IF At(p, i + 1) = "*" /\ ~(X.ext /\ At(p, i + 2) = "(") THEN ParseFrom(p, i + 1, X)
         ELSE <<[k |-> "star"]>> \o ParseFrom(p, i + 1, X)
    ELSE IF c = "?" THEN <<[k |-> "any"]>> \o ParseFrom(p, i + 1, X)
    ELSE IF c = "[" THEN
         LET b == Bracket(p, i, X.fn) IN
         IF X.fn /\ "slashbracket" \in X.dev /\ ~b.ok /\ Bracket(p, i, FALSE).ok THEN
              \* (deviation) the text of a bracket expression that contains a slash, taken literally
              LET e == Bracket(p, i, FALSE).next IN
              [n \in 1..(e - i) |-> [k |-> "lit", c |-> p[i + n - 1], bad |-> {}, oc |-> FALSE, esc |-> FALSE]] \o ParseFrom(p, e, X)
         ELSE IF b.ok THEN <<[k |-> "set", neg |-> b.neg, items |-> b.items, bad |-> b.bad, oc |-> FALSE,
                         dashfirst |-> LET j0 == IF b.neg THEN i + 2 ELSE i + 1 IN p[j0] = "-" /\ At(p, j0 + 1) # "]"]>>
                        \o ParseFrom(p, b.next, X)
         ELSE IF /\ b.dead /\ "deadbracket" \notin X.dev
                 /\ ~(b.why = "dash" /\ \E n \in 1..Len(b.items) : ItemHas(b.items[n], "[", X)) THEN
              <<[k |-> "never", oc |-> OpenClassAfter(p, i + 1),
                 bad |-> IF p[Len(p)] = "\\" THEN {"trailing-backslash"} ELSE {}]>>
         ELSE <<[k |-> "lit", c |-> "[", bad |-> {}, oc |-> OpenClassAfter(p, i + 1), esc |-> FALSE]>> \o ParseFrom(p, i + 1, X)
    ELSE <<[k |-> "lit", c |-> c, bad |-> {}, oc |-> FALSE, esc |-> FALSE]>> \o ParseFrom(p, i + 1, X)

ParsePat(p, X) == ParseFrom(p, 1, X)

\* ------------------------------------------------------------------------
\* Match.  M(els, k, s, i, j, X): the elements els[k..] match exactly s[i..j-1].
\* s is always the whole subject so that "leading" positions are visible.

LeadDot(s, i, X) == X.fn /\ ~X.dot /\ s[i] = "." /\ (i = 1 \/ s[i - 1] = "/")
HasLeadDot(s, X) == \E i \in 1..Len(s) : LeadDot(s, i, X)
\* may a wildcard (? * [..]) consume s[i] ?
WildOK(s, i, X) == ~X.fn \/ (s[i] # "/" /\ ~LeadDot(s, i, X))

RECURSIVE M(_, _, _, _, _, _), AltM(_, _, _, _, _), RepM(_, _, _, _, _)
ExtM(e, s, i, m, X) ==
  CASE e.op = "@" -> AltM(e, s, i, m, X)
    [] e.op = "?" -> i = m \/ AltM(e, s, i, m, X)
    [] e.op = "+" -> RepM(e, s, i, m, X)
    [] e.op = "*" -> i = m \/ RepM(e, s, i, m, X)
    [] e.op = "!" -> ~AltM(e, s, i, m, X)

AltM(e, s, i, m, X) == \E a \in 1..Len(e.alts) : M(e.alts[a], 1, s, i, m, X)
\* one or more repetitions of the group cover s[i..m-1]
RepM(e, s, i, m, X) ==
  \/ AltM(e, s, i, m, X)
  \/ \E q \in (i + 1)..(m - 1) : AltM(e, s, i, q, X) /\ RepM(e, s, q, m, X)

NoSlash(s, i, m) == \A q \in i..(m - 1) : s[q] # "/"
NoDotComp(s, i, m, X) == \A q \in i..(m - 1) : ~LeadDot(s, q, X)

M(els, k, s, i, j, X) ==
  IF k > Len(els) THEN i = j
  ELSE LET e == els[k] IN
    CASE e.k = "lit"  -> i < j /\ EqCh(e.c, s[i], X) /\ M(els, k + 1, s, i + 1, j, X)
      [] e.k = "any"  -> i < j /\ WildOK(s, i, X) /\ M(els, k + 1, s, i + 1, j, X)
      [] e.k = "set"  -> i < j /\ WildOK(s, i, X) /\ InSet(e, s[i], X) /\ M(els, k + 1, s, i + 1, j, X)
      [] e.k = "star" -> \* a leading period is never consumed by, nor skipped past, a star
                         /\ (i < j => ~LeadDot(s, i, X))
                         /\ \E m \in i..j : (X.fn => NoSlash(s, i, m)) /\ M(els, k + 1, s, m, j, X)
      [] e.k = "gstar" -> \E m \in i..j :
                            /\ NoDotComp(s, i, m, X)
                            /\ (e.slash => (m = i \/ s[m - 1] = "/"))
                            /\ M(els, k + 1, s, m, j, X)
      [] e.k = "ext"  -> \E m \in i..j : ExtM(e, s, i, m, X) /\ M(els, k + 1, s, m, j, X)
      [] e.k = "never" -> FALSE
      [] e.k = "raw"   -> SubSeq(s, i, j - 1) = e.txt /\ k = Len(els)

Match(els, s, X) == M(els, 1, s, 1, Len(s) + 1, X)

\* ------------------------------------------------------------------------
\* Malformed constructs (POSIX: undefined / invalid) present in the parsed pattern.
RECURSIVE BadOf(_)
BadOf(els) ==
  UNION { IF els[n].k \in {"lit", "set", "never", "raw"} THEN els[n].bad
          ELSE IF els[n].k = "ext" THEN UNION { BadOf(els[n].alts[a]) : a \in 1..Len(els[n].alts) }
          ELSE {} : n \in 1..Len(els) }

\* does some element (also inside groups) have the given feature?
ElHas(e, tag) ==
  CASE tag = "coll"      -> e.k = "set" /\ \E n \in 1..Len(e.items) : e.items[n].t \in {"coll", "collrange"}
    [] tag = "rangeclass" -> e.k = "set" /\ \E n \in 1..Len(e.items) : e.items[n].t = "range" /\ e.items[n].hiclass
    [] tag = "class"     -> e.k = "set" /\ \E n \in 1..Len(e.items) : e.items[n].t = "class"
    [] tag = "caseclass" -> e.k = "set" /\ \E n \in 1..Len(e.items) :
                               /\ e.items[n].t = "class"
                               /\ e.items[n].name \in {<<"u","p","p","e","r">>, <<"l","o","w","e","r">>}
    [] tag = "neg"       -> e.k = "ext" /\ e.op = "!"
    [] tag = "rawneg"    -> e.k = "raw" /\ \E q \in 1..(Len(e.txt) - 1) : e.txt[q] = "!" /\ e.txt[q + 1] = "("
    [] tag = "classdash" -> e.k = "set" /\ \E n \in 1..(Len(e.items) - 2) :
                               /\ e.items[n].t \in {"class", "coll"}
                               /\ e.items[n + 1].t = "ch" /\ e.items[n + 1].c = "-" /\ ~e.items[n + 1].esc
    [] tag = "never"     -> e.k = "never"
    [] tag = "oc"        -> e.k \in {"lit", "never"} /\ e.oc
    [] tag = "dashfirst" -> e.k = "set" /\ e.dashfirst
    [] tag = "group"     -> e.k = "ext"
    [] tag = "wild"      -> e.k \in {"any", "star", "gstar", "set", "ext"}
RECURSIVE AnyEl(_, _)
AnyEl(els, tag) ==
  \E n \in 1..Len(els) :
     \/ ElHas(els[n], tag)
     \/ els[n].k = "ext" /\ \E a \in 1..Len(els[n].alts) : AnyEl(els[n].alts[a], tag)

\* Named deviations of mvdan/sh.  Each has a trigger class (below) and either allows a
\* syntax error, or has an alternative semantics (switched on through X.dev) that says what
\* the code is known to compute instead.
\*
\* Documented in the source (an error is accepted, nothing else):
\*  collating    pattern.go charClass: "collating features not available" -- [[.a.]] and
\*               [[=a=]] are reported as syntax errors.
\*  openclass    pattern.go regexpNext: "Bash is inconsistent about invalid character classes
\*               in an unmatched bracket ... We follow the latter, keeping the error": after an
\*               unmatched "[", a later "[:" "[." "[=" that is not a valid class is an error,
\*               where bash's `case` takes the "[" literally.
\*  negext       pattern.go NegExtGlobError: "extglob !(...) is not supported in this scenario"
\*               -- Regexp never translates !( ); callers use internal.ExtendedPatternMatcher,
\*               which handles one group with a fixed prefix and suffix.
\* Divergences from bash found by this check (known findings; alternative semantics):
\*  deadbracket  a bracket expression cut off by the end of the pattern right after a "\" or
\*               after the "-" of a range: bash fails the whole match, the code takes "[" literally.
\*  nocaseclass  [[:upper:]] / [[:lower:]] under NoGlobCase: bash tests the character as it
\*               stands, the code folds the class ((?i) in the regexp).
\*  asciiclass   classes are ASCII-only in the code; bash classifies by locale (UTF-8).
\*  groupscan    how the ")" closing an extended group is found: bash lets an unmatched "["
\*               hide the rest and counts every "(" as a nesting level; the code takes such
\*               a "[" and a "(" that follows no operator as ordinary characters.
\*  slashbracket Filenames: a "[" ... "]" span that contains a slash is no bracket expression;
\*               POSIX and bash then take only the "[" as an ordinary character and read on
\*               (`[/*]` = "[/" star "]"), the code takes the text of the whole span literally,
\*               backslashes included.
\* Divergences with a trigger class and a scope (the subjects on which the code may differ)
\* instead of an alternative semantics; reported under their name:
\*  leadingdot   Filenames without GlobLeadingDot: bash never lets "?", "*" or a bracket
\*               expression match a leading period (first character or after "/"), not even a
\*               star that matches nothing (`*.a` does not match ".a"); the code only keeps a
\*               star that starts a path component from consuming it.  Scope: subjects that
\*               have a leading period.
\*  dashfirst    a bracket expression whose first member is "-" followed by more members
\*               (`[-0-9]`, `[--]`, `[^-Z]`): the "-" is an ordinary member; the code takes it as
\*               a range operator whose start is the "[" (or "!" "^") before it and reports
\*               "invalid range" when that character sorts after the next one.
\*  classdash    a "-" right after a class, with more members after it (`[[:upper:]-!]`): an
\*               ordinary member for bash (a class cannot start a range); the code takes it as a
\*               range operator starting at the "]" that ends the class and reports "invalid
\*               range" when "]" sorts after the next character.
\*  rangeclass   a range whose end point is a "[" that is followed by ":" "." or "=", as in
\*               [:-[:alpha:]: bash takes the "[" as the end point, the code starts a class.
Devs(p, els, X) ==
  (IF AnyEl(els, "coll") THEN {"collating"} ELSE {})
  \cup (IF AnyEl(els, "oc") THEN {"openclass"} ELSE {})
  \cup (IF AnyEl(els, "neg") \/ AnyEl(els, "rawneg") THEN {"negext"} ELSE {})
  \cup (IF AnyEl(els, "never") THEN {"deadbracket"} ELSE {})
  \cup (IF X.nocase /\ AnyEl(els, "caseclass") THEN {"nocaseclass"} ELSE {})
  \cup (IF AnyEl(els, "class") THEN {"asciiclass"} ELSE {})
  \cup (IF AnyEl(els, "rangeclass") THEN {"rangeclass"} ELSE {})
  \cup (IF X.fn /\ ~X.dot /\ AnyEl(els, "wild") THEN {"leadingdot"} ELSE {})
  \cup (IF AnyEl(els, "dashfirst") THEN {"dashfirst"} ELSE {})
  \cup (IF AnyEl(els, "classdash") THEN {"classdash"} ELSE {})
  \cup (IF X.fn /\ "slashbracket" \notin X.dev /\ ParsePat(p, WithDev(X, {"slashbracket"})) # els
        THEN {"slashbracket"} ELSE {})
  \cup (IF X.ext /\ "groupscan" \notin X.dev /\ ParsePat(p, WithDev(X, {"groupscan"})) # els
        THEN {"groupscan"} ELSE {})
AltDevs == {"deadbracket", "nocaseclass", "asciiclass", "groupscan", "slashbracket"}

\* Places where bash 5.2 itself departs from its manual (the oracle is not used there):
\*  starnullable  a star directly followed by a @( +( or !( group: bash never tries the
\*                star against the whole rest of the subject, so the group cannot match the
\*                empty string at the end (`*@(|a)` does not match "b", `*!(a)` not "a").
RECURSIVE StarThenGroup(_)
StarThenGroup(els) ==
  \/ \E n \in 1..(Len(els) - 1) : els[n].k = "star" /\ els[n + 1].k = "ext" /\ els[n + 1].op \in {"@", "+", "!"}
  \/ \E n \in 1..Len(els) : els[n].k = "ext" /\ \E a \in 1..Len(els[n].alts) : StarThenGroup(els[n].alts[a])
\*  groupthendot   file names: a pattern that starts with a group and continues with a literal
\*                 period (`@().a`): bash decides from the group alone whether names with a leading
\*                 period are candidates and skips ".a", although the period is matched literally.
Quirks(els, X) ==
  (IF StarThenGroup(els) THEN {"starnullable"} ELSE {})
  \cup (IF X.fn /\ ~X.dot /\ Len(els) >= 2 /\ els[1].k = "ext" /\ els[2].k = "lit" /\ els[2].c = "."
        THEN {"groupthendot"} ELSE {})

\* The one shape of !( ) that internal.ExtendedPatternMatcher documents as supported: a single
\* group, at the top level, between literal text.
NegSimple(els) ==
  /\ Cardinality({ n \in 1..Len(els) : els[n].k = "ext" /\ els[n].op = "!" }) = 1
  /\ \A n \in 1..Len(els) :
        \* "literal text" as the code sees it: no backslash, no bracket character (its HasMeta
        \* answers true for "[" ... "]" even when that is no bracket expression)
        \/ els[n].k = "lit" /\ ~els[n].esc /\ els[n].c \notin {"[", "]"}
        \/ /\ els[n].k = "ext" /\ els[n].op = "!"
           /\ \A a \in 1..Len(els[n].alts) : ~AnyEl(els[n].alts[a], "neg")

\* ------------------------------------------------------------------------
\* C18: QuoteMeta / HasMeta / Unescape over pattern texts (default mode).
MetaChars == {"*", "?", "[", "\\"}
RECURSIVE QuoteMeta(_)
QuoteMeta(s) ==
  IF s = <<>> THEN <<>>
  ELSE (IF Head(s) \in MetaChars THEN <<"\\", Head(s)>> ELSE <<Head(s)>>) \o QuoteMeta(Tail(s))

\* HasMeta(p): an unquoted "*" or "?", or an unquoted "[" followed later by an unquoted "]".
RECURSIVE HasMetaFrom(_, _, _)
HasMetaFrom(p, i, open) ==
  IF i > Len(p) THEN FALSE
  ELSE IF p[i] = "\\" THEN HasMetaFrom(p, i + 2, open)
  ELSE IF p[i] \in {"*", "?"} THEN TRUE
  ELSE IF p[i] = "[" THEN HasMetaFrom(p, i + 1, TRUE)
  ELSE IF p[i] = "]" /\ open THEN TRUE
  ELSE HasMetaFrom(p, i + 1, open)
HasMeta(p) == HasMetaFrom(p, 1, FALSE)

\* p with its escapes removed (a trailing backslash stands for itself)
RECURSIVE Unescape(_)
Unescape(p) ==
  IF p = <<>> THEN <<>>
  ELSE IF Head(p) = "\\" /\ Len(p) >= 2 THEN <<p[2]>> \o Unescape(SubSeq(p, 3, Len(p)))
  ELSE <<Head(p)>> \o Unescape(Tail(p))

\* ------------------------------------------------------------------------
\* The builder
Init == /\ fam \in Fams
        /\ mode \in FamDef[fam].modes
        /\ toks = <<>>
        /\ tab = [alpha |-> FamDef[fam].alpha, maxt |-> FamDef[fam].maxt + TokBoost, subj |-> SubjTab[fam]]

AddTok == /\ Len(toks) < tab.maxt
          /\ \E n \in 1..Len(tab.alpha) : toks' = Append(toks, tab.alpha[n])
          /\ UNCHANGED <<fam, mode, tab>>
Next == AddTok
Spec == Init /\ [][Next]_vars

Pat == Flatten(toks)

\* ------------------------------------------------------------------------
\* What is emitted for every state
MatchSetOf(els, subj, X) == { n \in 1..Len(subj) : Match(els, subj[n], X) }
\* Without EntireString the regular expression is used to search: it accepts a subject iff some substring of the
\* subject (the empty one included) matches the whole pattern.  Emitted for the family "unanch" only.
SearchSetOf(els, subj, X) ==
  { n \in 1..Len(subj) : \E i \in 1..(Len(subj[n]) + 1) : \E j \in (i - 1)..Len(subj[n]) :
        Match(els, SubSeq(subj[n], i, j), X) }

View ==
  LET X    == Opt(mode)
      p    == Pat
      els  == ParsePat(p, X)
      subj == tab.subj
      acc  == MatchSetOf(els, subj, X)
      un   == Unescape(p)
      devs == Devs(p, els, X)
      XD   == WithDev(X, devs \cap AltDevs)
      elsD == ParsePat(p, XD)
  IN [ fam |-> fam, mode |-> mode, pat |-> p,
       acc |-> acc,
       accs |-> IF fam = "unanch" /\ BadOf(els) = {} THEN SearchSetOf(els, subj, X) ELSE {},
       \* two more subjects outside the family's universe: the pattern text itself and
       \* the pattern with its escapes removed
       xsubj |-> <<p, un>>,
       xacc  |-> <<Match(els, p, X), Match(els, un, X)>>,
       malformed |-> BadOf(els),
       devs |-> devs,
       quirks |-> Quirks(els, X),
       hasgroup |-> AnyEl(els, "group"),
       negsimple |-> NegSimple(els),
       \* what the code is known to compute instead, when a deviation with an
       \* alternative semantics is triggered
       alt  |-> IF devs \cap AltDevs = {} THEN [on |-> FALSE]
                ELSE [on |-> TRUE, acc |-> MatchSetOf(elsD, subj, XD),
                      xacc |-> <<Match(elsD, p, XD), Match(elsD, un, XD)>>],
       scope |-> IF "leadingdot" \in devs
                 THEN { n \in 1..Len(subj) : HasLeadDot(subj[n], X) }
                      \cup (IF HasLeadDot(p, X) THEN {Len(subj) + 1} ELSE {})
                      \cup (IF HasLeadDot(un, X) THEN {Len(subj) + 2} ELSE {})
                 ELSE {},
       hasmeta |-> HasMeta(p),
       nontrivial |-> HasMeta(p) /\ acc # {} /\ Cardinality(acc) < Len(subj) ]

Emit == /\ PrintT(<<"VEC", ToJson(View)>>)
        /\ (toks = <<>> => PrintT(<<"STAT", ToJson([fam |-> fam, subjects |-> tab.subj])>>))
EmitInv == Emit

\* ------------------------------------------------------------------------
\* Laws of the contract itself, checked by TLC on every state (they guard the spec
\* against vacuity and typos; they say nothing about the code).

\* Modes that only matter for file names or for partial matches do not change the
\* language: Shortest (with EntireString), and NoGlobStar/GlobLeadingDot without Filenames.
ModeIrrelevance ==
  LET p == Pat
      all == tab.subj
      subj == SubSeq(all, 1, IF Len(all) < 40 THEN Len(all) ELSE 40)
      base == mode \ {"Shortest", "NoGlobStar", "GlobLeadingDot"} IN
  ("Filenames" \notin mode /\ base # mode) =>
     MatchSetOf(ParsePat(p, Opt(mode)), subj, Opt(mode)) = MatchSetOf(ParsePat(p, Opt(base)), subj, Opt(base))

\* Literal elements only iff no metacharacter is active (ties HasMeta to ParsePat).
LiteralLaw ==
  LET els == ParsePat(Pat, Opt({E})) IN
  (\A n \in 1..Len(els) : els[n].k = "lit") => [n \in 1..Len(els) |-> els[n].c] = Unescape(Pat)
==========================================================================
