SPECIFICATION Spec
CONSTANTS Family = "share2"
  MaxJobs = 2
  Buggy = TRUE
INVARIANTS TriggerSound
