SPECIFICATION Spec
CONSTANTS
  Fams = {"plain", "test", "len", "sub", "rem", "repl", "case", "at", "ind", "names", "keys"}
  MaxPat = 2
  MaxPatRepl = 2
  Wide = TRUE
INVARIANTS Inv
