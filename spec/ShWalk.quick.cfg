SPECIFICATION Spec
CONSTANTS
  MaxNodes = 5
  Forget = FALSE
INVARIANTS TypeOK EnteredOnce StackIsPath PruneSkips Complete Prefix PreorderLaw
