SPECIFICATION Spec
CONSTANTS
  MaxTok = 3
  MaxDqInner = 3
  MaxExp = 2
  TokSet = {"LIT","ESP","EBS","EDL","SQE","SQ","V","W","CS","QCS","AT","STAR","DQE","DQL","QV","QW","QAT","QSTAR","DQ","DLIT"}
  IfsSet = {1,2,3,5,6,9,10,12}
  ShapeSet = {1,2,3,4,5,6,7,8,10,14}
  WShapeSet = {2,5,6,7,13}
  MixShapeSet = {2,5,6,7}
  MixParamSet = {1,2,4,9}
  ParamSet = {1,2,3,4,6,8,9,10}
  CSMaxLen = 2
  SimMinTok = 0
  RawMaxTok = 2
  MaxRaw = 5
  MaxRawCS = 3
  AlphaN = 3
INVARIANTS Laws EmitInv
