SPECIFICATION Spec
CONSTANTS
  MaxTok = 6
  MaxDqInner = 4
  MaxExp = 4
  TokSet = {"LIT","ESP","EBS","EDL","SQE","SQ","V","W","AT","STAR","DQE","DQL","QV","QW","QAT","QSTAR","DQ","DLIT"}
  IfsSet = {1,2,3,4,5,6,7,8,9,10,11,12}
  ShapeSet = {1,2,3,4,5,6,7,8,9,10,11,12,13,14,15,16}
  WShapeSet = {1,2,3,4,5,6,7,8,9,10,11,12,13,14,15,16}
  MixShapeSet = {1,2,3,4,5,6,7,8,9,10,11,12,13,14,15,16}
  MixParamSet = {1,2,3,4,5,6,7,8,9,10,11,12}
  ParamSet = {1,2,3,4,5,6,7,8,9,10,11,12}
  CSMaxLen = 0
  SimMinTok = 4
  RawMaxTok = 0
  MaxRaw = 0
  MaxRawCS = 0
  AlphaN = 3
INVARIANTS Laws EmitInv
