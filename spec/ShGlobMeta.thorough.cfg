SPECIFICATION Spec
CONSTANTS TokBoost = 1
  SubjBoost = 0
  Fams = {"meta"}
INVARIANTS QuoteLaw NoMetaLaw LiteralLaw EmitMeta
VIEW StateKey
