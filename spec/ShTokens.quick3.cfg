SPECIFICATION Spec
CONSTANTS MaxLen = 3
  Reduced = TRUE
  EmitAt = 0
INVARIANTS TypeOK AlphabetOK Emit EmitAlphabet
