SPECIFICATION Spec
CONSTANTS Family = "dir"
  MaxUnits = 1
  MaxFlags = 1
  MaxTail = 0
  MaxArgs = 1
  Rich = FALSE
INVARIANTS IdentityLaw WidthLaw EchoPlainLaw EmitInv
