SPECIFICATION Spec
CONSTANT MaxLen = 6
CONSTANT Menus = FALSE
CONSTANT Cap = 300
CONSTANT Alphabet <- AlphaSmall
INVARIANT CheckAndEmit
