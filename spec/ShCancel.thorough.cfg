SPECIFICATION Spec
CONSTANTS FifoCancellable = TRUE
  WaitCancellable = TRUE
  MaxCancel = 14
  Mode = "mc"
INVARIANTS TypeOK NoStuck WakeSound EmitShape
PROPERTIES Live
