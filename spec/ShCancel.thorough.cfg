SPECIFICATION Spec
CONSTANTS FifoCancellable = TRUE
  MaxCancel = 14
  Mode = "mc"
INVARIANTS TypeOK NoStuck WakeSound EmitShape
PROPERTIES Live
