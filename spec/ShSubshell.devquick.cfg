SPECIFICATION Spec
CONSTANTS MaxLen = 2
  Buggy = TRUE
  Wide = FALSE
INVARIANTS EmitDev
