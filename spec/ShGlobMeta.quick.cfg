SPECIFICATION Spec
CONSTANTS TokBoost = 0
  SubjBoost = 0
  Fams = {"meta"}
INVARIANTS QuoteLaw NoMetaLaw LiteralLaw EmitMeta
VIEW StateKey
