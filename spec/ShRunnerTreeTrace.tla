------------------------- MODULE ShRunnerTreeTrace -------------------------
(* Trace validation for C29 (binding V).  The Go engine records, for every program of
   ShRunnerTree run on a real interp.Runner, what the caller can observe of the two things it
   owns: a fingerprint of the tree (typed JSON + printed form) and of the Environ's Each
   sequence before the first call ("begin") and after every call ("run"/"reset"), and the
   number of Set calls the Environ has received.  The trace is accepted iff every event is a
   step of the contract: calls leave tree and userEnv unchanged and the Environ never sees a
   Set (there is no action for it).  Many programs are concatenated; "begin" starts the next. *)
EXTENDS Integers, Sequences, TLC, Json, IOUtils

Trace == ndJsonDeserialize(IOEnv.VERIF_TRACE)

VARIABLES i, tree, userEnv
vars == <<i, tree, userEnv>>

Init == i = 0 /\ tree = "" /\ userEnv = "" /\ TLCSet(1, 0)

Begin == /\ i < Len(Trace)
         /\ LET e == Trace[i + 1] IN
            /\ e.ev = "begin"
            /\ tree' = e.tree /\ userEnv' = e.env
         /\ i' = i + 1 /\ TLCSet(1, i')

(* Run / Reset: the observation logged after the call must be the one before it, and the
   Environ must not have been written. *)
CallEv == /\ i < Len(Trace)
          /\ LET e == Trace[i + 1] IN
             /\ e.ev \in {"run", "reset"}
             /\ e.tree = tree /\ e.env = userEnv /\ e.sets = 0
          /\ i' = i + 1 /\ TLCSet(1, i')
          /\ UNCHANGED <<tree, userEnv>>

Next == Begin \/ CallEv
Spec == Init /\ [][Next]_vars

Untouched == [][(i > 0 /\ Trace[i + 1].ev # "begin") => (tree' = tree /\ userEnv' = userEnv)]_vars
Accepted == TLCGet(1) = Len(Trace) \/ (PrintT(<<"STAT", ToJson([stuck |-> TLCGet(1) + 1, len |-> Len(Trace)])>>) /\ FALSE)
=============================================================================
