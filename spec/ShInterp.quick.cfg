\* Reference configuration (the check writes its own cfg: the constant Devs is the set of deviation
\* switches still listed as known in known_findings.d/C26.jsonl).
SPECIFICATION Spec
CONSTANTS MaxLen = 3
  MaxDepth = 2
  EmitAt = 0
  Fuel = 150
  EmitTree = FALSE
  Devs = {}
INVARIANTS Check
