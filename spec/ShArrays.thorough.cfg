SPECIFICATION Spec
CONSTANTS MaxIdx = 5
  Vals = {"x", "y", ""}
INVARIANTS Refines MaxAgree EmitState
