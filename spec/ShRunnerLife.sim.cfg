SPECIFICATION Spec
CONSTANTS MaxHist = 6
  CfgIds = {1, 2, 3, 4}
  DeepCfgIds = {1, 2, 3, 4}
  StmtAct = TRUE
  LibIds <- AllLibIds
INVARIANTS TypeOK ResetRestores Laws
