SPECIFICATION TSpec
CONSTANTS Lanes = 16
  Alphabet = {}
  MaxLen = 0
INVARIANT Judged
