SPECIFICATION Spec
CONSTANTS Family = "reuse"
  MaxUnits = 2
  MaxFlags = 0
  MaxTail = 0
  MaxArgs = 2
  Rich = FALSE
INVARIANTS IdentityLaw WidthLaw EchoPlainLaw EmitInv
