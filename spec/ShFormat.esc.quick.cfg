SPECIFICATION Spec
CONSTANTS Family = "esc"
  MaxUnits = 2
  MaxFlags = 0
  MaxTail = 3
  MaxArgs = 0
  Rich = FALSE
INVARIANTS IdentityLaw WidthLaw EchoPlainLaw EmitInv
