SPECIFICATION Spec
CONSTANTS MaxHist = 2
  CfgIds = {1, 2, 3, 4}
  DeepCfgIds = {1, 2}
  StmtAct = TRUE
  LibIds <- AllLibIds
INVARIANTS TypeOK ResetRestores Laws
PROPERTY Untouched
