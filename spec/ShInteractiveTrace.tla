------------------------ MODULE ShInteractiveTrace ------------------------
(* C08 (b) trace validation: event sequences recorded from the real Parser.InteractiveSeq (fed
   one line per Read) must be behaviours of the ShInteractive protocol under the per-line
   annotation of the fed source.

   Input (ndjson, one trace per line, path in VERIF_TRACE):
     id      number of the trace
     open    open[i] = 1: a statement is unfinished after line i
     dash    dash[i] = 1: line i is a body line of a `<<-` here-document (only narrows a deviation)
     done    done[i] = number of top-level statements complete after line i
     lastnl  1: the last line ends in a newline
     total   number of statements of the program (= done of the last line)
     stop    k > 0: the consumer returned false from its k-th callback (nothing may follow)
     ev      events  <<0, i, 0, 0>>  the parser asked for input and received line i
                     <<2, 0, 0, 0>>  the parser asked for input and received end of input
                     <<1, n, inc, err>> callback with n statements, Incomplete() = inc, err # nil
   Deterministic: one TLC state per event.  A trace whose next event the contract does not allow
   is reported (REJ with the position and the rule that was broken) and skipped; a trace that
   needed a named deviation is reported (DEV).

   Named deviation (what the code is known to do instead of the contract):
     Dev_LastLineWithoutNewlineDropped   when the input ends without a final newline, the
        statements finished on that last line are never handed over: the trace ends after
        FeedEOF with finished statements still pending.
     Dev_DashHeredocLineNoCallback   after a body line of a `<<-` here-document the parser asks
        for the next line without any callback (the consumer cannot print its "> " prompt): the
        lexer looks ahead for leading tabs of the next line before the line counter that the
        callback logic relies on has advanced.  *)
EXTENDS Naturals, Sequences, FiniteSets, TLC, Json, IOUtils

Trace == ndJsonDeserialize(IOEnv.VERIF_TRACE)
NTraces == Len(Trace)

VARIABLES ti, pos, fed, ndel, prompted, eof, ncb,
          devs      \* names of the deviations the current trace needed
tvars == <<ti, pos, fed, ndel, prompted, eof, ncb, devs>>

Cur    == Trace[ti]
NLines == Len(Cur.open)
Ann    == IF ti <= NTraces
          THEN [i \in 1..NLines |-> [done |-> Cur.done[i], open |-> Cur.open[i] = 1,
                                     nl |-> (i < NLines \/ Cur.lastnl = 1)]]
          ELSE <<>>

\* The guards are ShInteractive's, evaluated on the annotation of the current trace.
I == INSTANCE ShInteractive WITH lines <- Ann, phase <- "run", hist <- <<>>,
                                 MaxLines <- 0, MaxPerLine <- 0, Defect <- "none"

TInit == ti = 1 /\ pos = 0 /\ fed = 0 /\ ndel = 0 /\ prompted = FALSE /\ eof = FALSE /\ ncb = 0 /\ devs = {}

NextTrace == ti' = ti + 1 /\ pos' = 0 /\ fed' = 0 /\ ndel' = 0 /\ prompted' = FALSE /\ eof' = FALSE /\ ncb' = 0 /\ devs' = {}

Reject(why) == /\ PrintT(<<"REJ", ToJson([id |-> Cur.id, at |-> pos, why |-> why])>>)
               /\ NextTrace
Accept      == /\ IF devs = {} THEN PrintT(<<"ACC", ToJson(Cur.id)>>)
                               ELSE PrintT(<<"DEV", ToJson([id |-> Cur.id, devs |-> devs])>>)
               /\ NextTrace
Deviation(d) == /\ PrintT(<<"DEV", ToJson([id |-> Cur.id, devs |-> devs \cup {d}])>>)
                /\ NextTrace

Stopped == Cur.stop > 0 /\ ncb = Cur.stop

\* reading on after a `<<-` body line that got no callback
DevDashOK(i) == /\ ~eof /\ fed > 0 /\ ~prompted /\ I!NlAt(fed) /\ I!OpenAt(fed) /\ Cur.dash[fed] = 1
                /\ i = fed + 1 /\ fed < NLines

DevDropOK == /\ eof /\ ~prompted /\ fed = NLines /\ fed > 0 /\ ~I!NlAt(fed)
             /\ ~I!OpenAt(fed) /\ I!Pending > 0

WhyNoRead ==
  IF eof THEN "asked for input after end of input"
  ELSE IF ~prompted /\ I!OpenAt(fed) THEN "asked for the next line of an open statement without an Incomplete callback"
  ELSE IF ~prompted /\ I!Pending > 0 THEN "asked for the next line before handing over the finished statements"
  ELSE IF ~prompted THEN "asked for the next line without a callback for the previous one"
  ELSE "lines received out of order"

WhyNoCallback(n, inc) ==
  IF ~I!CallbackDue THEN (IF fed = 0 THEN "callback before any input was read"
                          ELSE IF prompted THEN "second callback for one line"
                          ELSE "callback for a line without newline before end of input was seen")
  ELSE IF inc /\ ~I!OpenAt(fed) THEN "Incomplete reported while no statement is open"
  ELSE IF ~inc /\ I!OpenAt(fed) THEN "Incomplete not reported while a statement is open"
  ELSE IF n = 0 THEN "empty callback while finished statements are pending"
  ELSE "callback does not hand over exactly the finished pending statements"

Step ==
  /\ ti <= NTraces
  /\ IF pos = Len(Cur.ev)
     THEN IF Cur.stop > 0
          THEN IF Stopped THEN Accept ELSE Reject("the consumer never reached its stop callback")
          ELSE IF I!Finished /\ ndel = Cur.total THEN Accept
          ELSE IF DevDropOK THEN Deviation("Dev_LastLineWithoutNewlineDropped")
          ELSE Reject(IF ~eof THEN "ended without reading to the end of input"
                      ELSE IF ndel < Cur.total THEN "ended with finished statements never handed over"
                      ELSE "ended without the callback for the last line")
     ELSE LET e == Cur.ev[pos + 1] IN
          IF Stopped THEN Reject("event after the consumer returned false")
          ELSE IF e[1] = 0
          THEN IF I!ReadOK /\ I!NlAt(fed) /\ e[2] = fed + 1 /\ fed < NLines
               THEN /\ fed' = fed + 1 /\ prompted' = FALSE /\ pos' = pos + 1
                    /\ UNCHANGED <<ti, ndel, eof, ncb, devs>>
               ELSE IF DevDashOK(e[2])
               THEN /\ fed' = fed + 1 /\ prompted' = FALSE /\ pos' = pos + 1
                    /\ devs' = devs \cup {"Dev_DashHeredocLineNoCallback"}
                    /\ UNCHANGED <<ti, ndel, eof, ncb>>
               ELSE Reject(WhyNoRead)
          ELSE IF e[1] = 2
          THEN IF I!ReadOK /\ fed = NLines
               THEN /\ eof' = TRUE /\ pos' = pos + 1 /\ UNCHANGED <<ti, fed, ndel, prompted, ncb, devs>>
               ELSE Reject(WhyNoRead)
          ELSE IF e[4] = 1 THEN Reject("error callback on a program that parses")
          ELSE IF e[3] = 1
          THEN IF I!IncompleteOK(e[2])
               THEN /\ prompted' = TRUE /\ pos' = pos + 1 /\ ncb' = ncb + 1
                    /\ UNCHANGED <<ti, fed, ndel, eof, devs>>
               ELSE Reject(WhyNoCallback(e[2], TRUE))
          ELSE IF e[2] > 0
          THEN IF I!StmtsOK(e[2])
               THEN /\ ndel' = ndel + e[2] /\ prompted' = TRUE /\ pos' = pos + 1 /\ ncb' = ncb + 1
                    /\ UNCHANGED <<ti, fed, eof, devs>>
               ELSE Reject(WhyNoCallback(e[2], FALSE))
          ELSE IF I!EmptyOK
               THEN /\ prompted' = TRUE /\ pos' = pos + 1 /\ ncb' = ncb + 1
                    /\ UNCHANGED <<ti, fed, ndel, eof, devs>>
               ELSE Reject(WhyNoCallback(0, FALSE))

TSpec == TInit /\ [][Step]_tvars
=============================================================================
