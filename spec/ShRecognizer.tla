--------------------------- MODULE ShRecognizer ---------------------------
(* C12: parser acceptance agrees with the real shells -- the CONTRACT FOR THE DIFFERENCES.

   The property compares three recognizers of the same programs: syntax.Parser in Bash mode with
   `bash -n`, and in POSIX mode with `dash -n`.  The programs are the shared core of the grammar
   spec ShSyntax (derivations valid in both bash and posix) and every single-token mutation of
   their token sequences (deletion, swap with the next token, insertion from a small alphabet).
   Agreement needs no specification: the real shell is the oracle the property names.  What needs
   one is the set of DISAGREEMENTS THAT ARE ALLOWED.  This module is that contract: a disagreement
   is excused only if one of the named predicates below holds of the observation; every predicate
   cites the place where the repository documents the difference; anything else is a violation.

   An observation (one per program x variant, read from the file named by VERIF_TRACE):
     id      number
     lang    "bash" | "posix"
     toks    the token sequence: each token a sequence of one-character strings; the layout
             tokens of ShSyntax appear as  <SP> <SEP> <BGSEP> <HDOC>
     mut     index of the mutated token in toks (0: an unmutated program of the grammar spec);
             for a deletion the index of the token that now stands at the deleted position
     impl    "ok" | "unclosed-heredoc" | "rejected"      what syntax.Parser said
     shell   "ok" | "rejected"                           what bash -n / dash -n said
     eofwarn bash itself warned "here-document ... delimited by end-of-file" for this source
     cr      the layout used to write the tokens out contains carriage returns

   TLC reads the observations, evaluates the predicates, prints for every disagreement either
   EXC (with the names that excuse it) or UNX (unexcused), and checks the laws at the end of the
   module on ALL observations (they keep the excuses from swallowing the grammar).  *)
EXTENDS Naturals, Sequences, FiniteSets, TLC, Json, IOUtils

Obs  == ndJsonDeserialize(IOEnv.VERIF_TRACE)
NObs == Len(Obs)

VARIABLE i
vars == <<i>>

\* ---------------------------------------------------------------- tokens as text
Str(s)        == [k \in 1..Len(s) |-> s[k]]          \* (tokens arrive as sequences already)
Has(tok, c)   == \E k \in DOMAIN tok : tok[k] = c
Is(tok, lit)  == tok = lit
SP            == <<"<", "S", "P", ">">>
SEP           == <<"<", "S", "E", "P", ">">>
BGSEP         == <<"<", "B", "G", "S", "E", "P", ">">>
HDOC          == <<"<", "H", "D", "O", "C", ">">>
NL            == <<"\n">>
Blank(tok)    == tok = SP \/ tok = <<" ">> \/ tok = <<"\t">>
\* the next token after position k that is not a blank (0 if none)
RECURSIVE NextNonBlank(_, _)
NextNonBlank(toks, k) == IF k >= Len(toks) THEN 0
                         ELSE IF Blank(toks[k + 1]) THEN NextNonBlank(toks, k + 1) ELSE k + 1
\* tokens that end a command: nothing can follow a lone `!` before them
Terminator(tok) == tok \in {SEP, BGSEP, NL, <<"#">>, <<";">>, <<"&">>, <<")">>, <<"}">>, <<";", ";">>, <<"|">>, <<"&", "&">>, <<"|", "|">>,
                            <<"t", "h", "e", "n">>, <<"d", "o">>, <<"f", "i">>, <<"d", "o", "n", "e">>, <<"e", "s", "a", "c">>}

\* ---------------------------------------------------------------- lazily parsed regions
\* bash and dash do not parse the inside of `...`, $(( )) and ${ } until the word is expanded, so
\* `-n` accepts any text there; syntax.Parser parses these regions at once.  A mutation INSIDE such a
\* region is outside what `-n` can judge.  Regions are found on the token sequence before the
\* mutated token: an odd number of backquote characters; more $(( / (( than )); an open ${ .
RECURSIVE CountChar(_, _, _)
CountChar(toks, upto, c) ==
  IF upto = 0 THEN 0
  ELSE CountChar(toks, upto - 1, c) + Cardinality({k \in DOMAIN toks[upto] : toks[upto][k] = c})
StartsWith(tok, pre) == Len(tok) >= Len(pre) /\ SubSeq(tok, 1, Len(pre)) = pre
EndsWith(tok, suf)   == Len(tok) >= Len(suf) /\ SubSeq(tok, Len(tok) - Len(suf) + 1, Len(tok)) = suf
ArithOpen(tok)  == EndsWith(tok, <<"(", "(">>)                    \* $((  ((   a=$((
ArithClose(tok) == StartsWith(tok, <<")", ")">>)
ParamOpen(tok)  == StartsWith(tok, <<"$", "{">>) /\ ~Has(tok, "}")   \* ${x  (a complete ${x} token is not open)
ParamClose(tok) == tok = <<"}">>
\* number of opening tokens among toks[1..upto] minus closing ones, never below 0
RECURSIVE ArithDepth(_, _), ParamDepth(_, _)
ArithDepth(toks, upto) ==
  IF upto = 0 THEN 0
  ELSE LET d == ArithDepth(toks, upto - 1) IN
       IF ArithOpen(toks[upto]) THEN d + 1 ELSE IF ArithClose(toks[upto]) /\ d > 0 THEN d - 1 ELSE d
ParamDepth(toks, upto) ==
  IF upto = 0 THEN 0
  ELSE LET d == ParamDepth(toks, upto - 1) IN
       IF ParamOpen(toks[upto]) THEN d + 1 ELSE IF ParamClose(toks[upto]) /\ d > 0 THEN d - 1 ELSE d
\* the positions a mutation touches: the mutated token and the one before it (a swap moves two tokens)
Touched(o) == {m \in {o.mut - 1, o.mut} : m >= 1 /\ m <= Len(o.toks)}
InBackquote(o)  == \E m \in Touched(o) : CountChar(o.toks, m - 1, "`") % 2 = 1 \/ Has(o.toks[m], "`")
\* (the mutated token may itself be the one that opens the region)
InArith(o)      == \E m \in Touched(o) : ArithDepth(o.toks, m - 1) > 0 \/ ArithOpen(o.toks[m])
InParamExp(o)   == \E m \in Touched(o) : ParamDepth(o.toks, m - 1) > 0 \/ ParamOpen(o.toks[m])

\* ---------------------------------------------------------------- token conditions of the named differences
LoneBangTok(toks) ==
  \E k \in DOMAIN toks : toks[k] = <<"!">> /\ LET n == NextNonBlank(toks, k) IN n = 0 \/ Terminator(toks[n])
HdocOp(tok) == tok \in {<<"<", "<">>, <<"<", "<", "-">>} \/ EndsWith(tok, <<"=", "<", "<">>)
Layout(tok) == tok \in {SP, SEP, BGSEP, HDOC, NL}
\* the word that starts at token n (adjacent tokens up to the next blank / separator) contains c
RECURSIVE WordHas(_, _, _)
WordHas(toks, n, c) == n <= Len(toks) /\ ~Blank(toks[n]) /\ ~Layout(toks[n]) /\ toks[n] # <<";">>
                       /\ (Has(toks[n], c) \/ WordHas(toks, n + 1, c))
HdocWordExpansionTok(toks) ==
  \E k \in DOMAIN toks : HdocOp(toks[k]) /\ LET n == NextNonBlank(toks, k) IN
                                             n # 0 /\ (WordHas(toks, n, "$") \/ WordHas(toks, n, "`"))
AmpGreaterTok(toks) == \E k \in DOMAIN toks :
                          \/ toks[k] \in {<<"&", ">">>, <<"&", ">", ">">>}
                          \/ (toks[k] = <<"&">> /\ k < Len(toks) /\ StartsWith(toks[k + 1], <<">">>))
EmptyArithTok(toks) == \E k \in DOMAIN toks :
                          \/ toks[k] = <<"$", "(", "(", ")", ")">>
                          \/ (EndsWith(toks[k], <<"$", "(", "(">>) /\ k < Len(toks) /\ toks[k + 1] = <<")", ")">>)
BadByteTok(toks)    == \E k \in DOMAIN toks : toks[k] = <<"B", "A", "D">>      \* rendered as the byte 0xff

StricterThanShell(o) == o.impl # "ok" /\ o.shell = "ok"       \* the only direction most excuses cover

\* ---------------------------------------------------------------- the named differences
\* parser_test.go:422 (flipConfirmUnclosedHeredoc) and :835-:894: a here-document that is still open at
\* the end of the input is an error for syntax.Parser; bash (with a warning) and dash accept it.
IntentionalDiff_UnclosedHeredoc(o) == o.impl = "unclosed-heredoc" /\ o.shell = "ok" /\ o.eofwarn
\* ... and the rest of the input is then the BODY of that here-document, which the shells only read
\* when they expand it: whatever syntax.Parser objects to in there, `-n` does not look at it.
LazyShell_OpenHeredocBody(o) == StricterThanShell(o) /\ o.eofwarn
\* parser_test.go:537, :542: "bash allows lone `!`, unlike dash, mksh, and us."
IntentionalDiff_LoneBang(o) == o.lang = "bash" /\ StricterThanShell(o) /\ LoneBangTok(o.toks)
\* parser_test.go:1420-:1446 "we are stricter": expansions are not allowed in here-document words.
IntentionalDiff_HeredocWordExpansion(o) == StricterThanShell(o) /\ HdocWordExpansionTok(o.toks)
\* filetests_test.go:1677, :1688: "POSIX shells tend to parse &> as & > hence it runs as two commands".
IntentionalDiff_AmpGreaterPosix(o) == o.lang = "posix" /\ StricterThanShell(o) /\ AmpGreaterTok(o.toks)
\* parser_test.go:438-:468 "common shells use bytes": invalid UTF-8 is an error for syntax.Parser only.
IntentionalDiff_InvalidUTF8(o) == StricterThanShell(o) /\ BadByteTok(o.toks)
\* lexer.go (Parser.rune: "\r\n turns into \n") and parser_test.go:300 "shells do not generally support
\* CRLF line endings": carriage returns are line-ending bytes for syntax.Parser, ordinary bytes for shells.
IntentionalDiff_CRLF(o) == o.cr /\ o.impl = "ok" /\ o.shell = "rejected"
\* parser_test.go:1098 `echo $(())`: "empty arithmetic expressions seem to be OK" for the shells.
IntentionalDiff_EmptyArithmetic(o) == StricterThanShell(o) /\ EmptyArithTok(o.toks)
\* parser_test.go:1951, :1956 "note that we don't backtrack": `((` always starts arithmetic for syntax.Parser;
\* the shells fall back to two nested subshells when the text is not arithmetic.
\* (also `$(` directly followed by `(`: parser_test.go:1123 `echo $((foo) )`)
DblParenTok(toks) == \E k \in DOMAIN toks : toks[k] = <<"(", "(">> \/
                        (EndsWith(toks[k], <<"(">>) /\ k < Len(toks) /\ StartsWith(toks[k + 1], <<"(">>))
IntentionalDiff_NoArithBacktrack(o) == StricterThanShell(o) /\ DblParenTok(o.toks)
\* parser_test.go:303-:307 (confirmParse prepends `shopt -s extglob`: "otherwise bash refuses to parse these
\* properly"): Bash mode assumes extglob is on, so `!(` starts a pattern list; plain `bash -n` has extglob off and
\* reads a negated subshell.
BangParenTok(toks) == \E k \in DOMAIN toks : toks[k] = <<"!">> /\ k < Len(toks) /\ StartsWith(toks[k + 1], <<"(">>)
IntentionalDiff_ExtGlobAssumed(o) == o.lang = "bash" /\ StricterThanShell(o) /\ BangParenTok(o.toks)
\* parser_test.go:308-:313 ("-n makes bash accept invalid inputs like `let` or "`{`""), :1098 (empty
\* arithmetic "seems to be OK" for the shells), :1123-:1166 (arithmetic is not re-read as a command):
\* the shells read these regions only when they expand the word; `-n` never looks inside.
LazyShell_Backquote(o)  == StricterThanShell(o) /\ InBackquote(o)
LazyShell_Arithmetic(o) == StricterThanShell(o) /\ InArith(o)
LazyShell_ParamExp(o)   == StricterThanShell(o) /\ InParamExp(o)

\* ---------------------------------------------------------------- named deviations (known defects, NOT excuses)
\* What the code is known to do instead of agreeing with the shells; reported under these names
\* (known_findings.d/C12.jsonl, proposed_fixes/C12-*.md) so that one defect is one key.
MoreLenient(o) == o.impl = "ok" /\ o.shell = "rejected"
PrevNonBlank(toks, k) == LET S == {j \in 1..(k - 1) : ~Blank(toks[j])} IN
                         IF S = {} THEN 0 ELSE CHOOSE j \in S : \A m \in S : m <= j
Letter(c) == c \in {"a", "b", "c", "d", "e", "f", "g", "h", "i", "j", "k", "l", "m", "n", "o", "p", "q", "r", "s", "t", "u", "v",
                     "w", "x", "y", "z", "_", "A", "B", "C", "D", "E", "F", "G", "H", "I", "J", "K", "L", "M", "N", "O", "P",
                     "Q", "R", "S", "T", "U", "V", "W", "X", "Y", "Z"}
NameTok(tok) == Len(tok) > 0 /\ Letter(tok[1])
\* C12-1: the reserved word `in` is accepted as the name of a command (`(cmd foo; in)`).
Dev_InAsCommand(o) == MoreLenient(o) /\ o.mut > 0 /\ o.toks[o.mut] = <<"i", "n">>
\* C12-8: likewise the reserved word `else` (`a && else b`, even `else` alone); then/elif/fi/do/done/esac are refused.
Dev_ElseAsCommand(o) == MoreLenient(o) /\ o.mut > 0 /\ o.toks[o.mut] = <<"e", "l", "s", "e">>
\* C12-2: `()` without a function name in front is accepted in every variant as an anonymous function
\* (a zsh construct): `() (a=foo)`, `fn|() (cmd)`.
Dev_AnonymousFunction(o) ==
  MoreLenient(o) /\ \E k \in DOMAIN o.toks : o.toks[k] = <<"(", ")">> /\
      LET pr == PrevNonBlank(o.toks, k) IN pr = 0 \/ ~NameTok(o.toks[pr]) \/ pr # k - 1
\* C12-3: POSIX mode does not check that the variable of a for loop is a name (`for !i; do`); dash does.
Dev_ForVariableNotAName(o) ==
  o.lang = "posix" /\ MoreLenient(o) /\ \E k \in DOMAIN o.toks : o.toks[k] = <<"f", "o", "r">> /\
      LET n == NextNonBlank(o.toks, k) IN n # 0 /\ ~NameTok(o.toks[n])
\* C12-4: Bash mode accepts any command as a function body (`fn() !(echo)`, `fn() >(echo)`); bash wants a
\* compound command there (dash does not).
CompoundStart(tok) == tok \in {<<"{">>, <<"(">>, <<"(", "(">>, <<"[", "[">>, <<"i", "f">>, <<"f", "o", "r">>, <<"c", "a", "s", "e">>,
                               <<"w", "h", "i", "l", "e">>, <<"u", "n", "t", "i", "l">>, <<"s", "e", "l", "e", "c", "t">>}
\* In POSIX mode the same holds for a negated command as the body (`fn() ! (a)`): dash, which does take a simple
\* command there, rejects the `!`; the case only became reachable when `!(` stopped being read as an extended glob (475d934).
Dev_FunctionBodyNotCompound(o) ==
  MoreLenient(o) /\ \E k \in DOMAIN o.toks : o.toks[k] = <<"(", ")">> /\
      LET n == NextNonBlank(o.toks, k) IN n # 0 /\
          (IF o.lang = "bash" THEN ~CompoundStart(o.toks[n]) ELSE o.lang = "posix" /\ o.toks[n] = <<"!">>)

\* C12-5: POSIX mode reads `!(` as the start of an extended glob and refuses it; for dash it is a negated subshell.
Dev_BangParenPosix(o) ==
  o.lang = "posix" /\ StricterThanShell(o) /\ \E k \in DOMAIN o.toks :
      o.toks[k] = <<"!">> /\ k < Len(o.toks) /\ StartsWith(o.toks[k + 1], <<"(">>)
\* C12-6: digits right before a redirection operator are a file descriptor for bash (`&>2>&1` lacks a target);
\* syntax.Parser takes them as the target word of the preceding redirection.
Digits(tok) == Len(tok) > 0 /\ \A k \in DOMAIN tok : tok[k] \in {"0", "1", "2", "3", "4", "5", "6", "7", "8", "9"}
RedirOp(tok) == tok \in {<<">">>, <<">", ">">>, <<"<">>, <<"&", ">">>, <<"&", ">", ">">>, <<">", "|">>, <<"<", ">">>, <<">", "&">>}
Dev_FdTakenAsRedirectTarget(o) ==
  MoreLenient(o) /\ \E k \in DOMAIN o.toks : RedirOp(o.toks[k]) /\ k + 2 <= Len(o.toks) /\ Digits(o.toks[k + 1])
                                               /\ (StartsWith(o.toks[k + 2], <<">">>) \/ StartsWith(o.toks[k + 2], <<"<">>))

\* C12-9: a reserved word that continues or ends the enclosing compound command (then, do, fi, done, elif, else,
\* esac, }) is accepted right after the redirection of a compound command without a separator in between
\* (`if case $x in a) ;; esac >>f then b; fi`); for bash and dash the word after a redirection target is an ordinary word.
ListWord(tok) == tok \in {<<"t", "h", "e", "n">>, <<"d", "o">>, <<"f", "i">>, <<"d", "o", "n", "e">>, <<"e", "l", "i", "f">>,
                           <<"e", "l", "s", "e">>, <<"e", "s", "a", "c">>, <<"}">>}
CompoundEnd(tok) == tok \in {<<"e", "s", "a", "c">>, <<"f", "i">>, <<"d", "o", "n", "e">>, <<"}">>, <<")">>, <<"]", "]">>, <<")", ")">>}
Dev_ReservedAfterRedirect(o) ==
  MoreLenient(o) /\ \E k \in DOMAIN o.toks : RedirOp(o.toks[k]) /\ k + 1 <= Len(o.toks) /\
      LET n == NextNonBlank(o.toks, k + 1)
          b == PrevNonBlank(o.toks, k) IN
      n # 0 /\ ListWord(o.toks[n]) /\ b # 0 /\ CompoundEnd(o.toks[b])

\* C12-7: inside `( … )`, `$( … )` and backquotes a `#` that continues a word right after an expansion
\* (`(echo $x#z)`) starts a comment and swallows the rest of the line; bash and dash read one word.
Dev_HashAfterExpansionInSubshell(o) ==
  StricterThanShell(o) /\ \E k \in DOMAIN o.toks : o.toks[k] = <<"#">> /\ k > 1 /\ StartsWith(o.toks[k - 1], <<"$">>)

Names(o) ==
  (IF Dev_HashAfterExpansionInSubshell(o) THEN {"Dev_HashAfterExpansionInSubshell"} ELSE {}) \cup
  (IF Dev_BangParenPosix(o) THEN {"Dev_BangParenPosix"} ELSE {}) \cup
  (IF Dev_FdTakenAsRedirectTarget(o) THEN {"Dev_FdTakenAsRedirectTarget"} ELSE {}) \cup
  (IF Dev_InAsCommand(o) THEN {"Dev_InAsCommand"} ELSE {}) \cup
  (IF Dev_ElseAsCommand(o) THEN {"Dev_ElseAsCommand"} ELSE {}) \cup
  (IF Dev_AnonymousFunction(o) THEN {"Dev_AnonymousFunction"} ELSE {}) \cup
  (IF Dev_ForVariableNotAName(o) THEN {"Dev_ForVariableNotAName"} ELSE {}) \cup
  (IF Dev_FunctionBodyNotCompound(o) THEN {"Dev_FunctionBodyNotCompound"} ELSE {}) \cup
  (IF Dev_ReservedAfterRedirect(o) THEN {"Dev_ReservedAfterRedirect"} ELSE {}) \cup
  (IF LazyShell_OpenHeredocBody(o) THEN {"LazyShell_OpenHeredocBody"} ELSE {}) \cup
  (IF IntentionalDiff_UnclosedHeredoc(o) THEN {"IntentionalDiff_UnclosedHeredoc"} ELSE {}) \cup
  (IF IntentionalDiff_LoneBang(o) THEN {"IntentionalDiff_LoneBang"} ELSE {}) \cup
  (IF IntentionalDiff_HeredocWordExpansion(o) THEN {"IntentionalDiff_HeredocWordExpansion"} ELSE {}) \cup
  (IF IntentionalDiff_AmpGreaterPosix(o) THEN {"IntentionalDiff_AmpGreaterPosix"} ELSE {}) \cup
  (IF IntentionalDiff_InvalidUTF8(o) THEN {"IntentionalDiff_InvalidUTF8"} ELSE {}) \cup
  (IF IntentionalDiff_CRLF(o) THEN {"IntentionalDiff_CRLF"} ELSE {}) \cup
  (IF IntentionalDiff_NoArithBacktrack(o) THEN {"IntentionalDiff_NoArithBacktrack"} ELSE {}) \cup
  (IF IntentionalDiff_ExtGlobAssumed(o) THEN {"IntentionalDiff_ExtGlobAssumed"} ELSE {}) \cup
  (IF IntentionalDiff_EmptyArithmetic(o) THEN {"IntentionalDiff_EmptyArithmetic"} ELSE {}) \cup
  (IF LazyShell_Backquote(o) THEN {"LazyShell_Backquote"} ELSE {}) \cup
  (IF LazyShell_Arithmetic(o) THEN {"LazyShell_Arithmetic"} ELSE {}) \cup
  (IF LazyShell_ParamExp(o) THEN {"LazyShell_ParamExp"} ELSE {})

DevNames == {"Dev_InAsCommand", "Dev_ElseAsCommand", "Dev_AnonymousFunction", "Dev_ForVariableNotAName", "Dev_FunctionBodyNotCompound",
             "Dev_BangParenPosix", "Dev_FdTakenAsRedirectTarget", "Dev_HashAfterExpansionInSubshell", "Dev_ReservedAfterRedirect"}
Agree(o) == (o.impl = "ok") = (o.shell = "ok")

\* ---------------------------------------------------------------- the walk over the observations
Init == i = 1
Step == /\ i <= NObs
        /\ LET o == Obs[i] IN
           IF Agree(o) THEN TRUE
           ELSE LET ns == Names(o) IN
                IF ns = {} THEN PrintT(<<"UNX", ToJson([id |-> o.id])>>)
                           ELSE PrintT(<<"EXC", ToJson([id |-> o.id, names |-> ns])>>)
        /\ i' = i + 1
Spec == Init /\ [][Step]_vars

\* ---------------------------------------------------------------- laws (checked on every observation)
Seen == IF i > 1 THEN Obs[i - 1] ELSE Obs[1]
\* The excuses do not swallow the grammar: an unmutated program of ShSyntax (no carriage returns) has
\* none of the token conditions, lies in no lazily parsed region, and is not accused of an open
\* here-document.
BaseNotExcused ==
  LET o == Seen IN
  (o.mut = 0 /\ ~o.cr) =>
     /\ ~LoneBangTok(o.toks) /\ ~HdocWordExpansionTok(o.toks) /\ ~AmpGreaterTok(o.toks) /\ ~BadByteTok(o.toks)
     /\ ~EmptyArithTok(o.toks) /\ ~BangParenTok(o.toks)
     /\ {n \in Names(o) : n \notin DevNames} = {}
\* An excuse is only ever given to a disagreement, and -- carriage returns apart -- only where
\* syntax.Parser is the stricter side.
ExcusesAreOneSided ==
  LET o == Seen IN
  LET excuses == {n \in Names(o) : n \notin DevNames} IN
  Names(o) # {} => /\ ~Agree(o)
                   /\ ((excuses # {} /\ excuses # {"IntentionalDiff_CRLF"}) => (o.impl # "ok" /\ o.shell = "ok"))
\* The observation file is well formed.
WellFormed ==
  LET o == Seen IN
  /\ o.lang \in {"bash", "posix"} /\ o.impl \in {"ok", "unclosed-heredoc", "rejected"} /\ o.shell \in {"ok", "rejected"}
  /\ o.mut \in 0..Len(o.toks)
=============================================================================
