SPECIFICATION Spec
CONSTANTS
  LenWord = 0
  LenZsh = 3
  LenParam = 3
  LenStop = 2
  MaxZero = 0
  Loops = FALSE
  Specials = FALSE
INVARIANTS WindowTruth PeekTruth
