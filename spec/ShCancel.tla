---------------------------- MODULE ShCancel ----------------------------
(* C31: cancelling the context stops any program promptly.   Style S.

   Goroutines (main, background jobs, pipeline stages, process-substitution bodies) run abstract
   programs made of STATEMENTS.  A statement first polls the context (Runner.stmt -> Runner.stop):
   if the context is cancelled the statement is skipped, otherwise its effects run.  Effects that
   can block, with their wake conditions:

       read      blocked stdin read            wakes when the context is cancelled (read deadline)
       exec      child process                 wakes when the child is dead; Cancel interrupts the child,
                                               a child that ignores the interrupt is killed after killTimeout
       waitjob   `wait`: <-job.done            wakes when that job's goroutine has ended; it needs no path of its
                                               own as long as every job is cancellable, but may have one
                                               (WaitCancellable)
       pipejoin  wg.Wait of a pipeline         wakes when the left stage has ended; runs even if cancelled
       fifoopen  open(2) of a process          wakes when a peer opens the other end -- and, by the CONTRACT
                 substitution's FIFO           (FifoCancellable = TRUE), when the context is cancelled
       loop      while :; do :; done           an endless sequence of polls

   Cancel fires at exactly step cancelAt (steps = number of observable events so far), for every
   cancelAt in 0..MaxCancel, so every cancellation point of every shape is explored.

   TLC checks, under weak fairness of every goroutine and of the environment (signal delivery, kill
   timer):     Live    ==  cancelled ~> returned
   and the safety part "no wait-for cycle survives Cancel":  NoStuck.
   With FifoCancellable = FALSE and WaitCancellable = FALSE the model has the blocking operation without
   cancellation path that interp has today (os.OpenFile on the FIFO in the process-substitution goroutine,
   waited for by a `wait` that does not look at the context): ShCancel.nofifo.cfg must FAIL (self-test), and it may fail only on shapes of the Trigger class (StuckOnlyIfTrigger),
   which is how the known finding Dev_FifoOpenNoCancel is recognised.

   ShCancelTrace replays event traces recorded by hook H12 from real runs against these same actions. *)
EXTENDS Integers, Sequences, FiniteSets, TLC, Json

CONSTANTS FifoCancellable,   \* TRUE = the contract: a FIFO open gives up when the context is cancelled
          WaitCancellable,   \* TRUE = `wait` may also give up (and report the error) when the context is cancelled
          MaxCancel,         \* cancellation steps 0..MaxCancel
          Mode               \* "mc" = model checking, "trace" = driven by ShCancelTrace

VARIABLES shape,      \* the program shape (constant after Init)
          cancelAt, steps, cancelled, returned,
          gst,        \* goroutine -> "none" | "new" | "run" | "done"
          pc,         \* goroutine -> index of the current item of its program
          ec,         \* goroutine -> 0 (before the poll) or index of the current effect
          ph,         \* goroutine -> "idle" | "in" (inside a blocking effect)
          fifo,       \* fifo -> [r, w] each "no" | "wait" | "open"
          proc,       \* goroutine -> state of the child process it is waiting for: "none" | "run" (started) |
                      \*   "up" (signal handlers installed, greeting printed) | "int" (interrupt ignored) | "dead"
          seen,       \* has main observed the cancellation (at a poll, in an interrupted read / exec / wait)?
                      \*   "no" | "trap" (only inside a trap body) | "yes"
          last        \* the observable event of the last step: <<goroutine, point>>
vars == <<shape, cancelAt, steps, cancelled, returned, gst, pc, ec, ph, fifo, proc, seen, last>>

\* ---------------------------------------------------------------- programs
E(e, g, f, side, obeys) == [e |-> e, g |-> g, f |-> f, side |-> side, obeys |-> obeys]
Read        == E("read", "", "", "", TRUE)
ReadFrom(g) == E("readdata", g, "", "", TRUE)   \* read a line that the child process of goroutine g prints once it is up
Exec(ob)    == E("exec", "", "", "", ob)
Spawn(g)    == E("spawn", g, "", "", TRUE)
WaitJob(g)  == E("waitjob", g, "", "", TRUE)
PipeJoin(g) == E("pipejoin", g, "", "", TRUE)   \* runs even if the context was cancelled meanwhile
NPoll       == E("npoll", "", "", "", TRUE)      \* the poll of a statement nested in this one (right side of a
                                                 \* pipeline, body of a command substitution)
FifoOpen(f, side) == E("fifoopen", "", f, side, TRUE)
S(effs)   == [t |-> "stmt", eff |-> effs]      \* poll, then the effects unless cancelled
P         == S(<<>>)                           \* a statement without blocking effect
Loop      == [t |-> "loop", eff |-> <<>>]
Forced(e) == [t |-> "forced", eff |-> <<e>>]   \* runs whether or not the context is cancelled

G(kind, prog) == [kind |-> kind, prog |-> prog]
NoG == G("none", <<>>)
Sh(id, txt, main, g1) == [id |-> id, txt |-> txt, trapfrom |-> 0, gs |-> [main |-> G("main", main), j1 |-> g1]]
\* a shape whose items from index tf on are the body of a trap
ShT(id, txt, main, tf) == [id |-> id, txt |-> txt, trapfrom |-> tf, gs |-> [main |-> G("main", main), j1 |-> NoG]]

\* main is the goroutine that called Run, j1 the one other goroutine the program starts.
Shapes == {
  Sh("loop",            "while :; do :; done",
     <<Loop>>, NoG),
  Sh("read",            "read x",
     <<S(<<Read>>)>>, NoG),
  Sh("sleep",           "sleep 100",
     <<S(<<Exec(TRUE)>>)>>, NoG),
  \* the child ignores SIGINT, says so on its stdout, and then computes for a long (but finite) time
  Sh("pipe-noint-read", "sh -c 'trap \"\" INT; echo up; i=0; while [ $i -lt 20000000 ]; do i=$((i+1)); done' | read x",
     <<S(<<Spawn("j1"), NPoll, ReadFrom("j1"), PipeJoin("j1")>>)>>, G("pipe", <<S(<<Exec(FALSE)>>)>>)),
  Sh("bg-loop-wait",    "while :; do :; done & wait",
     <<S(<<Spawn("j1")>>), S(<<WaitJob("j1")>>)>>, G("bg", <<Loop>>)),
  Sh("bg-read-wait",    "read x & wait",
     <<S(<<Spawn("j1")>>), S(<<WaitJob("j1")>>)>>, G("bg", <<S(<<Read>>)>>)),
  Sh("bg-sleep-waitid", "sleep 100 & wait $!",
     <<S(<<Spawn("j1")>>), S(<<WaitJob("j1")>>)>>, G("bg", <<S(<<Exec(TRUE)>>)>>)),
  Sh("procin-unread-wait",     ": <(echo hi); wait",
     <<S(<<Spawn("j1")>>), S(<<WaitJob("j1")>>)>>, G("procsubst", <<Forced(FifoOpen("f", "w")), P>>)),
  Sh("procout-unwritten-wait", ": >(read y); wait",
     <<S(<<Spawn("j1")>>), S(<<WaitJob("j1")>>)>>, G("procsubst", <<Forced(FifoOpen("f", "r")), S(<<Read>>)>>)),
  Sh("procin-unread-loop",     ": <(echo hi); while :; do :; done",
     <<S(<<Spawn("j1")>>), Loop>>, G("procsubst", <<Forced(FifoOpen("f", "w")), P>>)),
  Sh("pipe-sleep-read", "sleep 100 | read x",
     <<S(<<Spawn("j1"), NPoll, Read, PipeJoin("j1")>>)>>, G("pipe", <<S(<<Exec(TRUE)>>)>>)),
  Sh("pipe-read-sleep", "read x | sleep 100",
     <<S(<<Spawn("j1"), NPoll, Exec(TRUE), PipeJoin("j1")>>)>>, G("pipe", <<S(<<Read>>)>>)),
  Sh("pipe-loop-read",  "while :; do :; done | read x",
     <<S(<<Spawn("j1"), NPoll, Read, PipeJoin("j1")>>)>>, G("pipe", <<Loop>>)),
  Sh("subshell-loop",   "( while :; do :; done )",
     <<P, Loop>>, NoG),
  \* the same loop in a subshell whose status the parent inspects or discards: negated, as the condition of
  \* if / until, and inside a C-style loop, which itself only ends on a fatal status
  Sh("not-subshell-loop",   "! ( while :; do :; done )",
     <<P, Loop>>, NoG),
  Sh("if-subshell-loop",    "if ( while :; do :; done ); then :; fi",
     <<P, P, Loop>>, NoG),
  Sh("until-subshell-loop", "until ( while :; do :; done ); do :; done",
     <<P, P, Loop>>, NoG),
  Sh("cfor-not-subshell-loop", "for ((;;)); do ! ( while :; do :; done ); done",
     <<P, P, Loop>>, NoG),
  Sh("cfor-if-subshell-sleep", "for ((;;)); do if ( sleep 100 ); then :; fi; done",
     <<P, S(<<NPoll, NPoll, NPoll, Exec(TRUE)>>)>>, NoG),
  Sh("cmdsubst-read",   ": \"$(read x)\"",
     <<S(<<NPoll, Read>>)>>, NoG),
  Sh("subshell-bg-sleep-wait", "( sleep 100 & wait )",
     <<S(<<NPoll, Spawn("j1"), NPoll, WaitJob("j1")>>)>>, G("bg", <<S(<<Exec(TRUE)>>)>>)),
  Sh("read-procin-loop", "read x < <(while :; do :; done)",
     <<S(<<Spawn("j1"), FifoOpen("f", "r"), Read>>)>>, G("procsubst", <<Forced(FifoOpen("f", "w")), Loop>>)),
  \* trap bodies: an EXIT trap runs when the program ends -- also when it ends because of Cancel --, an ERR
  \* trap when a command fails; their statements poll the context like any other statement, so Cancel
  \* before the trap makes the trap's statements be skipped and Cancel during the trap stops it
  ShT("trap-exit-loop",  "trap 'while :; do :; done' EXIT; while :; do :; done",
     <<P, Loop, Loop>>, 3),
  ShT("trap-exit-exit",  "trap 'while :; do :; done' EXIT; exit 3",
     <<P, P, Loop>>, 3),
  ShT("trap-exit-loop0", "trap 'while :; do :; done' EXIT; :",
     <<P, P, Loop>>, 3),
  ShT("trap-err-loop",   "trap 'until false; do :; done' ERR; false",
     <<P, P, Loop>>, 3),
  ShT("trap-exit-read",  "trap 'read x' EXIT; exit 3",
     <<P, P, S(<<Read>>)>>, 3),
  ShT("trap-err-sleep",  "trap 'sleep 100' ERR; false",
     <<P, P, S(<<Exec(TRUE)>>)>>, 3)
}

Gs == {"main", "j1"}
Prog(g) == shape.gs[g].prog
Item(g) == Prog(g)[pc[g]]
AtEnd(g) == pc[g] > Len(Prog(g))
\* the effect goroutine g is at, if any
InEff(g) == ~AtEnd(g) /\ (Item(g).t = "forced" \/ ec[g] > 0)
Eff(g) == IF Item(g).t = "forced" THEN Item(g).eff[1] ELSE Item(g).eff[ec[g]]
Other(side) == IF side = "r" THEN "w" ELSE "r"

\* ---------------------------------------------------------------- steps
\* An observable step is allowed before the cancellation point or after Cancel has fired; at the
\* point itself only Cancel is enabled.  (In trace mode the log decides.)
MayStep == Mode = "trace" \/ cancelled \/ steps < cancelAt
Obs(g, point) == /\ MayStep
                 /\ last' = <<g, point>>
                 /\ steps' = IF cancelled \/ Mode = "trace" THEN steps ELSE steps + 1
Silent(g) == last' = <<g, "silent">> /\ steps' = steps

\* move goroutine g past its current effect (or past the poll of a statement without effects)
Advance(g) ==
  IF InEff(g) /\ Item(g).t = "stmt" /\ ec[g] < Len(Item(g).eff)
  THEN ec' = [ec EXCEPT ![g] = ec[g] + 1] /\ pc' = pc
  ELSE ec' = [ec EXCEPT ![g] = 0] /\ pc' = [pc EXCEPT ![g] = pc[g] + 1]

\* index of the next effect of the current statement that runs even when cancelled (0 = none)
NextForced(g) == LET effs == Item(g).eff
                     cands == {k \in (ec[g] + 1)..Len(effs) : effs[k].e = "pipejoin"} IN
                 IF cands = {} THEN 0 ELSE CHOOSE k \in cands : \A m \in cands : k <= m
\* give up the rest of the current statement (the context was found cancelled)
Abandon(g) == IF NextForced(g) = 0
              THEN pc' = [pc EXCEPT ![g] = pc[g] + 1] /\ ec' = [ec EXCEPT ![g] = 0]
              ELSE pc' = pc /\ ec' = [ec EXCEPT ![g] = NextForced(g)]
InTrap(g) == g = "main" /\ shape.trapfrom > 0 /\ pc[g] >= shape.trapfrom
See(g) == seen' = IF g = "main" /\ cancelled
                  THEN (IF ~InTrap(g) THEN "yes" ELSE IF seen = "no" THEN "trap" ELSE seen)
                  ELSE seen

Cancel ==
  /\ Mode = "mc" => steps = cancelAt
  /\ ~cancelled /\ ~returned
  /\ cancelled' = TRUE /\ last' = <<"env", "cancel">> /\ steps' = steps
  /\ UNCHANGED <<shape, cancelAt, returned, gst, pc, ec, ph, fifo, proc, seen>>

Start(g) ==                                            \* the new goroutine begins to run
  /\ gst[g] = "new" /\ gst' = [gst EXCEPT ![g] = "run"] /\ Obs(g, "start")
  /\ UNCHANGED <<shape, cancelAt, cancelled, returned, pc, ec, ph, fifo, proc, seen>>

Poll(g) ==                                             \* Runner.stmt entry: hook, then stop(ctx)
  /\ gst[g] = "run" /\ ~AtEnd(g) /\ ec[g] = 0 /\ Item(g).t = "stmt" /\ Obs(g, "stmt") /\ See(g)
  /\ IF cancelled \/ Len(Item(g).eff) = 0
     THEN pc' = [pc EXCEPT ![g] = pc[g] + 1] /\ ec' = ec
     ELSE ec' = [ec EXCEPT ![g] = 1] /\ pc' = pc
  /\ UNCHANGED <<shape, cancelAt, cancelled, returned, gst, ph, fifo, proc>>

\* Runner.cmd polls the context once more before the command does anything (no hook there): a Cancel
\* that falls between the two polls makes the statement give up before its first effect.  The same
\* holds for a nested statement right after its own poll.
AbandonStmt(g) ==
  /\ cancelled /\ gst[g] = "run" /\ ~AtEnd(g) /\ Item(g).t = "stmt" /\ ph[g] = "idle"
  /\ \/ ec[g] = 1
     \/ ec[g] > 1 /\ Item(g).eff[ec[g] - 1].e \in {"npoll", "fifoopen"}   \* (redirections are opened before Runner.cmd polls)
  /\ Eff(g).e # "pipejoin"
  /\ Silent(g) /\ Abandon(g) /\ See(g)
  /\ UNCHANGED <<shape, cancelAt, cancelled, returned, gst, ph, fifo, proc>>

NestedPoll(g) ==                                       \* Runner.stmt entry of a nested statement
  /\ gst[g] = "run" /\ InEff(g) /\ Eff(g).e = "npoll" /\ ph[g] = "idle" /\ Obs(g, "stmt") /\ See(g)
  /\ IF cancelled THEN Abandon(g) ELSE Advance(g)
  /\ UNCHANGED <<shape, cancelAt, cancelled, returned, gst, ph, fifo, proc>>

LoopPoll(g) ==                                         \* a statement of `while :; do :; done`
  /\ gst[g] = "run" /\ ~AtEnd(g) /\ Item(g).t = "loop" /\ Obs(g, "stmt") /\ See(g)
  /\ pc' = IF cancelled THEN [pc EXCEPT ![g] = pc[g] + 1] ELSE pc
  /\ UNCHANGED <<shape, cancelAt, cancelled, returned, gst, ec, ph, fifo, proc>>
LoopExit(g) ==                                         \* the loop head polls the context too (no hook there)
  /\ cancelled /\ gst[g] = "run" /\ ~AtEnd(g) /\ Item(g).t = "loop" /\ Silent(g) /\ See(g)
  /\ pc' = [pc EXCEPT ![g] = pc[g] + 1]
  /\ UNCHANGED <<shape, cancelAt, cancelled, returned, gst, ec, ph, fifo, proc>>

SpawnStep(g) ==                                        \* go func() { ... }()   (no hook of its own)
  /\ gst[g] = "run" /\ InEff(g) /\ Eff(g).e = "spawn" /\ Silent(g)
  /\ gst' = [gst EXCEPT ![Eff(g).g] = "new"] /\ Advance(g)
  /\ UNCHANGED <<shape, cancelAt, cancelled, returned, ph, fifo, proc, seen>>

ReadEnter(g) ==
  /\ gst[g] = "run" /\ InEff(g) /\ Eff(g).e = "read" /\ ph[g] = "idle" /\ Obs(g, "read.before")
  /\ ph' = [ph EXCEPT ![g] = "in"]
  /\ UNCHANGED <<shape, cancelAt, cancelled, returned, gst, pc, ec, fifo, proc, seen>>
ReadExit(g) ==                                         \* nobody ever writes: only the deadline set on Cancel wakes it
  /\ gst[g] = "run" /\ InEff(g) /\ Eff(g).e = "read" /\ ph[g] = "in" /\ cancelled /\ Obs(g, "read.after")
  /\ ph' = [ph EXCEPT ![g] = "idle"] /\ Advance(g) /\ See(g)
  /\ UNCHANGED <<shape, cancelAt, cancelled, returned, gst, fifo, proc>>

ReadDataEnter(g) ==
  /\ gst[g] = "run" /\ InEff(g) /\ Eff(g).e = "readdata" /\ ph[g] = "idle" /\ Obs(g, "read.before")
  /\ ph' = [ph EXCEPT ![g] = "in"]
  /\ UNCHANGED <<shape, cancelAt, cancelled, returned, gst, pc, ec, fifo, proc, seen>>
ReadDataExit(g) ==                                     \* the line arrives (or the stage died: EOF), or the deadline set on Cancel
  /\ gst[g] = "run" /\ InEff(g) /\ Eff(g).e = "readdata" /\ ph[g] = "in"
  /\ cancelled \/ proc[Eff(g).g] \in {"up", "int", "dead"} \/ gst[Eff(g).g] = "done"
  /\ Obs(g, "read.after")
  /\ ph' = [ph EXCEPT ![g] = "idle"] /\ Advance(g) /\ See(g)
  /\ UNCHANGED <<shape, cancelAt, cancelled, returned, gst, fifo, proc>>

ExecEnter(g) ==
  /\ gst[g] = "run" /\ InEff(g) /\ Eff(g).e = "exec" /\ ph[g] = "idle" /\ Obs(g, "exec.before")
  /\ ph' = [ph EXCEPT ![g] = "in"] /\ proc' = [proc EXCEPT ![g] = "run"]
  /\ UNCHANGED <<shape, cancelAt, cancelled, returned, gst, pc, ec, fifo, seen>>
Ready(g) ==                                            \* environment: the child has started up
  /\ proc[g] = "run" /\ Silent("env") /\ proc' = [proc EXCEPT ![g] = "up"]
  /\ UNCHANGED <<shape, cancelAt, cancelled, returned, gst, pc, ec, ph, fifo, seen>>
Interrupt(g) ==                                        \* environment: Cancel sends os.Interrupt to the child;
  /\ cancelled /\ proc[g] \in {"run", "up"} /\ Silent("env")   \* only a child that is up can ignore it
  /\ proc' = [proc EXCEPT ![g] = IF Eff(g).obeys \/ proc[g] = "run" THEN "dead" ELSE "int"]
  /\ UNCHANGED <<shape, cancelAt, cancelled, returned, gst, pc, ec, ph, fifo, seen>>
Kill(g) ==                                             \* environment: killTimeout later the child is killed
  /\ proc[g] = "int" /\ Silent("env") /\ proc' = [proc EXCEPT ![g] = "dead"]
  /\ UNCHANGED <<shape, cancelAt, cancelled, returned, gst, pc, ec, ph, fifo, seen>>
ExecExit(g) ==
  /\ gst[g] = "run" /\ InEff(g) /\ Eff(g).e = "exec" /\ ph[g] = "in" /\ proc[g] = "dead" /\ Obs(g, "exec.after")
  /\ ph' = [ph EXCEPT ![g] = "idle"] /\ proc' = [proc EXCEPT ![g] = "none"] /\ Advance(g) /\ See(g)
  /\ UNCHANGED <<shape, cancelAt, cancelled, returned, gst, fifo>>

WaitEnter(g) ==
  /\ gst[g] = "run" /\ InEff(g) /\ Eff(g).e = "waitjob" /\ ph[g] = "idle" /\ Obs(g, "wait.before")
  /\ ph' = [ph EXCEPT ![g] = "in"]
  /\ UNCHANGED <<shape, cancelAt, cancelled, returned, gst, pc, ec, fifo, proc, seen>>
WaitExit(g) ==                                         \* (does not look at the context: seen is unchanged)
  /\ gst[g] = "run" /\ InEff(g) /\ Eff(g).e = "waitjob" /\ ph[g] = "in" /\ gst[Eff(g).g] = "done"
  /\ Obs(g, "wait.after")
  /\ ph' = [ph EXCEPT ![g] = "idle"] /\ Advance(g)
  /\ UNCHANGED <<shape, cancelAt, cancelled, returned, gst, fifo, proc, seen>>

\* a cancellation path of its own for `wait` (allowed by the contract, and what the proposed fix adds)
WaitAbort(g) ==
  /\ WaitCancellable /\ cancelled
  /\ gst[g] = "run" /\ InEff(g) /\ Eff(g).e = "waitjob" /\ ph[g] = "in"
  /\ Obs(g, "wait.after") /\ See(g)
  /\ ph' = [ph EXCEPT ![g] = "idle"] /\ Abandon(g)
  /\ UNCHANGED <<shape, cancelAt, cancelled, returned, gst, fifo, proc>>

JoinEnter(g) ==                                        \* pr.Close(); wg.Wait()
  /\ gst[g] = "run" /\ InEff(g) /\ Eff(g).e = "pipejoin" /\ ph[g] = "idle"
  /\ IF gst[Eff(g).g] = "none"                         \* the pipeline was given up before it spawned anything
     THEN Silent(g) /\ Advance(g) /\ ph' = ph
     ELSE Obs(g, "pipe.wait") /\ ph' = [ph EXCEPT ![g] = "in"] /\ UNCHANGED <<pc, ec>>
  /\ UNCHANGED <<shape, cancelAt, cancelled, returned, gst, fifo, proc, seen>>
JoinExit(g) ==
  /\ gst[g] = "run" /\ InEff(g) /\ Eff(g).e = "pipejoin" /\ ph[g] = "in" /\ gst[Eff(g).g] = "done" /\ Silent(g)
  /\ ph' = [ph EXCEPT ![g] = "idle"] /\ Advance(g)
  /\ See(g)                                             \* a fatal error of a stage is passed on to the pipeline
  /\ UNCHANGED <<shape, cancelAt, cancelled, returned, gst, fifo, proc>>

FifoEnter(g) ==
  /\ gst[g] = "run" /\ InEff(g) /\ Eff(g).e = "fifoopen" /\ ph[g] = "idle" /\ Obs(g, "fifo.open")
  /\ ph' = [ph EXCEPT ![g] = "in"] /\ fifo' = [fifo EXCEPT ![Eff(g).f][Eff(g).side] = "wait"]
  /\ UNCHANGED <<shape, cancelAt, cancelled, returned, gst, pc, ec, proc, seen>>
\* open(2) returns once both ends are there; only the process substitution's own goroutine has a
\* hook after the call (the parent's open is followed by its next event)
FifoExit(g) ==
  /\ gst[g] = "run" /\ InEff(g) /\ Eff(g).e = "fifoopen" /\ ph[g] = "in"
  /\ fifo[Eff(g).f][Other(Eff(g).side)] \in {"wait", "open"}
  /\ IF Item(g).t = "forced" THEN Obs(g, "fifo.opened") ELSE Silent(g)
  /\ ph' = [ph EXCEPT ![g] = "idle"] /\ fifo' = [fifo EXCEPT ![Eff(g).f][Eff(g).side] = "open"] /\ Advance(g)
  /\ UNCHANGED <<shape, cancelAt, cancelled, returned, gst, proc, seen>>
\* the contract's cancellation path: the open fails, the goroutine gives up its program
FifoAbort(g) ==
  /\ FifoCancellable /\ cancelled
  /\ gst[g] = "run" /\ InEff(g) /\ Eff(g).e = "fifoopen" /\ ph[g] = "in"
  /\ fifo[Eff(g).f][Other(Eff(g).side)] = "no"
  /\ IF Item(g).t = "forced" THEN Obs(g, "fifo.opened") ELSE Silent(g)
  /\ ph' = [ph EXCEPT ![g] = "idle"] /\ fifo' = [fifo EXCEPT ![Eff(g).f][Eff(g).side] = "no"]
  /\ pc' = [pc EXCEPT ![g] = Len(Prog(g)) + 1] /\ ec' = [ec EXCEPT ![g] = 0] /\ See(g)
  /\ UNCHANGED <<shape, cancelAt, cancelled, returned, gst, proc>>

End(g) ==
  /\ gst[g] = "run" /\ AtEnd(g)
  /\ gst' = [gst EXCEPT ![g] = "done"]
  /\ IF g = "main" THEN returned' = TRUE /\ Obs(g, "return") ELSE returned' = returned /\ Obs(g, "end")
  /\ UNCHANGED <<shape, cancelAt, cancelled, pc, ec, ph, fifo, proc, seen>>

\* Trace mode only: the real program has more statements than the abstract one (the harness's label
\* statement, the statements of a nested ( ), the two statements of a loop turn).  Such a poll changes
\* nothing -- except that, once the context is cancelled, the statement that contains it is given up.
IdlePoll(g) ==
  /\ Mode = "trace" /\ gst[g] = "run" /\ ph[g] = "idle" /\ Obs(g, "stmt") /\ See(g)
  /\ \/ UNCHANGED <<pc, ec>>
     \/ cancelled /\ ~AtEnd(g) /\ ec[g] > 0 /\ Item(g).t = "stmt" /\ Eff(g).e # "pipejoin" /\ Abandon(g)
  /\ UNCHANGED <<shape, cancelAt, cancelled, returned, gst, ph, fifo, proc>>

GStep(g) == \/ Start(g) \/ IdlePoll(g) \/ Poll(g) \/ AbandonStmt(g) \/ NestedPoll(g) \/ LoopPoll(g) \/ LoopExit(g)
            \/ SpawnStep(g) \/ ReadEnter(g) \/ ReadExit(g) \/ ReadDataEnter(g) \/ ReadDataExit(g)
            \/ ExecEnter(g) \/ ExecExit(g) \/ WaitEnter(g) \/ WaitExit(g) \/ WaitAbort(g) \/ JoinEnter(g) \/ JoinExit(g)
            \/ FifoEnter(g) \/ FifoExit(g) \/ FifoAbort(g) \/ End(g)
Env == \E g \in Gs : Ready(g) \/ Interrupt(g) \/ Kill(g)
Next == Cancel \/ Env \/ \E g \in Gs : GStep(g)

InitWith(sh) ==
  /\ shape = sh
  /\ steps = 0 /\ cancelled = FALSE /\ returned = FALSE
  /\ gst = [g \in Gs |-> IF g = "main" THEN "run" ELSE "none"]
  /\ pc = [g \in Gs |-> 1] /\ ec = [g \in Gs |-> 0] /\ ph = [g \in Gs |-> "idle"]
  /\ fifo = [f \in {"f"} |-> [r |-> "no", w |-> "no"]]
  /\ proc = [g \in Gs |-> "none"]
  /\ seen = "no"
  /\ last = <<"env", "init">>
Init == /\ \E sh \in Shapes : InitWith(sh)
        /\ cancelAt \in 0..MaxCancel

Fairness == /\ WF_vars(Cancel) /\ WF_vars(Env)
            /\ \A g \in Gs : WF_vars(GStep(g))
Spec == Init /\ [][Next]_vars /\ Fairness

\* ---------------------------------------------------------------- what TLC checks
Live == cancelled ~> returned
\* safety half: after Cancel the system is never stuck before main has returned
NoStuck == (cancelled /\ ~returned) => ENABLED Next
\* after main has polled a cancelled context it starts nothing new
TypeOK == /\ \A g \in Gs : gst[g] \in {"none", "new", "run", "done"} /\ ph[g] \in {"idle", "in"}
          /\ steps \in 0..(MaxCancel + 1)
          /\ returned => gst["main"] = "done"
\* a wait can only return after its job has ended, an open only with a peer (or by the contract's abort)
WakeSound == /\ \A g \in Gs : (proc[g] # "none") => (gst[g] = "run" /\ ph[g] = "in" /\ Eff(g).e = "exec")
             /\ \A f \in DOMAIN fifo : (fifo[f].r = "open") => (fifo[f].w \in {"wait", "open"})

\* "... makes Run return ... with an error": Run reports an error iff main observed the cancellation.
\* By the contract every poll and every blocking operation woken by Cancel reports it.  interp restores the
\* exit status after a trap body ("traps on EXIT or ERR should not modify the result", Runner.trapCallback),
\* which also discards a cancellation observed only inside the trap: Dev_TrapSwallowsCancel.
Dev_TrapSwallowsCancel == returned /\ cancelled /\ seen = "trap"

\* Trigger class of the model's self-test (no cancellation path at all): a process substitution whose FIFO nobody else opens, waited for
HasFifoPeer(sh, side) == \E g \in Gs : \E i \in 1..Len(sh.gs[g].prog) :
                            \E k \in 1..Len(sh.gs[g].prog[i].eff) :
                               sh.gs[g].prog[i].eff[k].e = "fifoopen" /\ sh.gs[g].prog[i].eff[k].side = side
Waited(sh) == \E i \in 1..Len(sh.gs["main"].prog) : \E k \in 1..Len(sh.gs["main"].prog[i].eff) :
                 sh.gs["main"].prog[i].eff[k].e = "waitjob"
Trigger(sh) == /\ sh.gs["j1"].kind = "procsubst"
               /\ ~(HasFifoPeer(sh, "r") /\ HasFifoPeer(sh, "w"))
               /\ Waited(sh)
StuckOnlyIfTrigger == (cancelled /\ ~returned /\ ~ENABLED Next) => Trigger(shape)

\* ---------------------------------------------------------------- emission
EmitShape == (steps = 0 /\ ~cancelled /\ cancelAt = 0 /\ last = <<"env", "init">>) =>
  PrintT(<<"SHAPE", ToJson([id |-> shape.id, txt |-> shape.txt, trigger |-> Trigger(shape),
                            jobkind |-> shape.gs["j1"].kind])>>)
=============================================================================
