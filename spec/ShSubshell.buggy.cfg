SPECIFICATION Spec
CONSTANTS MaxLen = 1
  Buggy = TRUE
  Wide = FALSE
INVARIANTS Isolation
