SPECIFICATION Spec
CONSTANTS MaxLen = 1
  Buggy = TRUE
  Wide = FALSE
  Replay = FALSE
INVARIANTS Isolation
