SPECIFICATION Spec
CONSTANTS Family = "share"
  MaxJobs = 1
  Buggy = TRUE
INVARIANTS TriggerSound EmitVec
