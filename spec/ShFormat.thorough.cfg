SPECIFICATION Spec
CONSTANTS Families = {"dir", "reuse", "esc", "echo"}
  MaxFlags = 2
  MaxTail = 5
  ReuseUnits = 3
  ReuseArgs = 4
  ReuseSum = 5
  EchoMaxWords = 3
  MixUnits = 6
  MixArgs = 4
  Rich = TRUE
INVARIANTS IdentityLaw WidthLaw EchoPlainLaw EmitInv
