------------------------------- MODULE ShRead -------------------------------
(* C23: the `read` builtin (bash 5.2: builtins/read.def, POSIX read).

   Two stages, as in the shell:
     1. a byte-at-a-time line reader (ReadLine): escape flag, backslash-newline continuation,
        an unescaped newline ends the line (status 0, the rest of the input stays unread),
        end of input ends it too (status 1, what was read is still assigned); with -r a backslash
        is an ordinary byte.  The result is a sequence of items [c, e]: e marks a character that
        was escaped and therefore is never a delimiter and never trimmed.
     2. SplitRead(items, IFS, n): leading IFS white space is dropped; every name but the last gets
        one word (a word ends at a delimiter: IFS white space, or one non-white-space IFS character
        with the IFS white space around it); the last name gets the rest of the line with trailing
        IFS white space removed -- except that when the rest is exactly one word (followed by at most
        its delimiter) it gets that word; missing words are empty.  Bare `read` assigns the line to
        REPLY untrimmed; `read -a` assigns every word (empty ones included) to an array.

   Style F: the state is the input under construction (IFS choice, then symbols), then the mode.
   Laws relate the modes to each other.  Named deviation (what expand.ReadFields is known to
   compute instead): DevFields. *)
EXTENDS Integers, Sequences, FiniteSets, TLC, Json, ShText

CONSTANTS
  MaxLen,     \* symbols in the input stream
  IfsSet,     \* indices into IfsMenu
  ModeSet,    \* subset of {"reply","n1","n2","n3","n4","array"}
  AlphaN      \* size of the per-IFS alphabet (<= 6)

VARIABLES ifsI, inp, phase, mode, raw
vars == <<ifsI, inp, phase, mode, raw>>

\* IFS choices with the input alphabet used for each (always: a letter, backslash, newline, and
\* the interesting delimiter characters for this IFS).
IfsMenu == <<
  [set |-> FALSE, val |-> <<>>,                 al |-> <<"a", " ", "\\", "NL", "TAB", ":">>],
  [set |-> TRUE,  val |-> <<>>,                 al |-> <<"a", " ", "\\", "NL", ":", "TAB">>],
  [set |-> TRUE,  val |-> <<" ">>,              al |-> <<"a", " ", "\\", "NL", "TAB", ":">>],
  [set |-> TRUE,  val |-> <<" ", "TAB", "NL">>, al |-> <<"a", " ", "\\", "NL", "TAB", ":">>],
  [set |-> TRUE,  val |-> <<":">>,              al |-> <<"a", ":", "\\", "NL", " ", "b">>],
  [set |-> TRUE,  val |-> <<":", " ">>,         al |-> <<"a", ":", "\\", "NL", " ", "TAB">>],
  [set |-> TRUE,  val |-> <<" ", ":">>,         al |-> <<"a", ":", "\\", "NL", " ", "b">>],
  [set |-> TRUE,  val |-> <<"a">>,              al |-> <<"a", "b", "\\", "NL", " ", ":">>],
  [set |-> TRUE,  val |-> <<"eacute">>,         al |-> <<"a", "eacute", "\\", "NL", " ", ":">>],
  [set |-> TRUE,  val |-> <<":", "TAB">>,       al |-> <<"a", ":", "\\", "NL", "TAB", " ">>] >>
Alpha(i) == SubSeq(IfsMenu[i].al, 1, AlphaN)

IsWs(c) == c \in {" ", "TAB", "NL"}
Range(s) == { s[i] : i \in 1..Len(s) }
IfsChars(ifs) == IF ifs.set THEN Range(ifs.val) ELSE {" ", "TAB", "NL"}

-----------------------------------------------------------------------------
(* Stage 1: the line reader.  State: position, escape flag, items so far.
   Result: [items, used (symbols consumed, including the newline), status, dangling]
   dangling = the input ended right after an unescaped backslash (bash 5.2 leaks its internal
   escape byte \001 into the value then; out of scope, DESIGN section 3).
   Emit!mbquirk: an *escaped* multi-byte IFS character is protected by bash only in its first
   byte; such vectors are compared with the specification only. *)
It(c, e) == [c |-> c, e |-> e]

RECURSIVE RL(_, _, _, _, _)
RL(s, i, esc, items, r) ==
  IF i > Len(s) THEN [items |-> items, used |-> Len(s), status |-> 1, dangling |-> esc]
  ELSE LET c == s[i] IN
    IF r THEN (IF c = "NL" THEN [items |-> items, used |-> i, status |-> 0, dangling |-> FALSE]
               ELSE RL(s, i+1, FALSE, Append(items, It(c, FALSE)), r))
    ELSE IF esc THEN (IF c = "NL" THEN RL(s, i+1, FALSE, items, r)           \* continuation
                      ELSE RL(s, i+1, FALSE, Append(items, It(c, TRUE)), r))  \* escaped character
    ELSE IF c = "\\" THEN RL(s, i+1, TRUE, items, r)
    ELSE IF c = "NL" THEN [items |-> items, used |-> i, status |-> 0, dangling |-> FALSE]
    ELSE RL(s, i+1, FALSE, Append(items, It(c, FALSE)), r)
ReadLine(s, r) == RL(s, 1, FALSE, <<>>, r)

\* The line as ReadFields receives it from the builtin: continuations removed, backslashes kept.
RECURSIVE RawLine(_, _, _, _)
RawLine(s, i, esc, r) ==
  IF i > Len(s) THEN <<>>
  ELSE LET c == s[i] IN
    IF r THEN (IF c = "NL" THEN <<>> ELSE <<c>> \o RawLine(s, i+1, FALSE, r))
    ELSE IF esc THEN (IF c = "NL" THEN RawLine(s, i+1, FALSE, r) ELSE <<"\\", c>> \o RawLine(s, i+1, FALSE, r))
    ELSE IF c = "\\" THEN RawLine(s, i+1, TRUE, r)
    ELSE IF c = "NL" THEN <<>>
    ELSE <<c>> \o RawLine(s, i+1, FALSE, r)

-----------------------------------------------------------------------------
(* Stage 2: splitting *)
Text(items) == [k \in 1..Len(items) |-> items[k].c]
Delim(it, IC)  == ~it.e /\ it.c \in IC
WsDelim(it, IC) == Delim(it, IC) /\ IsWs(it.c)

RECURSIVE DropLeadWs(_, _)
DropLeadWs(s, IC) == IF s # <<>> /\ WsDelim(s[1], IC) THEN DropLeadWs(Tail(s), IC) ELSE s
RECURSIVE DropTrailWs(_, _)
DropTrailWs(s, IC) == IF s # <<>> /\ WsDelim(s[Len(s)], IC) THEN DropTrailWs(SubSeq(s, 1, Len(s)-1), IC) ELSE s
\* bash strips trailing IFS white space from the rest of the line even when it was escaped
\* (`a b\ ` with one name gives <a b>; dash keeps it).  bash is the reference of this property.
RECURSIVE DropTrailWsAny(_, _)
DropTrailWsAny(s, IC) == IF s # <<>> /\ s[Len(s)].c \in IC /\ IsWs(s[Len(s)].c)
                         THEN DropTrailWsAny(SubSeq(s, 1, Len(s)-1), IC) ELSE s
RECURSIVE WordLen(_, _)
WordLen(s, IC) == IF s = <<>> \/ Delim(s[1], IC) THEN 0 ELSE 1 + WordLen(Tail(s), IC)

\* One word and what follows its delimiter.  s has no leading IFS white space.
GetWord(s, IC) ==
  LET n  == WordLen(s, IC)
      r  == SubSeq(s, n+1, Len(s))
      r1 == DropLeadWs(r, IC)
      r2 == IF r1 # <<>> /\ Delim(r1[1], IC) THEN DropLeadWs(Tail(r1), IC) ELSE r1
  IN [w |-> SubSeq(s, 1, n), rest |-> r2]

\* read -a: every word
RECURSIVE WordsFrom(_, _)
WordsFrom(s, IC) == IF s = <<>> THEN <<>>
                    ELSE LET g == GetWord(s, IC) IN <<Text(g.w)>> \o WordsFrom(g.rest, IC)
Words(items, IC) == WordsFrom(DropLeadWs(items, IC), IC)

\* read x1 .. xn
RECURSIVE Assign(_, _, _)
Assign(s, IC, n) ==
  IF n = 1 THEN
    (IF s = <<>> THEN << <<>> >>
     ELSE LET g == GetWord(s, IC) IN
          IF g.rest = <<>> THEN <<Text(g.w)>> ELSE <<Text(DropTrailWsAny(s, IC))>>)
  ELSE IF s = <<>> THEN << <<>> >> \o Assign(s, IC, n-1)
  ELSE LET g == GetWord(s, IC) IN <<Text(g.w)>> \o Assign(g.rest, IC, n-1)
Vars(items, IC, n) == Assign(DropLeadWs(items, IC), IC, n)

NamesOf(m) == CASE m = "n1" -> 1 [] m = "n2" -> 2 [] m = "n3" -> 3 [] m = "n4" -> 4 [] OTHER -> 0

\* values assigned, as a sequence of texts: REPLY / the names in order / the array elements
Values(items, ifs, m) ==
  LET IC == IfsChars(ifs) IN
  IF m = "reply" THEN <<Text(items)>>
  ELSE IF m = "array" THEN Words(items, IC)
  ELSE Vars(items, IC, NamesOf(m))

-----------------------------------------------------------------------------
(* Named deviation: what expand.ReadFields (expand/expand.go) is known to compute.  It treats every
   unescaped IFS character as a separator of the same kind: fields are the maximal runs of other
   characters (so no empty fields); with one name the line loses only leading/trailing IFS white
   space; with fewer names than fields the last name runs to the end of the last field.  (It also
   keeps escaped trailing white space where bash strips it: trigger class Emit!esctrail.) *)
RECURSIVE Runs(_, _, _, _)    \* positions [lo, hi] of maximal runs of non-delimiters
Runs(s, i, IC, start) ==
  IF i > Len(s) THEN (IF start > 0 THEN << <<start, Len(s)>> >> ELSE <<>>)
  ELSE IF Delim(s[i], IC) THEN (IF start > 0 THEN << <<start, i-1>> >> ELSE <<>>) \o Runs(s, i+1, IC, 0)
  ELSE Runs(s, i+1, IC, IF start > 0 THEN start ELSE i)
DevFields(items, ifs, m) ==
  LET IC == IfsChars(ifs)
      rs == Runs(items, 1, IC, 0)
      n  == NamesOf(m)
      tx(lo, hi) == Text(SubSeq(items, lo, hi))
      pad(fs, k) == fs \o [j \in 1..(k - Len(fs)) |-> <<>>]
  IN IF m = "reply" THEN <<Text(items)>>
     ELSE IF rs = <<>> THEN (IF m = "array" THEN <<>> ELSE pad(<<>>, n))
     ELSE IF m = "array" THEN [k \in 1..Len(rs) |-> tx(rs[k][1], rs[k][2])]
     ELSE IF n = 1 THEN <<Text(DropTrailWs(DropLeadWs(items, IC), IC))>>
     ELSE IF n < Len(rs) THEN [k \in 1..n |-> IF k < n THEN tx(rs[k][1], rs[k][2]) ELSE tx(rs[n][1], rs[Len(rs)][2])]
     ELSE pad([k \in 1..Len(rs) |-> tx(rs[k][1], rs[k][2])], n)

-----------------------------------------------------------------------------
(* The input builder *)
Init == /\ ifsI \in IfsSet /\ inp = <<>> /\ phase = "in" /\ mode = "none" /\ raw = FALSE

AddSym == /\ phase = "in" /\ Len(inp) < MaxLen
          /\ \E k \in 1..AlphaN : inp' = Append(inp, Alpha(ifsI)[k])
          /\ UNCHANGED <<ifsI, phase, mode, raw>>

HasBs(s) == \E i \in 1..Len(s) : s[i] = "\\"
Finish == /\ phase = "in"
          /\ \E m \in ModeSet : mode' = m
          /\ \E r \in (IF HasBs(inp) THEN {TRUE, FALSE} ELSE {FALSE}) : raw' = r
          /\ phase' = "done" /\ UNCHANGED <<ifsI, inp>>

Next == AddSym \/ Finish
Spec == Init /\ [][Next]_vars

-----------------------------------------------------------------------------
IsVec == phase = "done"
Ifs == [set |-> IfsMenu[ifsI].set, val |-> IfsMenu[ifsI].val]

\* L1: the reader consumes a prefix of the input; status 0 only at a newline, status 1 only at
\*     the end of the input; with -r the line ends at the first newline
FirstNL(s) == IF \E i \in 1..Len(s) : s[i] = "NL"
              THEN CHOOSE i \in 1..Len(s) : s[i] = "NL" /\ \A j \in 1..(i-1) : s[j] # "NL" ELSE 0
L_Reader == IsVec => LET rl == ReadLine(inp, raw) IN
              /\ rl.used <= Len(inp)
              /\ (rl.status = 0 => rl.used >= 1 /\ inp[rl.used] = "NL")
              /\ (rl.status = 1 => rl.used = Len(inp))
              /\ (raw => (IF FirstNL(inp) > 0 THEN rl.status = 0 /\ rl.used = FirstNL(inp) ELSE rl.status = 1))
              /\ Len(rl.items) <= rl.used
\* L2: without a backslash -r makes no difference
L_Raw == (IsVec /\ ~HasBs(inp)) => ReadLine(inp, TRUE) = ReadLine(inp, FALSE)
\* L3: when the line has at most n words, the names get exactly the words of `read -a`, padded
L_ArrayVsVars == (IsVec /\ NamesOf(mode) > 0) =>
     LET it == ReadLine(inp, raw).items  IC == IfsChars(Ifs)  n == NamesOf(mode)
         ws == Words(it, IC)  vs == Vars(it, IC, n) IN
     /\ Len(vs) = n
     /\ (Len(ws) <= n => /\ \A k \in 1..Len(ws) : vs[k] = ws[k]
                         /\ \A k \in (Len(ws)+1)..n : vs[k] = <<>>)
     /\ (Len(ws) > n => \A k \in 1..(n-1) : vs[k] = ws[k])
\* L4: no assigned value begins or ends with an unescaped IFS white space character; and the
\*     non-delimiter characters are never lost by `read -a`
NonDelimText(s, IC) == LET idx == { k \in 1..Len(s) : ~Delim(s[k], IC) } IN
                       Cardinality(idx)
L_ArrayKeeps == (IsVec /\ mode = "array") =>
     LET it == ReadLine(inp, raw).items  IC == IfsChars(Ifs) IN
     Len(Flatten(Words(it, IC))) = NonDelimText(it, IC)
\* L5: the deviation agrees with the contract when IFS has no non-white-space character in the line
NwsInLine(it, IC) == \E k \in 1..Len(it) : Delim(it[k], IC) /\ ~IsWs(it[k].c)
EscTrail(it, IC) == LET t == DropTrailWs(it, IC) IN t # <<>> /\ t[Len(t)].e /\ t[Len(t)].c \in IC /\ IsWs(t[Len(t)].c)
L_DevOnlyNws == IsVec => LET it == ReadLine(inp, raw).items IN
     (~NwsInLine(it, IfsChars(Ifs)) /\ ~EscTrail(it, IfsChars(Ifs))) => DevFields(it, Ifs, mode) = Values(it, Ifs, mode)

Laws == L_Reader /\ L_Raw /\ L_ArrayVsVars /\ L_ArrayKeeps /\ L_DevOnlyNws

Emit ==
  IF ~IsVec THEN TRUE ELSE
  LET rl  == ReadLine(inp, raw)
      exp == Values(rl.items, Ifs, mode)
      dev == DevFields(rl.items, Ifs, mode)
  IN PrintT(<<"VEC", ToJson([
       inp |-> inp, ifs |-> Ifs, mode |-> mode, raw |-> raw,
       status |-> rl.status, exp |-> exp, rest |-> SubSeq(inp, rl.used + 1, Len(inp)),
       line |-> RawLine(inp, 1, FALSE, raw),
       r2 |-> Text(ReadLine(SubSeq(inp, rl.used + 1, Len(inp)), TRUE).items),
       s2 |-> ReadLine(SubSeq(inp, rl.used + 1, Len(inp)), TRUE).status,
       dangling |-> rl.dangling,
       mbquirk |-> ("eacute" \in IfsChars(Ifs) /\ \E k \in 1..Len(rl.items) : rl.items[k].e /\ rl.items[k].c = "eacute"),
       dev |-> dev, devdiff |-> (dev # exp),
       nws |-> NwsInLine(rl.items, IfsChars(Ifs)),
       esctrail |-> (NamesOf(mode) > 0 /\ EscTrail(rl.items, IfsChars(Ifs))),
       nontrivial |-> (\E k \in 1..Len(rl.items) : Delim(rl.items[k], IfsChars(Ifs)) \/ rl.items[k].e) ])>>)
EmitInv == Emit
=============================================================================
