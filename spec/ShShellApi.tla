----------------------------- MODULE ShShellApi -----------------------------
(* C25: shell.Expand (the string is here-document text) and shell.Fields (the string is the
   argument list of a command, without globbing), with an environment function in which an empty
   value means unset.

   Style F.  The state is a string under construction (sequence of tokens) and then an
   environment; both modes are state functions of it:
     Doc(toks, env)  = [err, out]      what `cat <<EOF` prints for it
     Arg(toks, env)  = [err, fields]   the words `set -f; cmd <string>` passes to cmd
   Arg is a composition: quote scanning -> words at unquoted blanks -> brace expansion -> tilde,
   parameter and arithmetic expansion with quote marking -> field splitting (ShSplitCore, the
   operator checked by C22) and quote removal.  A syntax-error predicate covers unterminated
   quotes, `${` and `$((`. *)
EXTENDS Integers, Sequences, FiniteSets, TLC, Json, ShText, ShSplitCore

CONSTANTS
  MaxTok,   \* tokens per string
  TokSet,   \* token menu
  VSet,     \* indices into VMenu (values of v)
  NSet,     \* indices into NMenu (values of n, used only by $((1+n)))
  ISet      \* indices into IMenu (IFS, given through the environment function like any variable)

VARIABLES toks, phase, vI, nI, iI
vars == <<toks, phase, vI, nI, iI>>

VMenu == << <<>>, <<"a"," ","b">>, <<"*">>, <<"x">>, <<" ","a"," "," ">>, <<"a",":","b"," ","c">> >>   \* <<>> = unset
IMenu == << [set |-> FALSE, val |-> <<>>], [set |-> TRUE, val |-> <<":">>] >>
NMenu == << <<>>, <<"3">> >>
HomeVal == <<"/","h">>

\* Tokens and their source text
Toks == {"A","SP","DQ","SQ","V","VD","VU","VL","VE","AR","AO","BD","BB","BA","BQ","BR","TI","SL","OB","OA"}
TokSrc(t) ==
  CASE t = "A"  -> <<"a">>
    [] t = "B"  -> <<"b">>            \* only produced by brace expansion
    [] t = "SP" -> <<" ">>
    [] t = "DQ" -> <<"\"">>
    [] t = "SQ" -> <<"'">>
    [] t = "V"  -> <<"$","{","v","}">>
    [] t = "VD" -> <<"$","{","v",":","-","d","}">>
    [] t = "VU" -> <<"$","{","v","-","u","}">>
    [] t = "VL" -> <<"$","{","#","v","}">>
    [] t = "VE" -> <<"$","{","u","}">>              \* u is never set
    [] t = "AR" -> <<"$","(","(","1","+","n",")",")">>
    [] t = "AO" -> <<"$","(","(","n","|","|","0",")",")">>
    [] t = "BD" -> <<"\\","$">>
    [] t = "BB" -> <<"\\","\\">>
    [] t = "BA" -> <<"\\","a">>
    [] t = "BQ" -> <<"\\","\"">>
    [] t = "BR" -> <<"{","a",",","b","}">>
    [] t = "TI" -> <<"~">>
    [] t = "SL" -> <<"/","p">>
    [] t = "OB" -> <<"$","{">>
    [] t = "OA" -> <<"$","(","(">>
RECURSIVE Src(_)
Src(ts) == IF ts = <<>> THEN <<>> ELSE TokSrc(Head(ts)) \o Src(Tail(ts))

-----------------------------------------------------------------------------
(* Expansions shared by both modes.  e = [v, n] (texts; empty = unset) *)
Digits == <<"0","1","2","3","4","5","6","7","8","9">>
RECURSIVE Dec(_)
Dec(k) == IF k < 10 THEN <<Digits[k+1]>> ELSE Dec(k \div 10) \o <<Digits[(k % 10) + 1]>>
NVal(e) == IF e.n = <<>> THEN 0 ELSE 3
ExpText(t, e) ==
  CASE t = "V"  -> e.v
    [] t = "VD" -> IF e.v = <<>> THEN <<"d">> ELSE e.v
    [] t = "VU" -> IF e.v = <<>> THEN <<"u">> ELSE e.v     \* an empty value means unset
    [] t = "VL" -> Dec(Len(e.v))
    [] t = "VE" -> <<>>
    [] t = "AR" -> Dec(1 + NVal(e))
    [] t = "AO" -> IF NVal(e) # 0 THEN <<"1">> ELSE <<"0">>   \* logical operators yield 0 or 1
IsExp(t) == t \in {"V","VD","VU","VL","VE","AR","AO"}

-----------------------------------------------------------------------------
(* Here-document mode *)
DocTok(t, e) ==
  IF IsExp(t) THEN ExpText(t, e)
  ELSE CASE t = "BD" -> <<"$">>
         [] t = "BB" -> <<"\\">>
         [] OTHER    -> TokSrc(t)     \* quotes, \a, \", braces, tilde are literal text
RECURSIVE DocText(_, _)
DocText(ts, e) == IF ts = <<>> THEN <<>> ELSE DocTok(Head(ts), e) \o DocText(Tail(ts), e)
HasTok(ts, S) == \E i \in 1..Len(ts) : ts[i] \in S
Doc(ts, e) == IF HasTok(ts, {"OB","OA"}) THEN [err |-> TRUE, out |-> <<>>]
              ELSE [err |-> FALSE, out |-> DocText(ts, e)]

-----------------------------------------------------------------------------
(* Argument mode *)
\* 1. quote scanning: each token gets the context it appears in: "n" none, "d" inside "...",
\*    "s" inside '...'; the quote characters themselves get "open"/"close".
RECURSIVE Scan(_, _)
Scan(ts, q) ==
  IF ts = <<>> THEN <<>>
  ELSE LET t == Head(ts) IN
    IF t = "DQ" /\ q = "n" THEN <<[t |-> t, q |-> "open"]>> \o Scan(Tail(ts), "d")
    ELSE IF t = "DQ" /\ q = "d" THEN <<[t |-> t, q |-> "close"]>> \o Scan(Tail(ts), "n")
    ELSE IF t = "SQ" /\ q = "n" THEN <<[t |-> t, q |-> "open"]>> \o Scan(Tail(ts), "s")
    ELSE IF t = "SQ" /\ q = "s" THEN <<[t |-> t, q |-> "close"]>> \o Scan(Tail(ts), "n")
    ELSE <<[t |-> t, q |-> q]>> \o Scan(Tail(ts), q)
RECURSIVE EndQuote(_, _)
EndQuote(ts, q) ==
  IF ts = <<>> THEN q
  ELSE LET t == Head(ts) IN
    EndQuote(Tail(ts), IF t = "DQ" /\ q = "n" THEN "d" ELSE IF t = "DQ" /\ q = "d" THEN "n"
                       ELSE IF t = "SQ" /\ q = "n" THEN "s" ELSE IF t = "SQ" /\ q = "s" THEN "n" ELSE q)
ArgErr(ts) == LET sc == Scan(ts, "n") IN
              \/ EndQuote(ts, "n") # "n"
              \/ \E i \in 1..Len(sc) : sc[i].t \in {"OB","OA"} /\ sc[i].q # "s"

\* 2. words at unquoted blanks
RECURSIVE WordsOf(_, _)
WordsOf(sc, cur) ==
  IF sc = <<>> THEN (IF cur = <<>> THEN <<>> ELSE <<cur>>)
  ELSE IF Head(sc).t = "SP" /\ Head(sc).q = "n"
       THEN (IF cur = <<>> THEN <<>> ELSE <<cur>>) \o WordsOf(Tail(sc), <<>>)
       ELSE WordsOf(Tail(sc), Append(cur, Head(sc)))

\* 3. brace expansion of one word: the leftmost unquoted {a,b} varies slowest
RECURSIVE Braces(_)
Braces(w) ==
  IF \E i \in 1..Len(w) : w[i].t = "BR" /\ w[i].q = "n" THEN
    LET i == CHOOSE i \in 1..Len(w) : w[i].t = "BR" /\ w[i].q = "n" /\ \A j \in 1..(i-1) : ~(w[j].t = "BR" /\ w[j].q = "n")
        pre == SubSeq(w, 1, i-1)
        tails == Braces(SubSeq(w, i+1, Len(w)))
    IN [k \in 1..Len(tails) |-> pre \o <<[t |-> "A", q |-> "n"]>> \o tails[k]]
       \o [k \in 1..Len(tails) |-> pre \o <<[t |-> "B", q |-> "n"]>> \o tails[k]]
  ELSE <<w>>

\* 4. expansion with quote marking.  Tilde: an unquoted ~ at the start of a word, alone or before /
TildeOk(w, i) == i = 1 /\ w[1].t = "TI" /\ w[1].q = "n"
                 /\ (Len(w) = 1 \/ (w[2].t = "SL" /\ w[2].q = "n"))
\* dqe: the named deviation Dev_dqe of ShFields (C22): an empty "" marks nothing
EmptyDqAt(w, i) == w[i].t = "DQ" /\ w[i].q = "open" /\ i < Len(w) /\ w[i+1].q = "close"
ArgTok(w, i, e, dqe) ==
  LET t == w[i].t  q == w[i].q IN
  IF q = "open" THEN (IF dqe /\ EmptyDqAt(w, i) THEN <<>> ELSE <<NUL>>)   \* a quoted (possibly null) string starts here
  ELSE IF q = "close" THEN <<>>
  ELSE IF q = "s" THEN Chars(TokSrc(t), FALSE)
  ELSE IF IsExp(t) THEN Chars(ExpText(t, e), q = "n")
  ELSE IF q = "d" THEN
    (CASE t = "BD" -> Chars(<<"$">>, FALSE)
       [] t = "BB" -> Chars(<<"\\">>, FALSE)
       [] t = "BQ" -> Chars(<<"\"">>, FALSE)
       [] OTHER    -> Chars(TokSrc(t), FALSE))        \* \a keeps its backslash inside "..."
  ELSE
    (CASE t = "BD" -> Chars(<<"$">>, FALSE)
       [] t = "BB" -> Chars(<<"\\">>, FALSE)
       [] t = "BA" -> Chars(<<"a">>, FALSE)
       [] t = "BQ" -> Chars(<<"\"">>, FALSE)
       [] t = "TI" -> IF TildeOk(w, i) THEN Chars(HomeVal, FALSE) ELSE Chars(<<"~">>, FALSE)
       [] OTHER    -> Chars(TokSrc(t), FALSE))
RECURSIVE WordItems(_, _, _, _)
WordItems(w, i, e, dqe) == IF i > Len(w) THEN <<>> ELSE ArgTok(w, i, e, dqe) \o WordItems(w, i+1, e, dqe)
WordFields(w, e, dqe) ==
  LET fs == SplitItems(WordItems(w, 1, e, dqe), e.ifs) IN
  IF dqe /\ fs = <<>> /\ (\E i \in 1..Len(w) : EmptyDqAt(w, i)) THEN << <<>> >> ELSE fs

RECURSIVE FieldsOfWords(_, _, _)
FieldsOfWords(ws, e, dqe) ==
  IF ws = <<>> THEN <<>> ELSE WordFields(Head(ws), e, dqe) \o FieldsOfWords(Tail(ws), e, dqe)
RECURSIVE AllBraces(_)
AllBraces(ws) == IF ws = <<>> THEN <<>> ELSE Braces(Head(ws)) \o AllBraces(Tail(ws))

ArgD(ts, e, dqe) == IF ArgErr(ts) THEN [err |-> TRUE, fields |-> <<>>]
                    ELSE [err |-> FALSE, fields |-> FieldsOfWords(AllBraces(WordsOf(Scan(ts, "n"), <<>>)), e, dqe)]
Arg(ts, e) == ArgD(ts, e, FALSE)

-----------------------------------------------------------------------------
(* The input builder: tokens, then the environment (only the variables that are used) *)
UsesV(ts) == HasTok(ts, {"V","VD","VU","VL"})
UsesN(ts) == HasTok(ts, {"AR","AO"})
Init == toks = <<>> /\ phase = "s" /\ vI = 1 /\ nI = 1 /\ iI = 1
\* After an unterminated ${ no token containing } is added, so that the opener stays unterminated
\* (otherwise `${` `a` `~` `{a,b}` is bash's undocumented case-toggling ${a~pattern}, `${` `a` `{a,b}`
\* a bad substitution, ...: parameter-expansion operators are C21's and C12's subject, not this one's).
ClosesBrace(t) == t \in {"BR","V","VD","VU","VL","VE"}
AddTok == /\ phase = "s" /\ Len(toks) < MaxTok
          /\ \E t \in TokSet : /\ (ClosesBrace(t) => ~HasTok(toks, {"OB"}))
                               /\ toks' = Append(toks, t)
          /\ UNCHANGED <<phase, vI, nI, iI>>
ChooseEnv == /\ phase = "s" /\ Len(toks) >= 1
             /\ \E i \in (IF UsesV(toks) THEN VSet ELSE {1}) : vI' = i
             /\ \E i \in (IF UsesN(toks) THEN NSet ELSE {1}) : nI' = i
             /\ \E i \in (IF UsesV(toks) THEN ISet ELSE {1}) : iI' = i
             /\ phase' = "done" /\ UNCHANGED toks
Next == AddTok \/ ChooseEnv
Spec == Init /\ [][Next]_vars

IsVec == phase = "done"
Env == [v |-> VMenu[vI], n |-> NMenu[nI], ifs |-> IMenu[iI]]

-----------------------------------------------------------------------------
(* Laws *)
\* L1: text without expansions and backslashes is here-document text unchanged
L_DocLiteral == (IsVec /\ ~HasTok(toks, {"V","VD","VU","VL","VE","AR","AO","BD","BB","OB","OA"})) =>
                  Doc(toks, Env) = [err |-> FALSE, out |-> Src(toks)]
\* L2: the whole string inside double quotes, as an argument, is the here-document text
\*     (when the string has no double quote of its own, quoted or escaped)
L_QuotedArgIsDoc == (IsVec /\ ~HasTok(toks, {"DQ","BQ"})) =>
     LET a == Arg(<<"DQ">> \o toks \o <<"DQ">>, Env)  d == Doc(toks, Env) IN
     /\ a.err = d.err
     /\ (~a.err => a.fields = <<d.out>>)
\* L3: the string inside single quotes is one field, its source text
L_SingleQuoted == (IsVec /\ ~HasTok(toks, {"SQ"})) =>
     Arg(<<"SQ">> \o toks \o <<"SQ">>, Env) = [err |-> FALSE, fields |-> <<Src(toks)>>]
\* L4: an error in here-document mode is an error in argument mode unless single quotes hide it
L_ErrMono == (IsVec /\ Doc(toks, Env).err /\ ~HasTok(toks, {"SQ"})) => Arg(toks, Env).err
\* L5: with the default IFS no field of an unquoted-only string contains a blank
L_NoBlank == (IsVec /\ ~Env.ifs.set /\ ~HasTok(toks, {"DQ","SQ","OB","OA"})) =>
     LET a == Arg(toks, Env) IN \A i \in 1..Len(a.fields) : \A j \in 1..Len(a.fields[i]) : a.fields[i][j] # " "
Laws == L_DocLiteral /\ L_QuotedArgIsDoc /\ L_SingleQuoted /\ L_ErrMono /\ L_NoBlank

Emit ==
  IF ~IsVec THEN TRUE ELSE
  LET e == Env  d == Doc(toks, e)  a == Arg(toks, e) IN
  PrintT(<<"VEC", ToJson([
     toks |-> toks, src |-> Src(toks), v |-> e.v, n |-> e.n, ifs |-> e.ifs, home |-> HomeVal,
     doc |-> d, arg |-> a, argdqe |-> ArgD(toks, e, TRUE),
     nontrivial |-> (HasTok(toks, {"V","VD","VU","VL","VE","AR","AO","DQ","SQ","BD","BB","BA","BQ","BR","TI"}) /\ ~(d.err /\ a.err)) ])>>)
EmitInv == Emit
=============================================================================
