SPECIFICATION Spec
CONSTANTS MaxLen = 2
  Reduced = FALSE
  EmitAt = 0
INVARIANTS TypeOK AlphabetOK Emit EmitAlphabet
