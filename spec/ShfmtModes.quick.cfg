SPECIFICATION Spec
CONSTANT Files <- Files3
INVARIANTS AfterWriteClean ListDiffAgree RcRule StdinAgrees ErrNonUntouched OnlyUnfChanges
PROPERTY WriteIdempotent
