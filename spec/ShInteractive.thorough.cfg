SPECIFICATION Spec
CONSTANTS MaxLines = 6
  MaxPerLine = 2
  Defect = "none"
INVARIANTS TypeOK DeliveredIsPrefix NothingLost IncompleteOnlyWhileOpen IncompleteWheneverOpen RunBeforeRead OneCallbackPerLine Progress
