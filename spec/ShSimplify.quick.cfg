\* Reference configuration (the check writes its own cfg: Devs = the deviation switches still listed as
\* known in known_findings.d/C04.jsonl, see lib/props/c04.py).
SPECIFICATION SSpec
CONSTANTS MaxLen = 3
  MaxDepth = 2
  EmitAt = 0
  Fuel = 150
  EmitTree = FALSE
  Devs = {}
INVARIANTS SCheck
