---------------------------- MODULE ShQuoteTrace ----------------------------
(* C13, trace validation: every event recorded from the real syntax.Quote,
     {s: bytes, cls: [[size, class, big]...], res: [{langs: [...], ok, q: bytes} ...]}
   (one line per string s: the variants that gave the same outcome are grouped; the file is named by the
   environment variable VERIF_TRACE, one JSON object per line) is judged against the reader contract of
   ShQuote, for every variant:
     - Quote failed        =>  FailAllowed(s, cls, lang)
     - Quote succeeded     =>  q is one word of literal/quoted parts, it is not a reserved word,
                               and Unquote(q, lang) = s
   The events are independent, so the trace is walked in `Lanes` interleaved lanes (lane k visits
   events k, k + Lanes, ...), which lets TLC's workers share the file.  A rejected (event, variant) is
   printed as a STAT line (the driver turns each into a verdict) and the walk goes on, so one run
   reports every rejection; the driver also checks that TLC visited all N events.

   Named deviation (known finding): utf8.DecodeRuneInString returns RuneError for a *valid* U+FFFD, and
   quote.go treats RuneError as invalid UTF-8, so POSIX quoting fails for strings containing U+FFFD. *)
EXTENDS ShQuote, Json, IOUtils

CONSTANT Lanes
Trace == ndJsonDeserialize(IOEnv.VERIF_TRACE)
N == Len(Trace)

VARIABLE i
tvars == <<i, str>>
TInit == str = <<>> /\ i \in 1..(IF N < Lanes THEN N ELSE Lanes)
TNext == i + Lanes <= N /\ i' = i + Lanes /\ UNCHANGED str
TSpec == TInit /\ [][TNext]_tvars

\* s contains a well-formed U+FFFD (EF BF BD) that Go classified as a printable 3-byte character
HasReplacementChar(s, cls) ==
  LET offs == Offsets(cls, 1, 1) IN
  \E k \in 1..Len(cls) : cls[k][1] = 3 /\ s[offs[k]] = 239 /\ s[offs[k] + 1] = 191 /\ s[offs[k] + 2] = 189
Dev_ReplacementCharTreatedAsInvalid(s, cls, lang) == lang = "posix" /\ HasReplacementChar(s, cls)

Why(s, cls, lang, ok, q) ==
  IF ~ClassSane(s, cls) THEN "harness classification inconsistent with s"
  ELSE IF ~ok THEN
       (IF FailAllowed(s, cls, lang) THEN ""
        ELSE IF Dev_ReplacementCharTreatedAsInvalid(s, cls, lang) THEN "Dev_ReplacementCharTreatedAsInvalid"
        ELSE "Quote failed on a string the variant can represent")
  ELSE LET u == Unquote(q, lang) IN
       IF ~u.ok THEN "result is not one word of literal and quoted parts"
       ELSE IF u.s # s THEN "result reads back as a different string"
       ELSE IF u.plain /\ q \in Reserved(lang) THEN "result is an unquoted reserved word"
       ELSE ""

Judged == LET ev == Trace[i] IN
          \A r \in 1..Len(ev.res) : \A l \in 1..Len(ev.res[r].langs) :
            LET w == Why(ev.s, ev.cls, ev.res[r].langs[l], ev.res[r].ok, ev.res[r].q) IN
            w = "" \/ PrintT(<<"STAT", ToJson([idx |-> i, lang |-> ev.res[r].langs[l], why |-> w])>>)
==========================================================================
