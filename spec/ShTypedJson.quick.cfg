SPECIFICATION Spec
CONSTANTS
  MaxCh = 7
  MaxMut = 1
  MutDocs = 5
INVARIANTS RoundTrip ReEncode StripIdem DecTotal DecSound EmitInv
