\* Reference configuration of the simulation part of the thorough tier (see lib/props/c26.py).
SPECIFICATION Spec
CONSTANTS MaxLen = 10
  MaxDepth = 2
  EmitAt = 10
  Fuel = 80
  EmitTree = FALSE
  Devs = {}
INVARIANTS Laws Emit
