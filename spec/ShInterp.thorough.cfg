\* Reference configuration of the simulation part of the thorough tier (see lib/props/c26.py).
SPECIFICATION Spec
CONSTANTS MaxLen = 10
  MaxDepth = 2
  EmitAt = 10
  Fuel = 150
  EmitTree = FALSE
  Devs = {}
INVARIANTS Check
