SPECIFICATION Spec
CONSTANT Files <- Files4
INVARIANTS AfterWriteClean ListDiffAgree RcRule StdinAgrees ErrNonUntouched OnlyUnfChanges
PROPERTY WriteIdempotent
