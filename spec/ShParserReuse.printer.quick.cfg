SPECIFICATION Spec
CONSTANTS Obj = "printer"
  MaxHist = 2
INVARIANTS OptionsLaw LibraryOK ContractClean Emit EmitLib
