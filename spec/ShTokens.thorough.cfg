SPECIFICATION Spec
CONSTANTS MaxLen = 3
  Reduced = FALSE
  EmitAt = 0
INVARIANTS TypeOK AlphabetOK Emit EmitAlphabet
