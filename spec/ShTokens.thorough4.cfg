SPECIFICATION Spec
CONSTANTS MaxLen = 4
  Reduced = TRUE
  EmitAt = 4
INVARIANTS TypeOK AlphabetOK Emit EmitAlphabet
