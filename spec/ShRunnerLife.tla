---------------------------- MODULE ShRunnerLife ----------------------------
(* C30 (Runner reuse is equivalent to a fresh runner) and C29 (Run leaves the syntax tree
   and the user's Env untouched).  Style S.

   The abstract Runner is a record `st` of everything a shell program can leave behind in an
   interp.Runner: variables with their attributes, an indexed array, functions, aliases,
   set/shopt options, EXIT/ERR traps, working directory, OLDPWD, directory stack, positional
   parameters, getopts progress (OPTIND + position inside a cluster), background jobs, the
   redirection kept by `exec >file`, $? carried to the next Run, the Exited flag.  `cfg` is the
   configuration given to interp.New (Params arguments, Interactive); the contract of Reset is
   that the runner state becomes Init(cfg) again.  `tree` (the programs handed to Run) and
   `userEnv` (the Environ handed to interp.Env) are variables that NO action may change.

   Actions:  Run(p) for p in an effect-labelled statement library (each statement is its own
   shell source line, its abstract effect is the operator Effect), Stmtwise(p) (the documented
   incremental use: one Run call per top-level statement, stop once Exited), Reset.
   `hist` records the actions, so TLC's breadth-first search enumerates every history up to
   MaxHist exactly once and -simulate gives long random ones.  For every history the spec
   predicts what an outside observer sees: per Run call the stdout items, returned status,
   Exited(), the content of the exec'd file; and the output of the probe program (which prints
   every component of the state) run (a) right after the history, (b) after Reset, (c) on a
   fresh runner; and for the whole history concatenated into one file: Run(file) versus
   statement-at-a-time.

   Where this interpreter is known to differ from bash in a way that is visible in the
   library (not the subject of C30) the difference is a named Dev_ definition below. *)
EXTENDS Integers, Sequences, FiniteSets, TLC, Json

CONSTANTS MaxHist,      \* number of history actions
          CfgIds,       \* configurations explored (indices into CfgTable)
          DeepCfgIds,   \* configurations explored at the last level (length = MaxHist)
          StmtAct,      \* TRUE: Stmtwise(p) is also a history action
          LibIds        \* statements of the library used as actions (indices into Library)

VARIABLES cfg, hist, st, tree, userEnv
vars == <<cfg, hist, st, tree, userEnv>>

-----------------------------------------------------------------------------
(* Named deviations of this interpreter from bash that show up in the library. *)
Dev_ErrTrapOnExit  == FALSE  \* `exit n` with n # 0 does not run the ERR trap (the interpreter did until 8965d83; bash does not)
Dev_DirsIgnoresCd  == FALSE  \* `cd` replaces the top of the directory stack shown by `dirs` (the interpreter did not until 029b7ad)
Dev_UnaliasMissing == "1"    \* `unalias` of a missing alias has status 1 like in bash (the interpreter returned 0 until 8c9228e)
Dev_UnsetReadonly  == "0"    \* `unset` of a readonly variable prints the error but has status 0 (bash: 1); this status is pinned by
                             \* the repository's own tests (`unset UID`, interp_test.go), so it is modelled, not reported

-----------------------------------------------------------------------------
(* Configuration: the arguments of interp.Params follow the contract documented at
   interp.Params ("like the set builtin"): flags, then "--", then positional parameters. *)
FlagOpt == [f \in {"-e", "-u", "-f", "-a"} |->
              CASE f = "-e" -> "errexit" [] f = "-u" -> "nounset" [] f = "-f" -> "noglob" [] f = "-a" -> "allexport"]
RECURSIVE ParseArgs(_, _)
ParseArgs(args, acc) ==          \* acc = [opts, params, sawdd]
  IF args = <<>> THEN acc
  ELSE IF Head(args) = "--" THEN [acc EXCEPT !.params = Tail(args)]
  ELSE ParseArgs(Tail(args), [acc EXCEPT !.opts = @ \cup {FlagOpt[Head(args)]}])

CfgTable == <<
  [useParams |-> FALSE, args |-> <<>>,                       interactive |-> FALSE],
  [useParams |-> TRUE,  args |-> <<"-e", "--", "p1", "p2">>, interactive |-> FALSE],
  [useParams |-> TRUE,  args |-> <<"--", "p1">>,             interactive |-> TRUE],
  [useParams |-> TRUE,  args |-> <<"-u", "-f">>,             interactive |-> FALSE] >>

CfgOpts(c)   == LET t == CfgTable[c] IN
                ParseArgs(t.args, [opts |-> {}, params |-> <<>>]).opts
                  \cup (IF t.interactive THEN {"expand_aliases"} ELSE {})
CfgParams(c) == ParseArgs(CfgTable[c].args, [opts |-> {}, params |-> <<>>]).params

UserEnvInit == [E |-> "e0", BASE |-> "D0", HOME |-> "D0", TMPDIR |-> "D0",
                PATH |-> "/nonexistent", LC_ALL |-> "C.UTF-8"]

-----------------------------------------------------------------------------
(* Abstract runner state *)
UnsetVar == [val |-> "U", x |-> FALSE, r |-> FALSE]

InitSt(c) == [
  vars   |-> [n \in {"v", "w", "E"} |-> IF n = "E" THEN [val |-> UserEnvInit.E, x |-> TRUE, r |-> FALSE] ELSE UnsetVar],
  arr    |-> [set |-> FALSE, list |-> <<>>, x |-> FALSE],
  fn     |-> "U",               \* body of function f: "U" | "F1" | "F2"
  al     |-> "U",               \* alias a1: "U" | "A1"
  opts   |-> CfgOpts(c),
  tx     |-> "", te |-> "",     \* EXIT / ERR trap: "" or the word its body echoes
  cwd    |-> "D0", old |-> "U", ds |-> <<"D0">>,
  params |-> CfgParams(c),
  ifs    |-> " ",               \* first character of IFS (joins "$*")
  gk     |-> 0,                 \* options already delivered by `getopts abc o -ab -c`
  jobs   |-> 0,
  sink   |-> "buf",             \* where stdout goes: the caller's buffer or the exec'd file
  fex    |-> FALSE, f1 |-> <<>>,   \* file system: does $BASE/out1 exist, its content (items)
  last   |-> "0",               \* $? seen by the next statement
  cur    |-> "0",               \* status of the current Run call so far
  exiting |-> FALSE,            \* Exited() after the call
  out    |-> <<>>,              \* items written to the caller's stdout buffer by this call
  nrun   |-> 0 ]                \* Run calls made by the last action

Item(k, a) == [k |-> k, a |-> a]
Lit(w)     == Item("lit", <<w>>)
Emit(s, it) == IF s.sink = "buf" THEN [s EXCEPT !.out = Append(@, it)]
                                 ELSE [s EXCEPT !.f1 = Append(@, it)]
Ok(s)       == [s EXCEPT !.cur = "0"]
Fail(s, c)  == [s EXCEPT !.cur = c]
B(b)        == IF b THEN "1" ELSE "0"
Rev(q)      == [i \in 1..Len(q) |-> q[Len(q) + 1 - i]]
OptindOf(k) == <<"1", "1", "2", "3">>[k + 1]
GetoptsOpt  == <<"a", "b", "c">>

SetVar(s, n, val, mkx, mkr) ==
  IF s.vars[n].r THEN Fail(s, "1")                    \* readonly variable: error, status 1
  ELSE Ok([s EXCEPT !.vars[n] = [val |-> val, x |-> @.x \/ mkx \/ "allexport" \in s.opts, r |-> mkr]])
UnsetV(s, n) ==
  IF s.vars[n].r THEN Fail(s, Dev_UnsetReadonly)
  ELSE Ok([s EXCEPT !.vars[n] = UnsetVar])
ChDir(s, d) == [s EXCEPT !.old = s.cwd, !.cwd = d]
Cd(s, d) == LET s1 == ChDir(s, d) IN
            IF Dev_DirsIgnoresCd \/ s1.ds = <<>> THEN s1 ELSE [s1 EXCEPT !.ds = [@ EXCEPT ![Len(@)] = d]]

(* ---- the statement library: the atom IS the shell source line ---- *)
Library == <<
  "v=a", "v=b", "export w=a", "readonly v=c", "unset v", "unset E", "E=x", "a=(1 2)", "a+=(3)",
  "f() { echo F1; }", "f() { echo F2; }", "unset -f f", "f",
  "alias a1='echo A1'", "unalias a1", "a1",
  "set -e", "set +e", "set -u", "set -f", "set -a", "set -o pipefail", "set -n",
  "shopt -s nullglob", "shopt -s expand_aliases", "shopt -u expand_aliases",
  "trap 'echo TX' EXIT", "trap 'echo TE' ERR", "trap - EXIT",
  "cd \"$BASE/sub1\"", "cd \"$BASE/sub2\"", "pushd \"$BASE/sub1\"", "popd",
  "exit 3", "exit", "false", "true",
  "exec >\"$BASE/out1\"",
  "true &", "wait",
  "getopts abc o -ab -c",
  "set -- x y", "set -- z",
  "echo M1", "IFS=:", "shift" >>
AllLibIds  == 1..Len(Library)
\* one statement per component of the runner state (used for the histories of length 3)
DeepLibIds == {1, 4, 6, 9, 10, 13, 14, 16, 17, 19, 21, 23, 25, 27, 28, 30, 32, 33, 34, 36, 38, 39, 41, 42, 46}
LibSet == { Library[i] : i \in LibIds }

(* ---- the probe: prints every component of the state; every line succeeds or sits in an
        && / || list, so it is immune to errexit and the ERR trap ---- *)
ProbeText == <<
  "echo \"?=$?\"",
  "echo \"v=${v-U} w=${w-U} E=${E-U} a=${a[*]-U}\"",
  "declare -p v 2>/dev/null || echo \"v:none\"",
  "declare -p w 2>/dev/null || echo \"w:none\"",
  "declare -p E 2>/dev/null || echo \"E:none\"",
  "declare -p a 2>/dev/null || echo \"a:none\"",
  "type -t f >/dev/null && f || echo \"f:none\"",
  "echo \"alias:$(alias a1 2>/dev/null)\"",
  "a1 2>/dev/null || echo \"a1:norun\"",
  "shopt -o errexit nounset noglob allexport pipefail || true",
  "shopt nullglob expand_aliases || true",
  "(cd \"$BASE\" && echo sub1/* nomatch*)",
  "trap",
  "pwd",
  "echo \"$PWD ${OLDPWD-U}\"",
  "dirs",
  "echo \"$#:$*\"",
  "echo \"OPTIND=$OPTIND\"",
  "getopts abc o -ab -c && echo \"o=$o $OPTIND\" || echo \"o=$o $OPTIND done\"",
  "wait g1 2>/dev/null && echo job1 || echo nojob1",
  "wait g2 2>/dev/null && echo job2 || echo nojob2" >>
Probe    == <<"P01", "P02", "P03", "P04", "P05", "P06", "P07", "P08", "P09", "P10", "P11",
              "P12", "P13", "P14", "P15", "P16", "P17", "P18", "P19", "P20", "P21">>   \* statement ids; ProbeText[i] is the source
ProbeSet == {"P01", "P02", "P03", "P04", "P05", "P06", "P07", "P08", "P09", "P10", "P11",
              "P12", "P13", "P14", "P15", "P16", "P17", "P18", "P19", "P20", "P21"}

VarItem(s, n) == Item("decl", <<n, s.vars[n].val, B(s.vars[n].x), B(s.vars[n].r)>>)
GlobWords(s) ==
  IF "noglob" \in s.opts THEN <<"sub1/*", "nomatch*">>
  ELSE <<"sub1/x1", "sub1/x2">> \o (IF "nullglob" \in s.opts THEN <<>> ELSE <<"nomatch*">>)
OptLine(s, names) == [i \in 1..Len(names) |-> IF names[i] \in s.opts THEN "on" ELSE "off"]

(* Effect of one statement on the state, status in .cur; `exit` sets .exiting. *)
Effect(s, a) ==
  CASE a = "v=a"          -> SetVar(s, "v", "a", FALSE, s.vars["v"].r)
    [] a = "v=b"          -> SetVar(s, "v", "b", FALSE, s.vars["v"].r)
    [] a = "E=x"          -> SetVar(s, "E", "x", FALSE, s.vars["E"].r)
    [] a = "export w=a"   -> SetVar(s, "w", "a", TRUE, s.vars["w"].r)
    [] a = "readonly v=c" -> SetVar(s, "v", "c", FALSE, TRUE)
    [] a = "unset v"      -> UnsetV(s, "v")
    [] a = "unset E"      -> UnsetV(s, "E")
    [] a = "a=(1 2)"      -> Ok([s EXCEPT !.arr = [set |-> TRUE, list |-> <<"1", "2">>, x |-> @.x \/ "allexport" \in s.opts]])
    [] a = "a+=(3)"       -> Ok([s EXCEPT !.arr = [set |-> TRUE, list |-> Append(@.list, "3"), x |-> @.x \/ "allexport" \in s.opts]])
    [] a = "f() { echo F1; }" -> Ok([s EXCEPT !.fn = "F1"])
    [] a = "f() { echo F2; }" -> Ok([s EXCEPT !.fn = "F2"])
    [] a = "unset -f f"   -> Ok([s EXCEPT !.fn = "U"])
    [] a = "f"            -> IF s.fn = "U" THEN Fail(s, "127") ELSE Ok(Emit(s, Lit(s.fn)))
    [] a = "alias a1='echo A1'" -> Ok([s EXCEPT !.al = "A1"])
    [] a = "unalias a1"   -> IF s.al = "U" THEN Fail(s, Dev_UnaliasMissing) ELSE Ok([s EXCEPT !.al = "U"])
    [] a = "a1"           -> IF s.al # "U" /\ "expand_aliases" \in s.opts THEN Ok(Emit(s, Lit(s.al))) ELSE Fail(s, "127")
    [] a = "set -e"       -> Ok([s EXCEPT !.opts = @ \cup {"errexit"}])
    [] a = "set +e"       -> Ok([s EXCEPT !.opts = @ \ {"errexit"}])
    [] a = "set -u"       -> Ok([s EXCEPT !.opts = @ \cup {"nounset"}])
    [] a = "set -f"       -> Ok([s EXCEPT !.opts = @ \cup {"noglob"}])
    [] a = "set -a"       -> Ok([s EXCEPT !.opts = @ \cup {"allexport"}])
    [] a = "set -o pipefail" -> Ok([s EXCEPT !.opts = @ \cup {"pipefail"}])
    [] a = "set -n"       -> Ok([s EXCEPT !.opts = @ \cup {"noexec"}])
    [] a = "shopt -s nullglob" -> Ok([s EXCEPT !.opts = @ \cup {"nullglob"}])
    [] a = "shopt -s expand_aliases" -> Ok([s EXCEPT !.opts = @ \cup {"expand_aliases"}])
    [] a = "shopt -u expand_aliases" -> Ok([s EXCEPT !.opts = @ \ {"expand_aliases"}])
    [] a = "trap 'echo TX' EXIT" -> Ok([s EXCEPT !.tx = "TX"])
    [] a = "trap 'echo TE' ERR"  -> Ok([s EXCEPT !.te = "TE"])
    [] a = "trap - EXIT"  -> Ok([s EXCEPT !.tx = ""])
    [] a = "cd \"$BASE/sub1\"" -> Ok(Cd(s, "D0/sub1"))
    [] a = "cd \"$BASE/sub2\"" -> Ok(Cd(s, "D0/sub2"))
    [] a = "pushd \"$BASE/sub1\"" ->
         LET s1 == [ChDir(s, "D0/sub1") EXCEPT !.ds = Append(@, "D0/sub1")]
         IN Ok(Emit(s1, Item("dirs", Rev(s1.ds))))
    [] a = "popd" ->
         IF Len(s.ds) < 2 THEN Fail(s, "1")
         ELSE LET nds == SubSeq(s.ds, 1, Len(s.ds) - 1)
                  s1  == [ChDir(s, nds[Len(nds)]) EXCEPT !.ds = nds]
              IN Ok(Emit(s1, Item("dirs", Rev(nds))))
    [] a = "exit 3"       -> [s EXCEPT !.cur = "3", !.exiting = TRUE]
    [] a = "exit"         -> [s EXCEPT !.cur = s.last, !.exiting = TRUE]
    [] a = "false"        -> Fail(s, "1")
    [] a = "true"         -> Ok(s)
    [] a = "exec >\"$BASE/out1\"" -> Ok([s EXCEPT !.sink = "f1", !.fex = TRUE, !.f1 = <<>>])
    [] a = "true &"       -> Ok([s EXCEPT !.jobs = @ + 1])
    [] a = "wait"         -> Ok(s)
    [] a = "getopts abc o -ab -c" -> IF s.gk < 3 THEN Ok([s EXCEPT !.gk = @ + 1]) ELSE Fail(s, "1")
    [] a = "set -- x y"   -> Ok([s EXCEPT !.params = <<"x", "y">>])
    [] a = "set -- z"     -> Ok([s EXCEPT !.params = <<"z">>])
    [] a = "echo M1"      -> Ok(Emit(s, Lit("M1")))
    [] a = "IFS=:"        -> Ok([s EXCEPT !.ifs = ":"])
    [] a = "shift"        -> IF s.params = <<>> THEN Fail(s, "1") ELSE Ok([s EXCEPT !.params = Tail(@)])
    \* ---- probe lines (always status 0)
    [] a = "P01"    -> Ok(Emit(s, Item("q", <<s.last>>)))
    [] a = "P02"    -> Ok(Emit(s, Item("vals", <<s.vars["v"].val, s.vars["w"].val, s.vars["E"].val, s.ifs>>
                                          \o (IF s.arr.set THEN s.arr.list ELSE <<"U">>))))   \* "${a[*]}" joins with IFS
    [] a = "P03"    -> Ok(Emit(s, VarItem(s, "v")))
    [] a = "P04"    -> Ok(Emit(s, VarItem(s, "w")))
    [] a = "P05"    -> Ok(Emit(s, VarItem(s, "E")))
    [] a = "P06"    -> Ok(Emit(s, Item("decla", <<B(s.arr.set), B(s.arr.x)>> \o s.arr.list)))
    [] a = "P07"    -> Ok(Emit(s, Item("func", <<s.fn>>)))
    [] a = "P08"    -> Ok(Emit(s, Item("alias", <<s.al>>)))
    [] a = "P09"    -> Ok(Emit(s, Item("aliasrun", <<IF s.al # "U" /\ "expand_aliases" \in s.opts THEN s.al ELSE "U">>)))
    [] a = "P10"  -> Ok(Emit(s, Item("seto", OptLine(s, <<"errexit", "nounset", "noglob", "allexport", "pipefail">>))))
    [] a = "P11"  -> Ok(Emit(s, Item("shopt", OptLine(s, <<"nullglob", "expand_aliases">>))))
    [] a = "P12"  -> Ok(Emit(s, Item("glob", GlobWords(s))))
    [] a = "P13"  -> Ok(Emit(s, Item("traps", <<s.tx, s.te>>)))
    [] a = "P14"  -> Ok(Emit(s, Item("pwd", <<s.cwd>>)))
    [] a = "P15"  -> Ok(Emit(s, Item("pwd2", <<s.cwd, s.old>>)))
    [] a = "P16"  -> Ok(Emit(s, Item("dirs", Rev(s.ds))))
    [] a = "P17"  -> Ok(Emit(s, Item("params", <<s.ifs>> \o s.params)))
    [] a = "P18"  -> Ok(Emit(s, Item("optind", <<OptindOf(s.gk)>>)))
    [] a = "P19"  -> IF s.gk < 3
                        THEN Ok(Emit([s EXCEPT !.gk = @ + 1], Item("getopts", <<GetoptsOpt[s.gk + 1], OptindOf(s.gk + 1), "more">>)))
                        ELSE Ok(Emit(s, Item("getopts", <<"?", OptindOf(s.gk), "done">>)))
    [] a = "P20"  -> Ok(Emit(s, Item("job", <<"1", B(s.jobs >= 1)>>)))
    [] a = "P21"  -> Ok(Emit(s, Item("job", <<"2", B(s.jobs >= 2)>>)))

ErrExempt(a) == a \in ProbeSet                    \* && / || lists never trigger ERR / errexit
IsExit(a)    == a \in {"exit 3", "exit"}

(* One top-level statement, including the ERR trap and errexit. *)
Step(s, a) ==
  IF "noexec" \in s.opts THEN s                   \* set -n: nothing runs any more
  ELSE LET r  == Effect(s, a)
           failed == r.cur # "0" /\ ~ErrExempt(a) /\ (Dev_ErrTrapOnExit \/ ~IsExit(a))
           r1 == IF failed /\ r.te # "" THEN Emit(r, Lit(r.te)) ELSE r
           r2 == IF failed /\ "errexit" \in r1.opts THEN [r1 EXCEPT !.exiting = TRUE] ELSE r1
       IN [r2 EXCEPT !.last = r2.cur]

ExitTrap(s) == IF s.tx # "" /\ "noexec" \notin s.opts THEN Emit(s, Lit(s.tx)) ELSE s

RECURSIVE Exec(_, _)
Exec(s, stmts) == IF stmts = <<>> \/ s.exiting THEN s
                  ELSE Exec(Step(s, Head(stmts)), Tail(stmts))

Begin(s) == [s EXCEPT !.out = <<>>, !.exiting = FALSE, !.cur = "0"]

(* Runner.Run(file): all statements until the shell exits, then the EXIT trap (a whole file
   implies an exit); the status is carried into the next call as $?. *)
RunFile(s0, prog) ==
  LET s1 == Exec(Begin(s0), prog)
      s2 == ExitTrap(s1)
  IN [s2 EXCEPT !.last = s1.cur, !.nrun = 1]

(* Runner.Run(stmt): the EXIT trap runs only if the statement made the shell exit. *)
RunStmt(s0, a) ==
  LET s1 == Step(Begin(s0), a)
      s2 == IF s1.exiting THEN ExitTrap(s1) ELSE s1
  IN [s2 EXCEPT !.last = s1.cur]

(* Statement-at-a-time: one Run call per statement, stop once Exited(); the observer
   concatenates the outputs. *)
RECURSIVE StmtFold(_, _, _, _)
StmtFold(s, stmts, accout, n) ==
  IF stmts = <<>> THEN [s EXCEPT !.out = accout, !.nrun = n]
  ELSE LET s1 == RunStmt(s, Head(stmts)) IN
       IF s1.exiting THEN [s1 EXCEPT !.out = accout \o s1.out, !.nrun = n + 1]
       ELSE StmtFold(s1, Tail(stmts), accout \o s1.out, n + 1)
RunStmtwise(s0, prog) ==
  IF prog = <<>> THEN [Begin(s0) EXCEPT !.nrun = 0]
  ELSE StmtFold(s0, prog, <<>>, 0)

(* Reset: the runner state is Init(cfg) again; the file system is not runner state. *)
ResetOf(s, c) == [InitSt(c) EXCEPT !.fex = s.fex, !.f1 = s.f1]

-----------------------------------------------------------------------------
(* The observer's projection of a state after a call *)
View(s) == [dir |-> s.cwd, params |-> s.params, fn |-> s.fn, vars |-> s.vars, arr |-> s.arr,
            optind |-> OptindOf(s.gk), old |-> s.old]
StepRec(s) == [out |-> s.out, status |-> s.last, exited |-> s.exiting, fex |-> s.fex, f1 |-> s.f1,
               nrun |-> s.nrun, view |-> View(s)]
RunnerView(s) == [s EXCEPT !.fex = FALSE, !.f1 = <<>>, !.out = <<>>, !.nrun = 0]

RunOnly == \A i \in 1..Len(hist) : hist[i].op = "run"
RECURSIVE Concat(_)
Concat(h) == IF h = <<>> THEN <<>> ELSE <<Head(h).p>> \o Concat(Tail(h))
WholeProg == Concat(hist) \o Probe

-----------------------------------------------------------------------------
Init == /\ cfg \in CfgIds
        /\ hist = <<>>
        /\ st = InitSt(cfg)
        /\ tree = [lib |-> Library, probe |-> ProbeText]
        /\ userEnv = UserEnvInit

Allowed == /\ Len(hist) < MaxHist
           /\ (Len(hist) = MaxHist - 1 => cfg \in DeepCfgIds)

RunAct(p) ==
  /\ Allowed
  /\ st' = RunFile(st, <<p>>)
  /\ hist' = Append(hist, [op |-> "run", p |-> p])
  /\ UNCHANGED <<cfg, tree, userEnv>>

StmtwiseAct(p) ==
  /\ StmtAct /\ Allowed
  /\ st' = RunStmtwise(st, <<p>>)
  /\ hist' = Append(hist, [op |-> "stmtwise", p |-> p])
  /\ UNCHANGED <<cfg, tree, userEnv>>

ResetAct ==
  /\ Allowed
  /\ st' = [ResetOf(st, cfg) EXCEPT !.nrun = 0]
  /\ hist' = Append(hist, [op |-> "reset", p |-> ""])
  /\ UNCHANGED <<cfg, tree, userEnv>>

Next == \/ \E p \in LibSet : RunAct(p) \/ StmtwiseAct(p)
        \/ ResetAct
Spec == Init /\ [][Next]_vars

-----------------------------------------------------------------------------
(* Properties checked by TLC *)

\* C29: no action changes the tree or the user's environment.
Untouched == [][tree' = tree /\ userEnv' = userEnv]_vars

\* Sanity of the model itself.
TypeOK == /\ st.gk \in 0..3 /\ Len(st.ds) >= 1 /\ st.jobs \in 0..(2 * MaxHist + 2)
          /\ st.sink \in {"buf", "f1"} /\ (st.sink = "f1" => st.fex)
          /\ st.cwd \in {"D0", "D0/sub1", "D0/sub2"}
          /\ (st.exiting => st.cur = st.last)

\* Reset gives back the initial runner state, whatever happened before ...
ResetRestores ==
  (Len(hist) > 0 /\ hist[Len(hist)].op = "reset") => RunnerView(st) = RunnerView(InitSt(cfg))

\* The probe on a fresh runner, per configuration (constant table, evaluated once).
FreshProbe == [c \in 1..Len(CfgTable) |-> RunFile(InitSt(c), Probe)]

\* What the observer is shown for the current history (computed once per state and shared by
\* the laws below and by the emitted vector).
Observed ==
  LET pr == RunFile(st, Probe)                       \* the probe right after the history
      rs == RunFile(ResetOf(pr, cfg), Probe)         \* Reset, then the probe again
      ro == RunOnly
      wp == IF ro THEN WholeProg ELSE <<>>
  IN [pr |-> pr, rs |-> rs, ro |-> ro,
      w |-> RunFile(InitSt(cfg), wp),                \* the history as one file, whole
      s |-> RunStmtwise(InitSt(cfg), wp)]            \* ... and statement-at-a-time

\* ... therefore the probe cannot tell a reset runner from a fresh one (leftover files in the
\* file system included), after any history, even one that ends inside the probe itself.
ProbeAfterResetLaw(o) ==
  LET a == o.rs
      b == FreshProbe[cfg]
  IN a.out = b.out /\ a.last = b.last /\ a.exiting = b.exiting /\ View(a) = View(b)
     /\ a.f1 = o.pr.f1 /\ a.fex = o.pr.fex

\* Statement-at-a-time equals whole-file except for the EXIT trap, which only the whole-file
\* run triggers when the shell did not exit by itself.
StmtwiseLaw(o) ==
  o.ro =>
    LET w == o.w
        s == o.s
        trapOut == IF ~w.exiting /\ s.tx # "" /\ "noexec" \notin s.opts THEN <<Lit(s.tx)>> ELSE <<>>
    IN /\ s.last = w.last /\ s.exiting = w.exiting /\ View(s) = View(w)
       /\ IF s.sink = "buf" THEN w.out = s.out \o trapOut /\ w.f1 = s.f1
                            ELSE w.out = s.out /\ w.f1 = s.f1 \o trapOut

\* The probe prints all of its lines unless noexec is on (guards against a vacuous probe).
ProbeTotalLaw(o) ==
  LET n == Len(o.pr.out) + Len(o.pr.f1) - Len(st.f1)
  IN IF "noexec" \in st.opts THEN n = 0 ELSE n = 21 + (IF st.tx # "" THEN 1 ELSE 0)

-----------------------------------------------------------------------------
(* Emission: one vector per history.  The expectation for the probe after Reset is the one of
   the fresh runner (vector with the empty history of the same cfg) by ProbeAfterResetLaw. *)
EmitVec(o) ==
  PrintT(<<"VEC", ToJson([
     cfg   |-> cfg,
     conf  |-> IF hist = <<>> THEN CfgTable[cfg] ELSE [useParams |-> FALSE],
     env   |-> IF hist = <<>> THEN userEnv ELSE [E |-> ""],
     ptext |-> IF hist = <<>> THEN ProbeText ELSE <<>>,
     hist  |-> hist,
     last  |-> StepRec(st),                 \* what the last action showed
     probe |-> StepRec(o.pr),
     ws    |-> o.ro,
     whole |-> IF o.ro THEN StepRec(o.w) ELSE [nrun |-> 0],
     stmt  |-> IF o.ro THEN StepRec(o.s) ELSE [nrun |-> 0],
     nontrivial |-> RunnerView(st) # RunnerView(InitSt(cfg))
  ])>>)

Laws ==
  LET o == Observed
  IN /\ Assert(ProbeAfterResetLaw(o), "ProbeAfterResetLaw violated")
     /\ Assert(StmtwiseLaw(o), "StmtwiseLaw violated")
     /\ Assert(ProbeTotalLaw(o), "ProbeTotalLaw violated")
     /\ EmitVec(o)
=============================================================================
