---------------------------- MODULE ShFormat ----------------------------
(* C24: `printf` and `echo -e` format like bash.   Style F (input builder).

   The contract is written from bash 5.2's documented behaviour (builtins/printf.def,
   builtins/echo.def, lib/sh/strtrans.c) and POSIX printf(3) for the conversions, not
   from expand.Format.  Text is a sequence of one-character strings ("eacute" is the
   two-byte character U+00E9); output is a sequence of byte values.  Field widths and
   precisions of %s %c %b count *bytes*, as in bash 5.2 (which hands them to libc).

   Three escape dialects are distinguished, as bash does:
     "fmt"   backslash escapes in the printf format string
     "b"     the argument of %b
     "echo"  arguments of `echo -e`

   Every evaluator takes a flag `dev`.  dev = FALSE is the contract.  dev = TRUE
   switches on the *named deviations* of mvdan/sh's expand.Format / builtins that are
   recorded as known findings (known_findings.d/C24.jsonl): each deviation site adds
   its name to `fired` when (and only when) it changes the result at that site, so a
   vector is excused only if the real code returns exactly Run(v, TRUE) and the
   fired set is non-empty; the excuse is reported under the fired names.

   The state machine builds the input: a format (or echo word list) from fragments,
   then an argument list.  Which fragments are offered is selected by the family, which
   Init picks from the constant Families:
     "dir"    one conversion specification  % flags* width? precision? conv  + 0..1 argument
     "reuse"  up to MaxUnits short units (literals, escapes, plain directives) + 0..MaxArgs arguments
     "esc"    one text of escape fragments, evaluated as format, as %b argument and by echo -e
     "echo"   up to MaxUnits echo words (option clusters and arguments)
     "mix"    all format fragments + arguments from all menus (used with -simulate)        *)
EXTENDS Integers, Sequences, FiniteSets, TLC, Json, ShText

CONSTANTS Families,   \* subset of {"dir", "reuse", "esc", "echo", "mix"}
          MaxFlags,   \* dir, mix: bound on the number of flag characters in a directive
          MaxTail,    \* esc, mix: bound on the digits that follow a numeric escape head (\0 \1 \x \u ...)
          ReuseUnits, ReuseArgs,   \* reuse: bounds on format units and arguments,
          ReuseSum,                \*        and on their sum
          EchoMaxWords,            \* echo: bound on the word list
          MixUnits, MixArgs,       \* mix: bounds on format units and arguments
          Rich        \* TRUE: the larger fragment menus

\* ======================================================================
\* Characters, bytes, numbers

BytesTab == [c \in AsciiSet \cup {"eacute"} |-> IF c = "eacute" THEN <<195, 169>> ELSE <<OrdFn[c]>>]
Bytes(c) == BytesTab[c]
UnitsOf(t) == Flatten([k \in 1..Len(t) |-> Bytes(t[k])])        \* the bytes of a text
CharCode(c) == IF c = "eacute" THEN 233 ELSE OrdFn[c]                                           \* code point ("eacute" = 233)

OctChars == {"0","1","2","3","4","5","6","7"}
DecChars == OctChars \cup {"8","9"}
HexChars == DecChars \cup {"a","b","c","d","e","f","A","B","C","D","E","F"}
DigitVal == [c \in HexChars |->
   CASE c = "0" -> 0 [] c = "1" -> 1 [] c = "2" -> 2 [] c = "3" -> 3 [] c = "4" -> 4
     [] c = "5" -> 5 [] c = "6" -> 6 [] c = "7" -> 7 [] c = "8" -> 8 [] c = "9" -> 9
     [] c \in {"a","A"} -> 10 [] c \in {"b","B"} -> 11 [] c \in {"c","C"} -> 12
     [] c \in {"d","D"} -> 13 [] c \in {"e","E"} -> 14 [] c \in {"f","F"} -> 15]
DigitsOfBase(b) == IF b = 16 THEN HexChars ELSE IF b = 10 THEN DecChars
                   ELSE IF b = 8 THEN OctChars ELSE {"0","1"}

Max(a, b) == IF a > b THEN a ELSE b
Min(a, b) == IF a < b THEN a ELSE b

\* index just after the longest run of characters of set S starting at i, at most n long
RECURSIVE RunEnd(_, _, _, _)
RunEnd(t, i, S, n) == IF n > 0 /\ i <= Len(t) /\ t[i] \in S THEN RunEnd(t, i + 1, S, n - 1) ELSE i

\* value of the digit string t[i..j] in base b (small values only; integers are 32-bit in TLC)
RECURSIVE NumVal(_, _, _, _)
NumVal(t, i, j, b) == IF j < i THEN 0 ELSE NumVal(t, i, j - 1, b) * b + DigitVal[t[j]]

\* digit values of n >= 0 in base b, most significant first
RECURSIVE Digits(_, _)
Digits(n, b) == IF n < b THEN <<n>> ELSE Append(Digits(n \div b, b), n % b)

\* 2^64 - 1 as digit values
AllOnes(b) == IF b = 16 THEN [k \in 1..16 |-> 15]
              ELSE IF b = 8 THEN <<1>> \o [k \in 1..21 |-> 7]
              ELSE <<1,8,4,4,6,7,4,4,0,7,3,7,0,9,5,5,1,6,1,5>>
\* ds - n for a digit sequence ds and a small n >= 0 (schoolbook subtraction with borrow)
RECURSIVE SubSmall(_, _, _)
SubSmall(ds, n, b) ==
  IF n = 0 THEN ds
  ELSE LET l == Len(ds)  d == ds[l] - (n % b)  fr == SubSeq(ds, 1, l - 1) IN
       IF d >= 0 THEN Append(SubSmall(fr, n \div b, b), d)
       ELSE Append(SubSmall(fr, (n \div b) + 1, b), d + b)
\* digits of the 64-bit two's complement of -mag (mag > 0): 2^64 - mag
TwoCompl(mag, b) == SubSmall(AllOnes(b), mag - 1, b)

DigitByte(d, upper) == IF d < 10 THEN 48 + d ELSE (IF upper THEN 55 ELSE 87) + d

\* UTF-8 encoding of a code point
Utf8(cp) ==
  IF cp < 128 THEN <<cp>>
  ELSE IF cp < 2048 THEN <<192 + (cp \div 64), 128 + (cp % 64)>>
  ELSE IF cp < 65536 THEN <<224 + (cp \div 4096), 128 + ((cp \div 64) % 64), 128 + (cp % 64)>>
  ELSE <<240 + (cp \div 262144), 128 + ((cp \div 4096) % 64), 128 + ((cp \div 64) % 64), 128 + (cp % 64)>>
ValidCodePoint(cp) == cp <= 1114111 /\ ~(cp >= 55296 /\ cp <= 57343)


\* ======================================================================
\* Backslash escapes.  t[i] = "\\".  Result: bytes produced, index to continue at,
\* stop (a \c that ends all output), names of deviations that fired, scope.

SimpleEsc == [c \in {"a","b","e","E","f","n","r","t","v","\\"} |->
   CASE c = "a" -> 7 [] c = "b" -> 8 [] c \in {"e","E"} -> 27 [] c = "f" -> 12 [] c = "n" -> 10
     [] c = "r" -> 13 [] c = "t" -> 9 [] c = "v" -> 11 [] c = "\\" -> 92]

ER(u, nx, fired) == [u |-> u, nx |-> nx, stop |-> FALSE, fired |-> fired, ok |-> TRUE]
BS == <<92>>      \* a backslash

\* Octal escape, contract.
\*   fmt : \ + 1..3 octal digits                       (value mod 256)
\*   b   : \0 + 0..3 octal digits, or \ + 1..3 digits
\*   echo: \0 + 0..3 octal digits only; \1..\7 is not an escape
OctC(t, i, dia) ==
  LET lead0 == t[i + 1] = "0" /\ dia # "fmt"
      s == IF lead0 THEN i + 2 ELSE i + 1
      e == RunEnd(t, s, OctChars, 3)
  IN IF dia = "echo" /\ ~lead0 THEN ER(BS, i + 1, {})
     ELSE ER(<<NumVal(t, s, e - 1, 8) % 256>>, e, {})
\* Deviation (expand.go readDigits + ParseUint(digits, 8, 8)): in every dialect the escape is
\* \ + 1..3 *decimal* digits; a digit 8 or 9 makes the value 0, a value above 255 becomes 255.
OctD(t, i, dia) ==
  LET e == RunEnd(t, i + 1, DecChars, 3)
      has89 == \E k \in (i + 1)..(e - 1) : t[k] \in {"8", "9"}
      v == IF has89 THEN 0 ELSE NumVal(t, i + 1, e - 1, 8)
      c == OctC(t, i, dia)
      d == ER(<<IF v > 255 THEN 255 ELSE v>>, e, {})
      name == IF dia # "fmt" /\ t[i + 1] = "0" THEN "BOctalLeadingZero"
              ELSE IF dia = "echo" THEN "EchoOctalWithoutZero"
              ELSE IF has89 THEN "OctalDigits89" ELSE "OctalOverflow"
  IN IF d.u = c.u /\ d.nx = c.nx THEN d ELSE [d EXCEPT !.fired = {name}]

\* \xH[H], \uH[HHH], \UH[HHHHHHH]
HexEsc(t, i, dev) ==
  LET c == t[i + 1]
      n == IF c = "x" THEN 2 ELSE IF c = "u" THEN 4 ELSE 8
      e == RunEnd(t, i + 2, HexChars, n)
  IN IF e = i + 2 THEN (IF dev THEN ER(BS \o Bytes(c), i + 2, {}) ELSE ER(BS, i + 1, {}))   \* no digit: not an escape
     ELSE IF e - (i + 2) = 8 /\ DigitVal[t[i + 2]] > 7 THEN [ER(<<>>, e, {}) EXCEPT !.ok = FALSE]
     ELSE LET v == NumVal(t, i + 2, e - 1, 16) IN
          IF c = "x" THEN ER(<<v>>, e, {})
          ELSE IF ValidCodePoint(v) THEN ER(Utf8(v), e, {})
          ELSE [ER(<<>>, e, {}) EXCEPT !.ok = FALSE]    \* surrogates, > U+10FFFF: out of scope

Esc(t, i, dia, dev) ==
  IF i = Len(t) THEN ER(BS, i + 1, {})               \* a trailing backslash is itself
  ELSE LET c == t[i + 1] IN
    IF c \in DOMAIN SimpleEsc THEN ER(<<SimpleEsc[c]>>, i + 2, {})
    ELSE IF c \in {"'", "\"", "?"} THEN
       \* format: the character.  %b / echo -e: left alone, with the backslash.
       IF dia = "fmt" THEN ER(Bytes(c), i + 2, {})
       ELSE IF dev THEN ER(Bytes(c), i + 2, {"BQuoteUnescaped"})       \* Dev: same as in a format
       ELSE ER(BS \o Bytes(c), i + 2, {})
    ELSE IF c = "c" /\ dia # "fmt" THEN
       \* \c: produce no further output
       IF dev THEN ER(BS \o Bytes(c), i + 2, {"BackslashCNotHonoured"}) \* Dev: unknown escape
       ELSE [ER(<<>>, i + 2, {}) EXCEPT !.stop = TRUE]
    ELSE IF c \in OctChars THEN (IF dev THEN OctD(t, i, dia) ELSE OctC(t, i, dia))
    ELSE IF c \in {"x", "u", "U"} THEN HexEsc(t, i, dev)
    ELSE \* not an escape: the backslash is output, the next character is ordinary text
         \* (in a format, `\%d` is a backslash followed by the directive %d)
         \* Dev: backslash and character are both copied (this only matters before a "%" in a
         \* format, and inside an open directive, see DirD)
         IF dev THEN ER(BS \o Bytes(c), i + 2, IF dia = "fmt" /\ c = "%" THEN {"UnknownEscapeSwallowsPercent"} ELSE {})
         ELSE ER(BS, i + 1, {})

\* ======================================================================
\* Numeric arguments

SkipSpaces(a) == RunEnd(a, 1, {" "}, Len(a))

\* strtoimax(arg, &end, 0) as used by bash: value of the longest valid prefix;
\* err = a character is left over (bash: "invalid number", status 1, output continues).
\* A leading quote gives the code of the next character.
CNum(a) ==
  IF a = <<>> THEN [neg |-> FALSE, mag |-> 0, err |-> FALSE]
  ELSE IF a[1] \in {"'", "\""} THEN
       [neg |-> FALSE, mag |-> IF Len(a) >= 2 THEN CharCode(a[2]) ELSE 0, err |-> FALSE]
  ELSE LET s   == SkipSpaces(a)
           sg  == IF s <= Len(a) /\ a[s] \in {"+", "-"} THEN 1 ELSE 0
           p   == s + sg
           hex == p + 2 <= Len(a) /\ a[p] = "0" /\ a[p + 1] \in {"x", "X"} /\ a[p + 2] \in HexChars
           b   == IF hex THEN 16 ELSE IF p <= Len(a) /\ a[p] = "0" THEN 8 ELSE 10
           st  == IF hex THEN p + 2 ELSE p
           e   == RunEnd(a, st, DigitsOfBase(b), Len(a))
           mag == NumVal(a, st, e - 1, b)
       IN IF e = st THEN [neg |-> FALSE, mag |-> 0, err |-> TRUE]        \* no digits: end = start
          ELSE [neg |-> sg = 1 /\ a[s] = "-" /\ mag > 0, mag |-> mag, err |-> e <= Len(a)]

\* Deviation (expand.go: `n, _ := strconv.ParseInt(arg, 0, 0)`): Go literal syntax (0b, 0o,
\* underscores, no blanks, no quote form), value 0 unless the whole argument is valid, never an error.
GoNum(a) ==
  LET sg  == IF a # <<>> /\ a[1] \in {"+", "-"} THEN 1 ELSE 0
      p   == 1 + sg
      l   == Len(a) - sg                       \* length without the sign
      pre == l >= 3 /\ a[p] = "0" /\ a[p + 1] \in {"x","X","b","B","o","O"}
      b   == IF pre THEN (IF a[p + 1] \in {"x","X"} THEN 16 ELSE IF a[p + 1] \in {"b","B"} THEN 2 ELSE 8)
             ELSE IF l >= 1 /\ a[p] = "0" THEN 8 ELSE 10
      st  == IF pre THEN p + 2 ELSE IF b = 8 THEN p + 1 ELSE p
      ds  == DigitsOfBase(b)
      \* an underscore must follow a digit or the base prefix and precede a digit
      usok(k) == /\ k < Len(a) /\ a[k + 1] \in ds
                 /\ (a[k - 1] \in ds \/ (k = st /\ (pre \/ b = 8)))
      valid == /\ l >= 1
               /\ \A k \in st..Len(a) : a[k] \in ds \/ (a[k] = "_" /\ k > 1 /\ usok(k))
      nound == SelectSeq(SubSeq(a, st, Len(a)), LAMBDA c : c # "_")
      mag == IF valid THEN NumVal(nound, 1, Len(nound), b) ELSE 0
  IN [neg |-> sg = 1 /\ a[1] = "-" /\ mag > 0, mag |-> mag, err |-> FALSE]

\* ======================================================================
\* Conversions.  F = set of flag characters, w = width (0 = none), p = precision (-1 = none)

\* pad bs with n more bytes
PadBy(bs, n, left, padbyte) ==
  LET pad == [k \in 1..n |-> padbyte] IN IF left THEN bs \o pad ELSE pad \o bs
PadTo(bs, w, left, padbyte) == PadBy(bs, Max(0, w - Len(bs)), left, padbyte)

\* %d %i %u %o %x %X of the value (neg, mag) as C's printf does for a 64-bit integer.
\* dev: Go's fmt prints the + or space flag on unsigned conversions too.
ConvInt(neg, mag, conv, F, w, p, dev) ==
  LET signed == conv \in {"d", "i"}
      b    == IF conv = "o" THEN 8 ELSE IF conv \in {"x", "X"} THEN 16 ELSE 10
      dg0  == IF ~signed /\ neg THEN TwoCompl(mag, b) ELSE Digits(mag, b)
      dg1  == IF p < 0 THEN dg0
              ELSE IF mag = 0 /\ p = 0 THEN <<>>
              ELSE [k \in 1..(Max(p, Len(dg0)) - Len(dg0)) |-> 0] \o dg0
      dg2  == IF "#" \in F /\ conv = "o" /\ (dg1 = <<>> \/ dg1[1] # 0) THEN <<0>> \o dg1 ELSE dg1
      pre  == IF "#" \in F /\ b = 16 /\ mag # 0 THEN <<48, IF conv = "X" THEN 88 ELSE 120>> ELSE <<>>
      flagsign == IF "+" \in F THEN <<43>> ELSE IF " " \in F THEN <<32>> ELSE <<>>
      sign == IF signed THEN (IF neg THEN <<45>> ELSE flagsign)
              ELSE IF dev THEN flagsign ELSE <<>>
      body == [k \in 1..Len(dg2) |-> DigitByte(dg2[k], conv = "X")]
      nz   == IF "0" \in F /\ "-" \notin F /\ p < 0
              THEN Max(0, w - Len(sign) - Len(pre) - Len(body)) ELSE 0
      core == sign \o pre \o [k \in 1..nz |-> 48] \o body
      fired == IF dev /\ ~signed /\ flagsign # <<>> THEN {"SignFlagOnUnsigned"} ELSE {}
  IN [u |-> PadTo(core, w, "-" \in F, 32), fired |-> fired]

\* %s, and the padding of %c and %b: precision truncates, width pads with blanks, both counted
\* in bytes (the 0 flag has no effect on these).  nchars = number of characters of the text.
\* dev: Go's fmt counts characters for the width, and pads strings with zeros under the 0 flag.
ConvStr(bs, nchars, F, w, p, dev) ==
  LET tr   == IF p >= 0 /\ Len(bs) > p THEN SubSeq(bs, 1, p) ELSE bs
      n    == Max(0, w - (IF dev THEN nchars ELSE Len(tr)))
      zero == dev /\ "0" \in F /\ "-" \notin F /\ n > 0
  IN [u |-> PadBy(tr, n, "-" \in F, IF zero THEN 48 ELSE 32),
      fired |-> (IF zero THEN {"ZeroFlagPadsString"} ELSE {})
                \cup (IF dev /\ n # Max(0, w - Len(tr)) THEN {"WidthCountsCharacters"} ELSE {})]

\* ======================================================================
\* One conversion specification.  t[i] = "%".

FlagChars == {"-", "0", "+", " ", "#"}
ConvChars == {"s", "b", "c", "d", "i", "u", "o", "x", "X"}
\* conversions and length modifiers of bash that are outside this contract (C24 lists
\* %s %b %c %d %i %u %o %x %%): a format that uses one is out of scope
OtherConvChars == {"e", "E", "f", "F", "g", "G", "a", "A", "q", "Q", "n", "T", "(", "*",
                   "h", "l", "L", "j", "z", "t"}

ParseDir(t, i) ==
  LET fe == RunEnd(t, i + 1, FlagChars, Len(t))
      we == RunEnd(t, fe, DecChars, Len(t))
      dot == we <= Len(t) /\ t[we] = "."
      pe == IF dot THEN RunEnd(t, we + 1, DecChars, Len(t)) ELSE we
  IN [flags |-> SubSeq(t, i + 1, fe - 1),
      w     |-> NumVal(t, fe, we - 1, 10),
      p     |-> IF dot THEN NumVal(t, we + 1, pe - 1, 10) ELSE -1,
      conv  |-> IF pe <= Len(t) THEN t[pe] ELSE "",           \* "" : the format ends here
      nx    |-> pe + 1]

DR(kind, u, nx, rest, cerr, fired) ==
  [kind |-> kind, u |-> u, nx |-> nx, rest |-> rest, cerr |-> cerr, fired |-> fired, ok |-> TRUE]

RECURSIVE Scan(_, _, _, _, _)

\* Convert one argument.  kind: "ok" | "c" (a \c in a %b argument) | "fatal"
Convert(d, rest, dev) ==
  LET has == rest # <<>>
      a   == IF has THEN Head(rest) ELSE <<>>
      rs  == IF has THEN Tail(rest) ELSE rest
      F   == {d.flags[k] : k \in 1..Len(d.flags)}
  IN IF d.conv = "s" THEN
       LET r == ConvStr(UnitsOf(a), Len(a), F, d.w, d.p, dev) IN DR("ok", r.u, d.nx, rs, FALSE, r.fired)
     ELSE IF d.conv = "c" THEN
       \* the first byte of the argument; a NUL byte when it is empty or missing
       LET ch == IF a = <<>> THEN <<0>> ELSE <<Head(Bytes(a[1]))>>
           c0 == ConvStr(ch, 1, F, d.w, -1, FALSE).u IN
       IF dev THEN \* Dev: written without looking at flags or width
            DR("ok", ch, d.nx, rs, FALSE, IF ch # c0 THEN {"CharIgnoresWidth"} ELSE {})
       ELSE DR("ok", c0, d.nx, rs, FALSE, {})
     ELSE IF d.conv = "b" THEN
       LET e == Scan(a, 1, [out |-> <<>>, rest |-> <<>>, cerr |-> FALSE, fired |-> {}, kind |-> "end", ok |-> TRUE], "b", dev)
           c0 == ConvStr(e.out, 0, F, d.w, d.p, FALSE).u
           u  == IF dev THEN e.out ELSE c0               \* Dev: width and precision ignored
           f  == e.fired \cup (IF dev /\ e.out # c0 THEN {"PercentBIgnoresWidth"} ELSE {})
       IN [DR(IF e.kind = "c" THEN "c" ELSE "ok", u, d.nx, rs, FALSE, f) EXCEPT !.ok = e.ok]
     ELSE \* d i u o x X
       LET n  == CNum(a)
           g  == GoNum(a)
           v  == IF dev THEN g ELSE n
           r  == ConvInt(v.neg, v.mag, d.conv, F, d.w, d.p, dev)
           f  == IF ~dev THEN {}
                 ELSE (IF g.neg # n.neg \/ g.mag # n.mag THEN {"NumberSyntaxGo"} ELSE {})
                      \cup (IF n.err THEN {"InvalidNumberStatusZero"} ELSE {})
       IN DR("ok", r.u, d.nx, rs, v.err, r.fired \cup f)

Fatal(d, rest, fired) == DR("fatal", <<>>, d.nx, rest, FALSE, fired)

\* Contract: "%%" is a percent sign; otherwise flags, width, precision and a conversion
\* character; anything else (an unknown character, a "%" after modifiers, the end of the
\* format) is an error: bash stops there with status 1, keeping the output so far.
DirC(t, i, rest) ==
  LET d == ParseDir(t, i) IN
  IF d.conv = "%" /\ d.nx = i + 2 THEN DR("ok", Bytes("%"), d.nx, rest, FALSE, {})
  ELSE IF d.conv \in ConvChars THEN Convert(d, rest, FALSE)
  ELSE [Fatal(d, rest, {}) EXCEPT !.ok = d.conv \notin OtherConvChars]

\* Deviations of expand.go formatInto: "+", "-", " " are accepted only directly after the "%";
\* "#", ".", "X" are rejected ("invalid format char"); a "%" after modifiers prints a percent sign;
\* a backslash escape inside an open directive is expanded and written on the spot and the directive
\* goes on after it (`%\n5d` = newline, then %5d) where bash reports an invalid format character.
RECURSIVE DirD(_, _, _)
DirD(t, i, rest) ==
  LET d == ParseDir(t, i)
      badflag == {k \in 1..Len(d.flags) : d.flags[k] = "#" \/ (k >= 2 /\ d.flags[k] # "0")}
      firstbad == CHOOSE k \in badflag : \A j \in badflag : k <= j
  IN IF d.conv = "%" /\ d.nx = i + 2 THEN DR("ok", Bytes("%"), d.nx, rest, FALSE, {})
     ELSE IF d.conv = "\\" THEN
          LET pe == d.nx - 1
              e  == Esc(t, pe, "fmt", TRUE)
              r  == DirD(SubSeq(t, 1, pe - 1) \o SubSeq(t, e.nx, Len(t)), i, rest)    \* the directive without the escape
          IN [r EXCEPT !.u = e.u \o @, !.nx = @ + (e.nx - pe), !.ok = @ /\ e.ok,
                       !.fired = @ \cup e.fired \cup {"EscapeInsideDirective"}]
     ELSE IF badflag # {} THEN
          Fatal(d, rest, IF d.conv \in ConvChars
                         THEN {IF d.flags[firstbad] = "#" THEN "HashFlagRejected" ELSE "FlagOrderRejected"} ELSE {})
     ELSE IF d.p >= 0 THEN Fatal(d, rest, IF d.conv \in ConvChars THEN {"PrecisionRejected"} ELSE {})
     ELSE IF d.conv = "%" THEN DR("ok", Bytes("%"), d.nx, rest, FALSE, {"PercentAfterModifiersAccepted"})
     ELSE IF d.conv = "X" THEN Fatal(d, rest, {"UpperXRejected"})
     ELSE IF d.conv \in ConvChars THEN Convert(d, rest, TRUE)
     ELSE [Fatal(d, rest, {}) EXCEPT !.ok = d.conv \notin OtherConvChars]

\* ======================================================================
\* One pass over a text.  st = [out, rest, cerr, fired, kind, ok]
\* kind: "end" (whole text processed) | "c" (stopped by \c) | "fatal"

Scan(t, i, st, dia, dev) ==
  IF i > Len(t) THEN st
  ELSE IF t[i] = "\\" THEN
    LET e == Esc(t, i, dia, dev)
        s1 == [st EXCEPT !.out = @ \o e.u, !.fired = @ \cup e.fired, !.ok = @ /\ e.ok]
    IN IF e.stop THEN [s1 EXCEPT !.kind = "c"] ELSE Scan(t, e.nx, s1, dia, dev)
  ELSE IF t[i] = "%" /\ dia = "fmt" THEN
    LET d == IF dev THEN DirD(t, i, st.rest) ELSE DirC(t, i, st.rest)
        s1 == [out |-> st.out \o d.u, rest |-> d.rest, cerr |-> st.cerr \/ d.cerr,
               fired |-> st.fired \cup d.fired, kind |-> st.kind, ok |-> st.ok /\ d.ok]
    IN IF d.kind = "ok" THEN Scan(t, d.nx, s1, dia, dev) ELSE [s1 EXCEPT !.kind = d.kind]
  ELSE Scan(t, i + 1, [st EXCEPT !.out = @ \o Bytes(t[i])], dia, dev)

Start(rest) == [out |-> <<>>, rest |-> rest, cerr |-> FALSE, fired |-> {}, kind |-> "end", ok |-> TRUE]

\* What one call of expand.Format(cfg, fmt, args) must return: the text of one pass, the
\* number of arguments it used, and an error exactly for a malformed format.
Pass(fmt, args, dev) ==
  LET s == Scan(fmt, 1, Start(args), "fmt", dev) IN
  [out |-> s.out, n |-> Len(args) - Len(s.rest), fatal |-> s.kind = "fatal", kind |-> s.kind]

\* ======================================================================
\* printf FORMAT ARGS...: the format is reused while arguments remain and a pass consumed
\* at least one.  Status: 1 after a malformed format or an invalid number, else 0
\* (bash returns 0 when a \c ended the output, whatever happened before).
RECURSIVE Loop(_, _, _, _, _)
Loop(fmt, rest, acc, fuel, dev) ==
  LET s   == Scan(fmt, 1, Start(rest), "fmt", dev)
      drop == dev /\ s.kind = "fatal"                 \* Dev: the output of the failing pass is lost
      out == IF drop THEN acc.out ELSE acc.out \o s.out
      fired == acc.fired \cup s.fired \cup (IF drop /\ s.out # <<>> THEN {"OutputBeforeErrorLost"} ELSE {})
      cerr == acc.cerr \/ s.cerr
      first == IF acc.passes = 0
               THEN [out |-> s.out, n |-> Len(rest) - Len(s.rest), fatal |-> s.kind = "fatal", kind |-> s.kind]
               ELSE acc.first
      R(status, left, exhausted) ==
         [out |-> out, status |-> status, left |-> Len(left), passes |-> acc.passes + 1,
          kind |-> s.kind, fired |-> fired, exhausted |-> exhausted, ok |-> acc.ok /\ s.ok, first |-> first]
  IN IF s.kind = "fatal" THEN R(1, s.rest, FALSE)
     ELSE IF s.kind = "c" THEN R(0, s.rest, FALSE)
     ELSE IF s.rest = <<>> \/ Len(s.rest) = Len(rest) THEN R(IF cerr THEN 1 ELSE 0, s.rest, FALSE)
     ELSE IF fuel = 0 THEN R(2, s.rest, TRUE)
     ELSE Loop(fmt, s.rest, [out |-> out, fired |-> fired, cerr |-> cerr, passes |-> acc.passes + 1,
                             ok |-> acc.ok /\ s.ok, first |-> first], fuel - 1, dev)

Printf(fmt, args, dev) ==
  Loop(fmt, args, [out |-> <<>>, fired |-> {}, cerr |-> FALSE, passes |-> 0, ok |-> TRUE, first |-> <<>>], Len(args), dev)

\* printf -- FORMAT ARGS...: a leading "--" ends the (empty) option list and is skipped.
\* Dev (interp/builtin.go "printf"): no option parsing, "--" is taken as the format.
PrintfDashDash(fmt, args, dev) ==
  IF dev THEN LET r == Printf(<<"-", "-">>, <<fmt>> \o args, TRUE) IN [r EXCEPT !.fired = @ \cup {"DashDashNotSkipped"}]
  ELSE Printf(fmt, args, FALSE)

\* ======================================================================
\* echo WORDS...: leading words of the form -[neE]+ are option clusters, applied left to
\* right (-E switches escapes off again).  With -e each argument is expanded by the "echo"
\* dialect; a \c ends all output including the newline.
IsCluster(w) == Len(w) >= 2 /\ w[1] = "-" /\ \A k \in 2..Len(w) : w[k] \in {"n", "e", "E"}
IsPlainOpt(w) == w \in {<<"-", "n">>, <<"-", "e">>, <<"-", "E">>}       \* Dev: only these three

RECURSIVE EchoArgs(_, _, _, _, _)
EchoArgs(ws, k, e, acc, dev) ==       \* acc = [out, stop, fired, ok]
  IF k > Len(ws) \/ acc.stop THEN acc
  ELSE LET sep == IF acc.first THEN <<>> ELSE <<32>>
           s == IF e THEN Scan(ws[k], 1, Start(<<>>), "echo", dev)
                ELSE [Start(<<>>) EXCEPT !.out = UnitsOf(ws[k])]
       IN EchoArgs(ws, k + 1, e,
                   [out |-> acc.out \o sep \o s.out, stop |-> s.kind = "c", first |-> FALSE,
                    fired |-> acc.fired \cup s.fired, ok |-> acc.ok /\ s.ok], dev)

RECURSIVE EchoOpts(_, _, _, _)
EchoOpts(ws, k, o, dev) ==            \* o = [n, e, k]
  IF k > Len(ws) \/ ~(IF dev THEN IsPlainOpt(ws[k]) ELSE IsCluster(ws[k])) THEN [o EXCEPT !.k = k]
  ELSE LET w == ws[k]
           has(c) == \E j \in 2..Len(w) : w[j] = c
           \* within a cluster the letters apply left to right; only e/E order matters
           lastE == CHOOSE j \in 2..Len(w) : w[j] \in {"e","E"} /\ \A m \in 2..Len(w) : w[m] \in {"e","E"} => m <= j
           e1 == IF has("e") \/ has("E")
                 THEN (IF dev THEN (o.e \/ has("e")) ELSE w[lastE] = "e")
                 ELSE o.e
       IN EchoOpts(ws, k + 1, [n |-> o.n \/ has("n"), e |-> e1, k |-> k], dev)

Echo(ws, dev) ==
  LET o  == EchoOpts(ws, 1, [n |-> FALSE, e |-> FALSE, k |-> 1], dev)
      oc == EchoOpts(ws, 1, [n |-> FALSE, e |-> FALSE, k |-> 1], FALSE)
      r  == EchoArgs(ws, o.k, o.e, [out |-> <<>>, stop |-> FALSE, first |-> TRUE, fired |-> {}, ok |-> TRUE], dev)
      nl == IF o.n \/ r.stop THEN <<>> ELSE <<10>>
      f  == IF ~dev THEN {}
            ELSE IF o.k # oc.k THEN {"EchoOptionClusters"}
            ELSE IF o.e # oc.e THEN {"EchoBigEDoesNotReset"} ELSE {}
  IN [out |-> r.out \o nl, status |-> 0, fired |-> r.fired \cup f, ok |-> r.ok,
      kind |-> IF r.stop THEN "c" ELSE "end", left |-> 0, passes |-> 1, exhausted |-> FALSE]

\* ======================================================================
\* The input builder

VARIABLES Family,  \* the family this behaviour builds an input of
          fmt,     \* the format text (or, for "esc", the text under test)
          cat,     \* grammar category of the last fragment: "lit" "pct" "flag" "width" "prec" "num" "args"
          units,   \* number of units / fragments so far
          nflags,  \* flags in the open directive / digits after the last numeric escape head
          conv,    \* conversion character of the last complete directive ("" if none)
          words    \* argument list (for "echo": all words)
vars == <<Family, fmt, cat, units, nflags, conv, words>>
MaxUnits == CASE Family = "dir" -> 1 [] Family = "reuse" -> ReuseUnits [] Family = "esc" -> 2
              [] Family = "echo" -> EchoMaxWords [] Family = "mix" -> MixUnits
MaxArgs  == CASE Family = "dir" -> 1 [] Family = "reuse" -> ReuseArgs [] Family = "mix" -> MixArgs [] OTHER -> 0

\* --- menus (texts)
T1(a) == <<a>>
Flags  == IF Rich THEN {"-", "0", "+", " ", "#"} ELSE {"-", "0", "+", " ", "#"}
Widths == IF Rich THEN {<<"5">>, <<"1","0">>} ELSE {<<"5">>}
Precs  == IF Rich THEN {<<".","2">>, <<".">>, <<".","0">>} ELSE {<<".","2">>, <<".">>}
Convs  == {"s", "b", "c", "d", "i", "u", "o", "x", "X", "%", "y"}

NumArgs == {<<>>, <<"5">>, <<"-","3">>, <<"0","x","1","0">>, <<"0","1","7">>, <<"x">>, <<"3","x">>,
            <<"0">>, <<" ","5">>, <<"5"," ">>, <<"+","5">>, <<"'","a">>, <<"\"","b">>, <<"0","x">>,
            <<"0","8">>, <<"1","_","0">>, <<"0","b","1","1">>, <<"-","0">>, <<"2","5","5">>}
        \cup (IF Rich THEN {<<"-","x">>, <<"'">>, <<"'","a","b">>, <<"'","eacute">>, <<"0","o","1","7">>, <<"0","X","1","F">>,
                            <<"-","0","x","1","0">>, <<"1","e","3">>, <<"3",".","5">>, <<" ">>, <<"-","1">>,
                            <<"-","-","3">>, <<"0","x","1","g">>, <<"1","2","3","4","5","6">>, <<"-","1","2","3","4","5","6">>,
                            <<"0","_","7">>, <<"0","x","_","1">>, <<"1","_">>, <<"_","1">>, <<"+">>, <<"-">>}
              ELSE {})
NumArgsSmall == {<<>>, <<"5">>, <<"-","3">>, <<"0">>, <<"3","x">>, <<"2","5","5">>, <<"0","x","1","0">>}
StrArgs == {<<>>, <<"a","b","c">>, <<"eacute","a">>, <<"a","b","c","d","e","f","g">>}
        \cup (IF Rich THEN {<<"a">>, <<"eacute">>, <<"%","d">>, <<"a"," ","b">>, <<"a","\\","n">>} ELSE {})
BArgs   == {<<>>, <<"a","\\","n","b">>, <<"a","\\","c","b">>, <<"\\","0","1","0","1">>, <<"a","b","c","d","e","f","g">>,
            <<"%","d">>}
        \cup (IF Rich THEN {<<"\\","c">>, <<"eacute">>, <<"\\","1","0","1">>, <<"a","\\">>, <<"\\","'">>, <<"\\","x","4","1","\\","c">>} ELSE {})
\* the reuse family varies the *number* of arguments (0..4) over a small menu; the other numeric
\* forms of DESIGN 7/C24 (0x10 017 x ...) are in NumArgs, crossed with every conversion by "dir"
BasicArgs == {<<>>, <<"a","b","c">>, <<"5">>, <<"3","x">>, <<"a","\\","n","b">>}
ArgMenu(c) == IF Family \in {"reuse"} THEN BasicArgs
              ELSE IF Family = "mix" THEN BasicArgs \cup NumArgs \cup StrArgs \cup BArgs
              ELSE IF c \in {"s", "c"} THEN StrArgs
              ELSE IF c = "b" THEN BArgs
              ELSE IF c \in {"%", "y", ""} THEN {<<>>, <<"5">>}
              ELSE IF Len(fmt) = 2 THEN NumArgs          \* plain %d ...: every numeric form
              ELSE NumArgsSmall                          \* with flags/width/precision: a few values

ReuseMenu == {<<"a">>, <<"\\","n">>, <<"%","s">>, <<"%","d">>, <<"%","c">>, <<"%","b">>, <<"%","%">>, <<"%","y">>, <<"%">>}

\* escape family: heads (each starts an escape) and the characters that may follow
EscHeads == { <<"\\", c>> : c \in {"a","b","e","E","f","n","r","t","v","\\","'","\"","?","c","q","%",
                                   "0","1","4","7","8","x","u","U"} }
EscTail  == {"0","1","8","e"}
EscLits  == {<<"a">>, <<"\\">>, <<"%">>}

EchoWords == {<<"-","n">>, <<"-","e">>, <<"-","E">>, <<"-","n","e">>, <<"-","e","E">>, <<"-","E","e">>,
              <<"-","e","x">>, <<"-">>, <<"-","-">>, <<"a">>, <<"a","\\","n","b">>, <<"b","\\","c">>,
              <<"\\","1","0","1">>, <<"\\","0","1","0","1">>, <<"%","d">>}
           \cup (IF Rich THEN {<<"-","e","n">>, <<"-","n","n">>, <<"-","n","E">>, <<>>, <<"\\","'">>, <<"\\","x","4","1">>} ELSE {})

Init == Family \in Families /\ fmt = <<>> /\ cat = "lit" /\ units = 0 /\ nflags = 0 /\ conv = "" /\ words = <<>>

InDir == cat \in {"pct", "flag", "width", "prec"}
Add(frag, c, du) == /\ fmt' = fmt \o frag /\ cat' = c /\ units' = units + du
                    /\ UNCHANGED <<words, Family>>

\* --- directive grammar:  %  flag*  width?  precision?  conv
StartDir == /\ cat \in {"lit", "num"} /\ units < MaxUnits
            /\ Add(<<"%">>, "pct", 1) /\ nflags' = 0 /\ UNCHANGED conv
AddFlag  == /\ cat \in {"pct", "flag"} /\ nflags < MaxFlags
            /\ \E f \in Flags : Add(<<f>>, "flag", 0)
            /\ nflags' = nflags + 1 /\ UNCHANGED conv
AddWidth == /\ cat \in {"pct", "flag"} /\ \E w \in Widths : Add(w, "width", 0) /\ UNCHANGED <<nflags, conv>>
AddPrec  == /\ cat \in {"pct", "flag", "width"} /\ \E p \in Precs : Add(p, "prec", 0) /\ UNCHANGED <<nflags, conv>>
AddConv  == /\ InDir /\ \E c \in Convs : (Add(<<c>>, "lit", 0) /\ conv' = c) /\ UNCHANGED nflags
\* --- other fragments
\* (in the esc family only the first escape is followed by digits, and nothing follows the digits)
AddLit(S) == /\ cat \in {"lit", "num"} /\ units < MaxUnits /\ (Family = "mix" \/ cat = "lit" \/ nflags = 0)
             /\ \E l \in S : Add(l, "lit", 1) /\ nflags' = 0 /\ UNCHANGED conv
AddHead   == /\ cat \in {"lit", "num"} /\ units < MaxUnits /\ (Family = "mix" \/ cat = "lit" \/ nflags = 0)
             /\ \E h \in EscHeads : Add(h, IF h[2] \in {"0","1","4","7","8","x","u","U"} THEN "num" ELSE "lit", 1)
             /\ nflags' = 0 /\ UNCHANGED conv
AddTail   == /\ cat = "num" /\ nflags < MaxTail /\ (units = 1 \/ Family = "mix")
             /\ \E c \in EscTail : Add(<<c>>, "num", 0) /\ nflags' = nflags + 1 /\ UNCHANGED conv
AddUnit   == /\ cat = "lit" /\ units < MaxUnits
             /\ \E u \in ReuseMenu :
                  Add(u, IF u[Len(u)] \in {"%", "5"} /\ u # <<"%","%">> THEN "pct" ELSE "lit", 1)
             /\ UNCHANGED <<nflags, conv>>
\* --- arguments (after the format is finished; an unfinished directive is a valid test)
AddArg    == /\ fmt # <<>> /\ Len(words) < MaxArgs
             /\ (Family = "reuse" => units + Len(words) < ReuseSum)
             /\ \E a \in ArgMenu(IF InDir THEN "" ELSE conv) : words' = Append(words, a)
             /\ cat' = "args" /\ UNCHANGED <<Family, fmt, units, nflags, conv>>
AddWord   == /\ Len(words) < MaxUnits /\ \E w \in EchoWords : words' = Append(words, w)
             /\ UNCHANGED <<Family, fmt, cat, units, nflags, conv>>

Next ==
  CASE Family = "dir"   -> (fmt = <<>> /\ StartDir) \/ AddFlag \/ AddWidth \/ AddPrec \/ AddConv
                           \/ AddArg
    [] Family = "reuse" -> AddUnit \/ AddArg
    [] Family = "esc"   -> AddHead \/ AddTail \/ AddLit(EscLits)
    [] Family = "echo"  -> AddWord
    [] Family = "mix"   -> StartDir \/ AddFlag \/ AddWidth \/ AddPrec \/ AddConv \/ AddHead \/ AddTail
                           \/ AddLit(EscLits \cup {<<"|">>}) \/ AddArg
Spec == Init /\ [][Next]_vars

\* ======================================================================
\* The cases a state stands for: each is one command line  cmd words...

Case(cmd, ws, c, d) ==
  [cmd |-> cmd, words |-> ws, out |-> c.out, status |-> c.status, kind |-> c.kind,
   dout |-> d.out, dstatus |-> d.status, fired |-> d.fired, scope |-> c.ok /\ d.ok]

\* the reuse loop needs no more passes than there are arguments (fuel never runs out); unless
\* the output was cut short every argument is consumed when a pass consumes any, and exactly
\* one pass is made when no directive consumes; the status is 0 or 1.
LoopLaws(c, nargs) ==
    /\ ~c.exhausted /\ c.passes <= nargs + 1                                   \* Terminates
    /\ (c.kind = "end" => IF c.first.n = 0 THEN c.passes = 1 ELSE c.left = 0)  \* AllConsumed
    /\ c.status \in {0, 1}
    /\ (c.kind = "fatal" => c.status = 1) /\ (c.kind = "c" => c.status = 0)

PrintfCase(f, as) ==
  LET c == Printf(f, as, FALSE)  d == Printf(f, as, TRUE)
  IN Case("printf", <<f>> \o as, c, d) @@
     [pass |-> [out |-> c.first.out, n |-> c.first.n, fatal |-> c.first.fatal, kind |-> c.first.kind,
                dout |-> d.first.out, dn |-> d.first.n, dfatal |-> d.first.fatal],
      laws |-> LoopLaws(c, Len(as)),
      nontrivial |-> c.out # UnitsOf(f)]
DashDashCase(f, as) ==
  LET c == PrintfDashDash(f, as, FALSE)  d == PrintfDashDash(f, as, TRUE)
  IN Case("printf", << <<"-", "-">>, f>> \o as, c, d) @@ [laws |-> LoopLaws(c, Len(as)), nontrivial |-> TRUE]
EchoCase(ws) ==
  LET c == Echo(ws, FALSE)  d == Echo(ws, TRUE)
  IN Case("echo", ws, c, d) @@
     [laws |-> TRUE,
      nontrivial |-> \E k \in 1..Len(ws) : IsCluster(ws[k]) \/ "\\" \in {ws[k][j] : j \in 1..Len(ws[k])}]

PipeB == <<"%", "b", "|">>
Cases ==
  CASE Family = "esc"  -> << PrintfCase(fmt, <<>>), PrintfCase(PipeB, <<fmt, <<"z">> >>),
                             EchoCase(<< <<"-","e">>, fmt, <<"z">> >>) >>
    [] Family = "echo" -> << EchoCase(words) >>
    [] Family = "dir"  -> << PrintfCase(fmt \o <<"|">>, words) >>
    [] Family = "reuse" /\ units = 1 -> << PrintfCase(fmt, words), DashDashCase(fmt, words) >>
    [] OTHER           -> << PrintfCase(fmt, words) >>

\* ======================================================================
\* Laws checked on every state (they guard the contract itself)

\* text without "%" and "\" is copied unchanged, in every dialect
IdentityLaw == LET plain == \A k \in 1..Len(fmt) : fmt[k] \notin {"%", "\\"} IN
               plain => /\ Printf(fmt, words, FALSE).out = UnitsOf(fmt)
                        /\ Scan(fmt, 1, Start(<<>>), "b", FALSE).out = UnitsOf(fmt)
                        /\ Scan(fmt, 1, Start(<<>>), "echo", FALSE).out = UnitsOf(fmt)
\* a field is never narrower than its width; a precision bounds a string
WidthLaw == Family = "dir" /\ conv \in ConvChars /\ cat \in {"lit", "args"} =>
              LET d == ParseDir(fmt, 1)
                  r == DirC(fmt, 1, words) IN
              r.kind = "ok" => /\ Len(r.u) >= d.w
                               /\ (d.p >= 0 /\ conv = "s" => Len(r.u) <= Max(d.w, d.p))
\* echo without options copies its words, blank-separated, plus a newline
EchoPlainLaw == Family = "echo" /\ (words = <<>> \/ ~IsCluster(words[1])) =>
                  LET sp(k) == IF k = 1 THEN <<>> ELSE <<32>>
                      body == Flatten([k \in 1..Len(words) |-> sp(k) \o UnitsOf(words[k])]) IN
                  Echo(words, FALSE).out = body \o <<10>>

\* Emission of the vector of a state; the instrumentation of the deviations must be consistent:
\* nothing fired => same result with and without the deviations.
EmitInv == LET cs == Cases IN
           /\ \A k \in 1..Len(cs) : cs[k].laws                                \* LoopLaws
           /\ \A k \in 1..Len(cs) : cs[k].fired = {} => cs[k].dout = cs[k].out /\ cs[k].dstatus = cs[k].status
           /\ PrintT(<<"VEC", ToJson([fam |-> Family, cases |-> cs])>>)
==========================================================================
