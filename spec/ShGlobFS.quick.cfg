SPECIFICATION Spec
CONSTANT Wide = FALSE
INVARIANTS Inv
