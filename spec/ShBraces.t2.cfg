SPECIFICATION Spec
CONSTANT MaxLen = 2
CONSTANT Cap = 300
CONSTANT Alphabet <- AlphaFull
INVARIANT CheckAndEmit
