---------------------------- MODULE ShText ----------------------------
(* Shared text helpers. TLC strings are atomic, so all text in the suite is a
   sequence of one-character strings; byte order is given by the table Ord. *)
EXTENDS Naturals, Sequences, FiniteSets

\* ASCII printable characters in byte order (32..126).
AsciiPrintable ==
  << " ", "!", "\"", "#", "$", "%", "&", "'", "(", ")", "*", "+", ",", "-", ".", "/",
     "0", "1", "2", "3", "4", "5", "6", "7", "8", "9", ":", ";", "<", "=", ">", "?",
     "@", "A", "B", "C", "D", "E", "F", "G", "H", "I", "J", "K", "L", "M", "N", "O",
     "P", "Q", "R", "S", "T", "U", "V", "W", "X", "Y", "Z", "[", "\\", "]", "^", "_",
     "`", "a", "b", "c", "d", "e", "f", "g", "h", "i", "j", "k", "l", "m", "n", "o",
     "p", "q", "r", "s", "t", "u", "v", "w", "x", "y", "z", "{", "|", "}", "~" >>

\* Byte value of a one-character string (printable ASCII, plus the symbolic names
\* the harness knows: NL TAB CR NUL DEL; multi-byte runes sort after ASCII).
AsciiSet == { AsciiPrintable[i] : i \in 1..Len(AsciiPrintable) }
\* precomputed once by TLC (constant-level definition): char -> byte value
OrdFn == [c \in AsciiSet |-> 31 + (CHOOSE i \in 1..Len(AsciiPrintable) : AsciiPrintable[i] = c)]
Ord(c) ==
  IF c \in AsciiSet THEN OrdFn[c]
  ELSE CASE c = "NUL" -> 0 [] c = "TAB" -> 9 [] c = "NL" -> 10 [] c = "CR" -> 13
         [] c = "DEL" -> 127 [] c = "eacute" -> 233 [] c = "euro" -> 8364
         [] OTHER -> 255

\* Lexicographic byte order on texts: -1, 0, 1.
RECURSIVE CmpText(_, _)
CmpText(a, b) ==
  IF a = <<>> /\ b = <<>> THEN 0
  ELSE IF a = <<>> THEN 0 - 1
  ELSE IF b = <<>> THEN 1
  ELSE IF Ord(Head(a)) < Ord(Head(b)) THEN 0 - 1
  ELSE IF Ord(Head(a)) > Ord(Head(b)) THEN 1
  ELSE CmpText(Tail(a), Tail(b))

IsDigit(c) == c \in {"0","1","2","3","4","5","6","7","8","9"}
IsUpper(c) == Ord(c) >= 65 /\ Ord(c) <= 90
IsLower(c) == Ord(c) >= 97 /\ Ord(c) <= 122
IsAlpha(c) == IsUpper(c) \/ IsLower(c)
IsAlnum(c) == IsAlpha(c) \/ IsDigit(c)

\* Position (1-based) of the first occurrence of c in s, or 0.
FirstIndex(s, c) ==
  IF \E i \in 1..Len(s) : s[i] = c
  THEN CHOOSE i \in 1..Len(s) : s[i] = c /\ \A j \in 1..(i-1) : s[j] # c
  ELSE 0

\* Insertion sort of a set of texts into a sequence, byte order.
RECURSIVE SortTexts(_)
SortTexts(S) ==
  IF S = {} THEN <<>>
  ELSE LET m == CHOOSE x \in S : \A y \in S : CmpText(x, y) <= 0
       IN <<m>> \o SortTexts(S \ {m})

\* Concatenate a sequence of texts.
RECURSIVE Flatten(_)
Flatten(ss) == IF ss = <<>> THEN <<>> ELSE Head(ss) \o Flatten(Tail(ss))
=======================================================================
