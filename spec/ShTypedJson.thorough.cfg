SPECIFICATION Spec
CONSTANTS
  MaxCh = 8
  MaxMut = 1
  MutDocs = 6
INVARIANTS RoundTrip ReEncode StripIdem DecTotal DecSound EmitInv
