SPECIFICATION Spec
CONSTANTS
  MaxCh = 9
  MaxMut = 1
  MutDocs = 7
INVARIANTS RoundTrip ReEncode StripIdem DecTotal DecSound EmitInv
