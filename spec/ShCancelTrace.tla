---------------------------- MODULE ShCancelTrace ----------------------------
(* Validates event traces recorded by hook H12 from real runs (engine c31) against ShCancel.
   $VERIF_TRACE is ndjson: a line {"reset": shape id} starts a run, every other line {"g", "p"} is one
   hook event of goroutine g (main, j1, or env for the cancellation) at point p (start/end of the
   goroutine are normalised by the engine).  Every run is explored on its own (one initial state per
   run); an event is consumed only by an action of ShCancel with that label, silent actions may be
   interleaved freely.  The set of trace positions that could be reached is collected in TLC register 1
   and printed at the end: a run is accepted iff the position after its last event was reached.  Since a
   run may stop anywhere (a program that hangs, events cut at the time bound), acceptance is prefix
   acceptance: what is checked are the wake conditions (a wait returns only after its job ended, an
   open only with a peer, a read only after Cancel, a process only after its death), the order of a
   goroutine's own events, and that a statement polled after Cancel starts nothing. *)
EXTENDS ShCancel, IOUtils

Trace == ndJsonDeserialize(IOEnv.VERIF_TRACE)
VARIABLE i
tvars == <<vars, i>>

IsReset(k) == "reset" \in DOMAIN Trace[k]
ShapeById(id) == CHOOSE sh \in Shapes : sh.id = id
ASSUME TLCSet(1, {})
Reach(k) == TLCSet(1, TLCGet(1) \cup {k})

TInit == /\ \E k \in 1..Len(Trace) : IsReset(k) /\ i = k + 1 /\ InitWith(ShapeById(Trace[k].reset)) /\ Reach(k + 1)
         /\ cancelAt = 0
TEvent == /\ i <= Len(Trace) /\ ~IsReset(i)
          /\ Next /\ last' = <<Trace[i].g, Trace[i].p>>
          /\ i' = i + 1 /\ Reach(i + 1)
          \* at the return of Run: where did main observe the cancellation on this path (Dev_TrapSwallowsCancel)?
          /\ (Trace[i].p = "return") => PrintT(<<"RET", ToJson([pos |-> i, seen |-> seen', cancelled |-> cancelled])>>)
TSilent == Next /\ last'[2] = "silent" /\ i' = i
TNext == TEvent \/ TSilent
TSpec == TInit /\ [][TNext]_tvars

Post == PrintT(<<"STAT", ToJson([reached |-> TLCGet(1), len |-> Len(Trace)])>>)
=============================================================================
