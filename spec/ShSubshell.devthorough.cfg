SPECIFICATION Spec
CONSTANTS MaxLen = 2
  Buggy = TRUE
  Wide = TRUE
INVARIANTS EmitDev
