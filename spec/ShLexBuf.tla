------------------------------ MODULE ShLexBuf ------------------------------
(* C07: parsing does not depend on how the input bytes arrive.   Style S.

   The object specified is the lexer's read window over an io.Reader:
     src    the whole input, a sequence of byte classes (built by a choice sequence)
     rd     number of bytes the reader has handed out so far
     buf    the bytes currently held in the window, base = absolute offset of buf[1]
     off    number of bytes the lexer has consumed
     eof    the reader has reported io.EOF
   The reader is the environment: every call of Read may legally return any
   0 < n <= remaining with a nil error, (0, nil), the last bytes together with EOF,
   or (0, EOF) once everything was delivered.  The sequence of these outcomes is the
   *schedule*; it is the model's only nondeterminism once src is fixed.

   The client is a small deterministic lexer that looks ahead exactly where a shell
   lexer has to (written from the shell grammar, not from lexer.go):
     mode "word"   \ LF and \ CR LF are line continuations, CR LF is LF, NUL is dropped,
                   @( starts an extended glob unless it is @(), multi-byte runes must be
                   decoded whole even if they straddle two reads;
     mode "zsh"    < digits - digits > is a numeric range glob (unbounded look-ahead);
     mode "param"  ${=x} ${==x} ${~x} ${^^x}: a doubled prefix switches the option off,
                   a prefix directly before } or the end of input is not a prefix.
     mode "stop"   the StopAt("$$") option: lexing ends at a word that starts with $$.
   Contract: look-ahead refills the window until the bytes it needs are there or the
   reader is exhausted (Loops = TRUE).  Loops = FALSE is the self-test: refill at most
   once, which must violate PeekTruth.

   Invariants (checked by TLC in every state):
     WindowTruth   the window is exactly SubSeq(src, base+1, rd): no byte lost/duplicated
     PeekTruth     every look-ahead answer equals the true bytes of src; the sentinel is
                   answered only if the input really ended there
     Progress      a refill either delivered a byte the lexer asked for or reached EOF
     SchedIndep    the delivered rune/token sequence is a prefix of Lex(src), and equals
                   it when the lexer is done -- whatever the schedule was
   Every completed behaviour is emitted as one vector [mode, src, sched, out]; the harness
   instantiates src through the template table below and replays sched on the real parser. *)
EXTENDS Naturals, Sequences, FiniteSets, TLC, Json

CONSTANTS LenWord, LenZsh, LenParam, LenStop,  \* longest class string per mode (0 = mode off)
          MaxZero,                    \* at most this many (0, nil) reads per behaviour
          Loops,                      \* TRUE = contract, FALSE = single refill (self-test)
          Specials                    \* TRUE: also run the hand-picked longer class strings

SENT == "SENT"      \* "no byte here": utf8.RuneSelf in the code

AlphaWord  == {"bs", "cr", "lf", "nul", "at", "lp", "rp", "l2", "l3", "ct", "o"}
AlphaZsh   == {"lt", "dg", "mi", "gt", "o"}
AlphaParam == {"eq", "ti", "ca", "o", "rb"}
AlphaStop  == {"dl", "sp", "sc", "o"}

Alpha(m)  == CASE m = "word" -> AlphaWord [] m = "zsh" -> AlphaZsh [] m = "param" -> AlphaParam [] m = "stop" -> AlphaStop
MaxLen(m) == CASE m = "word" -> LenWord [] m = "zsh" -> LenZsh [] m = "param" -> LenParam [] m = "stop" -> LenStop
Modes     == {m \in {"word", "zsh", "param", "stop"} : MaxLen(m) > 0}

\* Longer inputs that matter (beyond the exhaustive length bound).
SpecialInputs == {
  [m |-> "zsh",   s |-> <<"lt", "dg", "mi", "dg", "dg", "gt">>],          \* <1-20>
  [m |-> "zsh",   s |-> <<"lt", "dg", "dg", "mi", "gt", "o">>],           \* <12->a
  [m |-> "zsh",   s |-> <<"o", "lt", "dg", "mi", "dg", "gt", "o">>],      \* a<1-2>b
  [m |-> "zsh",   s |-> <<"lt", "dg", "mi", "dg", "o", "gt">>],           \* <1-2a>  (not a range)
  [m |-> "word",  s |-> <<"o", "bs", "cr", "lf", "o">>],                  \* a\CRLFb
  [m |-> "word",  s |-> <<"bs", "bs", "cr", "lf", "o">>],
  [m |-> "word",  s |-> <<"at", "lp", "o", "rp", "o">>],                  \* @(a)b
  [m |-> "word",  s |-> <<"o", "at", "lp", "rp", "o">>],
  [m |-> "word",  s |-> <<"l3", "ct", "ct", "l2", "ct">>],
  [m |-> "word",  s |-> <<"o", "l3", "ct", "bs", "lf">>],
  [m |-> "param", s |-> <<"eq", "ti", "ca", "o", "rb">>],                 \* ${=~^x}
  [m |-> "param", s |-> <<"eq", "eq", "ti", "ti", "o", "rb">>],           \* ${==~~x}
  [m |-> "param", s |-> <<"ca", "ca", "eq", "o", "rb">>],
  [m |-> "stop",  s |-> <<"o", "sp", "dl", "dl", "o", "sp", "o">>] }

(* Template table: how a class string becomes source text.  `pre`/`post` surround the
   window; `langs` are the variants the template is parsed in.  The harness only
   concatenates; every vector of mode m is run through every template of mode m. *)
ClassBytes == [bs |-> <<92>>, cr |-> <<13>>, lf |-> <<10>>, nul |-> <<0>>, at |-> <<64>>,
               lp |-> <<40>>, rp |-> <<41>>, l2 |-> <<195>>, l3 |-> <<226>>, ct |-> <<130>>,
               o |-> <<97>>, lt |-> <<60>>, dg |-> <<49>>, mi |-> <<45>>, gt |-> <<62>>,
               eq |-> <<61>>, ti |-> <<126>>, ca |-> <<94>>, rb |-> <<125>>,
               dl |-> <<36>>, sp |-> <<32>>, sc |-> <<59>>]
AllLangs == <<"bash", "posix", "mksh", "bats", "zsh">>
Templates == <<
  [m |-> "word",  pre |-> "",          post |-> "",          langs |-> AllLangs, stopat |-> ""],
  [m |-> "word",  pre |-> "echo ",     post |-> " b\n",      langs |-> AllLangs, stopat |-> ""],
  [m |-> "word",  pre |-> "echo x",    post |-> "y\n",       langs |-> AllLangs, stopat |-> ""],
  [m |-> "word",  pre |-> "echo \"",   post |-> "\"\n",      langs |-> AllLangs, stopat |-> ""],
  [m |-> "word",  pre |-> "echo $(",   post |-> ")\n",       langs |-> AllLangs, stopat |-> ""],
  [m |-> "word",  pre |-> "echo `",    post |-> "`\n",       langs |-> AllLangs, stopat |-> ""],
  [m |-> "word",  pre |-> "echo \"`",  post |-> "`\"\n",     langs |-> AllLangs, stopat |-> ""],
  [m |-> "word",  pre |-> "cat <<E\n", post |-> "\nE\n",     langs |-> AllLangs, stopat |-> ""],
  [m |-> "word",  pre |-> "cat <<-E\n\t", post |-> "\n\tE\n", langs |-> AllLangs, stopat |-> ""],
  [m |-> "word",  pre |-> "cat <<E",   post |-> "\nx\nEa\n", langs |-> AllLangs, stopat |-> ""],
  [m |-> "word",  pre |-> "echo $'",   post |-> "'\n",       langs |-> <<"bash", "mksh", "zsh">>, stopat |-> ""],
  [m |-> "word",  pre |-> "echo ${x:-", post |-> "}\n",      langs |-> AllLangs, stopat |-> ""],
  [m |-> "word",  pre |-> "[[ x == ",  post |-> " ]]\n",     langs |-> <<"bash", "mksh", "zsh">>, stopat |-> ""],
  [m |-> "word",  pre |-> "echo $((",  post |-> "))\n",      langs |-> AllLangs, stopat |-> ""],
  [m |-> "word",  pre |-> "x=(",       post |-> ")\n",       langs |-> <<"bash", "mksh", "zsh">>, stopat |-> ""],
  [m |-> "word",  pre |-> "case x in ", post |-> ") ;; esac\n", langs |-> AllLangs, stopat |-> ""],
  [m |-> "word",  pre |-> "# ",        post |-> "\nfoo\n",   langs |-> AllLangs, stopat |-> ""],
  [m |-> "zsh",   pre |-> "",          post |-> "",          langs |-> <<"zsh", "bash">>, stopat |-> ""],
  [m |-> "zsh",   pre |-> "echo ",     post |-> " b\n",      langs |-> <<"zsh", "bash">>, stopat |-> ""],
  [m |-> "zsh",   pre |-> "echo x",    post |-> "y\n",       langs |-> <<"zsh", "bash">>, stopat |-> ""],
  [m |-> "zsh",   pre |-> "ls *.c",    post |-> "\n",        langs |-> <<"zsh">>, stopat |-> ""],
  [m |-> "zsh",   pre |-> "x=",        post |-> "\n",        langs |-> <<"zsh">>, stopat |-> ""],
  [m |-> "zsh",   pre |-> "echo $(echo ", post |-> ")\n",    langs |-> <<"zsh">>, stopat |-> ""],
  [m |-> "param", pre |-> "echo ${",   post |-> "",          langs |-> <<"zsh", "bash">>, stopat |-> ""],
  [m |-> "param", pre |-> "echo ${",   post |-> "}\n",       langs |-> <<"zsh", "bash">>, stopat |-> ""],
  [m |-> "param", pre |-> "echo \"${", post |-> "}\"\n",     langs |-> <<"zsh">>, stopat |-> ""],
  [m |-> "param", pre |-> "echo $",    post |-> " b\n",      langs |-> <<"zsh", "bash">>, stopat |-> ""],
  [m |-> "param", pre |-> "echo ${(f)", post |-> "}\n",      langs |-> <<"zsh">>, stopat |-> ""],
  [m |-> "stop",  pre |-> "",          post |-> "",          langs |-> AllLangs, stopat |-> "$$"],
  [m |-> "stop",  pre |-> "foo ",      post |-> " bar\n",    langs |-> AllLangs, stopat |-> "$$"],
  [m |-> "stop",  pre |-> "foo;",      post |-> "\n",        langs |-> AllLangs, stopat |-> "$$"],
  [m |-> "stop",  pre |-> "f() { a ",  post |-> "; }\n",     langs |-> <<"bash", "posix">>, stopat |-> "$$"],
  [m |-> "stop",  pre |-> "foo\n",     post |-> "\n",        langs |-> <<"bash", "zsh">>, stopat |-> "$$"] >>

VARIABLES mode, src, phase,     \* input under construction; phase: "build" | "run" | "done"
          off, esc, pfx,        \* lexer: bytes consumed; previous rune was an unescaped \ ; in ${ prefix position
          buf, base, rd, eof,   \* read window and reader state
          sched, zeros,         \* history: the read outcomes so far <<n, eofFlag>>; number of (0,nil) reads
          out,                  \* runes/tokens delivered so far
          obs,                  \* look-ahead observations made by the last step
          crossed               \* number of look-aheads that had to refill the window
vars == <<mode, src, phase, off, esc, pfx, buf, base, rd, eof, sched, zeros, out, obs, crossed>>

Truth(j) == IF j >= 1 /\ j <= Len(src) THEN src[j] ELSE SENT

\* ---------------------------------------------------------------- the reader and the window
Win == [buf |-> buf, base |-> base, rd |-> rd, eof |-> eof, sched |-> sched, zeros |-> zeros, reads |-> 0]

\* what the window shows at absolute index j (1-based), j > base
View(w, j) == IF j <= w.rd THEN w.buf[j - w.base] ELSE SENT

\* bytes before the lexer's position are dropped when a refill starts
Slide(w) == IF w.base = off THEN w
            ELSE [w EXCEPT !.buf = SubSeq(w.buf, off - w.base + 1, Len(w.buf)), !.base = off]

\* one call of Read: every legal outcome
ReadOutcomes(w) ==
  LET rem == Len(src) - w.rd IN
  (IF rem > 0
   THEN { [w EXCEPT !.buf = @ \o SubSeq(src, w.rd + 1, w.rd + n), !.rd = @ + n,
                    !.sched = Append(@, <<n, FALSE>>), !.reads = @ + 1] : n \in 1..rem }
        \cup { [w EXCEPT !.buf = @ \o SubSeq(src, w.rd + 1, Len(src)), !.rd = Len(src), !.eof = TRUE,
                         !.sched = Append(@, <<rem, TRUE>>), !.reads = @ + 1] }
   ELSE { [w EXCEPT !.eof = TRUE, !.sched = Append(@, <<0, TRUE>>), !.reads = @ + 1] })
  \cup (IF w.zeros < MaxZero
        THEN { [w EXCEPT !.zeros = @ + 1, !.sched = Append(@, <<0, FALSE>>), !.reads = @ + 1] }
        ELSE {})

\* Refill until `need` bytes from the lexer's position are in the window, or EOF.
\* With ~Loops only one refill that delivers data is made.
RECURSIVE Fills(_, _, _)
Fills(w, need, first) ==
  IF w.rd - off >= need \/ w.eof \/ (~Loops /\ ~first) THEN {w}
  ELSE UNION { Fills(r, need, IF r.rd > w.rd THEN FALSE ELSE first) : r \in ReadOutcomes(Slide(w)) }
Fill(w, need) == Fills(w, need, TRUE)

\* ---------------------------------------------------------------- observations
PeekObs(w, j, n) == [k |-> "peek", at |-> j, got |-> [i \in 1..n |-> View(w, j + i - 1)]]

\* numeric range  digits - digits >  starting at index j of the byte sequence v
At(v, j) == IF j >= 1 /\ j <= Len(v) THEN v[j] ELSE SENT
RECURSIVE SkipDigits(_, _)
SkipDigits(v, j) == IF At(v, j) = "dg" THEN SkipDigits(v, j + 1) ELSE j
RangeEnd(v, j) ==         \* index of the closing > or 0
  LET a == SkipDigits(v, j) IN
  IF At(v, a) # "mi" THEN 0
  ELSE LET b == SkipDigits(v, a + 1) IN IF At(v, b) = "gt" THEN b ELSE 0
\* the first index at which the answer is decided (a byte that breaks or completes the pattern)
RangeDecidedAt(v, j) ==
  LET a == SkipDigits(v, j) IN
  IF At(v, a) # "mi" THEN a ELSE SkipDigits(v, a + 1)

\* ---------------------------------------------------------------- the lexer, one rune/token per step
Res(w, n, emit, e2, p2, o2) ==
  [w |-> w, n |-> n, emit |-> emit, esc |-> e2, pfx |-> p2, obs |-> o2, done |-> FALSE]

WordStep(w0, c) ==
  CASE c = "nul" -> { Res(w0, 1, <<>>, esc, FALSE, <<>>) }
    [] c = "cr"  -> { LET b == View(w1, off + 2) IN
                      IF b = "lf" THEN Res(w1, 1, <<>>, esc, FALSE, <<PeekObs(w1, off + 2, 1)>>)
                                  ELSE Res(w1, 1, <<"cr">>, FALSE, FALSE, <<PeekObs(w1, off + 2, 1)>>)
                      : w1 \in Fill(w0, 2) }
    [] c = "bs" /\ ~esc ->
         UNION { LET b == View(w1, off + 2) IN
                 IF b = "lf" THEN { Res(w1, 2, <<"escnl">>, FALSE, FALSE, <<PeekObs(w1, off + 2, 1)>>) }
                 ELSE { LET o2 == <<PeekObs(w1, off + 2, 1), PeekObs(w2, off + 2, 2)>> IN
                        IF View(w2, off + 2) = "cr" /\ View(w2, off + 3) = "lf"
                        THEN Res(w2, 3, <<"escnl">>, FALSE, FALSE, o2)
                        ELSE Res(w2, 1, <<"bs">>, TRUE, FALSE, o2)
                        : w2 \in Fill(w1, 3) }
                 : w1 \in Fill(w0, 2) }
    [] c = "at" /\ ~esc ->
         UNION { LET b == View(w1, off + 2) IN
                 IF b # "lp" THEN { Res(w1, 1, <<"at">>, FALSE, FALSE, <<PeekObs(w1, off + 2, 1)>>) }
                 ELSE { LET o2 == <<PeekObs(w1, off + 2, 1), PeekObs(w2, off + 2, 2)>> IN
                        IF View(w2, off + 3) = "rp" THEN Res(w2, 1, <<"at">>, FALSE, FALSE, o2)
                                                    ELSE Res(w2, 1, <<"at_extglob">>, FALSE, FALSE, o2)
                        : w2 \in Fill(w1, 3) }
                 : w1 \in Fill(w0, 2) }
    [] c = "l2" -> { LET o2 == <<PeekObs(w1, off + 2, 1)>> IN
                     IF View(w1, off + 2) = "ct" THEN Res(w1, 2, <<"rune2">>, FALSE, FALSE, o2)
                                                 ELSE Res(w1, 1, <<"badutf8">>, FALSE, FALSE, o2)
                     : w1 \in Fill(w0, 2) }
    [] c = "l3" ->
         UNION { IF View(w1, off + 2) # "ct"
                 THEN { Res(w1, 1, <<"badutf8">>, FALSE, FALSE, <<PeekObs(w1, off + 2, 1)>>) }
                 ELSE { LET o2 == <<PeekObs(w1, off + 2, 1), PeekObs(w2, off + 2, 2)>> IN
                        IF View(w2, off + 3) = "ct" THEN Res(w2, 3, <<"rune3">>, FALSE, FALSE, o2)
                                                    ELSE Res(w2, 1, <<"badutf8">>, FALSE, FALSE, o2)
                        : w2 \in Fill(w1, 3) }
                 : w1 \in Fill(w0, 2) }
    [] c = "ct" -> { Res(w0, 1, <<"badutf8">>, FALSE, FALSE, <<>>) }
    [] OTHER    -> { Res(w0, 1, <<c>>, FALSE, FALSE, <<>>) }

ZshStep(w0, c) ==
  IF c # "lt" THEN { Res(w0, 1, <<c>>, FALSE, FALSE, <<>>) }
  ELSE \* look ahead as far as the answer needs; the true source tells how far that is
       LET need == RangeDecidedAt(src, off + 2) - off IN
       { LET er == RangeEnd(w1.buf, off + 2 - w1.base)      \* relative to the window
             e  == IF er = 0 THEN 0 ELSE er + w1.base
             o2 == <<[k |-> "range", at |-> off + 2, got |-> (e # 0)]>> IN
         IF e # 0 THEN Res(w1, e - off, <<"numrange">>, FALSE, FALSE, o2)
                  ELSE Res(w1, 1, <<"lt">>, FALSE, FALSE, o2)
         : w1 \in Fill(w0, need) }

ParamStep(w0, c) ==
  IF ~pfx \/ c \notin {"eq", "ti", "ca"} THEN { Res(w0, 1, <<c>>, FALSE, FALSE, <<>>) }
  ELSE { LET nx == View(w1, off + 2)
             af == View(w1, off + 3)
             dbl == (nx = c)
             chk == IF dbl THEN af ELSE nx
             o2 == <<PeekObs(w1, off + 2, 2)>> IN
         IF chk = SENT \/ chk = "rb" THEN Res(w1, 1, <<c>>, FALSE, FALSE, o2)
         ELSE IF dbl THEN Res(w1, 2, <<"off_" \o c>>, FALSE, TRUE, o2)
                     ELSE Res(w1, 1, <<"on_" \o c>>, FALSE, TRUE, o2)
         : w1 \in Fill(w0, 3) }

\* pfx doubles as "at the start of a word" in this mode
StopStep(w0, c) ==
  IF ~(pfx /\ c = "dl") THEN { Res(w0, 1, <<c>>, FALSE, c \in {"sp", "sc"}, <<>>) }
  ELSE { LET o2 == <<PeekObs(w1, off + 1, 2)>> IN
         IF View(w1, off + 2) = "dl" THEN [Res(w1, 0, <<"STOP">>, FALSE, FALSE, o2) EXCEPT !.done = TRUE]
                                     ELSE Res(w1, 1, <<c>>, FALSE, FALSE, o2)
         : w1 \in Fill(w0, 2) }

LexStep ==
  UNION { IF w0.rd = off THEN { [Res(w0, 0, <<>>, esc, pfx, <<>>) EXCEPT !.done = TRUE] }
          ELSE LET c == View(w0, off + 1) IN
               CASE mode = "word"  -> WordStep(w0, c)
                 [] mode = "zsh"   -> ZshStep(w0, c)
                 [] mode = "param" -> ParamStep(w0, c)
                 [] mode = "stop"  -> StopStep(w0, c)
          : w0 \in { [w EXCEPT !.reads = 0] : w \in Fill(Win, 1) } }

\* ---------------------------------------------------------------- state machine
Init == /\ mode \in Modes /\ src = <<>> /\ phase = "build"
        /\ off = 0 /\ esc = FALSE /\ pfx = TRUE
        /\ buf = <<>> /\ base = 0 /\ rd = 0 /\ eof = FALSE
        /\ sched = <<>> /\ zeros = 0 /\ out = <<>> /\ obs = <<>> /\ crossed = 0

Build == /\ phase = "build" /\ Len(src) < MaxLen(mode)
         /\ \E c \in Alpha(mode) : src' = Append(src, c)
         /\ UNCHANGED <<mode, phase, off, esc, pfx, buf, base, rd, eof, sched, zeros, out, obs, crossed>>

Special == /\ Specials /\ phase = "build" /\ src = <<>>
           /\ \E sp \in SpecialInputs : sp.m = mode /\ src' = sp.s
           /\ phase' = "run"
           /\ UNCHANGED <<mode, off, esc, pfx, buf, base, rd, eof, sched, zeros, out, obs, crossed>>

Start == /\ phase = "build" /\ Len(src) >= 1 /\ phase' = "run"
         /\ UNCHANGED <<mode, src, off, esc, pfx, buf, base, rd, eof, sched, zeros, out, obs, crossed>>

Step == /\ phase = "run"
        /\ \E r \in LexStep :
             /\ off' = off + r.n /\ esc' = r.esc /\ pfx' = r.pfx
             /\ buf' = r.w.buf /\ base' = r.w.base /\ rd' = r.w.rd /\ eof' = r.w.eof
             /\ sched' = r.w.sched /\ zeros' = r.w.zeros
             /\ out' = out \o r.emit /\ obs' = r.obs
             /\ crossed' = crossed + (IF r.obs # <<>> /\ r.w.reads > 0 THEN 1 ELSE 0)
             /\ phase' = IF r.done THEN "done" ELSE "run"
        /\ UNCHANGED <<mode, src>>

Next == Build \/ Special \/ Start \/ Step
Spec == Init /\ [][Next]_vars

\* ---------------------------------------------------------------- the contract on src alone (no window, no reader)
RECURSIVE LexWord(_, _), LexZsh(_), LexParam(_, _)
LexWord(i, e) ==
  IF i > Len(src) THEN <<>> ELSE
  LET c == src[i] IN
  CASE c = "nul" -> LexWord(i + 1, e)
    [] c = "cr"  -> IF Truth(i + 1) = "lf" THEN LexWord(i + 1, e) ELSE <<"cr">> \o LexWord(i + 1, FALSE)
    [] c = "bs" /\ ~e -> IF Truth(i + 1) = "lf" THEN <<"escnl">> \o LexWord(i + 2, FALSE)
                         ELSE IF Truth(i + 1) = "cr" /\ Truth(i + 2) = "lf" THEN <<"escnl">> \o LexWord(i + 3, FALSE)
                         ELSE <<"bs">> \o LexWord(i + 1, TRUE)
    [] c = "at" /\ ~e -> IF Truth(i + 1) = "lp" /\ Truth(i + 2) # "rp"
                         THEN <<"at_extglob">> \o LexWord(i + 1, FALSE) ELSE <<"at">> \o LexWord(i + 1, FALSE)
    [] c = "l2" -> IF Truth(i + 1) = "ct" THEN <<"rune2">> \o LexWord(i + 2, FALSE) ELSE <<"badutf8">> \o LexWord(i + 1, FALSE)
    [] c = "l3" -> IF Truth(i + 1) = "ct" /\ Truth(i + 2) = "ct" THEN <<"rune3">> \o LexWord(i + 3, FALSE)
                   ELSE <<"badutf8">> \o LexWord(i + 1, FALSE)
    [] c = "ct" -> <<"badutf8">> \o LexWord(i + 1, FALSE)
    [] OTHER    -> <<c>> \o LexWord(i + 1, FALSE)
LexZsh(i) ==
  IF i > Len(src) THEN <<>> ELSE
  IF src[i] = "lt" /\ RangeEnd(src, i + 1) # 0 THEN <<"numrange">> \o LexZsh(RangeEnd(src, i + 1) + 1)
  ELSE <<src[i]>> \o LexZsh(i + 1)
LexParam(i, p) ==
  IF i > Len(src) THEN <<>> ELSE
  LET c == src[i] IN
  IF ~p \/ c \notin {"eq", "ti", "ca"} THEN <<c>> \o LexParam(i + 1, FALSE)
  ELSE LET dbl == Truth(i + 1) = c
           chk == IF dbl THEN Truth(i + 2) ELSE Truth(i + 1) IN
       IF chk = SENT \/ chk = "rb" THEN <<c>> \o LexParam(i + 1, FALSE)
       ELSE IF dbl THEN <<"off_" \o c>> \o LexParam(i + 2, TRUE) ELSE <<"on_" \o c>> \o LexParam(i + 1, TRUE)
RECURSIVE LexStop(_, _)
LexStop(i, ws) ==
  IF i > Len(src) THEN <<>> ELSE
  IF ws /\ src[i] = "dl" /\ Truth(i + 1) = "dl" THEN <<"STOP">>
  ELSE <<src[i]>> \o LexStop(i + 1, src[i] \in {"sp", "sc"})
Lex == CASE mode = "word" -> LexWord(1, FALSE) [] mode = "zsh" -> LexZsh(1) [] mode = "param" -> LexParam(1, TRUE)
         [] mode = "stop" -> LexStop(1, TRUE)

\* ---------------------------------------------------------------- invariants
IsPrefix(a, b) == Len(a) <= Len(b) /\ SubSeq(b, 1, Len(a)) = a

WindowTruth == /\ base <= off /\ off <= rd /\ rd <= Len(src)
               /\ Len(buf) = rd - base
               /\ buf = SubSeq(src, base + 1, rd)

PeekTruth ==
  \A i \in DOMAIN obs :
    LET o == obs[i] IN
    IF o.k = "peek" THEN o.got = [j \in 1..Len(o.got) |-> Truth(o.at + j - 1)]
    ELSE o.got = (RangeEnd(src, o.at) # 0)

\* the sentinel is only ever answered when the reader is exhausted
SentinelOnlyAtEOF ==
  \A i \in DOMAIN obs :
      (obs[i].k = "peek" /\ \E j \in DOMAIN obs[i].got : obs[i].got[j] = SENT) => eof

\* every schedule element delivered data, or was one of the bounded empty reads, or was the EOF
Progress == /\ zeros <= MaxZero
            /\ Cardinality({i \in DOMAIN sched : sched[i][1] = 0 /\ ~sched[i][2]}) = zeros
            /\ \A i \in DOMAIN sched : sched[i][2] => i = Len(sched)
            /\ (phase = "done" /\ (out = <<>> \/ out[Len(out)] # "STOP")) => eof /\ rd = Len(src) /\ off = Len(src)

SchedIndep == LET l == Lex IN
              /\ phase = "run"  => IsPrefix(out, l)
              /\ phase = "done" => out = l

\* ---------------------------------------------------------------- emission
Emit == phase = "done" =>
          PrintT(<<"VEC", ToJson([mode |-> mode, src |-> src, sched |-> sched, out |-> out,
                                  nontrivial |-> crossed > 0])>>)
EmitInv == Emit

TemplatesOut == PrintT(<<"STAT", ToJson([templates |-> Templates, bytes |-> ClassBytes,
                                         alphabets |-> [word |-> AlphaWord, zsh |-> AlphaZsh, param |-> AlphaParam, stop |-> AlphaStop]])>>)
ASSUME TemplatesOut
=============================================================================
