SPECIFICATION Spec
CONSTANTS MaxLines = 3
  MaxPerLine = 2
  Defect = "incomplete_when_closed"
INVARIANTS TypeOK DeliveredIsPrefix NothingLost IncompleteOnlyWhileOpen IncompleteWheneverOpen RunBeforeRead OneCallbackPerLine Progress
