SPECIFICATION Spec
CONSTANTS MaxLines = 3
  MaxPerLine = 2
  Defect = "drop_unterminated"
INVARIANTS TypeOK DeliveredIsPrefix NothingLost IncompleteOnlyWhileOpen IncompleteWheneverOpen RunBeforeRead OneCallbackPerLine Progress
