SPECIFICATION Spec
CONSTANTS Family = "echo"
  MaxUnits = 3
  MaxFlags = 0
  MaxTail = 0
  MaxArgs = 0
  Rich = FALSE
INVARIANTS IdentityLaw WidthLaw EchoPlainLaw EmitInv
