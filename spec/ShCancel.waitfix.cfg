SPECIFICATION Spec
CONSTANTS FifoCancellable = FALSE
  WaitCancellable = TRUE
  MaxCancel = 8
  Mode = "mc"
INVARIANTS TypeOK NoStuck
PROPERTIES Live
