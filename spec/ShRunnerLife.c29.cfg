SPECIFICATION Spec
CONSTANTS MaxHist = 2
  CfgIds = {1}
  DeepCfgIds = {1}
  StmtAct = FALSE
  LibIds <- AllLibIds
INVARIANTS TypeOK Laws
PROPERTY Untouched
