SPECIFICATION Spec
CONSTANTS Family = "share"
  MaxJobs = 1
  Buggy = FALSE
INVARIANTS NoRace WaitCorrect TableWF OwnDisjoint NoStuck EmitVec
