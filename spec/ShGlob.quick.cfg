SPECIFICATION Spec
CONSTANTS TokBoost = 0
  SubjBoost = 0
  Fams = {"core", "unanch", "brk", "cls", "clsall", "nocase", "utf", "extoff", "extop", "extmix", "extbr", "fname", "fnbrk", "fncase", "fnext", "path"}
INVARIANTS ModeIrrelevance LiteralLaw EmitInv
VIEW StateKey
