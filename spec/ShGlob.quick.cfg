SPECIFICATION Spec
CONSTANTS TokBoost = 0
  SubjBoost = 0
  Fams = {"ext", "extop", "extbr"}
INVARIANTS ModeIrrelevance LiteralLaw EmitInv
