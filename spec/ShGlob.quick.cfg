SPECIFICATION Spec
CONSTANTS TokBoost = 0
  SubjBoost = 0
  Fams = {"core", "brk", "cls", "clsall", "nocase", "utf", "extoff", "extop", "extmix", "extbr", "fname", "path"}
INVARIANTS ModeIrrelevance LiteralLaw EmitInv
VIEW StateKey
