SPECIFICATION Spec
CONSTANTS MaxLen = 24
  Reduced = FALSE
  EmitAt = 24
INVARIANTS TypeOK AlphabetOK Emit EmitAlphabet
