SPECIFICATION Spec
CONSTANTS
  LenWord = 3
  LenZsh = 4
  LenParam = 3
  LenStop = 4
  MaxZero = 0
  Loops = TRUE
  Specials = TRUE
INVARIANTS WindowTruth PeekTruth SentinelOnlyAtEOF Progress SchedIndep EmitInv
