------------------------------- MODULE ShWalk -------------------------------
(* C14: Walk and Preorder visit every node exactly once.   Style S.

   The object specified is the *callback protocol* of a depth-first traversal over an
   arbitrary finite tree:
     kids     the tree: kids[n] = sequence of the children of node n (node 1 is the root)
     stack    the nodes whose callback returned TRUE and that have not been closed yet
     seen     every node the callback was called with (entered or pruned)
     pruned   the nodes for which the callback returned FALSE
   Actions (the only things a traversal may do):
     Enter(n, d)  call f(n) for a not yet seen child n of the innermost open node (or the
                  root first); d is the callback's answer: TRUE = descend, FALSE = prune
     Exit         call f(nil): allowed only when every child of the innermost open node
                  has been seen; closes that node
   and for the iterator form (Preorder): Yield(n) = Enter without explicit exits (closed
   nodes are popped silently), Stop = the consumer returned false: nothing may follow.

   The module is used twice:
   (1) Model checking (this file's Spec): trees are built by a choice sequence (node k+1
       picks its parent among 1..k), so TLC enumerates every tree up to MaxNodes nodes, every
       pruning decision and every stop position, and checks the protocol's laws below
       against an independent recursive definition of depth-first order (DFS).
   (2) Trace validation (ShWalkTrace): the callback sequences recorded from the real
       syntax.Walk / syntax.Preorder on real trees (shape taken by reflection) must be
       behaviours of EnterCore/ExitCore/YieldCore.  The sibling order is deliberately not
       part of the contract (the property does not state one). *)
EXTENDS Naturals, Sequences, FiniteSets, TLC

CONSTANTS MaxNodes,   \* model checking: trees up to this many nodes
          Forget      \* self-test switch: the walker may silently skip a child (must break Complete)

VARIABLES kids, phase, mode,      \* phase: "build" | "run" | "done"; mode: "none" | "walk" | "pre"
          stack, seen, pruned,
          ev,                     \* history of callback events: <<"e", n>> or <<"x">>   (model only)
          stopped                 \* iterator form: the consumer has stopped
vars == <<kids, phase, mode, stack, seen, pruned, ev, stopped>>

Nodes    == DOMAIN kids
Top      == stack[Len(stack)]
KidSet(n) == {kids[n][i] : i \in DOMAIN kids[n]}
Unseen(n) == KidSet(n) \ seen
SeqMin(S) == CHOOSE x \in S : \A y \in S : x <= y

\* ---------------------------------------------------------------- protocol actions (shared with ShWalkTrace)
\* f(n) with answer d.  n must be the root (nothing seen yet) or an unseen child of the
\* innermost open node.
EnterOK(n) ==
  /\ n \in Nodes /\ n \notin seen
  /\ IF seen = {} THEN n = 1 /\ stack = <<>>
                  ELSE stack # <<>> /\ n \in KidSet(Top)
EnterCore(n, d) ==
  /\ EnterOK(n)
  /\ seen' = seen \cup {n}
  /\ IF d THEN stack' = Append(stack, n) /\ pruned' = pruned
          ELSE stack' = stack /\ pruned' = pruned \cup {n}

\* f(nil): closes the innermost open node; every child must have been offered to f.
ExitOK == stack # <<>> /\ Unseen(Top) = {}
ExitCore ==
  /\ ExitOK
  /\ stack' = SubSeq(stack, 1, Len(stack) - 1)
  /\ UNCHANGED <<seen, pruned>>

\* iterator form: close finished nodes silently, then yield n
RECURSIVE PopDone(_, _)
PopDone(st, sn) == IF st # <<>> /\ (KidSet(st[Len(st)]) \ sn) = {} THEN PopDone(SubSeq(st, 1, Len(st) - 1), sn) ELSE st
YieldOK(n) ==
  /\ ~stopped /\ n \in Nodes /\ n \notin seen
  /\ LET st == PopDone(stack, seen) IN
     IF seen = {} THEN n = 1 ELSE st # <<>> /\ n \in KidSet(st[Len(st)])
YieldCore(n) ==
  /\ YieldOK(n)
  /\ stack' = Append(PopDone(stack, seen), n)
  /\ seen' = seen \cup {n}
  /\ UNCHANGED pruned

\* ---------------------------------------------------------------- independent definition of depth-first order
RECURSIVE DFS(_, _), DFSKids(_, _, _)
\* events of a complete walk below n when the callback prunes exactly the nodes of P
DFS(n, P) == IF n \in P THEN << <<"e", n>> >>
             ELSE << <<"e", n>> >> \o DFSKids(n, 1, P) \o << <<"x">> >>
DFSKids(n, i, P) == IF i > Len(kids[n]) THEN <<>> ELSE DFS(kids[n][i], P) \o DFSKids(n, i + 1, P)

RECURSIVE Desc(_)
Desc(n) == {n} \cup UNION {Desc(kids[n][i]) : i \in DOMAIN kids[n]}
StrictDesc(S) == UNION {Desc(n) \ {n} : n \in S}
Enters(s) == SelectSeq(s, LAMBDA e : e[1] = "e")
IsPrefix(a, b) == Len(a) <= Len(b) /\ SubSeq(b, 1, Len(a)) = a

\* ---------------------------------------------------------------- the model: all small trees, all callback answers
Init == /\ kids = <<<<>>>> /\ phase = "build" /\ mode = "none"
        /\ stack = <<>> /\ seen = {} /\ pruned = {} /\ ev = <<>> /\ stopped = FALSE

\* node Len(kids)+1 becomes the last child of p
AddNode == /\ phase = "build" /\ Len(kids) < MaxNodes
           /\ \E p \in Nodes : kids' = Append([kids EXCEPT ![p] = Append(@, Len(kids) + 1)], <<>>)
           /\ UNCHANGED <<phase, mode, stack, seen, pruned, ev, stopped>>

Start == /\ phase = "build" /\ phase' = "run" /\ mode' \in {"walk", "pre"}
         /\ UNCHANGED <<kids, stack, seen, pruned, ev, stopped>>

\* the model's walker offers children in field order (needed to state the erasure law)
NextNode == IF seen = {} THEN 1 ELSE SeqMin(Unseen(Top))
CanEnter == seen = {} \/ (stack # <<>> /\ Unseen(Top) # {})

Enter == /\ phase = "run" /\ mode = "walk" /\ CanEnter
         /\ \E d \in BOOLEAN : EnterCore(NextNode, d)
         /\ ev' = Append(ev, <<"e", NextNode>>)
         /\ UNCHANGED <<kids, phase, mode, stopped>>

\* self-test only: pretend a child was visited
Skip == /\ Forget /\ phase = "run" /\ mode = "walk" /\ stack # <<>> /\ Unseen(Top) # {}
        /\ seen' = seen \cup {SeqMin(Unseen(Top))}
        /\ UNCHANGED <<kids, phase, mode, stack, pruned, ev, stopped>>

Exit == /\ phase = "run" /\ mode = "walk" /\ ExitCore
        /\ ev' = Append(ev, <<"x">>)
        /\ UNCHANGED <<kids, phase, mode, stopped>>

Finish == /\ phase = "run" /\ mode = "walk" /\ seen # {} /\ stack = <<>> /\ phase' = "done"
          /\ UNCHANGED <<kids, mode, stack, seen, pruned, ev, stopped>>

PreNext == IF seen = {} THEN 1
           ELSE LET st == PopDone(stack, seen) IN IF st = <<>> THEN 0 ELSE SeqMin(KidSet(st[Len(st)]) \ seen)
Yield == /\ phase = "run" /\ mode = "pre" /\ ~stopped /\ PreNext # 0
         /\ YieldCore(PreNext)
         /\ ev' = Append(ev, <<"e", PreNext>>)
         /\ UNCHANGED <<kids, phase, mode, stopped>>
Stop  == /\ phase = "run" /\ mode = "pre" /\ ~stopped /\ seen # {}
         /\ stopped' = TRUE
         /\ UNCHANGED <<kids, phase, mode, stack, seen, pruned, ev>>
PreFinish == /\ phase = "run" /\ mode = "pre" /\ (stopped \/ (seen # {} /\ PreNext = 0)) /\ phase' = "done"
             /\ UNCHANGED <<kids, mode, stack, seen, pruned, ev, stopped>>

Next == AddNode \/ Start \/ Enter \/ Skip \/ Exit \/ Finish \/ Yield \/ Stop \/ PreFinish
Spec == Init /\ [][Next]_vars

\* ---------------------------------------------------------------- laws checked by TLC
TypeOK == /\ seen \subseteq Nodes /\ pruned \subseteq seen
          /\ \A i \in DOMAIN stack : stack[i] \in seen \ pruned

\* each node is entered at most once
EnteredOnce == \A i, j \in DOMAIN ev : (i < j /\ ev[i][1] = "e" /\ ev[j][1] = "e") => ev[i][2] # ev[j][2]

\* parent before children: the open nodes form the path from the root to the innermost one
StackIsPath == /\ (stack # <<>> => stack[1] = 1)
               /\ \A i \in 1..(Len(stack) - 1) : stack[i + 1] \in KidSet(stack[i])

\* nothing below a pruned node is ever offered to the callback
PruneSkips == seen \cap StrictDesc(pruned) = {}

\* a finished walk offered every node that is not below a pruned node, with exactly the events of
\* the recursive definition with the pruned subtrees erased: in particular one f(nil) after each
\* node whose children were entered, and none for a pruned node
Complete == (phase = "done" /\ mode = "walk") =>
              /\ seen = Nodes \ StrictDesc(pruned)
              /\ ev = DFS(1, pruned)
              /\ Len(SelectSeq(ev, LAMBDA e : e[1] = "x")) = Cardinality(seen \ pruned)

\* while walking, the history is always a prefix of that sequence for the pruning decisions taken
\* so far (a node not yet pruned is expanded in DFS, which can only add events after the prefix)
Prefix == (mode = "walk" /\ ~Forget) => IsPrefix(ev, DFS(1, pruned))

\* iterator form: the yields are a prefix of the depth-first enter sequence; the whole of it
\* unless the consumer stopped
PreorderLaw == mode = "pre" =>
                 /\ IsPrefix(ev, Enters(DFS(1, {})))
                 /\ (phase = "done" /\ ~stopped) => ev = Enters(DFS(1, {}))
=============================================================================
