---------------------------- MODULE ShParam ----------------------------
(* C21: parameter expansion matches bash.  Style F.

   The state is one (store, parameter, operator, arguments, quoted?) input under
   construction: the first step picks everything but the pattern argument, further
   steps append one pattern element (so TLC's breadth-first search enumerates every
   pattern over the alphabet up to the bound, and -simulate draws longer ones).
   Every non-initial state is one test vector: the word to expand is rendered here
   (Word), the fields bash must produce are defined here (Sem, Fields) from the text
   of the bash manual (section 3.5.3 and 3.5.7), and the value of the variable after
   the expansion (for := and =).  The laws at the end are checked by TLC on every
   state; they guard the contract against typos and vacuity.

   Known, named deviations of the implementation are operators Dev_* at the end: each
   has a trigger class (a predicate over the input) and says what the code is known to
   compute instead.  The engine reports a vector under the deviation's name only if the
   input is in the trigger class AND the implementation's output equals the deviation's
   output; anything else is reported under its own key.

   Text is a sequence of one-character strings ("NL", "TAB" symbolic). *)
EXTENDS Integers, Sequences, FiniteSets, TLC, Json, ShText

CONSTANTS Fams,       \* set of operator families to enumerate
          MaxPat,     \* maximal number of pattern elements for # ## % %%
          MaxPatRepl, \* maximal number of pattern elements for / // /# /%
          Wide        \* BOOLEAN: wide menus (thorough tier)

\* ------------------------------------------------------------------ text helpers
DigitCh == <<"0","1","2","3","4","5","6","7","8","9">>
RECURSIVE NatText(_)
NatText(n) == IF n < 10 THEN <<DigitCh[n + 1]>> ELSE NatText(n \div 10) \o <<DigitCh[(n % 10) + 1]>>
IntText(n) == IF n < 0 THEN <<"-">> \o NatText(0 - n) ELSE NatText(n)

UpperC(c) == IF IsLower(c) THEN AsciiPrintable[Ord(c) - 63] ELSE c
LowerC(c) == IF IsUpper(c) THEN AsciiPrintable[Ord(c) + 1] ELSE c
UpperT(t) == [i \in 1..Len(t) |-> UpperC(t[i])]
LowerT(t) == [i \in 1..Len(t) |-> LowerC(t[i])]

InSeq(c, s) == \E i \in 1..Len(s) : s[i] = c
IsWs(c) == c \in {" ", "TAB", "NL"}
Drop(s, n) == SubSeq(s, n + 1, Len(s))
Take(s, n) == SubSeq(s, 1, n)
Min(a, b) == IF a < b THEN a ELSE b
Max(a, b) == IF a > b THEN a ELSE b

RECURSIVE JoinT(_, _)
JoinT(ts, sep) == IF ts = <<>> THEN <<>>
                  ELSE IF Len(ts) = 1 THEN ts[1]
                  ELSE ts[1] \o sep \o JoinT(Tail(ts), sep)

Dflt == <<" ", "TAB", "NL">>
Ifs1(ifs) == IF ifs = <<>> THEN <<>> ELSE <<ifs[1]>>
NonWsIfs1(ifs) == ifs # <<>> /\ ifs[1] \notin {" ", "TAB", "NL"}

\* ------------------------------------------------------------------ values and stores
\* A variable value; uniform record shape so that TLC can compare any two.
VUnset        == [k |-> "unset", s |-> <<>>, ikeys |-> <<>>, akeys |-> <<>>, vals |-> <<>>]
VStr(t)       == [k |-> "str",   s |-> t,    ikeys |-> <<>>, akeys |-> <<>>, vals |-> <<>>]
VIdx(ks, vs)  == [k |-> "idx",   s |-> <<>>, ikeys |-> ks,   akeys |-> <<>>, vals |-> vs]
VAssoc(ks, vs) == [k |-> "assoc", s |-> <<>>, ikeys |-> <<>>, akeys |-> ks,  vals |-> vs]

tAB    == <<"a"," ","b">>
tGlob  == <<"a","*","b">>
tAbc2  == <<"a","b","c","a","b","c">>
tHello == <<"H","e","l","l","o">>
tPad   == <<" ","a"," "," ","b"," ">>
tQr    == <<"q"," ","r">>
tBc    == <<"b"," ","c">>
tPq    == <<"p"," ","q">>
tNo    == <<"n"," ","o">>
tQuote == <<"i","t","'","s">>
tNl    == <<"a","NL","b">>

Store(x, ps, ifs) == [x |-> x, params |-> ps, ifs |-> ifs, tag |-> "var"]
PStore(ps, ifs) == [x |-> VUnset, params |-> ps, ifs |-> ifs, tag |-> "pos"]

\* Fixed auxiliary variables defined in every run (targets of indirection and of
\* ${!prefix*}): y='p q'  e=''  u unset  w=(m 'n o')  zq1=1 zq2='' zqa=(1 2).
AuxY == tPq
AuxW == VIdx(<<0, 1>>, << <<"m">>, tNo >>)

ScalarStores ==
  << Store(VUnset, <<>>, Dflt), Store(VStr(<<>>), <<>>, Dflt), Store(VStr(tAB), <<>>, Dflt),
     Store(VStr(tGlob), <<>>, Dflt), Store(VStr(tAbc2), <<>>, Dflt), Store(VStr(tHello), <<>>, Dflt) >>
  \o (IF Wide THEN << Store(VStr(tPad), <<>>, Dflt), Store(VStr(tQuote), <<>>, Dflt),
                      Store(VStr(tNl), <<>>, Dflt), Store(VStr(tAbc2), <<>>, <<":">>) >> ELSE <<>>)

ArrVals ==
  << VIdx(<<>>, <<>>),                                       \* x=()
     VIdx(<<0>>, << <<>> >>),                                \* x=('')
     VIdx(<<0, 1>>, << <<>>, <<>> >>),                       \* x=('' '')
     VIdx(<<0, 1, 2>>, << <<"p">>, tQr, <<"s">> >>),          \* x=(p 'q r' s)
     VIdx(<<0, 1, 2>>, << tGlob, tAbc2, tHello >>),          \* x=('a*b' abcabc Hello)
     VIdx(<<1, 3>>, << <<"p">>, tQr >>),                      \* x=([1]=p [3]='q r')
     VIdx(<<1, 3, 5>>, << tAbc2, <<>>, tAB >>),               \* x=([1]=abcabc [3]='' [5]='a b')
     VAssoc(<< <<"k">> >>, << tAB >>),                        \* declare -A x=([k]='a b')
     VAssoc(<< <<"j">>, <<"k">> >>, << <<"w">>, tAbc2 >>),    \* declare -A x=([j]=w [k]=abcabc)
     VAssoc(<<>>, <<>>) >>                                   \* declare -A x=()

IfsMenu == << Dflt, <<":">>, <<>> >>

ArrayStores ==
  [i \in 1..(Len(ArrVals) * 3) |->
     Store(ArrVals[((i - 1) \div 3) + 1], <<>>, IfsMenu[((i - 1) % 3) + 1])]

ParamMenu ==
  << <<>>, << <<>> >>, << <<>>, <<>> >>, << <<"a">>, tBc >>, << tGlob, tAbc2, tHello >> >>
PosStores ==
  [i \in 1..(Len(ParamMenu) * 3) |->
     PStore(ParamMenu[((i - 1) \div 3) + 1], IfsMenu[((i - 1) % 3) + 1])]

\* the stores the pattern families run on at the quick bound
PatStores ==
  << ScalarStores[1], ScalarStores[2], ScalarStores[3], ScalarStores[4], ScalarStores[5],
     Store(ArrVals[5], <<>>, Dflt), Store(ArrVals[7], <<>>, Dflt), Store(ArrVals[9], <<>>, Dflt),
     PStore(ParamMenu[5], Dflt), PStore(ParamMenu[5], <<":">>) >>
  \o (IF Wide THEN << Store(VStr(tPad), <<>>, Dflt), Store(VStr(tQuote), <<>>, Dflt), Store(VStr(tNl), <<>>, Dflt),
                      Store(ArrVals[4], <<>>, <<":">>), PStore(ParamMenu[4], <<>>) >> ELSE <<>>)

\* x holds the name of another parameter (family "ind")
IndVals == << <<"y">>, <<"u">>, <<"e">>, <<"1">>, <<"2">>, <<"w">>, <<"w","[","1","]">>, <<"w","[","@","]">>,
              <<"w","[","*","]">>, <<"@">>, <<"1","x">>, tPq, <<>> >>
IndStores ==
  << Store(VUnset, << <<"P">> >>, Dflt) >> \o
  [i \in 1..Len(IndVals) |-> Store(VStr(IndVals[i]), << <<"P">> >>, Dflt)]

\* ------------------------------------------------------------------ subjects (the parameter)
SubNone   == [k |-> "none", i |-> 0, t |-> <<>>]
SubAt     == [k |-> "at",   i |-> 0, t |-> <<>>]
SubStar   == [k |-> "star", i |-> 0, t |-> <<>>]
SubNum(n) == [k |-> "num",  i |-> n, t |-> <<>>]
SubKey(t) == [k |-> "key",  i |-> 0, t |-> t]
Sj(n, sub) == [n |-> n, sub |-> sub]

SjX == Sj("x", SubNone)
ScalarSubjects == << SjX >> \o (IF Wide THEN << Sj("x", SubNum(0)), Sj("x", SubNum(1)), Sj("x", SubAt), Sj("x", SubStar) >> ELSE <<>>)
IdxSubjects == << SjX, Sj("x", SubAt), Sj("x", SubStar), Sj("x", SubNum(0)), Sj("x", SubNum(1)),
                  Sj("x", SubNum(0 - 1)), Sj("x", SubNum(5)) >>
AssocSubjects == << SjX, Sj("x", SubAt), Sj("x", SubStar), Sj("x", SubKey(<<"k">>)), Sj("x", SubKey(<<"z">>)) >>
PosSubjects == << Sj("@", SubNone), Sj("*", SubNone), Sj("1", SubNone), Sj("2", SubNone) >>

IsPosName(n) == n \in {"1", "2", "3"}
PosNum(n) == CASE n = "1" -> 1 [] n = "2" -> 2 [] n = "3" -> 3

\* ------------------------------------------------------------------ views
\* What a parameter denotes: a scalar (set?, text) or a list (elements, star?).
VwS(set, t)         == [list |-> FALSE, set |-> set, t |-> t, vals |-> <<>>, star |-> FALSE, unord |-> FALSE]
VwL(vals, star, un) == [list |-> TRUE, set |-> vals # <<>>, t |-> <<>>, vals |-> vals, star |-> star, unord |-> un]

IdxPos(v, i) == IF \E p \in 1..Len(v.ikeys) : v.ikeys[p] = i
                THEN CHOOSE p \in 1..Len(v.ikeys) : v.ikeys[p] = i ELSE 0
KeyPos(v, t) == IF \E p \in 1..Len(v.akeys) : v.akeys[p] = t
                THEN CHOOSE p \in 1..Len(v.akeys) : v.akeys[p] = t ELSE 0
IdxMax(v) == IF v.ikeys = <<>> THEN 0 - 1 ELSE v.ikeys[Len(v.ikeys)]
\* the effective index of x[i] (negative counts back from max+1); -1 if out of range
EffIdx(v, i) == IF i >= 0 THEN i ELSE IF IdxMax(v) + 1 + i >= 0 THEN IdxMax(v) + 1 + i ELSE 0 - 1

ValView(v, sub) ==
  CASE v.k = "unset" -> IF sub.k \in {"at", "star"} THEN VwL(<<>>, sub.k = "star", FALSE) ELSE VwS(FALSE, <<>>)
    [] v.k = "str" ->
         (CASE sub.k = "none" -> VwS(TRUE, v.s)
            [] sub.k \in {"at", "star"} -> VwL(<<v.s>>, sub.k = "star", FALSE)
            [] sub.k = "num" -> IF sub.i = 0 \/ sub.i = 0 - 1 THEN VwS(TRUE, v.s) ELSE VwS(FALSE, <<>>)
            [] OTHER -> VwS(FALSE, <<>>))
    [] v.k = "idx" ->
         (CASE sub.k \in {"at", "star"} -> VwL(v.vals, sub.k = "star", FALSE)
            [] sub.k \in {"none", "num"} ->
                 LET i == IF sub.k = "none" THEN 0 ELSE EffIdx(v, sub.i)
                     p == IdxPos(v, i)
                 IN IF p = 0 THEN VwS(FALSE, <<>>) ELSE VwS(TRUE, v.vals[p])
            [] OTHER -> VwS(FALSE, <<>>))
    [] v.k = "assoc" ->
         (CASE sub.k \in {"at", "star"} -> VwL(v.vals, sub.k = "star", Len(v.vals) > 1)
            [] OTHER ->
                 LET key == IF sub.k = "key" THEN sub.t ELSE IF sub.k = "num" THEN IntText(sub.i) ELSE <<"0">>
                     p == KeyPos(v, key)
                 IN IF p = 0 THEN VwS(FALSE, <<>>) ELSE VwS(TRUE, v.vals[p]))

View(s, j) ==
  IF j.n = "@" THEN VwL(s.params, FALSE, FALSE)
  ELSE IF j.n = "*" THEN VwL(s.params, TRUE, FALSE)
  ELSE IF IsPosName(j.n) THEN
       (IF PosNum(j.n) <= Len(s.params) THEN VwS(TRUE, s.params[PosNum(j.n)]) ELSE VwS(FALSE, <<>>))
  ELSE IF j.n = "y" THEN ValView(VStr(AuxY), j.sub)
  ELSE IF j.n = "e" THEN ValView(VStr(<<>>), j.sub)
  ELSE IF j.n = "u" THEN ValView(VUnset, j.sub)
  ELSE IF j.n = "w" THEN ValView(AuxW, j.sub)
  ELSE ValView(s.x, j.sub)

\* the string a list stands for when it is tested for emptiness (:- :+ := :?)
\* (bash joins an unquoted ${x[*]} with a space when IFS is empty)
ListAsText(vw, ifs, q) == JoinT(vw.vals, IF vw.star /\ (q \/ ifs # <<>>) THEN Ifs1(ifs) ELSE <<" ">>)

\* ------------------------------------------------------------------ patterns
PE(k, c, cs, neg, src) == [k |-> k, c |-> c, cs |-> cs, neg |-> neg, src |-> src]
PLit(c)  == PE("lit", c, {}, FALSE, <<c>>)
PStar    == PE("star", "", {}, FALSE, <<"*">>)
PAny     == PE("any", "", {}, FALSE, <<"?">>)
PSetAB   == PE("set", "", {"a", "b"}, FALSE, <<"[","a","b","]">>)
PSetNotA == PE("set", "", {"a"}, TRUE, <<"[","!","a","]">>)
PSetLo   == PE("set", "", {"l", "o"}, FALSE, <<"[","l","o","]">>)
PBsStar  == PE("lit", "*", {}, FALSE, <<"\\","*">>)        \* \*  : a literal *
PSqStar  == PE("lit", "*", {}, FALSE, <<"'","*","'">>)     \* '*' : a literal *
PDqAny   == PE("lit", "?", {}, FALSE, <<"\"","?","\"">>)   \* "?" : a literal ?
PSqSp    == PE("lit", " ", {}, FALSE, <<"'"," ","'">>)     \* ' ' : a literal space

PatAlpha == << PLit("a"), PLit("b"), PLit("c"), PStar, PAny, PSetAB >>
RemAlpha  == PatAlpha \o (IF Wide THEN << PSetNotA, PBsStar, PSqStar, PDqAny >> ELSE <<>>)
ReplAlpha == PatAlpha \o (IF Wide THEN << PBsStar, PSqSp >> ELSE <<>>)
\* patterns for case modification: one element (it is matched against single characters)
CaseAlpha == << PLit("a"), PLit("l"), PLit("H"), PAny, PStar, PSetAB, PSetLo, PLit("h") >>

PatOf(alpha, ids) == [i \in 1..Len(ids) |-> alpha[ids[i]]]
RECURSIVE PatSrc(_)
PatSrc(p) == IF p = <<>> THEN <<>> ELSE Head(p).src \o PatSrc(Tail(p))

RECURSIVE Match(_, _)
Match(p, s) ==
  IF p = <<>> THEN s = <<>>
  ELSE LET e == Head(p) IN
       CASE e.k = "star" -> \E i \in 0..Len(s) : Match(Tail(p), Drop(s, i))
         [] e.k = "any"  -> s # <<>> /\ Match(Tail(p), Tail(s))
         [] e.k = "lit"  -> s # <<>> /\ Head(s) = e.c /\ Match(Tail(p), Tail(s))
         [] e.k = "set"  -> s # <<>> /\ ((Head(s) \in e.cs) # e.neg) /\ Match(Tail(p), Tail(s))

\* lengths k such that the prefix / suffix of length k matches
PrefixLens(p, s) == { k \in 0..Len(s) : Match(p, Take(s, k)) }
SuffixLens(p, s) == { k \in 0..Len(s) : Match(p, Drop(s, Len(s) - k)) }
MinOf(S) == CHOOSE k \in S : \A j \in S : k <= j
MaxOf(S) == CHOOSE k \in S : \A j \in S : k >= j

RemOp(op, p, s) ==
  IF op \in {"#", "##"} THEN
     LET L == PrefixLens(p, s) IN
     IF L = {} THEN s ELSE Drop(s, IF op = "#" THEN MinOf(L) ELSE MaxOf(L))
  ELSE
     LET L == SuffixLens(p, s) IN
     IF L = {} THEN s ELSE Take(s, Len(s) - (IF op = "%" THEN MinOf(L) ELSE MaxOf(L)))

\* What the implementation computes for ${t%p} (the deviation SuffixStopsAtNewline): the regexp ".*(p)$" is
\* searched leftmost-first and "." does not match a newline, so the cut lies in the first line (from the
\* left) that has one: there the rightmost cut k such that p matches the rest t[k+1..].
NlSegEnd(t, i) == IF \E j \in (i + 1)..Len(t) : t[j] = "NL"
                  THEN (CHOOSE j \in (i + 1)..Len(t) : t[j] = "NL" /\ \A m \in (i + 1)..(j - 1) : t[m] # "NL") - 1
                  ELSE Len(t)
DevPctRemove(p, t) ==
  LET cuts(i) == { k \in i..NlSegEnd(t, i) : Match(p, Drop(t, k)) }
      starts == { i \in 0..Len(t) : cuts(i) # {} }
  IN IF starts = {} THEN t ELSE Take(t, MaxOf(cuts(MinOf(starts))))

\* longest match of p starting at position i (1-based) of s: its length, or -1
MatchLenAt(p, s, i) ==
  LET L == PrefixLens(p, Drop(s, i - 1)) IN IF L = {} THEN 0 - 1 ELSE MaxOf(L)

\* ${s/p/r} and ${s//p/r}: leftmost match, longest at that position; // continues
\* after each match.  An empty pattern replaces nothing.
\* The replacement r is a text in which the atom "AMP" (an unquoted &) stands for the matched text.
RECURSIVE Inst(_, _)
Inst(r, m) == IF r = <<>> THEN <<>> ELSE (IF Head(r) = "AMP" THEN m ELSE <<Head(r)>>) \o Inst(Tail(r), m)
RECURSIVE ReplFrom(_, _, _, _, _)
ReplFrom(p, s, i, r, all) ==
  IF i > Len(s) THEN <<>>
  ELSE LET n == MatchLenAt(p, s, i) IN
       IF n > 0 THEN Inst(r, SubSeq(s, i, i + n - 1)) \o (IF all THEN ReplFrom(p, s, i + n, r, all) ELSE Drop(s, i + n - 1))
       ELSE <<s[i]>> \o ReplFrom(p, s, i + 1, r, all)

ReplOp(op, p, s, r) ==
  CASE op = "/#" -> IF p = <<>> THEN Inst(r, <<>>) \o s
                    ELSE LET L == PrefixLens(p, s) IN IF L = {} THEN s ELSE Inst(r, Take(s, MaxOf(L))) \o Drop(s, MaxOf(L))
    [] op = "/%" -> IF p = <<>> THEN s \o Inst(r, <<>>)
                    ELSE LET L == SuffixLens(p, s) IN IF L = {} THEN s ELSE Take(s, Len(s) - MaxOf(L)) \o Inst(r, Drop(s, Len(s) - MaxOf(L)))
    [] OTHER     -> IF p = <<>> THEN s
                    ELSE IF s = <<>> THEN (IF Match(p, <<>>) THEN Inst(r, <<>>) ELSE <<>>)
                    ELSE ReplFrom(p, s, 1, r, op = "//")

\* ${s^p} ${s^^p} ${s,p} ${s,,p}: every (or the first) character that matches p
CaseOp(op, p, s) ==
  LET pp == IF p = <<>> THEN <<PAny>> ELSE p
      f(c) == IF Match(pp, <<c>>) THEN (IF op \in {"^", "^^"} THEN UpperC(c) ELSE LowerC(c)) ELSE c
  IN IF op \in {"^^", ",,"} THEN [i \in 1..Len(s) |-> f(s[i])]
     ELSE IF s = <<>> THEN s ELSE <<f(s[1])>> \o Tail(s)

\* ${s@Q}: single quotes, ' as '\'' ; control characters use $'...'
NeedsDollar(s) == \E i \in 1..Len(s) : s[i] \in {"NL", "TAB"}
RECURSIVE SqBody(_)
SqBody(s) == IF s = <<>> THEN <<>>
             ELSE (IF Head(s) = "'" THEN <<"'", "\\", "'", "'">> ELSE <<Head(s)>>) \o SqBody(Tail(s))
RECURSIVE DollarBody(_)
DollarBody(s) == IF s = <<>> THEN <<>>
                 ELSE (CASE Head(s) = "NL" -> <<"\\", "n">> [] Head(s) = "TAB" -> <<"\\", "t">>
                         [] Head(s) = "'" -> <<"\\", "'">> [] Head(s) = "\\" -> <<"\\", "\\">>
                         [] OTHER -> <<Head(s)>>) \o DollarBody(Tail(s))
QuoteQ(s) == IF NeedsDollar(s) THEN <<"$", "'">> \o DollarBody(s) \o <<"'">>
             ELSE <<"'">> \o SqBody(s) \o <<"'">>
AtOp(op, s) ==
  CASE op = "Q" -> QuoteQ(s)
    [] op = "U" -> UpperT(s)
    [] op = "L" -> LowerT(s)
    [] op = "u" -> IF s = <<>> THEN s ELSE <<UpperC(s[1])>> \o Tail(s)

\* ------------------------------------------------------------------ argument words
\* A word = sequence of parts; qk: "n" unquoted, "d" double-quoted, "s" single-quoted.
WP(t, qk, src) == [t |-> t, qk |-> qk, src |-> src]
Words ==
  << << WP(<<"d">>, "n", <<"d">>) >>,                                  \* d
     <<>>,                                                             \* (empty)
     << WP(tAB, "n", tAB) >>,                                          \* a b
     << WP(tAB, "d", <<"\"">> \o tAB \o <<"\"">>) >>,                   \* "a b"
     << WP(tAB, "s", <<"'">> \o tAB \o <<"'">>) >>,                     \* 'a b'
     << WP(<<>>, "d", <<"\"", "\"">>) >>,                              \* ""
     << WP(AuxY, "n", <<"$", "y">>) >>,                                \* $y
     << WP(AuxY, "d", <<"\"", "$", "y", "\"">>) >>,                    \* "$y"
     << WP(<<"c">>, "n", <<"c">>), WP(tAB, "d", <<"\"">> \o tAB \o <<"\"">>), WP(<<"d">>, "n", <<"d">>) >> >>  \* c"a b"d
NWords == IF Wide THEN 9 ELSE 6
RECURSIVE WordSrc(_)
WordSrc(w) == IF w = <<>> THEN <<>> ELSE Head(w).src \o WordSrc(Tail(w))
\* the text of the word as a whole (quote removal); inside double quotes single quotes are literal
RECURSIVE WordText(_, _)
WordText(w, inDq) ==
  IF w = <<>> THEN <<>>
  ELSE (IF inDq /\ Head(w).qk = "s" THEN <<"'">> \o Head(w).t \o <<"'">> ELSE Head(w).t) \o WordText(Tail(w), inDq)

\* replacement strings for ${x/p/r}: rk = 1 omitted (${x/p}), 2 empty (${x/p/}), 3.. text
\*   4: [&] (the match in brackets; bash 5.2 patsub_replacement), 5: X Y, 6: \& (a literal &)
Repls    == << <<>>, <<>>, <<"X">>, <<"[", "AMP", "]">>, <<"X"," ","Y">>, <<"&">> >>
ReplSrcs == << <<>>, <<>>, <<"X">>, <<"[", "&", "]">>,   <<"X"," ","Y">>, <<"\\", "&">> >>
\* what the implementation substitutes (deviation AmpLiteral): & is an ordinary character, \& stays \&
ReplsDev == << <<>>, <<>>, <<"X">>, <<"[", "&", "]">>,   <<"X"," ","Y">>, <<"\\", "&">> >>
NRepls == IF Wide THEN 6 ELSE 4
ReplSrc(rk) == IF rk = 1 THEN <<>> ELSE <<"/">> \o ReplSrcs[rk]

\* ------------------------------------------------------------------ results
\* kind "s": one string; "list": elements; "word": an argument word (quoting matters)
Res(err, kind, t, vals, star, w, after, un) ==
  [err |-> err, kind |-> kind, t |-> t, vals |-> vals, star |-> star, w |-> w, after |-> after, unord |-> un]
RErr(after)            == Res(TRUE, "s", <<>>, <<>>, FALSE, <<>>, after, FALSE)
RS(t, after)           == Res(FALSE, "s", t, <<>>, FALSE, <<>>, after, FALSE)
RL(vals, star, after, un) == Res(FALSE, "list", <<>>, vals, star, <<>>, after, un)
RW(w, after)           == Res(FALSE, "word", <<>>, <<>>, FALSE, w, after, FALSE)
RView(vw, after) == IF vw.list THEN RL(vw.vals, vw.star, after, vw.unord) ELSE RS(IF vw.set THEN vw.t ELSE <<>>, after)

\* insert/overwrite index i in an indexed value
IdxSet(v, i, t) ==
  LET p == IdxPos(v, i) IN
  IF p > 0 THEN VIdx(v.ikeys, [v.vals EXCEPT ![p] = t])
  ELSE LET n == Cardinality({q \in 1..Len(v.ikeys) : v.ikeys[q] < i})
       IN VIdx(Take(v.ikeys, n) \o <<i>> \o Drop(v.ikeys, n), Take(v.vals, n) \o <<t>> \o Drop(v.vals, n))
AssocSet(v, key, t) ==
  LET p == KeyPos(v, key) IN
  IF p > 0 THEN VAssoc(v.akeys, [v.vals EXCEPT ![p] = t])
  ELSE VAssoc(Append(v.akeys, key), Append(v.vals, t))

\* can ${j:=w} assign?  "ok" with the new value of x, or "err"
Assign(s, j, t) ==
  \* (bash takes @ and * as ordinary keys when it assigns to an associative array)
  IF j.n # "x" \/ (j.sub.k \in {"at", "star"} /\ s.x.k # "assoc") THEN [ok |-> FALSE, x |-> s.x]
  ELSE LET v == s.x IN
    CASE v.k \in {"unset", "str"} /\ j.sub.k = "none" -> [ok |-> TRUE, x |-> VStr(t)]
      [] v.k = "unset" /\ j.sub.k = "num" -> IF j.sub.i < 0 THEN [ok |-> FALSE, x |-> v] ELSE [ok |-> TRUE, x |-> IdxSet(VIdx(<<>>, <<>>), j.sub.i, t)]
      [] v.k = "str" /\ j.sub.k = "num" -> IF j.sub.i < 0 THEN [ok |-> FALSE, x |-> v] ELSE [ok |-> TRUE, x |-> IdxSet(VIdx(<<0>>, <<v.s>>), j.sub.i, t)]
      [] v.k = "idx" /\ j.sub.k \in {"none", "num"} ->
           LET i == IF j.sub.k = "none" THEN 0 ELSE EffIdx(v, j.sub.i) IN
           IF i < 0 THEN [ok |-> FALSE, x |-> v] ELSE [ok |-> TRUE, x |-> IdxSet(v, i, t)]
      [] v.k = "assoc" ->
           [ok |-> TRUE, x |-> AssocSet(v, IF j.sub.k = "key" THEN j.sub.t ELSE IF j.sub.k = "num" THEN IntText(j.sub.i)
                                       ELSE IF j.sub.k = "at" THEN <<"@">> ELSE IF j.sub.k = "star" THEN <<"*">> ELSE <<"0">>, t)]
      [] OTHER -> [ok |-> FALSE, x |-> v]

\* ------------------------------------------------------------------ operator arguments
Arg(op, w, off, len, r) == [op |-> op, w |-> w, off |-> off, len |-> len, r |-> r]
A0 == Arg("", 1, 0, 99, 1)
NoLen == 99
Offs == IF Wide THEN {0, 1, 2, 3, 7, 0 - 1, 0 - 2, 0 - 7} ELSE {0, 1, 2, 0 - 1, 0 - 7}
Lens == IF Wide THEN {NoLen, 0, 1, 2, 9, 0 - 1, 0 - 5} ELSE {NoLen, 0, 1, 0 - 1, 0 - 5}
TestOps == {":-", "-", ":=", "=", ":?", "?", ":+", "+"}
RemOps  == {"#", "##", "%", "%%"}
ReplOps == {"/", "//", "/#", "/%"}
CaseOps == {"^", "^^", ",", ",,"}
AtOps   == {"Q", "U", "L", "u"}

Args(f) ==
  CASE f = "test" -> { Arg(op, w, 0, NoLen, 1) : op \in TestOps \ {":?", "?"}, w \in 1..NWords }
                     \cup { Arg(op, w, 0, NoLen, 1) : op \in {":?", "?"}, w \in 1..(IF Wide THEN 3 ELSE 2) }   \* the word is only a message
    [] f = "sub"  -> { Arg("", 1, o, l, 1) : o \in Offs, l \in Lens }
    [] f = "rem"  -> { Arg(op, 1, 0, NoLen, 1) : op \in RemOps }
    [] f = "repl" -> { Arg(op, 1, 0, NoLen, r) : op \in ReplOps, r \in 1..NRepls }
    [] f = "case" -> { Arg(op, 1, 0, NoLen, 1) : op \in CaseOps }
    [] f = "at"   -> { Arg(op, 1, 0, NoLen, 1) : op \in AtOps }
    [] f = "names" -> { Arg(op, w, 0, NoLen, 1) : op \in {"*", "@"}, w \in 1..2 }
    [] OTHER      -> { A0 }

PatFams == {"rem", "repl", "case"}
PatBound(f) == IF f = "case" THEN 1 ELSE IF f = "repl" THEN MaxPatRepl ELSE MaxPat
AlphaOf(f) == IF f = "case" THEN CaseAlpha ELSE IF f = "rem" THEN RemAlpha ELSE ReplAlpha

\* ------------------------------------------------------------------ semantics
IndTarget(t) ==   \* the parameter a text names, for ${!x}; n = "" means: not a valid name
  CASE t = <<"y">> -> Sj("y", SubNone) [] t = <<"u">> -> Sj("u", SubNone) [] t = <<"e">> -> Sj("e", SubNone)
    [] t = <<"1">> -> Sj("1", SubNone) [] t = <<"2">> -> Sj("2", SubNone) [] t = <<"@">> -> Sj("@", SubNone)
    [] t = <<"w">> -> Sj("w", SubNone) [] t = <<"w","[","1","]">> -> Sj("w", SubNum(1))
    [] t = <<"w","[","@","]">> -> Sj("w", SubAt) [] t = <<"w","[","*","]">> -> Sj("w", SubStar)
    [] OTHER -> Sj("", SubNone)

PrefixNames(w) == IF w = 1 THEN << <<"z","q","1">>, <<"z","q","2">>, <<"z","q","a">> >> ELSE <<>>
PrefixSrc(w)   == IF w = 1 THEN <<"z","q">> ELSE <<"z","z">>

KeysOf(v) ==
  CASE v.k = "unset" -> <<>> [] v.k = "str" -> << <<"0">> >>
    [] v.k = "idx" -> [i \in 1..Len(v.ikeys) |-> NatText(v.ikeys[i])]
    [] v.k = "assoc" -> v.akeys

\* substring of a scalar: ${t:off} / ${t:off:len}
SubStr(t, off, len) ==
  LET n == Len(t)
      o == IF off < 0 THEN n + off ELSE off
  IN IF o < 0 \/ o > n THEN [err |-> FALSE, t |-> <<>>]
     ELSE IF len = NoLen THEN [err |-> FALSE, t |-> Drop(t, o)]
     ELSE IF len >= 0 THEN [err |-> FALSE, t |-> SubSeq(t, o + 1, Min(n, o + len))]
     ELSE IF n + len < o THEN [err |-> TRUE, t |-> <<>>]
     ELSE [err |-> FALSE, t |-> SubSeq(t, o + 1, n + len)]

\* elements of an indexed array from index >= off (negative: from max+1), at most len of them
SliceIdx(v, off, len) ==
  LET o == IF off < 0 THEN IdxMax(v) + 1 + off ELSE off
      sel == IF o < 0 THEN <<>> ELSE SelectSeq([i \in 1..Len(v.ikeys) |-> i], LAMBDA i : v.ikeys[i] >= o)
      tk == IF len = NoLen THEN sel ELSE Take(sel, Min(Len(sel), len))
  IN [i \in 1..Len(tk) |-> v.vals[tk[i]]]
\* positional parameters: offsets are 1-based (offset 0 would include $0: out of scope)
SlicePos(ps, off, len) ==
  LET n == Len(ps)
      o == IF off < 0 THEN n + 1 + off ELSE off
      from == IF o < 1 THEN n + 1 ELSE o
      rest == Drop(ps, Min(n, from - 1))
  IN IF len = NoLen THEN rest ELSE Take(rest, Min(Len(rest), len))

\* ---- named deviations of the implementation (see the header).  Sem takes the set dv of
\* deviations that are switched on; Sem({}, ...) is the contract.
\*  ListOpJoined         an unquoted list parameter ($@ $* x[@] x[*]) with any operator is expanded as ONE
\*                       string (elements joined) that counts as set iff the variable is declared, and the
\*                       operator is applied to that string (expand.go unquotedElemFields gives up, param.go joins)
\*  AssignAt0            ${x[@]:=w} ${x[*]:=w} assign element 0; ${@:=w} ${1:=w} are accepted and expand to w (param.go assignElem)
\*  ListTestIgnored      "${@:-w}" "${x[@]:+w}" ...: the test operator is ignored on a quoted list (expand.go
\*                       quotedElemFields/perElemOps leave the elements unchanged)
\*  ListAtIgnored        "${@@Q}" "${x[@]@U}" ...: likewise the @ operators
\*  WordQuotesIgnored    quoting inside the argument word of :- := :+ ... is dropped (param.go uses Literal)
\*  NegLenClamped        a negative length that bash rejects ("substring expression < 0") is clamped
\*  AnchoredReplLiteral  ${x/#p/r} ${x/%p/r}: the # or % is taken as a literal pattern character
\*  AmpLiteral           ${x/p/[&]}: an unquoted & in the replacement is not replaced by the match (bash 5.2
\*                       patsub_replacement, on by default) and \& keeps its backslash
\*  UnsetTransformed     an unset parameter is transformed like an empty string (so ${u/*/X} is X, ${u@Q} is '')
\*  QSafeUnquoted        ${x@Q} leaves strings that need no quoting unquoted (DOCUMENTED in the property)
\*  QDoubleQuoted        ${x@Q} of a string with a single quote and nothing else special uses "..." (syntax.Quote)
\*  KeysOfScalar         ${!x[@]} of a scalar is taken as an indirection (bash: the key 0)
\*  KeysJoined           unquoted ${!x[@]} ${!p@}: the keys/names are joined into one string before splitting
\*  EmptyFieldsDropped   (C22's finding, modelled here to recognise its combinations) a non-whitespace IFS
\*                       character never delimits an empty field: IFS=: a::b gives a b
\*  SuffixStopsAtNewline ${x%p} on a value with a newline: the shortest-suffix search cannot cross a newline
\*                       (param.go removePattern prepends ".*" without the (?s) flag)
\*  LenAssocOne          ${#x[@]} of an associative array is 1
\*  IndirectSubscript    ${!x} with x='w[1]' (a subscripted name) expands to nothing
\*  IndirectBadName      ${!x} with x holding something that is not a name (bash: "invalid variable name") expands to nothing
\*  PatQuotesIgnored     ${x#'*'} ${x%"?"} ${x#\*}: quotes and (since /repo 4d8af5c) backslashes around pattern characters of # ## % %% are dropped, the character
\*                       acts as a wildcard (param.go expands the argument with Literal, not Pattern)
\*  NamesAtEmptyField    "${!p@}" with no matching name gives one empty field instead of none
AllDevs == {"ListOpJoined", "AssignAt0", "ListTestIgnored", "ListAtIgnored", "WordQuotesIgnored", "NegLenClamped",
            "AnchoredReplLiteral", "UnsetTransformed", "QSafeUnquoted", "QDoubleQuoted", "KeysOfScalar", "KeysJoined",
            "LenAssocOne", "IndirectSubscript", "IndirectBadName", "NamesAtEmptyField", "PatQuotesIgnored",
            "EmptyFieldsDropped", "SuffixStopsAtNewline", "AmpLiteral"}
\* Switches that still describe /repo (the others above were retired when their fixes were applied:
\* ListTestIgnored ListAtIgnored NegLenClamped AnchoredReplLiteral AmpLiteral UnsetTransformed KeysOfScalar
\* LenAssocOne NamesAtEmptyField SuffixStopsAtNewline, and ListOpJoined for everything but the test operators;
\* their definitions stay in Sem as documentation of what the fixes removed, but are never switched on).
DevsOf(f) ==
  CASE f = "test" -> {"ListOpJoined", "AssignAt0", "WordQuotesIgnored"}
    [] f = "rem"  -> {"PatQuotesIgnored"}
    [] f = "at"   -> {"QSafeUnquoted", "QDoubleQuoted"}
    [] f = "keys" -> {"KeysJoined"}
    [] f = "ind"  -> {"IndirectSubscript", "IndirectBadName"}
    [] f = "names" -> {"KeysJoined"}
    [] OTHER -> {}

\* a quoted * or ? taken as the wildcard
UnquotePat(p) == [i \in 1..Len(p) |->
                   IF p[i].k = "lit" /\ p[i].c = "*" /\ p[i].src[1] \in {"'", "\"", "\\"} THEN PStar
                   ELSE IF p[i].k = "lit" /\ p[i].c = "?" /\ p[i].src[1] \in {"'", "\"", "\\"} THEN PAny
                   ELSE p[i]]
QUnsafe == {";", "\"", "'", "(", ")", "$", "|", "&", ">", "<", "`", " ", "TAB", "CR", "NL", "\\", "#", "{", "~", "*", "?", "[", "="}
SafeQ(t) == t # <<>> /\ \A i \in 1..Len(t) : t[i] \notin QUnsafe
DqQ(t) == (\E i \in 1..Len(t) : t[i] = "'") /\ \A i \in 1..Len(t) : t[i] \notin (QUnsafe \ {"'"})

Sem(dv, f, s, j, q, a, p) ==
  LET vw0 == View(s, j)
      hasOp == f \in {"test", "rem", "repl", "case", "at"}
      declared == j.n \in {"@", "*"} \/ s.x.k # "unset"
      listFast == j.n \in {"@", "*"} \/ s.x.k \in {"idx", "assoc"} \/ (s.x.k = "unset" /\ ~vw0.star)
      joinMode == "ListOpJoined" \in dv /\ ~q /\ vw0.list /\ hasOp
      joinSep  == IF vw0.star THEN Ifs1(s.ifs) ELSE <<" ">>
      \* rem/case/repl on an indexed list: applied per element, THEN joined; anything else: joined first
      \* (an associative array's values in sorted order)
      joinLate == joinMode /\ f \in {"rem", "case", "repl"} /\ s.x.k # "assoc"
      vw == IF joinMode /\ ~joinLate
            THEN VwS(declared, JoinT(IF s.x.k = "assoc" THEN SortTexts({vw0.vals[i] : i \in 1..Len(vw0.vals)}) ELSE vw0.vals, joinSep))
            ELSE vw0
      txt == IF vw.set THEN vw.t ELSE <<>>       \* scalar text ("" when unset)
      keep == s.x
      \* a transformation applies to each element of a list; an unset parameter expands to nothing
      perElem(fn(_)) == IF joinLate THEN RS(JoinT([i \in 1..Len(vw.vals) |-> fn(vw.vals[i])], joinSep), keep)
                        ELSE IF vw.list THEN RL([i \in 1..Len(vw.vals) |-> fn(vw.vals[i])], vw.star, keep, vw.unord)
                        ELSE IF ~vw.set /\ "UnsetTransformed" \notin dv THEN RS(<<>>, keep) ELSE RS(fn(txt), keep)
      \* ${!x[*]} and ${!p*} unquoted: one string (joined with a space when IFS is empty), split afterwards
      \* (${!p*} with an empty IFS: joined with nothing)
      starNames(ns) == IF q THEN RL(ns, TRUE, keep, FALSE)
                       ELSE RS(JoinT(ns, IF s.ifs = <<>> /\ f = "keys" THEN <<" ">> ELSE Ifs1(s.ifs)), keep)
      assign(t) == IF "AssignAt0" \in dv /\ (vw0.list \/ IsPosName(j.n))
                   THEN (IF j.n # "x" THEN [ok |-> TRUE, x |-> s.x] ELSE Assign(s, Sj("x", SubNone), t))
                   ELSE Assign(s, j, t)
      \* the list as the implementation's fast path sees it (values of an associative array sorted)
      vwF == IF s.x.k = "assoc" /\ vw0.list
             THEN VwL(SortTexts({vw0.vals[i] : i \in 1..Len(vw0.vals)}), vw0.star, vw0.unord) ELSE vw0
      atop(t) == IF a.op = "Q" /\ "QSafeUnquoted" \in dv /\ SafeQ(t) THEN t
                 ELSE IF a.op = "Q" /\ "QDoubleQuoted" \in dv /\ DqQ(t) THEN <<"\"">> \o t \o <<"\"">>
                 ELSE AtOp(a.op, t)
  IN
  CASE f = "plain" -> RView(vw, keep)
    [] f = "test" ->
         IF "ListTestIgnored" \in dv /\ q /\ vw0.list /\ listFast THEN RView(vwF, keep)
         ELSE
         LET unsetp == ~vw.set
             nullp  == IF vw.list THEN ListAsText(vw, s.ifs, q) = <<>> ELSE txt = <<>>
             colon  == a.op \in {":-", ":=", ":?", ":+"}
             miss   == unsetp \/ (colon /\ nullp)
             w      == Words[a.w]
             rw     == IF "WordQuotesIgnored" \in dv THEN RS(WordText(w, FALSE), keep) ELSE RW(w, keep)
         IN (CASE a.op \in {":-", "-"} -> IF miss THEN rw ELSE RView(vw, keep)
              [] a.op \in {":+", "+"} -> IF miss THEN (IF vw.list THEN RView(vw, keep) ELSE RS(<<>>, keep)) ELSE rw
              [] a.op \in {":?", "?"} -> IF miss THEN RErr(keep) ELSE RView(vw, keep)
              [] a.op \in {":=", "="} ->
                   IF ~miss THEN RView(vw, keep)
                   ELSE IF ~assign(<<>>).ok THEN RErr(keep)     \* probe assignability first
                   ELSE LET t == WordText(w, q /\ "WordQuotesIgnored" \notin dv) IN   \* the assigned text depends on the quoting context
                        RS(t, assign(t).x))
    [] f = "len" -> IF "LenAssocOne" \in dv /\ vw.list /\ s.x.k = "assoc" THEN RS(<<"1">>, keep)
                    ELSE RS(NatText(IF vw.list THEN Len(vw.vals) ELSE Len(txt)), keep)
    [] f = "sub" ->
         IF ~vw.list THEN
            (IF ~vw.set THEN RS(<<>>, keep)      \* an unset parameter: nothing, the range is not even checked
             ELSE LET r == SubStr(txt, a.off, a.len) IN
                  IF r.err THEN (IF "NegLenClamped" \in dv THEN RS(SubStr(txt, a.off, NoLen).t, keep) ELSE RErr(keep))
                  ELSE RS(r.t, keep))
         ELSE LET clamp(rest) == IF Len(rest) + a.len < 0 THEN rest ELSE Take(rest, Len(rest) + a.len) IN
         IF j.n \in {"@", "*"} THEN
            LET n == Len(s.params)
                o == IF a.off < 0 THEN n + 1 + a.off ELSE a.off
            IN IF a.len # NoLen /\ a.len < 0 /\ "NegLenClamped" \in dv THEN RL(clamp(SlicePos(s.params, a.off, NoLen)), vw.star, keep, FALSE)
               ELSE IF o < 0 \/ o > n + 1 THEN RL(<<>>, vw.star, keep, FALSE)
               ELSE IF a.len # NoLen /\ a.len < 0 THEN RErr(keep)
               ELSE RL(SlicePos(s.params, a.off, a.len), vw.star, keep, FALSE)
         ELSE \* an indexed array: offsets are indices; a start outside 0..max gives nothing
            LET v == s.x
                o == IF a.off < 0 THEN IdxMax(v) + 1 + a.off ELSE a.off
            IN IF a.len # NoLen /\ a.len < 0 /\ "NegLenClamped" \in dv THEN RL(clamp(SliceIdx(v, a.off, NoLen)), vw.star, keep, FALSE)
               ELSE IF o < 0 \/ o > IdxMax(v) THEN RL(<<>>, vw.star, keep, FALSE)
               ELSE IF a.len # NoLen /\ a.len < 0 THEN RErr(keep)
               ELSE RL(SliceIdx(v, a.off, a.len), vw.star, keep, FALSE)
    [] f = "rem"  -> LET pp == IF "PatQuotesIgnored" \in dv THEN UnquotePat(p) ELSE p
                         fn(t) == IF "SuffixStopsAtNewline" \in dv /\ a.op = "%" THEN DevPctRemove(pp, t) ELSE RemOp(a.op, pp, t)
                     IN perElem(fn)
    [] f = "repl" -> LET rr == IF "AmpLiteral" \in dv THEN ReplsDev[a.r] ELSE Repls[a.r]
                         fn(t) == IF "AnchoredReplLiteral" \in dv /\ a.op \in {"/#", "/%"}
                                  THEN ReplOp("/", <<PLit(IF a.op = "/#" THEN "#" ELSE "%")>> \o p, t, rr)
                                  ELSE ReplOp(a.op, p, t, rr)
                     IN perElem(fn)
    [] f = "case" -> LET fn(t) == CaseOp(a.op, p, t) IN perElem(fn)
    [] f = "at" ->
         IF "ListAtIgnored" \in dv /\ q /\ vw0.list /\ listFast THEN RView(vwF, keep)
         ELSE IF "UnsetTransformed" \in dv /\ vw.list /\ vw.star /\ j.n = "x" /\ s.x.k = "unset" THEN RS(atop(<<>>), keep)
         ELSE IF vw.list THEN RL([i \in 1..Len(vw.vals) |-> atop(vw.vals[i])], vw.star, keep, vw.unord)
         ELSE IF ~vw.set /\ "UnsetTransformed" \notin dv THEN RS(<<>>, keep) ELSE RS(atop(txt), keep)
    [] f = "ind" ->
         IF ~vw.set THEN RErr(keep)
         ELSE LET tj == IndTarget(vw.t) IN
              IF tj.n = "" THEN (IF "IndirectBadName" \in dv THEN RS(<<>>, keep) ELSE RErr(keep))
              ELSE IF "IndirectSubscript" \in dv /\ tj.sub.k # "none" THEN RS(<<>>, keep)
              ELSE RView(View(s, tj), keep)
    [] f = "names" ->
         IF "NamesAtEmptyField" \in dv /\ q /\ a.op = "@" /\ PrefixNames(a.w) = <<>> THEN RS(<<>>, keep)
         ELSE IF "KeysJoined" \in dv /\ ~q THEN RS(JoinT(PrefixNames(a.w), IF a.op = "*" THEN Ifs1(s.ifs) ELSE <<" ">>), keep)
         ELSE IF a.op = "*" THEN starNames(PrefixNames(a.w)) ELSE RL(PrefixNames(a.w), FALSE, keep, FALSE)
    [] f = "keys" ->
         IF "KeysOfScalar" \in dv /\ s.x.k = "str" THEN RS(<<>>, keep)
         ELSE IF "KeysJoined" \in dv /\ ~q THEN RS(JoinT(KeysOf(s.x), IF j.sub.k = "star" THEN Ifs1(s.ifs) ELSE <<" ">>), keep)
         ELSE IF j.sub.k = "star" /\ ~(s.x.k = "assoc" /\ Len(s.x.akeys) > 1) THEN starNames(KeysOf(s.x))
         ELSE RL(KeysOf(s.x), j.sub.k = "star", keep, s.x.k = "assoc" /\ Len(s.x.akeys) > 1)

\* ------------------------------------------------------------------ fields
\* An element is a sequence of cells; a cell is a character with its quoting, or a
\* marker m for an empty quoted string (which still makes a field).
Cell(c, qd) == [c |-> c, q |-> qd, m |-> FALSE]
Marker == [c |-> "", q |-> TRUE, m |-> TRUE]
CellsOf(t, qd) == IF t = <<>> /\ qd THEN <<Marker>> ELSE [i \in 1..Len(t) |-> Cell(t[i], qd)]
RECURSIVE WordCells(_)
WordCells(w) == IF w = <<>> THEN <<>> ELSE CellsOf(Head(w).t, Head(w).qk # "n") \o WordCells(Tail(w))

\* elements (hard field boundaries between them) of a result in a quoting context
Elems(r, q, ifs) ==
  CASE r.kind = "s" -> << CellsOf(r.t, q) >>
    [] r.kind = "list" ->
         IF q /\ r.star THEN << CellsOf(JoinT(r.vals, Ifs1(ifs)), TRUE) >>
         ELSE IF ~q /\ NonWsIfs1(ifs) THEN << CellsOf(JoinT(r.vals, Ifs1(ifs)), FALSE) >>   \* joined, then split again
         ELSE [i \in 1..Len(r.vals) |-> CellsOf(r.vals[i], q)]
    [] r.kind = "word" ->
         IF q THEN << CellsOf(WordText(r.w, TRUE), TRUE) >> ELSE << WordCells(r.w) >>

\* field splitting of one element (bash manual 3.5.7)
\* (drop = the deviation EmptyFieldsDropped: a non-whitespace delimiter never opens an empty field)
RECURSIVE SplitCells(_, _, _, _, _, _, _)
SplitCells(cells, i, cur, has, wsf, ifs, drop) ==
  IF i > Len(cells) THEN (IF has THEN <<cur>> ELSE <<>>)
  ELSE LET ce == cells[i] IN
    IF ce.m THEN SplitCells(cells, i + 1, cur, TRUE, FALSE, ifs, drop)
    ELSE IF ce.q \/ ~InSeq(ce.c, ifs) THEN SplitCells(cells, i + 1, Append(cur, ce.c), TRUE, FALSE, ifs, drop)
    ELSE IF IsWs(ce.c) THEN
         (IF has THEN <<cur>> \o SplitCells(cells, i + 1, <<>>, FALSE, TRUE, ifs, drop)
          ELSE SplitCells(cells, i + 1, <<>>, FALSE, wsf, ifs, drop))
    ELSE (IF has THEN <<cur>> \o SplitCells(cells, i + 1, <<>>, FALSE, FALSE, ifs, drop)
          ELSE IF wsf \/ drop THEN SplitCells(cells, i + 1, <<>>, FALSE, FALSE, ifs, drop)
          ELSE << <<>> >> \o SplitCells(cells, i + 1, <<>>, FALSE, FALSE, ifs, drop))

RECURSIVE FieldsOf(_, _, _)
FieldsOf(elems, ifs, drop) ==
  IF elems = <<>> THEN <<>> ELSE SplitCells(Head(elems), 1, <<>>, FALSE, FALSE, ifs, drop) \o FieldsOf(Tail(elems), ifs, drop)

\* "$@"-like lists with no elements give no field at all; any other quoted result is
\* exactly one field per element.
FieldsD(dv, r, q, ifs) == FieldsOf(Elems(r, q, ifs), ifs, "EmptyFieldsDropped" \in dv)
Fields(r, q, ifs) == FieldsD({}, r, q, ifs)

\* ------------------------------------------------------------------ rendering of the word
SubSrc(sub) ==
  CASE sub.k = "none" -> <<>> [] sub.k = "at" -> <<"[","@","]">> [] sub.k = "star" -> <<"[","*","]">>
    [] sub.k = "num" -> <<"[">> \o IntText(sub.i) \o <<"]">>
    [] sub.k = "key" -> <<"[">> \o sub.t \o <<"]">>
SjSrc(j) == <<j.n>> \o SubSrc(j.sub)

Body(f, j, a, p) ==
  CASE f = "plain" -> SjSrc(j)
    [] f = "test"  -> SjSrc(j) \o <<a.op>> \o WordSrc(Words[a.w])
    [] f = "len"   -> <<"#">> \o SjSrc(j)
    [] f = "sub"   -> SjSrc(j) \o <<":">> \o (IF a.off < 0 THEN <<" ">> ELSE <<>>) \o IntText(a.off)
                      \o (IF a.len = NoLen THEN <<>> ELSE <<":">> \o IntText(a.len))
    [] f = "rem"   -> SjSrc(j) \o <<a.op>> \o PatSrc(p)
    [] f = "repl"  -> SjSrc(j) \o <<a.op>> \o PatSrc(p) \o ReplSrc(a.r)
    [] f = "case"  -> SjSrc(j) \o <<a.op>> \o PatSrc(p)
    [] f = "at"    -> SjSrc(j) \o <<"@", a.op>>
    [] f = "ind"   -> <<"!">> \o SjSrc(j)
    [] f = "names" -> <<"!">> \o PrefixSrc(a.w) \o <<a.op>>
    [] f = "keys"  -> <<"!">> \o SjSrc(j)
Word(f, j, q, a, p) ==
  LET b == <<"$", "{">> \o Body(f, j, a, p) \o <<"}">> IN IF q THEN <<"\"">> \o b \o <<"\"">> ELSE b

\* ------------------------------------------------------------------ the input builder
\* Staged so that TLC's workers share the work: family+store, then parameter+quoting,
\* then the operator arguments (first complete vector), then pattern elements.
VARIABLES phase, fam, st, sj, q, a, pat
vars == <<phase, fam, st, sj, q, a, pat>>

StoresOf(f) ==
  CASE f = "ind"   -> IndStores
    [] f = "names" -> << ScalarStores[1] >> \o (IF Wide THEN << Store(VUnset, <<>>, <<":">>), Store(VUnset, <<>>, <<>>) >> ELSE <<>>)
    [] f = "keys"  -> ScalarStores \o ArrayStores
    [] f \in PatFams -> PatStores
    [] OTHER       -> ScalarStores \o ArrayStores \o PosStores

SubjectsOf(f, s) ==
  IF f = "ind" THEN << SjX >>
  ELSE IF f = "names" THEN << SjX >>
  ELSE IF f = "keys" THEN << Sj("x", SubAt), Sj("x", SubStar) >>
  ELSE IF s.tag = "pos" THEN PosSubjects
  ELSE (CASE s.x.k \in {"unset", "str"} -> ScalarSubjects
          [] s.x.k = "idx" -> IdxSubjects
          [] s.x.k = "assoc" -> AssocSubjects)

\* the property's scope: what is enumerated (exclusions are stated here)
InScopeSj(f, s, j) ==
  LET vw == View(s, j) IN
  /\ (s.ifs # Dflt => vw.list \/ f = "names")        \* IFS variants only matter for lists (C22 covers splitting)
  /\ (j.sub.k = "num" /\ j.sub.i < 0 => s.x.k = "idx" /\ EffIdx(s.x, j.sub.i) >= 0)  \* bad subscripts are C28's
InScope(f, s, j, aa) ==
  LET vw == View(s, j) IN
  /\ (f = "sub" /\ j.n \in {"@", "*"} => aa.off > 0 \/ (aa.off < 0 /\ 0 - aa.off <= Len(s.params)))  \* $0 not reachable
  /\ (f = "sub" /\ j.n = "x" /\ s.x.k # "idx" => ~vw.list)   \* list slices: indexed arrays and positional parameters only

Init == /\ phase = "init" /\ fam = "none" /\ st = ScalarStores[1] /\ sj = SjX /\ q = FALSE /\ a = A0 /\ pat = <<>>

Pick1 ==
  /\ phase = "init"
  /\ \E f \in Fams : \E si \in 1..Len(StoresOf(f)) :
       /\ phase' = "s1" /\ fam' = f /\ st' = StoresOf(f)[si]
       /\ UNCHANGED <<sj, q, a, pat>>
Pick2 ==
  /\ phase = "s1"
  /\ LET js == SubjectsOf(fam, st) IN
     \E ji \in 1..Len(js) : \E qq \in BOOLEAN :
       /\ InScopeSj(fam, st, js[ji])
       /\ phase' = "s2" /\ sj' = js[ji] /\ q' = qq
       /\ UNCHANGED <<fam, st, a, pat>>
Pick3 ==
  /\ phase = "s2"
  /\ \E aa \in Args(fam) :
       /\ InScope(fam, st, sj, aa)
       /\ phase' = "vec" /\ a' = aa
       /\ UNCHANGED <<fam, st, sj, q, pat>>
Extend ==
  /\ phase = "vec" /\ fam \in PatFams /\ Len(pat) < PatBound(fam)
  /\ \E e \in 1..Len(AlphaOf(fam)) : pat' = Append(pat, e)
  /\ UNCHANGED <<phase, fam, st, sj, q, a>>

Next == Pick1 \/ Pick2 \/ Pick3 \/ Extend
Spec == Init /\ [][Next]_vars

\* ------------------------------------------------------------------ laws (checked by TLC on every vector)
TextOfFields(fs) == JoinT(fs, <<>>)
NoWs(t) == SelectSeq(t, LAMBDA c : ~IsWs(c))
ViewText(vw) == IF vw.set THEN vw.t ELSE <<>>
IsNull(vw, ifs) == vw.set /\ (IF vw.list THEN ListAsText(vw, ifs, q) = <<>> ELSE vw.t = <<>>)

\* a quoted scalar expansion is exactly one field; a quoted "@" list has one field per element
LawQuotedCount(r, fs) ==
  q /\ ~r.err => Len(fs) = (IF r.kind = "list" /\ ~r.star THEN Len(r.vals) ELSE 1)
\* with the default IFS, unquoted fields carry no whitespace and none is empty (argument words aside)
LawUnquotedSplit(r, fs) ==
  ~q /\ ~r.err /\ st.ifs = Dflt /\ r.kind # "word" =>
     \A i \in 1..Len(fs) : fs[i] # <<>> /\ \A k \in 1..Len(fs[i]) : ~IsWs(fs[i][k])
\* quoting changes where fields are cut, never their characters (default IFS)
LawQuotingKeepsText(p, r) ==
  q /\ ~r.err /\ st.ifs = Dflt /\ fam # "test" =>      \* (checked from the quoted twin only: it covers both)
     NoWs(TextOfFields(Fields(Sem({}, fam, st, sj, TRUE, a, p), TRUE, st.ifs)))
       = NoWs(TextOfFields(Fields(Sem({}, fam, st, sj, FALSE, a, p), FALSE, st.ifs)))
\* ${x:-w} and ${x-w} differ only when x is set and null; same for the other pairs
LawColon(p, r) ==
  fam = "test" =>
     LET pair == CASE a.op = ":-" -> "-" [] a.op = ":=" -> "=" [] a.op = ":?" -> "?" [] a.op = ":+" -> "+"
                   [] a.op = "-" -> ":-" [] a.op = "=" -> ":=" [] a.op = "?" -> ":?" [] a.op = "+" -> ":+"
     IN ~IsNull(View(st, sj), st.ifs) => Sem({}, fam, st, sj, q, [a EXCEPT !.op = pair], p) = r
\* # removes a matching prefix, ## at least as much; both leave a suffix of the value (dually % %%)
LawRemove(p, r) ==
  fam = "rem" /\ ~View(st, sj).list =>
     LET s == ViewText(View(st, sj))
         pre == a.op \in {"#", "##"}
         short == RemOp(IF pre THEN "#" ELSE "%", p, s)
         long  == RemOp(IF pre THEN "##" ELSE "%%", p, s)
         cutS == Len(s) - Len(short)
         cutL == Len(s) - Len(long)
     IN /\ cutS <= cutL
        /\ short = (IF pre THEN Drop(s, cutS) ELSE Take(s, Len(short)))
        /\ long  = (IF pre THEN Drop(s, cutL) ELSE Take(s, Len(long)))
        /\ (short # s => Match(p, IF pre THEN Take(s, cutS) ELSE Drop(s, Len(short))))
        /\ (long # s => Match(p, IF pre THEN Take(s, cutL) ELSE Drop(s, Len(long))))
        /\ (Match(p, s) => long = <<>>)
        /\ r.t = (IF a.op \in {"#", "%"} THEN short ELSE long)
\* ${#x} is the length of "${x}"
LawLength(r) ==
  fam = "len" /\ ~View(st, sj).list =>
     r.t = NatText(Len(TextOfFields(Fields(Sem({}, "plain", st, sj, TRUE, A0, <<>>), TRUE, st.ifs))))
\* replacing a literal pattern by itself is the identity; an anchored form that does not match
\* changes nothing; deleting never makes the value longer
LawReplace(p, r) ==
  fam = "repl" /\ ~View(st, sj).list =>
     LET s == ViewText(View(st, sj)) rp == Repls[a.r] IN
     /\ ((\A i \in 1..Len(p) : p[i].k = "lit") /\ p # <<>> => ReplOp(a.op, p, s, [i \in 1..Len(p) |-> p[i].c]) = s)
     /\ (PrefixLens(p, s) = {} /\ a.op = "/#" /\ p # <<>> => r.t = s)
     /\ (SuffixLens(p, s) = {} /\ a.op = "/%" /\ p # <<>> => r.t = s)
     /\ (p # <<>> /\ rp = <<>> => Len(r.t) <= Len(s))
     \* [&] keeps every character of the value and adds one pair of brackets per replaced match
     /\ (a.r = 4 => SelectSeq(r.t, LAMBDA c : c \notin {"[", "]"}) = s)
\* case conversion keeps the length and only changes the case
LawCase(r) ==
  fam = "case" /\ ~View(st, sj).list =>
     LET s == ViewText(View(st, sj)) IN Len(r.t) = Len(s) /\ LowerT(r.t) = LowerT(s)
\* only := and = change the variable
LawAssign(r) ==
  r.after # st.x => fam = "test" /\ a.op \in {":=", "="} /\ ~r.err

\* ------------------------------------------------------------------ the vector of a state
\* non-trivial: the operator did something to the parameter's plain expansion
Nontrivial(r) ==
  LET plain == Sem({}, "plain", st, sj, q, A0, <<>>) IN
  r.err \/ r.kind # plain.kind \/ r.t # plain.t \/ r.vals # plain.vals \/ r.after # st.x

\* Scope of the property as checked here (exclusions):
\*  - "${x[*]}" of an associative array with several keys: bash joins in hash order, which is unspecified
MultiKey(v) == v.k = "assoc" /\ Len(v.akeys) > 1
\*  - bash 5.2.15 with IFS='' mangles unquoted ${x[@]#p} ${x[@]/p/r} ${x[@]^p} of an ARRAY: the elements come
\*    out joined and an internal escape byte (\001) appears before each space (not so for $@); a bash defect
\*  - bash 5.2.15 never matches ${x/*\*/r}: a pattern that starts with * and ends with an ESCAPED * is taken
\*    to end with a wildcard (match_upattern), so it is anchored at the end by mistake; a bash defect
ResultScope(r, p) ==
  /\ ~(~q /\ st.ifs = <<>> /\ fam \in PatFams /\ sj.n = "x" /\ View(st, sj).list)
  /\ ~(fam = "repl" /\ Len(p) >= 2 /\ p[1].k = "star" /\ p[Len(p)].k = "lit" /\ p[Len(p)].c = "*")
  /\ ~(r.unord /\ r.kind = "list" /\ (r.star \/ (NonWsIfs1(st.ifs) /\ ~q)))

\* what the implementation is known to produce instead: one candidate per non-empty set of the named
\* deviations that can matter for this vector (they interact, e.g. AssignAt0 with WordQuotesIgnored)
DevCands(p, r, fs) ==
  LET vw == View(st, sj)
      \* cheap necessary conditions, so that Sem is not re-evaluated for switches that cannot matter
      mayMatter(d) ==
        CASE d = "ListOpJoined" -> ~q /\ vw.list
          [] d \in {"ListTestIgnored", "ListAtIgnored"} -> q /\ vw.list
          [] d = "AssignAt0" -> a.op \in {":=", "="} /\ (vw.list \/ IsPosName(sj.n))
          [] d = "NegLenClamped" -> a.len # NoLen /\ a.len < 0
          [] d = "AnchoredReplLiteral" -> a.op \in {"/#", "/%"}
          [] d = "UnsetTransformed" -> ~vw.set
          [] d = "AmpLiteral" -> a.r \in {4, 6}
          [] d \in {"QSafeUnquoted", "QDoubleQuoted"} -> a.op = "Q"
          [] d = "KeysJoined" -> ~q
          [] d = "EmptyFieldsDropped" -> ~q /\ NonWsIfs1(st.ifs)
          [] d = "SuffixStopsAtNewline" -> a.op = "%" /\ \E i \in 1..Len(st.x.s) : st.x.s[i] = "NL"
          [] OTHER -> TRUE
      ds == { d \in DevsOf(fam) \cup {"EmptyFieldsDropped"} : mayMatter(d) }
      cand(nm, dv) == LET rd == Sem(dv, fam, st, sj, q, a, p) IN
                      [name |-> nm, err |-> rd.err, fields |-> IF rd.err THEN <<>> ELSE FieldsD(dv, rd, q, st.ifs), after |-> rd.after]
      differs(c) == c.err # r.err \/ c.fields # fs \/ c.after # r.after
  IN { c \in { cand(S, S) : S \in (SUBSET ds) \ {{}} } : differs(c) }

Vec(p, r, fs) ==
  [fam |-> fam, devs |-> DevCands(p, r, fs), store |-> st, word |-> Word(fam, sj, q, a, p), quoted |-> q,
   err |-> r.err, fields |-> fs, after |-> r.after, unord |-> r.unord \/ MultiKey(st.x) \/ MultiKey(r.after),
   op |-> a.op, nontrivial |-> Nontrivial(r), scope |-> ResultScope(r, p)]

\* one invariant: bind pattern, result and fields once, check the laws, emit the vector
Inv ==
  phase # "vec" \/
  LET p  == PatOf(AlphaOf(fam), pat)
      r  == Sem({}, fam, st, sj, q, a, p)
      fs == IF r.err THEN <<>> ELSE Fields(r, q, st.ifs)
  IN /\ LawQuotedCount(r, fs) /\ LawUnquotedSplit(r, fs) /\ LawQuotingKeepsText(p, r)
     /\ LawColon(p, r) /\ LawRemove(p, r) /\ LawLength(r) /\ LawReplace(p, r) /\ LawCase(r) /\ LawAssign(r)
     /\ PrintT(<<"VEC", ToJson(Vec(p, r, fs))>>)
=========================================================================
