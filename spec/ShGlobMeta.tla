---------------------------- MODULE ShGlobMeta ----------------------------
(* C18: QuoteMeta and HasMeta are consistent with matching.
   Same input builder and same reference semantics as ShGlob (EXTENDS); here the state
   is read as an arbitrary string s (first statement) and as a pattern p (second
   statement).  The two statements of the property are invariants of the contract,
   checked by TLC on every string up to the token bound; every state is emitted with
   what the contract says about QuoteMeta(s), HasMeta(p), Unescape(p) and the match
   sets of both patterns, and replayed on pattern.QuoteMeta / HasMeta / Regexp. *)
EXTENDS ShGlob

\* C18, first statement: QuoteMeta(s) has no metacharacters and matches s and nothing else.
QuoteLaw ==
  LET s == Pat
      X == Opt({E})
      q == QuoteMeta(s)
      els == ParsePat(q, X)
      subj == tab.subj IN
  /\ ~HasMeta(q)
  /\ Match(els, s, X)
  /\ \A n \in 1..Len(subj) : Match(els, subj[n], X) => subj[n] = s
  /\ Unescape(q) = s
  /\ BadOf(els) = {}

\* C18, second statement: without metacharacters a pattern matches at most one string,
\* the pattern with its escapes removed.
NoMetaLaw ==
  LET p == Pat
      X == Opt({E})
      els == ParsePat(p, X)
      subj == tab.subj IN
  ~HasMeta(p) =>
     /\ \A n \in 1..Len(subj) : Match(els, subj[n], X) => subj[n] = Unescape(p)
     \* ... and it does match that string, unless bash gives up on the pattern altogether
     \* (a bracket expression cut off by the end of the pattern, see ShGlob!DeadBr)
     /\ (~AnyEl(els, "never") => Match(els, Unescape(p), X))


MetaView ==
  LET X    == Opt({E})
      p    == Pat
      q    == QuoteMeta(p)
      un   == Unescape(p)
      subj == tab.subj
      qels == ParsePat(q, X)
  IN View @@ [ quoted |-> q,
               qacc   |-> MatchSetOf(qels, subj, X),
               qxacc  |-> <<Match(qels, p, X), Match(qels, un, X)>>,
               qhasmeta |-> HasMeta(q),
               unesc  |-> un,
               \* which subjects are the string itself (so that the harness compares, not computes)
               self   |-> { n \in 1..Len(subj) : subj[n] = p } \cup {Len(subj) + 1}
                          \cup (IF un = p THEN {Len(subj) + 2} ELSE {}),
               nontrivial |-> q # p ]

EmitMeta == /\ PrintT(<<"VEC", ToJson(MetaView)>>)
            /\ (toks = <<>> => PrintT(<<"STAT", ToJson([fam |-> fam, subjects |-> tab.subj])>>))
==========================================================================
