SPECIFICATION Spec
CONSTANTS MaxLines = 3
  MaxPerLine = 2
  Defect = "read_before_callback"
INVARIANTS TypeOK DeliveredIsPrefix NothingLost IncompleteOnlyWhileOpen IncompleteWheneverOpen RunBeforeRead OneCallbackPerLine Progress
