SPECIFICATION Spec
CONSTANTS MaxLen = 2
  Buggy = FALSE
  Wide = TRUE
INVARIANTS Isolation HeapWF ChildSeesOwnWrites EmitPD EmitVec
PROPERTIES CellDiscipline Frozen
