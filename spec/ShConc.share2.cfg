SPECIFICATION Spec
CONSTANTS Family = "share2"
  MaxJobs = 2
  Buggy = FALSE
INVARIANTS NoRace WaitCorrect TableWF OwnDisjoint EmitVec
