---------------------------- MODULE ShTypedJson ----------------------------
(* C15: typed JSON round-trips syntax trees; Decode never panics.   Style F.

   The contract of a *typed* JSON codec over a schema of node kinds:
     Enc(t)        a node becomes an object; zero-valued fields are omitted; a "Type" key
                   is written exactly where the static slot does not determine the kind
                   (the root and interface-typed slots); positions are {Offset,Line,Col}
                   objects; recovered positions are not written; operators are written as
                   their source spelling
     Dec(j, slot)  total: every JSON value either decodes into a tree that fits the slot
                   or yields an error -- it never gets stuck (in TLC: never raises an
                   evaluation error; in Go: never panics)
   Laws checked by TLC on every abstract tree the builder produces (choice sequences):
     RoundTrip     Dec(Enc(t)) = StripRecovered(t)
     ReEncode      Enc(Dec(Enc(t))) = Enc(t)
     StripIdem     StripRecovered is idempotent
   and on every document reachable by <= MaxMut mutations from an encoding (delete a key,
   retype a value to every JSON type incl. negative / fractional / huge numbers, set "Type"
   to an unknown kind / a kind of the wrong category / nothing):
     DecTotal      Dec returns [ok |-> TRUE, v |-> tree] or [ok |-> FALSE, err |-> text]
     DecSound      a successful Dec result re-encodes to a document that decodes to itself
   The schema below uses the real names of syntax/nodes.go for a subset that has one field
   of every category (position, string, bool, operator, inferred node pointer, interface,
   slices of both, nested non-node struct), so that the emitted documents are real typedjson
   documents: the harness feeds them to the real Decode/Encode and compares with the
   verdicts and trees computed here.  The mutation descriptors are also applied to encodings
   of real parsed trees. *)
EXTENDS Naturals, Sequences, FiniteSets, TLC, Json

CONSTANTS MaxCh,     \* longest choice sequence (bounds the abstract trees)
          MaxMut,    \* mutations per document
          MutDocs    \* only trees with at most this many choices are mutated

\* ---------------------------------------------------------------- schema
\* field categories: pos str bool op ptr (inferred kind) iface (category) ptrs ifaces struct
F(n, c, x) == [n |-> n, c |-> c, x |-> x]
Schema == [
  File      |-> << F("Stmts", "ptrs", "Stmt") >>,
  Stmt      |-> << F("Cmd", "iface", "Command"), F("Position", "pos", ""), F("Semicolon", "pos", ""),
                   F("Negated", "bool", ""), F("Background", "bool", "") >>,
  CallExpr  |-> << F("Args", "ptrs", "Word") >>,
  BinaryCmd |-> << F("OpPos", "pos", ""), F("Op", "op", "BinCmd"), F("X", "ptr", "Stmt"), F("Y", "ptr", "Stmt") >>,
  Block     |-> << F("Lbrace", "pos", ""), F("Rbrace", "pos", ""), F("Stmts", "ptrs", "Stmt") >>,
  Word      |-> << F("Parts", "ifaces", "WordPart") >>,
  Lit       |-> << F("ValuePos", "pos", ""), F("ValueEnd", "pos", ""), F("Value", "str", "") >>,
  DblQuoted |-> << F("Left", "pos", ""), F("Right", "pos", ""), F("Dollar", "bool", ""), F("Parts", "ifaces", "WordPart") >>,
  ParamExp  |-> << F("Dollar", "pos", ""), F("Rbrace", "pos", ""), F("Short", "bool", ""),
                   F("Param", "ptr", "Lit"), F("Exp", "struct", "Expansion") >>,
  Expansion |-> << F("Op", "op", "ParExp"), F("Word", "ptr", "Word") >> ]
NodeKinds == {"File", "Stmt", "CallExpr", "BinaryCmd", "Block", "Word", "Lit", "DblQuoted", "ParamExp"}
Category == [Command |-> {"CallExpr", "BinaryCmd", "Block"}, WordPart |-> {"Lit", "DblQuoted", "ParamExp"}]
Ops == [BinCmd |-> <<"&&", "||", "|">>, ParExp |-> <<":-", "#", "%%">>]
OpSet(o) == {Ops[o][i] : i \in DOMAIN Ops[o]}
FieldNames(k) == {Schema[k][i].n : i \in DOMAIN Schema[k]}
FieldOf(k, name) == Schema[k][CHOOSE i \in DOMAIN Schema[k] : Schema[k][i].n = name]

\* ---------------------------------------------------------------- abstract trees
\* node = [k |-> kind, v |-> function from the names of its non-zero fields to values]
\* position value = [p |-> "v", n |-> offset] (valid) or [p |-> "r"] (recovered); zero = absent
Node(k, v) == [k |-> k, v |-> v]
Fld(name, val) == name :> val
NoFld == <<>>                      \* the empty function
VPos(n) == [p |-> "v", n |-> n]
RPos    == [p |-> "r"]

\* ---- builder: a choice sequence is decoded into a tree; r = [ok, t, ch (rest), n (next offset)]
Bad == [ok |-> "no"]
Take(ch) == IF ch = <<>> THEN [more |-> TRUE] ELSE [more |-> FALSE, c |-> Head(ch), rest |-> Tail(ch)]
Need == [ok |-> "more"]

RECURSIVE BStmts(_, _, _, _), BStmtN(_, _, _, _, _), BStmt(_, _, _, _), BCmd(_, _, _, _), BWords(_, _, _, _, _),
          BWord(_, _, _, _), BParts(_, _, _, _, _), BPart(_, _, _, _)
\* pm: what closing positions (Rbrace, Right) are: "v" valid, "r" recovered
ClosePos(pm, n) == IF pm = "r" THEN RPos ELSE VPos(n)

BStmts(ch, d, n, pm) ==
  LET h == Take(ch) IN IF h.more THEN Need ELSE
  IF h.c > 2 THEN Bad ELSE BStmtN(h.rest, d, n, pm, h.c)
BStmtN(ch, d, n, pm, k) ==
  IF k = 0 THEN [ok |-> "yes", t |-> <<>>, ch |-> ch, n |-> n]
  ELSE LET a == BStmt(ch, d, n, pm) IN IF a.ok # "yes" THEN a ELSE
       LET b == BStmtN(a.ch, d, a.n, pm, k - 1) IN IF b.ok # "yes" THEN b ELSE
       [ok |-> "yes", t |-> <<a.t>> \o b.t, ch |-> b.ch, n |-> b.n]
BStmt(ch, d, n, pm) ==
  LET h == Take(ch) IN IF h.more THEN Need ELSE
  IF h.c > 2 THEN Bad ELSE
  LET c == BCmd(h.rest, d, n + 1, pm) IN IF c.ok # "yes" THEN c ELSE
  [ok |-> "yes", ch |-> c.ch, n |-> c.n,
   t |-> Node("Stmt", Fld("Cmd", c.t) @@ Fld("Position", VPos(n))
                      @@ (IF h.c = 1 THEN Fld("Negated", TRUE) ELSE NoFld)
                      @@ (IF h.c = 2 THEN Fld("Background", TRUE) @@ Fld("Semicolon", VPos(c.n)) ELSE NoFld))]
BCmd(ch, d, n, pm) ==
  LET h == Take(ch) IN IF h.more THEN Need ELSE
  CASE h.c = 0 -> LET w == BWords(h.rest, d, n, pm, 1) IN IF w.ok # "yes" THEN w ELSE
                  [ok |-> "yes", t |-> Node("CallExpr", Fld("Args", w.t)), ch |-> w.ch, n |-> w.n]
    [] h.c = 1 -> LET w == BWords(h.rest, d, n, pm, 2) IN IF w.ok # "yes" THEN w ELSE
                  [ok |-> "yes", t |-> Node("CallExpr", Fld("Args", w.t)), ch |-> w.ch, n |-> w.n]
    [] h.c = 2 /\ d > 0 ->
                  LET o == Take(h.rest) IN IF o.more THEN Need ELSE IF o.c > 2 THEN Bad ELSE
                  LET x == BStmt(o.rest, d - 1, n, pm) IN IF x.ok # "yes" THEN x ELSE
                  LET y == BStmt(x.ch, d - 1, x.n + 2, pm) IN IF y.ok # "yes" THEN y ELSE
                  [ok |-> "yes", ch |-> y.ch, n |-> y.n,
                   t |-> Node("BinaryCmd", Fld("OpPos", VPos(x.n)) @@ Fld("Op", Ops.BinCmd[o.c + 1]) @@ Fld("X", x.t) @@ Fld("Y", y.t))]
    [] h.c = 3 /\ d > 0 ->
                  LET s == BStmts(h.rest, d - 1, n + 1, pm) IN IF s.ok # "yes" THEN s ELSE
                  [ok |-> "yes", ch |-> s.ch, n |-> s.n + 1,
                   t |-> Node("Block", Fld("Lbrace", VPos(n)) @@ Fld("Rbrace", ClosePos(pm, s.n))
                                       @@ (IF s.t = <<>> THEN NoFld ELSE Fld("Stmts", s.t)))]
    [] OTHER -> Bad
BWords(ch, d, n, pm, k) ==
  IF k = 0 THEN [ok |-> "yes", t |-> <<>>, ch |-> ch, n |-> n]
  ELSE LET a == BWord(ch, d, n, pm) IN IF a.ok # "yes" THEN a ELSE
       LET b == BWords(a.ch, d, a.n + 1, pm, k - 1) IN IF b.ok # "yes" THEN b ELSE
       [ok |-> "yes", t |-> <<a.t>> \o b.t, ch |-> b.ch, n |-> b.n]
BWord(ch, d, n, pm) ==
  LET h == Take(ch) IN IF h.more THEN Need ELSE
  IF h.c = 0 \/ h.c > 2 THEN Bad ELSE       \* 1 or 2 parts
  LET p == BParts(h.rest, d, n, pm, h.c) IN IF p.ok # "yes" THEN p ELSE
  [ok |-> "yes", t |-> Node("Word", Fld("Parts", p.t)), ch |-> p.ch, n |-> p.n]
BParts(ch, d, n, pm, k) ==
  IF k = 0 THEN [ok |-> "yes", t |-> <<>>, ch |-> ch, n |-> n]
  ELSE LET a == BPart(ch, d, n, pm) IN IF a.ok # "yes" THEN a ELSE
       LET b == BParts(a.ch, d, a.n, pm, k - 1) IN IF b.ok # "yes" THEN b ELSE
       [ok |-> "yes", t |-> <<a.t>> \o b.t, ch |-> b.ch, n |-> b.n]
BPart(ch, d, n, pm) ==
  LET h == Take(ch) IN IF h.more THEN Need ELSE
  CASE h.c = 0 -> [ok |-> "yes", ch |-> h.rest, n |-> n + 1,
                   t |-> Node("Lit", Fld("ValuePos", VPos(n)) @@ Fld("ValueEnd", VPos(n + 1)) @@ Fld("Value", "a"))]
    [] h.c = 1 /\ d > 0 ->        \* "..." or $"..." with 0 or 1 part inside
                  LET o == Take(h.rest) IN IF o.more THEN Need ELSE IF o.c > 3 THEN Bad ELSE
                  LET p == BParts(o.rest, d - 1, n + 1, pm, o.c % 2) IN IF p.ok # "yes" THEN p ELSE
                  [ok |-> "yes", ch |-> p.ch, n |-> p.n + 1,
                   t |-> Node("DblQuoted", Fld("Left", VPos(n)) @@ Fld("Right", ClosePos(pm, p.n))
                                           @@ (IF o.c >= 2 THEN Fld("Dollar", TRUE) ELSE NoFld)
                                           @@ (IF p.t = <<>> THEN NoFld ELSE Fld("Parts", p.t)))]
    [] h.c = 2 -> [ok |-> "yes", ch |-> h.rest, n |-> n + 2,      \* $a
                   t |-> Node("ParamExp", Fld("Dollar", VPos(n)) @@ Fld("Short", TRUE)
                          @@ Fld("Param", Node("Lit", Fld("ValuePos", VPos(n + 1)) @@ Fld("ValueEnd", VPos(n + 2)) @@ Fld("Value", "a"))))]
    [] h.c = 3 /\ d > 0 ->        \* ${a OP word}
                  LET o == Take(h.rest) IN IF o.more THEN Need ELSE IF o.c > 2 THEN Bad ELSE
                  LET w == BWord(o.rest, d - 1, n + 4, pm) IN IF w.ok # "yes" THEN w ELSE
                  [ok |-> "yes", ch |-> w.ch, n |-> w.n + 1,
                   t |-> Node("ParamExp", Fld("Dollar", VPos(n)) @@ Fld("Rbrace", ClosePos(pm, w.n))
                          @@ Fld("Param", Node("Lit", Fld("ValuePos", VPos(n + 2)) @@ Fld("ValueEnd", VPos(n + 3)) @@ Fld("Value", "a")))
                          @@ Fld("Exp", Node("Expansion", Fld("Op", Ops.ParExp[o.c + 1]) @@ Fld("Word", w.t))))]
    [] OTHER -> Bad

Depth == 2
BFile(ch, pm) ==
  LET s == BStmts(ch, Depth, 1, pm) IN
  IF s.ok # "yes" THEN s
  ELSE IF s.ch # <<>> THEN Bad
  ELSE [ok |-> "yes", t |-> Node("File", IF s.t = <<>> THEN NoFld ELSE Fld("Stmts", s.t))]

\* ---------------------------------------------------------------- JSON values (all tagged records)
JO(kv) == [t |-> "obj", kv |-> kv]       \* kv: sequence of <<key, value>>
JA(a)  == [t |-> "arr", a |-> a]
JS(s)  == [t |-> "str", s |-> s]
JN(n)  == [t |-> "num", n |-> n, q |-> "int"]     \* q: int | neg | frac | big (2^32) | huge (1e400)
JQ(q)  == [t |-> "num", n |-> 0, q |-> q]
JB(b)  == [t |-> "bool", b |-> b]
JNull  == [t |-> "null"]
Get(o, key) == LET S == {i \in DOMAIN o.kv : o.kv[i][1] = key} IN
               IF S = {} THEN [has |-> FALSE] ELSE [has |-> TRUE, v |-> o.kv[CHOOSE i \in S : \A j \in S : i <= j][2]]

\* ---------------------------------------------------------------- Enc
EncPos(p) == JO(<< <<"Offset", JN(p.n)>>, <<"Line", JN(1)>>, <<"Col", JN(p.n + 1)>> >>)

RECURSIVE EncNode(_, _), EncFields(_, _), EncVal(_, _), EncSeq(_, _)
EncSeq(s, withType) == IF s = <<>> THEN <<>> ELSE <<EncNode(Head(s), withType)>> \o EncSeq(Tail(s), withType)
EncVal(f, val) ==
  CASE f.c = "pos"    -> EncPos(val)
    [] f.c = "str"    -> JS(val)
    [] f.c = "bool"   -> JB(val)
    [] f.c = "op"     -> JS(val)
    [] f.c = "ptr"    -> EncNode(val, FALSE)
    [] f.c = "struct" -> EncNode(val, FALSE)
    [] f.c = "iface"  -> EncNode(val, TRUE)
    [] f.c = "ptrs"   -> JA(EncSeq(val, FALSE))
    [] f.c = "ifaces" -> JA(EncSeq(val, TRUE))
\* the pairs of the non-zero fields, in schema order; a recovered position is not written
EncFields(t, i) ==
  IF i > Len(Schema[t.k]) THEN <<>>
  ELSE LET f == Schema[t.k][i] IN
       (IF f.n \in DOMAIN t.v /\ ~(f.c = "pos" /\ t.v[f.n].p = "r") THEN << <<f.n, EncVal(f, t.v[f.n])>> >> ELSE <<>>)
       \o EncFields(t, i + 1)
EncNode(t, withType) == IF t.k = "Nil" THEN JNull
                        ELSE JO((IF withType THEN << <<"Type", JS(t.k)>> >> ELSE <<>>) \o EncFields(t, 1))
Enc(t) == EncNode(t, TRUE)

\* ---------------------------------------------------------------- StripRecovered
RECURSIVE Strip(_), StripSeq(_)
StripSeq(s) == IF s = <<>> THEN <<>> ELSE <<Strip(Head(s))>> \o StripSeq(Tail(s))
Strip(t) ==
  IF t.k = "Nil" THEN t ELSE
  LET keep == {name \in DOMAIN t.v : ~(FieldOf(t.k, name).c = "pos" /\ t.v[name].p = "r")} IN
  Node(t.k, [name \in keep |->
     LET f == FieldOf(t.k, name) IN
     CASE f.c \in {"ptr", "struct", "iface"} -> Strip(t.v[name])
       [] f.c \in {"ptrs", "ifaces"}         -> StripSeq(t.v[name])
       [] OTHER                              -> t.v[name]])

\* ---------------------------------------------------------------- Dec (total)
Err(e)  == [ok |-> FALSE, err |-> e]
Ok(v)   == [ok |-> TRUE, nil |-> FALSE, v |-> v]
OkNil   == [ok |-> TRUE, nil |-> TRUE, v |-> 0]        \* "leaves the zero value"
IsU32(j) == j.t = "num" /\ j.q = "int"
NilNode == Node("Nil", NoFld)                          \* a null element of an array: a nil pointer in the slice

DecPos(j) ==
  IF j.t # "obj" THEN Err("position: not an object")
  ELSE IF Len(j.kv) # 3 THEN Err("position: must have exactly Offset, Line, Col")
  ELSE LET o == Get(j, "Offset") l == Get(j, "Line") c == Get(j, "Col") IN
       IF ~(o.has /\ l.has /\ c.has) THEN Err("position: missing field")
       ELSE IF ~(IsU32(o.v) /\ IsU32(l.v) /\ IsU32(c.v)) THEN Err("position: field is not an unsigned integer")
       ELSE Ok(VPos(o.v.n))

\* slot = [c |-> "root"] | [c |-> "ptr"|"struct", x |-> kind] | [c |-> "iface", x |-> category]
RECURSIVE DecNode(_, _), DecKV(_, _, _, _), DecField(_, _), DecSeq(_, _, _)
DecSeq(a, slot, i) ==
  IF i > Len(a) THEN Ok(<<>>)
  ELSE LET h == DecNode(a[i], slot) IN IF ~h.ok THEN h ELSE
       LET r == DecSeq(a, slot, i + 1) IN IF ~r.ok THEN r ELSE
       Ok(<<IF h.nil THEN NilNode ELSE h.v>> \o r.v)
DecField(f, j) ==
  CASE f.c = "pos"  -> DecPos(j)
    [] j.t = "null" -> OkNil
    [] f.c = "str"  -> IF j.t = "str" THEN (IF j.s = "" THEN OkNil ELSE Ok(j.s)) ELSE Err("string field: wrong JSON type")
    [] f.c = "bool" -> IF j.t = "bool" THEN (IF j.b THEN Ok(TRUE) ELSE OkNil) ELSE Err("bool field: wrong JSON type")
    [] f.c = "op"   -> IF j.t = "str" /\ j.s \in OpSet(f.x) THEN Ok(j.s) ELSE Err("operator field: not an operator spelling")
    [] f.c \in {"ptr", "struct"} -> DecNode(j, [c |-> f.c, x |-> f.x])
    [] f.c = "iface" -> DecNode(j, [c |-> "iface", x |-> f.x])
    [] f.c = "ptrs"  -> IF j.t # "arr" THEN Err("slice field: not an array")
                        ELSE IF Len(j.a) = 0 THEN OkNil ELSE DecSeq(j.a, [c |-> "ptr", x |-> f.x], 1)
    [] f.c = "ifaces" -> IF j.t # "arr" THEN Err("slice field: not an array")
                         ELSE IF Len(j.a) = 0 THEN OkNil ELSE DecSeq(j.a, [c |-> "iface", x |-> f.x], 1)
\* the pairs of an object, left to right
DecKV(k, kv, i, acc) ==
  IF i > Len(kv) THEN Ok(acc)
  ELSE LET key == kv[i][1] IN
       IF key \in {"Type", "Pos", "End"} THEN DecKV(k, kv, i + 1, acc)
       ELSE IF key \notin FieldNames(k) THEN Err("unknown field")
       ELSE LET r == DecField(FieldOf(k, key), kv[i][2]) IN
            IF ~r.ok THEN r
            ELSE IF r.nil THEN DecKV(k, kv, i + 1, acc)
            ELSE DecKV(k, kv, i + 1, (key :> r.v) @@ acc)
DecNode(j, slot) ==
  IF j.t = "null" THEN OkNil
  ELSE IF j.t # "obj" THEN Err("node slot: not an object")
  ELSE LET ty == Get(j, "Type")
           named == ty.has /\ ty.v.t = "str" /\ ty.v.s # ""
           kind == IF named THEN ty.v.s ELSE IF slot.c \in {"ptr", "struct"} THEN slot.x ELSE "" IN
       IF named /\ kind \notin NodeKinds THEN Err("unknown type")
       ELSE IF named /\ slot.c \in {"ptr", "struct"} /\ kind # slot.x THEN Err("type does not fit the slot")
       ELSE IF named /\ slot.c = "iface" /\ kind \notin Category[slot.x] THEN Err("type is not in the slot's category")
       ELSE IF kind = "" THEN Err("missing Type")
       ELSE LET r == DecKV(kind, j.kv, 1, NoFld) IN IF ~r.ok THEN r ELSE Ok(Node(kind, r.v))
RECURSIVE HasHuge(_)
HasHuge(j) == CASE j.t = "num" -> j.q = "huge"
                [] j.t = "arr" -> \E i \in DOMAIN j.a : HasHuge(j.a[i])
                [] j.t = "obj" -> \E i \in DOMAIN j.kv : HasHuge(j.kv[i][2])
                [] OTHER -> FALSE
Dec(j) == IF HasHuge(j) THEN Err("number out of range for JSON")
          ELSE LET r == DecNode(j, [c |-> "root"]) IN
               IF r.ok /\ r.nil THEN Err("null is not a node") ELSE r

\* ---------------------------------------------------------------- mutations of a document
\* all paths to values: a path is a sequence of indices (into kv for objects, into a for arrays)
RECURSIVE Paths(_, _), PathsKV(_, _, _), PathsArr(_, _, _)
PathsKV(kv, i, pre) == IF i > Len(kv) THEN <<>> ELSE <<pre \o <<i>>>> \o Paths(kv[i][2], pre \o <<i>>) \o PathsKV(kv, i + 1, pre)
PathsArr(a, i, pre) == IF i > Len(a) THEN <<>> ELSE <<pre \o <<i>>>> \o Paths(a[i], pre \o <<i>>) \o PathsArr(a, i + 1, pre)
Paths(j, pre) == CASE j.t = "obj" -> PathsKV(j.kv, 1, pre) [] j.t = "arr" -> PathsArr(j.a, 1, pre) [] OTHER -> <<>>

RemoveAt(s, i) == SubSeq(s, 1, i - 1) \o SubSeq(s, i + 1, Len(s))
RECURSIVE At(_, _), Put(_, _, _), Del(_, _)
At(j, p)  == IF p = <<>> THEN j ELSE IF j.t = "obj" THEN At(j.kv[Head(p)][2], Tail(p)) ELSE At(j.a[Head(p)], Tail(p))
Put(j, p, x) == IF p = <<>> THEN x
                ELSE IF j.t = "obj" THEN [j EXCEPT !.kv[Head(p)] = <<@[1], Put(@[2], Tail(p), x)>>]
                ELSE [j EXCEPT !.a[Head(p)] = Put(@, Tail(p), x)]
Del(j, p) == IF Len(p) = 1 THEN (IF j.t = "obj" THEN [j EXCEPT !.kv = RemoveAt(@, Head(p))] ELSE [j EXCEPT !.a = RemoveAt(@, Head(p))])
             ELSE IF j.t = "obj" THEN [j EXCEPT !.kv[Head(p)] = <<@[1], Del(@[2], Tail(p))>>]
             ELSE [j EXCEPT !.a[Head(p)] = Del(@, Tail(p))]

Retypes == [null |-> JNull, bool |-> JB(TRUE), false |-> JB(FALSE), num |-> JN(7), neg |-> JQ("neg"), frac |-> JQ("frac"),
            big |-> JQ("big"), huge |-> JQ("huge"), str |-> JS("zz"), estr |-> JS(""), arr |-> JA(<<>>), arr1 |-> JA(<<JO(<<>>)>>),
            obj |-> JO(<<>>), lit |-> JO(<< <<"Type", JS("Lit")>> >>), stmt |-> JO(<< <<"Type", JS("Stmt")>> >>)]
TypeNames == {"Nope", "Lit", "Stmt", "File", "Expansion", ""}
SetType(o, name) ==
  LET rest == SelectSeq(o.kv, LAMBDA kv : kv[1] # "Type") IN
  JO((IF name = "" THEN <<>> ELSE << <<"Type", JS(name)>> >>) \o rest)

\* ---------------------------------------------------------------- state machine
VARIABLES ch, pm, muts, doc
vars == <<ch, pm, muts, doc>>

Built == BFile(ch, pm)
Init == ch = <<>> /\ pm \in {"v", "r"} /\ muts = <<>> /\ doc = JNull

Extend == /\ muts = <<>> /\ Len(ch) < MaxCh
          /\ \E c \in 0..3 : LET b == BFile(Append(ch, c), pm) IN
                /\ b.ok # "no"
                /\ ch' = Append(ch, c)
                /\ doc' = IF b.ok = "yes" THEN Enc(b.t) ELSE JNull
          /\ UNCHANGED <<pm, muts>>

Mutate == /\ Built.ok = "yes" /\ Len(ch) <= MutDocs /\ Len(muts) < MaxMut
          /\ LET ps == Paths(doc, <<>>) IN
             \E i \in DOMAIN ps :
                \/ /\ doc' = Del(doc, ps[i]) /\ muts' = Append(muts, [op |-> "del", k |-> i, arg |-> ""])
                \/ \E ty \in DOMAIN Retypes :
                     /\ doc' = Put(doc, ps[i], Retypes[ty]) /\ muts' = Append(muts, [op |-> "retype", k |-> i, arg |-> ty])
                \/ /\ At(doc, ps[i]).t = "obj"
                   /\ \E name \in TypeNames :
                        /\ doc' = Put(doc, ps[i], SetType(At(doc, ps[i]), name))
                        /\ muts' = Append(muts, [op |-> "settype", k |-> i, arg |-> name])
          /\ UNCHANGED <<ch, pm>>
MutateRoot == /\ Built.ok = "yes" /\ Len(ch) <= MutDocs /\ muts = <<>> /\ MaxMut > 0
              /\ \E name \in TypeNames : doc' = SetType(doc, name) /\ muts' = <<[op |-> "settype", k |-> 0, arg |-> name]>>
              /\ UNCHANGED <<ch, pm>>

Next == Extend \/ Mutate \/ MutateRoot
Spec == Init /\ [][Next]_vars

\* ---------------------------------------------------------------- laws
Complete == Built.ok = "yes"
RoundTrip == (Complete /\ muts = <<>>) => LET d == Dec(Enc(Built.t)) IN d.ok /\ d.v = Strip(Built.t)
ReEncode  == (Complete /\ muts = <<>>) => Enc(Dec(Enc(Built.t)).v) = Enc(Strip(Built.t)) /\ Enc(Strip(Built.t)) = Enc(Built.t)
StripIdem == (Complete /\ muts = <<>>) => Strip(Strip(Built.t)) = Strip(Built.t)
DecTotal  == (Complete /\ muts # <<>>) => LET d == Dec(doc) IN d.ok \in BOOLEAN /\ (d.ok => d.v.k \in NodeKinds) /\ (~d.ok => d.err # "")
DecSound  == (Complete /\ muts # <<>>) => LET d == Dec(doc) IN d.ok => LET d2 == Dec(Enc(d.v)) IN d2.ok /\ d2.v = d.v

\* ---------------------------------------------------------------- emission
Emit == Complete =>
  IF muts = <<>>
  THEN PrintT(<<"VEC", ToJson([kind |-> "tree", ch |-> ch, pm |-> pm, tree |-> Built.t, strip |-> Strip(Built.t), doc |-> doc])>>)
  ELSE LET d == Dec(doc) IN
       PrintT(<<"VEC", ToJson([kind |-> "mut", ch |-> ch, pm |-> pm, muts |-> muts, doc |-> doc, ok |-> d.ok,
                                 why |-> IF d.ok THEN "" ELSE d.err])>>)
EmitInv == Emit

\* Deep nesting cannot be built as a TLA+ value; these documents are described symbolically
\* (head pre^depth mid post^depth tail) and expanded by the harness.  encoding/json refuses
\* more than 10000 levels, so both sides of that limit are included.
NestDocs == <<
  [name |-> "arr",   head |-> "", pre |-> "[", mid |-> "", post |-> "]", tail |-> ""],
  [name |-> "obj",   head |-> "", pre |-> "{\"Type\":\"File\",\"Stmts\":", mid |-> "null", post |-> "}", tail |-> ""],
  [name |-> "block", head |-> "{\"Type\":\"File\",\"Stmts\":[", pre |-> "{\"Cmd\":{\"Type\":\"Block\",\"Stmts\":[", mid |-> "",
                     post |-> "]}}", tail |-> "]}"],
  [name |-> "word",  head |-> "{\"Type\":\"Word\",\"Parts\":[", pre |-> "{\"Type\":\"DblQuoted\",\"Parts\":[", mid |-> "",
                     post |-> "]}", tail |-> "]}"],
  [name |-> "open",  head |-> "", pre |-> "{\"Type\":\"Stmt\",\"Cmd\":", mid |-> "", post |-> "", tail |-> ""] >>
NestDepths == <<100, 2000, 4000, 9990, 10001, 100000>>
ASSUME PrintT(<<"STAT", ToJson([retypes |-> Retypes, nest |-> NestDocs, depths |-> NestDepths, typenames |-> TypeNames])>>)
=============================================================================
