SPECIFICATION Spec
CONSTANTS TokBoost = 3
  SubjBoost = 0
  Fams = {"core", "cls", "nocase", "utf", "extop", "extmix", "extbr", "fname", "path"}
INVARIANTS LiteralLaw EmitInv
VIEW StateKey
