SPECIFICATION Spec
CONSTANTS TokBoost = 3
  SubjBoost = 0
  Fams = {"core", "brk", "cls", "nocase", "utf", "extop", "extmix", "extbr", "fname", "fnbrk", "fncase", "fnext", "path"}
INVARIANTS LiteralLaw EmitInv
VIEW StateKey
