---------------------------- MODULE ShSubshell ----------------------------
(* C27: subshells cannot change the parent shell.   Style S with an explicit heap.

   A shell has a chain of scope frames (global, then the locals of an enclosing
   function pf when the parent descriptor says so).  A frame maps a name to a
   variable record; an array variable does not contain its elements, it holds a
   REFERENCE (ref) to a heap cell.  Spawn creates the child as one more overlay
   frame on top of the parent's chain: the child sees every parent variable and,
   through the shared references, every parent cell.  That sharing is what makes
   an isolating context cheap, and it is what the contract is about:

        a child never writes a cell that is reachable from the parent;
        whatever it changes goes to its own overlay / its own cells (copy on write).

   TLC checks  Isolation  (the parent's observable view never changes while the
   child runs an arbitrary list of mutators),  CellDiscipline  (no parent cell is
   ever written or re-typed) and well-formedness of the heap.  With Buggy = TRUE the
   `name+=value` mutator on an array writes the shared cell in place -- the config
   ShSubshell.buggy.cfg must make TLC report an Isolation violation (non-vacuity).

   Every reachable state is one behaviour  (parent descriptor, spawn kind, mutator list);
   it is emitted as a VEC line with the child view the contract predicts; the parent
   view (before = after) is emitted once per descriptor as a PD line.  The texts of
   the set-up commands and of the mutators are part of the spec (fields txt), the
   engine only concatenates them into   setup; dump; CONTEXT{ muts; dump }; wait; dump. *)
EXTENDS Integers, Sequences, FiniteSets, TLC, Json

CONSTANTS MaxLen,      \* maximal number of mutators run by the child
          Buggy,       \* TRUE = aliasing defect switched on (self-test)
          Wide         \* FALSE: curated parent descriptors (quick); TRUE: the thorough set

VARIABLES pd,          \* parent descriptor (constant after Init)
          kind,        \* how the child was spawned: "share" or "copy" (constant after Init)
          muts,        \* texts of the mutators the child has run so far
          heap,        \* sequence of cells; a reference is an index into it
          np,          \* number of cells at Spawn: cells 1..np belong to the parent
          pfr,         \* parent's frames, bottom (global) first
          pm,          \* parent's non-variable state (functions, aliases, options, cwd, params, OPTIND)
          cov,         \* child's overlay frame
          cm           \* child's copy of the non-variable state
vars == <<pd, kind, muts, heap, np, pfr, pm, cov, cm>>

Names  == <<"s", "t", "a", "m", "o">>          \* dumped variables, in dump order
NameSet == {Names[i] : i \in 1..Len(Names)}
AKeys  == {"k", "j", "z"}                       \* probed keys of associative arrays
\* The isolating contexts, by the way their child is spawned.  "share": the parent is blocked
\* while the child runs, the child is an empty overlay over the parent's chain.  "copy": the
\* child may run concurrently with the parent (which may rebind its names meanwhile), so it
\* gets its own copy of every variable RECORD.  The cells stay shared in both cases, which is
\* why the write discipline is needed for every context.  One TLC state stands for the
\* behaviours of all contexts of its kind (their child semantics are identical by contract);
\* the engine runs short lists in every one of them and longer lists in one, in rotation.
CtxOf == [share |-> <<"sub", "cmdsub", "pipelast">>,
          copy  |-> <<"procin", "procout", "pipefirst", "bg", "api">>]
Kinds == {"share", "copy"}

\* ---------------------------------------------------------------- values and cells
\* A value is a sequence of atoms (TLC strings are atomic); the engine joins them.
Unset == [k |-> "u", v |-> <<>>, ref |-> 0, x |-> FALSE, r |-> FALSE]
NoI   == [i \in {} |-> <<>>]
ICell(f) == [t |-> "i", ie |-> f, ae |-> NoI]   \* indexed: index -> value
ACell(f) == [t |-> "A", ie |-> NoI, ae |-> f]   \* associative: key -> value

MapSet(f, k, v) == [j \in (DOMAIN f) \cup {k} |-> IF j = k THEN v ELSE f[j]]
MapDel(f, k)    == [j \in (DOMAIN f) \ {k} |-> f[j]]
MaxOf(S)        == CHOOSE k \in S : \A j \in S : j <= k
RECURSIVE SortedKeys(_)
SortedKeys(S) == IF S = {} THEN <<>>
                 ELSE LET k == CHOOSE x \in S : \A y \in S : x <= y IN <<k>> \o SortedKeys(S \ {k})

\* ---------------------------------------------------------------- scope chain
Lookup(frames, n) ==
  LET is == {i \in 1..Len(frames) : n \in DOMAIN frames[i]} IN
  IF is = {} THEN Unset ELSE frames[MaxOf(is)][n]
Chain     == pfr \o <<cov>>
Cur(st, n) == Lookup(pfr \o <<st.cov>>, n)       \* the variable the child sees
Put(st, n, rc) == [st EXCEPT !.cov = (n :> rc) @@ st.cov]

\* references reachable from a chain of frames
ReachF(frames) == UNION { { frames[i][n].ref : n \in DOMAIN frames[i] } : i \in 1..Len(frames) } \ {0}

\* ---------------------------------------------------------------- copy on write
\* make the cell of reference c writable by the child: cells above np are its own
Own(st, c) == IF c > np THEN [st |-> st, c |-> c]
              ELSE [st |-> [st EXCEPT !.heap = Append(st.heap, st.heap[c])], c |-> Len(st.heap) + 1]
New(st, cell) == [st |-> [st EXCEPT !.heap = Append(st.heap, cell)], c |-> Len(st.heap) + 1]

Arr(rc, c)  == [rc EXCEPT !.k = "i", !.v = <<>>, !.ref = c]
IContent(st, rc) == IF rc.k = "i" THEN st.heap[rc.ref].ie
                    ELSE IF rc.k = "s" THEN (0 :> rc.v) ELSE NoI

\* name[i]=val   (name unset, scalar or indexed)
SetElem(st, n, i, val) ==
  LET rc == Cur(st, n) IN
  IF rc.k = "i" THEN
       LET o == Own(st, rc.ref) IN
       Put([o.st EXCEPT !.heap[o.c].ie = MapSet(@, i, val)], n, Arr(rc, o.c))
  ELSE LET o == New(st, ICell(MapSet(IContent(st, rc), i, val))) IN Put(o.st, n, Arr(rc, o.c))

\* The aliasing defect of the self-test (Buggy = TRUE only): `name+=value` on an indexed array whose
\* storage is still the parent's writes the shared cell in place (what interp.Runner.assignVal did before
\* commit 6880309).  Isolation must then fail.
AliasingWrite(st, n, val) ==
  LET rc == Cur(st, n)
      f  == st.heap[rc.ref].ie IN
  [st EXCEPT !.heap[rc.ref].ie = MapSet(@, 0, (IF 0 \in DOMAIN f THEN f[0] ELSE <<>>) \o val)]

DelElem(st, n, i) ==
  LET rc == Cur(st, n) IN
  IF rc.k # "i" \/ i \notin DOMAIN st.heap[rc.ref].ie THEN st
  ELSE LET o == Own(st, rc.ref) IN
       Put([o.st EXCEPT !.heap[o.c].ie = MapDel(@, i)], n, Arr(rc, o.c))

Elem0(st, rc) == LET f == IContent(st, rc) IN IF 0 \in DOMAIN f THEN f[0] ELSE <<>>
NextIdx(st, rc) == LET f == IContent(st, rc) IN IF DOMAIN f = {} THEN 0 ELSE MaxOf(DOMAIN f) + 1

\* name=val : a scalar stays/becomes a scalar, an indexed array gets element 0
Assign(st, n, val) ==
  LET rc == Cur(st, n) IN
  IF rc.k = "i" THEN SetElem(st, n, 0, val)
  ELSE Put(st, n, [rc EXCEPT !.k = "s", !.v = val, !.ref = 0])

\* name+=val
AppStr(st, n, val) ==
  LET rc == Cur(st, n) IN
  IF rc.k = "i" THEN (IF Buggy /\ rc.ref <= np
                      THEN AliasingWrite(st, n, val)
                      ELSE SetElem(st, n, 0, Elem0(st, rc) \o val))
  ELSE Put(st, n, [rc EXCEPT !.k = "s", !.v = rc.v \o val, !.ref = 0])

\* name=(w1 w2 ...) : a fresh cell, attributes kept; vals lists one atom per element
AssignArr(st, n, vals) ==
  LET rc == Cur(st, n)
      o  == New(st, ICell([i \in 0..(Len(vals) - 1) |-> <<vals[i + 1]>>])) IN
  Put(o.st, n, Arr(rc, o.c))

\* name[key]=val where the subscript is a word: a key of an associative array,
\* otherwise an arithmetic expression over unset variables, i.e. index 0
SetKey(st, n, key, val) ==
  LET rc == Cur(st, n) IN
  IF rc.k = "A" THEN
       LET o == Own(st, rc.ref) IN
       Put([o.st EXCEPT !.heap[o.c].ae = MapSet(@, key, val)], n, [rc EXCEPT !.ref = o.c])
  ELSE IF rc.k = "s" THEN LET o == New(st, ICell(0 :> val)) IN Put(o.st, n, Arr(rc, o.c))
  ELSE SetElem(st, n, 0, val)
DelKey(st, n, key) ==
  LET rc == Cur(st, n) IN
  IF rc.k = "A" THEN
       IF key \notin DOMAIN st.heap[rc.ref].ae THEN st
       ELSE LET o == Own(st, rc.ref) IN
            Put([o.st EXCEPT !.heap[o.c].ae = MapDel(@, key)], n, [rc EXCEPT !.ref = o.c])
  ELSE DelElem(st, n, 0)

Writable(st, n) == ~Cur(st, n).r
KindIn(st, n, ks) == Cur(st, n).k \in ks

\* ---------------------------------------------------------------- mutators
\* txt is the shell text; op/n/i/key/val/b select the semantics below.
M(txt, op, n, i, key, val, b) == [txt |-> txt, op |-> op, n |-> n, i |-> i, key |-> key, val |-> val, b |-> b]
V(a) == <<a>>
Mutators == <<
  M("s=n",             "assign",  "s", 0, "", V("n"), FALSE),
  M("t=n",             "assign",  "t", 0, "", V("n"), FALSE),
  M("a=n",             "assign",  "a", 0, "", V("n"), FALSE),
  M("s+=n",            "appstr",  "s", 0, "", V("n"), FALSE),
  M("a+=n",            "appstr",  "a", 0, "", V("n"), FALSE),
  M("a[0]=n",          "setelem", "a", 0, "", V("n"), FALSE),
  M("a[2]=n",          "setelem", "a", 2, "", V("n"), FALSE),
  M("a[5]=n",          "setelem", "a", 5, "", V("n"), FALSE),
  M("a[-1]=n",         "setneg",  "a", 0, "", V("n"), FALSE),
  M("a+=(n)",          "appelem", "a", 0, "", V("n"), FALSE),
  M("s+=(n)",          "appelem", "s", 0, "", V("n"), FALSE),
  M("a=(n n2)",        "assignarr", "a", 0, "", <<"n", "n2">>, FALSE),
  M("unset 'a[0]'",    "unsetelem", "a", 0, "", <<>>, FALSE),
  M("unset 'a[2]'",    "unsetelem", "a", 2, "", <<>>, FALSE),
  M("unset a",         "unset",   "a", 0, "", <<>>, FALSE),
  M("unset s",         "unset",   "s", 0, "", <<>>, FALSE),
  M("unset m",         "unset",   "m", 0, "", <<>>, FALSE),
  M("m[k]=n",          "setkey",  "m", 0, "k", V("n"), FALSE),
  M("m[z]=n",          "setkey",  "m", 0, "z", V("n"), FALSE),
  M("unset 'm[k]'",    "unsetkey", "m", 0, "k", <<>>, FALSE),
  M("declare -A t",    "declA",   "t", 0, "", <<>>, FALSE),
  M("t[k]=n",          "setkey",  "t", 0, "k", V("n"), FALSE),
  M("declare -a t=(n)", "assignarr", "t", 0, "", V("n"), FALSE),
  M("declare -r s",    "attr",    "s", 0, "r", <<>>, FALSE),
  M("declare -x a",    "attr",    "a", 0, "x", <<>>, FALSE),
  M("readonly a",      "attr",    "a", 0, "r", <<>>, FALSE),
  M("readonly m",      "attr",    "m", 0, "r", <<>>, FALSE),
  M("export s",        "attr",    "s", 0, "x", <<>>, FALSE),
  M("export t=n",      "expassign", "t", 0, "", V("n"), FALSE),
  M("fn1() { printf F2; }", "fdef", "fn1", 0, "", V("F2"), FALSE),
  M("fn2() { printf G2; }", "fdef", "fn2", 0, "", V("G2"), FALSE),
  M("unset -f fn1",    "fdel",    "fn1", 0, "", <<>>, FALSE),
  M("alias q=new",     "adef",    "q", 0, "", V("new"), FALSE),
  M("alias w=x",       "adef",    "w", 0, "", V("x"), FALSE),
  M("unalias q",       "adel",    "q", 0, "", <<>>, FALSE),
  M("set -f",          "opt",     "noglob", 0, "", <<>>, TRUE),
  M("set +f",          "opt",     "noglob", 0, "", <<>>, FALSE),
  M("set -o pipefail", "opt",     "pipefail", 0, "", <<>>, TRUE),
  M("shopt -s nullglob", "opt",   "nullglob", 0, "", <<>>, TRUE),
  M("shopt -u nullglob", "opt",   "nullglob", 0, "", <<>>, FALSE),
  M("cd d1",           "cddown",  "", 0, "", <<>>, FALSE),
  M("cd ..",           "cdup",    "", 0, "", <<>>, FALSE),
  M("cd $B/d1/d2",     "cdabs",   "", 0, "", <<>>, FALSE),
  M("set -- x y z",    "setparams", "", 0, "", <<"x", "y", "z">>, FALSE),
  M("set --",          "setparams", "", 0, "", <<>>, FALSE),
  M("shift",           "shift",   "", 0, "", <<>>, FALSE),
  M("getopts ab o -a -b", "getopts", "o", 0, "", <<>>, FALSE),
  M("OPTIND=1",        "optind",  "", 1, "", <<>>, FALSE),
  M("h",               "callh",   "", 0, "", <<>>, FALSE)
>>
\* h() { local s=hl; t=ht; a[1]=ha; }  is defined by the engine's prelude: the local must
\* not outlive the call, the two other assignments hit the variables visible to the caller.

\* Scope predicate: the mutator is specified (and bash and the interpreter agree on its
\* meaning) in this child state.  Error paths of the shell (assignment to a readonly
\* variable aborts a non-interactive bash, bad subscripts, converting between array
\* kinds) are outside C27 and left to C26/C28.
Enabled(st, c, mu) ==
  CASE mu.op = "assign"    -> Writable(st, mu.n) /\ KindIn(st, mu.n, {"u", "s", "i"})
    [] mu.op = "appstr"    -> Writable(st, mu.n) /\ KindIn(st, mu.n, {"u", "s", "i"})
    [] mu.op = "setelem"   -> Writable(st, mu.n) /\ KindIn(st, mu.n, {"u", "s", "i"})
    [] mu.op = "setneg"    -> Writable(st, mu.n) /\ KindIn(st, mu.n, {"i"})
                              /\ DOMAIN st.heap[Cur(st, mu.n).ref].ie # {}
    [] mu.op = "appelem"   -> Writable(st, mu.n) /\ KindIn(st, mu.n, {"u", "s", "i"})
    [] mu.op = "assignarr" -> Writable(st, mu.n) /\ KindIn(st, mu.n, {"u", "s", "i"})
    [] mu.op = "unsetelem" -> Writable(st, mu.n) /\ KindIn(st, mu.n, {"u", "i"})
    \* (the interpreter keeps the attributes of a declared-but-unset variable on `unset`; not C27)
    [] mu.op = "unset"     -> Writable(st, mu.n) /\ (Cur(st, mu.n).k = "u" => Cur(st, mu.n) = Unset)
    [] mu.op = "setkey"    -> Writable(st, mu.n)
    [] mu.op = "unsetkey"  -> Writable(st, mu.n) /\ KindIn(st, mu.n, {"u", "i", "A"})
    [] mu.op = "declA"     -> Cur(st, mu.n) = Unset
    [] mu.op = "attr"      -> TRUE
    [] mu.op = "expassign" -> Writable(st, mu.n) /\ KindIn(st, mu.n, {"u", "s"})
    [] mu.op = "cddown"    -> c.cwd = <<>>
    [] mu.op = "cdup"      -> c.cwd # <<>>
    [] mu.op = "shift"     -> Len(c.params) > 0
    [] mu.op = "getopts"   -> Writable(st, "o") /\ KindIn(st, "o", {"u", "s"})
    [] mu.op = "callh"     -> /\ Writable(st, "s")
                              /\ Writable(st, "t") /\ KindIn(st, "t", {"u", "s"})
                              /\ Writable(st, "a") /\ KindIn(st, "a", {"u", "s", "i"})
    [] OTHER -> TRUE

\* effect on the child's variables
ApplyVar(st, mu) ==
  CASE mu.op = "assign"    -> Assign(st, mu.n, mu.val)
    [] mu.op = "appstr"    -> AppStr(st, mu.n, mu.val)
    [] mu.op = "setelem"   -> SetElem(st, mu.n, mu.i, mu.val)
    [] mu.op = "setneg"    -> SetElem(st, mu.n, MaxOf(DOMAIN st.heap[Cur(st, mu.n).ref].ie), mu.val)
    [] mu.op = "appelem"   -> SetElem(st, mu.n, NextIdx(st, Cur(st, mu.n)), mu.val)
    [] mu.op = "assignarr" -> AssignArr(st, mu.n, mu.val)
    [] mu.op = "unsetelem" -> DelElem(st, mu.n, mu.i)
    [] mu.op = "unset"     -> Put(st, mu.n, Unset)
    [] mu.op = "setkey"    -> SetKey(st, mu.n, mu.key, mu.val)
    [] mu.op = "unsetkey"  -> DelKey(st, mu.n, mu.key)
    [] mu.op = "declA"     -> LET o == New(st, ACell(NoI)) IN
                              Put(o.st, mu.n, [Unset EXCEPT !.k = "A", !.ref = o.c])
    [] mu.op = "attr"      -> LET rc == Cur(st, mu.n) IN
                              Put(st, mu.n, IF mu.key = "r" THEN [rc EXCEPT !.r = TRUE] ELSE [rc EXCEPT !.x = TRUE])
    [] mu.op = "expassign" -> LET s2 == Assign(st, mu.n, mu.val) IN
                              Put(s2, mu.n, [Cur(s2, mu.n) EXCEPT !.x = TRUE])
    [] mu.op = "callh"     -> SetElem(Assign(st, "t", V("ht")), "a", 1, V("ha"))
    [] OTHER -> st

GetoptsLetter(oi) == IF oi = 1 THEN "a" ELSE IF oi = 2 THEN "b" ELSE "?"
\* effect on the child's non-variable state (and, for getopts, on variable o)
ApplyMisc(c, mu) ==
  CASE mu.op = "fdef"      -> [c EXCEPT !.fn[mu.n] = mu.val[1]]
    [] mu.op = "fdel"      -> [c EXCEPT !.fn[mu.n] = "U"]
    [] mu.op = "adef"      -> [c EXCEPT !.al[mu.n] = mu.val[1]]
    [] mu.op = "adel"      -> [c EXCEPT !.al[mu.n] = "U"]
    [] mu.op = "opt"       -> [c EXCEPT !.opts = IF mu.b THEN @ \cup {mu.n} ELSE @ \ {mu.n}]
    [] mu.op = "cddown"    -> [c EXCEPT !.cwd = <<"/d1">>]
    [] mu.op = "cdup"      -> [c EXCEPT !.cwd = SubSeq(@, 1, Len(@) - 1)]
    [] mu.op = "cdabs"     -> [c EXCEPT !.cwd = <<"/d1", "/d2">>]
    [] mu.op = "setparams" -> [c EXCEPT !.params = mu.val]
    [] mu.op = "shift"     -> [c EXCEPT !.params = Tail(@)]
    [] mu.op = "getopts"   -> [c EXCEPT !.oi = IF @ < 3 THEN @ + 1 ELSE 3]
    [] mu.op = "optind"    -> [c EXCEPT !.oi = mu.i]
    [] OTHER -> c

Step(mu) ==
  LET st == [cov |-> cov, heap |-> heap] IN
  /\ Len(muts) < MaxLen
  /\ Enabled(st, cm, mu)
  /\ LET s1 == ApplyVar(st, mu)
         s2 == IF mu.op = "getopts" THEN Assign(s1, "o", V(GetoptsLetter(cm.oi))) ELSE s1 IN
     /\ cov' = s2.cov /\ heap' = s2.heap
  /\ cm' = ApplyMisc(cm, mu)
  /\ muts' = Append(muts, mu.txt)
  /\ UNCHANGED <<pd, kind, np, pfr, pm>>

Next == LET MT == Mutators IN \E i \in 1..Len(MT) : Step(MT[i])

\* ---------------------------------------------------------------- observable views
Flags(rc) == (IF rc.k = "i" THEN <<"a">> ELSE IF rc.k = "A" THEN <<"A">> ELSE <<>>)
             \o (IF rc.r THEN <<"r">> ELSE <<>>) \o (IF rc.x THEN <<"x">> ELSE <<>>)
VarView(rc, hp, asParent) ==
  LET ks == IF rc.k = "i" THEN SortedKeys(DOMAIN hp[rc.ref].ie) ELSE <<>> IN
  [ k     |-> rc.k, at |-> Flags(rc), v |-> rc.v,
    keys  |-> ks,
    vals  |-> [p \in 1..Len(ks) |-> hp[rc.ref].ie[ks[p]]],
    probe |-> IF rc.k = "A"
              THEN [key \in AKeys |-> IF key \in DOMAIN hp[rc.ref].ae THEN hp[rc.ref].ae[key] ELSE <<"U">>]
              ELSE <<>> ]
MiscView(c) ==
  [ fn |-> c.fn, al |-> c.al,
    noglob   |-> "noglob" \in c.opts,
    pipefail |-> "pipefail" \in c.opts,
    \* the dump probes nullglob by globbing a pattern without matches
    globprobe |-> IF "noglob" \in c.opts \/ "nullglob" \notin c.opts THEN "N" ELSE "",
    cwd |-> c.cwd, params |-> c.params, oi |-> c.oi ]
View(frames, hp, c, asParent) ==
  [ vars |-> [i \in 1..Len(Names) |-> VarView(Lookup(frames, Names[i]), hp, asParent)],
    misc |-> MiscView(c) ]

ParentView == View(pfr, heap, pm, TRUE)
GlobalView == View(<<pfr[1]>>, heap, pm, TRUE)        \* what is seen again after pf returns
ChildView  == View(Chain, heap, cm, FALSE)

\* ---------------------------------------------------------------- parent descriptors
\* s: scalar, a: indexed array, m: associative array, f: spawn inside function pf whose
\* locals are s and a (the globals then hold other values), mi: the rest of the state.
PD(s, a, m, f, mi) == [s |-> s, a |-> a, m |-> m, f |-> f, mi |-> mi]
Curated == { PD("plain", "dense",  "assoc", FALSE, "base"),
             PD("exp",   "sparse", "unset", FALSE, "alt"),
             PD("ro",    "unset",  "assoc", TRUE,  "base"),
             PD("unset", "sparse", "assoc", TRUE,  "alt"),
             PD("exp",   "dense",  "unset", TRUE,  "base") }
\* thorough: every combination of s, a and f; m and mi alternate so that every pair of feature
\* values occurs (24 descriptors instead of the 96 of the full product)
SVals == <<"unset", "plain", "exp", "ro">>
AVals == <<"unset", "dense", "sparse">>
WidePD == { PD(SVals[i], AVals[j], IF (i + j) % 2 = 0 THEN "assoc" ELSE "unset", f,
               IF (i + (IF f THEN 1 ELSE 0)) % 2 = 0 THEN "base" ELSE "alt") :
            i \in 1..4, j \in 1..3, f \in BOOLEAN }
PDs == IF Wide THEN WidePD ELSE Curated

SRec(s) == CASE s = "unset" -> Unset
             [] s = "plain" -> [Unset EXCEPT !.k = "s", !.v = V("v")]
             [] s = "exp"   -> [Unset EXCEPT !.k = "s", !.v = V("v"), !.x = TRUE]
             [] s = "ro"    -> [Unset EXCEPT !.k = "s", !.v = V("v"), !.r = TRUE]
STxt(s, loc) == CASE s = "unset" -> IF loc THEN "local s" ELSE "unset s"
                  [] s = "plain" -> IF loc THEN "local s=v" ELSE "s=v"
                  [] s = "exp"   -> IF loc THEN "local -x s=v" ELSE "export s=v"
                  [] s = "ro"    -> IF loc THEN "local -r s=v" ELSE "readonly s=v"
ACont(a) == CASE a = "dense"  -> (0 :> V("1")) @@ (1 :> V("2")) @@ (2 :> V("3"))
              [] a = "sparse" -> (1 :> V("p")) @@ (2 :> V("q")) @@ (3 :> V("r"))
              [] OTHER -> NoI
ATxt(a, loc) == CASE a = "unset"  -> IF loc THEN "local a" ELSE "unset a"
                  [] a = "dense"  -> IF loc THEN "local a=(1 2 3)" ELSE "a=(1 2 3)"
                  [] a = "sparse" -> IF loc THEN "local a=([1]=p [2]=q [3]=r)" ELSE "a=([1]=p [2]=q [3]=r)"
MTxt(m) == IF m = "assoc" THEN "declare -A m=([k]=1 [j]=2)" ELSE "unset m"
Misc(mi) ==
  IF mi = "base"
  THEN [fn |-> [fn1 |-> "F1", fn2 |-> "U"], al |-> [q |-> "ls", w |-> "U"], opts |-> {},
        cwd |-> <<>>, params |-> <<"p1", "p2">>, oi |-> 1]
  ELSE [fn |-> [fn1 |-> "F1", fn2 |-> "G1"], al |-> [q |-> "U", w |-> "U"], opts |-> {"noglob", "nullglob"},
        cwd |-> <<"/d1">>, params |-> <<>>, oi |-> 2]
MiscTxt(mi) ==
  IF mi = "base"
  THEN <<"fn1() { printf F1; }", "alias q=ls", "set -- p1 p2">>
  ELSE <<"fn1() { printf F1; }", "fn2() { printf G1; }", "set -f", "shopt -s nullglob", "cd d1", "set --",
         "getopts ab o -a -b">>
ORec(mi) == IF mi = "base" THEN Unset ELSE [Unset EXCEPT !.k = "s", !.v = V("a")]

\* cells: 1 = global a (if an array), 2 = m (if assoc), 3 = pf's local a (if an array)
InitFor(d) ==
  LET ga    == IF d.f THEN "dense" ELSE d.a                     \* inside pf the global a is (G1 G2)-like
      gcell == IF d.f THEN ICell((0 :> V("G1")) @@ (1 :> V("G2"))) ELSE ICell(ACont(d.a))
      garr  == d.f \/ d.a # "unset"
      h1    == IF garr THEN <<gcell>> ELSE <<>>
      h2    == IF d.m = "assoc" THEN Append(h1, ACell(("k" :> V("1")) @@ ("j" :> V("2")))) ELSE h1
      larr  == d.f /\ d.a # "unset"
      h3    == IF larr THEN Append(h2, ICell(ACont(d.a))) ELSE h2
      grec  == [s |-> IF d.f THEN [Unset EXCEPT !.k = "s", !.v = V("G")] ELSE SRec(d.s),
                t |-> Unset,
                a |-> IF garr THEN [Unset EXCEPT !.k = "i", !.ref = 1] ELSE Unset,
                m |-> IF d.m = "assoc" THEN [Unset EXCEPT !.k = "A", !.ref = Len(h2)] ELSE Unset,
                o |-> ORec(d.mi)]
      lrec  == [s |-> SRec(d.s),
                a |-> IF larr THEN [Unset EXCEPT !.k = "i", !.ref = Len(h3)] ELSE Unset]
      fr    == IF d.f THEN <<grec, lrec>> ELSE <<grec>>
  IN [heap |-> h3, pfr |-> fr, pm |-> Misc(d.mi)]

SetupTxt(d) ==
  [ global |-> (IF d.f THEN <<"s=G", "a=(G1 G2)">> ELSE <<STxt(d.s, FALSE), ATxt(d.a, FALSE)>>)
               \o <<MTxt(d.m)>> \o MiscTxt(d.mi),
    locals |-> IF d.f THEN <<STxt(d.s, TRUE), ATxt(d.a, TRUE)>> ELSE <<>> ]

\* Spawn(kind): see CtxOf above.
Flat(frames) == [n \in NameSet |-> Lookup(frames, n)]
Init ==
  /\ pd \in PDs /\ kind \in Kinds
  /\ LET i0 == InitFor(pd) IN
     /\ heap = i0.heap /\ np = Len(i0.heap) /\ pfr = i0.pfr /\ pm = i0.pm /\ cm = i0.pm
     /\ cov = IF kind = "copy" THEN Flat(i0.pfr) ELSE [n \in {} |-> Unset]
  /\ muts = <<>>

Spec == Init /\ [][Next]_vars

\* ---------------------------------------------------------------- what TLC checks
\* C27 itself: nothing the child does is visible in the parent
PView0 == LET i0 == InitFor(pd) IN View(i0.pfr, i0.heap, i0.pm, TRUE)   \* the view when the child was spawned
Isolation == ParentView = PView0
\* contract rule: cells 1..np are never written, re-typed or dropped
CellDiscipline == [][ /\ Len(heap') >= Len(heap)
                      /\ \A c \in 1..np : heap'[c] = heap[c] ]_vars
\* the child writes only cells it owns: everything reachable from its overlay that differs
\* from the parent's cells lies above np; parent frames never point above np
HeapWF == /\ ReachF(pfr) \subseteq 1..np
          /\ ReachF(<<cov>>) \subseteq 1..Len(heap)
          /\ \A i \in 1..Len(Names) :
               LET rc == Lookup(Chain, Names[i]) IN
               /\ (rc.k \in {"i", "A"}) <=> (rc.ref # 0)
               /\ rc.ref # 0 => heap[rc.ref].t = rc.k
               /\ (rc.k = "s") \/ rc.v = <<>>
\* parent frames and parent misc are not variables any child action may touch
Frozen == [][pfr' = pfr /\ pm' = pm /\ np' = np /\ pd' = pd /\ kind' = kind]_vars
\* sanity of the model itself: a mutator list that assigns has an effect in the child
\* (guards against a vacuous model in which nothing ever changes)
ChildSeesOwnWrites ==
  (Len(muts) > 0 /\ muts[Len(muts)] = "s=n") =>
     LET rc == Lookup(Chain, "s") IN
     IF rc.k = "s" THEN rc.v = V("n") ELSE heap[rc.ref].ie[0] = V("n")

\* ---------------------------------------------------------------- emission
EmitPD == (muts = <<>> /\ kind = "share") =>
  PrintT(<<"PD", ToJson([pd |-> pd, setup |-> SetupTxt(pd), pview |-> ParentView,
                          gview |-> GlobalView])>>)
\* Dev_LastPipe: the interpreter is known to run the last stage of a pipeline in the parent
\* shell (bash does so only under `shopt -s lastpipe`); what it then shows as the parent's
\* state after the pipeline is the child view.
Dev_LastPipe == ChildView
\* Runner.Subshell() is called between two Run calls, so not from inside the function pf
CtxsFor == LET cs == CtxOf[kind] IN IF pd.f THEN SelectSeq(cs, LAMBDA c : c # "api") ELSE cs
EmitVec == LET cv == ChildView IN
  PrintT(<<"VEC", ToJson([pd |-> pd, ctxs |-> CtxsFor, muts |-> muts, cview |-> cv,
                          changed |-> (cv # PView0)])>>)
=========================================================================
