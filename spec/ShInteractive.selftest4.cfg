SPECIFICATION Spec
CONSTANTS MaxLines = 3
  MaxPerLine = 2
  Defect = "partial_delivery"
INVARIANTS TypeOK DeliveredIsPrefix NothingLost IncompleteOnlyWhileOpen IncompleteWheneverOpen RunBeforeRead OneCallbackPerLine Progress
