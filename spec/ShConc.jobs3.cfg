SPECIFICATION Spec
CONSTANTS Family = "jobs"
  MaxJobs = 3
  Buggy = FALSE
INVARIANTS NoRace WaitCorrect TableWF OwnDisjoint NoStuck EmitVec
