SPECIFICATION Spec
CONSTANTS FifoCancellable = FALSE
  WaitCancellable = FALSE
  MaxCancel = 8
  Mode = "mc"
PROPERTIES Live
