SPECIFICATION Spec
CONSTANTS Keys = {"a", "b", "0"}
  Vals = {"x", ""}
INVARIANTS TypeOK MapLaws EmitState
