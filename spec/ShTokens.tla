----------------------------- MODULE ShTokens -----------------------------
(* C06: parsing and printing never crash or hang -- the INPUT BUILDER.

   The only specified outcome of C06 is "the call returns" (no panic, time roughly linear in the
   input), so the specification contributes the input space: every sequence of lexical fragments up
   to a length bound.  State = the sequence of fragment numbers built so far; Next appends one
   fragment; breadth-first search therefore enumerates every sequence up to MaxLen exactly once,
   and -simulate walks random long sequences.  The fragments are chosen so that every lexer state
   of syntax/lexer.go can be entered, left, and left dangling: quotes, all expansion openers,
   closers without opener, operators that take operands, reserved words, line enders, bytes the
   lexer treats specially (NUL, CR, invalid UTF-8, a multi-byte rune), assignment and array forms.

   Symbolic fragments (written out by the driver): NL CR NUL TAB BSNL (backslash-newline) BAD (the
   byte 0xff) EACUTE (a two-byte rune) SP (one blank).  *)
EXTENDS Naturals, Sequences, TLC, Json

CONSTANTS MaxLen,     \* sequences of up to this many fragments
          Reduced,    \* TRUE: only the reduced alphabet (for the deeper bound)
          EmitAt      \* emit only sequences of at least this length (simulation: = MaxLen)

VARIABLE seq
vars == <<seq>>

Frags == <<
  "'", "\"", "`", "\\", "$", "${", "$(", "$((", "((", "))", "[[", "]]", "{", "}", "(", ")",
  ";", ";;", "&", "|", "<", "<<", "<<-", ">", "#", "NL", "SP", "=", "[", "]",
  "CR", "NUL", "BAD", "EACUTE", "BSNL", "TAB",
  "a", "1", "if", "then", "fi", "for", "in", "do", "done", "case", "esac", "function", "!",
  "a=", "a=(", "a[", "$'", "<(", "}}", "${a:", "${a/", "EOF", "*", "?(", "@(", "~", "-", "+", ":", "/", "," >>
\* the reduced alphabet: one representative per lexer state
ReducedSet == {"'", "\"", "`", "\\", "${", "$(", "$((", "((", "[[", "{", "}", "(", ")", ";", "&", "|", "<<", ">", "#", "NL",
               "SP", "a", "if", "case", "in", "a=(", "BAD", "=", "]"}
Active == IF Reduced THEN {i \in DOMAIN Frags : Frags[i] \in ReducedSet} ELSE DOMAIN Frags

Init == seq = <<>>
Next == Len(seq) < MaxLen /\ \E i \in Active : seq' = Append(seq, i)
Spec == Init /\ [][Next]_vars

TypeOK == seq \in Seq(DOMAIN Frags) /\ Len(seq) <= MaxLen
\* the alphabet is well formed: no fragment twice, the reduced alphabet is part of it
AlphabetOK == /\ \A i, j \in DOMAIN Frags : Frags[i] = Frags[j] => i = j
              /\ \A f \in ReducedSet : \E i \in DOMAIN Frags : Frags[i] = f

Emit == IF Len(seq) >= EmitAt /\ seq # <<>> THEN PrintT(<<"VEC", ToJson(seq)>>) ELSE TRUE
EmitAlphabet == IF seq = <<>> THEN PrintT(<<"STAT", ToJson(Frags)>>) ELSE TRUE
=============================================================================
