SPECIFICATION TSpec
CONSTANTS FifoCancellable = TRUE
  MaxCancel = 0
  Mode = "trace"
INVARIANTS TypeOK WakeSound
POSTCONDITION Post
