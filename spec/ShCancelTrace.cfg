SPECIFICATION TSpec
CONSTANTS FifoCancellable = TRUE
  WaitCancellable = TRUE
  MaxCancel = 0
  Mode = "trace"
INVARIANTS TypeOK WakeSound
POSTCONDITION Post
