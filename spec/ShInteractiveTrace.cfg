SPECIFICATION TSpec
