SPECIFICATION Spec
CONSTANTS
  Modes = {"getopts"}
  GMaxHist = 3
  GMaxArgs = 2
  GWordIds = {1, 2, 3, 5}
  GOptIds = {1, 2}
  BMaxArgs = 0
  BMaxArgsCtx = 0
  PMaxArgs = 0
  SMaxLen = 1
INVARIANTS GInRange GOutsLen EmitVec
