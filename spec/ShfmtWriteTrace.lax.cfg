SPECIFICATION TraceSpec
CONSTANTS InPlace = TRUE
  Scenarios <- TinyScenarios
  Names <- Names2
  FDs <- FDs1
INVARIANTS TypeOK Atomic Durable Untouched NoTemps ExitOK EmitPos
