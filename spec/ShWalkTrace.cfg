SPECIFICATION TSpec
