SPECIFICATION Spec
CONSTANTS InPlace = TRUE
  Scenarios <- TinyScenarios
  Names <- Names2
  FDs <- FDs1
CONSTRAINT LenBound
INVARIANTS TypeOK Atomic
