SPECIFICATION Spec
CONSTANTS Family = "mix"
  MaxUnits = 4
  MaxFlags = 2
  MaxTail = 4
  MaxArgs = 3
  Rich = FALSE
INVARIANTS IdentityLaw WidthLaw EchoPlainLaw EmitInv
