------------------------------ MODULE ShfmtWrite ------------------------------
(* C35: `shfmt -w` replaces files atomically.   Style S.

   The module is a contract over the system calls a `shfmt -w` process may issue
   on the files it was asked to format and on the files it creates itself.

   State = an abstract file system (the pre-existing files of the scenario, the
   files created by the process, the process's descriptor table) + the process
   status run/done/crashed.  Every action is one system call (OpenRd, CreateTmp,
   WriteFd, FchmodFd, FsyncFd, CloseFd, RenamePath, UnlinkPath, Exit) with
     * its effect on the abstract file system (what the kernel does), and
     * the contract's guard (what a conforming process may ask for).
   `Crash` (SIGKILL) is enabled in every running state.

   With InPlace = FALSE (the contract) there is no action at all that opens a
   pre-existing file for writing, truncates, writes, chmods, unlinks or moves it:
   the only way its path can change is RenamePath(temp, path), guarded by
     G0 the path is one shfmt was asked to format (not, e.g., the pointee of a symlink)
     G1 the path is a regular file            (symlinks/FIFOs are never replaced)
     G2 the file has formatted output         (parse errors are never written)
     G3 the temp file holds the complete formatted bytes
     G4 the temp file was fsync'ed after its last write
     G5 the temp file has the permission bits of the file it replaces.
   TLC checks that these guards imply the property in every reachable state, for
   every interleaving of the permitted calls, several files per run, descriptor /
   inode aliasing (write through a descriptor after rename, rename between temp
   names as renameio's probe does) and a crash anywhere:
     Atomic, Durable, Untouched, NoTemps, ExitOK.
   With InPlace = TRUE the guards are dropped and the in-place calls get their
   kernel effect (what os.WriteFile does): TLC must then find Atomic violated --
   kept as a non-vacuity self-test, and used to name the invariant a rejected
   real trace breaks.

   ShfmtWriteTrace replays strace logs of the real binary through these actions. *)
EXTENDS Naturals, Sequences, FiniteSets, TLC, Json

CONSTANTS InPlace,      \* FALSE: the contract.  TRUE: unguarded kernel model (self-test / diagnosis)
          Scenarios,    \* set of scenarios explored by the model
          Names,        \* pool of temp-file path names the model may create
          FDs           \* descriptor numbers the model may use

VARIABLES scn,     \* the scenario: [umask, files : path -> file record]   (constant during a run)
          pc,      \* "run" | "done" | "crashed"
          exitst,  \* exit status once done
          tgt,     \* path -> [kind, data, mode, ino, len, synced, trunc]  the scenario's files, now
          tmps,    \* set of [path, ino, mode, len, synced]: files created by the process, still linked
          used,    \* names ever created (inode identities are the creating path; O_EXCL never reuses one)
          fdt      \* set of [fd, ino, w]: open descriptors
vars == <<scn, pc, exitst, tgt, tmps, used, fdt>>

-----------------------------------------------------------------------------
\* Permission bits are sets of bit positions 0..11 (0640 = {8,7,5}).
Bit(n, i) == (n \div (2^i)) % 2 = 1
Bits(n)   == {i \in 0..11 : Bit(n, i)}

File(p, kind, mode, status, fmtlen, arg, to) ==
  [path |-> p, kind |-> kind, mode |-> mode, status |-> status, fmtlen |-> fmtlen, arg |-> arg, to |-> to]
  \* kind   : "reg" | "symlink" | "fifo"
  \* status : "differs" (formatting changes the bytes) | "same" | "parseerr"
  \*          (for a symlink: of the bytes seen through it)
  \* fmtlen : length of the formatted bytes (model: in chunks; traces: in bytes)
  \* arg    : "explicit" (named on the command line) | "walked" (found in a directory
  \*          argument) | "none" (not given to shfmt: the pointee of a symlink)
  \* to     : for a symlink, the path it points to

InitTgt(s) == [p \in DOMAIN s.files |->
                 [kind |-> s.files[p].kind, data |-> "orig", mode |-> s.files[p].mode,
                  ino |-> p, len |-> 0, synced |-> TRUE, trunc |-> FALSE]]

\* Which files shfmt formats: regular files it is given or finds; a symlink only when
\* named explicitly (it then reads through it, and must refuse to replace it).
Selected(s, p) == LET f == s.files[p] IN
                  \/ f.kind = "reg" /\ f.arg \in {"explicit", "walked"}
                  \/ f.kind = "symlink" /\ f.arg = "explicit"
\* Exit status: 1 iff some selected file fails to parse or is a symlink that would change.
ExpectedExit(s) == IF \E p \in DOMAIN s.files :
                        /\ Selected(s, p)
                        /\ \/ s.files[p].status = "parseerr"
                           \/ s.files[p].kind = "symlink" /\ s.files[p].status = "differs"
                   THEN 1 ELSE 0

HasTmp(p)   == \E t \in tmps : t.path = p
TmpAt(p)    == CHOOSE t \in tmps : t.path = p
HasFd(fd)   == \E f \in fdt : f.fd = fd
FdAt(fd)    == CHOOSE f \in fdt : f.fd = fd
TmpOfIno(i) == {t \in tmps : t.ino = i}
TgtOfIno(i) == {p \in DOMAIN tgt : tgt[p].ino = i}
Deref(p)    == IF tgt[p].kind = "symlink" THEN scn.files[p].to ELSE p
PathIno(p)  == IF HasTmp(p) THEN TmpAt(p).ino
               ELSE IF p \in DOMAIN tgt THEN tgt[Deref(p)].ino
               ELSE "-"                       \* directories, .editorconfig, ...

WriteFlags == {"O_WRONLY", "O_RDWR", "O_TRUNC", "O_CREAT", "O_APPEND"}
Writable(flags) == flags \cap {"O_WRONLY", "O_RDWR"} # {}

\* What `len` bytes in the place of file p amount to.
DataOf(p, len) == IF scn.files[p].status # "parseerr" /\ len = scn.files[p].fmtlen THEN "new"
                  ELSE IF len = 0 THEN "empty" ELSE "partial"

-----------------------------------------------------------------------------
Init == /\ scn \in Scenarios
        /\ pc = "run" /\ exitst = 0
        /\ tgt = InitTgt(scn)
        /\ tmps = {} /\ used = {} /\ fdt = {}

\* stat/lstat/fstat/read/getdents/fcntl/failed calls: no effect.
Observe == pc = "run" /\ UNCHANGED vars

\* open(p, read-only flags)
OpenRd(fd, p, flags) ==
  /\ pc = "run" /\ ~HasFd(fd)
  /\ flags \cap WriteFlags = {}
  /\ fdt' = fdt \cup {[fd |-> fd, ino |-> PathIno(p), w |-> FALSE]}
  /\ UNCHANGED <<scn, pc, exitst, tgt, tmps, used>>

\* open(p, O_CREAT|O_EXCL|..., perm) on a path that does not exist: a new temp file.
CreateTmp(fd, p, flags, perm) ==
  /\ pc = "run" /\ ~HasFd(fd)
  /\ "O_CREAT" \in flags
  /\ InPlace \/ "O_EXCL" \in flags                 \* contract: exclusive creation
  /\ p \notin DOMAIN tgt /\ ~HasTmp(p) /\ p \notin used
  /\ tmps' = tmps \cup {[path |-> p, ino |-> p, mode |-> perm \ scn.umask, len |-> 0, synced |-> FALSE]}
  /\ used' = used \cup {p}
  /\ fdt' = fdt \cup {[fd |-> fd, ino |-> p, w |-> Writable(flags)]}
  /\ UNCHANGED <<scn, pc, exitst, tgt>>

\* re-open a file the process created itself, for writing (harmless)
OpenTmpWr(fd, p, flags) ==
  /\ pc = "run" /\ ~HasFd(fd)
  /\ HasTmp(p) /\ flags \cap WriteFlags # {}
  /\ LET t == TmpAt(p) IN
     /\ tmps' = IF "O_TRUNC" \in flags
                THEN (tmps \ {t}) \cup {[t EXCEPT !.len = 0, !.synced = FALSE]} ELSE tmps
     /\ fdt' = fdt \cup {[fd |-> fd, ino |-> t.ino, w |-> Writable(flags)]}
  /\ UNCHANGED <<scn, pc, exitst, tgt, used>>

\* NOT part of the contract: open a pre-existing file with write/truncate/create flags.
OpenTgtWr(fd, p, flags) ==
  /\ InPlace
  /\ pc = "run" /\ ~HasFd(fd)
  /\ p \in DOMAIN tgt /\ flags \cap WriteFlags # {}
  /\ LET q == Deref(p) IN
     /\ tgt' = IF "O_TRUNC" \in flags
               THEN [tgt EXCEPT ![q].data = "empty", ![q].len = 0, ![q].trunc = TRUE, ![q].synced = FALSE]
               ELSE tgt
     /\ fdt' = fdt \cup {[fd |-> fd, ino |-> tgt[q].ino, w |-> Writable(flags)]}
  /\ UNCHANGED <<scn, pc, exitst, tmps, used>>

\* write(fd, n bytes) (sequential)
WriteFd(fd, n) ==
  /\ pc = "run" /\ HasFd(fd) /\ FdAt(fd).w
  /\ LET i == FdAt(fd).ino IN
     \/ /\ TmpOfIno(i) # {}                                         \* a temp file
        /\ LET t == CHOOSE t \in TmpOfIno(i) : TRUE IN
           tmps' = (tmps \ {t}) \cup {[t EXCEPT !.len = @ + n, !.synced = FALSE]}
        /\ UNCHANGED tgt
     \/ /\ TmpOfIno(i) = {} /\ TgtOfIno(i) = {} /\ i \in used       \* an unlinked temp file
        /\ UNCHANGED <<tmps, tgt>>
     \/ /\ InPlace /\ TgtOfIno(i) # {}                              \* NOT contract: in place
        /\ LET q == CHOOSE q \in TgtOfIno(i) : TRUE IN
           tgt' = [tgt EXCEPT ![q].len = @ + n, ![q].synced = FALSE,
                              ![q].data = IF tgt[q].trunc THEN DataOf(q, tgt[q].len + n) ELSE "partial"]
        /\ UNCHANGED tmps
  /\ UNCHANGED <<scn, pc, exitst, used, fdt>>

\* fchmod(fd, m)
FchmodFd(fd, m) ==
  /\ pc = "run" /\ HasFd(fd)
  /\ LET i == FdAt(fd).ino IN
     \/ /\ TmpOfIno(i) # {}
        /\ LET t == CHOOSE t \in TmpOfIno(i) : TRUE IN
           tmps' = (tmps \ {t}) \cup {[t EXCEPT !.mode = m]}
        /\ UNCHANGED tgt
     \/ /\ TmpOfIno(i) = {} /\ TgtOfIno(i) = {} /\ i \in used
        /\ UNCHANGED <<tmps, tgt>>
     \/ /\ InPlace /\ TgtOfIno(i) # {}
        /\ LET q == CHOOSE q \in TgtOfIno(i) : TRUE IN tgt' = [tgt EXCEPT ![q].mode = m]
        /\ UNCHANGED tmps
  /\ UNCHANGED <<scn, pc, exitst, used, fdt>>

\* chmod(p, m) / fchmodat
ChmodPath(p, m) ==
  /\ pc = "run"
  /\ \/ /\ HasTmp(p)
        /\ LET t == TmpAt(p) IN tmps' = (tmps \ {t}) \cup {[t EXCEPT !.mode = m]}
        /\ UNCHANGED tgt
     \/ /\ InPlace /\ ~HasTmp(p) /\ p \in DOMAIN tgt
        /\ tgt' = [tgt EXCEPT ![Deref(p)].mode = m]
        /\ UNCHANGED tmps
  /\ UNCHANGED <<scn, pc, exitst, used, fdt>>

\* fsync(fd) / fdatasync(fd)
FsyncFd(fd) ==
  /\ pc = "run" /\ HasFd(fd)
  /\ LET i == FdAt(fd).ino IN
     \/ /\ TmpOfIno(i) # {}
        /\ LET t == CHOOSE t \in TmpOfIno(i) : TRUE IN
           tmps' = (tmps \ {t}) \cup {[t EXCEPT !.synced = TRUE]}
        /\ UNCHANGED tgt
     \/ /\ TmpOfIno(i) = {} /\ TgtOfIno(i) # {}
        /\ LET q == CHOOSE q \in TgtOfIno(i) : TRUE IN tgt' = [tgt EXCEPT ![q].synced = TRUE]
        /\ UNCHANGED tmps
     \/ /\ TmpOfIno(i) = {} /\ TgtOfIno(i) = {}
        /\ UNCHANGED <<tmps, tgt>>
  /\ UNCHANGED <<scn, pc, exitst, used, fdt>>

CloseFd(fd) ==
  /\ pc = "run" /\ HasFd(fd)
  /\ fdt' = fdt \ {FdAt(fd)}
  /\ UNCHANGED <<scn, pc, exitst, tgt, tmps, used>>

\* The guards of the contract for rename(temp t, pre-existing path q).
MayReplace(t, q) ==
  /\ Selected(scn, q)                            \* G0
  /\ tgt[q].kind = "reg"                         \* G1
  /\ scn.files[q].status # "parseerr"            \* G2
  /\ t.len = scn.files[q].fmtlen                 \* G3
  /\ t.synced                                    \* G4
  /\ t.mode = tgt[q].mode                        \* G5

\* rename(p, q)
RenamePath(p, q) ==
  /\ pc = "run" /\ p # q
  /\ \/ /\ HasTmp(p) /\ q \in DOMAIN tgt                            \* temp over a scenario file
        /\ LET t == TmpAt(p) IN
           /\ InPlace \/ MayReplace(t, q)
           /\ tgt' = [tgt EXCEPT ![q] = [kind |-> "reg", data |-> DataOf(q, t.len), mode |-> t.mode,
                                         ino |-> t.ino, len |-> t.len, synced |-> t.synced, trunc |-> TRUE]]
           /\ tmps' = tmps \ {t}
        /\ UNCHANGED used
     \/ /\ HasTmp(p) /\ q \notin DOMAIN tgt                           \* temp to another temp name
        /\ LET t == TmpAt(p) IN
           tmps' = {u \in tmps : u.path \notin {p, q}} \cup {[t EXCEPT !.path = q]}
        /\ used' = used \cup {q}
        /\ UNCHANGED tgt
     \/ /\ InPlace /\ ~HasTmp(p) /\ p \in DOMAIN tgt /\ q \notin DOMAIN tgt   \* NOT contract: move it away
        /\ tgt' = [tgt EXCEPT ![p].data = "gone", ![p].kind = "none"]
        /\ tmps' = {u \in tmps : u.path # q} \cup
                   {[path |-> q, ino |-> tgt[p].ino, mode |-> tgt[p].mode, len |-> tgt[p].len, synced |-> TRUE]}
        /\ used' = used \cup {q}
  /\ UNCHANGED <<scn, pc, exitst, fdt>>

\* unlink(p)
UnlinkPath(p) ==
  /\ pc = "run"
  /\ \/ /\ HasTmp(p) /\ tmps' = tmps \ {TmpAt(p)} /\ UNCHANGED tgt
     \/ /\ InPlace /\ ~HasTmp(p) /\ p \in DOMAIN tgt                  \* NOT contract
        /\ tgt' = [tgt EXCEPT ![p].data = "gone", ![p].kind = "none"] /\ UNCHANGED tmps
  /\ UNCHANGED <<scn, pc, exitst, used, fdt>>

\* Every selected regular file whose formatting differs has been replaced.
WorkDone == \A p \in DOMAIN tgt :
              (Selected(scn, p) /\ scn.files[p].kind = "reg" /\ scn.files[p].status = "differs")
                 => tgt[p].data = "new"

\* exit(st): a completed run.
Exit(st) ==
  /\ pc = "run"
  /\ InPlace \/ (tmps = {} /\ st = ExpectedExit(scn) /\ WorkDone)     \* contract
  /\ pc' = "done" /\ exitst' = st /\ fdt' = {}
  /\ UNCHANGED <<scn, tgt, tmps, used>>

\* SIGKILL at any system-call boundary.
Crash ==
  /\ pc = "run"
  /\ pc' = "crashed" /\ fdt' = {}
  /\ UNCHANGED <<scn, exitst, tgt, tmps, used>>

-----------------------------------------------------------------------------
\* The bounded model: any permitted call, any order.
Max(S) == CHOOSE x \in S : \A y \in S : y <= x
MaxLen == Max({scn.files[p].fmtlen : p \in DOMAIN scn.files} \cup {1})
PermSet == {scn.files[p].mode : p \in {q \in DOMAIN scn.files : scn.files[q].kind = "reg"}} \cup {Bits(384)}
Paths == DOMAIN tgt \cup Names

Next ==
  \/ \E fd \in FDs, p \in DOMAIN tgt : tgt[p].kind # "fifo" /\ OpenRd(fd, p, {"O_RDONLY", "O_CLOEXEC"})
  \/ \E fd \in FDs, p \in Names, m \in PermSet : CreateTmp(fd, p, {"O_RDWR", "O_CREAT", "O_EXCL"}, m)
  \/ \E fd \in FDs, t \in tmps : OpenTmpWr(fd, t.path, {"O_WRONLY", "O_TRUNC"})
  \/ \E f \in fdt, n \in 1..MaxLen : WriteFd(f.fd, n)
  \/ \E f \in fdt, m \in PermSet : FchmodFd(f.fd, m)
  \/ \E f \in fdt : FsyncFd(f.fd)
  \/ \E f \in fdt : CloseFd(f.fd)
  \/ \E t \in tmps, q \in Paths : RenamePath(t.path, q)
  \/ \E t \in tmps : UnlinkPath(t.path)
  \/ \E p \in DOMAIN tgt, q \in Names : InPlace /\ RenamePath(p, q)
  \/ \E p \in DOMAIN tgt : InPlace /\ UnlinkPath(p)
  \/ \E st \in {0, 1} : Exit(st)
  \/ Crash
  \/ \E fd \in FDs, p \in DOMAIN tgt : OpenTgtWr(fd, p, {"O_WRONLY", "O_CREAT", "O_TRUNC"})
  \/ \E p \in DOMAIN tgt, m \in PermSet : InPlace /\ ChmodPath(p, m)

Spec == Init /\ [][Next]_vars

\* bound on written lengths (model only)
LenBound == /\ \A t \in tmps : t.len <= MaxLen
            /\ \A p \in DOMAIN tgt : tgt[p].len <= MaxLen

-----------------------------------------------------------------------------
\* The property.
Atomic ==          \* in every state, crashed ones included
  \A p \in DOMAIN tgt : /\ tgt[p].data \in {"orig", "new"}
                        /\ tgt[p].mode = scn.files[p].mode
                        /\ tgt[p].kind = scn.files[p].kind
Durable ==         \* new bytes were fsync'ed before they got the name
  \A p \in DOMAIN tgt : tgt[p].data = "new" => tgt[p].synced
Untouched ==       \* symlinks, FIFOs, unselected files, parse errors: same inode, same everything
  \A p \in DOMAIN tgt :
     (scn.files[p].kind # "reg" \/ ~Selected(scn, p) \/ scn.files[p].status = "parseerr")
        => tgt[p] = InitTgt(scn)[p]
NoTemps == pc = "done" => tmps = {}
ExitOK  == pc = "done" => exitst = ExpectedExit(scn) /\ WorkDone
TypeOK == /\ pc \in {"run", "done", "crashed"}
          /\ \A t \in tmps : t.path \notin DOMAIN tgt
          /\ \A t, u \in tmps : t.path = u.path => t = u
          /\ \A f, g \in fdt : f.fd = g.fd => f = g

\* Non-vacuity: a completed run that replaced something is reachable (checked as an
\* invariant that must be VIOLATED, in the self-test configuration).
NeverCompletes == ~(pc = "done" /\ \E p \in DOMAIN tgt : tgt[p].data = "new")

-----------------------------------------------------------------------------
\* Scenario space of the model.
ExplP == <<"f1.sh", "f2.sh", "f3.sh">>
WalkP == <<"sub/f1.sh", "sub/f2.sh", "sub/f3.sh">>
NoneP == <<"other/f1.sh", "other/f2.sh", "other/f3.sh">>
PathFor(arg, j) == IF arg = "explicit" THEN ExplP[j] ELSE IF arg = "walked" THEN WalkP[j] ELSE NoneP[j]
FmtLenOf(status) == IF status = "differs" THEN 2 ELSE IF status = "same" THEN 1 ELSE 0
Args == {"explicit", "walked"}
Statuses == {"differs", "same", "parseerr"}

\* one unit = the file records one command-line/walk entry brings with it
Units(j, modes) ==
  { {File(PathFor(a, j), "reg", m, s, FmtLenOf(s), a, "")} : a \in Args, m \in modes, s \in Statuses }
  \cup
  { {File(PathFor(a, j), "symlink", Bits(511), s, FmtLenOf(s), a, NoneP[j]),
     File(NoneP[j], "reg", m, s, FmtLenOf(s), "none", "")} : a \in Args, m \in modes, s \in Statuses }
  \cup
  { {File(PathFor(a, j), "fifo", Bits(420), "same", 0, a, "")} : a \in Args }

FnOf(S) == [p \in {f.path : f \in S} |-> CHOOSE f \in S : f.path = p]
Scn1(umasks, modes)  == { [umask |-> u, files |-> FnOf(U)] : u \in umasks, U \in Units(1, modes) }
Scn2(umasks, modes)  == { [umask |-> u, files |-> FnOf(U \cup V)] :
                            u \in umasks, U \in Units(1, modes), V \in Units(2, modes) }

AllModes   == {Bits(384), Bits(416), Bits(493), Bits(292)}    \* 0600 0640 0755 0444
AllUmasks  == {Bits(18), Bits(63)}                            \* 022 077

\* Two-file runs: an explicit entry that matters (not "same") plus a second entry
\* that is walked (a directory argument) -- regular file or symlink.
Scn2Small(umasks, modes) ==
  { [umask |-> u, files |-> FnOf(U \cup V)] :
      u \in umasks,
      U \in {X \in Units(1, modes) : \A f \in X : f.arg # "walked" /\ f.status # "same"},
      V \in {X \in Units(2, modes) : \A f \in X : f.arg # "explicit" /\ f.kind # "fifo"} }

\* Scenarios handed to the real binary (one VEC per initial state) ...
RunScenarios == Scn1(AllUmasks, AllModes) \cup Scn2Small({Bits(18)}, {Bits(416), Bits(493)})
\* ... and the subset whose complete behaviour graph is explored (CONSTRAINT *Scope):
\* the contract only compares modes for equality, so the cases are covered by one mode
\* with a umask that clears none of its bits and one that clears some.
InScope(modes, umasks, nmax, wst) ==
  /\ scn.umask \in umasks
  /\ \A p \in DOMAIN scn.files : (nmax > 1 /\ scn.files[p].arg = "walked") => scn.files[p].status \in wst
  /\ \A p \in DOMAIN scn.files : scn.files[p].kind = "reg" => scn.files[p].mode \in modes
  /\ Cardinality({p \in DOMAIN scn.files : scn.files[p].arg # "none"}) <= nmax
IsInitial == pc = "run" /\ used = {} /\ fdt = {}
QuickTwo == /\ InScope({Bits(416)}, {Bits(18)}, 2, {"differs"})
            /\ \A p \in DOMAIN scn.files : scn.files[p].arg = "walked" => scn.files[p].kind = "reg"
QuickOne == /\ InScope({Bits(416)}, AllUmasks, 1, Statuses)
            /\ scn.umask = Bits(63) => \A p \in DOMAIN scn.files : scn.files[p].kind = "reg"
QuickScope    == LenBound /\ (IsInitial \/ QuickOne \/ QuickTwo)
ThoroughScope == LenBound /\ (IsInitial \/ InScope(AllModes, AllUmasks, 1, Statuses)
                                        \/ InScope({Bits(416)}, {Bits(18)}, 2, Statuses))
TinyScenarios == Scn1({Bits(18)}, {Bits(416)})
Names2 == {"t1", "t2"}
Names3 == {"t1", "t2", "t3"}
FDs1   == {3}
FDs2   == {3, 4}

\* one vector per scenario = per initial state
EmitScn == IsInitial
             => PrintT(<<"VEC", ToJson([umask |-> scn.umask, files |-> scn.files,
                                        exit |-> ExpectedExit(scn)])>>)
=============================================================================
