----------------------------- MODULE ShWalkTrace -----------------------------
(* C14 trace validation: callback sequences recorded from the real syntax.Walk and
   syntax.Preorder must be behaviours of the ShWalk protocol on the tree shape that the
   harness obtained by reflection over the exported fields of the real nodes.

   Input (ndjson, one trace per line, path in VERIF_TRACE):
     id    number of the trace
     kind  "walk" (events = every callback call) | "pre" (events = yields of the iterator)
     kids  the shape: kids[n] = children of node n, node 1 = the root passed to Walk
     knd   knd[n] = Go type name of node n (only used by the named deviations)
     ev    events <<1, n, d>> = f(n) answered d (1 descend / 0 prune); <<0, 0, 0>> = f(nil);
           n = 0: a node that is not in the shape
     stopped  (kind "pre") the consumer broke out of the loop after the last event
   The behaviour is deterministic: one TLC state per event.  A trace whose next event is
   not allowed is reported (REJ, with the position) and skipped; a trace that needed a
   named deviation is accepted and reported (DEV).

   Named deviations (what the code is known to do instead of the contract), each with a
   narrow trigger:
     Dev_TrailingCommentAfterExit   Walk defers the first comment that lies after the end of
        a Stmt / CaseItem / ArrayElem until after that node's f(nil): the node is closed
        while that Comment child is still unseen, and the Comment is offered right after. *)
EXTENDS Naturals, Sequences, FiniteSets, TLC, Json, IOUtils

Trace == ndJsonDeserialize(IOEnv.VERIF_TRACE)
NTraces == Len(Trace)

VARIABLES ti, pos,               \* current trace, events consumed
          stack, seen, pruned,   \* the protocol state of ShWalk
          late,                  \* Dev: nodes closed while a Comment child was still unseen
          devs                   \* names of the deviations the current trace needed
tvars == <<ti, pos, stack, seen, pruned, late, devs>>

Cur == Trace[ti]
CommentHosts == {"Stmt", "CaseItem", "ArrayElem"}

\* The protocol actions are ShWalk's, instantiated on the shape of the current trace (the tree is
\* a function of ti, so it is not carried in the state).
W == INSTANCE ShWalk WITH kids <- (IF ti <= NTraces THEN Trace[ti].kids ELSE <<<<>>>>),
                          phase <- "run", mode <- "none", ev <- <<>>, stopped <- FALSE,
                          MaxNodes <- 0, Forget <- FALSE
Nodes         == W!Nodes
Top           == W!Top
KidSet(n)     == W!KidSet(n)
Unseen(n)     == W!Unseen(n)
StrictDesc(S) == W!StrictDesc(S)
PopDone(a, b) == W!PopDone(a, b)
EnterOK(n)    == W!EnterOK(n)
ExitOK        == W!ExitOK
YieldOK(n)    == W!YieldOK(n)
\* the effects of the actions, written on this module's variables (an instantiated action would
\* prime the substituted expressions)
EnterCore(n, d) == /\ seen' = seen \cup {n}
                   /\ IF d THEN stack' = Append(stack, n) /\ pruned' = pruned
                           ELSE stack' = stack /\ pruned' = pruned \cup {n}
ExitCore        == stack' = SubSeq(stack, 1, Len(stack) - 1) /\ UNCHANGED <<seen, pruned>>
YieldCore(n)    == stack' = Append(PopDone(stack, seen), n) /\ seen' = seen \cup {n} /\ UNCHANGED pruned

TInit == /\ ti = 1 /\ pos = 0 /\ late = {} /\ devs = {}
         /\ stack = <<>> /\ seen = {} /\ pruned = {}

NextTrace == /\ ti' = ti + 1 /\ pos' = 0 /\ late' = {} /\ devs' = {}
             /\ stack' = <<>> /\ seen' = {} /\ pruned' = {}

Reject(why) == /\ PrintT(<<"REJ", ToJson([id |-> Cur.id, at |-> pos, why |-> why])>>)
               /\ NextTrace

\* ---- named deviation: Dev_TrailingCommentAfterExit
\* closing the innermost node although only Comment children are unseen
DevExitOK == /\ stack # <<>> /\ Unseen(Top) # {}
             /\ Cur.knd[Top] \in CommentHosts
             /\ \A c \in Unseen(Top) : Cur.knd[c] = "Comment"
\* a Comment child of such a node, offered after it was closed
DevLateOK(n) == /\ n \in Nodes /\ n \notin seen /\ Cur.knd[n] = "Comment"
                /\ \E h \in late : n \in KidSet(h)

\* what must hold when the events are used up
WalkDone == stack = <<>> /\ seen = Nodes \ StrictDesc(pruned)
PreDone  == Cur.stopped \/ (PopDone(stack, seen) = <<>> /\ seen = Nodes)

Step ==
  /\ ti <= NTraces
  /\ IF pos = Len(Cur.ev)
     THEN IF (Cur.kind = "walk" /\ WalkDone) \/ (Cur.kind = "pre" /\ PreDone)
          THEN /\ IF devs = {} THEN PrintT(<<"ACC", ToJson(Cur.id)>>)
                               ELSE PrintT(<<"DEV", ToJson([id |-> Cur.id, devs |-> devs])>>)
               /\ NextTrace
          ELSE Reject("incomplete: events used up but not every reachable node was visited / closed")
     ELSE LET e == Cur.ev[pos + 1] IN
          IF Cur.kind = "pre"
          THEN IF YieldOK(e[2])
               THEN YieldCore(e[2]) /\ pos' = pos + 1 /\ UNCHANGED <<ti, late, devs>>
               ELSE Reject("yield of a node that is not an unseen child of the innermost unfinished node")
          ELSE IF e[1] = 1
               THEN IF EnterOK(e[2])
                    THEN EnterCore(e[2], e[3] = 1) /\ pos' = pos + 1
                         /\ UNCHANGED <<ti, late, devs>>
                    ELSE IF DevLateOK(e[2])
                    THEN /\ seen' = seen \cup {e[2]}
                         /\ IF e[3] = 1 THEN stack' = Append(stack, e[2]) /\ pruned' = pruned
                                        ELSE stack' = stack /\ pruned' = pruned \cup {e[2]}
                         /\ pos' = pos + 1 /\ devs' = devs \cup {"Dev_TrailingCommentAfterExit"}
                         /\ UNCHANGED <<ti, late>>
                    ELSE Reject("f(n) for a node that is not an unseen child of the innermost open node")
               ELSE IF ExitOK
                    THEN ExitCore /\ pos' = pos + 1 /\ UNCHANGED <<ti, late, devs>>
                    ELSE IF DevExitOK
                    THEN /\ stack' = SubSeq(stack, 1, Len(stack) - 1) /\ late' = late \cup {Top}
                         /\ pos' = pos + 1 /\ devs' = devs \cup {"Dev_TrailingCommentAfterExit"}
                         /\ UNCHANGED <<ti, seen, pruned>>
                    ELSE Reject("f(nil) while a child of the innermost open node was never offered (or nothing is open)")

TSpec == TInit /\ [][Step]_tvars
=============================================================================
