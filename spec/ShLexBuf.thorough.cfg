SPECIFICATION Spec
CONSTANTS
  LenWord = 3
  LenZsh = 4
  LenParam = 4
  LenStop = 4
  MaxZero = 1
  Loops = TRUE
  Specials = TRUE
INVARIANTS WindowTruth PeekTruth SentinelOnlyAtEOF Progress SchedIndep EmitInv
