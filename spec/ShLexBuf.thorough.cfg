SPECIFICATION Spec
CONSTANTS
  LenWord = 4
  LenZsh = 5
  LenParam = 5
  LenStop = 5
  MaxZero = 1
  Loops = TRUE
  Specials = TRUE
INVARIANTS WindowTruth PeekTruth SentinelOnlyAtEOF Progress SchedIndep EmitInv
