SPECIFICATION Spec
CONSTANTS FifoCancellable = FALSE
  MaxCancel = 8
  Mode = "mc"
INVARIANTS TypeOK StuckOnlyIfTrigger
