SPECIFICATION Spec
CONSTANTS MaxHist = 3
  CfgIds = {1}
  DeepCfgIds = {1}
  StmtAct = FALSE
  LibIds <- DeepLibIds
INVARIANTS TypeOK ResetRestores Laws
PROPERTY Untouched
