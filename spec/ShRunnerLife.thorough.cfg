SPECIFICATION Spec
CONSTANTS MaxHist = 3
  CfgIds = {1, 2, 3, 4}
  DeepCfgIds = {1}
  StmtAct = FALSE
INVARIANTS TypeOK ResetRestores Laws
PROPERTY Untouched
