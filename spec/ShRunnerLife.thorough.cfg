SPECIFICATION Spec
CONSTANTS MaxHist = 3
  CfgIds = {1, 2, 3, 4}
  DeepCfgIds = {1, 2}
  StmtAct = TRUE
INVARIANTS TypeOK ResetRestores Laws
PROPERTY Untouched
