SPECIFICATION Spec
CONSTANT MaxLen = 5
CONSTANT Menus = TRUE
CONSTANT Cap = 300
CONSTANT Alphabet <- AlphaFull
INVARIANT CheckAndEmit
