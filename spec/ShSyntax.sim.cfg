SPECIFICATION Spec
CONSTANTS MaxLen = 10
  MaxDepth = 3
  EmitAt = 10
INVARIANTS WellFormed Emit
