SPECIFICATION Spec
CONSTANTS Family = "mix"
  MaxUnits = 6
  MaxFlags = 2
  MaxTail = 5
  MaxArgs = 4
  Rich = TRUE
INVARIANTS IdentityLaw WidthLaw EchoPlainLaw EmitInv
