SPECIFICATION Spec
CONSTANTS Alphabet = {39, 34, 92, 36, 96, 97, 32, 10, 200, 49, 102, 1, 127, 33, 125}
  MaxLen = 4
INVARIANTS SglLaw DblLaw CLaw PlainLaw ConcatLaw
