SPECIFICATION Spec
CONSTANTS Obj = "parser"
  MaxHist = 2
INVARIANTS OptionsLaw LibraryOK ContractClean Emit EmitLib
