SPECIFICATION Spec
CONSTANTS
  Modes = {"getopts", "count", "breadth", "params", "syntax", "slice", "arith"}
  GMaxHist = 2
  GMaxArgs = 2
  GWordIds = {1, 2, 3, 4, 5, 6, 7, 8, 9, 10}
  GOptIds = {1, 2, 3}
  BMaxArgs = 2
  BMaxArgsCtx = 1
  PMaxArgs = 3
  SMaxLen = 2
INVARIANTS GInRange GOutsLen ShiftLaw StatusLaw EmitVec
