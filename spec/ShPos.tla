---------------------------- MODULE ShPos ----------------------------
(* C09: source positions point at the source they describe.

   Part 1 -- the position tracker.  Style F input builder: the state is a string of byte
   classes; Next appends one class.  Two definitions of the position reached after the string
   are compared by TLC:
     Track   the incremental tracker (what a lexer does: per class, advance offset and column,
             a newline starts a new line)
     Decl    the declarative contract of the property: line = 1 + number of newline bytes
             before the offset, col = offset - (offset just after the last newline) + 1
   Columns and offsets count BYTES.  NUL bytes and the CR of a CRLF pair are skipped by the
   lexer but still occupy a byte, so they count.  Every state is emitted as a vector; the
   harness instantiates the class string inside a quoted string / comment / blank area in front
   of a token and compares the real token position with the prediction.

   Part 2 -- the token table: for every position field of every node type, the spellings that
   must be found in the source at that position (transcribed from the repository's own
   sanityChecker contract in syntax/filetests_test.go, see DESIGN.md C09).  It is emitted once
   (STAT) and interpreted by the harness by reflection over the real tree.                  *)
EXTENDS Integers, Sequences, FiniteSets, TLC, Json

CONSTANTS MaxLen
VARIABLE cls
vars == <<cls>>

Classes == {"a", "NL", "CR", "CRNL", "NUL", "TAB", "u2", "u3", "u4", "bad", "BSNL", "SP"}
\* context characters used by the harness around the class string (one byte each)
Ctx == {"Q", "H"}
Width(c) == CASE c = "u2" -> 2 [] c = "u3" -> 3 [] c = "u4" -> 4 [] c = "CRNL" -> 2 [] c = "BSNL" -> 2 [] OTHER -> 1
EndsLine(c) == c \in {"NL", "CRNL", "BSNL"}

Init == cls = <<>>
Next == Len(cls) < MaxLen /\ \E c \in Classes : cls' = Append(cls, c)
Spec == Init /\ [][Next]_vars

\* incremental tracker
RECURSIVE Track(_, _)
Track(s, st) ==
  IF s = <<>> THEN st
  ELSE LET c == Head(s) IN
       Track(Tail(s), [off  |-> st.off + Width(c),
                       line |-> IF EndsLine(c) THEN st.line + 1 ELSE st.line,
                       col  |-> IF EndsLine(c) THEN 1 ELSE st.col + Width(c)])
Start == [off |-> 0, line |-> 1, col |-> 1]

\* declarative contract
RECURSIVE SumW(_)
SumW(s) == IF s = <<>> THEN 0 ELSE Width(Head(s)) + SumW(Tail(s))
LastEOL == IF \E i \in 1..Len(cls) : EndsLine(cls[i])
           THEN CHOOSE i \in 1..Len(cls) : EndsLine(cls[i]) /\ \A j \in (i+1)..Len(cls) : ~EndsLine(cls[j])
           ELSE 0
Decl == [off  |-> SumW(cls),
         line |-> 1 + Cardinality({i \in 1..Len(cls) : EndsLine(cls[i])}),
         col  |-> SumW(SubSeq(cls, LastEOL + 1, Len(cls))) + 1]

TrackerAgrees == Track(cls, Start) = Decl
Monotone == LET p == Track(cls, Start) IN p.off >= Len(cls) /\ p.line >= 1 /\ p.col >= 1

\* Contexts in which the harness places the class string in front of the token `tok`:
\*   quoted   'CLS' tok        (any class)
\*   comment  #CLS<NL>tok      (only without line enders)
\*   blank    CLStok           (only blank classes; the token starts right after)
Blank(c) == c \in {"SP", "TAB", "NL", "CRNL", "BSNL", "NUL"}
Emit == LET p == Decl IN
        PrintT(<<"VEC", ToJson([cls |-> cls, off |-> p.off, line |-> p.line, col |-> p.col,
              quoted  |-> Track(<<"Q">> \o cls \o <<"Q", "SP">>, Start),
              comment |-> IF \E i \in 1..Len(cls) : EndsLine(cls[i]) \/ cls[i] = "CR" THEN <<>>
                          ELSE Track(<<"H">> \o cls \o <<"NL">>, Start),
              blank   |-> IF \A i \in 1..Len(cls) : Blank(cls[i]) THEN Track(cls, Start) ELSE <<>>,
              nontrivial |-> (p.line > 1 \/ p.off # Len(cls))])>>)

\* ---- Part 2: token table.  when = "" (always) or "Flag" / "!Flag" on a boolean field of the node.
T(node, field, when, toks) == [node |-> node, field |-> field, when |-> when, toks |-> toks]
TokenTable == {
  T("Subshell", "Lparen", "", {"("}), T("Subshell", "Rparen", "", {")"}),
  T("Block", "Lbrace", "", {"{"}), T("Block", "Rbrace", "", {"}"}),
  T("IfClause", "ThenPos", "", {"then"}), T("IfClause", "FiPos", "", {"fi"}),
  T("WhileClause", "WhilePos", "!Until", {"while"}), T("WhileClause", "WhilePos", "Until", {"until"}),
  T("WhileClause", "DoPos", "", {"do"}), T("WhileClause", "DonePos", "", {"done"}),
  T("ForClause", "ForPos", "!Select", {"for"}), T("ForClause", "ForPos", "Select", {"select"}),
  T("ForClause", "DoPos", "!Braces", {"do"}), T("ForClause", "DonePos", "!Braces", {"done"}),
  T("ForClause", "DoPos", "Braces", {"{"}), T("ForClause", "DonePos", "Braces", {"}"}),
  T("WordIter", "InPos", "", {"in"}),
  T("CStyleLoop", "Lparen", "", {"(("}), T("CStyleLoop", "Rparen", "", {"))"}),
  T("SglQuoted", "Left", "!Dollar", {"'"}), T("SglQuoted", "Left", "Dollar", {"$'"}), T("SglQuoted", "Right", "", {"'"}),
  T("DblQuoted", "Left", "!Dollar", {"\""}), T("DblQuoted", "Left", "Dollar", {"$\""}), T("DblQuoted", "Right", "", {"\""}),
  T("ParenArithm", "Lparen", "", {"("}), T("ParenArithm", "Rparen", "", {")"}),
  T("ParenTest", "Lparen", "", {"("}), T("ParenTest", "Rparen", "", {")"}),
  T("FuncDecl", "Position", "RsrvWord", {"function"}),
  T("ParamExp", "Dollar", "", {"$"}), T("ParamExp", "Rbrace", "!Short", {"}"}),
  T("ArithmExp", "Left", "!Bracket", {"$(("}), T("ArithmExp", "Right", "!Bracket", {"))"}),
  T("ArithmExp", "Left", "Bracket", {"$["}), T("ArithmExp", "Right", "Bracket", {"]"}),
  T("ArithmCmd", "Left", "", {"(("}), T("ArithmCmd", "Right", "", {"))"}),
  T("CmdSubst", "Left", "Backquotes", {"`", "\\`"}), T("CmdSubst", "Right", "Backquotes", {"`", "\\`"}),
  T("CmdSubst", "Left", "!Backquotes", {"$(", "${ ", "${|", "${\t", "${\n"}), T("CmdSubst", "Right", "!Backquotes", {")", "}"}),
  T("CaseClause", "Case", "", {"case"}), T("CaseClause", "In", "!Braces", {"in"}), T("CaseClause", "Esac", "!Braces", {"esac"}),
  T("CaseClause", "In", "Braces", {"{"}), T("CaseClause", "Esac", "Braces", {"}"}),
  T("TestClause", "Left", "", {"[["}), T("TestClause", "Right", "", {"]]"}),
  T("TimeClause", "Time", "", {"time"}), T("CoprocClause", "Coproc", "", {"coproc"}), T("LetClause", "Let", "", {"let"}),
  T("TestDecl", "Position", "", {"@test"}),
  T("ArrayExpr", "Lparen", "", {"("}), T("ArrayExpr", "Rparen", "", {")"}),
  T("ProcSubst", "Rparen", "", {")"}),
  T("Stmt", "Semicolon", "", {";", "&", "|&", "&|", "&!"}),
  T("Comment", "Hash", "", {"#"}) }
\* Fields whose token is the node's own operator spelling (Op.String()), with documented alternates:
OpFields == { [node |-> "Redirect", field |-> "OpPos"], [node |-> "UnaryArithm", field |-> "OpPos"],
              [node |-> "UnaryTest", field |-> "OpPos"], [node |-> "BinaryCmd", field |-> "OpPos"],
              [node |-> "BinaryArithm", field |-> "OpPos"], [node |-> "BinaryTest", field |-> "OpPos"],
              [node |-> "ExtGlob", field |-> "OpPos"], [node |-> "ProcSubst", field |-> "OpPos"],
              [node |-> "CaseItem", field |-> "OpPos"] }
OpAlternates == { [op |-> "-e", alt |-> "-a"], [op |-> "-L", alt |-> "-h"], [op |-> "==", alt |-> "="],
                  [op |-> ">|", alt |-> ">!"], [op |-> ">>|", alt |-> ">>!"], [op |-> "&>>", alt |-> ">>&"],
                  [op |-> ";;", alt |-> "esac"], [op |-> ";&", alt |-> "esac"], [op |-> ";;&", alt |-> "esac"],
                  [op |-> ";|", alt |-> "esac"] }

EmitTable == IF cls = <<>>
             THEN PrintT(<<"STAT", ToJson([tokens |-> TokenTable, opfields |-> OpFields, alternates |-> OpAlternates])>>)
             ELSE TRUE
=======================================================================
