---------------------------- MODULE ShBraces ----------------------------
(* C16: brace expansion matches bash.   Style F (input builder + recursive contract).

   State = the word under construction (sequence of 1-char strings); Next appends one
   symbol of Alphabet, so TLC's BFS enumerates every word up to MaxLen exactly once and
   -simulate gives random longer ones.  The contract is bash's brace expansion, written
   from the bash manual + observed bash 5.2 behaviour (DESIGN.md Appendix C):

     Split(w)    the word cut into items: literal text, a comma list {x,y,...} whose
                 alternatives are again item lists, or a sequence {x..y[..incr]}
     Printed(t)  the text of an item list            (law: Printed(Split(w)) = w)
     HasBrace(w) Split(w) contains a list or a sequence   (what SplitBraces must report)
     Count(t)    number of words the expansion has   (the 16384 limit clause uses this)
     Expand(w)   the words, in bash's order (preamble x alternatives x postscript)
     Fin(u)      what `printf '<%s>' u` shows after quote removal / $-expansion, for the
                 small class of words where that is predictable (obs = TRUE)

   Every distinct state is emitted as one vector {w, has, printed, count, exp, fin}. *)
EXTENDS Integers, Sequences, FiniteSets, TLC, Json, ShText

CONSTANTS MaxLen,     \* bound on the word length (BFS) / unused under -simulate (-depth bounds it)
          Alphabet,   \* sequence of 1-char strings
          Menus,      \* BOOLEAN: also evaluate the menus (fixed words, sequence product, symbolic templates)
          Cap         \* lists longer than this are not materialised (only their Count is given)

VARIABLE w
vars == <<w>>

AlphaFull  == <<"{", "}", ",", ".", "0", "1", "2", "a", "b", "-", "\\", "$">>
AlphaSmall == <<"{", "}", ",", ".", "1", "a", "\\", "$">>
\* simulation: the structural characters are three times as likely
AlphaSim   == <<"{", "{", "{", "}", "}", "}", ",", ",", ",", ".", ".", ".", "0", "1", "2", "a", "b", "-", "\\", "$">>
Limit == 16384

OrdL(c) ==
  CASE c = "a" -> 97
    [] c = "b" -> 98
    [] c = "c" -> 99
    [] c = "d" -> 100
    [] c = "e" -> 101
    [] c = "f" -> 102
    [] c = "g" -> 103
    [] c = "h" -> 104
    [] c = "i" -> 105
    [] c = "j" -> 106
    [] c = "k" -> 107
    [] c = "l" -> 108
    [] c = "m" -> 109
    [] c = "n" -> 110
    [] c = "o" -> 111
    [] c = "p" -> 112
    [] c = "q" -> 113
    [] c = "r" -> 114
    [] c = "s" -> 115
    [] c = "t" -> 116
    [] c = "u" -> 117
    [] c = "v" -> 118
    [] c = "w" -> 119
    [] c = "x" -> 120
    [] c = "y" -> 121
    [] c = "z" -> 122
    [] c = "A" -> 65
    [] c = "B" -> 66
    [] c = "C" -> 67
    [] c = "D" -> 68
    [] c = "E" -> 69
    [] c = "F" -> 70
    [] c = "G" -> 71
    [] c = "H" -> 72
    [] c = "I" -> 73
    [] c = "J" -> 74
    [] c = "K" -> 75
    [] c = "L" -> 76
    [] c = "M" -> 77
    [] c = "N" -> 78
    [] c = "O" -> 79
    [] c = "P" -> 80
    [] c = "Q" -> 81
    [] c = "R" -> 82
    [] c = "S" -> 83
    [] c = "T" -> 84
    [] c = "U" -> 85
    [] c = "V" -> 86
    [] c = "W" -> 87
    [] c = "X" -> 88
    [] c = "Y" -> 89
    [] c = "Z" -> 90
    [] OTHER -> 0
IsLetter(c) == OrdL(c) # 0
IsDig(c) == c = "0" \/ c = "1" \/ c = "2" \/ c = "3" \/ c = "4" \/ c = "5" \/ c = "6" \/ c = "7" \/ c = "8" \/ c = "9"
At(t, i) == IF i >= 1 /\ i <= Len(t) THEN t[i] ELSE "NUL"

(* ------------------------------------------------------------------ scanning
   Scan(q, t, i, sat, level, commas): position of the first character = sat at or after i that
   is at nesting level 0 (and, when looking for "}", only after a top-level "," or ".."
   was seen), or 0.  A backslash protects the next character; "${" opens a level that its
   "}" closes (parameter expansions are skipped); "{" and "}" nest.  An opening brace at
   the very start of the text that is immediately closed ("{}") or ends the text is not an
   opening brace at all. *)
RECURSIVE Scan(_, _, _, _, _, _)
Scan(q, t, i, sat, level, commas) ==
  IF i > Len(t) THEN 0
  ELSE LET c == t[i] IN
    IF c = "\\" THEN Scan(q, t, i + 2, sat, level, commas)
    ELSE IF c = "$" /\ At(t, i + 1) = "{" THEN Scan(q, t, i + 2, sat, level + 1, commas)
    ELSE IF c = sat /\ level = 0 /\ (commas > 0 \/ (q /\ sat = "}"))
      THEN IF c = "{" /\ i = 1 /\ At(t, 2) \in {"}", "NUL"}
           THEN Scan(q, t, i + 1, sat, level, commas)
           ELSE i
    ELSE IF c = "{" THEN Scan(q, t, i + 1, sat, level + 1, commas)
    ELSE IF c = "}" /\ level > 0 THEN Scan(q, t, i + 1, sat, level - 1, commas)
    ELSE IF sat = "}" /\ level = 0
            /\ (c = "," \/ (c = "." /\ At(t, i + 1) = "." /\ At(t, i + 2) # "}"))
      THEN Scan(q, t, i + 1, sat, level, 1)
    ELSE Scan(q, t, i + 1, sat, level, commas)

CloseOf(q, t, i) == Scan(q, t, i + 1, "}", 0, 0)      \* the "}" closing the "{" at i, or 0

\* first "{" at or after i that has a closing brace
RECURSIVE FindOpen(_, _, _)
FindOpen(q, t, i) ==
  LET k == Scan(q, t, i, "{", 0, 1) IN
  IF k = 0 THEN 0
  ELSE IF CloseOf(q, t, k) # 0 THEN k
  ELSE FindOpen(q, t, k + 1)

\* an unescaped comma anywhere in the text between the braces
RECURSIVE HasComma(_, _)
HasComma(a, j) ==
  IF j > Len(a) THEN FALSE
  ELSE IF a[j] = "\\" THEN HasComma(a, j + 2)
  ELSE IF a[j] = "," THEN TRUE
  ELSE HasComma(a, j + 1)

(* ------------------------------------------------------------------ numbers *)
DigitSeq == <<"0", "1", "2", "3", "4", "5", "6", "7", "8", "9">>
DigitVal == [c \in {"0","1","2","3","4","5","6","7","8","9"} |->
               (CHOOSE i \in 1..10 : DigitSeq[i] = c) - 1]
AllDigits(s) == s # <<>> /\ \A i \in 1..Len(s) : IsDig(s[i])
Signed(s)    == s # <<>> /\ s[1] \in {"-", "+"}
Unsign(s)    == IF Signed(s) THEN Tail(s) ELSE s
IsNum(s)     == AllDigits(Unsign(s))             \* [+-]?[0-9]+
RECURSIVE NatVal(_)
NatVal(s) == IF s = <<>> THEN 0 ELSE NatVal(SubSeq(s, 1, Len(s) - 1)) * 10 + DigitVal[s[Len(s)]]
NumVal(s) == IF s[1] = "-" THEN 0 - NatVal(Tail(s)) ELSE NatVal(Unsign(s))
\* the model's integers are 32-bit: words with a run of 10 or more digits are outside the model
RECURSIVE MaxDigitRun(_, _, _)
MaxDigitRun(t, i, run) ==
  IF i > Len(t) THEN run
  ELSE IF IsDig(t[i]) THEN MaxDigitRun(t, i + 1, run + 1)
  ELSE LET r == MaxDigitRun(t, i + 1, 0) IN IF r > run THEN r ELSE run
InModel(t) == MaxDigitRun(t, 1, 0) <= 9

RECURSIVE NatText(_)
NatText(n) == IF n < 10 THEN <<DigitSeq[n + 1]>> ELSE NatText(n \div 10) \o <<DigitSeq[(n % 10) + 1]>>
IntText(n) == IF n < 0 THEN <<"-">> \o NatText(0 - n) ELSE NatText(n)
RECURSIVE Zeros(_)
Zeros(k) == IF k <= 0 THEN <<>> ELSE <<"0">> \o Zeros(k - 1)
\* printf "%0*d": the sign counts towards the width
PadText(n, wd) ==
  LET d == NatText(IF n < 0 THEN 0 - n ELSE n)
      sg == IF n < 0 THEN <<"-">> ELSE <<>>
  IN sg \o Zeros(wd - Len(d) - Len(sg)) \o d
Abs(n) == IF n < 0 THEN 0 - n ELSE n
Max2(a, b) == IF a > b THEN a ELSE b

(* ------------------------------------------------------------------ items
   All items are records with the same fields (k = "lit" | "alt" | "seq"). *)
Lit(s)        == [k |-> "lit", s |-> s, alts |-> <<>>, a |-> 0, b |-> 0, inc |-> 1, ty |-> "", wd |-> 0]
AltItem(alts) == [k |-> "alt", s |-> <<>>, alts |-> alts, a |-> 0, b |-> 0, inc |-> 1, ty |-> "", wd |-> 0]
SeqItem(s, a, b, inc, ty, wd) ==
                 [k |-> "seq", s |-> s, alts |-> <<>>, a |-> a, b |-> b, inc |-> inc, ty |-> ty, wd |-> wd]

\* position of the first ".." in s, or 0
FirstDots(s) ==
  LET S == { i \in 1..(Len(s) - 1) : s[i] = "." /\ s[i + 1] = "." } IN
  IF S = {} THEN 0 ELSE CHOOSE i \in S : \A j \in S : i <= j

\* length of the longest prefix of r of the form [+-]?[0-9]+ (0 if none)
RECURSIVE DigitsPrefix(_, _)
DigitsPrefix(r, i) == IF i <= Len(r) /\ IsDig(r[i]) THEN DigitsPrefix(r, i + 1) ELSE i - 1
NumPrefix(r) ==
  IF r = <<>> THEN 0
  ELSE IF IsDig(r[1]) THEN DigitsPrefix(r, 1)
  ELSE IF r[1] \in {"-", "+"} /\ Len(r) >= 2 /\ IsDig(r[2]) THEN DigitsPrefix(r, 2)
  ELSE 0

LeadZero(s) == (Len(s) > 1 /\ s[1] = "0") \/ (Len(s) > 2 /\ s[1] = "-" /\ s[2] = "0")

(* {x..y} or {x..y..incr}: both ends integers, or both single letters; incr an integer.
   Anything else stays literal text, braces included.  Direction comes from the ends; only
   the magnitude of the increment matters and 0 means 1.  Zero padding when an end has a
   leading zero: width of the wider end, sign included. *)
SeqTerm(am) ==
  LET lit == Lit(<<"{">> \o am \o <<"}">>)
      p == FirstDots(am) IN
  IF p = 0 THEN lit
  ELSE
    LET lhs == SubSeq(am, 1, p - 1)
        r   == SubSeq(am, p + 2, Len(am)) IN
    IF lhs = <<>> \/ r = <<>> THEN lit
    ELSE
      LET lnum == IsNum(lhs)
          lchr == Len(lhs) = 1 /\ IsLetter(lhs[1])
          np   == NumPrefix(r)
          rnum == np > 0
          rchr == np = 0 /\ IsLetter(r[1]) /\ (Len(r) = 1 \/ r[2] = ".")
          rl   == IF rnum THEN np ELSE 1            \* length of the right end
          rhs  == SubSeq(r, 1, rl)
          ep   == SubSeq(r, rl + 1, Len(r))         \* what follows the right end
          incOK == ep = <<>> \/ (Len(ep) >= 3 /\ ep[1] = "." /\ ep[2] = "." /\ IsNum(SubSeq(ep, 3, Len(ep))))
          incV  == IF ep = <<>> THEN 1 ELSE NumVal(SubSeq(ep, 3, Len(ep)))
          inc   == IF incV = 0 THEN 1 ELSE Abs(incV)
      IN
      IF ~incOK THEN lit
      ELSE IF lnum /\ rnum THEN
        LET z == LeadZero(lhs) \/ LeadZero(rhs) IN
        SeqItem(am, NumVal(lhs), NumVal(rhs), inc, IF z THEN "zint" ELSE "int",
                IF z THEN Max2(Len(lhs), Len(rhs)) ELSE 0)
      ELSE IF lchr /\ rchr THEN SeqItem(am, OrdL(lhs[1]), OrdL(rhs[1]), inc, "chr", 1)
      ELSE lit

(* Split: bash's algorithm.  Find the first "{" that has a closing brace; what is between
   them is a comma list if it contains an unescaped comma, else a sequence term (or
   literal); the rest of the word is treated the same way. *)
RECURSIVE SplitQ(_, _), Pieces(_, _, _)
SplitQ(q, t) ==
  LET i == FindOpen(q, t, 1) IN
  IF i = 0 THEN (IF t = <<>> THEN <<>> ELSE <<Lit(t)>>)
  ELSE
    LET j    == CloseOf(q, t, i)
        pre  == SubSeq(t, 1, i - 1)
        am   == SubSeq(t, i + 1, j - 1)
        post == SubSeq(t, j + 1, Len(t))
        node == IF HasComma(am, 1) THEN AltItem(Pieces(q, am, 1)) ELSE SeqTerm(am)
    IN (IF pre = <<>> THEN <<>> ELSE <<Lit(pre)>>) \o <<node>> \o SplitQ(q, post)
\* the alternatives: cut at the top-level commas, each piece split recursively
Pieces(q, a, st) ==
  LET i == Scan(q, a, st, ",", 0, 1) IN
  IF i = 0 THEN << SplitQ(q, SubSeq(a, st, Len(a))) >>
  ELSE << SplitQ(q, SubSeq(a, st, i - 1)) >> \o Pieces(q, a, i + 1)
Split(t) == SplitQ(FALSE, t)
\* Dev_FirstCloseWins (q = TRUE): in mvdan/sh the first unnested "}" closes the brace; in bash a "}"
\* that comes before any top-level "," or ".." does not, it is ordinary text of the list
\* (bash: a{},b} -> a} ab;  {a},b} -> a} b;  mvdan/sh leaves both words unchanged).

\* Dev_ParamBoundBeforeBraces: mvdan/sh parses the word first, so every $-expansion is delimited
\* in the original text; bash expands braces on the text first and parses the results
\* (bash: {,$}1 -> 1 P ($1);  $a{b,c} -> $ab $ac;  $${,} is not a brace expansion).
\* Pre(w) marks the boundaries: "SEP" (zero width) ends a $name / $digit / $$ / $-, and a "$" that
\* is literal in the original word becomes the ordinary character "DOLLAR".
RECURSIVE NameEnd0(_, _)
NameEnd0(u, i) == IF i <= Len(u) /\ (IsLetter(u[i]) \/ IsDig(u[i]) \/ u[i] = "_") THEN NameEnd0(u, i + 1) ELSE i - 1
RECURSIVE Pre(_)
Pre(u) ==
  IF u = <<>> THEN <<>>
  ELSE LET c == u[1] IN
    IF c = "\\" THEN (IF Len(u) = 1 THEN u ELSE SubSeq(u, 1, 2) \o Pre(SubSeq(u, 3, Len(u))))
    ELSE IF c = "$" THEN
      LET d == At(u, 2) IN
      IF IsLetter(d) \/ d = "_" THEN
        LET e == NameEnd0(u, 2) IN SubSeq(u, 1, e) \o <<"SEP">> \o Pre(SubSeq(u, e + 1, Len(u)))
      ELSE IF IsDig(d) \/ d \in {"$", "-"} THEN SubSeq(u, 1, 2) \o <<"SEP">> \o Pre(SubSeq(u, 3, Len(u)))
      ELSE IF d = "{" THEN <<c>> \o Pre(Tail(u))
      ELSE <<"DOLLAR">> \o Pre(Tail(u))
    ELSE <<c>> \o Pre(Tail(u))
RECURSIVE Strip(_)
Strip(u) == IF u = <<>> THEN <<>>
            ELSE (CASE u[1] = "SEP" -> <<>> [] u[1] = "DOLLAR" -> <<"$">> [] u[1] = "BSLASH" -> <<"\\">>
               [] u[1] = "BTICK" -> <<"`">> [] OTHER -> <<u[1]>>) \o Strip(Tail(u))

RECURSIVE Printed(_), JoinAlts(_)
Printed(items) ==
  IF items = <<>> THEN <<>>
  ELSE LET n == Head(items) IN
    (CASE n.k = "lit" -> n.s
       [] n.k = "seq" -> <<"{">> \o n.s \o <<"}">>
       [] n.k = "alt" -> <<"{">> \o JoinAlts(n.alts) \o <<"}">>) \o Printed(Tail(items))
JoinAlts(alts) ==
  IF Len(alts) = 1 THEN Printed(alts[1])
  ELSE Printed(alts[1]) \o <<",">> \o JoinAlts(Tail(alts))

\* Dev_PrinterDropsBraceExp: syntax.Printer has no case for *BraceExp and prints nothing for it
RECURSIVE PrintedDropping(_)
PrintedDropping(items) ==
  IF items = <<>> THEN <<>>
  ELSE (IF Head(items).k = "lit" THEN Head(items).s ELSE <<>>) \o PrintedDropping(Tail(items))

\* a lone backslash ends the word (outside the property: nothing follows to be escaped)
RECURSIVE TrailBs(_, _)
TrailBs(t, i) == IF i > Len(t) THEN FALSE ELSE IF t[i] = "\\" THEN (i = Len(t) \/ TrailBs(t, i + 2)) ELSE TrailBs(t, i + 1)

RECURSIVE AnyBrace(_)
AnyBrace(items) == items # <<>> /\ (Head(items).k # "lit" \/ AnyBrace(Tail(items)))
\* Dev_SplitTrueOnAnyBraceChar: SplitBraces returns true whenever a literal contains "{"
HasBraceChar(t) == \E i \in 1..Len(t) : t[i] = "{"

SeqN(n) == (Abs(n.b - n.a) \div n.inc) + 1
SatMul(x, y) == IF x * y > 2 * Limit THEN 2 * Limit ELSE x * y     \* saturating (x, y <= 2*Limit)
SatAdd(x, y) == IF x + y > 2 * Limit THEN 2 * Limit ELSE x + y
RECURSIVE Count(_), CountAlts(_)
Count(items) ==
  IF items = <<>> THEN 1
  ELSE LET n == Head(items)
           c == CASE n.k = "lit" -> 1
                  [] n.k = "seq" -> (IF SeqN(n) > 2 * Limit THEN 2 * Limit ELSE SeqN(n))
                  [] n.k = "alt" -> CountAlts(n.alts)
       IN SatMul(c, Count(Tail(items)))
CountAlts(alts) == IF alts = <<>> THEN 0 ELSE SatAdd(Count(Head(alts)), CountAlts(Tail(alts)))

Prod(A, B) ==
  LET lb == Len(B) IN
  [x \in 1..(Len(A) * lb) |-> A[((x - 1) \div lb) + 1] \o B[((x - 1) % lb) + 1]]
Chr(n) == IF n >= 32 /\ n <= 126 THEN AsciiPrintable[n - 31] ELSE "NUL"
\* A letter sequence can pass through the backslash and the backquote ({Z..a}).  They are marked as
\* produced by a sequence: bash reads its results again, so the backslash quotes what follows and
\* the backquote opens a command substitution; Dev_SeqCharsNotReparsed: in mvdan/sh both are
\* ordinary characters.
SeqChr(v) == IF v = 92 THEN "BSLASH" ELSE IF v = 96 THEN "BTICK" ELSE Chr(v)
SeqMat(n) ==
  LET dir == IF n.a <= n.b THEN 1 ELSE 0 - 1 IN
  [x \in 1..SeqN(n) |->
     LET v == n.a + dir * n.inc * (x - 1) IN
     CASE n.ty = "int"  -> IntText(v)
       [] n.ty = "zint" -> PadText(v, n.wd)
       [] n.ty = "chr"  -> <<SeqChr(v)>>]
RECURSIVE Mat(_), MatAlts(_)
Mat(items) ==
  IF items = <<>> THEN << <<>> >>
  ELSE LET n == Head(items)
           m == CASE n.k = "lit" -> << n.s >>
                  [] n.k = "seq" -> SeqMat(n)
                  [] n.k = "alt" -> MatAlts(n.alts)
       IN Prod(m, Mat(Tail(items)))
MatAlts(alts) == IF alts = <<>> THEN <<>> ELSE Mat(Head(alts)) \o MatAlts(Tail(alts))

HasBrace(t) == AnyBrace(Split(t))
Expand(t)   == Mat(Split(t))

(* ------------------------------------------------------------------ what the shell shows
   Fin(u): the text of one expanded word after the remaining expansions, with a=A b=B,
   $1=P $2=Q, every other name unset.  obs = FALSE when the word uses something whose
   value is not fixed by this module ($0 $$ $- ${...} other than ${name}, a lone trailing
   backslash). *)
NameChar(c) == IsLetter(c) \/ IsDig(c) \/ c = "_"
RECURSIVE NameEnd(_, _)
NameEnd(u, i) == IF i <= Len(u) /\ NameChar(u[i]) THEN NameEnd(u, i + 1) ELSE i - 1
VarVal(name) == IF name = <<"a">> THEN <<"A">> ELSE IF name = <<"b">> THEN <<"B">>
                ELSE IF name = <<"1">> THEN <<"P">> ELSE IF name = <<"2">> THEN <<"Q">> ELSE <<>>
Real(c) == CASE c = "DOLLAR" -> "$" [] c = "BSLASH" -> "\\" [] c = "BTICK" -> "`" [] OTHER -> c
RECURSIVE Fin(_, _)
Fin(L, u) ==
  IF u = <<>> THEN [obs |-> TRUE, s |-> <<>>]
  ELSE LET c == u[1] IN
    IF c = "\\" \/ (c = "BSLASH" /\ ~L) THEN
      IF Len(u) = 1 THEN [obs |-> FALSE, s |-> <<>>]
      ELSE LET r == Fin(L, SubSeq(u, 3, Len(u))) IN [obs |-> r.obs, s |-> <<Real(u[2])>> \o r.s]
    ELSE IF c = "$" THEN
      LET d == At(u, 2) IN
      IF IsLetter(d) \/ d = "_" THEN
        LET e == NameEnd(u, 2)
            r == Fin(L, SubSeq(u, e + 1, Len(u))) IN
        [obs |-> r.obs, s |-> VarVal(SubSeq(u, 2, e)) \o r.s]
      ELSE IF d \in {"1", "2"} THEN
        LET r == Fin(L, SubSeq(u, 3, Len(u))) IN [obs |-> r.obs, s |-> VarVal(<<d>>) \o r.s]
      ELSE IF IsDig(d) \/ d \in {"-", "$"} THEN [obs |-> FALSE, s |-> <<>>]
      ELSE IF d = "{" THEN
        LET e == NameEnd(u, 3) IN
        IF e >= 3 /\ At(u, e + 1) = "}" /\ (IsLetter(u[3]) \/ u[3] = "_" \/ (e = 3 /\ u[3] \in {"1", "2"}))
        THEN LET r == Fin(L, SubSeq(u, e + 2, Len(u))) IN
             [obs |-> r.obs, s |-> VarVal(SubSeq(u, 3, e)) \o r.s]
        ELSE [obs |-> FALSE, s |-> <<>>]
      ELSE LET r == Fin(L, Tail(u)) IN [obs |-> r.obs, s |-> <<"$">> \o r.s]
    ELSE IF c = "SEP" THEN Fin(L, Tail(u))
    ELSE IF c = "BTICK" /\ ~L THEN [obs |-> FALSE, s |-> <<>>]     \* opens a command substitution
    ELSE LET r == Fin(L, Tail(u)) IN
         [obs |-> r.obs, s |-> <<Real(c)>> \o r.s]

\* the fields printf receives: empty unquoted results vanish
RECURSIVE FinList(_, _)
\* keep = the same list with the empty ones kept (used by Dev_EmptyBraceWordKept: mvdan/sh keeps
\* some of the empty words a brace expansion produces as empty fields)
FinList(L, ws) ==
  IF ws = <<>> THEN [obs |-> TRUE, l |-> <<>>, keep |-> <<>>]
  ELSE LET f == Fin(L, Head(ws))
           r == FinList(L, Tail(ws)) IN
       [obs |-> f.obs /\ r.obs, l |-> (IF f.s = <<>> THEN <<>> ELSE <<f.s>>) \o r.l, keep |-> <<f.s>> \o r.keep]

(* ------------------------------------------------------------------ builder *)
Init == w = <<>>
\* States are the words shorter than MaxLen; every state also evaluates (laws + vector) each of
\* its one-symbol extensions, so all words up to MaxLen are covered with 1/|Alphabet| of the
\* per-state overhead of TLC.
Next == /\ Len(w) < MaxLen - 1
        /\ \E i \in 1..Len(Alphabet) : w' = Append(w, Alphabet[i])
Spec == Init /\ [][Next]_vars

(* ------------------------------------------------------------------ laws (TLC invariants)
   All laws are evaluated on one shared Split/Mat of the state (TLC does not cache). *)
Laws(w0, t, n, big, ex) ==
  LET has == AnyBrace(t) IN
  \* PrintLaw: printing the split word gives back the text
  /\ Printed(t) = w0
  \* SelfLaw: a word without a brace expansion expands to itself; with one, every result is
  \* strictly shorter than the word
  /\ (IF has THEN big \/ \A i \in 1..Len(ex) : Len(ex[i]) < Len(w0) ELSE ex = <<w0>>)
  \* NoBraceCharLaw
  /\ ((~HasBraceChar(w0)) => ~has)
  \* CountLaw: never empty; Count agrees with the materialised list
  /\ n >= 1 /\ (big \/ Len(ex) = n)
  \* DropLaw: the deviation operator drops something exactly when there is a brace expansion
  /\ ((PrintedDropping(t) = w0) <=> ~has)
  \* SuffixLaw: appending an ordinary character appends it to every result
  /\ ((w0 # <<>> /\ w0[Len(w0)] \in {"a", "b"}) =>
        LET t0 == Split(SubSeq(w0, 1, Len(w0) - 1)) IN
        Count(t0) = n /\ (big \/ LET m0 == Mat(t0) IN ex = [i \in 1..Len(m0) |-> Append(Strip(m0[i]), w0[Len(w0)])]))

\* everything the binding compares, for one way of splitting the word
Out(L, t) ==
  LET n == Count(t)
      big == n > Cap
      ex == IF big THEN <<>> ELSE Mat(t)
      f == IF big THEN [obs |-> FALSE, l |-> <<>>, keep |-> <<>>] ELSE FinList(L, ex)
  IN [has |-> AnyBrace(t), count |-> n, big |-> big, exp |-> [i \in 1..Len(ex) |-> Strip(ex[i])],
      obs |-> f.obs, fin |-> f.l, finkeep |-> f.keep]

\* the vector of one word; the laws are asserted while building it
Vec(w0) ==
  IF ~InModel(w0) THEN [w |-> w0, inmodel |-> FALSE]
  ELSE
  LET t == Split(w0)
      o == Out(FALSE, t)
      pw == Pre(w0)
      o1 == Out(FALSE, SplitQ(TRUE, w0))
      o2 == IF pw = w0 THEN o ELSE Out(FALSE, SplitQ(FALSE, pw))
      o3 == IF pw = w0 THEN o1 ELSE Out(FALSE, SplitQ(TRUE, pw))
      \* without a "{" every way of splitting gives the same single literal
      devs == IF ~HasBraceChar(w0) THEN <<>> ELSE
              (IF o1 = o THEN <<>> ELSE <<[name |-> "Dev_FirstCloseWins"] @@ o1>>)
              \o (IF o2 = o THEN <<>> ELSE <<[name |-> "Dev_ParamBoundBeforeBraces"] @@ o2>>)
              \o (IF o3 = o \/ o3 = o1 \/ o3 = o2 THEN <<>>
                  ELSE <<[name |-> "Dev_FirstCloseWins+Dev_ParamBoundBeforeBraces"] @@ o3>>)
              \o (LET o4 == Out(TRUE, t) IN IF o4 = o THEN <<>> ELSE <<[name |-> "Dev_SeqCharsNotReparsed"] @@ o4>>)
  IN IF Laws(w0, t, o.count, o.big, o.exp)
     THEN [w |-> w0, inmodel |-> TRUE, hasch |-> HasBraceChar(w0), trail |-> TrailBs(w0, 1),
           printed |-> Printed(t), dropped |-> PrintedDropping(t), devs |-> devs] @@ o
     ELSE [w |-> w0, lawbroken |-> TRUE]

MenuWords == <<
  <<"{", "1", ".", ".", "1", "6", "3", "8", "4", "}">>,
  <<"{", "1", ".", ".", "1", "6", "3", "8", "5", "}">>,
  <<"{", "0", ".", ".", "1", "6", "3", "8", "4", "}">>,
  <<"{", "1", ".", ".", "1", "2", "8", "}", "{", "1", ".", ".", "1", "2", "8", "}">>,
  <<"{", "1", ".", ".", "1", "2", "8", "}", "{", "0", ".", ".", "1", "2", "8", "}">>,
  <<"{", "a", ",", "b", "}", "{", "1", ".", ".", "8", "1", "9", "2", "}">>,
  <<"{", "a", ",", "b", "}", "{", "0", ".", ".", "8", "1", "9", "2", "}">>,
  <<"{", "{", "1", ".", ".", "9", "0", "0", "0", "}", ",", "{", "1", ".", ".", "9", "0", "0", "0", "}", "}">>,
  <<"{", "1", ".", ".", "2", "0", "0", "0", "0", ".", ".", "2", "}">>,
  <<"{", "1", ".", ".", "4", "0", "0", "0", "0", ".", ".", "2", "}">>,
  <<"{", "-", "8", "1", "9", "2", ".", ".", "8", "1", "9", "2", "}">>,
  <<"{", "-", "8", "1", "9", "1", ".", ".", "8", "1", "9", "2", "}">>,
  <<"{", "1", ".", ".", "1", "0", "0", "}", "{", "1", ".", ".", "1", "0", "0", "}", "{", "1", ".", ".", "1", "0", "0", "}">>,
  <<"{", "X", ".", ".", "c", "}">>,
  <<"{", "c", ".", ".", "X", "}">>,
  <<"{", "a", ".", ".", "Z", "}">>,
  <<"{", "Z", ".", ".", "a", ".", ".", "3", "}">>,
  <<"{", "A", ".", ".", "z", ".", ".", "1", "0", "}">>,
  <<"{", "a", ".", ".", "z", "}">>,
  <<"{", "a", ".", ".", "z", ".", ".", "-", "2", "}">>,
  <<"{", "z", ".", ".", "a", ".", ".", "0", "}">>,
  <<"{", "a", ".", ".", "a", "}">>,
  <<"{", "b", ".", ".", "a", ".", ".", "5", "}">>,
  <<"{", "+", "1", ".", ".", "3", "}">>,
  <<"{", "1", ".", ".", "+", "3", "}">>,
  <<"{", "+", "1", ".", ".", "+", "3", ".", ".", "+", "2", "}">>,
  <<"{", "-", "1", ".", ".", "+", "1", "}">>,
  <<"{", "+", "0", "1", ".", ".", "3", "}">>,
  <<"{", "1", ".", ".", "3", ".", ".", "+", "0", "}">>,
  <<"{", "+", "-", "1", ".", ".", "3", "}">>,
  <<"{", "1", ".", ".", "3", ".", ".", "-", "-", "1", "}">>,
  <<"{", "0", "1", ".", ".", "1", "0", "}">>,
  <<"{", "1", ".", ".", "0", "1", "0", "}">>,
  <<"{", "-", "0", "5", ".", ".", "5", ".", ".", "5", "}">>,
  <<"{", "-", "0", "1", ".", ".", "1", "}">>,
  <<"{", "0", "0", "1", ".", ".", "-", "1", "}">>,
  <<"{", "0", ".", ".", "0", "0", "}">>,
  <<"{", "0", "0", ".", ".", "0", "}">>,
  <<"{", "-", "0", ".", ".", "1", "}">>,
  <<"{", "-", "0", "0", ".", ".", "1", "}">>,
  <<"{", "1", "0", ".", ".", "0", "8", "}">>,
  <<"{", "0", "0", "8", ".", ".", "1", "0", ".", ".", "1", "}">>,
  <<"{", "-", "1", ".", ".", "-", "0", "1", "0", ".", ".", "3", "}">>,
  <<"{", "0", "9", "9", ".", ".", "1", "0", "1", "}">>,
  <<"{", "-", "9", ".", ".", "0", "1", "0", "}">>,
  <<"{", "1", ".", ".", "1", "0", ".", ".", "3", "}">>,
  <<"{", "1", "0", ".", ".", "1", ".", ".", "3", "}">>,
  <<"{", "1", ".", ".", "1", "0", ".", ".", "-", "3", "}">>,
  <<"{", "1", "0", ".", ".", "1", ".", ".", "-", "3", "}">>,
  <<"{", "1", ".", ".", "2", ".", ".", "3", ".", ".", "4", "}">>,
  <<"{", "1", ".", "5", ".", ".", "2", "}">>,
  <<"{", "1", ".", ".", "a", "}">>,
  <<"{", "a", ".", ".", "1", "}">>,
  <<"{", "a", "a", ".", ".", "b", "}">>,
  <<"{", "a", ".", ".", "b", "b", "}">>,
  <<"{", "1", ".", ".", "2", ".", ".", "a", "}">>,
  <<"{", "a", ".", ".", "b", ".", ".", "c", "}">>,
  <<"{", ".", ".", "}">>,
  <<"{", "1", ".", ".", "}">>,
  <<"{", ".", ".", "1", "}">>,
  <<"{", "1", ".", ".", ".", "3", "}">>,
  <<"{", "1", ".", ".", "3", ".", ".", "}">>,
  <<"{", "1", ".", ".", "3", ".", ".", ".", "2", "}">>,
  <<"{", "a", ",", "b", "}", "{", "c", ",", "d", "}">>,
  <<"{", "a", ",", "b", "}", "{", "c", ",", "d", "}", "{", "e", ",", "f", "}">>,
  <<"{", "{", "a", ",", "b", "}", ",", "{", "c", ",", "d", "}", "}">>,
  <<"{", "a", ",", "{", "b", ",", "c", "}", ",", "d", "}">>,
  <<"a", "{", "b", ",", "{", "c", ",", "d", "}", "e", "}", "f">>,
  <<"{", "a", ",", "b", "}", "{", "1", ".", ".", "3", "}">>,
  <<"{", "1", ".", ".", "3", "}", "{", "a", ",", "b", "}">>,
  <<"{", "a", ".", ".", "c", "}", "{", "1", ".", ".", "2", "}">>,
  <<"{", "{", "1", ".", ".", "3", "}", ",", "{", "a", ".", ".", "c", "}", "}">>,
  <<"{", "a", ",", "b", "{", "1", ".", ".", "2", "}", "c", ",", "d", "}">>,
  <<"x", "{", "}", "a", ",", "b", "}">>,
  <<"{", "}", "{", "a", ",", "b", "}">>,
  <<"{", "a", ",", "b", "}", "{", "}">>,
  <<"{", "{", "}", ",", "a", "}">>,
  <<"{", "a", "}", "{", "b", ",", "c", "}">>,
  <<"{", "a", "}", ",", "b", "}">>,
  <<"a", "{", "b", "}", "c", ",", "d", "}">>,
  <<"{", "a", "{", "b", "}", ",", "c", "}">>,
  <<"{", "{", "a", "}", ",", "b", "}">>,
  <<"{", "a", ",", "b", "}", "}">>,
  <<"{", "{", "a", ",", "b", "}">>,
  <<"{", "a", ",", "b">>,
  <<"{", "a", ",", "b", "}", "{">>,
  <<"}", "{", "a", ",", "b", "}", "{">>,
  <<"{", "a", "\\", ",", "b", ",", "c", "}">>,
  <<"\\", "{", "a", ",", "b", "}">>,
  <<"{", "a", ",", "b", "\\", "}">>,
  <<"{", "a", ",", "b", "}", "\\", "}">>,
  <<"{", "a", "\\", ".", ".", "c", "}">>,
  <<"{", "1", "\\", ".", ".", "3", "}">>,
  <<"{", "\\", "1", ".", ".", "3", "}">>,
  <<"\\", "{", "1", ".", ".", "3", "}">>,
  <<"{", "a", ",", "\\", "{", "b", ",", "c", "}">>,
  <<"{", "a", ",", "b", "\\", "\\", "}">>,
  <<"{", "1", ".", ".", "2", ",", "3", "}">>,
  <<"{", "1", ",", "2", ".", ".", "3", "}">>,
  <<"{", "1", ".", ".", "2", "}", ".", ".", "{", "3", ",", "4", "}">>,
  <<"{", ",", "}">>,
  <<"{", ",", ",", "}">>,
  <<"x", "{", ",", "}", "y">>,
  <<"{", "a", ",", "}">>,
  <<"{", ",", "a", "}">>,
  <<"{", ",", "}", "{", ",", "}">>,
  <<"{", ",", "{", ",", "}", "}">>,
  <<"$", "{", "a", ",", "b", "}">>,
  <<"$", "a", "{", "b", ",", "c", "}">>,
  <<"{", "$", "a", ",", "b", "}">>,
  <<"{", "a", ",", "$", "b", "}", "c">>,
  <<"{", ",", "$", "}", "1">>,
  <<"{", "$", ",", "}", "a">>,
  <<"$", "$", "{", ",", "}">>,
  <<"$", "{", "a", "}", "{", "b", ",", "c", "}">>,
  <<"{", "a", ",", "b", "}", "$", "{", "b", "}">>,
  <<"{", "$", "{", "a", "}", ",", "x", "}">>,
  <<"$", "1", "{", "$", "2", ",", "x", "}">>,
  <<"{", "a", ",", "b", "}", "$">>,
  <<"{", "$", "}">>,
  <<"{", "$", "a", ".", ".", "$", "b", "}">>,
  <<"{", "0", ".", ".", "2", "2", "2", "2", "2", "2", "2", "2", "2", "}">>,
  <<"{", "0", ".", ".", "2", "2", "2", "2", "2", "2", "2", "2", "2", ".", ".", "1", "1", "1", "1", "1", "1", "1", "1", "1", "}">>,
  <<"{", "-", "2", "2", "2", "2", "2", "2", "2", "2", "2", ".", ".", "2", "2", "2", "2", "2", "2", "2", "2", "2", ".", ".", "2", "2", "2", "2", "2", "2", "2", "2", "2", "}">>,
  <<"{", "1", ".", ".", "1", "2", "3", "4", "5", "6", "7", "8", "9", "0", "}">> >>

(* ------------------------------------------------------------------ menus
   MenuWords: fixed words outside the builder's alphabet/length (limit clause, letters beyond
   a b, "+" signs, padding widths, nesting, escapes, $-forms); they go through the same Vec.

   Symbolic templates: sequences whose ends lie next to the int64 limits.  TLC integers are
   32-bit, so such a number is the pair [base, off] = Min+off | off | Max+off with a small off;
   the binding renders it in decimal.  The rule is the same mathematical sequence as above:
   from a towards b in steps of |inc|, never past b, *no wrap-around*; a number outside int64
   is not a number (the braces stay literal), and bash rejects the increment Min. *)
Sym(base, off) == [base |-> base, off |-> off]
SymValid(x) == x.base = "zero" \/ (x.base = "max" /\ x.off <= 0) \/ (x.base = "min" /\ x.off >= 0)
Tmpl(pre, a, b, inc, post) == [pre |-> pre, a |-> a, b |-> b, inc |-> inc, post |-> post]
NoInc == Sym("none", 0)
SymTemplates == <<
  Tmpl(<<>>, Sym("max", -1), Sym("max", 0), NoInc, <<>>),
  Tmpl(<<>>, Sym("max", 0), Sym("max", -2), NoInc, <<>>),
  Tmpl(<<>>, Sym("min", 0), Sym("min", 1), NoInc, <<>>),
  Tmpl(<<>>, Sym("min", 2), Sym("min", 0), NoInc, <<>>),
  Tmpl(<<>>, Sym("max", -3), Sym("max", 0), Sym("zero", 2), <<>>),
  Tmpl(<<>>, Sym("max", -2), Sym("max", 0), Sym("zero", 2), <<>>),
  Tmpl(<<>>, Sym("min", 3), Sym("min", 0), Sym("zero", 2), <<>>),
  Tmpl(<<>>, Sym("min", 3), Sym("min", 0), Sym("zero", -3), <<>>),
  Tmpl(<<>>, Sym("max", -1), Sym("max", 0), Sym("max", 0), <<>>),
  Tmpl(<<>>, Sym("zero", 0), Sym("zero", 1), Sym("max", 0), <<>>),
  Tmpl(<<>>, Sym("zero", 5), Sym("zero", 1), Sym("min", 1), <<>>),
  Tmpl(<<>>, Sym("zero", 1), Sym("max", 1), NoInc, <<>>),
  Tmpl(<<>>, Sym("min", -1), Sym("zero", 0), NoInc, <<>>),
  Tmpl(<<>>, Sym("zero", 1), Sym("zero", 3), Sym("max", 1), <<>>),
  Tmpl(<<>>, Sym("zero", 1), Sym("zero", 3), Sym("min", 0), <<>>),
  Tmpl(<<>>, Sym("zero", 3), Sym("zero", 1), Sym("min", 0), <<>>),
  Tmpl(<<"a">>, Sym("max", -1), Sym("max", 0), NoInc, <<"b">>),
  Tmpl(<<"x">>, Sym("max", -1), Sym("max", 0), NoInc, <<"{", "a", ",", "b", "}">>),
  Tmpl(<<"{", "a", ",", "b", "}">>, Sym("min", 1), Sym("min", 0), NoInc, <<>>),
  Tmpl(<<>>, Sym("max", -40), Sym("max", 0), Sym("zero", 7), <<"{", "1", ".", ".", "2", "}">>),
  Tmpl(<<>>, Sym("max", 0), Sym("max", 0), NoInc, <<>>),
  Tmpl(<<>>, Sym("min", 0), Sym("min", 0), Sym("zero", 0), <<>>) >>

SymLess(x, y) ==
  LET r(b) == IF b = "min" THEN 0 ELSE IF b = "zero" THEN 1 ELSE 2 IN
  r(x.base) < r(y.base) \/ (x.base = y.base /\ x.off < y.off)
\* the numbers of the sequence, or <<>> when the braces stay literal;  scope = FALSE when the ends
\* are so far apart that bash refuses for memory reasons (not modelled)
SymSeq(a, b, inc) ==
  LET hasInc == inc.base # "none"
      okNums == SymValid(a) /\ SymValid(b) /\ (hasInc => SymValid(inc))
      incMin == hasInc /\ inc.base = "min" /\ inc.off = 0
      hugeInc == hasInc /\ inc.base # "zero"
      step == IF ~hasInc \/ hugeInc \/ inc.off = 0 THEN 1 ELSE Abs(inc.off)
  IN IF ~okNums THEN [scope |-> TRUE, nums |-> <<>>]
     ELSE IF incMin /\ SymLess(a, b) THEN [scope |-> TRUE, nums |-> <<>>]
     ELSE IF a.base # b.base THEN [scope |-> FALSE, nums |-> <<>>]
     ELSE IF hugeInc THEN [scope |-> TRUE, nums |-> <<a>>]
     ELSE LET d == Abs(b.off - a.off)
              dir == IF a.off <= b.off THEN 1 ELSE 0 - 1
          IN [scope |-> TRUE, nums |-> [k \in 1..((d \div step) + 1) |-> Sym(a.base, a.off + dir * step * (k - 1))]]
\* a template word / result is a sequence of tokens: 1-char strings and symbolic numbers
SymWord(t) == t.pre \o <<"{", t.a, ".", ".", t.b>>
              \o (IF t.inc.base = "none" THEN <<>> ELSE <<".", ".", t.inc>>) \o <<"}">> \o t.post
SymVec(t) ==
  LET sq == SymSeq(t.a, t.b, t.inc)
      pres == Mat(Split(t.pre))
      posts == Mat(Split(t.post))
      mid == IF sq.nums = <<>>
             THEN << <<"{", t.a, ".", ".", t.b>> \o (IF t.inc.base = "none" THEN <<>> ELSE <<".", ".", t.inc>>) \o <<"}">> >>
             ELSE [k \in 1..Len(sq.nums) |-> <<sq.nums[k]>>]
      n == Len(sq.nums)
      \* the number after the last one would lie outside int64 (where a careless loop wraps around)
      wraprisk == \/ (t.inc.base \notin {"none", "zero"})
                  \/ (n > 0 /\ LET st == IF t.inc.base = "none" \/ t.inc.off = 0 THEN 1 ELSE Abs(t.inc.off)
                                    dir == IF t.a.off <= t.b.off THEN 1 ELSE 0 - 1
                                IN ~SymValid(Sym(sq.nums[n].base, sq.nums[n].off + dir * st)))
  IN [word |-> SymWord(t), scope |-> sq.scope, literal |-> sq.nums = <<>>, wraprisk |-> wraprisk,
      exp |-> Prod(Prod(pres, mid), posts),
      \* laws: every number is a valid int64, the first is a, none lies beyond b
      lawok |-> \A k \in 1..Len(sq.nums) :
                  /\ SymValid(sq.nums[k])
                  /\ (k = 1 => sq.nums[k] = t.a)
                  /\ ~(SymLess(t.a, t.b) /\ SymLess(t.b, sq.nums[k]))
                  /\ ~(SymLess(t.b, t.a) /\ SymLess(sq.nums[k], t.b))]
SymVecs == [i \in 1..Len(SymTemplates) |-> SymVec(SymTemplates[i])]
MenuVecs == [i \in 1..Len(MenuWords) |-> [menu |-> TRUE] @@ Vec(MenuWords[i])]

(* Sequence menu: every {x..y} and {x..y..z} with x, y from SeqEnds and z from SeqIncs, bare and
   inside x_y; the product is enumerated by TLC and spread over the states of length 1. *)
SeqEnds == << <<"0">>, <<"1">>, <<"2">>, <<"3">>, <<"0", "0">>, <<"0", "1">>, <<"0", "3">>, <<"1", "0">>, <<"-", "1">>, <<"-", "0">>, <<"-", "0", "0">>, <<"-", "0", "1">>, <<"-", "3">>, <<"a">>, <<"b">>, <<"c">>, <<"Z">>, <<>>, <<"1", "a">>, <<"a", "a">>, <<"-">> >>
SeqIncs == << <<"0">>, <<"1">>, <<"2">>, <<"-", "1">>, <<"-", "2">>, <<"3">>, <<"0", "2">>, <<"-", "0">>, <<"a">>, <<>>, <<"1", ".">> >>
SeqWordsN == Len(SeqEnds) * Len(SeqEnds) * (Len(SeqIncs) + 1) * 2
SeqWord(i) ==
  LET ne == Len(SeqEnds)
      ni == Len(SeqIncs) + 1
      k0 == i - 1
      ctx == k0 % 2
      k1 == k0 \div 2
      z == k1 % ni
      k2 == k1 \div ni
      y == SeqEnds[(k2 % ne) + 1]
      x == SeqEnds[(k2 \div ne) + 1]
      body == <<"{">> \o x \o <<".", ".">> \o y \o (IF z = 0 THEN <<>> ELSE <<".", ".">> \o SeqIncs[z]) \o <<"}">>
  IN IF ctx = 0 THEN body ELSE <<"x">> \o body \o <<"y">>
\* the share of the state whose word is the k-th symbol alone
SeqSlice(k, n) ==
  LET r == IF k % n = 0 THEN n ELSE k % n
      cnt == IF r > SeqWordsN THEN 0 ELSE ((SeqWordsN - r) \div n) + 1
  IN [j \in 1..cnt |-> [menu |-> TRUE] @@ Vec(SeqWord(r + (j - 1) * n))]

Children == [i \in 1..Len(Alphabet) |-> Vec(Append(w, Alphabet[i]))]
Batch == IF w = <<>> THEN <<Vec(w)>> \o Children \o (IF Menus THEN MenuVecs ELSE <<>>)
         ELSE IF Menus /\ Len(w) = 1
              THEN Children \o SeqSlice(CHOOSE k \in 1..Len(Alphabet) : Alphabet[k] = w[1], Len(Alphabet))
              ELSE Children
\* invariant: every law holds on every word of the batch; the batch is emitted as one line
CheckAndEmit ==
  LET b == Batch IN
  /\ \A i \in 1..Len(b) : "lawbroken" \notin DOMAIN b[i]
  /\ PrintT(<<"VEC", ToJson(b)>>)
  /\ ((w = <<>> /\ Menus) => LET sv == SymVecs IN
                   /\ \A i \in 1..Len(sv) : sv[i].lawok
                   /\ PrintT(<<"SYM", ToJson(sv)>>))
\* the same for simulation: only the current word
CheckAndEmitOne ==
  LET v == Vec(w) IN "lawbroken" \notin DOMAIN v /\ PrintT(<<"VEC", ToJson(<<v>>)>>)
==========================================================================
