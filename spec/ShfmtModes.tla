------------------------------ MODULE ShfmtModes ------------------------------
(* C36: shfmt's list (-l), diff (-d), write (-w) and stdin modes agree.  Style S.

   A directory tree holds up to |Files| files.  Each has a status that says how the
   formatter relates to its bytes -- `Fmt` itself is uninterpreted:
     "fmt"  Fmt(bytes) = bytes               "unf"  Fmt(bytes) # bytes
     "err"  the bytes do not parse           "non"  not a shell file (shfmt must skip it
                                                    when walking, whatever it contains)
     "abs"  no such file
   and a content tag: "orig" (the bytes it started with) or "new" (Fmt of them).
   Commands are whole runs of the tool on the tree (walking it, or naming every shell
   file explicitly) or on one file through stdin; each action states the required
   observable result `out` and the required effect on the tree:
     List       -l      prints exactly the "unf" files; status 1 iff it printed any or a file failed to parse
     Diff       -d      prints a diff exactly for the "unf" files, and applying a file's diff
                        to its bytes gives Fmt(bytes); status as List
     Write      -w      replaces exactly the "unf" files by Fmt(bytes); prints nothing; status 1 iff a parse error
     WriteList  -l -w   the same and prints the replaced files
     Stdin(f)   < f     prints Fmt(bytes of f) (status 0), or fails (status 1) for "err"
   Parse errors are reported on stderr with the file's name and the file is never written.

   TLC explores every command sequence on every tree and checks the agreement statements
   of the property as invariants over (previous command, tree):
     AfterWriteClean, ListDiffAgree, StdinAgrees, ErrNonUntouched, WriteIdempotent, RcRule.
   Every transition is emitted as an EDGE; the driver replays walks over this graph on real
   trees with the real binary, taking every expected value from the EDGE records. *)
EXTENDS Naturals, FiniteSets, Sequences, TLC, Json

CONSTANTS Files           \* file names (slots of the tree)

Status == {"fmt", "unf", "err", "non", "abs"}

VARIABLES st,      \* Files -> Status
          cont,    \* Files -> "orig" | "new"
          init,    \* the statuses the tree started with (constant along a behaviour)
          last     \* the last command and its required observable result
vars == <<st, cont, init, last>>

Unf(s)  == {f \in Files : s[f] = "unf"}
Errs(s) == {f \in Files : s[f] = "err"}
Rc(s)   == IF Unf(s) \cup Errs(s) # {} THEN 1 ELSE 0
None    == [cmd |-> "none", listed |-> {}, diffs |-> {}, written |-> {}, errs |-> {}, rc |-> 0,
            file |-> "", bytes |-> "", pre |-> 0]
\* `pre` = number of unformatted files before the command (for WriteIdempotent)

Init == /\ st \in [Files -> Status]
        /\ cont = [f \in Files |-> "orig"]
        /\ init = st
        /\ last = None

Emit(cmd, out, s2, c2) ==
  PrintT(<<"EDGE", ToJson([from |-> [st |-> st, cont |-> cont], cmd |-> cmd, out |-> out,
                           to |-> [st |-> s2, cont |-> c2]])>>)

List ==
  LET out == [None EXCEPT !.cmd = "L", !.listed = Unf(st), !.errs = Errs(st), !.rc = Rc(st),
                          !.pre = Cardinality(Unf(st))] IN
  /\ last' = out /\ UNCHANGED <<st, cont, init>>
  /\ Emit("L", out, st, cont)

Diff ==
  LET out == [None EXCEPT !.cmd = "D", !.diffs = Unf(st), !.errs = Errs(st), !.rc = Rc(st),
                          !.pre = Cardinality(Unf(st))] IN
  /\ last' = out /\ UNCHANGED <<st, cont, init>>
  /\ Emit("D", out, st, cont)

Written(s) == [f \in Files |-> IF s[f] = "unf" THEN "fmt" ELSE s[f]]
NewCont(s, c) == [f \in Files |-> IF s[f] = "unf" THEN "new" ELSE c[f]]

Write ==
  LET out == [None EXCEPT !.cmd = "W", !.written = Unf(st), !.errs = Errs(st),
                          !.rc = IF Errs(st) # {} THEN 1 ELSE 0, !.pre = Cardinality(Unf(st))] IN
  /\ st' = Written(st) /\ cont' = NewCont(st, cont)
  /\ last' = out /\ UNCHANGED init
  /\ Emit("W", out, Written(st), NewCont(st, cont))

WriteList ==
  LET out == [None EXCEPT !.cmd = "WL", !.written = Unf(st), !.listed = Unf(st), !.errs = Errs(st),
                          !.rc = IF Errs(st) # {} THEN 1 ELSE 0, !.pre = Cardinality(Unf(st))] IN
  /\ st' = Written(st) /\ cont' = NewCont(st, cont)
  /\ last' = out /\ UNCHANGED init
  /\ Emit("WL", out, Written(st), NewCont(st, cont))

\* stdin mode on the bytes of one shell file: "new" = Fmt(original bytes) -- also when the
\* file already holds Fmt(original bytes): formatting is idempotent (the property's
\* "after -w, -l lists nothing" says exactly that Fmt(Fmt(b)) = Fmt(b)).
Stdin(f) ==
  /\ st[f] \in {"fmt", "unf", "err"}
  /\ LET out == [None EXCEPT !.cmd = "S", !.file = f,
                             !.bytes = IF st[f] = "err" THEN "none"
                                       ELSE IF st[f] = "unf" \/ cont[f] = "new" THEN "new" ELSE "orig",
                             !.errs = IF st[f] = "err" THEN {f} ELSE {},
                             !.rc = IF st[f] = "err" THEN 1 ELSE 0,
                             !.pre = Cardinality(Unf(st))] IN
     /\ last' = out /\ UNCHANGED <<st, cont, init>>
     /\ Emit("S", out, st, cont)

Next == List \/ Diff \/ Write \/ WriteList \/ \E f \in Files : Stdin(f)
Spec == Init /\ [][Next]_vars

-----------------------------------------------------------------------------
\* The agreement statements.
AfterWriteClean ==      \* after -w, -l and -d have nothing to report
  last.cmd \in {"W", "WL"} => Unf(st) = {}
ListDiffAgree ==        \* what -l lists / -d diffs / -w writes is the same set, from the same tree
  /\ last.cmd = "L"  => last.listed = Unf(st) /\ last.diffs = {} /\ last.written = {}
  /\ last.cmd = "D"  => last.diffs = Unf(st) /\ last.listed = {} /\ last.written = {}
  /\ last.cmd \in {"W", "WL"} => Cardinality(last.written) = last.pre
RcRule ==
  /\ last.cmd \in {"L", "D"} => (last.rc = 1 <=> (last.listed \cup last.diffs \cup last.errs) # {})
  /\ last.cmd \in {"W", "WL", "S"} => (last.rc = 1 <=> last.errs # {})
StdinAgrees ==          \* stdin prints the file's own bytes iff it started formatted, and what -w leaves in the file
  (last.cmd = "S" /\ last.rc = 0) =>
     /\ (last.bytes = "orig") <=> (init[last.file] = "fmt")
     /\ st[last.file] = "fmt" => last.bytes = cont[last.file]
ErrNonUntouched ==      \* parse errors and non-shell files never change
  \A f \in Files : init[f] \in {"err", "non", "abs", "fmt"} => st[f] = init[f] /\ cont[f] = "orig"
OnlyUnfChanges ==
  \A f \in Files : /\ cont[f] = "new" => init[f] = "unf" /\ st[f] = "fmt"
                   /\ init[f] = "unf" => (st[f] = "unf" /\ cont[f] = "orig") \/ (st[f] = "fmt" /\ cont[f] = "new")
\* a second -w right after a -w writes nothing
WriteIdempotent == [][(last.cmd \in {"W", "WL"} /\ last'.cmd \in {"W", "WL"}) => last'.written = {}]_vars

\* Named deviation (known finding, see known_findings.d/C36.jsonl).  The spec takes Fmt to be
\* idempotent -- the property's "after -w, -l lists nothing" says so.  With the deprecated
\* keep-padding option (-kp / keep_padding) the printer is documented as best-effort ("will only
\* keep the alignment stable, so it may need some human help the first time it is run",
\* syntax/printer.go KeepPadding; mvdan/sh issue 658): Fmt(Fmt(b)) may differ from Fmt(b), so after
\* a rewrite a file may still be "unf".  The driver reports the key Dev_KeepPaddingNotIdempotent
\* only for that flag set and only for commands issued on a tree that already holds rewritten
\* ("new") files; everything else under -kp is checked like any other flag set.
Dev_KeepPaddingNotIdempotent(s, c) == [f \in Files |-> IF c[f] = "new" THEN "unf" ELSE s[f]]

\* self-test: must be violated (a write that changes a file is reachable)
NeverWrites == \A f \in Files : cont[f] = "orig"

Files2 == {"a", "b"}
Files3 == {"a", "b", "c"}
Files4 == {"a", "b", "c", "d"}
=============================================================================
