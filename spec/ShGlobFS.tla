---------------------------- MODULE ShGlobFS ----------------------------
(* C19: pathname expansion matches bash.  Style F.

   The state is one (directory tree, glob word, option set) input: the first step picks a tree,
   the second a word, the third the options.  Every complete state is one vector: the tree
   (materialised by the harness in a scratch directory), the word (rendered here), the options
   and the list of paths bash must print for `printf '%s\n' WORD` (ExpandPath), in the order
   bash prints them (byte order, LC_ALL=C).

   The contract is written from the bash manual (3.5.8 Filename Expansion, 4.3.2 shopt):
   components are matched directory by directory; a leading "." must be matched explicitly
   unless dotglob; "." and ".." are never matched by a pattern; a pattern component that is not
   the last one only matches directories (symbolic links to directories included); "**" with
   globstar matches zero or more directories and, as the last component, all files below; it does
   not descend through symbolic links; a trailing "/" keeps directories only; no match leaves the
   word as it is (quote removal done) unless nullglob; noglob switches all of it off.

   Text is a sequence of one-character strings. *)
EXTENDS Integers, Sequences, FiniteSets, TLC, Json, ShText

CONSTANTS Wide      \* BOOLEAN: all option subsets and the wide tree/word menus

\* ------------------------------------------------------------------ helpers
Drop(s, n) == SubSeq(s, n + 1, Len(s))
Take(s, n) == SubSeq(s, 1, n)
RECURSIVE JoinT(_, _)
JoinT(ts, sep) == IF ts = <<>> THEN <<>> ELSE IF Len(ts) = 1 THEN ts[1] ELSE ts[1] \o sep \o JoinT(Tail(ts), sep)
IsPrefix(p, s) == Len(p) <= Len(s) /\ Take(s, Len(p)) = p
LowerC(c) == IF IsUpper(c) THEN AsciiPrintable[Ord(c) + 1] ELSE c

\* ------------------------------------------------------------------ names and trees
nA == <<"a">>   nB == <<"b">>   nAA == <<"A">>   nDotH == <<".", "h">>   nAc == <<"a", ".", "c">>
nXY == <<"x", " ", "y">>   nStar == <<"s", "*">>   nD == <<"d">>   nLa == <<"l", "a">>   nLf == <<"l", "f">>
nLx == <<"l", "x">>   nAb == <<"a", "b">>   nNowhere == <<"n", "o">>

\* a node: path from the root (sequence of names), kind f(ile) d(ir) l(ink), link target (path from the root)
N(p, k) == [p |-> p, k |-> k, t |-> <<>>]
L(p, t) == [p |-> p, k |-> "l", t |-> t]

Trees ==
  << \* 1: flat files with a dot file, an upper-case name and a name with a dot
     << N(<<nA>>, "f"), N(<<nB>>, "f"), N(<<nAA>>, "f"), N(<<nDotH>>, "f"), N(<<nAc>>, "f") >>,
     \* 2: directories, one of them hidden, dot file inside a directory
     << N(<<nA>>, "d"), N(<<nA, nA>>, "f"), N(<<nA, nB>>, "f"), N(<<nA, nDotH>>, "f"), N(<<nB>>, "f"),
        N(<<nDotH>>, "d"), N(<<nDotH, nA>>, "f"), N(<<nD>>, "d"), N(<<nD, nAA>>, "f") >>,
     \* 3: names with a space and with a metacharacter
     << N(<<nXY>>, "f"), N(<<nStar>>, "f"), N(<<<<"s", "a">>>>, "f"), N(<<nA>>, "f"), N(<<nAb>>, "f") >>,
     \* 4: symbolic links: to a directory, to a file, dangling
     << N(<<nA>>, "d"), N(<<nA, nB>>, "f"), N(<<nB>>, "f"), L(<<nLa>>, <<nA>>), L(<<nLf>>, <<nB>>), L(<<nLx>>, <<nNowhere>>) >>,
     \* 5: three levels
     << N(<<nA>>, "d"), N(<<nA, nB>>, "d"), N(<<nA, nB, nA>>, "f"), N(<<nA, nB, nDotH>>, "f"), N(<<nA, nA>>, "f"), N(<<nB>>, "d") >>,
     \* 6: empty directory
     << >>,
     \* 7: everything of the hand-made probe tree
     << N(<<nA>>, "d"), N(<<nA, nA>>, "f"), N(<<nA, nB>>, "d"), N(<<nA, nB, nA>>, "f"), N(<<nA, nDotH>>, "f"),
        N(<<nDotH>>, "d"), N(<<nDotH, nA>>, "f"), N(<<nD>>, "d"), N(<<nD, nAA>>, "f"), N(<<nB>>, "f"), N(<<nAA>>, "f"),
        N(<<nAc>>, "f"), N(<<nXY>>, "f"), N(<<nStar>>, "f"), L(<<nLa>>, <<nA>>), L(<<nLf>>, <<nB>>), L(<<nLx>>, <<nNowhere>>) >>,
     \* 8: hidden symbolic links: to a file and to a directory, at the top and inside a directory, next to visible ones
     << N(<<nA>>, "d"), N(<<nA, nB>>, "d"), N(<<nD>>, "d"), N(<<nA, <<"f">>>>, "f"), N(<<<<"f">>>>, "f"),
        L(<<<<".", "l", "f">>>>, <<nA, <<"f">>>>), L(<<<<".", "l", "d">>>>, <<nD>>), L(<<nA, <<".", "l", "d">>>>, <<nD>>),
        L(<<nA, <<".", "l">>>>, <<<<"f">>>>), L(<<<<"l">>>>, <<nD>>), L(<<nA, nLf>>, <<<<"f">>>>) >>,
     \* 9: sibling directories where one name is a prefix of the other: "a" sorts before "a.d" as a name,
     \*    but the path "a.d/b" sorts before "a/b" ('.' < '/'), so results must be sorted as whole paths
     << N(<<nA>>, "d"), N(<<nA, nB>>, "f"), N(<<<<"a", ".", "d">>>>, "d"), N(<<<<"a", ".", "d">>, nB>>, "f"),
        N(<<nB>>, "d"), N(<<nB, nB>>, "f") >> >>
  \o (IF ~Wide THEN <<>> ELSE
  << \* 10: only hidden entries
     << N(<<nDotH>>, "f"), N(<<<<".", "a">>>>, "d"), N(<<<<".", "a">>, nB>>, "f") >>,
     \* 11: case variants
     << N(<<nA>>, "f"), N(<<nAA>>, "f"), N(<<nAb>>, "f"), N(<<<<"A", "b">>>>, "f"), N(<<<<"D">>>>, "d"), N(<<<<"D">>, nA>>, "f") >>,
     \* 12: a link to a link to a directory, a link to a file inside the directory
     << N(<<nA>>, "d"), N(<<nA, nB>>, "f"), L(<<nLa>>, <<nA>>), L(<<<<"l", "l">>>>, <<nLa>>), N(<<nD>>, "d"), N(<<nD, nA>>, "d"), N(<<nD, nA, nB>>, "f") >>,
     \* 13: a directory whose name has a space, a file whose name is a pattern
     << N(<<nXY>>, "d"), N(<<nXY, nA>>, "f"), N(<<nStar>>, "f"), N(<<<<"s", "a">>>>, "f"), N(<<<<"[", "a", "b", "]">>>>, "f") >>,
     \* 14: deep
     << N(<<nA>>, "d"), N(<<nA, nA>>, "d"), N(<<nA, nA, nA>>, "d"), N(<<nA, nA, nA, nB>>, "f"), N(<<nB>>, "f"), N(<<nA, nDotH>>, "d"), N(<<nA, nDotH, nA>>, "f") >> >>)

HasNode(t, p) == \E i \in 1..Len(t) : t[i].p = p
NodeAt(t, p) == t[CHOOSE i \in 1..Len(t) : t[i].p = p]
\* what a path is after following a link: "f", "d" or "none"
RECURSIVE Resolve(_, _, _)
Resolve(t, p, fuel) ==
  IF p = <<>> THEN "d"
  ELSE IF ~HasNode(t, p) \/ fuel = 0 THEN "none"
  ELSE LET n == NodeAt(t, p) IN IF n.k = "l" THEN Resolve(t, n.t, fuel - 1) ELSE n.k
IsDir(t, p) == Resolve(t, p, 3) = "d"
\* the real directory behind a path (one link level is enough for the menus)
RECURSIVE RealDirF(_, _, _)
RealDirF(t, p, fuel) == IF fuel > 0 /\ p # <<>> /\ HasNode(t, p) /\ NodeAt(t, p).k = "l" THEN RealDirF(t, NodeAt(t, p).t, fuel - 1) ELSE p
RealDir(t, p) == RealDirF(t, p, 3)
\* names in a directory (given by its real path), in byte order
ChildSet(t, d) == { t[i].p[Len(d) + 1] : i \in { j \in 1..Len(t) : Len(t[j].p) = Len(d) + 1 /\ IsPrefix(d, t[j].p) } }
Children(t, d) == SortTexts(ChildSet(t, d))
IsLink(t, p) == HasNode(t, p) /\ NodeAt(t, p).k = "l"

\* ------------------------------------------------------------------ patterns
PE(k, c, cs, neg, src) == [k |-> k, c |-> c, cs |-> cs, neg |-> neg, src |-> src, alts |-> <<>>]
\* an extended operator ?(..) *(..) +(..) @(..) !(..): c is the operator character, alts the alternatives
PExt(op, alts, src) == [k |-> "ext", c |-> op, cs |-> {}, neg |-> FALSE, src |-> src, alts |-> alts]
PLit(c)   == PE("lit", c, {}, FALSE, <<c>>)
PQ(c, src) == PE("lit", c, {}, FALSE, src)          \* a quoted/escaped character
PStar     == PE("star", "", {}, FALSE, <<"*">>)
PAny      == PE("any", "", {}, FALSE, <<"?">>)
PSet(cs, src)  == PE("set", "", cs, FALSE, src)
PNSet(cs, src) == PE("set", "", cs, TRUE, src)
PGlobStar == PE("globstar", "", {}, FALSE, <<"*", "*">>)   \* a whole component "**"

IsMeta(e) == e.k \in {"star", "any", "set", "globstar", "ext"}
CompHasMeta(c) == \E i \in 1..Len(c) : IsMeta(c[i])
\* has * ? [ somewhere, also inside an extended operator or as its operator character
RECURSIVE ElemHasPlainMeta(_)
ElemHasPlainMeta(e) == e.k \in {"star", "any", "set", "globstar"} \/ (e.k = "ext" /\ (e.c \in {"*", "?"} \/
                         \E k \in 1..Len(e.alts) : \E m \in 1..Len(e.alts[k]) : ElemHasPlainMeta(e.alts[k][m])))
CompHasPlainMeta(c) == \E k \in 1..Len(c) : ElemHasPlainMeta(c[k])
RECURSIVE CompSrc(_)
CompSrc(c) == IF c = <<>> THEN <<>> ELSE Head(c).src \o CompSrc(Tail(c))
RECURSIVE CompLit(_)
CompLit(c) == IF c = <<>> THEN <<>> ELSE (IF Head(c).k = "lit" THEN <<Head(c).c>> ELSE Head(c).src) \o CompLit(Tail(c))

Eq(c1, c2, nocase) == IF nocase THEN LowerC(c1) = LowerC(c2) ELSE c1 = c2
InSet(c, cs, nocase) == \E x \in cs : Eq(c, x, nocase)

RECURSIVE Match(_, _, _)
RECURSIVE ExtMatch(_, _, _, _)
\* u is matched by the group: @ one alternative, ? at most one, + one or more, * any number, ! none of them
ExtMatch(op, alts, u, nocase) ==
  LET one(x) == \E k \in 1..Len(alts) : Match(alts[k], x, nocase) IN
  CASE op = "@" -> one(u)
    [] op = "?" -> u = <<>> \/ one(u)
    [] op = "!" -> ~one(u)
    [] op = "*" -> u = <<>> \/ \E j \in 1..Len(u) : one(Take(u, j)) /\ ExtMatch("*", alts, Drop(u, j), nocase)
    [] op = "+" -> \E j \in 1..Len(u) : one(Take(u, j)) /\ ExtMatch("*", alts, Drop(u, j), nocase)
Match(p, s, nocase) ==
  IF p = <<>> THEN s = <<>>
  ELSE LET e == Head(p) IN
       CASE e.k = "ext" -> \E i \in 0..Len(s) : ExtMatch(e.c, e.alts, Take(s, i), nocase) /\ Match(Tail(p), Drop(s, i), nocase)
         [] e.k \in {"star", "globstar"} -> \E i \in 0..Len(s) : Match(Tail(p), Drop(s, i), nocase)
         [] e.k = "any"  -> s # <<>> /\ Match(Tail(p), Tail(s), nocase)
         [] e.k = "lit"  -> s # <<>> /\ Eq(Head(s), e.c, nocase) /\ Match(Tail(p), Tail(s), nocase)
         [] e.k = "set"  -> s # <<>> /\ (InSet(Head(s), e.cs, nocase) # e.neg) /\ Match(Tail(p), Tail(s), nocase)

\* Named deviations of the implementation (switches, as in ShParam): ExpandPath({}, ...) is the contract.
\*  ExtNeedsPlainMeta     a word whose only metacharacters are @( +( !( is not globbed at all (expand.go escapedGlobField
\*                        looks for * ? [ only), and a path component of that kind is taken as a literal name (glob uses
\*                        pattern.HasMeta, which does not know the extended operators)
\* Retired, because /repo was fixed: DotRuleStarOnly (9641498), EscapedMetaIsPattern (25ace62), GlobstarFollowsLinks (055c91e).
AllDevs == {"ExtNeedsPlainMeta"}

\* a name is matched by a component: the leading dot rule, then Match
MatchName(dv, c, name, o) ==
  /\ (name[1] = "." => ("dotglob" \in o \/ (c # <<>> /\ c[1].k = "lit" /\ c[1].c = ".")))
  /\ Match(c, name, "nocaseglob" \in o)

\* ------------------------------------------------------------------ words
\* a word: components (between "/"), whether it ends with "/"
W(cs, slash) == [cs |-> cs, slash |-> slash]
cLit(name) == [i \in 1..Len(name) |-> PLit(name[i])]
cDot == <<PLit(".")>>
cDotDot == <<PLit("."), PLit(".")>>
qStar == PQ("*", <<"\\", "*">>)
sqS == << PQ("s", <<"'", "s">>), PQ("*", <<"*", "'">>) >>            \* 's*'
dqXY == << PQ("x", <<"\"", "x">>), PQ(" ", <<" ">>), PQ("y", <<"y", "\"">>) >>   \* "x y"

xA(op)  == PExt(op, << <<PLit("a")>> >>, <<op, "(", "a", ")">>)
xAB(op) == PExt(op, << <<PLit("a")>>, <<PLit("b")>> >>, <<op, "(", "a", "|", "b", ")">>)
Words ==
  << W(<< <<PStar>> >>, FALSE),                                   \* *
     W(<< <<PLit("."), PStar>> >>, FALSE),                        \* .*
     W(<< <<PStar>> >>, TRUE),                                    \* */
     W(<< <<PStar>>, <<PStar>> >>, FALSE),                        \* */*
     W(<< cLit(nA), <<PStar>> >>, FALSE),                         \* a/*
     W(<< <<PStar>>, cLit(nA) >>, FALSE),                         \* */a
     W(<< cDot, <<PStar>> >>, FALSE),                             \* ./*
     W(<< cLit(nA), cDot, <<PStar>> >>, FALSE),                   \* a/./*
     W(<< cLit(nA), cDotDot, <<PStar>> >>, FALSE),                \* a/../*
     W(<< <<PSet({"a", "b"}, <<"[", "a", "b", "]">>)>> >>, FALSE),            \* [ab]
     W(<< <<PNSet({"a"}, <<"[", "!", "a", "]">>), PStar>> >>, FALSE),         \* [!a]*
     W(<< <<PAny>> >>, FALSE),                                    \* ?
     W(<< <<PStar, PLit("."), PStar>> >>, FALSE),                 \* *.*
     W(<< <<PLit("l"), PStar>> >>, TRUE),                         \* l*/
     W(<< <<PLit("l"), PStar>>, <<PStar>> >>, FALSE),             \* l*/*
     W(<< cLit(nLa), <<PStar>> >>, FALSE),                        \* la/*
     W(<< <<PLit("l"), PLit("x"), PStar>> >>, FALSE),             \* lx*
     W(<< <<PStar, PQ(" ", <<"'", " ", "'">>), PStar>> >>, FALSE),            \* *' '*
     W(<< <<PLit("s"), qStar>> >>, FALSE),                        \* s\*     (no unquoted metacharacter)
     W(<< sqS \o <<PStar>> >>, FALSE),                            \* 's*'*
     W(<< dqXY \o <<PStar>> >>, FALSE),                           \* "x y"*
     W(<< <<PLit("z"), PLit("z"), PStar>> >>, FALSE),             \* zz*     (never matches)
     W(<< <<PLit("."), PLit("h"), PStar>> >>, FALSE),             \* .h*
     W(<< <<PLit("."), PSet({"h"}, <<"[", "h", "]">>)>> >>, FALSE),           \* .[h]
     W(<< <<PSet({"."}, <<"[", ".", "]">>), PLit("h")>> >>, FALSE),           \* [.]h
     W(<< <<PStar>>, <<PLit("."), PStar>> >>, FALSE),             \* */.*
     W(<< <<PStar, PLit("h")>> >>, FALSE),                        \* *h
     W(<< <<PLit("A"), PStar>> >>, FALSE),                        \* A*
     W(<< <<PSet({"A"}, <<"[", "A", "]">>)>> >>, FALSE),          \* [A]
     W(<< <<PLit("a"), PLit("."), PAny>> >>, FALSE),              \* a.?
     W(<< <<PStar>>, cLit(nB), <<PStar>> >>, FALSE),              \* */b/*
     W(<< <<PGlobStar>> >>, FALSE),                               \* **
     W(<< <<PGlobStar>> >>, TRUE),                                \* **/
     W(<< <<PGlobStar>>, cLit(nA) >>, FALSE),                     \* **/a
     W(<< cLit(nA), <<PGlobStar>> >>, FALSE),                     \* a/**
     W(<< <<PGlobStar>>, <<PStar>> >>, FALSE),                    \* **/*
     W(<< cLit(nA), <<PGlobStar>>, cLit(nA) >>, FALSE),           \* a/**/a
     W(<< cLit(nLa), <<PGlobStar>> >>, FALSE),                    \* la/**
     W(<< <<PGlobStar>>, <<PLit("."), PStar>> >>, FALSE),         \* **/.*
     W(<< cLit(nD), <<PLit("a")>> \o <<PStar>> >>, FALSE),        \* d/a*    (nocaseglob)
     W(<< <<PLit("D")>>, <<PStar>> >>, FALSE),                    \* D/*     (a literal component is not case-folded)
     W(<< << PQ("s", <<"\"", "s">>), PQ("*", <<"*", "\"">>), PStar >> >>, FALSE),   \* "s*"*
     W(<< <<PAny, PLit("h")>> >>, FALSE),                         \* ?h
     W(<< <<PLit("a"), PAny, PLit("c")>> >>, FALSE),              \* a?c
     W(<< <<PStar>>, <<PLit("z"), PLit("z"), PStar>> >>, FALSE),  \* */zz*
     \* extended operators (only with extglob)
     W(<< <<xAB("@")>> >>, FALSE),                                \* @(a|b)
     W(<< <<xA("!")>> >>, FALSE),                                 \* !(a)
     W(<< <<xA("*")>> >>, FALSE),                                 \* *(a)
     W(<< <<xAB("+")>> >>, FALSE),                                \* +(a|b)
     W(<< <<xA("?"), PLit("b")>> >>, FALSE),                      \* ?(a)b
     W(<< <<xAB("@"), PStar>> >>, FALSE),                         \* @(a|b)*
     W(<< <<xAB("!")>> >>, TRUE),                                 \* !(a|b)/
     W(<< <<PExt("!", << <<PStar, PLit("."), PStar>> >>, <<"!", "(", "*", ".", "*", ")">>)>> >>, FALSE),   \* !(*.*)
     W(<< <<PLit("a"), PExt("@", << <<PLit("."), PLit("c")>>, <<PLit("b")>> >>, <<"@", "(", ".", "c", "|", "b", ")">>)>> >>, FALSE),   \* a@(.c|b)
     W(<< <<xAB("@")>>, <<PStar>> >>, FALSE) >>                   \* @(a|b)/*
NPlainWords == 45

RECURSIVE WordSrcCs(_)
WordSrcCs(cs) == IF cs = <<>> THEN <<>> ELSE IF Len(cs) = 1 THEN CompSrc(cs[1]) ELSE CompSrc(cs[1]) \o <<"/">> \o WordSrcCs(Tail(cs))
WordSrc(w) == WordSrcCs(w.cs) \o (IF w.slash THEN <<"/">> ELSE <<>>)
RECURSIVE WordLitCs(_)
WordLitCs(cs) == IF cs = <<>> THEN <<>> ELSE IF Len(cs) = 1 THEN CompLit(cs[1]) ELSE CompLit(cs[1]) \o <<"/">> \o WordLitCs(Tail(cs))
\* the word after quote removal (what is printed when nothing matches)
WordLit(w) == WordLitCs(w.cs) \o (IF w.slash THEN <<"/">> ELSE <<>>)
WordHasMeta(w) == \E i \in 1..Len(w.cs) : CompHasMeta(w.cs[i])

\* ------------------------------------------------------------------ expansion
\* a partial match: the text printed so far and the (real) directory it denotes
PM(out, dir) == [out |-> out, dir |-> dir]
Ext(out, name) == IF out = <<>> THEN name ELSE out \o <<"/">> \o name

\* all directories below d (d included) reachable without following links, dot rule applied,
\* each with its printed text relative to out
\* (links = TRUE: symbolic links to directories are listed too, but never descended: "**/" does that)
RECURSIVE Below(_, _, _, _, _, _, _)
Below(dv, t, out, d, o, fuel, links) ==
  <<PM(out, d)>> \o
  (IF fuel = 0 THEN <<>>
   ELSE LET follow == FALSE
            cs == SelectSeq(Children(t, d), LAMBDA nm : (nm[1] # "." \/ "dotglob" \in o) /\ IsDir(t, Append(d, nm))
                                                         /\ (links \/ follow \/ ~IsLink(t, Append(d, nm))))
            RECURSIVE Each(_)
            Each(s) == IF s = <<>> THEN <<>>
                       ELSE (IF IsLink(t, Append(d, Head(s))) /\ ~follow
                             THEN << PM(Ext(out, Head(s)), RealDir(t, Append(d, Head(s)))) >>
                             ELSE Below(dv, t, Ext(out, Head(s)), RealDir(t, Append(d, Head(s))), o, fuel - 1, links))
                            \o Each(Tail(s))
        IN Each(cs))

\* everything below d (files, links and directories), as printed texts; not descending through links
RECURSIVE AllBelow(_, _, _, _, _, _)
AllBelow(dv, t, out, d, o, fuel) ==
  LET cs == SelectSeq(Children(t, d), LAMBDA nm : nm[1] # "." \/ "dotglob" \in o)
      RECURSIVE Each(_)
      Each(s) == IF s = <<>> THEN <<>>
                 ELSE LET nm == Head(s) p == Append(d, nm) IN
                      <<Ext(out, nm)>>
                      \o (IF fuel > 0 /\ ~IsLink(t, p) /\ IsDir(t, p)
                          THEN AllBelow(dv, t, Ext(out, nm), RealDir(t, p), o, fuel - 1) ELSE <<>>)
                      \o Each(Tail(s))
  IN Each(cs)

FlatMap(F(_), s) == Flatten([i \in 1..Len(s) |-> F(s[i])])

\* one component applied to one partial match; last = no component follows; needDir = only directories wanted
StepOne(dv, t, c, pm, o, needDir) ==
  IF ~CompHasMeta(c) \/ ("ExtNeedsPlainMeta" \in dv /\ ~CompHasPlainMeta(c)) THEN
     LET nm == CompLit(c) IN
     IF nm = <<".">> THEN << PM(Ext(pm.out, nm), pm.dir) >>
     ELSE IF nm = <<".", ".">> THEN (IF pm.dir = <<>> THEN <<>> ELSE << PM(Ext(pm.out, nm), Take(pm.dir, Len(pm.dir) - 1)) >>)
     ELSE LET p == Append(pm.dir, nm) IN
          IF ~HasNode(t, p) \/ (needDir /\ ~IsDir(t, p)) THEN <<>> ELSE << PM(Ext(pm.out, nm), RealDir(t, p)) >>
  ELSE
     LET ms == SelectSeq(Children(t, pm.dir), LAMBDA nm : MatchName(dv, c, nm, o) /\ (needDir => IsDir(t, Append(pm.dir, nm))))
     IN [i \in 1..Len(ms) |-> PM(Ext(pm.out, ms[i]), RealDir(t, Append(pm.dir, ms[i])))]

RECURSIVE Walk(_, _, _, _, _, _)
Walk(dv, t, cs, pms, o, slash) ==      \* pms: sequence of partial matches; returns printed texts
  IF cs = <<>> THEN [i \in 1..Len(pms) |-> IF slash THEN pms[i].out \o <<"/">> ELSE pms[i].out]
  ELSE LET c == Head(cs) last == Len(cs) = 1 IN
    IF c = <<PGlobStar>> /\ "globstar" \in o THEN
       IF last /\ ~slash THEN
          \* "**" as the last component: everything below, plus "prefix/" itself
          LET F(pm) == (IF pm.out = <<>> THEN <<>> ELSE << pm.out \o <<"/">> >>) \o AllBelow(dv, t, pm.out, pm.dir, o, 4) IN FlatMap(F, pms)
       ELSE LET F(pm) == Below(dv, t, pm.out, pm.dir, o, 4, last) IN
            IF last THEN  \* "**/": the directories below, each with a slash; the zero-level one only under a prefix
                 LET ds == FlatMap(F, pms) IN
                 [i \in 1..Len(SelectSeq(ds, LAMBDA x : x.out # <<>>)) |-> SelectSeq(ds, LAMBDA x : x.out # <<>>)[i].out \o <<"/">>]
            ELSE Walk(dv, t, Tail(cs), FlatMap(F, pms), o, slash)
    ELSE LET cc == IF c = <<PGlobStar>> THEN <<PStar>> ELSE c      \* without globstar "**" is "*"
             F(pm) == StepOne(dv, t, cc, pm, o, ~last \/ slash)
         IN Walk(dv, t, Tail(cs), FlatMap(F, pms), o, slash)

WordHasPlainMeta(w) == \E i \in 1..Len(w.cs) : CompHasPlainMeta(w.cs[i])
ExpandPath(dv, t, w0, o) ==
  LET w == w0 IN
  IF "ExtNeedsPlainMeta" \in dv /\ WordHasMeta(w) /\ ~WordHasPlainMeta(w) THEN << WordLit(w0) >>
  ELSE
  IF "noglob" \in o \/ ~WordHasMeta(w) THEN << WordLit(w0) >>
  ELSE LET r == Walk(dv, t, w.cs, <<PM(<<>>, <<>>)>>, o, w.slash)
           ms == SortTexts({ r[i] : i \in 1..Len(r) })
       IN IF ms = <<>> THEN (IF "nullglob" \in o THEN <<>> ELSE << WordLit(w0) >>) ELSE ms

\* ------------------------------------------------------------------ options
AllOpts == {"dotglob", "nullglob", "globstar", "nocaseglob", "noglob", "extglob"}
\* the quick tier: every single option, the empty set, and pairs that interact
QuickOpts == { {}, {"dotglob"}, {"nullglob"}, {"globstar"}, {"nocaseglob"}, {"noglob"},
               {"dotglob", "globstar"}, {"dotglob", "nocaseglob"}, {"nullglob", "globstar"},
               {"nocaseglob", "globstar"}, {"noglob", "nullglob"}, {"dotglob", "nullglob", "globstar", "nocaseglob"},
               {"extglob"}, {"extglob", "dotglob"}, {"extglob", "nullglob", "nocaseglob"} }
OptSets == IF Wide THEN SUBSET AllOpts ELSE QuickOpts

\* ------------------------------------------------------------------ the input builder
VARIABLES phase, ti, wi, opts
vars == <<phase, ti, wi, opts>>
Init == phase = "init" /\ ti = 0 /\ wi = 0 /\ opts = {}
PickTree == phase = "init" /\ \E i \in 1..Len(Trees) : ti' = i /\ phase' = "tree" /\ UNCHANGED <<wi, opts>>
PickWord == phase = "tree" /\ \E i \in 1..Len(Words) : wi' = i /\ phase' = "word" /\ UNCHANGED <<ti, opts>>
\* a word with an extended operator is a syntax error in bash unless extglob is on: only generated with it
PickOpts == phase = "word" /\ \E o \in OptSets : (wi > NPlainWords => "extglob" \in o) /\ opts' = o /\ phase' = "vec" /\ UNCHANGED <<ti, wi>>
Next == PickTree \/ PickWord \/ PickOpts
Spec == Init /\ [][Next]_vars

\* ------------------------------------------------------------------ laws and the vector
Sorted(ms) == \A i \in 1..(Len(ms) - 1) : CmpText(ms[i], ms[i + 1]) < 0
Inv ==
  phase # "vec" \/
  LET t == Trees[ti] w == Words[wi]
      ms == ExpandPath({}, t, w, opts)
      plain == ExpandPath({}, t, w, opts \ {"nullglob"})
      withDot == ExpandPath({}, t, w, opts \cup {"dotglob"})
      \* the named deviations that change this vector on their own, and every combination of those
      ds == { d \in AllDevs : ExpandPath({d}, t, w, opts) # ms }
  IN \* sorted and without duplicates when something matched
     /\ (Len(ms) > 1 => Sorted(ms))
     \* nullglob only matters when nothing matches: then the result is empty instead of the word itself
     /\ (plain # << WordLit(w) >> \/ "noglob" \in opts \/ ~WordHasMeta(w) => ms = plain)
     /\ ("nullglob" \in opts /\ ms = <<>> => plain = << WordLit(w) >>)
     \* noglob: the word itself
     /\ ("noglob" \in opts => ms = << WordLit(w) >>)
     \* dotglob and nocaseglob only add matches
     /\ (WordHasMeta(w) /\ "noglob" \notin opts /\ plain # << WordLit(w) >> =>
            \A i \in 1..Len(plain) : \E k \in 1..Len(withDot) : withDot[k] = plain[i])
     /\ PrintT(<<"VEC", ToJson([tree |-> ti, nodes |-> t, word |-> WordSrc(w), opts |-> opts, paths |-> ms,
                                devs |-> { c \in { [name |-> S, paths |-> ExpandPath(S, t, w, opts)] : S \in (SUBSET ds) \ {{}} } : c.paths # ms },
                                nontrivial |-> WordHasMeta(w) /\ "noglob" \notin opts /\ ms # << WordLit(w) >> /\ ms # <<>>])>>)
=========================================================================
