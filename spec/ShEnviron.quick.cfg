SPECIFICATION Spec
CONSTANT MaxLen = 3
INVARIANTS MapIsScan SortedUniq NoInvalid UnsettableUnset EmitInv
