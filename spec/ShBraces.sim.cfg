SPECIFICATION Spec
CONSTANT MaxLen = 16
CONSTANT Menus = FALSE
CONSTANT Cap = 300
CONSTANT Alphabet <- AlphaSim
INVARIANT CheckAndEmitOne
