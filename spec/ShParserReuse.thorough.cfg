SPECIFICATION Spec
CONSTANTS Obj = "parser"
  MaxHist = 3
INVARIANTS OptionsLaw LibraryOK ContractClean Emit EmitLib
