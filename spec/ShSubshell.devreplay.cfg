SPECIFICATION Spec
CONSTANTS MaxLen = 3
  Buggy = TRUE
  Wide = FALSE
  Replay = TRUE
INVARIANTS EmitDev
