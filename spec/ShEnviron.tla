---------------------------- MODULE ShEnviron ----------------------------
(* C34: expand.ListEnviron behaves like a map built left to right.
   Style S: the state is the pair list under construction; Append(p) extends it.
   Two independent definitions of the contract are kept in the state and compared:
     m     -- the map built incrementally, left to right (last write wins)
     Scan  -- "the last valid occurrence of the name in the list" (right-to-left scan)
   Each distinct state is emitted as one test vector for the real ListEnviron. *)
EXTENDS Integers, Sequences, FiniteSets, TLC, Json, ShText

CONSTANTS MaxLen      \* bound on the list length

\* The pair alphabet: valid pairs, duplicates, prefix-related names, empty names,
\* pairs without '=', values containing '=', empty values, case variants.
Pairs == {
  <<"A","=","1">>, <<"A","=","2">>, <<"A","B","=","3">>, <<"A","_","B","=","4">>,
  <<"=","x">>, <<"A">>, <<"B","=">>, <<"A","=","b","=","c">>, <<"a","=","1">>,
  <<>>, <<"=">>, <<"Z","=","=">>, <<"A","B">>, <<"A","A","=","5">>, <<"A","=">>,
  \* a name that extends another one with a byte that sorts before '=' (digits, '.', '-')
  <<"A","1","=","x">>, <<"A",".","=","y">> }

\* Names queried with Get: every name above, prefixes/extensions of each other, the
\* empty name and names that contain '=' (which can never be set).
Queries == {
  <<"A">>, <<"A","B">>, <<"A","_","B">>, <<"B">>, <<"a">>, <<"Z">>, <<>>, <<"A","=">>,
  <<"A","=","b">>, <<"A","A">>, <<"A","A","A">>, <<"C">>, <<"Z","=">>, <<"=">>, <<"@">>,
  <<"A","1">>, <<"A",".">>, <<"A","1","1">> }

VARIABLES list,   \* the pairs given so far
          m       \* contract: function from valid names to values
vars == <<list, m>>

HasEq(p)  == FirstIndex(p, "=") > 0
NameOf(p) == SubSeq(p, 1, FirstIndex(p, "=") - 1)
ValOf(p)  == SubSeq(p, FirstIndex(p, "=") + 1, Len(p))
Valid(p)  == HasEq(p) /\ NameOf(p) # <<>>

Init == list = <<>> /\ m = <<>>

AppendPair(p) ==
  /\ Len(list) < MaxLen
  /\ list' = Append(list, p)
  /\ m' = IF Valid(p)
          THEN [n \in (DOMAIN m) \cup {NameOf(p)} |-> IF n = NameOf(p) THEN ValOf(p) ELSE m[n]]
          ELSE m

Next == \E p \in Pairs : AppendPair(p)
Spec == Init /\ [][Next]_vars

\* ---- the contract, second definition: last valid occurrence wins
LastIdx(n) ==
  LET S == { i \in 1..Len(list) : Valid(list[i]) /\ NameOf(list[i]) = n } IN
  IF S = {} THEN 0 ELSE CHOOSE i \in S : \A j \in S : j <= i

ScanGet(n) == IF LastIdx(n) = 0 THEN [set |-> FALSE, val |-> <<>>]
              ELSE [set |-> TRUE, val |-> ValOf(list[LastIdx(n)])]
MapGet(n)  == IF n \in DOMAIN m THEN [set |-> TRUE, val |-> m[n]]
              ELSE [set |-> FALSE, val |-> <<>>]

EachSeq == LET names == SortTexts(DOMAIN m) IN
           [i \in 1..Len(names) |-> [name |-> names[i], val |-> m[names[i]]]]

\* ---- invariants checked by TLC on the contract itself
MapIsScan  == \A n \in Queries \cup DOMAIN m : MapGet(n) = ScanGet(n)
SortedUniq == LET es == EachSeq IN
              \A i, j \in 1..Len(es) : i < j => CmpText(es[i].name, es[j].name) < 0
NoInvalid  == \A n \in DOMAIN m : n # <<>> /\ FirstIndex(n, "=") = 0
\* a name containing '=' or the empty name is never set
UnsettableUnset == \A n \in Queries : (n = <<>> \/ FirstIndex(n, "=") > 0) => ~MapGet(n).set

\* a vector is non-trivial when some pair was dropped or overwritten and something survives
Nontrivial == Cardinality(DOMAIN m) < Len(list) /\ DOMAIN m # {}

QSeq == SortTexts(Queries)
Emit == LET qs == QSeq IN PrintT(<<"VEC", ToJson([
           list  |-> list,
           each  |-> EachSeq,
           gets  |-> [q \in 1..Len(qs) |-> [name |-> qs[q]] @@ MapGet(qs[q])],
           nontrivial |-> Nontrivial ])>>)

EmitInv == Emit
==========================================================================
