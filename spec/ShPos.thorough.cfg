SPECIFICATION Spec
CONSTANT MaxLen = 5
INVARIANTS TrackerAgrees Monotone Emit EmitTable
