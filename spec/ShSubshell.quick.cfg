SPECIFICATION Spec
CONSTANTS MaxLen = 2
  Buggy = FALSE
  Wide = FALSE
INVARIANTS Isolation HeapWF ChildSeesOwnWrites EmitPD EmitVec
PROPERTIES CellDiscipline Frozen
