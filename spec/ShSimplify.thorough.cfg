SPECIFICATION SSpec
CONSTANTS MaxLen = 4
  MaxDepth = 2
  EmitAt = 0
  Fuel = 150
  EmitTree = FALSE
  Devs = {}
INVARIANTS SCheck
