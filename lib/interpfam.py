# Shared driver for the interpreter-semantics family (C26, C03, C04): runs TLC on spec/ShInterp.tla
# (or ShSimplify.tla), instantiates the emitted token lists with the layouts of the spec, runs the
# programs in the real interpreter (engines of harness/cmd/interpsem) and in bash.
# Only concatenation, running and comparing happens here: programs, expected stdout/status, the
# named deviations and the layouts all come from the specification.
import json, os, re, tempfile
import vlib

FAMILY = "interpsem"
SYMB = {"BEL": "\x07", "BS": "\x08", "NL": "\n", "TAB": "\t"}


def text(chars):
    return "".join(SYMB.get(c, c) for c in chars)


def load_layouts(module="ShInterp"):
    """The layouts are data of the spec (ShInterp!Layouts), read from the module text."""
    src = open(os.path.join(vlib.SPEC, module + ".tla")).read()
    body = src[src.index("Layouts == <<"):]
    body = body[:body.index(">>\n")]
    out = []
    un = lambda s: s.replace("\\n", "\n").replace("\\t", "\t").replace("\\\\", "\\")
    for m in re.finditer(r'\[name \|-> "([^"]*)",\s*sep \|-> "([^"]*)",\s*sp \|-> "([^"]*)",\s*bg \|-> "([^"]*)",\s*'
                         r'comment \|-> (TRUE|FALSE),\s*final \|-> "([^"]*)"\]', body):
        out.append({"name": m.group(1), "sep": un(m.group(2)), "sp": un(m.group(3)), "bg": un(m.group(4)),
                    "comment": m.group(5) == "TRUE", "final": un(m.group(6))})
    if len(out) < 3:
        raise vlib.Inconclusive("could not read %s!Layouts" % module)
    return out


def render(r, L):
    """Concatenate the token list of a program under layout L (same token protocol as ShSyntax:
    <SP> blank, <SEP> statement separator, <HDOC> body delim = a pending here-document)."""
    out, pending, ci = [], [], 0
    if L["comment"]:
        out.append("# c0\n"); ci = 1
    i = 0
    while i < len(r):
        tok = r[i]
        if tok == "<SP>":
            out.append(L["sp"])
        elif tok in ("<SEP>", "<BGSEP>"):
            sep = L["sep"] if tok == "<SEP>" else L["bg"]
            if L["comment"]:
                sep = " # c%d\n" % ci; ci += 1
            if pending:
                if "\n" not in sep:
                    sep = "\n"
                k = sep.index("\n") + 1
                out.append(sep[:k])
                for body, delim in pending:
                    out.append(body + "\n" + delim + "\n")
                pending = []
                out.append(sep[k:])
            else:
                out.append(sep)
        elif tok == "<HDOC>":
            pending.append((r[i + 1], r[i + 2])); i += 2
        else:
            out.append(tok)
        i += 1
    out.append(L["final"])
    for body, delim in pending:
        out.append("\n" + body + "\n" + delim + "\n")
    return "".join(out)


def active_devs(prop):
    """Deviation switches that are still listed as `known` for this property."""
    known, _ = vlib.load_known(prop)
    devs = sorted(k for k in known if k.startswith("Dev_"))
    # VERIF_DEVS=none / a comma list: check a tree in which some of the findings are fixed already
    # (used with VERIF_REPO when a proposed fix is tried out)
    ov = os.environ.get("VERIF_DEVS")
    if ov is not None:
        keep = [] if ov in ("", "none") else ov.split(",")
        devs = [d for d in devs if d in keep]
    return devs


def run_tlc(ck, module, consts, invariants, *, spec="Spec", simulate=None, depth=None, seed=None,
            workers=8, timeout=1500, stream=None):
    """Write a cfg for this run (constants depend on tier and on the active deviations) and run TLC."""
    d = tempfile.mkdtemp(prefix="cfg-", dir=os.environ.get("VERIF_TMP", "/tmp"))
    try:
        name = "%s.run.cfg" % module
        with open(os.path.join(d, name), "w") as f:
            f.write("SPECIFICATION %s\nCONSTANTS\n" % spec)
            for k, v in consts.items():
                if isinstance(v, bool):
                    v = "TRUE" if v else "FALSE"
                elif isinstance(v, (list, set, tuple)):
                    v = "{" + ", ".join('"%s"' % x for x in v) + "}"
                f.write("  %s = %s\n" % (k, v))
            f.write("INVARIANTS %s\n" % " ".join(invariants))
        res = vlib.run_tlc(module, name, workers=workers, timeout=timeout, simulate=simulate, depth=depth,
                           seed=seed, extra_files=[os.path.join(d, name)], stream_to=stream)
    finally:
        import shutil
        shutil.rmtree(d, ignore_errors=True)
    ck.add_tlc(res)
    if not res.ok:
        raise vlib.Inconclusive("%s: the model itself is inconsistent:\n%s" % (module, res.violation or res.raw_tail))
    return res


def run_impl(h, srcs, *, abs_=False, shards=4, fresh=False, timeout_ms=5000, expect_hang=()):
    """Run programs in the real interpreter. A program that hits the timeout (the machine is shared and at times so
    loaded that a process is not scheduled for seconds) is run once more, alone, with a generous timeout, unless the
    caller expects it to hang (expect_hang: indices)."""
    vecs = [{"src": s, "abs": abs_, "fresh": fresh, "timeout_ms": timeout_ms} for s in srcs]
    res = vlib.run_harness(h, "isrun", vecs, shards=shards, timeout=1800, env_extra={"GOMAXPROCS": "2"})
    again = [i for i, r in enumerate(res) if (r.get("timeout") or r.get("status") in (-2, -3)) and i not in expect_hang]
    if again:
        r2 = vlib.run_harness(h, "isrun", [dict(vecs[i], timeout_ms=20000) for i in again[:200]], shards=1, timeout=1800,
                              env_extra={"GOMAXPROCS": "2"})
        for i, r in zip(again, r2):
            res[i] = r
    return res


def _timed_out(r):
    """Does any run recorded in an engine result carry a timeout / start failure?"""
    if isinstance(r, dict):
        if r.get("timeout") or r.get("status") in (-2, -3):
            return True
        return any(_timed_out(v) for v in r.values())
    if isinstance(r, list):
        return any(_timed_out(v) for v in r)
    return False


def run_engine(h, engine, jobs, *, shards=4, pred=None):
    """run_harness + one more try, alone and with a generous timeout, for every job in which a run timed out
    (see run_impl)."""
    res = vlib.run_harness(h, engine, jobs, shards=shards, timeout=3000, env_extra={"GOMAXPROCS": "2"})
    again = [i for i, r in enumerate(res) if (pred or _timed_out)(r)][:200]
    if again:
        r2 = vlib.run_harness(h, engine, [dict(jobs[i], timeout_ms=20000) for i in again], shards=1, timeout=3000,
                              env_extra={"GOMAXPROCS": "2"})
        for i, r in zip(again, r2):
            res[i] = r
    return res


RESET = ("set +e +u +o pipefail; trap - EXIT ERR; unset -f f g; unset x y z i l a; set --; true\n")


def run_bash(srcs, exits=None, jobs=2):
    """bash 5.2 on every program -> [(out, rc)].  A program that the spec predicts to end by falling off
    its end, without an EXIT trap, is evaluated in the batch shell itself after a reset of everything a
    program of the model can change (no fork); all others, and every one for which that prediction turns
    out wrong (the batch shell dies: vlib re-runs it isolated), run in a subshell of their own.  The
    prediction is only a scheduling hint: a program evaluated in the batch shell that differs from the
    expectation is run again isolated by the caller before any verdict."""
    res = [None] * len(srcs)
    iso = [i for i in range(len(srcs)) if exits is None or exits[i]]
    flat = [i for i in range(len(srcs)) if not (exits is None or exits[i])]
    if iso:
        rs = vlib.run_shell_evals([srcs[i] for i in iso], isolate=True, jobs=jobs, timeout=900)
        for i, r in zip(iso, rs):
            res[i] = (r["out"], r["rc"], True)
    if flat:
        rs = vlib.run_shell_evals([RESET + srcs[i] for i in flat], isolate=False, jobs=jobs, timeout=900)
        for i, r in zip(flat, rs):
            res[i] = (r["out"], r["rc"], bool(r.get("killed_shell")))
    return res


def norm_tree(t):
    """Spec trees carry literal text as lists of characters: join them (concatenation only)."""
    if isinstance(t, dict):
        out = {}
        for k, v in t.items():
            if k == "Value" and isinstance(v, list) and all(isinstance(c, str) for c in v):
                if v:
                    out[k] = text(v)
            else:
                nv = norm_tree(v)
                if nv is not None and nv != [] and nv != {}:
                    out[k] = nv
        return out
    if isinstance(t, list):
        return [norm_tree(x) for x in t]
    return t
