# Common machinery for the /verif checks: TLC runner + vector extraction,
# Go harness build/run, shell batcher, verdict rule, evidence and known findings.
# See DESIGN.md sections 2.3, 3 and Appendix B/D.
import json, os, re, shutil, subprocess, sys, tempfile, time, hashlib, random

ROOT = os.path.dirname(os.path.dirname(os.path.abspath(__file__)))
REPO = os.environ.get("VERIF_REPO", "/repo")
SPEC = os.path.join(ROOT, "spec")
HARNESS_SRC = os.path.join(ROOT, "harness")
BUILD = os.path.join(ROOT, ".build")
EVIDENCE = os.path.join(ROOT, "evidence")
REPLAYS = os.path.join(ROOT, "replays")
NCPU = os.cpu_count() or 4


class Inconclusive(Exception):
    pass


def goenv():
    env = dict(os.environ)
    env["GOFLAGS"] = "-mod=mod"
    env["GOPROXY"] = "off"
    env.pop("GOTOOLCHAIN", None)  # the cached 1.26.0 toolchain is selected by go.mod (auto)
    env.pop("GOSUMDB", None)
    return env


def scratch(prefix="verif-"):
    return tempfile.mkdtemp(prefix=prefix, dir=os.environ.get("VERIF_TMP", "/tmp"))


def chars(s):
    """Python str -> the spec's text representation (list of 1-char strings)."""
    return list(s)


SYMBOLIC = {
    "NUL": "\x00", "eacute": "é", "euro": "€", "NL": "\n", "TAB": "\t", "CR": "\r",
    "DEL": "\x7f", "BEL": "\x07", "ESC": "\x1b",
}


def unchars(a):
    """Spec text (list of 1-char strings / symbolic names / ints=bytes) -> str (latin-1 for raw bytes)."""
    out = []
    for c in a:
        if isinstance(c, int):
            out.append(chr(c))
        elif len(c) == 1:
            out.append(c)
        elif c in SYMBOLIC:
            out.append(SYMBOLIC[c])
        else:
            raise ValueError("unknown symbolic char %r" % (c,))
    return "".join(out)


# ----------------------------------------------------------------------------------
# TLC

class TLCResult:
    def __init__(self):
        self.vecs = {}          # tag -> list of decoded JSON values
        self.counts = {}
        self.rc = None
        self.generated = 0
        self.distinct = 0
        self.depth = 0
        self.ok = False         # finished without invariant/property violation
        self.violation = None   # text of a TLC error, if any
        self.wall = 0.0
        self.raw_tail = ""
        self.cmd = ""


_vec_re = re.compile(r'^<<"([A-Z]+)", "(.*)">>$')


def _decode_vec(line):
    m = _vec_re.match(line)
    if not m:
        return None
    inner = m.group(2)
    try:
        s = json.loads('"' + inner + '"')
        return m.group(1), json.loads(s)
    except Exception:
        return None


def run_tlc(module, cfg, *, workers=None, timeout=600, simulate=None, depth=None, seed=None,
            env_extra=None, extra_files=(), deadlock=False, heap=None, tags=("VEC", "EDGE", "STAT"),
            stream_to=None, dfs=False, keep=False):
    """Run TLC on spec/<module>.tla with spec/<cfg> in a scratch copy of spec/.
    simulate: number of behaviours (then depth must be given). Returns TLCResult.
    stream_to: optional dict tag->open file; decoded vectors of that tag are written there as
    ndjson instead of being kept in memory."""
    work = scratch("tlc-")
    res = TLCResult()
    try:
        for f in os.listdir(SPEC):
            if f.endswith(".tla") or f.endswith(".cfg"):
                shutil.copy(os.path.join(SPEC, f), work)
        for f in extra_files:
            shutil.copy(f, work)
        workers = workers or NCPU
        cmd = ["tlc", "-metadir", os.path.join(work, "meta"), "-noGenerateSpecTE",
               "-config", cfg]
        if not deadlock:
            cmd += ["-deadlock"]   # -deadlock DISABLES deadlock checking
        if simulate:
            cmd += ["-workers", "1", "-simulate", "num=%d" % simulate, "-depth", str(depth or 20)]
            if seed is not None:
                cmd += ["-seed", str(seed)]
        else:
            cmd += ["-workers", str(workers)]
        cmd += [module + ".tla"]
        env = dict(os.environ)
        jopts = "-Xss256m"
        if heap:
            jopts += " -Xmx" + heap
        if dfs:
            jopts += " -Dtlc2.tool.queue.IStateQueue=StateDeque"
        env["JAVA_TOOL_OPTIONS"] = (env.get("JAVA_TOOL_OPTIONS", "") + " " + jopts).strip()
        if env_extra:
            env.update(env_extra)
        res.cmd = " ".join(cmd)
        t0 = time.time()
        p = subprocess.Popen(["timeout", str(timeout)] + cmd, cwd=work, env=env,
                             stdout=subprocess.PIPE, stderr=subprocess.STDOUT, text=True,
                             errors="replace")
        tail = []
        err_lines = []
        in_err = False
        for line in p.stdout:
            line = line.rstrip("\n")
            if line.startswith('<<"'):
                d = _decode_vec(line)
                if d is not None and d[0] in tags:
                    res.counts[d[0]] = res.counts.get(d[0], 0) + 1
                    if stream_to and d[0] in stream_to:
                        stream_to[d[0]].write(json.dumps(d[1]) + "\n")
                    else:
                        res.vecs.setdefault(d[0], []).append(d[1])
                    continue
            tail.append(line)
            if len(tail) > 400:
                tail = tail[-200:]
            if line.startswith("Error:"):
                in_err = True
            if in_err and len(err_lines) < 80:
                err_lines.append(line)
            m = re.match(r"^(\d+) states generated, (\d+) distinct states found", line)
            if m:
                res.generated = int(m.group(1))
                res.distinct = int(m.group(2))
            m = re.match(r"^The depth of the complete state graph search is (\d+)", line)
            if m:
                res.depth = int(m.group(1))
            m = re.match(r"^Progress\(\d+\).*: (\d+) states generated.*, (\d+) distinct states found", line)
            if m:
                res.generated = int(m.group(1)); res.distinct = int(m.group(2))
            m = re.match(r"^The number of states generated: (\d+)", line)
            if m:
                res.generated = int(m.group(1)); res.distinct = res.distinct or int(m.group(1))
        rc = p.wait()
        res.wall = time.time() - t0
        res.raw_tail = "\n".join(tail[-60:])
        if rc == 124:
            raise Inconclusive("TLC timeout after %ss: %s" % (timeout, res.cmd))
        if err_lines:
            res.violation = "\n".join(err_lines)
        # TLC exit codes: 0 ok; 10 assumption; 11 deadlock; 12 safety; 13 liveness; >=75 errors
        res.rc = rc
        res.ok = (rc == 0 and not err_lines)
        if rc != 0 and rc not in (10, 11, 12, 13):
            raise Inconclusive("TLC failed rc=%s cmd=%s\n%s" % (rc, res.cmd, res.raw_tail))
        return res
    finally:
        if not keep:
            shutil.rmtree(work, ignore_errors=True)


# ----------------------------------------------------------------------------------
# Go harness

def build_harness(family="core", race=False, tags="verif"):
    """Build harness/cmd/<family> against REPO's working tree (replace directive). When VERIF_REPO
    points somewhere other than /repo (scratch worktree with a seeded change) the harness module is
    copied to a scratch dir with the replace path rewritten, so concurrent runs do not interfere."""
    tagd = hashlib.sha1(REPO.encode()).hexdigest()[:8] if REPO != "/repo" else ""
    bdir = os.path.join(BUILD, tagd) if tagd else BUILD
    os.makedirs(bdir, exist_ok=True)
    out = os.path.join(bdir, family + ("-race" if race else ""))
    src = HARNESS_SRC
    tmp = None
    if REPO != "/repo":
        tmp = scratch("hsrc-")
        src = os.path.join(tmp, "harness")
        shutil.copytree(HARNESS_SRC, src)
        gm = open(os.path.join(src, "go.mod")).read().replace("=> /repo", "=> " + REPO)
        open(os.path.join(src, "go.mod"), "w").write(gm)
    try:
        try:
            shutil.copy(os.path.join(REPO, "go.sum"), os.path.join(src, "go.sum"))
        except OSError:
            pass
        cmd = ["go", "build", "-tags", tags, "-o", out]
        if race:
            cmd.append("-race")
        cmd.append("./cmd/" + family)
        p = subprocess.run(cmd, cwd=src, env=goenv(), capture_output=True, text=True)
        if p.returncode != 0:
            raise Inconclusive("harness build failed:\n" + p.stdout + p.stderr)
        return out
    finally:
        if tmp:
            shutil.rmtree(tmp, ignore_errors=True)


def build_repo_binary(pkg, name, tags=""):
    """Build a command from /repo's working tree (e.g. ./cmd/shfmt)."""
    os.makedirs(BUILD, exist_ok=True)
    tagd = hashlib.sha1(REPO.encode()).hexdigest()[:8] if REPO != "/repo" else ""
    bdir = os.path.join(BUILD, tagd) if tagd else BUILD
    os.makedirs(bdir, exist_ok=True)
    out = os.path.join(bdir, name)
    cmd = ["go", "build", "-o", out]
    if tags:
        cmd += ["-tags", tags]
    cmd.append(pkg)
    p = subprocess.run(cmd, cwd=REPO, env=goenv(), capture_output=True, text=True)
    if p.returncode != 0:
        raise Inconclusive("build %s failed:\n%s%s" % (pkg, p.stdout, p.stderr))
    return out


def run_harness(binary, engine, vectors, *, args=(), timeout=900, env_extra=None, shards=None):
    """Feed vectors (list of dicts) to `harness <engine>`; returns list of result dicts in order.
    With shards=N the vectors are split over N parallel processes."""
    if not vectors:
        return []
    shards = shards or 1
    shards = max(1, min(shards, len(vectors)))
    work = scratch("hrn-")
    try:
        procs = []
        for k in range(shards):
            part = vectors[k::shards]
            inp = os.path.join(work, "in%d.ndjson" % k)
            outp = os.path.join(work, "out%d.ndjson" % k)
            with open(inp, "w") as f:
                for v in part:
                    f.write(json.dumps(v) + "\n")
            env = dict(os.environ)
            if env_extra:
                env.update(env_extra)
            env["VERIF_SCRATCH"] = work
            fo = open(outp, "w")
            fe = open(outp + ".err", "w")
            p = subprocess.Popen(["timeout", str(timeout), binary, engine] + list(args) + [inp],
                                 stdout=fo, stderr=fe, env=env, cwd=work)
            procs.append((p, outp, fo, fe, len(part)))
        outs = []
        for p, outp, fo, fe, n in procs:
            rc = p.wait()
            fo.close(); fe.close()
            rs = []
            with open(outp) as f:
                for l in f:
                    if l.strip():
                        try:
                            rs.append(json.loads(l))
                        except ValueError:
                            break          # truncated line of a harness that was killed (timeout)
            if rc != 0 or len(rs) != n:
                err = open(outp + ".err").read()[-3000:]
                raise Inconclusive("harness %s rc=%s results=%d/%d\n%s" % (engine, rc, len(rs), n, err))
            outs.append(rs)
        res = [None] * len(vectors)
        for k, rs in enumerate(outs):
            for i, r in enumerate(rs):
                res[k + i * shards] = r
        return res
    finally:
        shutil.rmtree(work, ignore_errors=True)


# ----------------------------------------------------------------------------------
# Shell oracle: run many small scripts in few shell processes.

def shquote(s):
    """Quote a str (may contain any char but NUL) for bash/dash as a single word."""
    return "'" + s.replace("'", "'\\''") + "'"


def bash_dollar_quote(b):
    """Quote bytes/str for bash using $'..' with octal escapes (exact bytes)."""
    if isinstance(b, str):
        b = b.encode("utf-8", "surrogateescape")
    out = ["$'"]
    for c in b:
        if 0x20 <= c < 0x7f and c not in (0x27, 0x5c):
            out.append(chr(c))
        else:
            out.append("\\%03o" % c)
    out.append("'")
    return "".join(out)


def run_shell_batch(shell, scripts, *, timeout_each=5, jobs=2, locale="C", **_):
    """One `shell <file>` process per script (full isolation; ~3 ms each and process creation does
    not scale with parallelism in this sandbox, so keep the counts small).
    Returns list of {out, err, rc} (out/err as latin-1 str)."""
    from concurrent.futures import ThreadPoolExecutor
    work = scratch("shb-")
    env = {"PATH": "/usr/local/sbin:/usr/local/bin:/usr/sbin:/usr/bin:/sbin:/bin", "LC_ALL": locale,
           "HOME": work, "TMPDIR": work}

    def one(i):
        d = os.path.join(work, "d%d" % i)
        os.makedirs(d)
        sp = os.path.join(d, "s.sh")
        data = scripts[i]
        if isinstance(data, str):
            data = data.encode("latin-1", "replace")
        with open(sp, "wb") as f:
            f.write(data)
        try:
            p = subprocess.run([shell, sp], cwd=d, env=env, stdin=subprocess.DEVNULL,
                               capture_output=True, timeout=timeout_each)
            r = {"out": p.stdout.decode("latin-1"), "err": p.stderr.decode("latin-1")[:500], "rc": p.returncode}
        except subprocess.TimeoutExpired:
            r = {"out": "", "err": "timeout", "rc": -9}
        shutil.rmtree(d, ignore_errors=True)
        return r

    try:
        with ThreadPoolExecutor(max_workers=jobs) as ex:
            return list(ex.map(one, range(len(scripts))))
    finally:
        shutil.rmtree(work, ignore_errors=True)


def run_shell_evals(snippets, *, shell="bash", prelude="", isolate=False, locale="C", per_process=3000,
                    jobs=2, timeout=180, cwd_files=None):
    """Evaluate many snippets inside few shell processes (fork is ~2 ms here and does not parallelise).
    Each snippet is `eval`ed at top level (so an expansion error aborts only that snippet); with
    isolate=True each runs in a subshell `( )` (one fork each) so it may `exit`, `cd`, set options.
    stdout is captured per snippet; stderr is discarded. If a snippet kills the shell it is re-run
    isolated and the batch continues after it. Returns list of {out, rc} (out latin-1 str)."""
    from concurrent.futures import ThreadPoolExecutor
    tok = "%08x" % random.getrandbits(32)
    B, E = "\x1eB" + tok, "\x1eE" + tok
    results = [None] * len(snippets)
    work = scratch("she-")
    env = {"PATH": "/usr/local/sbin:/usr/local/bin:/usr/sbin:/usr/bin:/sbin:/bin", "LC_ALL": locale,
           "HOME": work, "TMPDIR": work}

    def quote(sn):
        if shell == "bash":
            return bash_dollar_quote(sn.encode("latin-1", "replace") if isinstance(sn, str) else sn)
        return shquote(sn)

    def script_for(idx, iso):
        lines = [prelude]
        for i in idx:
            q = quote(snippets[i])
            if iso:
                lines.append("printf '%s%d\\037' %d; ( eval %s ) 2>/dev/null; printf '%s%d:%%d\\037' $? %d" % (
                    "\\036B" + tok, 0, i, q, "\\036E" + tok, 0, i) if False else
                    "printf '\\036B%s:%d\\037'; ( eval %s ) 2>/dev/null </dev/null; printf '\\036E%s:%d:%%d\\037' $?" % (tok, i, q, tok, i))
            else:
                lines.append("printf '\\036B%s:%d\\037'; eval %s 2>/dev/null </dev/null; printf '\\036E%s:%d:%%d\\037' $?" % (tok, i, q, tok, i))
        return "\n".join(lines) + "\n"

    def run_proc(idx, iso, name):
        d = os.path.join(work, name)
        os.makedirs(d, exist_ok=True)
        if cwd_files:
            for fn, content in cwd_files.items():
                with open(os.path.join(d, fn), "w") as f:
                    f.write(content)
        sp = os.path.join(work, name + ".sh")
        with open(sp, "wb") as f:
            f.write(script_for(idx, iso).encode("latin-1", "replace"))
        try:
            p = subprocess.run([shell, sp], cwd=d, env=env, stdin=subprocess.DEVNULL,
                               stdout=subprocess.PIPE, stderr=subprocess.DEVNULL, timeout=timeout)
            out, rc = p.stdout, p.returncode
        except subprocess.TimeoutExpired as e:
            out, rc = e.stdout or b"", -9
        shutil.rmtree(d, ignore_errors=True)
        text = out.decode("latin-1")
        done = {}
        pat = re.compile("\x1eB%s:(\\d+)\x1f(.*?)\x1eE%s:\\1:(-?\\d+)\x1f" % (tok, tok), re.S)
        for m in pat.finditer(text):
            done[int(m.group(1))] = {"out": m.group(2), "rc": int(m.group(3))}
        return done, rc, text

    def run_chunk(ci_idx):
        ci, idx = ci_idx
        pending = list(idx)
        rounds = 0
        while pending:
            rounds += 1
            done, rc, text = run_proc(pending, isolate, "c%d_%d" % (ci, rounds))
            for i, r in done.items():
                results[i] = r
            rest = [i for i in pending if i not in done]
            if not rest:
                break
            culprit = rest[0]
            # partial output of the culprit, if any
            m = re.search("\x1eB%s:%d\x1f(.*)$" % (tok, culprit), text, re.S)
            if isolate:
                results[culprit] = {"out": m.group(1) if m else "", "rc": -9 if rc == -9 else (rc if rc is not None else -1), "killed_shell": True}
            else:
                d2, rc2, t2 = run_proc([culprit], True, "c%d_%d_iso" % (ci, rounds))
                results[culprit] = d2.get(culprit, {"out": "", "rc": -9})
                results[culprit]["killed_shell"] = True
            pending = rest[1:]

    try:
        idxs = list(range(len(snippets)))
        chunks = [(k, idxs[o:o + per_process]) for k, o in enumerate(range(0, len(idxs), per_process))]
        with ThreadPoolExecutor(max_workers=jobs) as ex:
            list(ex.map(run_chunk, chunks))
        return results
    finally:
        shutil.rmtree(work, ignore_errors=True)


# ----------------------------------------------------------------------------------
# Verdicts, evidence, known findings

def load_known(prop):
    known = {}
    fixed = {}
    import glob
    paths = [os.path.join(ROOT, "known_findings.jsonl")] + sorted(glob.glob(os.path.join(ROOT, "known_findings.d", "*.jsonl")))
    for p in paths:
        if not os.path.exists(p):
            continue
        for l in open(p):
            l = l.strip()
            if not l or l.startswith("#"):
                continue
            r = json.loads(l)
            if r.get("property") != prop:
                continue
            if r.get("status") == "known":
                known[r["key"]] = r
            else:
                fixed[r["key"]] = r
    return known, fixed


class Check:
    """One run of one property's check. Engines call .violation(), .drift(), .count() and finally
    the driver calls .finish() which writes evidence and returns the exit code."""

    def __init__(self, prop, tier, seed, level):
        self.prop = prop
        self.tier = tier
        self.seed = seed
        self.level = level
        self.t0 = time.time()
        self.known, self.fixed = load_known(prop)
        self.known_hit = {}
        self.viol = {}          # key -> replay record (capped)
        self.all_keys = set()   # every unlisted violation key (uncapped)
        self.viol_count = 0
        self.drifts = []
        self.cov = {"evaluations": 0, "distinct_nontrivial": 0, "states": 0, "transitions": 0,
                    "traces_validated_against_impl": 0, "samples": [], "rule": "", "exhaustive": False}
        self.assumptions = []
        self.notes = {}
        self.rng = random.Random(seed)

    # -- coverage helpers
    def add_tlc(self, res):
        self.cov["states"] += res.distinct
        self.cov["transitions"] += res.generated
        self.notes.setdefault("tlc_runs", []).append(
            {"cmd": res.cmd, "distinct": res.distinct, "generated": res.generated,
             "depth": res.depth, "wall_s": round(res.wall, 1), "ok": res.ok})

    def sample(self, s, cap=6):
        if len(self.cov["samples"]) < cap:
            self.cov["samples"].append(s)

    # -- verdicts
    def violation(self, key, record):
        """key: narrow canonical identification of the failing case."""
        self.viol_count += 1
        if key in self.known:
            self.known_hit.setdefault(key, 0)
            self.known_hit[key] += 1
            return
        self.all_keys.add(key)
        if key not in self.viol and len(self.viol) < 50:
            self.viol[key] = record

    def drift(self, record):
        if len(self.drifts) < 50:
            self.drifts.append(record)
        self.notes["spec_drift"] = self.notes.get("spec_drift", 0) + 1

    def finish(self):
        os.makedirs(EVIDENCE, exist_ok=True)
        rc = 0
        for key, n in sorted(self.known_hit.items()):
            print("KNOWN-FINDING: property=%s %s (%d cases; %s)" % (
                self.prop, key, n, self.known[key].get("what", "")))
        if self.viol:
            rc = 1
            d = os.path.join(REPLAYS, self.prop)
            os.makedirs(d, exist_ok=True)
            for key, rec in self.viol.items():
                h = hashlib.sha1(key.encode("utf-8", "replace")).hexdigest()[:12]
                path = os.path.join(d, "%s-%s.json" % (self.tier, h))
                rec = dict(rec)
                rec.update({"property": self.prop, "key": key,
                            "cmd": "./check %s --replay %s" % (self.prop, path)})
                with open(path, "w") as f:
                    json.dump(rec, f, indent=1, default=str)
                print("VIOLATION property=%s replay=%s key=%s" % (self.prop, path, key[:200]))
        if self.cov["evaluations"] == 0 and rc == 0:
            print("INCONCLUSIVE property=%s reason=dead driver (0 evaluations)" % self.prop)
            rc = 2
        ev = self.cov["evaluations"]
        if rc == 0 and ev and self.notes.get("spec_drift", 0) > max(5, 0.01 * ev):
            print("INCONCLUSIVE property=%s reason=spec drift %d of %d" % (
                self.prop, self.notes["spec_drift"], ev))
            rc = 2
        cov = dict(self.cov)
        cov.update(self.notes)
        cov["known_findings_hit"] = {k: v for k, v in self.known_hit.items()}
        if self.drifts:
            cov["spec_drift_samples"] = self.drifts[:5]
        evd = {"property_id": self.prop, "tier": self.tier, "seed": int(self.seed),
               "level": self.level, "coverage": cov, "assumptions": self.assumptions,
               "wall_s": round(time.time() - self.t0, 2),
               "violations": len(self.viol)}
        # a run against a scratch worktree (VERIF_REPO, seeded change) must not replace the evidence of /repo
        evpath = os.path.join(EVIDENCE, self.prop + ".json") if REPO == "/repo" else os.path.join(BUILD, self.prop + ".scratch-evidence.json")
        os.makedirs(os.path.dirname(evpath), exist_ok=True)
        with open(evpath, "w") as f:
            json.dump(evd, f, indent=1, default=str)
        if rc == 0:
            print("OK property=%s tier=%s evaluations=%d nontrivial=%d states=%d wall=%.1fs" % (
                self.prop, self.tier, cov["evaluations"], cov["distinct_nontrivial"], cov["states"],
                time.time() - self.t0))
        return rc
