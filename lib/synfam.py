# One pipeline, several properties: C01 (structure preserved), C02 (idempotent), C05 (comments),
# C11 (variant gating).  Each property's check runs the pipeline and reports only its own verdicts.
import json, collections
import vlib, syn

LEVEL = "model_checking"


def instance_key(kind, minrow, src, langs):
    return "%s|%s|%s|%s" % (kind, syn.rowname(minrow), ",".join(sorted(langs)), json.dumps(src))


def run_family(ck, prop, sub=None):
    tier = ck.tier
    vecs = syn.generate(ck, tier, ck.seed, emit_sim=(tier == "thorough"))
    layouts = syn.load_layouts()
    rows = syn.QUICK_ROWS if tier == "quick" else syn.all_rows()
    if sub is None:
        sub = (prop == "C01")
    if tier == "quick":
        # printing every sub-node on its own is the expensive part: it is done for two layouts
        if sub:
            res = syn.run_synprint(ck, vecs, rows, layouts[:2], sub=True) + syn.run_synprint(ck, vecs, rows, layouts[2:], sub=False)
        else:
            res = syn.run_synprint(ck, vecs, rows, layouts, sub=False)
    else:
        # thorough: every derivation with the covering option rows; the derivations of the quick bound (at most two
        # non-default choices) additionally with all 128 option combinations
        small = [v for v in vecs if len(v["ch"]) <= 2]
        res = syn.run_synprint(ck, vecs, syn.QUICK_ROWS, layouts[:2], sub=sub) + \
            syn.run_synprint(ck, vecs, syn.QUICK_ROWS, layouts[2:], sub=False) + \
            syn.run_synprint(ck, small, [r for r in rows if r not in syn.QUICK_ROWS], layouts, sub=False)
        ck.notes["all_option_rows_on"] = len(small)
    inst = collections.defaultdict(lambda: {"langs": set(), "rec": None})
    conf = collections.Counter()
    nontrivial = set()
    for v, L, src, r in res:
        if "panic" in r:
            ck.cov["evaluations"] += 1
            ck.violation("panic|%s" % json.dumps(src), {"vector": {"src": src, "ch": v["ch"]}, "impl": r})
            continue
        accepted_v = [ln for ln in v["v"] if r["langs"][ln]["ok"]]
        for ln, lr in r["langs"].items():
            status = "v" if ln in v["v"] else "x" if ln in v["x"] else "u"
            ck.cov["evaluations"] += lr.get("prints", 0) + 1
            conf[(status, lr["ok"], bool(lr.get("abs_equal")))] += 1
            if status == "v":
                ck.cov["traces_validated_against_impl"] += 1
                if lr["ok"] and lr.get("abs_equal"):
                    if any(c != 0 for c in v["ch"]):
                        nontrivial.add(json.dumps(v["ch"]))
            if prop == "C11":
                rec = {"vector": {"src": src, "ch": v["ch"], "layout": L["name"], "lang": ln, "v": v["v"], "x": v["x"], "t": v["t"]}, "impl": lr}
                if status == "x" and lr["ok"]:
                    ck.violation(instance_key("invalid-accepted", [0, 0], src, [ln]), rec)
                if status == "v" and not lr["ok"] and accepted_v:
                    ck.violation(instance_key("valid-rejected-inconsistently", [0, 0], src, [ln]), rec)
                if status == "v" and lr["ok"] and not lr.get("abs_equal") and accepted_v and \
                        any(r["langs"][o].get("abs_equal") for o in accepted_v):
                    ck.violation(instance_key("tree-differs-between-variants", [0, 0], src, [ln]), rec)
                if ln == "posix" and lr["ok"] and lr.get("nonposix"):
                    ck.violation(instance_key("posix-accepts-" + "+".join(lr["nonposix"]), [0, 0], src, [ln]), rec)
        for f in (r["fails"] or []):
            if syn.FAIL_PROP.get(f["kind"]) != prop:
                continue
            # key = kind | minimal option set | signature of where it failed (harness/cmd/syn/sig.go)
            k = "%s|%s|%s" % (f["kind"], syn.rowname(f["minrow"]), f.get("sig", ""))
            d = inst[k]
            d["langs"].add(f["lang"]); d["n"] = d.get("n", 0) + 1
            if d["rec"] is None or len(src) < len(d["rec"]["vector"]["src"]):
                d["rec"] = {"vector": {"src": src, "ch": v["ch"], "layout": L["name"], "lang": f["lang"], "row": f["row"],
                                       "t": v["t"], "n": v["n"], "m": v["m"]},
                            "impl": {"kind": f["kind"], "sig": f.get("sig"), "detail": f.get("detail", "")[:1500], "out": f.get("out", "")}}
        if len(ck.cov["samples"]) < 4 and any(c for c in v["ch"]) and not r["fails"]:
            ck.sample({"ch": v["ch"], "layout": L["name"], "src": src, "valid_in": v["v"], "rejected_in": v["x"]})
    for k, d in inst.items():
        d["rec"]["instances"] = d["n"]
        d["rec"]["variants"] = sorted(d["langs"])
        for _ in range(d["n"]):
            ck.violation(k, d["rec"])
    ck.cov["distinct_nontrivial"] = len(nontrivial)
    ck.cov["exhaustive"] = True
    ck.cov["rule"] = ("every derivation of ShSyntax with its non-default choices within the first MaxLen choice points "
                      "(TLC BFS), x %d layouts x 5 variants x %d printer option rows; non-trivial = distinct derivation "
                      "with a non-default choice whose rendering the parser mapped to exactly the spec's tree" % (len(layouts), len(rows)))
    ck.notes["conformance"] = {"%s/%s/%s" % k: n for k, n in sorted(conf.items())}
    ck.notes["layouts"] = [l["name"] for l in layouts]
    ck.notes["option_rows"] = len(rows)
    ck.assumptions += ["the grammar menu of spec/ShSyntax.tla (bytes outside it are not generated)",
                       "Abs projection by reflection (harness/cmd/syn/abs.go); `<<-` bodies compared modulo leading tabs"]


def replay_family(ck, prop, rec):
    h = vlib.build_harness("syn")
    v = rec["vector"]
    job = {"src": v["src"], "langs": syn.LANGS, "t": v.get("t"), "n": v.get("n"), "m": v.get("m"),
           "rows": [v.get("row", [0, 0])], "sub": prop == "C01"}
    r = vlib.run_harness(h, "synprint", [job])[0]
    want_kind = rec["key"].split("|", 1)[0]
    want_sig = rec["key"].split("|", 2)[2] if rec["key"].count("|") >= 2 else None
    for f in (r.get("fails") or []):
        if f["kind"] == want_kind and (prop == "C11" or f.get("sig") == want_sig):
            ck.violation(rec["key"], {"vector": v, "impl": f})
            return
    if prop == "C11":
        lr = r["langs"].get(v.get("lang", ""), {})
        if want_kind == "invalid-accepted" and lr.get("ok"):
            ck.violation(rec["key"], {"vector": v, "impl": lr})
        if want_kind.startswith("posix-accepts") and lr.get("nonposix"):
            ck.violation(rec["key"], {"vector": v, "impl": lr})
