# Shared corpus of shell sources (used by C07, C14, C15 until the ShSyntax generator exists).
#
#   sources(variant=None)  -> list[str]   sources (latin-1 str: one char per byte) that parse
#                                         in `variant` ("bash","posix","mksh","bats","zsh");
#                                         variant=None: every extracted string, parsing or not
#   classified()           -> list[(src, ok_variants)]
#
# The strings are extracted at run time from the repository's own test tables by the Go engine
# "corpus" of the synaux harness family (go/parser + go/ast over the *_test.go files of the
# working tree named by VERIF_REPO, default /repo), plus a hand-written list of tricky inputs.
# Nothing is cached on disk; the result is memoised per process.  A generator can be plugged in
# later by appending to EXTRA_PROVIDERS (callables returning iterables of latin-1 strings).
import vlib

VARIANTS = ["bash", "posix", "mksh", "bats", "zsh"]

TEST_FILES = [
    "syntax/filetests_test.go",
    "syntax/printer_test.go",
    "syntax/parser_test.go",
    "interp/interp_test.go",
]

# Hand-written inputs that put bytes where the lexer peeks, use Zsh/mksh/Bats-only node fields,
# comments in every container, here-docs, etc.
TRICKY = [
    "echo a\\\r\nb\n", "echo a\\\nb\n", "a\\\r\n", "\\\r\n", "\\\r", "\\", "a\r\nb\r\n", "\r",
    "echo @()\n", "echo @(a)\n", "echo @(a|b) +(c) ?(d) *(e) !(f)\n", "@() { :; }\n", "echo *\n", "echo *(\n",
    "echo <1-20>\n", "echo <->\n", "echo <5->\n", "echo <-10>\n", "echo a<1-2>b\n", "echo <1-2\n", "echo <12345678901234567890-2>\n",
    "echo ${=x} ${==x} ${~x} ${~~x} ${^x} ${^^x} ${=~^x}\n", "echo ${=}\n", "echo ${==}\n", "echo ${^^=x}\n",
    "echo $'a\\'b' $\"c\"\n", "echo $'\\x41\\u00e9'\n",
    "echo \xc3\xa9\xe2\x82\xac\xf0\x9f\x98\x80\n", "\xc3\xa9=1\n", "echo \xc3\n", "echo \xff\xfe\n", "\xe2\x82",
    "cat <<EOF\nfoo $bar `baz`\nEOF\n", "cat <<-EOF\n\t\tfoo\n\tEOF\n", "cat <<'EOF'\n$x\nEOF\n", "cat <<EOF\nfoo", "cat <<EOF", "cat <<E\\\nOF\nx\nEOF\n",
    "cat <<A <<B\na\nA\nb\nB\n", "cat <<EOF # c\nx\nEOF\n",
    "echo `echo \\`echo \\\\\\`date\\\\\\`\\``\n", "echo \"`echo \\\"x\\\"`\"\n", "echo `a\\\nb`\n",
    "foo $$ bar\n", "foo;$$\n", "foo '$$'\n", "foo $$bar\n", "foo\n$$\n",
    "# c1\nfoo # c2\n# c3\n", "if a; then b # c\n# d\nelse # e\nc\n# f\nfi # g\n",
    "case x in # a\n# b\ny) z ;; # c\n# d\nesac # e\n", "a=( # c\n[1]=x # d\n# e\ny\n# f\n)\n",
    "case i in\nx)\n\ta\n\t;;\n\t#a\n#b\n\t#c\ny) ;;\nesac", "case i in\nx) a ;; #a\n#b\n#c\nesac\n",
    "a=(\n\tb # x\n\t# y\n\t# z\n\tc\n)\n", "a=(\n\t[1]=b # x\n\t# y\n)\n", "foo # a\n# b\n# c\nbar\n", "foo <<EOF # a\nx\nEOF\n# b\n",
    "#foo\n{ bar;", "# c\n( foo", "foo # c\n{ a; b", "if a; then b # c\n", "a=(b # c\n", "case x in a) b # c\n",
    "{ # c\nfoo\n# d\n}\n", "( # c\nfoo\n# d\n)\n", "foo | # c\nbar\n", "foo && # c\n# d\nbar\n",
    "while a # c\ndo b # d\n# e\ndone # f\n", "for i in 1 2 # c\ndo :; done\n", "$( # c\nfoo # d\n)\n", "f() # c\n{ :; }\n",
    "declare -a foo=(b c)\n", "local x=1 y\n", "export A=b\n", "readonly r\n", "typeset -i n\n", "nameref n=x\n",
    "echo ${a:h} ${a:t:r} ${a:h2}\n", "echo ${(f)x} ${(@s/:/)y}\n", "echo ${${a}#b} ${\"${a}\"}\n", "echo ${+x} ${%x}\n",
    # zsh subscript flags with and without an argument (FlagsArithm.X is nil for the latter)
    "echo ${a[(w)]} next\n", "echo ${a[(r)x]} $b[(i)y] ${a[(e)]}\n",
    "echo ${a[1,2]} ${a:1:2} ${a/b/c} ${a//b} ${!a*} ${!a@} ${a@Q} ${#a} ${!a} ${a:-b} ${a[@]} ${a[1]:-x}\n",
    # all-zero sub-structs (an empty Replace) and other "empty but present" nodes
    "echo ${a/} ${a//} ${a/#} ${a:-} ${a:0:0}\n", "a=() b=('') c=([0]=)\n",
    "echo $((1 + 2 * (3 - x++)))  $[1+2]\n", "((a = b ? c : d, e))\n", "let a=1 b++\n", "for ((i = 0; i < 3; i++)); do :; done\n",
    "[[ a == b && -n c || ! ( d =~ e(f|g) ) ]]\n", "[[ a -nt b ]]\n",
    "time -p foo\n", "time\n", "coproc foo { bar; }\n", "coproc bar\n", "select i in a b; do :; done\n",
    "function f { :; }\n", "function f() ( : )\n", "f() { :; } >x 2>&1\n", "function f g { :; }\n", "function { :; }\n", "() { :; }\n",
    "foo <(bar) >(baz) <<<x &>y &>>z 2>&1 {fd}>w >|v <>u\n", "foo >!a >>|b\n", "foo =(bar)\n",
    "@test \"desc\" { :; }\n", "@test desc { :; }\n",
    "a=1 b+=2 c[3]=4 d=(5 [6]=7) e=([x]=y) cmd\n", "a[1+2]+=3\n",
    "foo & bar; baz |& qux\n", "! foo\n", "foo && bar || baz\n", "if a; then b; elif c; then d; else e; fi\n",
    "until a; do b; done\n", "for i; do :; done\n", "for i in; do :; done\n", "case a in b|c) d ;& e) f ;;& *) g ;| h) i ;; esac\n",
    "echo {a,b}{1..3} ~/x ~u/y a*b?c[d-e]\n", "echo \"a $b ${c} $(d) `e` $((f))\" 'g' $'h'\n",
    "x=$(<file)\n", "echo ${ foo; } ${|bar;}\n", "echo $(( 1 # c\n))\n",
    "foo\x00bar\n", "fo\x00o", "\x00", "",
    " ", "\n", ";", "&", "foo;;", "(", "((", "$(", "${", "\"", "'", "`", "foo |", "if", "a=(", "[[", "case x in",
    "echo ${a:-b", "echo $((1+", "f() {", "<<", "<", ">", "echo >", "for", "for i in", "!", "}", ")", "fi", "esac", "done",
    "foo)\n", "foo }\n", "echo $(foo))\n", "echo \"${x\"\n", "a=(b\n", "[[ a ]\n", "[[ a == ]]\n", "(( 1 + ))\n", "case x in (\n",
    "if a then b; fi\n", "for 1 in a; do :; done\n", "function\n", "foo &&\n", "foo ||\n", "foo |\n", "echo ${a!}\n", "echo ${a b}\n",
]

EXTRA_PROVIDERS = []

_memo = {}


def generated(ck, tier, max_layouts=None):
    """Sources from the TLA+ grammar generator (spec/ShSyntax.tla via lib/syn.py): every emitted
    derivation rendered under the spec's layouts. Only concatenation happens here."""
    import syn
    vecs = syn.generate(ck, tier, ck.seed, emit_sim=False)
    layouts = syn.load_layouts()
    if max_layouts:
        layouts = layouts[:max_layouts]
    out, seen = [], set()
    for v in vecs:
        for L in layouts:
            try:
                src = syn.render(v["r"], L)
            except Exception:
                continue
            if src and src not in seen and len(src) <= 4096:
                seen.add(src)
                out.append(src)
    return out


def classified(harness=None, extra=()):
    """[(src, [variants in which it parses])] for every extracted + tricky + provided source."""
    extra = list(extra)
    key = (vlib.REPO, len(extra), hash(tuple(extra)))
    if key in _memo:
        return _memo[key]
    h = harness or vlib.build_harness("synaux")
    extra = list(TRICKY) + extra
    for prov in EXTRA_PROVIDERS:
        extra.extend(prov())
    vec = {"repo": vlib.REPO, "files": TEST_FILES, "maxlen": 4096, "extra": extra}
    res = vlib.run_harness(h, "corpus", [vec])[0]
    if "harness_error" in res or "panic" in res:
        raise vlib.Inconclusive("corpus extraction failed: %r" % (res,))
    out = [(r["s"], r["ok"]) for r in res["sources"]]
    if len(out) < 1000:
        raise vlib.Inconclusive("corpus extraction found only %d sources" % len(out))
    _memo[key] = out
    return out


def sources(variant=None, harness=None, extra=()):
    cl = classified(harness, extra)
    if variant is None:
        return [s for s, _ in cl]
    return [s for s, ok in cl if variant in ok]
