# Single source of truth for MANIFEST.json (python3 lib/mkmanifest.py regenerates it).
# One entry per claimed property; everything else is listed under not_applicable.
CHECKS = {
    "C34": dict(
        level="model_checking", engine="ShEnviron", design="7/C34",
        technique="TLA+ spec ShEnviron model-checked exhaustively by TLC (all pair lists up to a bound); every state replayed on expand.ListEnviron/FuncEnviron",
        text="TLC enumerates every pair list up to the bound over an alphabet built for the edge cases the property names, checks the contract's own consistency (two independent definitions of last-write-wins, sortedness, validity), and each state becomes one conformance test of the real ListEnviron (Get for 15 names, Each order, early stop, input not mutated) and FuncEnviron.",
        note="Trusts TLC, the JSON vector pipeline and the harness comparison; bounded list length (3 quick / 4 thorough) and a fixed alphabet of pairs and query names; non-Windows behaviour only."),
    "C33": dict(
        level="model_checking", engine="ShArrays", design="7/C33",
        technique="TLA+ spec ShArrays (map vs (list,indexes) refinement) model-checked by TLC; complete state graph walked: every edge replayed on the real sparse-array helpers and as a shell program in interp vs bash",
        text="TLC checks that the representation-level contract of the sparse array helpers refines the index->value map on the complete state graph (indices 0..3 quick / 0..5 thorough, three values incl. empty). Every edge is one call of the real helpers through hook H5 (result must be the canonical representation of the target state) and one shell program run by interp and bash whose dump (values, keys, count, elements, slices, a[-1]) must equal the dump the spec defines; seeded random walks of length <=20 run at top level, in a function with a local array and in a subshell.",
        note="Trusts TLC, the renderer of operations to shell syntax and bash 5.2 as reference; bounded index range and value set; negative subscripts only when in range (out-of-range is an error path covered by C28)."),
}

NOT_YET = "check not built yet in this session; the TLA+-based design for it is in DESIGN.md section 7"
