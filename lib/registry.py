# Single source of truth for MANIFEST.json (python3 lib/mkmanifest.py regenerates it).
# One entry per claimed property; everything else is listed under not_applicable.
CHECKS = {
    "C34": dict(
        level="model_checking", engine="ShEnviron", design="7/C34",
        technique="TLA+ spec ShEnviron model-checked exhaustively by TLC (all pair lists up to a bound); every state replayed on expand.ListEnviron/FuncEnviron",
        text="TLC enumerates every pair list up to the bound over an alphabet built for the edge cases the property names, checks the contract's own consistency (two independent definitions of last-write-wins, sortedness, validity), and each state becomes one conformance test of the real ListEnviron (Get for 15 names, Each order, early stop, input not mutated) and FuncEnviron.",
        note="Trusts TLC, the JSON vector pipeline and the harness comparison; bounded list length (3 quick / 4 thorough) and a fixed alphabet of pairs and query names; non-Windows behaviour only."),
}

NOT_YET = "check not built yet in this session; the TLA+-based design for it is in DESIGN.md section 7"
