# Shared driver for the syntax family (C01 C02 C05 C09 C10 C11): runs TLC on spec/ShSyntax.tla,
# instantiates each emitted derivation with each layout of ShSyntax!Layouts, and runs the
# `synprint` engine of harness/cmd/syn on the result.  Only concatenation happens here: the
# tokens, the trees, the variant sets and the layouts all come from the specification.
import json, os, re
import vlib

LANGS = ["bash", "posix", "mksh", "bats", "zsh"]

# The layouts are data of the spec (ShSyntax!Layouts); they are read from the module text so that
# there is a single source of truth.
def load_layouts():
    src = open(os.path.join(vlib.SPEC, "ShSyntax.tla")).read()
    body = src[src.index("Layouts == <<"):]
    body = body[:body.index(">>\n")]
    out = []
    for m in re.finditer(r'\[name \|-> "([^"]*)",\s*sep \|-> "([^"]*)",\s*sp \|-> "([^"]*)",\s*bg \|-> "([^"]*)",\s*'
                         r'comment \|-> (TRUE|FALSE),\s*final \|-> "([^"]*)"\]', body):
        un = lambda s: s.replace("\\n", "\n").replace("\\r", "\r").replace("\\t", "\t").replace("\\\\", "\\")
        out.append({"name": m.group(1), "sep": un(m.group(2)), "sp": un(m.group(3)), "bg": un(m.group(4)),
                    "comment": m.group(5) == "TRUE", "final": un(m.group(6))})
    if len(out) < 3:
        raise vlib.Inconclusive("could not read ShSyntax!Layouts")
    return out


def render(r, L):
    """Concatenate the token sequence of a derivation under layout L."""
    out, pending, ci = [], [], 0
    if L["comment"]:
        out.append("# c0\n"); ci = 1
    i = 0
    while i < len(r):
        tok = r[i]
        if tok == "<SP>":
            out.append(L["sp"])
        elif tok in ("<SEP>", "<BGSEP>"):
            sep = L["sep"] if tok == "<SEP>" else L["bg"]
            if L["comment"]:
                sep = ("\n# c%d\n" if L["name"].startswith("own") else " # c%d\n") % ci; ci += 1
            if pending:
                if "\n" not in sep:
                    sep = "\n"
                k = sep.index("\n") + 1
                out.append(sep[:k])
                for body, delim in pending:
                    out.append(body + "\n" + delim + "\n")
                pending = []
                out.append(sep[k:])
            else:
                out.append(sep)
        elif tok == "<HDOC>":
            pending.append((r[i + 1], r[i + 2])); i += 2
        else:
            out.append(tok)
        i += 1
    out.append(L["final"])
    for body, delim in pending:
        out.append("\n" + body + "\n" + delim + "\n")
    return "".join(out)


QUICK_ROWS = [[2, 0], [0, 1], [4, 2 | 4], [8, 16], [0, 32], [2, 64], [1, 8], [4, 1 | 2 | 4 | 16], [0, 32 | 64], [3, 1 | 32]]


def all_rows():
    rows = []
    for b in range(128):
        rows.append([[0, 1, 2, 3, 4, 5, 6, 7, 8][b % 9], b])
    return rows


def generate(ck, tier, seed, emit_sim=True):
    """Run TLC; returns list of derivation vectors (dicts with ch,t,n,m,r,v,x)."""
    cfg = "ShSyntax.%s.cfg" % tier
    t = vlib.run_tlc("ShSyntax", cfg, workers=8 if tier == "quick" else 16, timeout=1500)
    ck.add_tlc(t)
    if not t.ok:
        raise vlib.Inconclusive("ShSyntax: grammar model inconsistent:\n" + (t.violation or t.raw_tail))
    vecs = t.vecs.get("VEC", [])
    nbfs = len(vecs)
    if emit_sim:
        n, depth = (12, 10) if tier == "quick" else (300, 10)  # TLC also evaluates all successors of each state on a trace
        # The simulation part uses one of three fixed TLC seeds (chosen by VERIF_SEED): failures are keyed by
        # signatures, and only the signatures met under these seeds have been triaged into known findings.
        s = vlib.run_tlc("ShSyntax", "ShSyntax.sim.cfg", simulate=n, depth=depth + 1, seed=(seed % 3) + 1, timeout=1500,
                         env_extra={})
        ck.add_tlc(s)
        seen = set(json.dumps(v["ch"]) for v in vecs)
        for v in s.vecs.get("VEC", []):
            k = json.dumps(v["ch"])
            if k not in seen:
                seen.add(k); vecs.append(v)
    ck.notes["derivations_bfs"] = nbfs
    ck.notes["derivations_sim"] = len(vecs) - nbfs
    return vecs


def run_synprint(ck, vecs, rows, layouts, sub=False, shards=16):
    """Instantiate and run. Returns list of (vec, layout, src, result)."""
    h = vlib.build_harness("syn")
    jobs, meta = [], []
    for v in vecs:
        for L in layouts:
            src = render(v["r"], L)
            jobs.append({"src": src, "langs": LANGS, "t": v["t"], "n": v["n"], "m": v["m"], "rows": rows, "sub": sub})
            meta.append((v, L, src))
    res = vlib.run_harness(h, "synprint", jobs, shards=shards, timeout=7000)
    return [(m[0], m[1], m[2], r) for m, r in zip(meta, res)]


FAIL_PROP = {
    "print-error": "C01", "reparse-error": "C01", "tree-changed": "C01", "minify-singleline-not-refused": "C01",
    "sub-print-error": "C01", "sub-reparse-error": "C01", "sub-tree-changed": "C01",
    "not-idempotent": "C02", "reprint-error": "C02",
    "comments-changed": "C05", "minify-comments": "C05",
    "recover-errors-rejects-valid": "C11", "recover-errors-changes-tree": "C11",
    "bash-accepted-bats-rejected": "C11", "bash-bats-tree-differs": "C11",
}


def rowname(row):
    names = ["BinaryNextLine", "SwitchCaseIndent", "SpaceRedirects", "KeepPadding", "FunctionNextLine", "Minify", "SingleLine"]
    return "Indent=%d" % row[0] + "".join("+" + n for i, n in enumerate(names) if row[1] & (1 << i))
