# C13 Quote produces a word that expands back to the string.  Spec: ShQuote (reader contract) +
# ShQuoteTrace (trace validation).
#  (V) the Go engine calls the real syntax.Quote(s, lang) for every enumerated (s, lang) and returns the
#      event {s, cls, lang, ok, q}; the events are written to ndjson files and judged by TLC against the
#      reader contract: failure only where FailAllowed, else q is one word of literal/quoted parts, not a
#      reserved word, and Unquote(q, lang) = s.  TLC also checks the reader's own laws (ShQuote.<tier>.cfg).
#  (R) the same q is parsed by syntax.Parser (as an argument and as a command word: exactly one Word with
#      only Lit/SglQuoted/DblQuoted parts) and expanded by expand.Literal back to s (done by the engine).
#  (O) q is evaluated by bash (variants bash, bats) and dash (posix) as `printf %s <q>`: output must be s.
import json, os, threading
import vlib

LEVEL = "model_checking"
LANGS = ["bash", "posix", "mksh", "bats", "zsh"]
BATCH = 20000          # strings (trace lines, 5 variants each) per TLC run

KEYWORDS = ["!", "[[", "]]", "case", "coproc", "do", "done", "elif", "else", "esac", "fi", "for", "function", "if",
            "in", "select", "then", "time", "until", "while", "{", "}", "repeat", "foreach", "end", "always", "{}",
            "declare", "export", "local", "let", "-n", "--", "a=b", "~", "~root", "-", "[", "]", "test"]
# characters worth mixing into longer strings: shell metacharacters, quotes, blanks, controls, hex digits
# (mksh's greedy \x), multi-byte printable / non-printable / noncharacter / > U+FFFD code points, invalid bytes
POOL = ([bytes([c]) for c in b";\"'()$|&><` \t\r\n\\#{}~*?[]=!^%,:+-@/._"] * 2 +
        [b"a", b"b", b"f", b"0", b"1", b"9", b"A", b"F", b"x", b"z"] +
        [bytes([c]) for c in (1, 7, 8, 11, 12, 27, 31, 127)] * 2 +
        [c.encode() for c in ("\u00e9", "\u20ac", "\U0001F600", "\u0085", "\u200b", "\ufffd", "\ufffe", "\uffff",
                              "\U000E0001", "\U0010FFFF", "\u00ad", "\u3000", "\U00010000")] * 2 +
        [b"\x80", b"\xff", b"\xc3", b"\xe2\x82", b"\xf0\x9f\x98", b"\xc0\x80", b"\xed\xa0\x80", b"\xf4\x90\x80\x80"] * 2)


CRIT2 = b"'\"\\$` \t\n;&|<>()#{}~*?[]=!a1f" + bytes([1, 0x1b, 0x7f, 0xc3, 0xa9, 0xff])
CRIT3 = b"'\"\\$`a\n" + bytes([1])


def enumerate_strings(ck):
    """Returns (list of byte strings, description)."""
    strs = [b""] + [bytes([c]) for c in range(1, 256)]
    strs += [b"\x00", b"a\x00", b"\x00a", b"a\x00b", b"'\x00", b"\x01\x00"]
    strs += [k.encode() for k in KEYWORDS]
    strs += [k.encode() + b" x" for k in KEYWORDS[:10]] + [b"x" + k.encode() for k in KEYWORDS[:10]]
    # every string of length 2 over the bytes that matter to a shell, and of length 3 over the worst of them
    strs += [bytes([a, b]) for a in CRIT2 for b in CRIT2]
    strs += [bytes([a, b, c]) for a in CRIT3 for b in CRIT3 for c in CRIT3]
    pairs = [bytes([a, b]) for a in range(1, 256) for b in range(1, 256)]
    if ck.tier == "quick":
        strs += ck.rng.sample(pairs, 1200)
        nrand = 1200
    else:
        strs += pairs
        nrand = 12000
    for _ in range(nrand):
        n = ck.rng.randint(2, 9)
        strs.append(b"".join(ck.rng.choice(POOL) for _ in range(n)))
    seen, out = set(), []
    for s in strs:
        if s not in seen:
            seen.add(s)
            out.append(s)
    return out


def key_of(why, ev):
    return "%s: lang=%s s=%s" % (why, ev["lang"], json.dumps(bytes(ev["s"]).decode("latin-1")))


def run_trace_batch(ck, k, lines, out):
    work = vlib.scratch("c13-")
    try:
        path = os.path.join(work, "trace%d.ndjson" % k)
        with open(path, "w") as f:
            for ln in lines:
                f.write(json.dumps(ln) + "\n")
        out[k] = vlib.run_tlc("ShQuoteTrace", "ShQuoteTrace.cfg", workers=16, timeout=1500, env_extra={"VERIF_TRACE": path})
    except Exception as e:
        out[k] = e
    finally:
        import shutil
        shutil.rmtree(work, ignore_errors=True)


def validate(ck, h, strs, langs=LANGS):
    """Quote every string in every variant, validate the events by TLC, the Go parser/expander and the shells."""
    vecs = [{"s": list(s), "lang": lang} for s in strs for lang in langs]
    res = vlib.run_harness(h, "quote", vecs, shards=8)
    events = []          # one per (s, lang)
    lines = []           # one per s: variants with the same outcome grouped
    for si, s in enumerate(strs):
        groups = {}
        cls = None
        for li, lang in enumerate(langs):
            v, r = vecs[si * len(langs) + li], res[si * len(langs) + li]
            if r.get("panic") or r.get("harness_error"):
                ck.cov["evaluations"] += 1
                ck.violation(key_of("Quote panicked", v), {"vector": v, "impl": r})
                continue
            ev = dict(v, **r)
            ev["line"] = len(lines)
            events.append(ev)
            cls = r["cls"]
            groups.setdefault((r["ok"], tuple(r["q"])), []).append(lang)
        if cls is not None:
            lines.append({"s": list(s), "cls": cls, "res": [{"langs": ls, "ok": ok, "q": list(q)} for (ok, q), ls in groups.items()]})
    # ---- (V) trace validation by TLC, in batches (two TLC runs at a time)
    batches = [lines[o:o + BATCH] for o in range(0, len(lines), BATCH)]
    out = {}
    for o in range(0, len(batches), 2):
        ths = [threading.Thread(target=run_trace_batch, args=(ck, k, batches[k], out)) for k in range(o, min(o + 2, len(batches)))]
        for t in ths:
            t.start()
        for t in ths:
            t.join()
    rejected = {}
    for k, b in enumerate(batches):
        t = out[k]
        if isinstance(t, Exception):
            raise vlib.Inconclusive("ShQuoteTrace batch %d: %s" % (k, t))
        ck.add_tlc(t)
        if not t.ok:
            raise vlib.Inconclusive("ShQuoteTrace batch %d failed:\n%s" % (k, t.violation or t.raw_tail))
        if t.distinct != len(b):
            raise vlib.Inconclusive("ShQuoteTrace batch %d: TLC visited %d of %d events" % (k, t.distinct, len(b)))
        for st in t.vecs.get("STAT", []):
            rejected[(k * BATCH + st["idx"] - 1, st["lang"])] = st["why"]
    # ---- (O) real shells
    shell_jobs = {"bash": [], "dash": []}
    for i, ev in enumerate(events):
        if ev["ok"] and ev["lang"] in ("bash", "bats", "posix"):
            shell_jobs["dash" if ev["lang"] == "posix" else "bash"].append(i)
    shell_out = {}
    for sh, idx in shell_jobs.items():
        snippets = ["printf %s " + bytes(events[i]["q"]).decode("latin-1") for i in idx]
        rs = vlib.run_shell_evals(snippets, shell=sh, locale="C.UTF-8")
        for i, r in zip(idx, rs):
            shell_out[i] = r
    # ---- verdicts
    nontriv = 0
    for i, ev in enumerate(events):
        ck.cov["evaluations"] += 1
        ck.cov["traces_validated_against_impl"] += 1
        rec = {"vector": {"s": ev["s"], "lang": ev["lang"]},
               "impl": {k: ev.get(k) for k in ("ok", "q", "errmsg", "kinds", "argpos", "cmdpos", "lit", "literr")}}
        if ev["ok"] and ev["q"] != ev["s"]:
            nontriv += 1
        bad = False
        why = rejected.get((ev["line"], ev["lang"]))
        if why:
            if why.startswith("Dev_"):
                key = why
            elif "reserved word" in why:
                key = "unquoted reserved word: " + bytes(ev["q"]).decode("latin-1")
            else:
                key = key_of(why, ev)
            ck.violation(key, dict(rec, spec=why)); bad = True
        if ev["ok"]:
            if ev.get("argpos"):
                ck.violation(key_of("syntax.Parser does not read the result as one word of Lit/SglQuoted/DblQuoted parts (%s)" % ev["argpos"], ev), rec); bad = True
            elif ev.get("literr") or ev.get("lit") != ev["s"]:
                ck.violation(key_of("expand.Literal gives a different string", ev), rec); bad = True
            if i in shell_out:
                r = shell_out[i]
                ck.cov["evaluations"] += 1
                got = [ord(c) for c in r["out"]]
                if got != ev["s"] or r["rc"] != 0:
                    sh = "dash" if ev["lang"] == "posix" else "bash"
                    ck.violation(key_of("%s prints a different string for `printf %%s <q>`" % sh, ev), dict(rec, shell={"out": got, "rc": r["rc"]})); bad = True
        if not bad and ev["ok"] and ev["q"] != ev["s"] and len(ev["s"]) > 2:
            ck.sample({"s": bytes(ev["s"]).decode("latin-1"), "lang": ev["lang"], "q": bytes(ev["q"]).decode("latin-1")}, cap=6)
    ck.cov["distinct_nontrivial"] += nontriv
    return events


def run(ck):
    h = vlib.build_harness("formatquote")
    # the reader's own laws
    t = vlib.run_tlc("ShQuote", "ShQuote.%s.cfg" % ck.tier, workers=8, timeout=900)
    ck.add_tlc(t)
    if not t.ok:
        raise vlib.Inconclusive("ShQuote: a law of the reader contract fails in the model:\n" + (t.violation or t.raw_tail))
    strs = enumerate_strings(ck)
    ck.notes["strings"] = len(strs)
    ck.notes["events"] = len(strs) * len(LANGS)
    ck.cov["exhaustive"] = True
    ck.cov["rule"] = ("one event per (string, variant): all byte strings of length <= 1, all strings of length 2 over 35 critical bytes and "
                      "of length 3 over 8, %s strings of length 2, NUL cases, "
                      "keywords, seeded random strings of 2..9 pool tokens (metacharacters, controls, multi-byte, invalid UTF-8), "
                      "x 5 variants; non-trivial = Quote succeeded and changed the string"
                      % ("2200 sampled" if ck.tier == "quick" else "all 65025"))
    ck.assumptions += ["rune classes (printable / invalid / > U+FFFD) come from Go's unicode tables via the harness",
                       "mksh, zsh, bats: no shell installed, the oracle is the spec's reader and the Go parser",
                       "bash 5.2.15 and dash with LC_ALL=C.UTF-8"]
    validate(ck, h, strs)


def replay(ck, rec):
    h = vlib.build_harness("formatquote")
    v = rec["vector"]
    validate(ck, h, [bytes(v["s"])], [v["lang"]])
