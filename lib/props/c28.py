# C28 The interpreter never panics.  Spec: ShBuiltins.
#
# TLC enumerates (BFS over a choice-sequence machine) five families of vectors:
#   getopts  histories of getopts calls with changing optstring/arguments/OPTIND; the contract's
#            cursor function is total and TLC checks on every state that it indexes inside the
#            CURRENT argument list (GInRange); for POSIX-defined histories the spec also fixes
#            status / option / OPTARG / OPTIND per call
#   count    shift/break/continue/return/exit x argument vectors (<= 2 words of the alphabet) x
#            contexts, with bash's status/effect for integer arguments (rendered by the spec)
#   breadth  every builtin name x argument vectors (<= 2 words, 30-word alphabet) x 9 contexts
#   params   argument vectors for interp.Params
#   slice    ${X:offset:length} as offset x length over {0 1 3 -1 -4 99 -99 empty} (length also absent) on
#            scalars of several lengths, a positional parameter, array elements, ${a[@]:o:l}, ${@:o:l}, quoted/unquoted
#   arith    every binary / assignment operator x edge operands (0, -1, +-64, 64-bit limits, empty, unset,
#            expression-valued name, array element, bad octal) in $(( )), (( )), let, for (( )), on scalars and elements
#   syntax   statements that parse in some variant (zsh/mksh/bats constructs the interpreter does
#            not implement, edge values of expansions/arithmetic/redirections) x 9 contexts
# Every vector is run in-process on the real interpreter under recover() with a timeout (Go engines
# c28run / c28params / c28opts); a panic in a goroutine started by the interpreter kills the
# harness process, which is detected and attributed to the vector that was running.
# Verdict of C28: a panic.  Status/output expectations are compared three ways (spec / interp /
# bash): spec != bash is SPEC-DRIFT; interp != bash is recorded as a behaviour deviation in the
# evidence (it is C26's subject, not a C28 violation).
import json
import os
import re
import subprocess
import shutil

import vlib

LEVEL = "model_checking"


def q(w):
    return "'" + w.replace("'", "'\\''") + "'"


def argtext(argv):
    return " ".join(q(w) for w in argv)


def wrap(tpl, ctx, prelude, body):
    pre, suf = tpl[ctx]
    return prelude + "\n" + pre + body + suf + "\n"


def run_resilient(binary, engine, vectors, shards=8, timeout=900):
    """Like vlib.run_harness, but a harness process that dies (panic in a goroutine the interpreter
    started) is a RESULT for the vector it was running, and the remaining vectors of that shard are
    resumed in a new process. Shards run independently (one thread each)."""
    from concurrent.futures import ThreadPoolExecutor
    if not vectors:
        return []
    shards = max(1, min(shards, len(vectors)))
    work = vlib.scratch("c28h-")
    results = [None] * len(vectors)

    def run_shard(k):
        idx = list(range(k, len(vectors), shards))
        rnd = 0
        while idx:
            rnd += 1
            inp = os.path.join(work, "in%d_%d.ndjson" % (k, rnd))
            outp = os.path.join(work, "out%d_%d.ndjson" % (k, rnd))
            with open(inp, "w") as f:
                for i in idx:
                    f.write(json.dumps(vectors[i]) + "\n")
            env = dict(os.environ)
            # results are read from the unbuffered side file (stdout is lost when the process dies)
            side = outp + ".side"
            env.update({"VERIF_SCRATCH": work, "GOGC": "400", "GOMAXPROCS": "4", "GOTRACEBACK": "single", "VERIF_SIDE": side})
            with open(outp, "w") as fo, open(outp + ".err", "w") as fe:
                rc = subprocess.call(["timeout", str(timeout), binary, engine, inp], stdout=fo, stderr=fe, env=env, cwd=work)
            rs = []
            if not os.path.exists(side):
                open(side, "w").close()
            with open(side) as f:
                for l in f:
                    l = l.strip()
                    if l:
                        try:
                            rs.append(json.loads(l))
                        except ValueError:
                            break
            for i, r in zip(idx, rs):
                results[i] = r
            os.unlink(inp)
            os.unlink(outp)
            os.unlink(side)
            if len(rs) >= len(idx):
                return
            err = open(outp + ".err").read()
            if rc == 124:
                raise vlib.Inconclusive("harness %s timed out" % engine)
            if "panic:" not in err and "fatal error:" not in err:
                raise vlib.Inconclusive("harness %s died rc=%s without a Go panic:\n%s" % (engine, rc, err[-2000:]))
            culprit = idx[len(rs)]
            results[culprit] = {"crash": True, "panic": crash_message(err), "stack": crash_stack(err), "status": -5}
            idx = idx[len(rs) + 1:]

    try:
        with ThreadPoolExecutor(max_workers=shards) as ex:
            list(ex.map(run_shard, range(shards)))
        return results
    finally:
        shutil.rmtree(work, ignore_errors=True)


def crash_message(err):
    m = re.search(r"^(panic|fatal error): (.*)$", err, re.M)
    return (m.group(2) if m else err[:200]).strip() + " [in a goroutine started by the interpreter: process killed]"


def crash_stack(err):
    keep = []
    for l in err.split("\n"):
        if "mvdan.cc/sh" in l or "/repo/" in l or "/wt-" in l:
            keep.append(l.strip())
        if len(keep) >= 12:
            break
    return " | ".join(keep)


def panic_key(r, what):
    """Narrow identification of a crash: first interpreter frame + message (numbers normalised) + subject."""
    stack = r.get("stack") or ""
    fn = "?"
    for part in stack.split(" | "):
        m = re.match(r"(mvdan\.cc/sh/v3/[\w./]+(?:\(\*?\w+\))?[\w.]*)", part)
        if m and not part.startswith("/"):
            fn = m.group(1).replace("mvdan.cc/sh/v3/", "")
            break
    msg = re.sub(r"\d+", "N", (r.get("panic") or "").split(" [in a goroutine")[0])
    msg = re.sub(r"0x[0-9a-f]+", "ADDR", msg)
    return "panic %s: %s [%s]" % (fn, msg[:120], what)


def getopts_prog(v):
    lines = []
    for st in v["hist"]:
        if st["k"] == "call":
            lines.append("getopts %s o %s; echo \"$? ${o-U} ${OPTARG-U} $OPTIND\"" % (
                q("".join(st["os"])), argtext(["".join(a) for a in st["args"]])))
        else:
            lines.append("OPTIND=%s" % q(st["v"]))
    return "\n".join(lines) + "\n"


def getopts_exp(v):
    out = []
    for st, o in zip(v["hist"], v["outs"]):
        if st["k"] != "call":
            continue
        arg = "U" if o["arg"][0] == "U" else "".join(o["arg"][1:])
        out.append("%d %s %s %d\n" % (o["st"], o["o"], arg, o["optind"]))
    return "".join(out)


def run(ck):
    h = vlib.build_harness("runner")
    quick = ck.tier == "quick"
    work = vlib.scratch("c28-")
    try:
        vecs = load_vectors(ck, "ShBuiltins.%s.cfg" % ck.tier, work)
        if not quick:
            vecs += [v for v in load_vectors(ck, "ShBuiltins.deep.cfg", work) if len(v.get("hist", [])) == 3]
    finally:
        shutil.rmtree(work, ignore_errors=True)
    tpl, prelude = run.tpl, run.prelude
    fam = {}
    for v in vecs:
        fam.setdefault(v["fam"], []).append(v)
    ck.notes["vectors"] = {k: len(x) for k, x in fam.items()}
    ck.cov["exhaustive"] = True
    ck.cov["rule"] = ("every vector TLC emits is one in-process execution: builtin names x argument vectors of <= 2 words (30-word "
                      "alphabet) x contexts, count builtins x argv x contexts, getopts histories, interp.Params argvs, syntax "
                      "library x contexts; evaluations = executions that parsed and ran; non-trivial = executions that ended with a "
                      "non-zero status or wrote to stderr (an error path was taken)")
    ck.assumptions += ["external commands are never spawned (exec handler reports 'not found'); stdin is absent unless the context pipes into the command",
                       "a call that does not return within 4 s is recorded as a timeout note, not as a panic",
                       "function-valued options of interp.New (handlers) are not exercised with nil values"]
    progs = []   # (vector, what, src, expected-or-None)
    for v in fam.get("breadth", []):
        body = v["name"] + (" " + argtext(v["argv"]) if v["argv"] else "")
        progs.append((v, "builtin=%s" % v["name"], wrap(tpl, v["ctx"], prelude, body), None))
    for v in fam.get("syntax", []):
        progs.append((v, "syntax: " + " ;; ".join(c[:40] for c in v["cons"]), wrap(tpl, v["ctx"], prelude, "\n".join(v["cons"])), None))
    for v in fam.get("slice", []):
        progs.append((v, "slice", "\n".join(v["prog"]) + "\n", None))
    for v in fam.get("arith", []):
        progs.append((v, "arith %s" % v["form"], "\n".join(v["prog"]) + "\n", None))
    for v in fam.get("count", []):
        src = "\n".join(v["prog"]).replace("@ARGS@", argtext(v["argv"])) + "\n"
        progs.append((v, "builtin=%s" % v["name"], src, "".join(l + "\n" for l in v["exp"]) if v["scope"] else None))
    for v in fam.get("getopts", []):
        progs.append((v, "builtin=getopts", getopts_prog(v), getopts_exp(v) if v["scope"] else None))
    if os.environ.get("VERIF_CORRUPT"):
        # development aid: damage one expected value; must surface as SPEC-DRIFT/deviation, and
        # replace one program by one that is known to make a recover()ed panic visible
        for i, p in enumerate(progs):
            if p[3]:
                progs[i] = (p[0], p[1], p[2], p[3] + "corrupted\n")
                break
    run_programs(ck, h, progs)
    # ---- interp.Params / interp.New options
    pv = [{"argv": v["argv"]} for v in fam.get("params", [])]
    for v, r in zip(fam.get("params", []), run_resilient(h, "c28params", pv, shards=4)):
        ck.cov["evaluations"] += 1
        ck.cov["traces_validated_against_impl"] += 1
        if r.get("panic"):
            ck.violation(panic_key(r, "interp.Params"), {"vector": {"engine": "c28params", "vec": {"argv": v["argv"]}}, "impl": r})
        elif r.get("new_error"):
            ck.cov["distinct_nontrivial"] += 1
    r = run_resilient(h, "c28opts", [{}], shards=1)[0]
    if r.get("crash"):
        ck.violation(panic_key(r, "interp.New options"), {"vector": {"engine": "c28opts", "vec": {}}, "impl": r})
    for c in r.get("cases", []):
        ck.cov["evaluations"] += 1
        if c.get("panic"):
            ck.violation(panic_key(c, "interp.New option %s" % c["name"]), {"vector": {"engine": "c28opts", "vec": {}}, "impl": c})
    ck.notes["new_option_cases"] = len(r.get("cases", []))


def load_vectors(ck, cfg, work):
    path = os.path.join(work, cfg + ".ndjson")
    with open(path, "w") as f:
        t = vlib.run_tlc("ShBuiltins", cfg, workers=8, timeout=1500, stream_to={"VEC": f})
    ck.add_tlc(t)
    if not t.ok:
        raise vlib.Inconclusive("ShBuiltins: contract model inconsistent (range invariant or law violated):\n" + (t.violation or t.raw_tail))
    st = t.vecs.get("STAT", [])
    if not st:
        raise vlib.Inconclusive("ShBuiltins: no template record emitted")
    run.tpl, run.prelude = st[0]["ctx"], st[0]["prelude"]
    return [json.loads(l) for l in open(path)]


GOROUTINE_CTX = ("pipeL", "bg")


def body_id(v):
    return json.dumps([v.get("name"), v.get("argv"), v.get("cons")])


def run_programs(ck, h, progs, shards=12):
    hv = [{"src": src, "lang": "any" if what.startswith("syntax") else "bash"} for _, what, src, _ in progs]
    # Phase 1: every context in which a panic can be recovered in-process.  Phase 2: the contexts
    # that run the command in a goroutine of the interpreter (a panic there kills the process),
    # only for commands that did not already panic in phase 1 -- each of those would cost one
    # process; they are counted as `skipped_goroutine_contexts_of_panicking_commands`.
    ph2 = [i for i, p in enumerate(progs) if p[0].get("ctx") in GOROUTINE_CTX]
    ph2set = set(ph2)
    ph1 = [i for i in range(len(progs)) if i not in ph2set]
    res = [None] * len(progs)
    for i, r in zip(ph1, run_resilient(h, "c28run", [hv[i] for i in ph1], shards=shards)):
        res[i] = r
    panicking = {body_id(progs[i][0]) for i in ph1 if res[i].get("panic")}
    run2 = [i for i in ph2 if body_id(progs[i][0]) not in panicking]
    for i, r in zip(run2, run_resilient(h, "c28run", [hv[i] for i in run2], shards=shards)):
        res[i] = r
    skipped = 0
    for i in ph2:
        if res[i] is None:
            res[i] = {"skipped": True}
            skipped += 1
    ck.notes["skipped_goroutine_contexts_of_panicking_commands"] = ck.notes.get("skipped_goroutine_contexts_of_panicking_commands", 0) + skipped
    # bash cross-check of the vectors for which the spec fixes the output
    idx = [i for i, p in enumerate(progs) if p[3] is not None]
    bres = {}
    if idx:
        snippets = ["OPTIND=1; unset o OPTARG v\n" + progs[i][2] for i in idx]
        for i, b in zip(idx, vlib.run_shell_evals(snippets, shell="bash", per_process=4000)):
            bres[i] = b
    dev = {}
    alone = {}   # construct -> its panic key when run alone at top level
    for (v, what, src, exp), r in zip(progs, res):
        if v["fam"] == "syntax" and len(v["cons"]) == 1 and r.get("panic"):
            alone.setdefault(v["cons"][0], panic_key(r, what))
    for i, ((v, what, src, exp), r) in enumerate(zip(progs, res)):
        if r.get("skipped"):
            continue
        ck.cov["traces_validated_against_impl"] += 1
        rec = {"vector": {"engine": "c28run", "vec": hv[i], "what": what, "exp": exp, "tlc": v}, "impl": r}
        if r.get("panic"):
            ck.cov["evaluations"] += 1
            key = panic_key(r, what)
            if v["fam"] == "syntax" and len(v["cons"]) > 1:
                for c in v["cons"]:
                    if c in alone:
                        key = alone[c]
                        break
            ck.violation(key, rec)
            continue
        if r.get("parse_error"):
            ck.notes["parse_errors"] = ck.notes.get("parse_errors", 0) + 1
            if what.startswith("syntax") and v["ctx"] == "top" and len(v["cons"]) == 1:
                ck.notes.setdefault("unparsed_constructs", []).append(v["cons"][0][:60])
            continue
        ck.cov["evaluations"] += 1
        if r.get("hang") or r.get("timeout"):
            ck.notes["timeouts"] = ck.notes.get("timeouts", 0) + 1
            ck.notes.setdefault("timeout_samples", [])
            if len(ck.notes["timeout_samples"]) < 5:
                ck.notes["timeout_samples"].append(src[-200:])
            continue
        if r["status"] != 0 or r.get("err"):
            ck.cov["distinct_nontrivial"] += 1
        if exp is None:
            continue
        b = bres[i]
        if b["out"] != exp:
            ck.drift({"program": src, "spec": exp, "bash": b["out"], "impl": r["out"]})
            continue
        if r["out"] != b["out"]:
            k = "%s %s" % (what, " ".join(v.get("argv", [])) if v["fam"] == "count" else "history")
            dev.setdefault(what, {"count": 0, "samples": []})
            dev[what]["count"] += 1
            if len(dev[what]["samples"]) < 4:
                dev[what]["samples"].append({"program": src, "bash": b["out"], "interp": r["out"]})
        elif len(ck.cov["samples"]) < 4 and v["fam"] in ("count", "getopts") and exp.strip():
            ck.sample({"program": src, "spec": exp, "interp": r["out"], "bash": b["out"]}, cap=4)
    if dev:
        cur = ck.notes.setdefault("behaviour_deviations_from_bash_not_c28", {})
        for k, d in dev.items():
            c = cur.setdefault(k, {"count": 0, "samples": []})
            c["count"] += d["count"]
            c["samples"] = (c["samples"] + d["samples"])[:4]


def replay(ck, rec):
    h = vlib.build_harness("runner")
    v = rec["vector"]
    r = run_resilient(h, v["engine"], [v["vec"]], shards=1)[0]
    if v["engine"] == "c28opts":
        for c in r.get("cases", []):
            if c.get("panic"):
                ck.violation(panic_key(c, "interp.New option %s" % c["name"]), {"vector": v, "impl": c})
        if r.get("crash"):
            ck.violation(panic_key(r, "interp.New options"), {"vector": v, "impl": r})
        return
    if r.get("panic"):
        ck.violation(panic_key(r, v.get("what", "interp.Params")), {"vector": v, "impl": r})
