# C27 Subshells cannot change the parent shell.   Spec: ShSubshell (Style S, explicit heap).
#
# TLC explores parent descriptor x spawn kind x mutator list, checks Isolation / CellDiscipline
# on the contract and emits every behaviour with the child view the contract predicts (VEC) and
# the parent view per descriptor (PD).  Each behaviour is rendered, for every isolating context
# of its kind, as
#     setup; dump; CONTEXT{ mutators; dump-child }; wait; dump
# and run in the real interpreter (engine c27 of harness/cmd/conc) and, for a subset, in bash.
# Verdicts: the parent's dumps before and after the context must be equal (portable dump D and the
# shell's own raw dump R: declare -p, declare -f, alias, shopt, set -o, ...), equal to the spec's
# parent view, and the child's dump must equal the spec's child view.  Python only concatenates the
# texts that the spec carries, renders views into the dump format and compares.
import json
import vlib

LEVEL = "model_checking"

NAMES = ["s", "t", "a", "m", "o"]
GS = "\x1d"           # section marker (not the \x1e used by vlib.run_shell_evals)


def _dump_fn():
    p = ["D() {\nprintf 'V:'\n"]
    for n in NAMES:
        p.append(
            "case ${%(n)s@a} in\n"
            "*A*) printf '%(n)s=A,%%s:<%%s><%%s><%%s>;' \"${%(n)s@a}\" \"${%(n)s[k]-U}\" \"${%(n)s[j]-U}\" \"${%(n)s[z]-U}\";;\n"
            "*a*) printf '%(n)s=a,%%s,%%s:' \"${%(n)s@a}\" \"${#%(n)s[@]}\"; printf '<%%s>' \"${!%(n)s[@]}\"; printf ':'; "
            "printf '<%%s>' \"${%(n)s[@]}\"; printf ';';;\n"
            "*) printf '%(n)s=s,%%s,%%s:<%%s>;' \"${%(n)s@a}\" \"${%(n)s+S}\" \"${%(n)s-U}\";;\n"
            "esac\n" % {"n": n})
    p.append(
        "printf '|F:'; if type -t fn1 >/dev/null; then fn1; else printf U; fi\n"
        "printf ','; if type -t fn2 >/dev/null; then fn2; else printf U; fi\n"
        "printf '|A:'; alias q 2>/dev/null; printf ','; alias w 2>/dev/null\n"
        "printf '|O:'; [ -o noglob ]; printf '%s' $?; [ -o pipefail ]; printf '%s' $?\n"
        "for x in /nonexistent-zz/*; do printf N; done\n"
        "printf '|C:%s' \"${PWD#\"$B\"}\"\n"
        "printf '|P:%s:' $#; printf '<%s>' \"$@\"\n"
        "printf '|I:%s\\n' \"$OPTIND\"\n"
        "}\n")
    return "".join(p)


# R: the shell's own listing of its state.  Its format is shell-specific, so it is only ever compared
# with itself (before vs after the context, in the same shell).  The associative array m is left to
# D: the interpreter's `declare -p` lists the keys of a map in Go's random iteration order.
RAW_FN = ("R() {\ndeclare -p s t a o OPTIND PWD OLDPWD 2>/dev/null\ndeclare -f fn1 fn2 h pf 2>/dev/null\n"
          "alias\nshopt\nset -o\nprintf '%s|' \"$PWD\" \"$#\" \"$@\"\necho\n}\n")
H_FN = "h() { local s=hl; t=ht; a[1]=ha; }\n"
PRELUDE = "B=$PWD\n" + _dump_fn() + RAW_FN + H_FN


def val(v):
    return "".join(v)


def render_view(view):
    """The text D prints in a shell whose state is `view` (same layout as _dump_fn)."""
    out = ["V:"]
    for n, vv in zip(NAMES, view["vars"]):
        at = "".join(vv["at"])
        if vv["k"] == "A":
            out.append("%s=A,%s:<%s><%s><%s>;" % (n, at, val(vv["probe"]["k"]), val(vv["probe"]["j"]), val(vv["probe"]["z"])))
        elif vv["k"] == "i":
            ks = "".join("<%d>" % k for k in vv["keys"]) or "<>"
            vs = "".join("<%s>" % val(e) for e in vv["vals"]) or "<>"
            out.append("%s=a,%s,%d:%s:%s;" % (n, at, len(vv["keys"]), ks, vs))
        elif vv["k"] == "s":
            out.append("%s=s,%s,S:<%s>;" % (n, at, val(vv["v"])))
        else:
            out.append("%s=s,%s,:<U>;" % (n, at))
    m = view["misc"]
    out.append("|F:%s,%s" % (m["fn"]["fn1"], m["fn"]["fn2"]))
    al = lambda a: "" if m["al"][a] == "U" else "alias %s='%s'\n" % (a, m["al"][a])
    out.append("|A:%s,%s" % (al("q"), al("w")))
    out.append("|O:%d%d%s" % (0 if m["noglob"] else 1, 0 if m["pipefail"] else 1, m["globprobe"]))
    out.append("|C:%s" % "".join(m["cwd"]))
    out.append("|P:%d:%s" % (len(m["params"]), "".join("<%s>" % p for p in m["params"]) or "<>"))
    out.append("|I:%d\n" % m["oi"])
    return "".join(out)


def mark(tag):
    return "printf '\\035%s\\n'" % tag


def pdump(i):
    return "%s; D \"$@\"; %s; R \"$@\"\n" % (mark("P%d" % i), mark("R%d" % i))


COPY = "while IFS= read -r l; do printf '%s\\n' \"$l\"; done"


def context(ctx, body):
    if ctx == "sub":
        return "(\n%s)\n" % body
    if ctx == "cmdsub":
        return "printf '%%s\\n' \"$(\n%s)\"\n" % body
    if ctx == "procin":
        return "%s < <(\n%s)\n" % (COPY, body)
    if ctx == "procout":
        return ": > >(\n%s)\nwait $!\nwait\n" % body
    if ctx == "pipefirst":
        return "{\n%s} | %s\n" % (body, COPY)
    if ctx == "pipelast":
        return ": | {\n%s}\n" % body
    if ctx == "bg":
        return "{\n%s} &\nwait\n" % body
    raise ValueError(ctx)


def render(pd, vec, ctx):
    """-> dict with the program pieces. `setup` comes from the spec's PD record."""
    setup = pd["setup"]
    body = "".join(m + "\n" for m in vec["muts"]) + mark("C") + "; D \"$@\"\n"
    glob = "".join(l + "\n" for l in setup["global"])
    if ctx == "api":
        return {"api": True, "pre": PRELUDE + glob + pdump(0), "child": body, "post": pdump(1)}
    if not pd["pd"]["f"]:
        return {"src": PRELUDE + glob + pdump(0) + context(ctx, body) + pdump(1), "body": glob + pdump(0) + context(ctx, body) + pdump(1)}
    inner = "".join(l + "\n" for l in setup["locals"]) + pdump(0) + context(ctx, body) + pdump(1)
    prog = glob + mark("G0") + "; D \"$@\"\npf() {\n" + inner + "}\npf \"$@\"\n" + mark("G1") + "; D \"$@\"\n"
    return {"src": PRELUDE + prog, "body": prog}


def sections(out):
    secs = {}
    parts = out.split(GS)
    for p in parts[1:]:
        tag, _, rest = p.partition("\n")
        secs[tag] = rest
    return secs


def pdkey(pd):
    return json.dumps(pd, sort_keys=True)


def short(pd):
    return "s=%s,a=%s,m=%s,%s,%s" % (pd["s"], pd["a"], pd["m"], "in-function" if pd["f"] else "top-level", pd["mi"])


class Case:
    __slots__ = ("vec", "ctx", "prog", "impl", "bash")

    def __init__(self, vec, ctx, prog):
        self.vec, self.ctx, self.prog, self.impl, self.bash = vec, ctx, prog, None, None


def run_impl(h, cases):
    vecs = []
    for c in cases:
        if c.ctx == "api":
            vecs.append({k: c.prog[k] for k in ("api", "pre", "child", "post")})
        else:
            vecs.append({"src": c.prog["src"]})
    # one OS thread per shard: the programs are sequential and 16 shards x GOMAXPROCS=16 only thrash
    res = vlib.run_harness(h, "c27", vecs, shards=16, env_extra={"GOMAXPROCS": "2"}, timeout=3600)
    for c, r in zip(cases, res):
        c.impl = r


def run_bash(cases, budget_s=None):
    """bash on the given cases, in chunks, until the time budget is used up (fork throughput of the
    sandbox varies a lot with the load of the machine).  Returns the number of cases run."""
    import time
    todo = [c for c in cases if c.ctx != "api"]
    t0, done = time.time(), 0
    for o in range(0, len(todo), 150):
        if budget_s is not None and done and time.time() - t0 > budget_s:
            break
        part = todo[o:o + 150]
        res = vlib.run_shell_evals([c.prog["body"] for c in part], prelude="mkdir -p d1/d2\n" + PRELUDE, isolate=True,
                                   per_process=75, jobs=2, timeout=900)
        for c, r in zip(part, res):
            c.bash = r
        done += len(part)
    return done


def judge(ck, pds, devmap, c, stats):
    """Apply the verdict rule to one executed case."""
    v, ctx = c.vec, c.ctx
    pd = pds[pdkey(v["pd"])]
    infunc = v["pd"]["f"]
    expP, expC, expG = render_view(pd["pview"]), render_view(v["cview"]), render_view(pd["gview"])
    ident = "ctx=%s parent(%s) muts=%s" % (ctx, short(v["pd"]), json.dumps(v["muts"]))
    rec = {"vector": {"vec": v, "ctx": ctx, "pd": pd}, "program": c.prog.get("src") or c.prog}
    ck.cov["evaluations"] += 1
    r = c.impl
    if r.get("harness_error"):
        raise vlib.Inconclusive("c27 engine: " + r["harness_error"])
    if r.get("panic"):
        ck.violation("panic " + ident, dict(rec, impl=r)); return
    if r.get("timeout") or r.get("run_error"):
        ck.violation("run error/timeout " + ident, dict(rec, impl=r)); return
    ck.cov["traces_validated_against_impl"] += 1
    s = sections(r["out"])
    need = ["P0", "R0", "C", "P1", "R1"] + (["G0", "G1"] if infunc else [])
    if any(k not in s for k in need):
        ck.violation("dump section missing " + ident, dict(rec, impl=r)); return
    b = sections(c.bash["out"]) if c.bash is not None else None
    if b is not None:
        stats["bash"] += 1
        if any(k not in b for k in need) or b["P0"] != b["P1"] or b["R0"] != b["R1"] or (infunc and b["G0"] != b["G1"]):
            # bash itself shows a parent change: the renderer/dump is wrong, never a verdict on the code
            ck.drift(dict(rec, what="bash parent dump differs before/after (machinery)", bash=c.bash)); b = None
    # ---- 1. the property itself: nothing changed in the parent
    changed = []
    if s["P1"] != s["P0"]:
        changed.append("D")
    if s["R1"] != s["R0"]:
        changed.append("R")
    if infunc and s["G1"] != s["G0"]:
        changed.append("G")
    if r.get("go_changed"):
        changed.append("Go")
    if changed:
        stats["parent_changed"] += 1
        if ctx == "pipelast" and s["P1"] == expC:
            key = "Dev_LastPipe"
        else:
            key = "parent changed (%s) %s" % ("+".join(changed), ident)
        ck.violation(key, dict(rec, spec_parent=expP, impl_before=s["P0"], impl_after=s["P1"],
                               raw_before=s["R0"], raw_after=s["R1"], go_changed=r.get("go_changed"),
                               bash=(b or {}).get("P1")))
        return
    # ---- 2. the parent view is the one the spec derives from the set-up
    for tag, exp in (("P0", expP),) + ((("G0", expG),) if infunc else ()):
        if s[tag] != exp:
            if b is not None and b[tag] == s[tag]:
                ck.drift(dict(rec, what="parent view %s" % tag, spec=exp, impl=s[tag], bash=b[tag])); return
            ck.violation("parent view %s differs from the spec: parent(%s)" % (tag, short(v["pd"])),
                         dict(rec, spec=exp, impl=s[tag], bash=(b or {}).get(tag))); return
    # ---- 3. the child saw its own mutations (spec's child view), three-way with bash
    if s["C"] != expC:
        if b is not None and b["C"] == s["C"]:
            ck.drift(dict(rec, what="child view", spec=expC, impl=s["C"], bash=b["C"])); return
        ck.violation("child view differs: %s" % ident, dict(rec, spec=expC, impl=s["C"], bash=(b or {}).get("C")))
        return
    if b is not None and b["C"] != expC:
        # impl = spec but bash disagrees: the contract was written from bash, so flag it
        ck.drift(dict(rec, what="child view: impl = spec, bash differs", spec=expC, impl=s["C"], bash=b["C"])); return
    if v["changed"]:
        stats["nontrivial"] += 1
        ck.sample({"ctx": ctx, "parent": short(v["pd"]), "muts": v["muts"], "child_dump": s["C"][:160], "parent_dump": s["P1"][:160]}, cap=4)


def tlc_cfg(ck, name):
    return "ShSubshell.%s.cfg" % name


def run(ck):
    h = vlib.build_harness("conc")
    quick = ck.tier == "quick"
    all_ctx_thorough = False
    # -- model self-test: the aliasing switch must break Isolation (non-vacuity of the invariant)
    if not quick:
        bt = vlib.run_tlc("ShSubshell", "ShSubshell.buggy.cfg", workers=4, timeout=600, tags=())
        ck.add_tlc(bt)
        if bt.ok or "Isolation" not in (bt.violation or ""):
            raise vlib.Inconclusive("self-test: Buggy=TRUE did not violate Isolation")
        ck.notes["selftest_buggy_violates_Isolation"] = True
    t = vlib.run_tlc("ShSubshell", tlc_cfg(ck, ck.tier), workers=8 if quick else 16, timeout=1500,
                     tags=("VEC", "PD"), heap="6g")
    ck.add_tlc(t)
    if not t.ok:
        raise vlib.Inconclusive("ShSubshell: the contract model is inconsistent:\n" + (t.violation or t.raw_tail))
    pds = {pdkey(p["pd"]): p for p in t.vecs.get("PD", [])}
    vecs = t.vecs.get("VEC", [])
    if not quick:
        # seeded random behaviours with three mutators (TLC -simulate on the same Next)
        sim = vlib.run_tlc("ShSubshell", "ShSubshell.sim.cfg", simulate=6000, depth=4, seed=ck.seed, timeout=1500,
                           tags=("VEC", "PD"), heap="6g")
        ck.add_tlc(sim)
        if not sim.ok:
            raise vlib.Inconclusive("ShSubshell (simulation): contract model inconsistent:\n" + (sim.violation or sim.raw_tail))
        seen = set()
        for v in sim.vecs.get("VEC", []):
            k = (pdkey(v["pd"]), v["ctxs"][0], json.dumps(v["muts"]))
            if len(v["muts"]) == 3 and k not in seen:
                seen.add(k)
                vecs.append(v)
        ck.notes["simulated_len3_behaviours"] = len(seen)
    ck.notes["behaviours"] = len(vecs)
    ck.notes["parent_descriptors"] = len(pds)
    # Every behaviour with at most one mutator runs in every context of its kind; in the quick tier a
    # longer one runs in ONE context of its kind, assigned round-robin (offset by the seed), so each
    # context still gets its share of every parent descriptor; the thorough tier runs them all.
    cases = []
    for i, v in enumerate(vecs):
        pd = pds[pdkey(v["pd"])]
        ctxs = v["ctxs"]
        if quick and len(v["muts"]) > 1:
            ctxs = [ctxs[(i + ck.seed) % len(ctxs)]]
        elif not quick and len(v["muts"]) > 1 and not all_ctx_thorough:
            ctxs = [ctxs[(i + ck.seed) % len(ctxs)]]
        for ctx in ctxs:
            cases.append(Case(v, ctx, render(pd, v, ctx)))
    run_impl(h, cases)
    # -- bash on a subset (one fork per snippet plus the context's own forks; fork throughput here is
    # ~300/s at best): behaviours with at most one mutator first, then a seeded sample of the rest,
    # until the time budget is used up.
    small = [c for c in cases if c.ctx != "api" and len(c.vec["muts"]) <= 1]
    rest = [c for c in cases if c.ctx != "api" and len(c.vec["muts"]) > 1]
    ck.rng.shuffle(small)
    ck.rng.shuffle(rest)
    run_bash(small + rest, budget_s=25 if quick else 180)
    devmap = None
    stats = {"bash": 0, "parent_changed": 0, "nontrivial": 0}
    for c in cases:
        judge(ck, pds, devmap, c, stats)
    ck.cov["distinct_nontrivial"] = stats["nontrivial"]
    # TLC's enumeration of (descriptor, kind, list) is complete at the bound, but a two-mutator list is run
    # in one context of its kind only, so the product with the contexts is not exhausted
    ck.cov["exhaustive"] = False
    ck.cov["rule"] = ("TLC BFS: every parent descriptor x spawn kind x mutator list of length <= MaxLen (one state each), "
                      "lists with <= 1 mutator run in every isolating context of their kind (sub, cmdsub, pipelast / procin, procout, "
                      "pipefirst, bg, Runner.Subshell API), longer lists in one of them (rotating with index+seed); thorough adds "
                      "simulated 3-mutator behaviours; evaluation = one program run in the real interpreter with parent dumps before/after "
                      "and child dump compared; non-trivial = the spec's child view differs from the parent view and the "
                      "interpreter's child dump equals the spec's")
    ck.notes.update({"programs_interp": len(cases), "programs_bash": stats["bash"],
                     "parent_changed_cases": stats["parent_changed"]})
    ck.assumptions += ["bash 5.2.15 as reference for the meaning of the mutators (subset of programs)",
                       "mutators restricted by the spec's Enabled predicate to the non-error paths on which bash and the interpreter agree",
                       "variables s t a m o, functions fn1 fn2, aliases q w, options noglob pipefail nullglob, cwd, params, OPTIND"]


def replay(ck, rec):
    h = vlib.build_harness("conc")
    vv = rec["vector"]
    pd = vv["pd"]
    c = Case(vv["vec"], vv["ctx"], render(pd, vv["vec"], vv["ctx"]))
    run_impl(h, [c])
    if c.ctx != "api":
        run_bash([c])
    stats = {"bash": 0, "parent_changed": 0, "nontrivial": 0}
    pds = {pdkey(pd["pd"]): pd}
    judge(ck, pds, None, c, stats)
    for d in ck.drifts:
        print("SPEC-DRIFT property=C27 %s: spec=%r impl=%r bash=%r" % (d.get("what"), d.get("spec"), d.get("impl"), d.get("bash")))
