# C14 Walk and Preorder visit every node exactly once.   Spec: ShWalk (+ ShWalkTrace).
#
# (1) TLC model-checks the traversal protocol ShWalk on every tree up to MaxNodes nodes with every
#     pruning decision and every stop position: EnteredOnce, StackIsPath (parent before children),
#     PruneSkips, Complete (= the independent recursive definition DFS with pruned subtrees
#     erased, one f(nil) per entered node), Prefix, PreorderLaw.  Self-test: Forget = TRUE (the
#     walker may skip a child) must violate Complete.
# (2) Binding = trace validation.  For every corpus source and variant the Go engine takes the
#     tree shape by reflection over exported fields (independent of Walk), records the callback
#     sequences of the real syntax.Walk (unpruned; pruned at sampled nodes) and syntax.Preorder
#     (complete; stopped at sampled positions), and TLC validates every sequence against the
#     ShWalk actions on that shape (ShWalkTrace: one state per event, many traces per run).
#     A node Walk forgets is an f(nil)/end that the protocol does not allow -> rejected.
# (3) In Go, by comparison only and for *every* node / position of trees up to `maxnodes`:
#     Preorder == Walk's enters, stop-after-k == prefix, prune-at-p == full walk minus p's
#     subtree (laws checked by TLC in (1)).
import json, os, shutil, time
from concurrent.futures import ThreadPoolExecutor
import vlib, corpus

LEVEL = "model_checking"

KNOWN_DEVS = {"Dev_TrailingCommentAfterExit"}


def unvisited(tr):
    """Diagnosis of a rejected trace (never a verdict): nodes that should have been offered to the
    callback but never were = all nodes minus entered ones minus those below a pruned node."""
    kids = tr["kids"]
    entered, prunedn = set(), set()
    for e in tr["ev"]:
        if e[0] == 1:
            entered.add(e[1])
            if e[2] == 0:
                prunedn.add(e[1])
    below = set()

    def rec(n, inside):
        for c in kids[n - 1]:
            if inside:
                below.add(c)
            rec(c, inside or c in prunedn)
    rec(1, 1 in prunedn)
    return [n for n in range(1, len(kids) + 1) if n not in entered and n not in below]


def blocking_nodes(tr, at):
    """Diagnosis of a rejected trace (never a verdict): replay the accepted prefix and return the
    children of the innermost open node(s) that were never offered although the traversal moved on."""
    kids = tr["kids"]
    stack, seen = [], set()
    pre = tr["kind"] == "pre"
    for e in tr["ev"][:at]:
        if e[0] == 1:
            if pre:
                while stack and all(c in seen for c in kids[stack[-1] - 1]):
                    stack.pop()
            seen.add(e[1])
            if e[2] == 1 and e[1] >= 1:
                stack.append(e[1])
        elif stack:
            stack.pop()
    if pre:
        while stack and all(c in seen for c in kids[stack[-1] - 1]):
            stack.pop()
    nxt = tr["ev"][at][1] if at < len(tr["ev"]) and tr["ev"][at][0] == 1 else 0
    out = []
    for n in reversed(stack):
        if nxt and nxt in kids[n - 1]:
            break
        out += [c for c in kids[n - 1] if c not in seen]
    return out


def rej_key(tr, rej):
    if 0 in [e[1] for e in tr["ev"] if e[0] == 1]:
        return "callback received a node that is not reachable through exported fields (%s)" % tr["kind"]
    who = "Walk" if tr["kind"] == "walk" else "Preorder"
    blk = blocking_nodes(tr, rej["at"])
    if not blk and rej["why"].startswith("incomplete"):
        blk = unvisited(tr)
    if blk:
        n = blk[0]
        return "%s never visits %s (%s)" % (who, tr["fld"][n - 1], tr["knd"][n - 1])
    return "%s callback sequence rejected: %s" % (tr["kind"], rej["why"][:80])


def validate_traces(ck, traces, nproc):
    """Run ShWalkTrace over the traces (split into nproc TLC runs). Returns {id: ("ACC"|"REJ"|"DEV", info)}."""
    work = vlib.scratch("c14-")
    try:
        chunks = [traces[k::nproc] for k in range(nproc)]
        paths = []
        for k, ch in enumerate(chunks):
            p = os.path.join(work, "traces%d.ndjson" % k)
            with open(p, "w") as f:
                for t in ch:
                    f.write(json.dumps({"id": t["id"], "kind": t["kind"], "kids": t["kids"], "knd": t["knd"],
                                        "ev": t["ev"], "stopped": t["stopped"]}) + "\n")
            paths.append(p)

        def one(p):
            return vlib.run_tlc("ShWalkTrace", "ShWalkTrace.cfg", workers=1, timeout=1700,
                                env_extra={"VERIF_TRACE": p}, tags=("ACC", "REJ", "DEV"))
        with ThreadPoolExecutor(max_workers=nproc) as ex:
            results = list(ex.map(one, [p for p, ch in zip(paths, chunks) if ch]))
        verdict = {}
        for r in results:
            ck.add_tlc(r)
            if not r.ok:
                raise vlib.Inconclusive("ShWalkTrace failed:\n" + (r.violation or r.raw_tail))
            for i in r.vecs.get("ACC", []):
                verdict[i] = ("ACC", None)
            for d in r.vecs.get("DEV", []):
                verdict[d["id"]] = ("DEV", d)
            for d in r.vecs.get("REJ", []):
                verdict[d["id"]] = ("REJ", d)
        return verdict
    finally:
        shutil.rmtree(work, ignore_errors=True)


def judge(ck, traces, verdict):
    for t in traces:
        v = verdict.get(t["id"])
        if v is None:
            raise vlib.Inconclusive("trace %d was not judged by TLC" % t["id"])
        ck.cov["evaluations"] += 1
        ck.cov["traces_validated_against_impl"] += 1
        if len(t["kids"]) > 1:
            ck.cov["distinct_nontrivial"] += 1
        vec = {"src": t["src"], "lang": t["lang"], "kind": t["kind"], "prune": t["prune"], "stop": t["stop"]}
        if v[0] == "REJ":
            ck.violation(rej_key(t, v[1]), {"vector": vec, "impl": {"events": t["ev"]}, "spec": v[1],
                                            "shape": {"kids": t["kids"], "knd": t["knd"], "fld": t["fld"]}})
        elif v[0] == "DEV":
            for d in v[1]["devs"]:
                if d not in KNOWN_DEVS:
                    raise vlib.Inconclusive("unknown deviation name %r" % d)
                ck.violation(d, {"vector": vec, "impl": {"events": t["ev"]}, "spec": v[1],
                                 "shape": {"kids": t["kids"], "knd": t["knd"]}})
        else:
            if len(ck.cov["samples"]) < 4 and 3 < len(t["kids"]) < 12:
                ck.sample({"src": t["src"][:80], "lang": t["lang"], "kind": t["kind"], "prune": t["prune"], "stop": t["stop"],
                           "knd": t["knd"], "events": t["ev"]})


def collect(ck, h, vecs):
    res = vlib.run_harness(h, "walktrace", vecs, shards=8, timeout=1700)
    traces = []
    kinds = set()
    for v, r in zip(vecs, res):
        if "harness_error" in r:
            raise vlib.Inconclusive("harness: " + r["harness_error"])
        if "panic" in r:
            ck.violation("panic while recording: " + r["panic"][:100], {"vector": {"src": v["src"]}, "impl": r})
            continue
        ck.notes["trees"] = ck.notes.get("trees", 0) + r["trees"]
        ck.notes["nodes"] = ck.notes.get("nodes", 0) + r["nodes"]
        ck.notes["go_comparisons"] = ck.notes.get("go_comparisons", 0) + r["go_checks"]
        ck.cov["evaluations"] += r["go_checks"]
        kinds.update(r["kinds"])
        for m in r["mismatches"]:
            key = "%s%s" % (m["what"], (" [" + m["node"].split(" at ")[0] + "]") if m.get("node") else "")
            ck.violation(key, {"vector": {"src": v["src"], "lang": m["lang"], "kind": "go"}, "impl": m})
        for t in r["traces"]:
            t["src"] = v["src"]
            t["id"] = len(traces) + 1
            traces.append(t)
    return traces, kinds


def run(ck):
    quick = ck.tier == "quick"
    h = vlib.build_harness("synaux")
    ex = ThreadPoolExecutor(max_workers=2)
    f_model = ex.submit(vlib.run_tlc, "ShWalk", "ShWalk.%s.cfg" % ck.tier, workers=4, timeout=1500)
    f_self = ex.submit(vlib.run_tlc, "ShWalk", "ShWalk.selftest.cfg", workers=2, timeout=600)
    # ---- real trees
    extra = []
    if not quick or os.environ.get("VERIF_GEN"):
        # derivations of the TLA+ grammar (spec/ShSyntax.tla): plain layout and the comment layout
        gen = corpus.generated(ck, "quick")
        extra = [s for s in gen if "\\\n" not in s]
        ck.rng.shuffle(extra)
        extra = extra[:3000]
        ck.notes["generated_sources"] = len(extra)
    cl = corpus.classified(h, extra)
    srcs = [s for s, ok in cl if ok]
    if quick:
        idx = list(range(len(srcs)))
        ck.rng.shuffle(idx)
        tricky = set(corpus.TRICKY)
        keep = set(idx[:1000]) | {i for i, s in enumerate(srcs) if s in tricky}
        srcs = [s for i, s in enumerate(srcs) if i in keep]
    vecs = [{"src": s, "langs": corpus.VARIANTS, "seed": ck.seed * 104729 + i,
             "nprune": 2 if quick else 3, "nstop": 1 if quick else 2, "maxnodes": 40 if quick else 400}
            for i, s in enumerate(srcs)]
    t0 = time.time()
    traces, kinds = collect(ck, h, vecs)
    ck.notes["t_record"] = round(time.time() - t0, 1)
    ck.notes["sources"] = len(vecs)
    ck.notes["traces"] = len(traces)
    ck.notes["events"] = sum(len(t["ev"]) for t in traces)
    ck.notes["node_kinds_seen"] = sorted(kinds)
    if os.environ.get("VERIF_C14_CORRUPT") == "1":
        # self-test of the binding only: swap two adjacent events in every 50th recorded trace
        for t in traces[::50]:
            if len(t["ev"]) >= 4:
                t["ev"][1], t["ev"][2] = t["ev"][2], t["ev"][1]
    t0 = time.time()
    verdict = validate_traces(ck, traces, 4 if quick else 8)
    ck.notes["t_validate"] = round(time.time() - t0, 1)
    judge(ck, traces, verdict)
    # ---- the protocol model
    m = f_model.result()
    ck.add_tlc(m)
    if not m.ok:
        raise vlib.Inconclusive("ShWalk: protocol model inconsistent:\n" + (m.violation or m.raw_tail))
    st = f_self.result()
    ck.add_tlc(st)
    if st.ok or "Complete" not in (st.violation or ""):
        raise vlib.Inconclusive("ShWalk self-test: a walker that may skip a child did not violate Complete")
    ck.notes["selftest"] = "Forget=TRUE violates Complete (as required)"
    ck.cov["exhaustive"] = False
    ck.cov["rule"] = ("evaluations = callback sequences of the real Walk/Preorder validated by TLC against ShWalk on the "
                      "reflection-derived shape (traces_validated_against_impl) + Go comparisons of Preorder/stop/prune "
                      "sequences against the validated full walk; distinct_nontrivial = validated traces on trees with more "
                      "than one node")
    ck.assumptions += ["the tree shape is what reflection over exported fields finds (pointers, interfaces, slices, nested "
                       "non-node structs); sibling order is not part of the contract",
                       "trees come from the corpus (repo test tables + tricky inputs) in all five variants with KeepComments; "
                       "BraceExp nodes (only produced by expand.SplitBraces) do not occur"]


def replay(ck, rec):
    h = vlib.build_harness("synaux")
    v = rec["vector"]
    only = None
    if v.get("kind") in ("walk", "pre"):
        only = {"lang": v["lang"], "kind": v["kind"], "prune": v.get("prune", 0), "stop": v.get("stop", 0)}
    vec = {"src": v["src"], "langs": [v["lang"]] if v.get("lang") else corpus.VARIANTS, "seed": 1,
           "nprune": 0, "nstop": 0, "maxnodes": 400, "only": only}
    traces, _ = collect(ck, h, [vec])
    if traces:
        verdict = validate_traces(ck, traces, 1)
        judge(ck, traces, verdict)
