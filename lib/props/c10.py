# C10 Parse errors are well-formed and incompleteness is reported.  Programs from spec/ShSyntax.tla.
# (a) every line-boundary cut of every valid program (multi-line layouts) must parse or be reported
#     incomplete; (b) every parse error (cuts, single-token mutations) points inside the input.
import json
import vlib, syn

LEVEL = "model_checking"
INSERT = ["(", ")", "{", "}", ";", "&", "|", "'", "\"", "`", "$(", "<<", "fi", "do", "done", "esac", "then", "((", "[["]


def mutations(r, rng, n):
    """Single-token mutations of a token sequence (deletion, swap, insertion)."""
    toks = [t for t in r]
    idx = [i for i, t in enumerate(toks) if not t.startswith("<") or t in ("<<", "<(", "<")]
    out = []
    for _ in range(n):
        if not idx:
            break
        i = rng.choice(idx)
        kind = rng.randrange(3)
        m = list(toks)
        if kind == 0:
            del m[i]
        elif kind == 1 and i + 1 < len(m):
            m[i], m[i + 1] = m[i + 1], m[i]
        else:
            m.insert(i, rng.choice(INSERT))
        # drop here-document markers whose operands were disturbed
        if "<HDOC>" in m:
            k = m.index("<HDOC>")
            if k + 2 >= len(m):
                continue
        out.append(m)
    return out


def run(ck):
    h = vlib.build_harness("syn")
    vecs = syn.generate(ck, ck.tier, ck.seed, emit_sim=False)
    layouts = [L for L in syn.load_layouts() if "\n" in L["sep"]]
    jobs, meta = [], []
    for v in vecs:
        # "valid program" = the whole program parses in that variant (the engine checks this itself), so variants
        # the spec leaves unspecified are cut too; variants where the spec says it must be rejected are skipped
        langs = [ln for ln in syn.LANGS if ln not in v["x"]]
        for L in layouts:
            jobs.append({"src": syn.render(v["r"], L), "langs": langs, "valid": True})
            meta.append((v, L, "cut"))
    nmut = 2 if ck.tier == "quick" else 6
    one = syn.load_layouts()[0]
    for v in vecs:
        for m in mutations(v["r"], ck.rng, nmut):
            try:
                src = syn.render(m, one)
            except Exception:
                continue
            jobs.append({"src": src, "langs": syn.LANGS, "valid": False})
            meta.append((v, one, "mutation"))
    res = vlib.run_harness(h, "syncut", jobs, shards=16, timeout=3000)
    cuts = inc = errs = 0
    seen = {}
    nt = set()
    for (v, L, kind), j, r in zip(meta, jobs, res):
        ck.cov["evaluations"] += 1
        if "panic" in r:
            ck.violation("panic|" + json.dumps(j["src"]), {"vector": j, "impl": r}); continue
        cuts += r["cuts"]; inc += r["incomplete"]; errs += r["errors"]
        ck.cov["traces_validated_against_impl"] += r["cuts"] + 1
        if r["incomplete"] or r["errors"]:
            nt.add(j["src"])
        for f in (r["fails"] or []):
            key = "%s|%s" % (f["kind"], f["detail"] if f["kind"] == "cut-not-incomplete" else f["detail"].split(": ")[0])
            rec = {"vector": dict(j, cut=f["cut"], lang=f["lang"]), "impl": f}
            if key not in seen or len(j["src"]) < len(seen[key]["vector"]["src"]):
                seen[key] = rec
            ck.violation(key, seen[key])
        if r["incomplete"] and not r["fails"]:
            ck.sample({"src": j["src"], "cuts": r["cuts"], "reported_incomplete": r["incomplete"]}, cap=4)
    ck.notes.update({"cuts": cuts, "incomplete_reports": inc, "erroring_inputs": errs})
    ck.cov["distinct_nontrivial"] = len(nt)
    ck.cov["exhaustive"] = True
    ck.cov["rule"] = ("every ShSyntax derivation (TLC BFS) under the multi-line layouts, cut after every newline, in every variant where "
                      "it is valid; plus seeded single-token mutations for the error-position clause; non-trivial = distinct source with "
                      "at least one incomplete cut or one parse error")
    ck.assumptions += ["cuts at line boundaries only (as the property states)", "mutations are seeded by VERIF_SEED"]


def replay(ck, rec):
    h = vlib.build_harness("syn")
    v = rec["vector"]
    r = vlib.run_harness(h, "syncut", [{"src": v["src"], "langs": v["langs"], "valid": v["valid"]}])[0]
    kind = rec["key"].split("|")[0]
    for f in (r.get("fails") or []):
        if f["kind"] == kind:
            ck.violation(rec["key"], {"vector": v, "impl": f}); break
