# C31 Cancelling the context stops any program promptly.   Spec: ShCancel (+ ShCancelTrace), Style S.
# TLC checks the liveness property  cancelled ~> returned  under weak fairness and the safety half
# NoStuck for every program shape x every cancellation step on the contract model, and emits the
# shapes.  Each shape is run in the real interpreter by engine c31 (harness/cmd/conc) with the context
# cancelled at exactly hook step k, k = 0, 1, 2, ... ; the verdict is the measured time from cancel to
# the return of Run (bound: killTimeout + margin, re-run once before reporting) and the non-nil error.
# The recorded H12 event traces are validated against ShCancelTrace (wake conditions, goroutine order).
import json, os, shutil
import vlib

LEVEL = "model_checking"
KILL_MS, MARGIN_MS = 200, 3000
POINT = {"bg.start": "start", "procsubst.start": "start", "pipe.start": "start",
         "bg.end": "end", "procsubst.end": "end", "pipe.end": "end"}


def norm_events(evs):
    return [[g, POINT.get(p, p)] for g, p in evs]


def judge(ck, shape, run, stats):
    ck.cov["evaluations"] += 1
    ck.cov["traces_validated_against_impl"] += 1
    ident = "shape=%s (%s) cancel at step %d" % (shape["id"], shape["txt"], run["k"])
    rec = {"vector": {"shape": shape, "steps": [run["k"]]}, "impl": {k: v for k, v in run.items() if k != "events"},
           "events": run["events"][-40:]}
    if run.get("panic"):
        ck.violation("panic: %s" % ident, rec); return
    if not run["returned"]:
        key = "Run did not return within %d ms of cancel: %s blocked=%s" % (KILL_MS + MARGIN_MS, ident, json.dumps(run["blocked"], sort_keys=True))
        ck.violation(key, rec); return
    if run["err_nil"]:
        # the spec replayed this very trace: if it has an accepted path on which main observed the cancellation
        # only inside a trap body, this is the named deviation Dev_TrapSwallowsCancel
        if "trap" in (run.get("spec_seen") or []):
            ck.violation("Dev_TrapSwallowsCancel", rec); return
        ck.violation("Run returned a nil error although cancelled while running: %s" % ident, rec); return
    stats["max_ms"] = max(stats["max_ms"], run["cancel_to_return_ms"])
    stats["nontrivial"].add((shape["id"], run["effective"], run["by_watchdog"]))
    stats["fifo_left"] += run["fifo_left"]
    ck.sample({"shape": shape["txt"], "cancel_step": run["k"], "cancel_to_return_ms": run["cancel_to_return_ms"],
               "err": run["err"], "blocked_goroutines": run["blocked"], "last_events": run["events"][-6:]}, cap=5)


def validate_traces(ck, pairs):
    """pairs: [(shape, run)] -> list of (shape id, k, position) of runs whose trace ShCancelTrace rejects."""
    work = vlib.scratch("c31tr-")
    try:
        path = os.path.join(work, "trace.ndjson")
        index = []          # (first line number, last line number, shape id, k), 1-based
        n = 0
        with open(path, "w") as f:
            for shape, run in pairs:
                f.write(json.dumps({"reset": shape["id"]}) + "\n")
                n += 1
                first = n
                for g, p in norm_events(run["events"]):
                    f.write(json.dumps({"g": g, "p": p}) + "\n")
                    n += 1
                index.append((first, n, shape["id"], run["k"]))
        t = vlib.run_tlc("ShCancelTrace", "ShCancelTrace.cfg", workers=1, timeout=900, env_extra={"VERIF_TRACE": path},
                         tags=("STAT", "RET"))
        ck.add_tlc(t)
        if not t.ok or not t.vecs.get("STAT"):
            raise vlib.Inconclusive("ShCancelTrace failed:\n" + (t.violation or t.raw_tail))
        reached = set(t.vecs["STAT"][-1]["reached"])
        bad = []
        rets = {}
        for x in t.vecs.get("RET", []):
            if x["cancelled"]:
                rets.setdefault(x["pos"], set()).add(x["seen"])
        for (first, last, sid, k), (shape, run) in zip(index, pairs):
            run["spec_seen"] = sorted(rets.get(last, []))     # the "return" event is the last line of the run
        for first, last, sid, k in index:
            if last + 1 not in reached:
                pos = max([x for x in reached if first < x <= last + 1] or [first + 1])
                bad.append((sid, k, pos - first - 1))
        return bad
    finally:
        shutil.rmtree(work, ignore_errors=True)


def run(ck):
    h = vlib.build_harness("conc")
    quick = ck.tier == "quick"
    # the model must be able to fail: a blocking operation without cancellation path breaks liveness
    # (self-test; runs in the background while the contract model is checked and the shapes are run)
    from concurrent.futures import ThreadPoolExecutor
    pool = ThreadPoolExecutor(max_workers=2)
    f_nt = pool.submit(vlib.run_tlc, "ShCancel", "ShCancel.nofifo.cfg", workers=2, timeout=900, tags=())
    f_dv = None if quick else pool.submit(vlib.run_tlc, "ShCancel", "ShCancel.dev.cfg", workers=2, timeout=900, tags=())
    t = vlib.run_tlc("ShCancel", "ShCancel.%s.cfg" % ck.tier, workers=4 if quick else 8, timeout=1500, tags=("SHAPE",))
    ck.add_tlc(t)
    if not t.ok:
        raise vlib.Inconclusive("ShCancel: liveness/safety broken on the contract model:\n" + (t.violation or t.raw_tail))
    shapes = sorted(t.vecs.get("SHAPE", []), key=lambda s: s["id"])
    kmax = 12 if quick else 40
    vecs = [{"id": s["id"], "txt": s["txt"], "kmax": kmax, "kill_ms": KILL_MS, "margin_ms": MARGIN_MS} for s in shapes]
    res = vlib.run_harness(h, "c31", vecs, shards=len(vecs), timeout=1200)
    stats = {"max_ms": 0.0, "nontrivial": set(), "fifo_left": 0}
    pairs = []
    for s, r in zip(shapes, res):
        if r.get("harness_error") or r.get("panic"):
            raise vlib.Inconclusive("c31 engine: %s" % (r.get("harness_error") or r.get("panic")))
        for run_ in r["runs"]:
            pairs.append((s, run_))
    # a run that did not stop (a defect the time bound reports) can record tens of thousands of loop events;
    # such traces are not sent to TLC (trace validation is about the order of events, the verdict is the time bound)
    short = [(s_, r_) for s_, r_ in pairs if len(r_["events"]) <= 800]
    ck.notes["traces_too_long_for_validation"] = len(pairs) - len(short)
    bad = validate_traces(ck, short)
    nt = f_nt.result()
    ck.add_tlc(nt)
    if nt.ok or "Live" not in (nt.violation or ""):
        raise vlib.Inconclusive("self-test: FifoCancellable=FALSE did not violate the liveness property")
    if f_dv is not None:
        dv = f_dv.result()
        ck.add_tlc(dv)
        if not dv.ok:
            raise vlib.Inconclusive("self-test: the defect model is stuck outside the Trigger class:\n" + (dv.violation or ""))
    ck.notes["selftest_liveness_fails_without_fifo_cancel_path"] = True
    for s, run_ in pairs:
        judge(ck, s, run_, stats)
    ck.notes["internal_trace_rejections"] = len(bad)
    if bad:
        ck.notes["trace_rejection_samples"] = [{"shape": a, "cancel_step": b, "event_index": c} for a, b, c in bad[:10]]
        print("TRACE-REJECTED property=C31 %d of %d recorded traces are not behaviours of ShCancel (first: %s)" % (len(bad), len(pairs), bad[0]))
    ck.cov["distinct_nontrivial"] = len(stats["nontrivial"])
    ck.cov["exhaustive"] = False
    ck.cov["rule"] = ("every shape emitted by ShCancel (programs built from the blocking primitives, incl. EXIT/ERR trap bodies) x cancellation at hook step "
                      "k = 0..%d, stopping at the first k the program does not reach (then cancelled while quiescent); evaluation = one "
                      "run of the real interpreter with measured cancel-to-return time; non-trivial = distinct (shape, number of hook "
                      "events before the cancel, quiescent or not) that returned in time with an error" % kmax)
    ck.notes.update({"shapes": len(shapes), "runs": len(pairs), "max_cancel_to_return_ms": round(stats["max_ms"], 1),
                     "bound_ms": KILL_MS + MARGIN_MS, "fifos_left_behind": stats["fifo_left"]})
    ck.assumptions += ["'promptly' = killTimeout (%d ms) + %d ms on this machine" % (KILL_MS, MARGIN_MS),
                       "cancellation steps are H12 hook events; stdin is a pipe that is never written",
                       "hook H12 (build tag verif) is trusted not to change behaviour"]


def replay(ck, rec):
    h = vlib.build_harness("conc")
    v = rec["vector"]
    s = v["shape"]
    r = vlib.run_harness(h, "c31", [{"id": s["id"], "txt": s["txt"], "steps": v["steps"], "kill_ms": KILL_MS,
                                     "margin_ms": MARGIN_MS}], timeout=600)[0]
    stats = {"max_ms": 0.0, "nontrivial": set(), "fifo_left": 0}
    validate_traces(ck, [(s, run_) for run_ in r["runs"]])
    for run_ in r["runs"]:
        judge(ck, s, run_, stats)
