# C34 Environment lists behave like an ordered map.  Spec: ShEnviron (Style S).
# TLC enumerates every pair list up to MaxLen, checks the contract's own consistency
# (MapIsScan, SortedUniq, NoInvalid, UnsettableUnset) and emits one vector per state;
# each vector is replayed on the real expand.ListEnviron / FuncEnviron.
import vlib

LEVEL = "model_checking"


def evaluate(ck, vecs, h):
    res = vlib.run_harness(h, "environ", vecs, shards=8)
    for v, r in zip(vecs, res):
        ck.cov["evaluations"] += 1
        ck.cov["traces_validated_against_impl"] += 1
        if v.get("nontrivial"):
            ck.cov["distinct_nontrivial"] += 1
        lst = ["".join(vlib.unchars(p)) for p in v["list"]]
        key = "ListEnviron(%r)" % (lst,)
        if "panic" in r:
            ck.violation(key + " panic", {"vector": v, "impl": r}); continue
        if "harness_error" in r:
            raise vlib.Inconclusive(r["harness_error"])
        bad = None
        exp_each = [{"name": e["name"], "val": e["val"]} for e in v["each"]]
        got_each = [{"name": e["name"], "val": e["val"]} for e in r["each"]]
        if exp_each != got_each:
            bad = "Each sequence differs"
        elif not all(e["ok"] for e in r["each"]):
            bad = "Each variable not exported string"
        elif r["input_mutated"]:
            bad = "input slice mutated"
        elif r["stops"] != list(range(1, len(exp_each) + 1)):
            bad = "Each ignores early stop"
        else:
            for g, ig, fg in zip(v["gets"], r["gets"], r["fgets"]):
                if g["set"] != ig["set"] or (g["set"] and g["val"] != ig["val"]) or not ig["ok"]:
                    bad = "Get(%r) differs" % "".join(vlib.unchars(g["name"])); break
                fset = g["set"] and g["val"] != []
                if fset != fg["set"] or (fset and fg["val"] != g["val"]):
                    bad = "FuncEnviron Get(%r) differs" % "".join(vlib.unchars(g["name"])); break
        if bad:
            ck.violation(key + ": " + bad, {"vector": v, "impl": r, "spec": {"each": v["each"], "gets": v["gets"]}})
        elif v.get("nontrivial"):
            ck.sample({"list": lst, "each": [["".join(vlib.unchars(e["name"])), "".join(vlib.unchars(e["val"]))] for e in v["each"]]})


def run(ck):
    h = vlib.build_harness()
    cfg = "ShEnviron.%s.cfg" % ck.tier
    t = vlib.run_tlc("ShEnviron", cfg, workers=4 if ck.tier == "quick" else 16, timeout=1500)
    ck.add_tlc(t)
    if not t.ok:
        raise vlib.Inconclusive("contract model inconsistent:\n" + (t.violation or t.raw_tail))
    vecs = t.vecs.get("VEC", [])
    ck.cov["exhaustive"] = True
    ck.cov["rule"] = ("every pair list of length <= MaxLen over a 15-pair alphabet (TLC BFS, one vector per "
                      "distinct state); non-trivial = some pair was dropped/overwritten and at least one name survives")
    ck.assumptions += ["non-Windows (case-sensitive names)", "Get queries limited to the 15 names of ShEnviron!Queries"]
    evaluate(ck, vecs, h)


def replay(ck, rec):
    h = vlib.build_harness()
    evaluate(ck, [rec["vector"]], h)
