# C16 Brace expansion matches bash.  Spec: ShBraces (Style F input builder).
# TLC enumerates every word up to MaxLen over the brace alphabet (plus seeded simulation of longer
# words and a menu of templates), checks the contract's laws and emits one vector per word:
#   {w, has, printed, dropped, count, big, exp, obs, fin, trail}
# Each vector is replayed on the real code (engine "braces" of harness/cmd/bracesarith):
#   (S) syntax.SplitBraces: structural printed form = w; a BraceExp node exists iff spec.has;
#       returned bool = spec.has; the real syntax.Printer on the split word = w
#   (E) expand.BracesSeq on the split word = spec.exp (or the documented limit error iff count > 16384)
#   (F) expand.Fields on the word = spec.fin = bash `printf '<%s>' w`   (three-way, DESIGN section 3)
import json
import vlib

LEVEL = "model_checking"
LIMIT = 16384


def txt(a):
    return vlib.unchars(a)


PRELUDE = "set -f; a=A b=B; set -- P Q; f() { printf '%d:' $#; printf '<%s>' \"$@\"; }"


def fmt(lst):
    return "%d:" % len(lst) + ("".join("<%s>" % e for e in lst) if lst else "<>")


def flatten(batches):
    out = []
    for b in batches:
        if isinstance(b, list):
            out.extend(b)
        else:
            out.append(b)
    return out


def mismatches(o, r, trail):
    """Which observable parts of the harness result r differ from the outputs o (= Out(t) of the spec)."""
    bad = []
    if (r["nbrace"] > 0) != o["has"]:
        bad.append("node")
    if not trail:
        if o["big"]:
            n = o["count"]
            if n > LIMIT:
                if "exp_err" not in r:
                    bad.append("limit")
            elif "exp_err" in r or r.get("exp_len", len(r["exp"])) != n:
                bad.append("count")
        elif "exp_err" in r or r["exp"] != [txt(e) for e in o["exp"]]:
            bad.append("exp")
        if o["obs"]:
            impl = "ERR " + r["fields_err"] if "fields_err" in r else fmt(r["fields"])
            if impl != fmt([txt(e) for e in o["fin"]]):
                bad.append("fields")
    return bad


def evaluate(ck, vecs, h, use_bash=True):
    """vecs: spec vectors (dicts with w as char list). Applies all sub-checks."""
    vecs = [v for v in vecs if v.get("inmodel")]
    res = vlib.run_harness(h, "braces", [{"w": v["w"]} for v in vecs], shards=16)
    # bash only where the spec says the final text is predictable
    bidx = [i for i, v in enumerate(vecs) if v["obs"] and not v["trail"]] if use_bash else []
    bres = {}
    if bidx:
        outs = vlib.run_shell_evals(["f " + txt(vecs[i]["w"]) for i in bidx], prelude=PRELUDE,
                                    per_process=20000, jobs=4)
        bres = dict(zip(bidx, outs))
    st = ck.notes.setdefault("c16", {"parse_skipped": 0, "bash_compared": 0, "word_level": 0, "limit_cases": 0})
    for i, (v, r) in enumerate(zip(vecs, res)):
        w = txt(v["w"])
        rec = {"vector": {"w": v["w"], "spec": v}}
        if "panic" in r:
            ck.cov["evaluations"] += 1
            ck.violation("panic word=%r %s" % (w, r["panic"][:80]), dict(rec, impl=r)); continue
        if "harness_error" in r:
            raise vlib.Inconclusive(r["harness_error"])
        if "parse_error" in r:
            st["parse_skipped"] += 1
            continue
        ck.cov["evaluations"] += 1
        ck.cov["traces_validated_against_impl"] += 1
        if v["has"]:
            ck.cov["distinct_nontrivial"] += 1
        trail = v["trail"]
        if not trail:
            st["word_level"] += 1
        if v["big"]:
            st["limit_cases"] += 1
        # ---- returned bool of SplitBraces
        if r["has"] != v["has"]:
            if r["has"] == v["hasch"]:
                ck.violation("Dev_SplitTrueOnAnyBraceChar", dict(rec, impl=r))
            else:
                ck.violation("SplitBraces word=%r returned %s, spec HasBrace=%s" % (w, r["has"], v["has"]), dict(rec, impl=r))
        # ---- printed form of the split word
        if not trail:
            if r["printed_struct"] != txt(v["printed"]):
                ck.violation("SplitBraces word=%r changes the text to %r" % (w, r["printed_struct"]), dict(rec, impl=r))
            if "printed_panic" in r:
                pp = r["printed_panic"]
                site = "BraceExp.Pos" if "BraceExp).Pos" in pp else "BraceExp.End" if "BraceExp).End" in pp else pp[-120:]
                ck.violation("panic printing the split word: %s" % site, dict(rec, impl=r))
            elif r["printed"] != txt(v["printed"]) and r["nbrace"] > 0:
                ck.violation("Dev_PrinterDropsBraceExp", dict(rec, impl=r))
        # ---- node / BracesSeq / Fields against the spec, bash three-way on the fields
        spec = fmt([txt(e) for e in v["fin"]]) if v["obs"] and not trail else None
        impl = ("ERR " + r["fields_err"] if "fields_err" in r else fmt(r["fields"])) if spec is not None else None
        bash = None
        if i in bres:
            b = bres[i]
            bash = b["out"] if b["rc"] == 0 else "ERR rc=%d %s" % (b["rc"], b["out"])
            st["bash_compared"] += 1
        bad = mismatches(v, r, trail)
        full = dict(rec, impl=r, spec_fields=spec, impl_fields=impl, bash_fields=bash, differs=bad,
                    spec_agrees_with_bash=(bash is None or bash == spec))
        if bash is not None and bash != spec:
            if impl == bash:
                ck.drift(full)          # the spec is wrong about bash; the code is right
                continue
            bad.append("bash")
        if not bad:
            if v["has"]:
                ck.sample({"word": w, "expansion": spec}, cap=5)
            continue
        # known systematic deviations: reported under their name only when the code computes
        # exactly what the named operator of the spec says
        hit = [d["name"] for d in v["devs"] if not mismatches(d, r, trail)]
        if hit:
            ck.violation(hit[0], full); continue
        if bad == ["fields"] and "fields_err" not in r:
            keep = [txt(e) for e in v["finkeep"]]
            fin = [txt(e) for e in v["fin"]]
            got = r["fields"]
            if [x for x in got if x != ""] == fin and len(fin) < len(got) <= len(keep):
                ck.violation("Dev_EmptyBraceWordKept", full); continue
        ck.violation("word=%r differs in %s" % (w, ",".join(bad)), full)


def run(ck):
    h = vlib.build_harness("bracesarith")
    cfg = "ShBraces.%s.cfg" % ck.tier
    t = vlib.run_tlc("ShBraces", cfg, workers=16, timeout=1500)
    ck.add_tlc(t)
    if not t.ok:
        raise vlib.Inconclusive("ShBraces: a law of the contract fails in the model:\n" + (t.violation or t.raw_tail))
    vecs = flatten(t.vecs.get("VEC", []))
    ck.notes["exhaustive_words"] = len(vecs)
    ck.cov["exhaustive"] = True
    ck.cov["rule"] = ("every word up to MaxLen over { } , . 0 1 2 a b - \\ $ (TLC BFS, one vector per word); "
                      "non-trivial = the spec says the word contains a brace expansion")
    evaluate(ck, vecs, h)


def replay(ck, rec):
    h = vlib.build_harness("bracesarith")
    evaluate(ck, [rec["vector"]["spec"]], h)
