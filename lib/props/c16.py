# C16 Brace expansion matches bash.  Spec: ShBraces (Style F input builder).
# TLC enumerates every word up to MaxLen over the brace alphabet (plus seeded simulation of longer
# words and a menu of templates), checks the contract's laws and emits one vector per word:
#   {w, has, printed, dropped, count, big, exp, obs, fin, trail}
# Each vector is replayed on the real code (engine "braces" of harness/cmd/bracesarith):
#   (S) syntax.SplitBraces: structural printed form = w; a BraceExp node exists iff spec.has;
#       returned bool = spec.has; the real syntax.Printer on the split word = w
#   (E) expand.BracesSeq on the split word = spec.exp (or the documented limit error iff count > 16384)
#   (F) expand.Fields on the word = spec.fin = bash `printf '<%s>' w`   (three-way, DESIGN section 3)
import json
import vlib

LEVEL = "model_checking"
LIMIT = 16384


def txt(a):
    return vlib.unchars(a)


PRELUDE = "set -f; a=A b=B; set -- P Q; f() { printf '%d:' $#; printf '<%s>' \"$@\"; }"


def fmt(lst):
    return "%d:" % len(lst) + ("".join("<%s>" % e for e in lst) if lst else "<>")


def flatten(batches):
    out = []
    for b in batches:
        if isinstance(b, list):
            out.extend(b)
        else:
            out.append(b)
    return out


def mismatches(o, r, trail):
    """Which observable parts of the harness result r differ from the outputs o (= Out(t) of the spec)."""
    bad = []
    if (r["nbrace"] > 0) != o["has"]:
        bad.append("node")
    if True:
        if o["big"]:
            n = o["count"]
            if n > LIMIT:
                if "exp_err" not in r:
                    bad.append("limit")
            elif "exp_err" in r or r.get("exp_len", len(r["exp"])) != n:
                bad.append("count")
        elif "exp_err" in r or r["exp"] != [txt(e) for e in o["exp"]]:
            bad.append("exp")
        if o["obs"] and not trail:
            impl = "ERR " + r["fields_err"] if "fields_err" in r else fmt(r["fields"])
            if impl != fmt([txt(e) for e in o["fin"]]):
                bad.append("fields")
    return bad


def evaluate(ck, vecs, h, use_bash=True):
    """vecs: spec vectors (dicts with w as char list). Applies all sub-checks."""
    vecs = [v for v in vecs if v.get("inmodel")]
    from concurrent.futures import ThreadPoolExecutor
    # bash only where the spec says the final text is predictable
    bidx = [i for i, v in enumerate(vecs) if v["obs"] and not v["trail"]] if use_bash else []
    with ThreadPoolExecutor(max_workers=2) as ex:
        fh = ex.submit(vlib.run_harness, h, "braces", [{"w": v["w"]} for v in vecs], shards=8)
        fb = ex.submit(vlib.run_shell_evals, ["f " + txt(vecs[i]["w"]) for i in bidx], prelude=PRELUDE,
                       per_process=4000, jobs=4)
        res, outs = fh.result(), fb.result()
    bres = dict(zip(bidx, outs))
    st = ck.notes.setdefault("c16", {"parse_skipped": 0, "bash_compared": 0, "word_level": 0, "limit_cases": 0})
    for i, (v, r) in enumerate(zip(vecs, res)):
        w = txt(v["w"])
        rec = {"vector": {"w": v["w"], "spec": v}}
        if "panic" in r:
            ck.cov["evaluations"] += 1
            ck.violation("panic word=%r %s" % (w, r["panic"][:80]), dict(rec, impl=r)); continue
        if "harness_error" in r:
            raise vlib.Inconclusive(r["harness_error"])
        if "parse_error" in r:
            st["parse_skipped"] += 1
            continue
        ck.cov["evaluations"] += 1
        ck.cov["traces_validated_against_impl"] += 1
        if v["has"]:
            ck.cov["distinct_nontrivial"] += 1
        trail = v["trail"]
        if not trail:
            st["word_level"] += 1
        if v["big"]:
            st["limit_cases"] += 1
        # ---- printed form of the split word
        if r["printed_struct"] != txt(v["printed"]):
            ck.violation("SplitBraces word=%r changes the text to %r" % (w, r["printed_struct"]), dict(rec, impl=r))
        if not trail:
            if "printed_panic" in r:
                pp = r["printed_panic"]
                site = "BraceExp.Pos" if "BraceExp).Pos" in pp else "BraceExp.End" if "BraceExp).End" in pp else pp[-120:]
                ck.violation("panic printing the split word: %s" % site, dict(rec, impl=r))
            elif r["printed"] != txt(v["printed"]) and r["nbrace"] > 0:
                ck.violation("Dev_PrinterDropsBraceExp", dict(rec, impl=r))
        # ---- node / BracesSeq / Fields against the spec, bash three-way on the fields
        spec = fmt([txt(e) for e in v["fin"]]) if v["obs"] and not trail else None
        impl = ("ERR " + r["fields_err"] if "fields_err" in r else fmt(r["fields"])) if spec is not None else None
        bash = None
        if i in bres:
            b = bres[i]
            bash = b["out"] if b["rc"] == 0 else "ERR rc=%d %s" % (b["rc"], b["out"])
            st["bash_compared"] += 1
        bad = mismatches(v, r, trail)
        full = dict(rec, impl=r, spec_fields=spec, impl_fields=impl, bash_fields=bash, differs=bad,
                    spec_agrees_with_bash=(bash is None or bash == spec))
        if bash is not None and bash != spec:
            if impl == bash:
                ck.drift(full)          # the spec is wrong about bash; the code is right
                continue
            bad.append("bash")
        def check_bool(o):
            # the returned bool of SplitBraces against the HasBrace of the way of splitting the code follows
            if r["has"] != o["has"]:
                if r["has"] == v["hasch"]:
                    ck.violation("Dev_SplitTrueOnAnyBraceChar", dict(rec, impl=r))
                else:
                    ck.violation("SplitBraces word=%r returned %s, HasBrace=%s" % (w, r["has"], o["has"]), dict(rec, impl=r))
        if not bad:
            check_bool(v)
            if v["has"]:
                ck.sample({"word": w, "expansion": spec}, cap=5)
            continue
        # known systematic deviations: reported under their name only when the code computes
        # exactly what the named operator of the spec says
        hit = [d for d in v["devs"] if not mismatches(d, r, trail)]
        if hit:
            check_bool(hit[0])
            ck.violation(hit[0]["name"], full); continue
        check_bool(v)
        if bad == ["fields"] and "fields_err" not in r:
            keep = [txt(e) for e in v["finkeep"]]
            fin = [txt(e) for e in v["fin"]]
            got = r["fields"]
            if [x for x in got if x != ""] == fin and len(fin) < len(got) <= len(keep):
                ck.violation("Dev_EmptyBraceWordKept", full); continue
        ck.violation("word=%r differs in %s" % (w, ",".join(bad)), full)


BASE = {"zero": 0, "max": 2**63 - 1, "min": -2**63}


def render(tokens):
    """A template word/result: 1-char strings and symbolic numbers [base, off] -> text."""
    return "".join(t if isinstance(t, str) else str(BASE[t["base"]] + t["off"]) for t in tokens)


def evaluate_sym(ck, syms, h):
    """Symbolic templates (ends next to the int64 limits): BracesSeq, Fields and bash against the
    spec's symbolic result rendered in decimal."""
    syms = [sv for sv in syms if sv["scope"]]
    words = [render(sv["word"]) for sv in syms]
    res = vlib.run_harness(h, "braces", [{"s": w} for w in words])
    bres = vlib.run_shell_evals(["f " + w for w in words], prelude=PRELUDE)
    st = ck.notes.setdefault("c16", {})
    st["symbolic_templates"] = st.get("symbolic_templates", 0) + len(syms)
    for sv, w, r, b in zip(syms, words, res, bres):
        ck.cov["evaluations"] += 1
        ck.cov["traces_validated_against_impl"] += 1
        ck.cov["distinct_nontrivial"] += 0 if sv["literal"] else 1
        exp = [render(e) for e in sv["exp"]]
        spec = fmt(exp)
        bash = b["out"] if b["rc"] == 0 else "ERR rc=%d" % b["rc"]
        rec = {"vector": {"sym": sv}, "word": w, "spec": spec, "bash": bash, "impl": r}
        if "panic" in r:
            ck.violation("panic word=%r %s" % (w, r["panic"][:80]), rec); continue
        impl_e = "ERR " + r["exp_err"] if "exp_err" in r else fmt(r["exp"])
        impl_f = "ERR " + r["fields_err"] if "fields_err" in r else fmt(r["fields"])
        if (impl_e, impl_f) == (spec, spec) and bash == spec:
            ck.sample({"word": w, "expansion": spec[:120]}, cap=8)
            continue
        if bash != spec and impl_f == bash and impl_e == bash:
            ck.drift(rec); continue
        if sv["wraprisk"] and "exp_err" in r and "would exceed" in r["exp_err"] and bash == spec:
            # the loop variable wrapped around int64 and the sequence ran into the element limit
            ck.violation("Dev_SeqWrapsAtInt64Limit", rec); continue
        ck.violation("template word=%s" % w, rec)


def run(ck):
    from concurrent.futures import ThreadPoolExecutor
    import time
    h = vlib.build_harness("bracesarith")
    T = ck.notes.setdefault("phase_s", {})
    # TLC runs 20 behaviours per unit of num
    nsim, depth = (10, 10) if ck.tier == "quick" else (150, 14)
    jobs = {"bfs": dict(cfg="ShBraces.%s.cfg" % ck.tier, workers=16, timeout=1500, tags=("VEC", "SYM")),
            "sim": dict(cfg="ShBraces.sim.cfg", simulate=nsim, depth=depth, seed=ck.seed, timeout=1500)}
    if ck.tier == "thorough":
        # second exhaustive run: one symbol longer over the reduced alphabet { } , . 1 a \ $
        jobs["bfs2"] = dict(cfg="ShBraces.thorough2.cfg", workers=16, timeout=1500, tags=("VEC", "SYM"))
    t0 = time.time()
    with ThreadPoolExecutor(max_workers=3) as ex:
        futs = {k: ex.submit(lambda a: vlib.run_tlc("ShBraces", a.pop("cfg"), **a), dict(a)) for k, a in jobs.items()}
        runs = {k: f.result() for k, f in futs.items()}
    T["tlc_all_parallel"] = round(time.time() - t0, 1)
    for k in jobs:
        ck.add_tlc(runs[k])
        T["tlc_" + k] = round(runs[k].wall, 1)
        if not runs[k].ok:
            raise vlib.Inconclusive("ShBraces (%s): a law of the contract fails in the model:\n" % k +
                                    (runs[k].violation or runs[k].raw_tail))
    vecs = flatten(runs["bfs"].vecs.get("VEC", []))
    syms = flatten(runs["bfs"].vecs.get("SYM", []))
    ck.notes["exhaustive_words"] = len([v for v in vecs if not v.get("menu")])
    ck.notes["menu_words"] = len([v for v in vecs if v.get("menu")])
    seen = set(json.dumps(v["w"]) for v in vecs)
    for k, note in (("bfs2", "exhaustive_words_reduced_alphabet_len6"), ("sim", "simulated_words")):
        if k not in runs:
            continue
        n = 0
        for v in flatten(runs[k].vecs.get("VEC", [])):
            key = json.dumps(v["w"])
            if key not in seen and not v.get("menu"):
                seen.add(key); vecs.append(v); n += 1
        ck.notes[note] = n
    ck.cov["exhaustive"] = True
    ck.cov["rule"] = ("every word up to MaxLen over { } , . 0 1 2 a b - \\ $ (TLC BFS, one vector per word) + menu words + "
                      "symbolic int64-limit templates + distinct simulated longer words; evaluations = words the parser "
                      "accepts, run through SplitBraces/BracesSeq/Fields; non-trivial = the spec says the word contains a "
                      "brace expansion")
    ck.assumptions += ["bash 5.2.15 as reference (set -f; a=A b=B; $1=P $2=Q)",
                       "shell-level comparison only where the spec can predict the final text (obs): no $0 $$ $- ${..} forms, no lone trailing backslash",
                       "sequences whose ends are more than 2^31 apart are outside the model (bash refuses them for memory reasons)"]
    t0 = time.time()
    evaluate(ck, vecs, h)
    evaluate_sym(ck, syms, h)
    T["replay_and_bash"] = round(time.time() - t0, 1)


def replay(ck, rec):
    h = vlib.build_harness("bracesarith")
    if "sym" in rec["vector"]:
        evaluate_sym(ck, [rec["vector"]["sym"]], h)
    else:
        evaluate(ck, [rec["vector"]["spec"]], h)
    for d in ck.drifts:
        print("SPEC-DRIFT property=%s: the code agrees with bash, the expected value of the vector does not" % ck.prop)
