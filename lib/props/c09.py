# C09 Source positions point at the source they describe.  Specs: ShPos (tracker + token table),
# ShSyntax (programs).  See DESIGN.md section 7/C09.
import json, os
import vlib, syn

LEVEL = "model_checking"

BYTES = {"a": "a", "NL": "\n", "CR": "\r", "CRNL": "\r\n", "NUL": "\x00", "TAB": "\t", "u2": "é", "u3": "€",
         "u4": "\U0001d11e", "bad": None, "BSNL": "\\\n", "SP": " "}


def cls_bytes(cls):
    out = b""
    for c in cls:
        out += b"\xff" if c == "bad" else BYTES[c].encode("utf-8")
    return out


def run(ck):
    h = vlib.build_harness("syn")
    t = vlib.run_tlc("ShPos", "ShPos.%s.cfg" % ck.tier, workers=4, timeout=900)
    ck.add_tlc(t)
    if not t.ok:
        raise vlib.Inconclusive("ShPos: tracker model inconsistent:\n" + (t.violation or t.raw_tail))
    stat = t.vecs.get("STAT", [])
    if not stat:
        raise vlib.Inconclusive("ShPos emitted no token table")
    work = vlib.scratch("c09-")
    try:
        tab = os.path.join(work, "postable.json")
        json.dump(stat[0], open(tab, "w"))
        env = {"VERIF_POSTABLE": tab}
        # ---- part 1: tracker vectors in three contexts
        jobs, meta = [], []
        for v in t.vecs.get("VEC", []):
            b = cls_bytes(v["cls"])
            for ctx, srcb in (("quoted", b"'" + b + b"' tok\n"), ("comment", b"#" + b + b"\ntok\n"), ("blank", b + b"tok\n")):
                e = v[ctx]
                if not e:
                    continue
                jobs.append({"src": srcb.decode("latin-1"), "langs": syn.LANGS,
                             "expect": {"tok": "tok", "off": e["off"], "line": e["line"], "col": e["col"]}})
                meta.append((v, ctx))
        res = vlib.run_harness(h, "synpos", jobs, shards=8, env_extra=env)
        nt = 0
        for (v, ctx), j, r in zip(meta, jobs, res):
            ck.cov["evaluations"] += 1
            ck.cov["traces_validated_against_impl"] += 1
            if v["nontrivial"]:
                nt += 1
            if "panic" in r:
                ck.violation("panic|" + json.dumps(j["src"]), {"vector": j, "impl": r}); continue
            if not r["parsed"]:
                ck.notes["tracker_unparsed"] = ck.notes.get("tracker_unparsed", 0) + 1
            for f in (r["fails"] or []):
                ck.violation("%s|%s|%s|%s" % (f["kind"], f["where"], ctx, "".join(c + "," for c in v["cls"])),
                             {"vector": j, "impl": f})
            if v["nontrivial"] and not r["fails"]:
                ck.sample({"classes": v["cls"], "context": ctx, "expect": j["expect"]}, cap=3)
        # ---- part 2: every position field of every node of the generated programs
        vecs = syn.generate(ck, ck.tier, ck.seed, emit_sim=False)
        layouts = syn.load_layouts()
        jobs, meta = [], []
        for v in vecs:
            for L in layouts:
                src = syn.render(v["r"], L)
                jobs.append({"src": src, "langs": syn.LANGS})
                meta.append((v, L))
        res = vlib.run_harness(h, "synpos", jobs, shards=16, env_extra=env, timeout=3000)
        positions = 0
        seen = {}
        for (v, L), j, r in zip(meta, jobs, res):
            ck.cov["evaluations"] += len(r.get("parsed", []))
            if "panic" in r:
                ck.violation("panic|" + json.dumps(j["src"]), {"vector": j, "impl": r}); continue
            positions += r["checked"]
            if r["parsed"] and any(c for c in v["ch"]):
                nt += 1
            for f in (r["fails"] or []):
                key = "%s|%s" % (f["kind"], f["where"])
                rec = {"vector": j, "impl": f, "layout": L["name"]}
                if key not in seen or len(j["src"]) < len(seen[key]["vector"]["src"]):
                    seen[key] = rec
                ck.violation(key, seen[key])
            if len(ck.cov["samples"]) < 5 and r["parsed"] and not r["fails"] and len(v["ch"]) > 1:
                ck.sample({"src": j["src"], "variants": r["parsed"], "positions_checked": r["checked"]})
        ck.notes["positions_checked"] = positions
        ck.cov["distinct_nontrivial"] = nt
        ck.cov["exhaustive"] = True
        ck.cov["rule"] = ("(1) every byte-class string up to MaxLen over 12 classes (TLC BFS of ShPos) placed in a quoted, comment and "
                          "blank context before a token; (2) every ShSyntax derivation x every layout of the spec (9) x variants: all position fields of all "
                          "nodes checked against the ShPos token table and the line/column contract; non-trivial = class string with a "
                          "line ender or multi-byte class, or program with a non-default choice that parsed")
        ck.assumptions += ["token table transcribed from the repository's sanityChecker contract (spec/ShPos.tla)",
                           "Lit text is compared only where no backslash-newline / backquote+backslash / <<- is present (lexer drops bytes there)"]
    finally:
        import shutil
        shutil.rmtree(work, ignore_errors=True)


def replay(ck, rec):
    h = vlib.build_harness("syn")
    t = vlib.run_tlc("ShPos", "ShPos.quick.cfg", workers=2, timeout=600)
    work = vlib.scratch("c09-")
    tab = os.path.join(work, "postable.json")
    json.dump(t.vecs["STAT"][0], open(tab, "w"))
    r = vlib.run_harness(h, "synpos", [rec["vector"]], env_extra={"VERIF_POSTABLE": tab})[0]
    kind = rec["key"].split("|")[0]
    for f in (r.get("fails") or []):
        if f["kind"] == kind:
            ck.violation(rec["key"], {"vector": rec["vector"], "impl": f}); break
