# C24 printf and echo -e format like bash.  Spec: ShFormat (Style F input builder).
# TLC enumerates formats/argument lists per family (dir, reuse, esc, echo; plus seeded -simulate
# of the mixed builder), checks the contract's own laws, and emits for every state the command
# lines it stands for with the output bytes and status the contract requires (and what the named
# deviations of the current code would give instead).  Each case is
#   (R) run as `printf ...` / `echo ...` in the real interpreter (generic interp engine),
#   (R) for printf: one call of expand.Format(nil, fmt, args) compared with the contract's first pass,
#   (O) run by bash 5.2 (LC_ALL=C.UTF-8), many cases per process,
# and judged three-way (DESIGN section 3) on bytes AND status.
import json, threading
import vlib

LEVEL = "model_checking"

# bounds per tier are in spec/ShFormat.<tier>.cfg (families dir, reuse, esc, echo: exhaustive BFS) and
# spec/ShFormat.mix.<tier>.cfg (family mix: run with -simulate)
SIM = {"quick": (20, 12), "thorough": (100, 16)}     # behaviours, depth (every successor of every visited state is emitted)


def text(t):
    """spec text -> python str of *bytes* (latin-1 view of the UTF-8 encoding)."""
    return vlib.unchars(t).encode("utf-8").decode("latin-1")


def cmdline(case):
    return case["cmd"] + "".join(" " + vlib.shquote(text(w)) for w in case["words"])


def bytes_of(s):
    return [ord(c) for c in s]


def show(case):
    return case["cmd"] + " " + " ".join(json.dumps(vlib.unchars(w)) for w in case["words"])


def run_tlc_part(ck, part, results, errors):
    try:
        if part == "mix":
            nsim, depth = SIM[ck.tier]
            results[part] = vlib.run_tlc("ShFormat", "ShFormat.mix.%s.cfg" % ck.tier, simulate=nsim, depth=depth, seed=ck.seed, timeout=1500)
        else:
            results[part] = vlib.run_tlc("ShFormat", "ShFormat.%s.cfg" % ck.tier, workers=8 if ck.tier == "quick" else 16, timeout=1500)
    except Exception as e:  # reported by the caller
        errors[part] = e


def collect(ck, t, cases, seen):
    for v in t.vecs.get("VEC", []):
        for c in v["cases"]:
            key = cmdline(c)
            if key in seen:
                continue
            seen.add(key)
            c["fam"] = v["fam"]
            per = ck.notes.setdefault("cases_per_family", {})
            per[v["fam"]] = per.get(v["fam"], 0) + 1
            cases.append(c)


def judge(ck, case, ir, br, fr):
    """Three-way verdict for one case. ir: interp result, br: bash result, fr: expand.Format result or None."""
    key = show(case)
    rec = {"vector": case}
    spec = (case["out"], case["status"])
    dev = (case["dout"], case["dstatus"])
    ck.cov["evaluations"] += 1
    ck.cov["traces_validated_against_impl"] += 1
    if ir.get("panic") or ir.get("parse_error") or ir.get("run_error") or ir.get("timeout"):
        ck.violation(key + " : interpreter failed", dict(rec, impl=ir))
        return False
    impl = (bytes_of(ir["out"]), ir["status"])
    bash = (bytes_of(br["out"]), br["rc"])
    rec.update(spec=spec, impl=impl, bash=bash, fired=case["fired"])
    ok = True
    if impl == spec and bash == spec:
        pass
    elif impl == bash and bash != spec:
        ck.drift(rec)
    elif impl == dev and case["fired"] and bash == spec:
        # the code does exactly what the named deviations predict: report under their names
        for name in sorted(case["fired"]):
            ck.violation("Dev_" + name, rec)
        ok = False
    else:
        ck.violation(key, dict(rec, spec_agrees_with_bash=(bash == spec), dev=dev))
        ok = False
    # expand.Format, first pass: error iff malformed; else text and number of consumed arguments
    if fr is not None:
        ck.cov["evaluations"] += 1
        p = case["pass"]
        if fr.get("panic") or fr.get("harness_error"):
            ck.violation(key + " : expand.Format panicked", dict(rec, impl_format=fr))
            return False
        got = (fr["err"], None if fr["err"] else fr["out"], None if fr["err"] else fr["n"])
        want = (p["fatal"], None if p["fatal"] else p["out"], None if p["fatal"] else p["n"])
        wantd = (p["dfatal"], None if p["dfatal"] else p["dout"], None if p["dfatal"] else p["dn"])
        if got != want:
            names = sorted(n for n in case["fired"] if n not in BUILTIN_LEVEL_ONLY)
            if got == wantd and names:
                for name in names:
                    ck.violation("Dev_" + name, dict(rec, api="expand.Format", impl_format=got, spec_format=want))
            else:
                ck.violation("expand.Format " + key, dict(rec, api="expand.Format", impl_format=got, spec_format=want, dev_format=wantd))
            ok = False
    return ok


# deviations that cannot be seen through one call of expand.Format (status / output of the builtin)
BUILTIN_LEVEL_ONLY = {"InvalidNumberStatusZero", "OutputBeforeErrorLost"}


def evaluate(ck, cases, h):
    cmds = [cmdline(c) for c in cases]
    ires = vlib.run_harness(h, "sh", [{"src": s} for s in cmds], shards=4)
    bres = vlib.run_shell_evals(cmds, locale="C.UTF-8")
    pidx = [i for i, c in enumerate(cases) if c["cmd"] == "printf" and "pass" in c]
    fres = vlib.run_harness(h, "format", [{"fmt": cases[i]["words"][0], "args": cases[i]["words"][1:]} for i in pidx], shards=8)
    fmap = dict(zip(pidx, fres))
    for i, c in enumerate(cases):
        if not c.get("scope", True):
            ck.notes["out_of_scope"] = ck.notes.get("out_of_scope", 0) + 1
            continue
        ok = judge(ck, c, ires[i], bres[i], fmap.get(i))
        if c.get("nontrivial"):
            ck.cov["distinct_nontrivial"] += 1
            if ok and len(c["words"]) >= 2:
                ck.sample({"cmd": show(c), "stdout_bytes": c["out"][:40], "status": c["status"]}, cap=5)


def run(ck):
    h = vlib.build_harness("formatquote")
    results, errors = {}, {}
    ths = [threading.Thread(target=run_tlc_part, args=(ck, p, results, errors)) for p in ("bfs", "mix")]
    for t in ths:
        t.start()
    for t in ths:
        t.join()
    if errors:
        raise vlib.Inconclusive("; ".join("%s: %s" % (f, e) for f, e in errors.items()))
    cases, seen = [], set()
    for part in ("bfs", "mix"):
        t = results[part]
        ck.add_tlc(t)
        if not t.ok:
            raise vlib.Inconclusive("ShFormat(%s): a law of the contract fails in the model:\n%s" % (part, t.violation or t.raw_tail))
        collect(ck, t, cases, seen)
    ck.cov["exhaustive"] = True
    ck.cov["rule"] = ("every state of the ShFormat builders (families dir/reuse/esc/echo exhaustively by BFS to the tier's bounds, "
                      "family mix by seeded simulation); one evaluation = one command line run by the interpreter (+ one call of "
                      "expand.Format for printf cases), each also run by bash; non-trivial = the required output differs from the "
                      "format text copied verbatim (printf) / an option cluster or a backslash is present (echo)")
    ck.assumptions += ["bash 5.2.15 with LC_ALL=C.UTF-8 as the reference", "arguments are small integers (|n| < 2^31) or short texts; "
                       "\\u/\\U only for valid code points", "shell quoting of the words by vlib.shquote is trusted"]
    evaluate(ck, cases, h)


def replay(ck, rec):
    h = vlib.build_harness("formatquote")
    evaluate(ck, [rec["vector"]], h)
