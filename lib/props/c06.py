# C06 Parsing and printing never crash or hang.   Level: exploration.
# Spec: ShTokens (input builder: every sequence of lexical fragments up to a bound; TLC enumerates,
# -simulate gives long random sequences) + ShSyntax (generated programs, mutated token by token).
# Go engine: harness/cmd/synrest crash.
#
# For every input x 8 entry points x 5 variants x 4 option rows the call must return: a panic is caught
# by recover() per call, a call that runs longer than the cap is caught by a watchdog (the engine
# process ends with a "hang" record naming the call and the input, and the driver restarts behind it).
# Every tree that comes back is printed with four printer configurations, walked, typedjson-encoded
# and simplified, each under recover().  For a sample of inputs Parse of the input repeated 64x and
# 512x is timed: more than 40x the time for 8x the input (and > 30 ms) is reported as super-linear
# after it has been reproduced in two more runs.
import json, os, shutil, subprocess, collections
import vlib, syn

LEVEL = "exploration"
SYMBOLIC = {"NL": "\n", "CR": "\r", "NUL": "\x00", "TAB": "\t", "BSNL": "\\\n", "BAD": "\xff", "EACUTE": "\xc3\xa9", "SP": " "}
BATCH = 40


# Inputs that a seeded part of an earlier run found to matter: kept so that every run meets them again.
REGRESSION = ["declare a=$((1 b", "until declare -r a=$((foo b; do cmd foo; done; \n", "case a=(", "a<<b;c", "<<"]


def fail_key(f):
    # keyed by where the panic happens (message + innermost mvdan/sh frames), not by the entry point used;
    # "post" marks panics while printing / walking / encoding / simplifying a returned tree
    tag = "post|" if f["entry"].startswith("post:") else "reused parser|" if f["entry"].startswith("reused:") else ""
    return "panic|%s%s" % (tag, f["detail"][:200])


def text_of(seq, frags):
    return "".join(SYMBOLIC.get(frags[i - 1], frags[i - 1]) for i in seq)


def run_tolerant(binary, jobs, shards, timeout=2400):
    """Like vlib.run_harness, but an engine process that ends early with a {"hang": ...} record is
    restarted behind the offending job.  Returns (results in order, hang records)."""
    work = vlib.scratch("c06-")
    try:
        parts = [list(range(k, len(jobs), shards)) for k in range(shards)]
        results = [None] * len(jobs)
        hangs = []
        pending = [p for p in parts if p]
        rounds = 0
        while pending:
            rounds += 1
            if len(hangs) >= 6 or rounds > 12:
                # enough evidence: do not spend 8 s on every further hanging input
                for idx in pending:
                    for i in idx:
                        results[i] = {"fails": [], "calls": 0, "posts": 0, "trees": 0, "worst_ratio": 0, "skipped": True}
                break
            procs = []
            for k, idx in enumerate(pending):
                inp = os.path.join(work, "in%d_%d.ndjson" % (rounds, k))
                with open(inp, "w") as f:
                    for i in idx:
                        f.write(json.dumps(jobs[i]) + "\n")
                outp = inp + ".out"
                fo = open(outp, "w")
                p = subprocess.Popen(["timeout", str(timeout), binary, "crash", inp], stdout=fo, stderr=subprocess.DEVNULL, cwd=work)
                procs.append((p, idx, outp, fo))
            nxt = []
            for p, idx, outp, fo in procs:
                rc = p.wait(); fo.close()
                lines = [json.loads(l) for l in open(outp) if l.strip()]
                done = 0
                for r in lines:
                    if "hang" in r:
                        hangs.append(dict(r, job=jobs[idx[done]]))
                        results[idx[done]] = {"fails": [], "calls": 0, "posts": 0, "trees": 0, "worst_ratio": 0, "hung": True}
                        done += 1
                        break
                    results[idx[done]] = r
                    done += 1
                if done < len(idx):
                    if rc == 0 or (rc != 3 and done == 0):
                        raise vlib.Inconclusive("crash engine rc=%s after %d of %d jobs" % (rc, done, len(idx)))
                    if rc != 3:
                        # died without a record (killed): skip the job it was working on
                        results[idx[done]] = {"fails": [], "calls": 0, "posts": 0, "trees": 0, "worst_ratio": 0, "died": rc}
                        hangs.append({"hang": "engine died rc=%s" % rc, "stack": "", "job": jobs[idx[done]]})
                        done += 1
                    if done < len(idx):
                        nxt.append(idx[done:])
            pending = nxt
        return results, hangs
    finally:
        shutil.rmtree(work, ignore_errors=True)


def mutations(vecs, rng, n):
    from props.c12 import single_mutations
    one = syn.load_layouts()[0]
    pool = list(vecs)
    rng.shuffle(pool)
    out = []
    for v in pool:
        ms = single_mutations(v["r"])
        rng.shuffle(ms)
        for kind, i, m in ms[:max(1, n // max(1, len(pool)) + 1)]:
            try:
                out.append(syn.render(m, one).replace("BAD", "\xff"))
            except Exception:
                pass
        if len(out) >= n:
            break
    return out[:n]


def run(ck):
    import time
    t0 = time.time(); walls = {}

    def lap(name):
        nonlocal t0
        walls[name] = round(time.time() - t0, 1); t0 = time.time()
    h = vlib.build_harness("synrest"); lap("build")
    quick = ck.tier == "quick"
    runs = [("ShTokens.quick.cfg", {}), ("ShTokens.quick3.cfg" if quick else "ShTokens.thorough.cfg", {})]
    if not quick:
        runs.append(("ShTokens.thorough4.cfg", {}))
    runs.append(("ShTokens.sim.cfg", {"simulate": 150 if quick else 1500, "depth": 25, "seed": ck.seed}))
    inputs, origin, frags = {}, collections.Counter(), None
    for cfg, kw in runs:
        if cfg == "ShTokens.quick3.cfg":
            # quick: length 3 over the reduced alphabet (Reduced is a constant of the cfg)
            pass
        t = vlib.run_tlc("ShTokens", cfg, workers=4, timeout=1500, **kw)
        ck.add_tlc(t)
        if not t.ok:
            raise vlib.Inconclusive("ShTokens: builder model inconsistent:\n" + (t.violation or t.raw_tail))
        frags = frags or (t.vecs.get("STAT") or [None])[0]
        if frags is None:
            raise vlib.Inconclusive("ShTokens did not emit its alphabet")
        vs = t.vecs.get("VEC", [])
        cap = {"ShTokens.thorough4.cfg": 60000, "ShTokens.thorough.cfg": 125000}.get(cfg)
        if cap and len(vs) > cap:
            # every sequence up to length 2 is kept (they come from ShTokens.quick.cfg); longer ones are sampled
            ck.rng.shuffle(vs); vs = vs[:cap]
            ck.notes.setdefault("sampled", {})[cfg] = cap
        for s in vs:
            txt = text_of(s, frags)
            if txt not in inputs:
                inputs[txt] = "sim" if "simulate" in kw else "bfs"
                origin[cfg] += 1
    lap("tlc_shtokens")
    vecs = syn.generate(ck, "quick", ck.seed, emit_sim=False); lap("tlc_shsyntax")
    for s in mutations(vecs, ck.rng, 3000 if quick else 20000):
        if s not in inputs:
            inputs[s] = "mutation"; origin["mutations of ShSyntax programs"] += 1
    for s in REGRESSION:
        if s not in inputs:
            inputs[s] = "regression"; origin["regression inputs kept from earlier runs"] += 1
    srcs = list(inputs)
    # timing sample: every short builder input and a seeded sample of the rest
    timed = set(i for i, s in enumerate(srcs) if len(s) <= (3 if quick else 4))
    rest = [i for i in range(len(srcs)) if i not in timed]
    ck.rng.shuffle(rest)
    timed |= set(rest[:1000 if quick else 20000])
    jobs = []
    lin = [i for i in range(len(srcs)) if i in timed]
    non = [i for i in range(len(srcs)) if i not in timed]
    for group, linear in ((lin, True), (non, False)):
        for o in range(0, len(group), BATCH):
            idx = group[o:o + BATCH]
            jobs.append({"srcs": [srcs[i] for i in idx], "linear": linear, "post": True, "_idx": idx})
    res, hangs = run_tolerant(h, [{k: v for k, v in j.items() if k != "_idx"} for j in jobs], shards=6 if quick else 10); lap("engine")
    calls = posts = trees = 0
    worst = 0.0
    seen = {}
    slow = []
    ck.notes["jobs_skipped_after_repeated_hangs"] = sum(1 for r in res if r.get("skipped"))
    for j, r in zip(jobs, res):
        calls += r["calls"]; posts += r["posts"]; trees += r["trees"]
        worst = max(worst, r.get("worst_ratio", 0))
        for f in (r["fails"] or []):
            src = j["srcs"][f["src"]]
            if f["kind"] == "slow":
                slow.append((src, f)); continue
            key = fail_key(f)
            rec = {"vector": {"src": src, "entry": f["entry"], "lang": f["lang"], "opts": f["opts"],
                              "batch": j["srcs"][:f["src"] + 1] if f["entry"].startswith("reused:") else None}, "impl": f}
            if key not in seen or len(src) < len(seen[key]["vector"]["src"]):
                seen[key] = rec
            ck.violation(key, seen[key])
    unrepro = 0
    for hg in hangs:
        what = hg["hang"].split("|")
        key = "hang|%s" % (what[0] if what else "?")
        # a hang is reported only if the same job hangs again when it is run on its own
        again, h2 = run_tolerant(h, [{k: v for k, v in hg["job"].items() if k != "_idx"}], shards=1)
        if not h2:
            unrepro += 1
            continue
        ck.violation(key, {"vector": {"src": None, "job": hg["job"], "call": h2[0]["hang"]}, "impl": {"stack": h2[0].get("stack", "")}})
    ck.notes["hangs_not_reproduced"] = unrepro
    # super-linear candidates: reproduce twice more before reporting
    confirmed = 0
    for src, f in slow[:20]:
        again = vlib.run_harness(h, "crash", [{"srcs": [src], "linear": True, "post": False}] * 2)
        if all(any(x["kind"] == "slow" for x in (r["fails"] or [])) for r in again):
            confirmed += 1
            ck.violation("slow|Parse|%s" % json.dumps(src)[:80], {"vector": {"src": src, "entry": "Parse x512 vs x64", "lang": "bash", "opts": "plain"}, "impl": f})
    lap("verdicts")
    ck.cov["evaluations"] = calls + posts
    ck.cov["distinct_nontrivial"] = sum(1 for s in srcs if len(s) > 1)
    ck.cov["exhaustive"] = False
    ck.cov["rule"] = ("inputs = every fragment sequence of ShTokens up to length 2 (67 fragments)%s, simulated long sequences, single-token "
                      "mutations of ShSyntax programs; each x 8 entry points x 5 variants x 4 option rows; evaluations = calls + post-"
                      "processing runs (print x4, walk, typedjson, simplify) on returned trees; non-trivial = inputs longer than one byte"
                      % (", length 3 over the reduced alphabet" if quick else ", a 125k sample of length 3, a 60k sample of length 4 over the reduced alphabet"))
    ck.notes.update({"inputs": len(srcs), "inputs_by_origin": dict(origin), "calls": calls, "trees_post_processed": trees,
                     "timed_inputs": len(timed), "worst_time_ratio_x512_over_x64": round(worst, 1), "slow_candidates": len(slow),
                     "slow_confirmed": confirmed, "hangs": len(hangs), "wall_parts_s": walls})
    for s in srcs[:3]:
        pass
    ck.sample({"input": srcs[len(srcs) // 2], "calls_per_input": 160, "outcome": "returned"}, cap=2)
    ck.assumptions += ["a hang is a call that has used more than 6 s of CPU or 90 s of wall time (watchdog) and does so again when its batch is re-run alone; super-linear = x512 input takes > 40x the time of x64 input, reproduced three times",
                       "bytes reach the lexer only through the fragment alphabet of spec/ShTokens.tla and the tokens of spec/ShSyntax.tla"]


def replay(ck, rec):
    h = vlib.build_harness("synrest")
    v = rec["vector"]
    if rec["key"].startswith("hang|"):
        res, hangs = run_tolerant(h, [v["job"]], shards=1)
        if hangs:
            ck.violation(rec["key"], {"vector": v, "impl": hangs[0]})
        return
    r = vlib.run_harness(h, "crash", [{"srcs": v.get("batch") or [v["src"]], "linear": rec["key"].startswith("slow|"), "post": True}])[0]
    for f in (r.get("fails") or []):
        key = fail_key(f) if f["kind"] == "panic" else "slow|Parse|%s" % json.dumps(v["src"])[:80]
        if key == rec["key"]:
            ck.violation(key, {"vector": v, "impl": f}); return
