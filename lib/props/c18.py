# C18 QuoteMeta and HasMeta are consistent with matching.  Spec: ShGlobMeta (EXTENDS ShGlob; Style F).
# TLC checks the two statements of the property as invariants of the contract (QuoteLaw, NoMetaLaw)
# on every string up to the token bound over the documented metacharacters plus multi-byte
# characters, and emits each state; each state is replayed on the real code:
#   (1) q = pattern.QuoteMeta(s): HasMeta(q) must be false, Regexp(q) must compile and accept exactly
#       {s} among all subjects (+ s itself + Unescape(s)); bash `case` must agree on the same q;
#   (2) if pattern.HasMeta(p) is false: Regexp(p) may fail only for a malformed p, otherwise its
#       language must be a subset of {Unescape(p)} and equal the spec's; bash must agree.
import json
import vlib
from props import globlib as G

LEVEL = "model_checking"


def evaluate(ck, h, vecs, subjects_raw):
    subjects = {f: [G.text(x) for x in lst] for f, lst in subjects_raw.items()}
    res = G.run_go(h, vecs, subjects_raw, meta=True)
    # bash on the real QuoteMeta output and on the pattern itself (only where HasMeta says false)
    qitems, pitems = [], []
    for v, r in zip(vecs, res):
        extra = [G.text(x) for x in v["xsubj"]]
        if "quoted" in r:
            qitems.append((G.text(r["quoted"]), extra))
            pitems.append((G.text(v["pat"]), extra))
    subj = subjects[vecs[0]["fam"]] if vecs else []
    qb = G.bash_match_sets(qitems, subj)
    pb = G.bash_match_sets(pitems, subj)
    k = 0
    for v, r in zip(vecs, res):
        n = len(subj)
        extra = [G.text(x) for x in v["xsubj"]]
        s = G.text(v["pat"])
        rec = {"vector": dict(v, subjects=subjects_raw[v["fam"]]), "string": s}
        if "panic" in r:
            ck.cov["evaluations"] += 1
            ck.violation("panic on %s" % json.dumps(s), dict(rec, impl=r)); continue
        if "harness_error" in r:
            raise vlib.Inconclusive(r["harness_error"])
        bq, bp = qb[k], pb[k]
        k += 1
        ck.cov["traces_validated_against_impl"] += 1
        if v.get("nontrivial"):
            ck.cov["distinct_nontrivial"] += 1
        # ---- statement 1: QuoteMeta
        ck.cov["evaluations"] += 1
        q = G.text(r["quoted"])
        self_set = frozenset(v["self"])
        rec1 = dict(rec, statement=1, quoted_impl=q, quoted_spec=G.text(v["quoted"]))
        if q != G.text(v["quoted"]):
            ck.notes["quotemeta_differs_from_spec_spelling"] = ck.notes.get("quotemeta_differs_from_spec_spelling", 0) + 1
        if r["q_hasmeta"]:
            ck.violation("HasMeta(QuoteMeta(s)) is true: s=%s" % json.dumps(s), rec1)
        elif r["q_err"] or r["q_compile_err"]:
            ck.violation("Regexp(QuoteMeta(s)) fails: s=%s" % json.dumps(s),
                         dict(rec1, impl={"error": r["q_err"] or r["q_compile_err"]}))
        else:
            im = G.impl_set({"acc": r["q_acc"], "xacc": r["q_xacc"]}, n)
            sp = G.spec_set({"acc": v["qacc"], "xacc": v["qxacc"]}, n)
            rec1["impl"] = G.show(im, subj, extra); rec1["spec"] = G.show(sp, subj, extra)
            if bq is not None:
                rec1["bash"] = G.show(bq, subj, extra)
            if sp != self_set:
                raise vlib.Inconclusive("ShGlobMeta: QuoteLaw and the emitted sets disagree for %r" % s)
            if im != self_set:
                ck.violation("QuoteMeta(s) does not match exactly s: s=%s" % json.dumps(s), rec1)
            elif bq is not None and bq != self_set and q == G.text(v["quoted"]):
                ck.drift(rec1)
            elif bq is not None and bq != self_set:
                ck.violation("bash disagrees on QuoteMeta(s): s=%s" % json.dumps(s), rec1)
            elif v.get("nontrivial"):
                ck.sample({"s": s, "QuoteMeta": q, "matches": G.show(im, subj, extra)[:4]})
        # ---- statement 2: HasMeta false => at most one string, the unescaped pattern
        if r["hasmeta"] != v["hasmeta"]:
            ck.notes["hasmeta_differs_from_documented_definition"] = \
                ck.notes.get("hasmeta_differs_from_documented_definition", 0) + 1
            rec["hasmeta_impl"] = r["hasmeta"]
            if not r["hasmeta"]:
                # the code says "no metacharacters" where the documented definition says there are
                ck.notes.setdefault("hasmeta_false_where_spec_true", []).append(s)
        if not r["hasmeta"]:
            ck.cov["evaluations"] += 1
            ck.notes["hasmeta_false_cases"] = ck.notes.get("hasmeta_false_cases", 0) + 1
            rec2 = dict(rec, statement=2, unescaped=G.text(v["unesc"]))
            only = frozenset({n + 2} | {i + 1 for i, x in enumerate(subj) if x == G.text(v["unesc"])}
                             | ({n + 1} if s == G.text(v["unesc"]) else set()))
            if r["err"]:
                if v["malformed"] and r["errkind"] == "syntax":
                    ck.notes["errors_on_malformed"] = ck.notes.get("errors_on_malformed", 0) + 1
                else:
                    ck.violation("Regexp(p) fails although HasMeta(p) is false and p is well formed: p=%s" % json.dumps(s),
                                 dict(rec2, impl={"error": r["err"]}))
                continue
            if r["compile_err"]:
                ck.violation("Regexp(p) does not compile: p=%s" % json.dumps(s), dict(rec2, impl={"error": r["compile_err"]}))
                continue
            im = G.impl_set(r, n)
            sp = G.spec_set(v, n)
            rec2["impl"] = G.show(im, subj, extra); rec2["spec"] = G.show(sp, subj, extra)
            if bp is not None:
                rec2["bash"] = G.show(bp, subj, extra)
            if not im <= only:
                ck.violation("HasMeta(p) false but p matches more than Unescape(p): p=%s" % json.dumps(s), rec2)
            elif im == sp and (bp is None or bp == sp):
                pass
            elif bp is not None and im == bp and bp != sp:
                ck.drift(rec2)
            elif G.dev_explains(ck, v, im, n, rec2):
                pass
            else:
                ck.violation("HasMeta(p) false, language differs: p=%s" % json.dumps(s), rec2)


def run(ck):
    h = vlib.build_harness("glob")
    t = vlib.run_tlc("ShGlobMeta", "ShGlobMeta.%s.cfg" % ck.tier, workers=8, timeout=1500)
    ck.add_tlc(t)
    if not t.ok:
        raise vlib.Inconclusive("ShGlobMeta: a law of the contract fails in the model:\n" + (t.violation or t.raw_tail))
    vecs = t.vecs.get("VEC", [])
    subjects_raw = {s["fam"]: s["subjects"] for s in t.vecs.get("STAT", [])}
    ck.cov["exhaustive"] = True
    ck.cov["rule"] = ("every string of at most maxt+TokBoost symbols over {a * ? [ ] \\ e-acute} (TLC BFS, one vector per state); "
                      "evaluations = QuoteMeta law per string + NoMeta law per string with real HasMeta false; "
                      "non-trivial = QuoteMeta(s) differs from s")
    ck.assumptions += ["default mode (EntireString); extended operators are outside the documented metacharacter set",
                       "subjects: all strings of length <= 2 over the same alphabet plus s itself and Unescape(s)",
                       "bash 5.2.15 `case` (extglob off, LC_ALL=C.utf8) as reference shell"]
    evaluate(ck, h, vecs, subjects_raw)


def replay(ck, rec):
    h = vlib.build_harness("glob")
    v = dict(rec["vector"])
    subjects_raw = {v["fam"]: v.pop("subjects")}
    evaluate(ck, h, [v], subjects_raw)
