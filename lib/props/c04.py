# C04 Simplify preserves behaviour.  Spec: ShSimplify (contract Simp over the trees of ShInterp).
# TLC: Meaning(Simp(p)) = Meaning(p) and idempotence on every generated program (in the model), and one
# vector per program with the source tokens, the tree, Simp(tree), the tree the code is known to produce
# where it deviates (named deviations), and the predicted stdout/status.
# Binding: syntax.Simplify on the real tree -> projected tree must equal Simp(p); the returned bool must
# say whether the tree changed; the simplified tree prints and re-parses; interp(original) = interp(simplified);
# bash likewise.
import json
import vlib
import interpfam as F

LEVEL = "model_checking"
SIMP_DEVS = ["Dev_SimpDollarDq", "Dev_SimpQuoteInDq", "Dev_SimpOnePass", "Dev_SimpInlineWritten"]
TIERS = {
    "quick":    {"MaxLen": 3, "MaxDepth": 2, "sim": (10, 6, 2), "bash": 700},
    "thorough": {"MaxLen": 4, "MaxDepth": 2, "sim": (300, 8, 3), "bash": 8000},
}
FUEL = 150


def sig(a, b, path=""):
    """First position where two projected trees differ (for a violation key that is not the whole program)."""
    if type(a) != type(b):
        return "%s: %s vs %s" % (path, kind(a), kind(b))
    if isinstance(a, dict):
        for k in sorted(set(a) | set(b)):
            if k not in a or k not in b:
                return "%s.%s: %s" % (path, k, "missing in code" if k not in b else "only in code")
            r = sig(a[k], b[k], path + "." + k if k != "k" else path)
            if r:
                return r
        return ""
    if isinstance(a, list):
        if len(a) != len(b):
            return "%s: %d vs %d elements" % (path, len(a), len(b))
        for i, (x, y) in enumerate(zip(a, b)):
            r = sig(x, y, path)
            if r:
                return r
        return ""
    return "" if a == b else "%s: %r vs %r" % (path, a, b)


def kind(x):
    return x.get("k", "obj") if isinstance(x, dict) else type(x).__name__


def res_of(r):
    return (r.get("out"), r.get("status")) if r else None


def judge(ck, v, src, r, bash_pair, counts):
    """All clauses of the property for one program."""
    rec = {"vector": {"src": src, "ch": v.get("ch"), "s": v.get("s"), "sd": v.get("sd"), "t": v.get("t"), "changed": v.get("changed"),
                      "dchanged": v.get("dchanged"), "sdtrig": v.get("sdtrig"), "unsound": v.get("unsound"),
                      "exp": [F.text(v["out"]), v["st"]] if "out" in v else None, "bad": v.get("bad")}}
    short = json.dumps(src[src.index("set -- 5") + 10:][:160]) if "set -- 5" in src else json.dumps(src[:160])
    ck.cov["evaluations"] += 1
    if r.get("parse_error") or r.get("panic") or r.get("harness_error"):
        ck.violation("parse error or panic %s" % short, dict(rec, impl=r)); return
    ck.cov["traces_validated_against_impl"] += 1
    trig = sorted(v.get("sdtrig") or [])
    want_s, want_sd = F.norm_tree(v["s"]), F.norm_tree(v["sd"])
    if F.norm_tree(v["t"]) != r["abs0"]:
        # the parser does not build the tree the generator meant: machinery (renderer) or C11's business
        counts["selfcheck_mismatch"] = counts.get("selfcheck_mismatch", 0) + 1
        ck.notes.setdefault("selfcheck_samples", [])
        if len(ck.notes["selfcheck_samples"]) < 5:
            ck.notes["selfcheck_samples"].append({"src": src, "diff": sig(F.norm_tree(v["t"]), r["abs0"])})
        return
    dev_tree = False
    # (1) the tree
    if r["abs1"] == want_s:
        counts["tree_ok"] = counts.get("tree_ok", 0) + 1
    elif trig and r["abs1"] == want_sd:
        dev_tree = True
        for d in trig:
            ck.violation(d, dict(rec, code_tree=r["abs1"], text=r.get("text")))
    else:
        ck.violation("tree after Simplify differs from Simp(p) at %s" % sig(want_s, r["abs1"]),
                     dict(rec, code_tree=r["abs1"], text=r.get("text")))
    # (2) the returned bool
    if r["changed"] != r["tree_changed"]:
        ck.violation("Simplify returned %s but the tree %s %s" % (r["changed"], "changed" if r["tree_changed"] else "did not change", short), rec)
    elif r["changed"] != (v["dchanged"] if dev_tree else v["changed"]):
        ck.violation("Simplify returned %s, the contract says %s %s" % (r["changed"], v["changed"], short), rec)
    # (3) prints and re-parses
    if r.get("print_error") or r.get("reparse_error") or not r.get("reparse_same", True):
        why = r.get("print_error") or r.get("reparse_error") or "re-parses to a different tree"
        if r.get("orig_print_error"):
            # the tree does not print and re-parse before Simplify either: the printer's defect, not Simplify's
            import re
            why0 = re.sub(r"^\d+:\d+: ", "", r["orig_print_error"])[:80]
            if "- -" in src and "--" in (r.get("text") or ""):
                why0 = "`- -x` is printed as `--x`"
            ck.violation("printer: the tree does not print and re-parse even before Simplify: " + why0, dict(rec, text=r.get("text")))
        elif dev_tree:      # the tree that does not print is the deviation's tree, not the contract's
            for d in trig:
                ck.violation(d, dict(rec, text=r.get("text"), error=why))
        else:
            ck.violation("simplified tree does not print and re-parse: %s %s" % (why[:80], short), dict(rec, text=r.get("text")))
        return
    if v.get("changed"):
        counts["nontrivial"] = counts.get("nontrivial", 0) + 1
        if counts["nontrivial"] % 97 == 1:
            ck.sample({"program": short, "simplified": r["text"].split("set -- 5\n")[-1][:160], "returned": r["changed"],
                       "interp": res_of(r["orig"])}, cap=5)
    # (4) behaviour under the interpreter
    o, s_ = res_of(r["orig"]), res_of(r["simp"])
    if r["orig"].get("panic") or r["simp"].get("panic"):
        ck.violation("panic %s" % str(r["orig"].get("panic") or r["simp"].get("panic"))[:100], dict(rec, impl=r)); return
    if o != s_ or bool(r["orig"].get("timeout")) != bool(r["simp"].get("timeout")):
        if dev_tree and (v.get("unsound") or v.get("bad")):     # (or the original is outside what the model defines)
            for d in trig:
                ck.violation(d, dict(rec, text=r["text"], interp_original=o, interp_simplified=s_))
        else:
            ck.violation("interp: Simplify changes behaviour %s" % short, dict(rec, text=r["text"], interp_original=o, interp_simplified=s_))
    # (5) behaviour under bash
    if bash_pair is not None:
        bo, bs = bash_pair
        counts["bash_pairs"] = counts.get("bash_pairs", 0) + 1
        if v.get("bad") == "" and bo != (F.text(v["out"]), v["st"]):
            ck.drift(dict(rec, bash_original=bo, spec=(F.text(v["out"]), v["st"])))
        if bo != bs:
            if dev_tree and (v.get("unsound") or v.get("bad")):     # (or the original is outside what the model defines)
                for d in trig:
                    ck.violation(d, dict(rec, text=r["text"], bash_original=bo, bash_simplified=bs))
            else:
                ck.violation("bash: Simplify changes behaviour %s" % short, dict(rec, text=r["text"], bash_original=bo, bash_simplified=bs))


def run(ck):
    T = TIERS[ck.tier]
    h = vlib.build_harness(F.FAMILY)
    devs = [d for d in F.active_devs("C04") if d in SIMP_DEVS]
    idevs = F.active_devs("C26")
    consts = {"MaxLen": T["MaxLen"], "MaxDepth": T["MaxDepth"], "EmitAt": 0, "Fuel": FUEL, "EmitTree": False, "Devs": devs}
    t = F.run_tlc(ck, "ShSimplify", consts, ["SCheck"], spec="SSpec", workers=8, timeout=2400)
    vecs = t.vecs.get("VEC", [])
    n, depth, md = T["sim"]
    s = F.run_tlc(ck, "ShSimplify", dict(consts, MaxLen=depth, EmitAt=0, MaxDepth=md), ["SCheck"], spec="SSpec",
                  simulate=n, depth=depth + 1, seed=ck.seed, timeout=2400)
    seen = set(json.dumps(v["ch"]) for v in vecs)
    nb = len(vecs)
    for v in s.vecs.get("VEC", []):
        k = json.dumps(v["ch"])
        if k not in seen:
            seen.add(k); vecs.append(v)
    ck.notes["programs_generated"] = {"bfs": nb, "sim": len(vecs) - nb}
    ck.notes["active_deviation_switches"] = devs
    ck.notes["model_unsound_under_deviations"] = sum(1 for v in vecs if v.get("unsound"))
    L = F.load_layouts()[0]
    srcs = [F.render(v["r"], L) for v in vecs]
    res = F.run_engine(h, "simp", [{"src": s_, "timeout_ms": 2000} for s_ in srcs], shards=4)
    # bash: programs whose text changes, up to the cap (seeded), original and simplified text
    cand = [i for i, r in enumerate(res) if r.get("text") and r["text"] != srcs[i] and not r.get("reparse_error")]
    if len(cand) > T["bash"]:
        cand = sorted(ck.rng.sample(cand, T["bash"]))
    both = [srcs[i] for i in cand] + [res[i]["text"] for i in cand]
    bres = F.run_bash(both, exits=[False] * len(both))
    redo = [j for j in range(len(cand)) if (bres[j][0], bres[j][1]) != (bres[j + len(cand)][0], bres[j + len(cand)][1])]
    if redo:   # differences seen inside the batch shell are decided on isolated runs
        again = F.run_bash([both[j] for j in redo] + [both[j + len(cand)] for j in redo])
        for k, j in enumerate(redo):
            bres[j] = again[k]; bres[j + len(cand)] = again[k + len(redo)]
    pairs = {i: ((bres[j][0], bres[j][1]), (bres[j + len(cand)][0], bres[j + len(cand)][1])) for j, i in enumerate(cand)}
    counts = {}
    for i, (v, r) in enumerate(zip(vecs, res)):
        judge(ck, v, srcs[i], r, pairs.get(i), counts)
    ck.notes["counts"] = counts
    if counts.get("selfcheck_mismatch", 0) > 0.02 * len(vecs):
        raise vlib.Inconclusive("the parser builds a different tree than the generator for %d programs: %r" % (
            counts["selfcheck_mismatch"], ck.notes.get("selfcheck_samples")))
    ck.cov["distinct_nontrivial"] = counts.get("nontrivial", 0)
    ck.cov["exhaustive"] = True
    ck.cov["rule"] = ("every choice sequence of length <= %d of the ShSimplify generator (arithmetic depth %d) plus %d simulated "
                      "behaviours; non-trivial = programs the contract changes (Simp(p) # p)" % (T["MaxLen"], T["MaxDepth"], n))
    ck.assumptions += ["variables used in arithmetic hold plain integers (x=3, y=-2, $1=5, a=(4 5 6 7))",
                       "bash 5.2.15 runs original and simplified text of programs whose text changes (cap %d per run)" % T["bash"],
                       "the meaning of a program is stdout + exit status as defined by ShInterp; arithmetic errors inside $(( )) are out of the model's scope"]


def replay(ck, rec):
    h = vlib.build_harness(F.FAMILY)
    v = rec["vector"]
    r = vlib.run_harness(h, "simp", [{"src": v["src"], "timeout_ms": 2000}])[0]
    vv = dict(v)
    if v.get("exp"):
        vv["out"], vv["st"] = list(v["exp"][0]), v["exp"][1]
    pair = None
    if r.get("text"):
        b = F.run_bash([v["src"], r["text"]])
        pair = ((b[0][0], b[0][1]), (b[1][0], b[1][1]))
    judge(ck, vv, v["src"], r, pair, {})
