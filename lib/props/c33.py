# C33 Indexed arrays behave like a map from indices to values.  Spec: ShArrays (Style S).
# (a) every EDGE of the TLC state graph is one call of the real sparse-array helpers (hook H5);
# (b) every EDGE is also one shell program `a=(<from>); OP; dump` run by interp and bash and
#     compared with the dump the spec defines for the target state;
# (c) seeded random walks over the emitted graph (length <= 20, dump after every step) in four
#     contexts: top level, function with `local a`, subshell, parent then inheriting subshell.
import json
import vlib
from props import c33_assoc

LEVEL = "model_checking"


def fmt(lst):
    return "".join("<%s>" % e for e in lst) if lst else "<>"


def repkey(rep):
    return json.dumps([rep["list"], rep["ix"]])


def dump_expected(st, maxidx):
    parts = [fmt(st["values"]), fmt([str(k) for k in st["keys"]]), str(st["count"])]
    for k in range(maxidx + 1):
        parts.append(st["elems"][str(k)])
    for o in ("0", "1", "2"):
        for n in (0, 1):
            parts.append(fmt(st["slices"][o][n]))
    parts.append(st["last"] if st["count"] else "")
    return "|".join(parts) + "\n"


def dump_fn(maxidx):
    s = ["d() { printf '<%s>' \"${a[@]}\"; printf '|'; printf '<%s>' \"${!a[@]}\"; printf '|%s' \"${#a[@]}\";"]
    for k in range(maxidx + 1):
        s.append(" printf '|%%s' \"${a[%d]}\";" % k)
    for o in (0, 1, 2):
        for n in (1, 2):
            s.append(" printf '|'; printf '<%%s>' \"${a[@]:%d:%d}\";" % (o, n))
    s.append(" printf '|'; if [ ${#a[@]} -gt 0 ]; then printf '%s' \"${a[-1]}\"; fi; echo; }\n")
    return "".join(s)


def q(v):
    return v if v else "''"


def render_op(act, args):
    if act == "set":
        return "a[%d]=%s" % (args[0], q(args[1]))
    if act == "setneg":
        return "a[-%d]=%s" % (args[0], q(args[1]))
    if act == "append":
        return "a+=(%s)" % q(args[0])
    if act == "appendstr":
        return "a+=%s" % q(args[0])
    if act == "unset":
        return "unset 'a[%d]'" % args[0]
    if act == "clear":
        return "unset a"
    if act == "assign2":
        return "a=(%s %s)" % (q(args[0]), q(args[1]))
    raise ValueError(act)


def render_state(st):
    if not st["keys"]:
        return "a=()"
    return "a=(" + " ".join("[%d]=%s" % (k, q(v)) for k, v in zip(st["keys"], st["values"])) + ")"


def three_way(ck, key, spec, impl, bash, rec):
    """Apply the verdict table of DESIGN.md section 3. impl/bash are (out, status)."""
    ck.cov["evaluations"] += 1
    if impl == spec and (bash is None or bash == spec):
        return True
    if bash is not None and impl == bash and bash != spec:
        ck.drift(dict(rec, spec=spec, impl=impl, bash=bash))
        return True
    ck.violation(key, dict(rec, spec=spec, impl=impl, bash=bash,
                           spec_agrees_with_bash=(bash is None or bash == spec)))
    return False


def run(ck):
    h = vlib.build_harness()
    cfg = "ShArrays.%s.cfg" % ck.tier
    maxidx = 3 if ck.tier == "quick" else 5
    t = vlib.run_tlc("ShArrays", cfg, workers=8, timeout=1500)
    ck.add_tlc(t)
    if not t.ok:
        raise vlib.Inconclusive("ShArrays: refinement broken in the model:\n" + (t.violation or t.raw_tail))
    states = {repkey(v["rep"]): v for v in t.vecs.get("VEC", [])}
    edges = t.vecs.get("EDGE", [])
    ck.cov["exhaustive"] = True
    ck.cov["rule"] = ("complete state graph of ShArrays over indices 0..%d and values {x,y,''}: every edge replayed on "
                      "internal.SetIndexedElem/DeleteIndexedElem (H5) and as a shell program in interp and bash; plus seeded "
                      "random walks of length <= 20 in 3 contexts; non-trivial = edge whose source or target is sparse" % maxidx)
    ck.notes["edges"] = len(edges)
    # ---- (a) helper-level replay
    res = vlib.run_harness(h, "arrayrep", edges, shards=8)
    nontriv = set()
    for e, r in zip(edges, res):
        if r.get("skip"):
            continue
        ck.cov["evaluations"] += 1
        ck.cov["traces_validated_against_impl"] += 1
        key = "helper %s%s on list=%s ix=%s" % (e["act"], e["args"], e["from"]["list"], e["from"]["ix"])
        if states[repkey(e["from"])]["sparse"] or states[repkey(e["to"])]["sparse"]:
            nontriv.add(key)
        if "panic" in r:
            ck.violation(key + " panic", {"vector": {"kind": "edge", "edge": e}, "impl": r}); continue
        for o in r["outs"]:
            ix = o["ix"] or []
            if o["list"] != e["to"]["list"] or ix != e["to"]["ix"] or (o["ixnil"] != (e["to"]["ix"] == [])):
                ck.violation(key, {"vector": {"kind": "edge", "edge": e}, "impl": o, "spec": e["to"]}); break
    ck.cov["distinct_nontrivial"] = len(nontriv)
    # ---- (b) shell-level, one program per edge
    progs = []
    for e in edges:
        src = dump_fn(maxidx) + render_state(states[repkey(e["from"])]) + "\n" + render_op(e["act"], e["args"]) + "\nd\n"
        exp = dump_expected(states[repkey(e["to"])], maxidx)
        progs.append({"kind": "prog", "src": src, "exp": exp, "maxidx": maxidx})
    # ---- (c) random walks
    adj = {}
    for e in edges:
        adj.setdefault(repkey(e["from"]), []).append(e)
    nwalks = 200 if ck.tier == "quick" else 4000
    init = repkey({"list": [], "ix": []})
    for w in range(nwalks):
        ctxkind = w % 4
        cur = init
        body, exp, keys_ = [], [], []
        for _ in range(ck.rng.randint(5, 20)):
            e = ck.rng.choice(adj[cur])
            body.append(render_op(e["act"], e["args"]) + "; d")
            cur = repkey(e["to"])
            keys_.append(cur)
            exp.append(dump_expected(states[cur], maxidx))
        if ctxkind == 0:
            src = dump_fn(maxidx) + "\n".join(body) + "\n"
        elif ctxkind == 1:
            src = dump_fn(maxidx) + "a=(g g)\nf() {\nlocal a\n" + "\n".join(body) + "\n}\nf\nd\n"
            exp.append("<g><g>|<0><1>|2|g|g" + "|" * (maxidx - 1) + "|<g>|<g><g>|<g>|<g>|<>|<>|g\n")
        elif ctxkind == 3:
            # the first part of the walk in the parent, the rest in a subshell that inherits the array;
            # afterwards the parent must still see the state at the split
            k = ck.rng.randint(1, len(body) - 1)
            src = dump_fn(maxidx) + "\n".join(body[:k]) + "\n(\n" + "\n".join(body[k:]) + "\n)\nd\n"
            exp.append(dump_expected(states[keys_[k - 1]], maxidx))
        else:
            src = dump_fn(maxidx) + "a=([1]=g)\n(\nunset a\n" + "\n".join(body) + "\n)\nd\n"   # the walk starts from the empty array
            exp.append("<g>|<1>|1||g" + "|" * (maxidx - 1) + "|<g>|<g>|<g>|<g>|<>|<>|g\n")
        progs.append({"kind": "prog", "src": src, "exp": "".join(exp), "maxidx": maxidx, "walk": True, "ctx": ctxkind})
    evaluate_progs(ck, progs, h)
    ck.notes["shell_programs"] = len(progs)
    # ---- (d) associative arrays: the same scheme on spec ShAssoc
    ck.cov["distinct_nontrivial"] += c33_assoc.run_assoc(ck, h, three_way)
    ck.cov["rule"] += ("; plus the complete state graph of ShAssoc (associative arrays: set, +=, unset of a key, h=(), "
                       "h=([k]=v ..), h+=([k]=v), unset h, declare -A) as shell programs in interp and bash and walks in 3 contexts")
    ck.assumptions += ["indices bounded by MaxIdx=%d, three element values" % maxidx, "bash 5.2.15 as the reference shell"]


def split_src(src):
    pre, body = src.split("}\n", 1)
    return pre + "}\n", body


def evaluate_progs(ck, progs, h, attribute=True):
    ires = vlib.run_harness(h, "interp", [{"src": p["src"]} for p in progs], shards=16)
    prelude = split_src(progs[0]["src"])[0]
    bres = vlib.run_shell_evals(["unset a; unset -f f\n" + split_src(p["src"])[1] for p in progs], prelude=prelude)
    failed = []
    for p, ir, br in zip(progs, ires, bres):
        body = split_src(p["src"])[1]
        key = "program " + json.dumps(body[:300])
        rec = {"vector": p}
        if ir.get("panic"):
            ck.cov["evaluations"] += 1
            ck.violation(key + " panic", dict(rec, impl=ir)); continue
        ck.cov["traces_validated_against_impl"] += 1
        spec, impl, bash = (p["exp"], 0), (ir["out"], ir["status"]), (br["out"], br["rc"])
        if attribute and p.get("ctx") == 1 and impl != spec:
            failed.append((p, key, spec, impl, bash)); ck.cov["evaluations"] += 1
            continue
        ok = three_way(ck, key, spec, impl, bash, rec)
        if ok and p.get("walk"):
            ck.sample({"program": body[:200], "stdout": p["exp"][:120]}, cap=3)
    # Attribution of failures in the function context: the same walk with the outer `a=(g g)` removed.
    # If that variant agrees with spec and bash, the failure is the naked-`local` inheritance finding.
    if failed:
        variants = []
        for p, key, spec, impl, bash in failed:
            v = dict(p)
            v["src"] = p["src"].replace("a=(g g)\nf() {", "f() {")
            v["exp"] = p["exp"][:p["exp"].rstrip("\n").rfind("\n") + 1] + dump_expected_empty(p["maxidx"])
            variants.append(v)
        vres = vlib.run_harness(h, "interp", [{"src": v["src"]} for v in variants], shards=8)
        for (p, key, spec, impl, bash), v, vr in zip(failed, variants, vres):
            rec = {"vector": p, "spec": spec, "impl": impl, "bash": bash}
            if (vr.get("out"), vr.get("status")) == (v["exp"], 0):
                ck.violation("naked `local a` in a function inherits the value of the caller's a=(g g) (bash: fresh unset local)", rec)
            else:
                ck.violation(key, rec)


def dump_expected_empty(maxidx):
    return "<>|<>|0" + "|" * (maxidx + 1) + "|<>|<>|<>|<>|<>|<>|\n"


def replay(ck, rec):
    h = vlib.build_harness()
    v = rec["vector"]
    if v.get("kind") == "edge":
        e = v["edge"]
        r = vlib.run_harness(h, "arrayrep", [e])[0]
        key = rec["key"]
        if "panic" in r:
            ck.violation(key, {"vector": v, "impl": r}); return
        for o in r["outs"]:
            if o["list"] != e["to"]["list"] or (o["ix"] or []) != e["to"]["ix"] or (o["ixnil"] != (e["to"]["ix"] == [])):
                ck.violation(key, {"vector": v, "impl": o}); return
    elif v.get("kind") == "assoc":
        c33_assoc.evaluate(ck, [v], h, three_way)
    else:
        evaluate_progs(ck, [v], h)
