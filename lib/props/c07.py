# C07 Parsing does not depend on how input bytes arrive.   Spec: ShLexBuf (Style S).
#
# (1) TLC model-checks the read-window contract (WindowTruth, PeekTruth, SentinelOnlyAtEOF,
#     Progress, SchedIndep) for every class string up to the bound in four look-ahead modes and
#     every legal reader schedule, and emits each completed behaviour (mode, src, schedule).
#     A second TLC run with Loops = FALSE (refill at most once) must violate PeekTruth: the
#     invariant is not vacuous.
# (2) Every emitted (src, schedule) is instantiated through the spec's template table into
#     concrete programs and parsed by the real parser through a reader that delivers exactly
#     the scheduled chunks (prefix/suffix separate and glued, 1 KiB buffer boundary placements,
#     plus one-byte, every single split, data+EOF, empty reads, seeded random chunkings).
# (3) The corpus (repo test tables + tricky inputs) x generic schedules x 5 variants x
#     KeepComments on/off (+ StopAt).
# Verdict: tree (reflect.DeepEqual, positions included) or error text differs from the parse of
# the same bytes offered all at once.
import json, os
import vlib, corpus

LEVEL = "model_checking"

KNOWN_DEVS = {
    "Dev_ZshNumRangeSingleRefill",
    "Dev_ZshParamPrefixPeekTwoSingleRefill",
    "Dev_StopAtWordSplitAcrossReads",
    "Dev_EOFWithDataFinalOffset",
    "Dev_BackquoteEscapeNotRefilled",
}


def short(s, n=60):
    return s if len(s) <= n else s[:n] + "..."


def mis_keys(m):
    """Narrow keys of a mismatch: the named deviation(s) it was attributed to by the harness
    (a boundary inside the deviation's trigger interval AND moving those boundaries out makes the
    parses agree) -- one key per deviation, so that an unlisted one is still reported --
    otherwise the concrete input + options + schedule class."""
    if m["devs"]:
        return list(m["devs"])
    kind = m["sched"]["name"].split("-")[0]
    return ["chunk-dependent parse: lang=%s kc=%s stopat=%r sched=%s src=%r" % (
        m["opts"]["lang"], m["opts"]["kc"], m["opts"]["stopat"], kind, short(m["src"]))]


def absorb(ck, res, vectors, kind):
    """Fold harness results into the check."""
    for v, r in zip(vectors, res):
        if "harness_error" in r:
            raise vlib.Inconclusive("harness: " + r["harness_error"])
        if "panic" in r:
            ck.violation("harness-level panic in %s: %s" % (kind, r["panic"][:100]), {"vector": {"kind": kind, "vec": v}, "impl": r})
            continue
        ck.cov["evaluations"] += r["evals"]
        ck.cov["traces_validated_against_impl"] += r["evals"] - r["programs"]
        ck.cov["distinct_nontrivial"] += r["nontrivial"]
        ck.notes["programs"] = ck.notes.get("programs", 0) + r["programs"]
        ck.notes["mismatching_runs"] = ck.notes.get("mismatching_runs", 0) + r["mis_count"]
        if r.get("sample") and len(ck.cov["samples"]) < 6 and ck.rng.random() < 0.02:
            ck.sample(r["sample"])
        sampled = 0
        for m in r["mismatches"]:
            sampled += 1
            for key in mis_keys(m):
                ck.violation(key, {"vector": {"kind": "one", "src": m["src"], "opts": m["opts"], "sched": m["sched"]},
                                   "impl": m["got"], "spec": m["ref"], "diff": [m.get("diff_ref"), m.get("diff_got")],
                                   "origin": m["tag"], "devs": m["devs"]})
        # mismatches beyond the per-vector sample cap are attributed ones (counted by class)
        for dev, n in r["by_dev"].items():
            ck.notes.setdefault("mismatch_classes", {})
            ck.notes["mismatch_classes"][dev or "unattributed"] = ck.notes["mismatch_classes"].get(dev or "unattributed", 0) + n
            if dev and not set(dev.split("+")) <= KNOWN_DEVS:
                raise vlib.Inconclusive("harness reported unknown deviation name %r" % dev)
            if dev:
                # runs beyond the per-vector sample cap: counted under each (listed) deviation
                extra = n - sum(1 for m in r["mismatches"] if "+".join(m["devs"]) == dev)
                for d in dev.split("+"):
                    if extra > 0 and d in ck.known:
                        ck.known_hit[d] = ck.known_hit.get(d, 0) + extra
                        ck.viol_count += extra


def corpus_vectors(ck, h, quick):
    extra = []
    if not quick:
        # thorough: a seeded sample of the grammar generator's sources under every layout
        gen = corpus.generated(ck, "quick")
        ck.rng.shuffle(gen)
        extra = gen[:6000]
        ck.notes["generated_sources"] = len(extra)
    cl = corpus.classified(h, extra)
    srcs = [s for s, _ in cl]
    if quick:
        # all tricky sources plus a seeded sample of the rest; thorough runs everything
        idx = list(range(len(srcs)))
        ck.rng.shuffle(idx)
        tricky = set(corpus.TRICKY)
        keep = set(idx[:800]) | {i for i, s in enumerate(srcs) if s in tricky}
        srcs = [s for i, s in enumerate(srcs) if i in keep]
    cvecs = []
    for i, s in enumerate(srcs):
        stopats = [""]
        if "$$" in s:
            stopats.append("$$")
        cvecs.append({"src": s, "langs": corpus.VARIANTS, "kcs": [True, False], "stopats": stopats,
                      "seed": ck.seed * 7919 + i, "nrandom": 8 if quick else 32,
                      "max_splits": 120 if quick else 400, "tag": "corpus"})
    return cvecs


def run(ck):
    import time, shutil
    from concurrent.futures import ThreadPoolExecutor
    h = vlib.build_harness("synaux")
    quick = ck.tier == "quick"
    ex = ThreadPoolExecutor(max_workers=3)
    # ---- (1) the contract model; the self-test model and the corpus replay run alongside
    t0 = time.time()
    f_main = ex.submit(vlib.run_tlc, "ShLexBuf", "ShLexBuf.%s.cfg" % ck.tier, workers=8 if quick else 16, timeout=1500)
    f_self = ex.submit(vlib.run_tlc, "ShLexBuf", "ShLexBuf.selftest.cfg", workers=2, timeout=600)

    def corpus_job():
        t1 = time.time()
        cv = corpus_vectors(ck, h, quick)
        r = vlib.run_harness(h, "chunksrc", cv, shards=6 if quick else 12, timeout=1700)
        return cv, r, round(time.time() - t1, 1)
    f_corpus = ex.submit(corpus_job)
    t = f_main.result()
    ck.notes["t_tlc"] = round(time.time() - t0, 1)
    ck.add_tlc(t)
    if not t.ok:
        raise vlib.Inconclusive("ShLexBuf: contract model inconsistent:\n" + (t.violation or t.raw_tail))
    st = f_self.result()
    ck.add_tlc(st)
    if st.ok or "PeekTruth" not in (st.violation or ""):
        raise vlib.Inconclusive("ShLexBuf self-test: Loops=FALSE (single refill) did not violate PeekTruth; "
                                "the invariant is vacuous:\n" + (st.violation or st.raw_tail)[:600])
    ck.notes["selftest"] = "Loops=FALSE violates PeekTruth (as required)"
    stat = t.vecs.get("STAT", [])
    if len(stat) != 1:
        raise vlib.Inconclusive("ShLexBuf did not emit its template table")
    vecs = t.vecs.get("VEC", [])
    if not vecs:
        raise vlib.Inconclusive("ShLexBuf emitted no behaviours")
    groups = {}
    for v in vecs:
        groups.setdefault((v["mode"], tuple(v["src"])), []).append(v["sched"])
    ck.notes["model_behaviours"] = len(vecs)
    ck.notes["model_inputs"] = len(groups)
    ck.notes["model_behaviours_with_refill_in_lookahead"] = sum(1 for v in vecs if v["nontrivial"])
    # ---- (2) replay of every (src, schedule) through the template table
    work = vlib.scratch("c07-")
    try:
        tpath = os.path.join(work, "templates.json")
        with open(tpath, "w") as f:
            json.dump(stat[0], f)
        gvecs = [{"mode": m, "src": list(s), "scheds": sc, "seed": ck.seed * 1000003 + i, "all_langs": not quick}
                 for i, ((m, s), sc) in enumerate(sorted(groups.items()))]
        t0 = time.time()
        res = vlib.run_harness(h, "chunkvec", gvecs, args=[tpath], shards=12, timeout=1700)
        ck.notes["t_chunkvec"] = round(time.time() - t0, 1)
        absorb(ck, res, gvecs, "vec")
    finally:
        shutil.rmtree(work, ignore_errors=True)
    # ---- (3) corpus x generic schedules
    cvecs, res, tc = f_corpus.result()
    ck.notes["corpus_sources"] = len(cvecs)
    ck.notes["t_chunksrc"] = tc
    absorb(ck, res, cvecs, "src")
    ck.cov["exhaustive"] = True
    ck.cov["rule"] = ("evaluations = parses of a concrete program through one reader schedule compared with the parse of the "
                      "same bytes offered at once (plus the reference parses); distinct_nontrivial = runs in which the parser "
                      "called Read more than twice (the input really arrived in several pieces); exhaustive = every class "
                      "string up to the bound x every legal schedule x every template of the mode (quick: in the template's "
                      "primary variant and one rotating variant; thorough: in every listed variant)")
    ck.assumptions += ["the reader is well behaved: it delivers exactly the input bytes, in order, and keeps returning EOF",
                       "read errors other than EOF are out of scope",
                       "byte classes are instantiated by one representative byte each (table ClassBytes in the spec)"]


def replay(ck, rec):
    h = vlib.build_harness("synaux")
    v = rec["vector"]
    if v.get("kind") != "one":
        raise vlib.Inconclusive("unknown replay vector kind")
    one = {"src": v["src"], "opts": v["opts"], "sched": v["sched"]}
    res = vlib.run_harness(h, "chunkone", [one])
    absorb(ck, res, [one], "one")
